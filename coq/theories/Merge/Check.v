(* Correspondence checker and property monitors for C15, evaluated by vm_compute on what the Go harness
   observed from loader.Load.

   model_ok        : the projection of the loaded project equals [load] of the model on the same files.
   holds_C15       : the property text, clause by clause, on the implementation's output - written as a
                     "last mention wins" specification over the whole chain of files, WITHOUT using [merge]:
                       scalar option  = value of the last file that MENTIONS it (also a zero value: the text says
                                        "a single-valued option set in a later file replaces the earlier value")
                       map entry      = value of the last file that has the key
                       process        = present iff some file defines it
                       pointer struct = present iff some file has it, its fields by the same rules
                       environment    = for every key the last entry of the chain with that key is present byte for
                                        byte, and an entry is present only if some file contains it and no LATER file
                                        sets its key (order is not part of the property)
                     The loader's own post-processing ([post], not the subject of C15) is applied on top.
   holds_C15_nz    : the same with "mentions" read as "mentions with a non-zero value" (finding F28: mergo cannot
                     override with a zero value).  A case that fails holds_C15 but passes holds_C15_nz is exactly
                     the known finding "zero-valued scalar in the later file".
   holds_extends   : extends clause, implementation against implementation: Load([child]) and Load of the same
                     chain named explicitly agree on everything except working directories. *)
From Coq Require Import List ZArith Bool NArith.
From Coq Require Ascii String.
From PC.Base Require Import Util.
From PC.Merge Require Import Model.
Import ListNotations.

(* byte strings of the generated cases are written as string literals *)
Fixpoint b (s : String.string) : bytes :=
  match s with
  | String.EmptyString => []
  | String.String a r => Ascii.N_of_ascii a :: b r
  end.

Record ocase := mkCase {
  c_files    : list xfile;               (* the files named on the command line with their extends chains *)
  c_defshell : leaf;                     (* command.DefaultShellConfig() on this machine *)
  c_obs      : option project;           (* projection of Load's result; None = error without project *)
  c_obs2     : option (option project)   (* Load of the explicitly named chain, if the harness did it *)
}.

(* ---------- semantic equality of configurations (order of keys and explicit zeros do not matter) ------ *)
Definition scalar_eqb (a b : scalar) : bool :=
  match a, b with
  | SStr x, SStr y => bytes_eqb x y
  | SInt x, SInt y => Z.eqb x y
  | SBool x, SBool y => Bool.eqb x y
  | _, _ => false
  end.

Definition keys {V} (m : list (N * V)) : list N := map fst m.

Definition smap_eqb (a b : smap) : bool :=
  forallb (fun f => option_eqb scalar_eqb (sget f a) (sget f b)) (keys a ++ keys b).
Definition lmap_eqb (a b : lmap) : bool :=
  forallb (fun f => list_eqb bytes_eqb (lget f a) (lget f b)) (keys a ++ keys b).
Definition kvmap_eqb (a b : kvmap) : bool :=
  forallb (fun k => option_eqb bytes_eqb (lookup k a) (lookup k b)) (keys a ++ keys b).
Definition mmap_eqb (a b : mmap) : bool :=
  forallb (fun f => kvmap_eqb (mget f a) (mget f b)) (keys a ++ keys b).
Definition ptrs_eqb {V} (eqv : V -> V -> bool) (a b : list (N * V)) : bool :=
  forallb (fun k => option_eqb eqv (lookup k a) (lookup k b)) (keys a ++ keys b).
Definition env_eqb (a b : env) : bool := list_eqb bytes_eqb (olist a) (olist b).

Definition leaf_eqb (a b : leaf) : bool :=
  smap_eqb (l_scal a) (l_scal b) && lmap_eqb (l_lists a) (l_lists b).
Definition mid_eqb (a b : mid) : bool :=
  smap_eqb (m_scal a) (m_scal b) && lmap_eqb (m_lists a) (m_lists b) && ptrs_eqb leaf_eqb (m_ptrs a) (m_ptrs b).
Definition proc_eqb (envq : env -> env -> bool) (a b : proc) : bool :=
  smap_eqb (p_scal a) (p_scal b) && lmap_eqb (p_lists a) (p_lists b) && envq (p_env a) (p_env b) &&
  mmap_eqb (p_maps a) (p_maps b) && ptrs_eqb mid_eqb (p_ptrs a) (p_ptrs b).
Definition project_eqb (envq : env -> env -> bool) (a b : project) : bool :=
  smap_eqb (g_scal a) (g_scal b) && envq (g_env a) (g_env b) && mmap_eqb (g_maps a) (g_maps b) &&
  ptrs_eqb leaf_eqb (g_leafs a) (g_leafs b) && ptrs_eqb mid_eqb (g_mids a) (g_mids b) &&
  ptrs_eqb (proc_eqb envq) (g_procs a) (g_procs b).

(* ---------- model agreement ------------------------------------------------------------------------------ *)
Definition model_ok (c : ocase) : bool :=
  option_eqb (project_eqb env_eqb) (load (c_defshell c) (c_files c)) (c_obs c).

(* ---------- the specification: last mention wins --------------------------------------------------------- *)
Fixpoint dedup (l : list N) : list N :=
  match l with
  | [] => []
  | x :: r => if memN x r then dedup r else x :: dedup r
  end.
Definition all_keys {V} (ms : list (list (N * V))) : list N := dedup (flat_map keys ms).

Fixpoint last_some {A} (l : list (option A)) : option A :=
  match l with
  | [] => None
  | x :: r => match last_some r with Some y => Some y | None => x end
  end.

Definition opt_list {A} (o : option A) : list A := match o with Some x => [x] | None => [] end.

(* strict = true: a mentioned zero counts as a setting *)
Definition mention (strict : bool) (f : N) (m : smap) : option scalar :=
  if strict then lookup f m else sget f m.

Definition spec_smap (strict : bool) (ms : list smap) : smap :=
  flat_map (fun f => match last_some (map (mention strict f) ms) with
                     | Some v => [(f, v)] | None => [] end) (all_keys ms).
Definition spec_lmap (ms : list lmap) : lmap :=
  map (fun f => (f, flat_map (lget f) ms)) (all_keys ms).
Definition spec_kvmap (ms : list kvmap) : kvmap :=
  flat_map (fun k => match last_some (map (lookup k) ms) with
                     | Some v => [(k, v)] | None => [] end) (all_keys ms).
Definition spec_mmap (ms : list mmap) : mmap :=
  map (fun f => (f, spec_kvmap (map (mget f) ms))) (all_keys ms).
(* the definitions of a keyed sub-structure in the files that have it, in file order *)
Definition defs {V} (k : N) (ms : list (list (N * V))) : list V := flat_map (fun m => opt_list (lookup k m)) ms.

Definition spec_leaf (strict : bool) (ls : list leaf) : leaf :=
  mkLeaf (spec_smap strict (map l_scal ls)) (spec_lmap (map l_lists ls)).
Definition spec_leafs (strict : bool) (ms : list (list (N * leaf))) : list (N * leaf) :=
  map (fun k => (k, spec_leaf strict (defs k ms))) (all_keys ms).
Definition spec_mid (strict : bool) (ls : list mid) : mid :=
  mkMid (spec_smap strict (map m_scal ls)) (spec_lmap (map m_lists ls)) (spec_leafs strict (map m_ptrs ls)).
Definition spec_mids (strict : bool) (ms : list (list (N * mid))) : list (N * mid) :=
  map (fun k => (k, spec_mid strict (defs k ms))) (all_keys ms).
(* environments are checked separately: the spec project carries none *)
Definition spec_proc (strict : bool) (ps : list proc) : proc :=
  mkProc (spec_smap strict (map p_scal ps)) (spec_lmap (map p_lists ps)) None (spec_mmap (map p_maps ps))
         (spec_mids strict (map p_ptrs ps)).
Definition spec_project (strict : bool) (gs : list project) : project :=
  mkProject (spec_smap strict (map g_scal gs)) None (spec_mmap (map g_maps gs))
            (spec_leafs strict (map g_leafs gs)) (spec_mids strict (map g_mids gs))
            (let pss := map g_procs gs in map (fun k => (k, spec_proc strict (defs k pss))) (all_keys pss)).

(* environment clauses *)
Definition mem_bytes (e : bytes) (l : list bytes) : bool := existsb (bytes_eqb e) l.
Definition has_key (k : bytes) (l : list bytes) : bool := existsb (fun y => bytes_eqb (key_of y) k) l.
(* x may be in the result only if some file contains it and no LATER file sets its key *)
Fixpoint survivor (x : bytes) (inputs : list env) : bool :=
  match inputs with
  | [] => false
  | e :: rest => (mem_bytes x (olist e) && negb (has_key (key_of x) (flat_map olist rest))) || survivor x rest
  end.
Definition env_spec_ok (inputs : list env) (obs : env) : bool :=
  let all := flat_map olist inputs in
  forallb (fun e => match last_with_key (key_of e) all with
                    | Some x => mem_bytes x (olist obs) | None => false end) all &&
  forallb (fun x => survivor x inputs) (olist obs).

(* the chain in the order in which the text reads it: ancestors (root first, working directories resolved
   against their own directory), then the file itself *)
Definition flatten_file (x : xfile) : list project :=
  map (fun a => f_cfg (resolve_file a)) (rev (snd x)) ++ [f_cfg (fst x)].
Definition has_parent (x : xfile) : bool := match snd x with [] => false | _ => true end.

(* the monitor speaks about lists of files of which at most one extends another (the property text says
   "loading a file that extends a base"); with two extending files the order used by the loader is not fixed
   by the text - see notes/C15.md *)
Definition in_scope (c : ocase) : bool := Nat.leb (length (filter has_parent (c_files c))) 1.

(* every file involved (named or reached through extends) is a different file; otherwise Load answers
   "already specified in files to load" and there is no merged result to judge *)
Definition names_of (x : xfile) : list N := f_name (fst x) :: map f_name (snd x).
Definition distinct_files (c : ocase) : bool :=
  let ns := flat_map names_of (c_files c) in Nat.eqb (length (dedup ns)) (length ns).

Definition no_env (_ _ : env) : bool := true.

(* clause 1: options, maps, lists, pointer structs, process set *)
Definition holds_struct (strict : bool) (c : ocase) : bool :=
  if negb (in_scope c) then true else
  let gs := flat_map flatten_file (c_files c) in
  match c_obs c with
  | None => negb (distinct_files c)                  (* every chain of distinct files must load *)
  | Some o => project_eqb no_env (post (c_defshell c) (spec_project strict gs)) o
  end.

(* clause 2: environments of the project and of every process *)
Definition holds_env (c : ocase) : bool :=
  if negb (in_scope c) then true else
  let gs := flat_map flatten_file (c_files c) in
  match c_obs c with
  | None => true
  | Some o =>
      env_spec_ok (map g_env gs) (g_env o) &&
      let pss := map g_procs gs in
      forallb (fun k => match lookup k (g_procs o) with
                        | Some po => env_spec_ok (map p_env (defs k pss)) (p_env po)
                        | None => false end) (all_keys pss)
  end.

Definition holds_C15 (c : ocase) : bool := holds_struct true c && holds_env c.
Definition holds_C15_nz (c : ocase) : bool := holds_struct false c && holds_env c.

(* extends clause, implementation against implementation *)
Definition blank_wd_mid (m : mid) : mid :=
  mkMid (m_scal m) (m_lists m) (upd_key PR_EXEC (fun e => mkLeaf (set_key 2 (SStr []) (l_scal e)) (l_lists e)) (m_ptrs m)).
Definition blank_wd_proc (p : proc) : proc :=
  mkProc (set_key F_WD (SStr []) (p_scal p)) (p_lists p) (p_env p) (p_maps p)
         (upd_key P_READY blank_wd_mid (upd_key P_LIVE blank_wd_mid (p_ptrs p))).
Definition blank_wd (g : project) : project :=
  mkProject (g_scal g) (g_env g) (g_maps g) (g_leafs g) (g_mids g) (map_vals blank_wd_proc (g_procs g)).

Definition holds_extends (c : ocase) : bool :=
  match c_obs2 c with
  | None => true
  | Some o2 =>
      match c_obs c, o2 with
      | Some a, Some b => project_eqb env_eqb (blank_wd a) (blank_wd b)
      | _, _ => false
      end
  end.

Definition bad_model (cs : list ocase) : list nat := failing model_ok cs.
Definition bad_struct (cs : list ocase) : list nat := failing (holds_struct true) cs.
Definition bad_struct_nz (cs : list ocase) : list nat := failing (holds_struct false) cs.
Definition bad_env (cs : list ocase) : list nat := failing holds_env cs.
Definition bad_extends (cs : list ocase) : list nat := failing holds_extends cs.
