(* Connection between the model and the environment clause of the monitor:
   the observation the model produces for a pair of files satisfies [env_spec_ok]. *)
From Coq Require Import List ZArith Bool NArith.
From PC.Merge Require Import Model Proofs Check.
Import ListNotations.

Lemma mem_bytes_In e l : mem_bytes e l = true <-> In e l.
Proof.
  unfold mem_bytes. rewrite existsb_exists. split.
  - intros [x [H1 H2]]. apply bytes_eqb_eq in H2. now subst.
  - intros H. exists e. split; [exact H|apply bytes_eqb_refl].
Qed.

Lemma last_with_key_some l e : In e l -> exists x, last_with_key (key_of e) l = Some x.
Proof.
  induction l as [|y r IH]; cbn; [tauto|]. intros [->|H].
  - destruct (last_with_key (key_of e) r); [eauto|]. rewrite bytes_eqb_refl. eauto.
  - destruct (IH H) as [x ->]. eauto.
Qed.

Lemma last_with_key_none_inv k l : last_with_key k l = None -> forall x, In x l -> key_of x <> k.
Proof.
  intros H x Hin Hk. subst k. destruct (last_with_key_some l x Hin) as [y Hy]. congruence.
Qed.

Theorem model_env_satisfies_monitor b o : env_spec_ok [b; o] (merge_env b o) = true.
Proof.
  unfold env_spec_ok. cbn [flat_map]. rewrite app_nil_r. apply andb_true_iff. split.
  - apply forallb_forall. intros e He.
    destruct (last_with_key_some _ _ He) as [x Hx]. rewrite Hx. apply mem_bytes_In.
    rewrite last_with_key_app in Hx.
    destruct (last_with_key (key_of e) (olist o)) as [y|] eqn:Eo.
    + injection Hx as ->. pose proof (proj2 (last_with_key_In _ _ _ Eo)) as Hk.
      apply env_later_wins. rewrite Hk. exact Eo.
    + pose proof (proj2 (last_with_key_In _ _ _ Hx)) as Hk. apply env_preserved.
      * rewrite Hk. exact Hx.
      * rewrite Hk. now apply last_with_key_none_inv.
  - apply forallb_forall. intros x Hx. cbn [survivor flat_map]. rewrite app_nil_r, orb_false_r.
    destruct b as [bl|].
    + pose proof (env_by_key _ _ _ Hx) as H. rewrite last_with_key_app in H.
      destruct (last_with_key (key_of x) (olist o)) as [y|] eqn:Eo.
      * injection H as ->. apply last_with_key_In in Eo. destruct Eo as [Eo _].
        apply orb_true_iff. right. rewrite andb_true_r. now apply mem_bytes_In.
      * apply orb_true_iff. left. apply andb_true_iff. split.
        -- apply mem_bytes_In. now apply last_with_key_In in H.
        -- apply negb_true_iff. unfold has_key. destruct (existsb _ (olist o)) eqn:Ex; [|reflexivity].
           apply existsb_exists in Ex. destruct Ex as [y [Hy Hk]]. apply bytes_eqb_eq in Hk.
           exfalso. exact (last_with_key_none_inv _ _ Eo y Hy Hk).
    + apply orb_true_iff. right. rewrite andb_true_r. apply mem_bytes_In.
      destruct (env_no_junk _ _ _ Hx) as [[]|H]. exact H.
Qed.
