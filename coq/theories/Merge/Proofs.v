(* Proofs about the configuration merge model (property C15).  Everything is by induction over the
   association lists / the list of files; no bounds. *)
From Coq Require Import List ZArith Bool NArith Lia.
From PC.Merge Require Import Model.
Import ListNotations.

(* ---------- keyed merge --------------------------------------------------------------------------- *)
Section Keyed.
Context {V : Type}.
Implicit Types (m b o : list (N * V)) (k : N).

Lemma lookup_map_vals (g : V -> V) k m : lookup k (map_vals g m) = option_map g (lookup k m).
Proof.
  induction m as [|[k' v] r IH]; cbn; [reflexivity|].
  destruct (N.eqb k' k); [reflexivity|exact IH].
Qed.

Lemma lookup_filter_other k m (p : N -> bool) :
  p k = true -> lookup k (filter (fun kv => p (fst kv)) m) = lookup k m.
Proof.
  intros Hp. induction m as [|[k' v] r IH]; cbn; [reflexivity|].
  destruct (N.eqb_spec k' k) as [->|Hne].
  - rewrite Hp. cbn. now rewrite N.eqb_refl.
  - destruct (p k'); cbn; [|exact IH].
    destruct (N.eqb_spec k' k); [contradiction|exact IH].
Qed.

Lemma lookup_filter_none k m (p : N -> bool) :
  p k = false -> lookup k (filter (fun kv => p (fst kv)) m) = None.
Proof.
  intros Hp. induction m as [|[k' v] r IH]; cbn; [reflexivity|].
  destruct (p k') eqn:E; cbn; [|exact IH].
  destruct (N.eqb_spec k' k) as [->|Hne]; [congruence|exact IH].
Qed.

Lemma lookup_app k m1 m2 :
  lookup k (m1 ++ m2) = match lookup k m1 with Some v => Some v | None => lookup k m2 end.
Proof.
  induction m1 as [|[k' v] r IH]; cbn; [reflexivity|].
  destruct (N.eqb k' k); [reflexivity|exact IH].
Qed.

(* the one fact every by-key statement rests on *)
Lemma lookup_merge_keyed (f : V -> V -> V) b o k :
  lookup k (merge_keyed f b o) =
  match lookup k b with
  | Some x => Some (match lookup k o with Some y => f x y | None => x end)
  | None => lookup k o
  end.
Proof.
  unfold merge_keyed. rewrite lookup_app.
  assert (H1 : lookup k (map (fun kv => (fst kv, match lookup (fst kv) o with
                                                  | Some vo => f (snd kv) vo | None => snd kv end)) b)
               = match lookup k b with
                 | Some x => Some (match lookup k o with Some y => f x y | None => x end)
                 | None => None end).
  { induction b as [|[k' v] r IH]; cbn; [reflexivity|].
    destruct (N.eqb_spec k' k) as [->|Hne]; [reflexivity|exact IH]. }
  rewrite H1. destruct (lookup k b) eqn:E; [reflexivity|].
  apply (lookup_filter_other k o (fun k0 => negb (has k0 b))).
  unfold has. now rewrite E.
Qed.

Lemma lookup_set_key k k' (v : V) m :
  lookup k (set_key k' v m) = if N.eqb k' k then Some v else lookup k m.
Proof.
  unfold set_key. cbn. destruct (N.eqb_spec k' k) as [->|Hne]; [reflexivity|].
  apply (lookup_filter_other k m (fun k0 => negb (N.eqb k0 k'))).
  destruct (N.eqb_spec k k'); [congruence|reflexivity].
Qed.
End Keyed.

(* ---------- scalars: override wins (non-zero), frame -------------------------------------------------- *)
Lemma sget_merge f b o :
  sget f (merge_smap b o) = match sget f o with Some v => Some v | None => sget f b end.
Proof.
  unfold sget, merge_smap. rewrite lookup_merge_keyed. unfold pick.
  destruct (lookup f b) as [x|], (lookup f o) as [y|].
  - destruct (is_zero y) eqn:Ey; [reflexivity|now rewrite Ey].
  - reflexivity.
  - destruct (is_zero y); reflexivity.
  - reflexivity.
Qed.

Lemma sget_nonzero f m v : sget f m = Some v -> is_zero v = false.
Proof.
  unfold sget. destruct (lookup f m) as [x|]; [|discriminate].
  destruct (is_zero x) eqn:E; [discriminate|]. intros [= <-]. exact E.
Qed.

Theorem scalar_override_wins f b o v :
  lookup f o = Some v -> is_zero v = false -> sget f (merge_smap b o) = Some v.
Proof. intros Ho Hz. rewrite sget_merge. unfold sget. now rewrite Ho, Hz. Qed.

Theorem scalar_frame f b o : sget f o = None -> sget f (merge_smap b o) = sget f b.
Proof. intros H. now rewrite sget_merge, H. Qed.

(* F28: a later file that mentions the zero value does not win *)
Theorem scalar_override_zero_refuted :
  exists f b o v, lookup f o = Some v /\ sget f (merge_smap b o) <> sget f [(f, v)].
Proof. exists 1%N, [(1%N, SBool true)], [(1%N, SBool false)], (SBool false). split; [reflexivity|discriminate]. Qed.

(* ---------- appended lists -------------------------------------------------------------------------------- *)
Lemma lget_merge f b o : lget f (merge_lmap b o) = lget f b ++ lget f o.
Proof.
  unfold lget, merge_lmap. rewrite lookup_merge_keyed.
  destruct (lookup f b) as [x|], (lookup f o) as [y|]; cbn; try reflexivity. now rewrite app_nil_r.
Qed.

(* ---------- maps: later file wins key by key ---------------------------------------------------------------- *)
Lemma kv_merge k b o :
  lookup k (merge_kvmap b o) = match lookup k o with Some v => Some v | None => lookup k b end.
Proof.
  unfold merge_kvmap. rewrite lookup_merge_keyed. unfold later.
  destruct (lookup k b), (lookup k o); reflexivity.
Qed.

Lemma mget_merge f k b o :
  lookup k (mget f (merge_mmap b o)) =
  match lookup k (mget f o) with Some v => Some v | None => lookup k (mget f b) end.
Proof.
  unfold mget, merge_mmap. rewrite lookup_merge_keyed.
  destruct (lookup f b) as [x|], (lookup f o) as [y|]; cbn.
  - apply kv_merge.
  - reflexivity.
  - destruct (lookup k y); reflexivity.
  - reflexivity.
Qed.

(* ---------- pointer structs and processes --------------------------------------------------------------------- *)
Definition merge_opt {V} (f : V -> V -> V) (x y : option V) : option V :=
  match x, y with
  | Some a, Some c => Some (f a c)
  | Some a, None => Some a
  | None, y => y
  end.

Lemma lookup_merge_opt {V} (f : V -> V -> V) b o k :
  lookup k (merge_keyed f b o) = merge_opt f (lookup k b) (lookup k o).
Proof. rewrite lookup_merge_keyed. destruct (lookup k b), (lookup k o); reflexivity. Qed.

(* ---------- environment ------------------------------------------------------------------------------------------ *)
Lemma bytes_eqb_eq a : forall c, bytes_eqb a c = true <-> a = c.
Proof.
  induction a as [|x r IH]; intros [|y s]; cbn; try (split; congruence).
  rewrite andb_true_iff, N.eqb_eq, IH. split; [intros [-> ->]; reflexivity|intros [= -> ->]; auto].
Qed.

Lemma bytes_eqb_refl a : bytes_eqb a a = true.
Proof. now apply bytes_eqb_eq. Qed.

Lemma find_key_put k e m :
  find_key k (env_put e m) = if bytes_eqb (key_of e) k then Some e else find_key k m.
Proof.
  induction m as [|x r IH]; cbn.
  - destruct (bytes_eqb (key_of e) k); reflexivity.
  - destruct (bytes_eqb (key_of x) (key_of e)) eqn:Exe; cbn.
    + apply bytes_eqb_eq in Exe. rewrite Exe. destruct (bytes_eqb (key_of e) k); reflexivity.
    + destruct (bytes_eqb (key_of x) k) eqn:Exk.
      * apply bytes_eqb_eq in Exk. subst k.
        destruct (bytes_eqb (key_of e) (key_of x)) eqn:E2; [|reflexivity].
        apply bytes_eqb_eq in E2. rewrite E2, bytes_eqb_refl in Exe. discriminate.
      * exact IH.
Qed.

Lemma find_key_env_map k l : forall m0,
  find_key k (env_map l m0) =
  match last_with_key k l with Some e => Some e | None => find_key k m0 end.
Proof.
  unfold env_map. induction l as [|e r IH]; intros m0; cbn; [reflexivity|].
  rewrite IH, find_key_put. destruct (last_with_key k r); [reflexivity|].
  destruct (bytes_eqb (key_of e) k); reflexivity.
Qed.

Lemma find_key_In k m e : find_key k m = Some e -> In e m /\ key_of e = k.
Proof.
  induction m as [|x r IH]; cbn; [discriminate|].
  destruct (bytes_eqb (key_of x) k) eqn:E.
  - intros [= <-]. apply bytes_eqb_eq in E. auto.
  - intros H. destruct (IH H). auto.
Qed.

Lemma last_with_key_In k l e : last_with_key k l = Some e -> In e l /\ key_of e = k.
Proof.
  induction l as [|x r IH]; cbn; [discriminate|].
  destruct (last_with_key k r) as [y|].
  - intros [= <-]. destruct (IH eq_refl). auto.
  - destruct (bytes_eqb (key_of x) k) eqn:E; [|discriminate].
    intros [= <-]. apply bytes_eqb_eq in E. auto.
Qed.

Lemma last_with_key_none k l :
  (forall x, In x l -> key_of x <> k) -> last_with_key k l = None.
Proof.
  induction l as [|x r IH]; cbn; intros H; [reflexivity|].
  rewrite IH by (intros y Hy; apply H; now right).
  destruct (bytes_eqb (key_of x) k) eqn:E; [|reflexivity].
  apply bytes_eqb_eq in E. exfalso. apply (H x); [now left|exact E].
Qed.

Lemma In_env_put x e m : In x (env_put e m) -> x = e \/ In x m.
Proof.
  induction m as [|y r IH]; cbn.
  - intros [<-|[]]. now left.
  - destruct (bytes_eqb (key_of y) (key_of e)); cbn.
    + intros [<-|H]; auto.
    + intros [<-|H]; auto. destruct (IH H); auto.
Qed.

Lemma In_env_map x l : forall m0, In x (env_map l m0) -> In x l \/ In x m0.
Proof.
  unfold env_map. induction l as [|e r IH]; intros m0; cbn; [auto|].
  intros H. destruct (IH _ H) as [H1|H1]; [auto|].
  destruct (In_env_put _ _ _ H1) as [->|H2]; auto.
Qed.

Lemma In_insert_sorted x e l : In x (insert_sorted e l) <-> x = e \/ In x l.
Proof.
  induction l as [|y r IH]; cbn.
  - split; [intros [<-|[]]; auto|intros [->|[]]; auto].
  - destruct (bytes_leb e y); cbn.
    + split; [intros [<-|H]; auto|intros [->|H]; auto].
    + rewrite IH. split; [intros [<-|[->|H]]; auto|intros [->|[<-|H]]; auto].
Qed.

Lemma In_sort x l : In x (sort_bytes l) <-> In x l.
Proof.
  unfold sort_bytes. induction l as [|y r IH]; cbn; [tauto|].
  rewrite In_insert_sorted, IH. split; [intros [->|H]; auto|intros [<-|H]; auto].
Qed.

Lemma sort_nil l : sort_bytes l = [] -> l = [].
Proof.
  destruct l as [|y r]; [reflexivity|]. intros H.
  assert (Hin : In y (sort_bytes (y :: r))) by (apply In_sort; now left).
  rewrite H in Hin. destruct Hin.
Qed.

(* entries of the merged environment when the earlier one is not nil *)
Lemma In_merge_env_some bl o x :
  In x (olist (merge_env (Some bl) o)) <-> In x (env_map (olist o) (env_map bl [])).
Proof.
  change (merge_env (Some bl) o)
    with (match env_map (olist o) (env_map bl []) with [] => None | m => Some (sort_bytes m) end).
  destruct (env_map (olist o) (env_map bl [])) as [|y r] eqn:E; [cbn; tauto|].
  cbn [olist]. apply In_sort.
Qed.

Theorem env_later_wins b o e :
  last_with_key (key_of e) (olist o) = Some e -> In e (olist (merge_env b o)).
Proof.
  intros H. destruct b as [bl|].
  - apply In_merge_env_some.
    assert (F : find_key (key_of e) (env_map (olist o) (env_map bl [])) = Some e)
      by now rewrite find_key_env_map, H.
    now apply find_key_In in F.
  - apply last_with_key_In in H. destruct H as [H _].
    destruct o as [[|y r]|]; cbn in *; auto.
Qed.

(* the frame for environments: an entry of the earlier file (the last one with its key there) whose key
   the later file does not set is in the result, byte for byte *)
Theorem env_preserved b o e :
  last_with_key (key_of e) (olist b) = Some e ->
  (forall x, In x (olist o) -> key_of x <> key_of e) ->
  In e (olist (merge_env b o)).
Proof.
  intros Hb Ho. destruct b as [bl|]; [|discriminate].
  apply In_merge_env_some.
  assert (F : find_key (key_of e) (env_map (olist o) (env_map bl [])) = Some e).
  { rewrite find_key_env_map, (last_with_key_none _ _ Ho), find_key_env_map. cbn in Hb. now rewrite Hb. }
  now apply find_key_In in F.
Qed.

Theorem env_no_junk b o e : In e (olist (merge_env b o)) -> In e (olist b) \/ In e (olist o).
Proof.
  destruct b as [bl|].
  - rewrite In_merge_env_some. intros H.
    destruct (In_env_map _ _ _ H) as [H1|H1]; [auto|].
    destruct (In_env_map _ _ _ H1) as [H2|[]]. auto.
  - destruct o as [[|y r]|]; cbn; auto.
Qed.

(* merged BY KEY: when the earlier environment is not nil, the result holds exactly one entry per key,
   namely the last one of earlier ++ later with that key *)
Definition mem_key (k : bytes) (m : list bytes) : bool := existsb (fun x => bytes_eqb (key_of x) k) m.

Lemma keys_env_put e m :
  map key_of (env_put e m) = if mem_key (key_of e) m then map key_of m else map key_of m ++ [key_of e].
Proof.
  induction m as [|x r IH]; cbn; [reflexivity|].
  destruct (bytes_eqb (key_of x) (key_of e)) eqn:E; cbn.
  - apply bytes_eqb_eq in E. now rewrite E.
  - rewrite IH. fold (mem_key (key_of e) r). destruct (mem_key (key_of e) r); reflexivity.
Qed.

Lemma mem_key_false k m : mem_key k m = false -> ~ In k (map key_of m).
Proof.
  induction m as [|x r IH]; cbn; [tauto|].
  destruct (bytes_eqb (key_of x) k) eqn:E; cbn; [discriminate|].
  intros H [H1|H1]; [|now apply IH].
  rewrite H1, bytes_eqb_refl in E. discriminate.
Qed.

Lemma NoDup_snoc {A} (l : list A) k : NoDup l -> ~ In k l -> NoDup (l ++ [k]).
Proof.
  induction 1 as [|x l Hx Hl IH]; cbn; intros Hk.
  - constructor; [tauto|constructor].
  - constructor.
    + rewrite in_app_iff. cbn. intros [H|[H|[]]]; [contradiction|]. subst. apply Hk. now left.
    + apply IH. intros H. apply Hk. now right.
Qed.

Lemma NoDup_keys_env_map l : forall m0, NoDup (map key_of m0) -> NoDup (map key_of (env_map l m0)).
Proof.
  unfold env_map. induction l as [|e r IH]; intros m0 H; cbn; [exact H|].
  apply IH. rewrite keys_env_put. destruct (mem_key (key_of e) m0) eqn:E; [exact H|].
  apply NoDup_snoc; [exact H|now apply mem_key_false].
Qed.

Lemma find_key_of_In e m : In e m -> NoDup (map key_of m) -> find_key (key_of e) m = Some e.
Proof.
  induction m as [|x r IH]; cbn; [tauto|]. intros [->|Hin] Hnd.
  - now rewrite bytes_eqb_refl.
  - inversion Hnd as [|k l Hk Hl]; subst.
    destruct (bytes_eqb (key_of x) (key_of e)) eqn:E.
    + apply bytes_eqb_eq in E. exfalso. apply Hk. rewrite E. now apply in_map.
    + now apply IH.
Qed.

Lemma last_with_key_app k l1 l2 :
  last_with_key k (l1 ++ l2) =
  match last_with_key k l2 with Some x => Some x | None => last_with_key k l1 end.
Proof.
  induction l1 as [|x r IH]; cbn.
  - destruct (last_with_key k l2); reflexivity.
  - rewrite IH. destruct (last_with_key k l2); reflexivity.
Qed.

Theorem env_by_key bl o e :
  In e (olist (merge_env (Some bl) o)) -> last_with_key (key_of e) (bl ++ olist o) = Some e.
Proof.
  rewrite In_merge_env_some. intros H.
  apply find_key_of_In in H; [|apply NoDup_keys_env_map, NoDup_keys_env_map; constructor].
  rewrite !find_key_env_map in H. rewrite last_with_key_app.
  destruct (last_with_key (key_of e) (olist o)); [exact H|].
  destruct (last_with_key (key_of e) bl); [exact H|discriminate].
Qed.


(* F2: with the unrepaired transformer the frame is false, even when the later file has no environment *)
Theorem env_preserved_unfixed_refuted :
  exists b o e, last_with_key (key_of e) (olist b) = Some e /\
                (forall x, In x (olist o) -> key_of x <> key_of e) /\
                ~ In e (olist (merge_env_unfixed b o)).
Proof.
  exists (Some [[65;61;98;61;99]%N]), None, [65;61;98;61;99]%N.
  split; [reflexivity|]. split; [intros x []|]. cbn. tauto.
Qed.

(* ---------- the merge of two files: one statement per kind of setting ----------------------------------------- *)
Theorem merge_scalar f b o :
  sget f (g_scal (merge b o)) =
  match sget f (g_scal o) with Some v => Some v | None => sget f (g_scal b) end.
Proof. apply sget_merge. Qed.

Theorem merge_procs_lookup k b o :
  lookup k (g_procs (merge b o)) = merge_opt merge_proc (lookup k (g_procs b)) (lookup k (g_procs o)).
Proof. apply lookup_merge_opt. Qed.

(* frame, whole project: everything the later file does not set is unchanged *)
Definition leaf_frame (b o r : leaf) : Prop :=
  (forall f, sget f (l_scal o) = None -> sget f (l_scal r) = sget f (l_scal b)) /\
  (forall f, lget f (l_lists o) = [] -> lget f (l_lists r) = lget f (l_lists b)).

Lemma merge_leaf_frame b o : leaf_frame b o (merge_leaf b o).
Proof.
  split; intros f H; cbn.
  - now apply scalar_frame.
  - now rewrite lget_merge, H, app_nil_r.
Qed.

Definition mid_frame (b o r : mid) : Prop :=
  (forall f, sget f (m_scal o) = None -> sget f (m_scal r) = sget f (m_scal b)) /\
  (forall f, lget f (m_lists o) = [] -> lget f (m_lists r) = lget f (m_lists b)) /\
  (forall k, lookup k (m_ptrs o) = None -> lookup k (m_ptrs r) = lookup k (m_ptrs b)) /\
  (forall k pb po, lookup k (m_ptrs b) = Some pb -> lookup k (m_ptrs o) = Some po ->
                   exists pr, lookup k (m_ptrs r) = Some pr /\ leaf_frame pb po pr).

Lemma merge_mid_frame b o : mid_frame b o (merge_mid b o).
Proof.
  repeat split; cbn.
  - intros f H. now apply scalar_frame.
  - intros f H. now rewrite lget_merge, H, app_nil_r.
  - intros k H. rewrite lookup_merge_opt, H. destruct (lookup k (m_ptrs b)); reflexivity.
  - intros k pb po Hb Ho. exists (merge_leaf pb po). rewrite lookup_merge_opt, Hb, Ho.
    split; [reflexivity|apply merge_leaf_frame].
Qed.

Definition env_frame (b o r : env) : Prop :=
  forall e, last_with_key (key_of e) (olist b) = Some e ->
            (forall x, In x (olist o) -> key_of x <> key_of e) -> In e (olist r).

Definition proc_frame (b o r : proc) : Prop :=
  (forall f, sget f (p_scal o) = None -> sget f (p_scal r) = sget f (p_scal b)) /\
  (forall f, lget f (p_lists o) = [] -> lget f (p_lists r) = lget f (p_lists b)) /\
  env_frame (p_env b) (p_env o) (p_env r) /\
  (forall f k, lookup k (mget f (p_maps o)) = None ->
               lookup k (mget f (p_maps r)) = lookup k (mget f (p_maps b))) /\
  (forall k, lookup k (p_ptrs o) = None -> lookup k (p_ptrs r) = lookup k (p_ptrs b)) /\
  (forall k pb po, lookup k (p_ptrs b) = Some pb -> lookup k (p_ptrs o) = Some po ->
                   exists pr, lookup k (p_ptrs r) = Some pr /\ mid_frame pb po pr).

Lemma merge_proc_frame b o : proc_frame b o (merge_proc b o).
Proof.
  repeat split; cbn.
  - intros f H. now apply scalar_frame.
  - intros f H. now rewrite lget_merge, H, app_nil_r.
  - intros e H1 H2. now apply env_preserved.
  - intros f k H. now rewrite mget_merge, H.
  - intros k H. rewrite lookup_merge_opt, H. destruct (lookup k (p_ptrs b)); reflexivity.
  - intros k pb po Hb Ho. exists (merge_mid pb po). rewrite lookup_merge_opt, Hb, Ho.
    split; [reflexivity|apply merge_mid_frame].
Qed.

Definition project_frame (b o r : project) : Prop :=
  (forall f, sget f (g_scal o) = None -> sget f (g_scal r) = sget f (g_scal b)) /\
  env_frame (g_env b) (g_env o) (g_env r) /\
  (forall f k, lookup k (mget f (g_maps o)) = None ->
               lookup k (mget f (g_maps r)) = lookup k (mget f (g_maps b))) /\
  (forall k, lookup k (g_leafs o) = None -> lookup k (g_leafs r) = lookup k (g_leafs b)) /\
  (forall k pb po, lookup k (g_leafs b) = Some pb -> lookup k (g_leafs o) = Some po ->
                   exists pr, lookup k (g_leafs r) = Some pr /\ leaf_frame pb po pr) /\
  (forall k, lookup k (g_mids o) = None -> lookup k (g_mids r) = lookup k (g_mids b)) /\
  (forall k pb po, lookup k (g_mids b) = Some pb -> lookup k (g_mids o) = Some po ->
                   exists pr, lookup k (g_mids r) = Some pr /\ mid_frame pb po pr) /\
  (* a process the later file does not define is kept as it is *)
  (forall k, lookup k (g_procs o) = None -> lookup k (g_procs r) = lookup k (g_procs b)) /\
  (* a process both files define: the frame holds inside it *)
  (forall k pb po, lookup k (g_procs b) = Some pb -> lookup k (g_procs o) = Some po ->
                   exists pr, lookup k (g_procs r) = Some pr /\ proc_frame pb po pr).

Theorem merge_frame b o : project_frame b o (merge b o).
Proof.
  repeat split; cbn.
  - intros f H. now apply scalar_frame.
  - intros e H1 H2. now apply env_preserved.
  - intros f k H. now rewrite mget_merge, H.
  - intros k H. rewrite lookup_merge_opt, H. destruct (lookup k (g_leafs b)); reflexivity.
  - intros k pb po Hb Ho. exists (merge_leaf pb po). rewrite lookup_merge_opt, Hb, Ho.
    split; [reflexivity|apply merge_leaf_frame].
  - intros k H. rewrite lookup_merge_opt, H. destruct (lookup k (g_mids b)); reflexivity.
  - intros k pb po Hb Ho. exists (merge_mid pb po). rewrite lookup_merge_opt, Hb, Ho.
    split; [reflexivity|apply merge_mid_frame].
  - intros k H. unfold merge_procs. rewrite lookup_merge_opt, H. destruct (lookup k (g_procs b)); reflexivity.
  - intros k pb po Hb Ho. exists (merge_proc pb po). unfold merge_procs. rewrite lookup_merge_opt, Hb, Ho.
    split; [reflexivity|apply merge_proc_frame].
Qed.

(* processes defined in only one file are kept *)
Theorem procs_only_in_one b o k p :
  (lookup k (g_procs b) = Some p /\ lookup k (g_procs o) = None) \/
  (lookup k (g_procs b) = None /\ lookup k (g_procs o) = Some p) ->
  lookup k (g_procs (merge b o)) = Some p.
Proof. rewrite merge_procs_lookup. intros [[-> ->]|[-> ->]]; reflexivity. Qed.

(* ---------- chains: n files = left fold; the last file that sets a value wins ---------------------------------- *)
Fixpoint last_some {A} (l : list (option A)) : option A :=
  match l with
  | [] => None
  | x :: r => match last_some r with Some y => Some y | None => x end
  end.

Lemma merge_all_snoc ps o : ps <> [] ->
  merge_all (ps ++ [o]) = option_map (fun g => merge g o) (merge_all ps).
Proof.
  destruct ps as [|b os]; [congruence|]. intros _. cbn. now rewrite fold_left_app.
Qed.

Lemma chain_scalar f os : forall b,
  sget f (g_scal (fold_left merge os b)) =
  last_some (map (fun g => sget f (g_scal g)) (b :: os)).
Proof.
  induction os as [|o r IH]; intros b; [reflexivity|].
  cbn [fold_left]. rewrite IH. cbn [map last_some]. rewrite merge_scalar.
  destruct (last_some (map (fun g => sget f (g_scal g)) r)); reflexivity.
Qed.

Lemma chain_map_entry f k os : forall b,
  lookup k (mget f (g_maps (fold_left merge os b))) =
  last_some (map (fun g => lookup k (mget f (g_maps g))) (b :: os)).
Proof.
  induction os as [|o r IH]; intros b; [reflexivity|].
  cbn [fold_left]. rewrite IH. cbn [map last_some]. cbn [merge g_maps]. rewrite mget_merge.
  destruct (last_some (map (fun g => lookup k (mget f (g_maps g))) r)); reflexivity.
Qed.

(* the definitions of a process along the chain, in file order *)
Definition pdefs (k : N) (gs : list project) : list proc :=
  flat_map (fun g => match lookup k (g_procs g) with Some p => [p] | None => [] end) gs.

Lemma chain_process k os : forall b,
  lookup k (g_procs (fold_left merge os b)) =
  match pdefs k (b :: os) with
  | [] => None
  | p :: ps => Some (fold_left merge_proc ps p)
  end.
Proof.
  induction os as [|o r IH]; intros b.
  - cbn. destruct (lookup k (g_procs b)); reflexivity.
  - cbn [fold_left]. rewrite IH. unfold pdefs. cbn [flat_map]. rewrite merge_procs_lookup.
    destruct (lookup k (g_procs b)) as [pb|], (lookup k (g_procs o)) as [po|]; reflexivity.
Qed.

Theorem chain_last_wins f b os :
  merge_all (b :: os) = Some (fold_left merge os b) /\
  sget f (g_scal (fold_left merge os b)) = last_some (map (fun g => sget f (g_scal g)) (b :: os)).
Proof. split; [reflexivity|apply chain_scalar]. Qed.

(* ---------- extends ------------------------------------------------------------------------------------------------ *)
Lemma memN_In x l : memN x l = true <-> In x l.
Proof.
  unfold memN. rewrite existsb_exists. split.
  - intros [y [H1 H2]]. apply N.eqb_eq in H2. now subst.
  - intros H. exists x. split; [exact H|apply N.eqb_refl].
Qed.

Lemma load_extends_front anc : forall ns ps,
  NoDup (map f_name anc) ->
  (forall n, In n (map f_name anc) -> ~ In n ns) ->
  load_extends anc 0 (ns, ps) =
  Some (rev (map f_name anc) ++ ns, map (fun a => f_cfg (resolve_file a)) (rev anc) ++ ps).
Proof.
  induction anc as [|a r IH]; intros ns ps Hnd Hfresh; [reflexivity|].
  cbn [load_extends fst snd].
  destruct (memN (f_name a) ns) eqn:E.
  - apply memN_In in E. exfalso. apply (Hfresh (f_name a)); [now left|exact E].
  - unfold insert_at. cbn [firstn skipn app]. inversion Hnd as [|x l Hx Hl]; subst.
    rewrite IH.
    + cbn [map rev]. rewrite map_app. cbn [map]. now rewrite <- !app_assoc.
    + exact Hl.
    + intros n Hn [<-|Hin]; [contradiction|]. apply (Hfresh n); [now right|exact Hin].
Qed.

Definition plain (c : cfile) : xfile := (c, []).

Lemma load_loop_plain cs : forall idx ns ps,
  load_loop (map plain cs) idx (ns, ps) = Some (ns, ps ++ map f_cfg cs).
Proof.
  induction cs as [|c r IH]; intros idx ns ps; cbn.
  - now rewrite app_nil_r.
  - rewrite IH. now rewrite <- app_assoc.
Qed.

Lemma load_projects_plain cs : load_projects (map plain cs) = Some (map f_cfg cs).
Proof. unfold load_projects. now rewrite load_loop_plain. Qed.

(* the files that [child extends ... extends base] stands for, named explicitly, base first *)
Definition explicit_chain (f : cfile) (anc : list cfile) : list xfile :=
  map plain (map resolve_file (rev anc) ++ [f]).

Lemma load_projects_extends f anc :
  NoDup (map f_name (f :: anc)) ->
  load_projects [(f, anc)] = load_projects (explicit_chain f anc).
Proof.
  intros Hnd. unfold explicit_chain. rewrite load_projects_plain.
  unfold load_projects. cbn [map fst load_loop]. inversion Hnd as [|x l Hx Hl]; subst.
  rewrite load_extends_front.
  - cbn [load_loop]. rewrite app_nil_r, map_app, map_map. reflexivity.
  - exact Hl.
  - intros n Hn [<-|[]]. contradiction.
Qed.

Theorem extends_is_explicit_chain defshell f anc :
  NoDup (map f_name (f :: anc)) ->
  load defshell [(f, anc)] = load defshell (explicit_chain f anc).
Proof. intros H. unfold load. now rewrite load_projects_extends. Qed.

(* and that explicit load is the left fold over [resolved base; ...; child] *)
Theorem extends_is_fold defshell f anc :
  NoDup (map f_name (f :: anc)) ->
  load defshell [(f, anc)] =
  option_map (post defshell) (merge_all (map (fun a => resolve_wd (f_dir a) (f_cfg a)) (rev anc) ++ [f_cfg f])).
Proof.
  intros H. rewrite extends_is_explicit_chain by exact H.
  unfold load, explicit_chain. rewrite load_projects_plain, map_app, map_map. cbn [map].
  destruct (merge_all _); reflexivity.
Qed.

(* resolve_wd touches nothing but the working directory of the base's processes *)
Lemma resolve_wd_only_wd dir g k p f :
  lookup k (g_procs g) = Some p -> f <> F_WD ->
  exists p', lookup k (g_procs (resolve_wd dir g)) = Some p' /\
             sget f (p_scal p') = sget f (p_scal p) /\ p_lists p' = p_lists p /\ p_env p' = p_env p /\
             p_maps p' = p_maps p /\ p_ptrs p' = p_ptrs p.
Proof.
  intros Hk Hf. exists (resolve_wd_proc dir p). cbn. rewrite lookup_map_vals, Hk. split; [reflexivity|].
  repeat split. cbn. unfold sget. rewrite lookup_set_key.
  destruct (N.eqb_spec F_WD f); [congruence|reflexivity].
Qed.

Lemma resolve_wd_rest dir g :
  g_scal (resolve_wd dir g) = g_scal g /\ g_env (resolve_wd dir g) = g_env g /\
  g_maps (resolve_wd dir g) = g_maps g /\ g_leafs (resolve_wd dir g) = g_leafs g /\
  g_mids (resolve_wd dir g) = g_mids g /\ map fst (g_procs (resolve_wd dir g)) = map fst (g_procs g).
Proof.
  repeat split. cbn. unfold map_vals. rewrite map_map. reflexivity.
Qed.

(* the working directory after resolution: empty -> the base file's directory; relative -> below it *)
Lemma resolve_wd_value dir p :
  str_of F_WD (p_scal (resolve_wd_proc dir p)) =
  match str_of F_WD (p_scal p) with
  | [] => dir
  | c :: r => if N.eqb c slash then c :: r else dir ++ slash :: c :: r
  end.
Proof.
  cbn. unfold str_of at 1, sget. rewrite lookup_set_key, N.eqb_refl.
  destruct (str_of F_WD (p_scal p)) as [|c r] eqn:E.
  - destruct dir; reflexivity.
  - destruct (N.eqb c slash); [reflexivity|]. destruct dir; reflexivity.
Qed.

(* F34: with the unrepaired default (every parsed file starts with log_length = 1000) the frame is false *)
Theorem loglen_frame_unfixed_refuted :
  exists b o, sget G_LOGLEN (g_scal o) = None /\
              sget G_LOGLEN (g_scal (merge (inject_loglen b) (inject_loglen o))) <> sget G_LOGLEN (g_scal b).
Proof.
  exists (mkProject [(G_LOGLEN, SInt 500)] None [] [] [] []), (mkProject [] None [] [] [] []).
  split; [reflexivity|discriminate].
Qed.
