From Coq Require Import List ZArith Bool NArith Lia.
From PC.Merge Require Import Model.
Import ListNotations.
