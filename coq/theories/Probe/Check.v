(* Correspondence checkers (model vs observed) and property monitors (specification-level oracles that do
   not use the model's step functions) for C10, evaluated by vm_compute on what the Go harness observed. *)
From Coq Require Import List ZArith Bool NArith.
From PC.Base Require Import Util.
From PC.Probe Require Import Model.
Import ListNotations.
Open Scope Z_scope.

Definition bytes_eqb := list_eqb N.eqb.

Definition http_eqb (a b : http) : bool :=
  bytes_eqb (h_host a) (h_host b) && bytes_eqb (h_scheme a) (h_scheme b) &&
  bytes_eqb (h_path a) (h_path b) && bytes_eqb (h_port a) (h_port b) && (h_numport a =? h_numport b).

Definition probe_eqb (a b : probe) : bool :=
  (p_delay a =? p_delay b) && (p_period a =? p_period b) && (p_timeout a =? p_timeout b) &&
  (p_succ a =? p_succ b) && (p_fail a =? p_fail b) && option_eqb http_eqb (p_http a) (p_http b).

(* ------------------------------------------------------------------ part 1: ValidateAndSetDefaults *)
Record vcase := mkV { v_in : probe; v_out : probe; v_out2 : probe }.   (* out2 = applied twice *)

Definition model_ok_v (c : vcase) : bool :=
  probe_eqb (validate (v_in c)) (v_out c) && probe_eqb (validate (validate (v_in c))) (v_out2 c).

(* monitor: legality of the effective parameters, nothing that was legal is changed, applying twice
   changes nothing; a port string that is a plain decimal number in 1..65535 is that port. *)
Definition legalb (p : probe) : bool :=
  (0 <=? p_delay p) && (1 <=? p_period p) && (1 <=? p_timeout p) && (1 <=? p_succ p) && (1 <=? p_fail p) &&
  match p_http p with
  | None => true
  | Some h => (h_numport h =? 0) || ((1 <=? h_numport h) && (h_numport h <=? 65535))
  end.

Fixpoint dec_val (acc : Z) (s : list N) : option Z :=   (* digits only, at most 6 of them *)
  match s with
  | [] => Some acc
  | c :: r => if ((48 <=? c) && (c <=? 57))%N then dec_val (10 * acc + (Z.of_N c - 48)) r else None
  end.

Definition kept (legal_from x y : Z) : bool := if legal_from <=? x then x =? y else true.

Definition holds_v (c : vcase) : bool :=
  let i := v_in c in let o := v_out c in
  legalb o && probe_eqb o (v_out2 c) &&
  kept 0 (p_delay i) (p_delay o) && kept 1 (p_period i) (p_period o) && kept 1 (p_timeout i) (p_timeout o) &&
  kept 1 (p_succ i) (p_succ o) && kept 1 (p_fail i) (p_fail o) &&
  match p_http i, p_http o with
  | None, None => true
  | Some hi, Some ho =>
      bytes_eqb (h_port hi) (h_port ho) &&
      match h_port hi with
      | [] => h_numport ho =? 0
      | s => if Nat.leb (length s) 6 then
               match dec_val 0 s with
               | Some v => if (1 <=? v) && (v <=? 65535) then h_numport ho =? v else h_numport ho =? 0
               | None => true
               end
             else true
      end
  | _, _ => false
  end.

(* ------------------------------------------------------------------ part 2: the prober *)
Record pcase := mkPC { pc_probe : probe; pc_evs : list pev; pc_obs : list (option (bool * bool)) }.

Definition cb_eqb := option_eqb (pair_eqb Bool.eqb Bool.eqb).

Definition model_ok_p (c : pcase) : bool :=
  list_eqb cb_eqb (prober_callbacks (pc_probe c) (pc_evs c)) (pc_obs c).

(* monitor: a callback per result while started, none while stopped; ok = the outcome; fatal exactly
   when the number of failures in a row since the last success / stop equals the effective threshold
   (documented default 3 when the configured one is < 1). History is scanned newest first. *)
Fixpoint spec_trail (r : list pev) : Z :=
  match r with
  | PResult false :: t => 1 + spec_trail t
  | PStart :: t => spec_trail t
  | _ => 0
  end.
Fixpoint spec_stopped (r : list pev) : bool :=
  match r with
  | PStop :: _ => true
  | PStart :: _ => false
  | PResult _ :: t => spec_stopped t
  | [] => false
  end.
Definition spec_thr (raw : Z) : Z := if raw <? 1 then 3 else raw.

Fixpoint mon_p (thr : Z) (hist : list pev) (evs : list pev) (obs : list (option (bool * bool))) : bool :=
  match evs, obs with
  | [], [] => true
  | e :: r, o :: ro =>
      let expect := match e with
                    | PResult ok => if spec_stopped hist then None
                                    else Some (ok, spec_trail (e :: hist) =? thr)
                    | _ => None
                    end in
      cb_eqb expect o && mon_p thr (e :: hist) r ro
  | _, _ => false
  end.

Definition holds_p (c : pcase) : bool :=
  mon_p (spec_thr (p_fail (pc_probe c))) [] (pc_evs c) (pc_obs c).

(* ------------------------------------------------------------------ part 3: process coupling *)
Record hobs := mkO { o_st : status; o_hl : hval; o_launches : nat; o_signals : nat; o_restarts : Z }.

Record hcase := mkHC { hc_cfg : cfg; hc_obs0 : hobs; hc_ops : list hop; hc_obs : list hobs }.

Definition status_eqb (a b : status) : bool :=
  match a, b with
  | Running, Running | Launching, Launching | Launched, Launched
  | Terminating, Terminating | Completed, Completed | OtherStatus, OtherStatus => true
  | _, _ => false
  end.
Definition hval_eqb (a b : hval) : bool :=
  match a, b with HUnknown, HUnknown | HReady, HReady | HNotReady, HNotReady => true | _, _ => false end.

Definition obs_of (s : hst) : hobs := mkO (st s) (hl s) (launches s) (signals s) (restarts s).
Definition hobs_eqb (a b : hobs) : bool :=
  status_eqb (o_st a) (o_st b) && hval_eqb (o_hl a) (o_hl b) && Nat.eqb (o_launches a) (o_launches b) &&
  Nat.eqb (o_signals a) (o_signals b) && (o_restarts a =? o_restarts b).

Fixpoint model_trace_h (c : cfg) (s : hst) (ops : list hop) (obs : list hobs) : bool :=
  match ops, obs with
  | [], [] => true
  | o :: r, b :: rb =>
      deliverable c s o &&
      let s' := h_apply c s o in hobs_eqb (obs_of s') b && model_trace_h c s' r rb
  | _, _ => false
  end.

Definition model_ok_h (c : hcase) : bool :=
  c_fixed (hc_cfg c) && hobs_eqb (obs_of (h_init (hc_cfg c))) (hc_obs0 c) &&
  model_trace_h (hc_cfg c) (h_init (hc_cfg c)) (hc_ops c) (hc_obs c).

(* monitor clauses, on consecutive observations (before, event, after):
   ready   : Ready is reported only if this event is a successful readiness probe, or it was Ready before and
             the process was neither relaunched nor sent a stop signal meanwhile
   notready: after a failed (non-fatal) readiness probe the process is Not Ready
   forget  : a relaunch or a stop signal leaves the readiness unknown
   fatal   : a fatal readiness result on a running (non-daemon) process sends one stop signal, and with
             policy always / on_failure (restart budget not used up) the process is launched again and Running
   live    : a fatal liveness result on a launched daemon is handled as an exit with the daemon's exit
             code 0: relaunched under `always` (budget permitting), otherwise Completed *)
Definition budget (c : cfg) (restarts : Z) : bool := (c_max c =? 0) || (restarts <? c_max c).

Definition cl_ready (a : hobs) (e : hop) (b : hobs) : bool :=
  match o_hl b with
  | HReady => match e with
              | RR true false => true
              | _ => hval_eqb (o_hl a) HReady && Nat.eqb (o_launches a) (o_launches b) &&
                     Nat.eqb (o_signals a) (o_signals b)
              end
  | _ => true
  end.
Definition cl_notready (e : hop) (b : hobs) : bool :=
  match e with RR false false => hval_eqb (o_hl b) HNotReady | _ => true end.
Definition cl_forget (a b : hobs) : bool :=
  if Nat.ltb (o_launches a) (o_launches b) || Nat.ltb (o_signals a) (o_signals b)
  then hval_eqb (o_hl b) HUnknown else true.
Definition cl_fatal (c : cfg) (a : hobs) (e : hop) (b : hobs) : bool :=
  match e with
  | RR _ true =>
      if c_daemon c then true else
      Nat.eqb (o_signals b) (S (o_signals a)) &&
      match c_policy c with
      | PolNo => true
      | _ => if budget c (o_restarts a)
             then Nat.eqb (o_launches b) (S (o_launches a)) && status_eqb (o_st b) Running
             else true
      end
  | _ => true
  end.
Definition cl_live (c : cfg) (a : hobs) (e : hop) (b : hobs) : bool :=
  match e with
  | LR _ true =>
      if c_daemon c && status_eqb (o_st a) Launched then
        match c_policy c with
        | PolAlways => if budget c (o_restarts a)
                       then Nat.eqb (o_launches b) (S (o_launches a)) && status_eqb (o_st b) Launching
                       else status_eqb (o_st b) Completed
        | _ => status_eqb (o_st b) Completed && Nat.eqb (o_launches b) (o_launches a)
        end
      else true
  | _ => true
  end.

(* clause numbers: 1 ready, 2 notready, 3 forget, 4 fatal, 5 live, 6 malformed case *)
Fixpoint mon_h (c : cfg) (a : hobs) (ops : list hop) (obs : list hobs) : nat :=
  match ops, obs with
  | [], [] => 0
  | e :: r, b :: rb =>
      if negb (cl_ready a e b) then 1 else if negb (cl_notready e b) then 2
      else if negb (cl_forget a b) then 3 else if negb (cl_fatal c a e b) then 4
      else if negb (cl_live c a e b) then 5 else mon_h c b r rb
  | _, _ => 6
  end%nat.

Definition clause_h (c : hcase) : nat := mon_h (hc_cfg c) (hc_obs0 c) (hc_ops c) (hc_obs c).
Definition holds_h (c : hcase) : bool := Nat.eqb (clause_h c) 0.

(* ------------------------------------------------------------------ entry points of cases_C10.v *)
Definition bad_model_v := failing model_ok_v.   Definition bad_monitor_v := failing holds_v.
Definition bad_model_p := failing model_ok_p.   Definition bad_monitor_p := failing holds_p.
Definition bad_model_h := failing model_ok_h.   Definition bad_monitor_h := failing holds_h.
Definition clauses_h (cs : list hcase) : list nat := map clause_h cs.
