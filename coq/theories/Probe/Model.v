(* Model of the health-probe machinery of process-compose (property C10).
   No proofs in this file: it must stay evaluable when a proof is broken.

   Part 1  Probe.ValidateAndSetDefaults / HttpProbe.validateAndSetHttpDefaults / getUrl
           src/health/probe.go:34-85  (strconv.Atoi of the Go standard library included)
   Part 2  health.Prober.healthCheckCompleted + the ContiguousFailures counter of go-health
           src/health/health_checks.go:52-88, go-health/v2 health.go:251-367
   Part 3  the process-level coupling: onReadinessCheckEnd / onLivenessCheckEnd / internalStop /
           the run() loop / isRestartable / daemon.go
           src/app/process.go:105-172,289-322,372-417,738-757,813-832, src/app/daemon.go
           (AFTER the repair fixes/F11-internal-stop-keeps-run-context.diff; the behaviour of the
            unrepaired code is kept under [c_fixed = false]).
   Go ints are 64 bit; the model uses Z (no arithmetic here can overflow: values are only compared,
   or incremented once per event). Byte strings are lists of N (byte values). *)
From Coq Require Import List ZArith Bool NArith.
Import ListNotations.
Open Scope Z_scope.

(* ================================================================================ Part 1 ====== *)
Definition max_int64 : Z := 9223372036854775807.
Definition min_int64 : Z := -9223372036854775808.
Definition max_uint64 : Z := 18446744073709551615.

Definition is_digit (c : N) : bool := ((48 <=? c) && (c <=? 57))%N.

(* strconv.ParseUint(s, 10, 64) on a non-empty digit string: None = syntax error (result 0);
   on overflow the function returns at once with the maximal value (later bytes are not looked at). *)
Fixpoint parse_uint (acc : Z) (s : list N) : option Z :=
  match s with
  | [] => Some acc
  | c :: r =>
      if is_digit c then
        let acc' := acc * 10 + Z.of_N (c - 48) in
        if acc' >? max_uint64 then Some max_uint64 else parse_uint acc' r
      else None
  end.

Definition clamp64 (z : Z) : Z := Z.max min_int64 (Z.min max_int64 z).

(* the int returned by strconv.Atoi (the error is dropped by the caller: `p.NumPort, _ = Atoi(p.Port)`):
   optional sign, at least one ASCII digit, nothing else; syntax error -> 0; out of range -> clamped *)
Definition atoi (s : list N) : Z :=
  match s with
  | [] => 0
  | c :: r =>
      let neg := (c =? 45)%N in
      let body := if ((c =? 45) || (c =? 43))%N then r else s in
      match body with
      | [] => 0
      | _ => match parse_uint 0 body with
             | None => 0
             | Some v => clamp64 (if neg then - v else v)
             end
      end
  end.

(* strings.TrimSpace(s) == "" for ASCII strings: \t \n \v \f \r and space *)
Definition is_space (c : N) : bool := (((9 <=? c) && (c <=? 13)) || (c =? 32))%N.
Definition blank (s : list N) : bool := forallb is_space s.

Record http := mkHttp {
  h_host : list N; h_scheme : list N; h_path : list N; h_port : list N; h_numport : Z }.

Record probe := mkProbe {
  p_delay : Z; p_period : Z; p_timeout : Z; p_succ : Z; p_fail : Z; p_http : option http }.

Definition s_localhost : list N := [49;50;55;46;48;46;48;46;49]%N.   (* "127.0.0.1" *)
Definition s_http : list N := [104;116;116;112]%N.                   (* "http" *)
Definition s_slash : list N := [47]%N.                               (* "/" *)

Definition validate_http (h : http) : http :=
  let n := match h_port h with [] => 0 | _ => atoi (h_port h) end in
  mkHttp (if blank (h_host h) then s_localhost else h_host h)
         (if blank (h_scheme h) then s_http else h_scheme h)
         (if blank (h_path h) then s_slash else h_path h)
         (h_port h)
         (if (n <? 1) || (n >? 65535) then 0 else n).

Definition validate (p : probe) : probe :=
  mkProbe (if p_delay p <? 0 then 0 else p_delay p)
          (if p_period p <? 1 then 10 else p_period p)
          (if p_timeout p <? 1 then 1 else p_timeout p)
          (if p_succ p <? 1 then 1 else p_succ p)
          (if p_fail p <? 1 then 3 else p_fail p)
          (option_map validate_http (p_http p)).

(* getUrl: the URL carries ":port" exactly when NumPort <> 0 *)
Definition url_port (h : http) : option Z := if h_numport h =? 0 then None else Some (h_numport h).

(* ================================================================================ Part 2 ====== *)
(* go-health keeps, per check, the last State; ContiguousFailures = previous + 1 on a failure and 0 in
   the fresh State of a success; Health.Stop() resets the states.  Prober.stopped suppresses callbacks. *)
Inductive pev := PStart | PStop | PResult (ok : bool).

Record pst := mkP { cf : nat; stopped : bool }.
Definition p_init : pst := mkP 0 false.

(* callback = Some (ok, fatal) *)
Definition p_step (thr : Z) (s : pst) (e : pev) : pst * option (bool * bool) :=
  match e with
  | PStart => (mkP (cf s) false, None)
  | PStop => (mkP 0 true, None)
  | PResult ok =>
      let c := if ok then 0%nat else S (cf s) in
      (mkP c (stopped s), if stopped s then None else Some (ok, Z.of_nat c =? thr))
  end.

Fixpoint p_run (thr : Z) (s : pst) (evs : list pev) : pst * list (option (bool * bool)) :=
  match evs with
  | [] => (s, [])
  | e :: r => let '(s1, o) := p_step thr s e in
              let '(s2, os) := p_run thr s1 r in (s2, o :: os)
  end.

(* the callbacks of a prober that is created with the (raw) probe configuration [p] *)
Definition prober_callbacks (p : probe) (evs : list pev) : list (option (bool * bool)) :=
  snd (p_run (p_fail (validate p)) p_init evs).

(* ================================================================================ Part 3 ====== *)
Inductive policy := PolNo | PolAlways | PolOnFailure.
(* OtherStatus: Pending / Restarting / Error ...: never a settled state of a launched process in this model *)
Inductive status := Running | Launching | Launched | Terminating | Completed | OtherStatus.
Inductive hval := HUnknown | HReady | HNotReady.

Record cfg := mkCfg {
  c_policy : policy;
  c_max : Z;            (* availability.max_restarts, 0 = unlimited *)
  c_daemon : bool;
  c_ready : bool;       (* a readiness prober exists *)
  c_live : bool;        (* a liveness prober exists *)
  c_stopcode : Z;       (* exit code of the command when it receives the stop signal *)
  c_fixed : bool        (* repair F11 applied: an internal stop does not cancel the run context *)
}.

Record hst := mkH {
  st : status; hl : hval;
  launches : nat; signals : nat; restarts : Z;
  alive : bool;         (* the current command has not exited *)
  tok : bool;           (* procStateChan holds a "Completed" token (buffer of 1) *)
  cancelled : bool;     (* procRunCtx is cancelled *)
  stopflag : bool       (* isStopped *)
}.

Inductive hop :=
| RR (ok fatal : bool)      (* readiness prober callback *)
| LR (ok fatal : bool)      (* liveness prober callback *)
| EX (code : Z)             (* the command exits by itself *)
| STOP.                     (* ProjectRunner.StopProcess *)

Definition start_status (c : cfg) : status := if c_daemon c then Launching else Running.
Definition h_init (c : cfg) : hst := mkH (start_status c) HUnknown 1 0 0 true false false false.

(* probers run between startProbes and stopProbes; isRunning() is the same set of states *)
Definition probing (s : status) : bool :=
  match s with Running | Launching | Launched => true | _ => false end.

(* Process.isRestartable once isStopped was found false *)
Definition restartable (c : cfg) (code restarts : Z) : bool :=
  match c_policy c with
  | PolNo => false
  | PolOnFailure => if code =? 0 then false else (c_max c =? 0) || (restarts <? c_max c)
  | PolAlways => (c_max c =? 0) || (restarts <? c_max c)
  end.

(* run() from `if !p.isRestartable()` on, the exit code being [code] *)
Definition after_exit (c : cfg) (s : hst) (code : Z) : hst :=
  if stopflag s then
    mkH Completed (hl s) (launches s) (signals s) (restarts s) false (tok s) (cancelled s) false
  else if restartable c code (restarts s) then
    if cancelled s then   (* back-off select sees procRunCtx.Done(): the instance ends *)
      mkH Completed HUnknown (launches s) (signals s) (restarts s + 1) false (tok s) true false
    else                  (* Restarting -> back-off -> next launch *)
      mkH (start_status c) HUnknown (S (launches s)) (signals s) (restarts s + 1) true (tok s) false false
  else
    mkH Completed (hl s) (launches s) (signals s) (restarts s) false (tok s) (cancelled s) false.

(* command.Wait() returned with [code] *)
Definition cmd_exited (c : cfg) (s : hst) (code : Z) : hst :=
  if c_daemon c && (code =? 0) then            (* isDaemonLaunched: Launched, waitForDaemonCompletion *)
    if tok s then
      after_exit c (mkH Launched (hl s) (launches s) (signals s) (restarts s) false false (cancelled s) (stopflag s)) 0
    else mkH Launched (hl s) (launches s) (signals s) (restarts s) false false (cancelled s) (stopflag s)
  else after_exit c (mkH (st s) (hl s) (launches s) (signals s) (restarts s) false (tok s) (cancelled s) (stopflag s)) code.

(* stopProcess on a process for which isRunning() holds: Terminating (health forgotten), stop signal;
   a live command then exits with c_stopcode *)
Definition do_stop (c : cfg) (s : hst) (cancel noRestart : bool) : hst :=
  let s1 := mkH Terminating HUnknown (launches s) (S (signals s)) (restarts s) (alive s) (tok s)
                (cancelled s || cancel) (stopflag s || noRestart) in
  if alive s then cmd_exited c s1 (c_stopcode c) else s1.

(* may the environment produce this event in this state? (probers only call back while started;
   a second liveness-fatal while the token is still buffered would block the prober goroutine) *)
Definition deliverable (c : cfg) (s : hst) (o : hop) : bool :=
  match o with
  | RR _ _ => probing (st s) && c_ready c
  | LR _ fatal => probing (st s) && c_live c && negb (fatal && c_daemon c && tok s)
  | EX _ => alive s
  | STOP => match st s with Completed => false | _ => true end
  end.

Definition h_apply (c : cfg) (s : hst) (o : hop) : hst :=
  match o with
  | RR ok fatal =>
      if fatal then do_stop c s (negb (c_fixed c)) false     (* Health = Not Ready, then internalStop *)
      else mkH (st s) (if ok then HReady else HNotReady) (launches s) (signals s) (restarts s)
               (alive s) (tok s) (cancelled s) (stopflag s)
  | LR _ fatal =>
      if fatal && c_daemon c then                            (* notifyDaemonStopped *)
        match st s with
        | Launched => after_exit c s 0                       (* the run loop is waiting for the token *)
        | _ => mkH (st s) (hl s) (launches s) (signals s) (restarts s) (alive s) true (cancelled s) (stopflag s)
        end
      else s
  | EX code => cmd_exited c s code
  | STOP =>
      if probing (st s) then do_stop c s true true
      else mkH (st s) (hl s) (launches s) (signals s) (restarts s) (alive s) (tok s) true true
  end.

Definition health_step (c : cfg) (s : hst) (o : hop) : hst :=
  if deliverable c s o then h_apply c s o else s.

Definition h_run (c : cfg) (ops : list hop) : hst := fold_left (health_step c) ops (h_init c).
