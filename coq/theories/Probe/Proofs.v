(* Proofs about the Probe model (property C10). Stdlib + lia only. *)
From Coq Require Import List ZArith Bool NArith Lia.
From PC.Base Require Import Util.
From PC.Probe Require Import Model Check.
Import ListNotations.
Open Scope Z_scope.

(* ================================================================================ Part 1 ====== *)
Definition legal (p : probe) : Prop :=
  0 <= p_delay p /\ 1 <= p_period p /\ 1 <= p_timeout p /\ 1 <= p_succ p /\ 1 <= p_fail p /\
  match p_http p with
  | None => True
  | Some h => h_numport h = 0 \/ (1 <= h_numport h <= 65535)
  end.

Lemma validate_http_port : forall h,
  h_numport (validate_http h) = 0 \/ 1 <= h_numport (validate_http h) <= 65535.
Proof.
  intros h. unfold validate_http; cbn [h_numport].
  set (n := match h_port h with [] => 0 | _ => atoi (h_port h) end).
  destruct (n <? 1) eqn:E1; cbn [orb]; [left; reflexivity|].
  destruct (n >? 65535) eqn:E2; [left; reflexivity|]. right. lia.
Qed.

Lemma defaults_legal : forall p, legal (validate p).
Proof.
  intros p. unfold legal, validate; cbn [p_delay p_period p_timeout p_succ p_fail p_http].
  repeat split;
    try (match goal with |- context [if ?b then _ else _] => destruct b eqn:E end; lia).
  destruct (p_http p) as [h|]; cbn [option_map]; [apply validate_http_port|exact I].
Qed.

Lemma legalb_legal : forall p, legalb p = true <-> legal p.
Proof.
  intros p. unfold legalb, legal. rewrite !andb_true_iff, !Z.leb_le.
  destruct (p_http p) as [h|].
  - rewrite orb_true_iff, andb_true_iff, Z.eqb_eq, !Z.leb_le. tauto.
  - tauto.
Qed.

Lemma blank_default (s d : list N) : blank d = false ->
  (if blank (if blank s then d else s) then d else (if blank s then d else s)) = (if blank s then d else s).
Proof. intros Hd. destruct (blank s) eqn:E; [rewrite Hd|rewrite E]; reflexivity. Qed.

Lemma validate_http_idem : forall h, validate_http (validate_http h) = validate_http h.
Proof.
  intros [ho sc pa po np]. unfold validate_http. cbn [h_host h_scheme h_path h_port h_numport].
  f_equal; apply blank_default; reflexivity.
Qed.

Lemma clampdef_idem (lo d x : Z) : lo <= d ->
  (if (if x <? lo then d else x) <? lo then d else (if x <? lo then d else x)) = (if x <? lo then d else x).
Proof. intros H. destruct (x <? lo) eqn:E; [|rewrite E; reflexivity]. destruct (d <? lo) eqn:E2; [lia|reflexivity]. Qed.

Lemma validate_idem : forall p, validate (validate p) = validate p.
Proof.
  intros [d pe t su f [h|]]; unfold validate; cbn [p_delay p_period p_timeout p_succ p_fail p_http option_map];
    [rewrite validate_http_idem|]; f_equal; apply clampdef_idem; lia.
Qed.

(* nothing that is already legal is altered *)
Lemma validate_keeps : forall p,
  (0 <= p_delay p -> p_delay (validate p) = p_delay p) /\
  (1 <= p_period p -> p_period (validate p) = p_period p) /\
  (1 <= p_timeout p -> p_timeout (validate p) = p_timeout p) /\
  (1 <= p_succ p -> p_succ (validate p) = p_succ p) /\
  (1 <= p_fail p -> p_fail (validate p) = p_fail p).
Proof.
  intros p. unfold validate; cbn [p_delay p_period p_timeout p_succ p_fail].
  repeat split; intros H;
    match goal with |- context [if ?b then _ else _] => destruct b eqn:E end; lia.
Qed.

(* the documented defaults *)
Lemma validate_defaults : forall p,
  (p_delay p < 0 -> p_delay (validate p) = 0) /\ (p_period p < 1 -> p_period (validate p) = 10) /\
  (p_timeout p < 1 -> p_timeout (validate p) = 1) /\ (p_succ p < 1 -> p_succ (validate p) = 1) /\
  (p_fail p < 1 -> p_fail (validate p) = 3).
Proof.
  intros p. unfold validate; cbn [p_delay p_period p_timeout p_succ p_fail].
  repeat split; intros H;
    match goal with |- context [if ?b then _ else _] => destruct b eqn:E end; lia.
Qed.

(* decimal port strings: a complete sweep of 0..70000 (finite domain, evaluated by the VM, lifted) *)
Fixpoint dec_digits (fuel : nat) (n : Z) (acc : list N) : list N :=
  match fuel with
  | O => acc
  | S f => if n <? 10 then (Z.to_N (48 + n)) :: acc
           else dec_digits f (n / 10) (Z.to_N (48 + n mod 10) :: acc)
  end.
Definition decimal (n : Z) : list N := dec_digits 20 n [].

Definition port_of_string (s : list N) : Z := h_numport (validate_http (mkHttp [] [] [] s 0)).
Definition port_sweep_ok (n : Z) : bool :=
  port_of_string (decimal n) =? (if (1 <=? n) && (n <=? 65535) then n else 0).

Fixpoint zseq (len : nat) (from : Z) : list Z :=
  match len with O => [] | S l => from :: zseq l (from + 1) end.

Lemma in_zseq : forall len from n, from <= n < from + Z.of_nat len -> In n (zseq len from).
Proof.
  induction len as [|l IH]; intros from n H; [cbn in H; lia|].
  rewrite Nat2Z.inj_succ in H. cbn [zseq In].
  destruct (Z.eq_dec from n); [left; auto|right; apply IH; lia].
Qed.

Lemma port_sweep : forallb port_sweep_ok (zseq (Z.to_nat 70001) 0) = true.
Proof. vm_compute. reflexivity. Qed.

Lemma numport_only_port : forall h, h_numport (validate_http h) = port_of_string (h_port h).
Proof. intros h. reflexivity. Qed.

Lemma decimal_ports : forall h n, 0 <= n <= 70000 -> h_port h = decimal n ->
  h_numport (validate_http h) = if (1 <=? n) && (n <=? 65535) then n else 0.
Proof.
  intros h n Hn Hp. rewrite numport_only_port, Hp.
  pose proof port_sweep as S. rewrite forallb_forall in S.
  apply Z.eqb_eq, (S n), in_zseq. rewrite Z2Nat.id; lia.
Qed.

(* ================================================================================ Part 2 ====== *)
Definition p_state (thr : Z) (s : pst) (evs : list pev) : pst := fst (p_run thr s evs).
Definition p_out (thr : Z) (s : pst) (evs : list pev) := snd (p_run thr s evs).

Lemma p_run_app : forall thr evs1 evs2 s,
  p_run thr s (evs1 ++ evs2) =
  (p_state thr (p_state thr s evs1) evs2, p_out thr s evs1 ++ p_out thr (p_state thr s evs1) evs2).
Proof.
  unfold p_state, p_out. induction evs1 as [|e r IH]; intros evs2 s; cbn.
  - destruct (p_run thr s evs2); reflexivity.
  - destruct (p_step thr s e) as [s1 o]. rewrite IH.
    destruct (p_run thr s1 r) as [s2 os]. cbn. reflexivity.
Qed.

(* the state of the model is what the specification reads off the history (newest event first) *)
Definition p_inv (s : pst) (hist : list pev) : Prop :=
  Z.of_nat (cf s) = spec_trail hist /\ stopped s = spec_stopped hist.

Lemma p_step_inv : forall thr s hist e, p_inv s hist -> p_inv (fst (p_step thr s e)) (e :: hist).
Proof.
  intros thr s hist e [H1 H2]. unfold p_inv.
  destruct e as [| |[|]]; cbn [fst p_step cf stopped spec_trail spec_stopped]; split; auto;
    rewrite ?Nat2Z.inj_succ; lia.
Qed.

Lemma p_step_out : forall thr s hist e, p_inv s hist ->
  snd (p_step thr s e) =
  match e with
  | PResult ok => if spec_stopped hist then None else Some (ok, spec_trail (e :: hist) =? thr)
  | _ => None
  end.
Proof.
  intros thr s hist e [H1 H2]. destruct e as [| |ok]; cbn [snd p_step]; auto.
  rewrite H2. destruct (spec_stopped hist); auto. f_equal. f_equal.
  destruct ok; cbn [spec_trail]; [reflexivity|]. rewrite Nat2Z.inj_succ, H1. f_equal. lia.
Qed.

Lemma cb_eqb_refl : forall o, cb_eqb o o = true.
Proof. intros [[[|] [|]]|]; reflexivity. Qed.

Lemma mon_p_model : forall thr evs s hist, p_inv s hist -> mon_p thr hist evs (p_out thr s evs) = true.
Proof.
  unfold p_out. induction evs as [|e r IH]; intros s hist Hinv; [reflexivity|].
  pose proof (p_step_out thr s hist e Hinv) as Ho. pose proof (p_step_inv thr s hist e Hinv) as Hi.
  cbn [p_run]. destruct (p_step thr s e) as [s1 o]. cbn [fst snd] in Ho, Hi. specialize (IH s1 (e :: hist) Hi).
  destruct (p_run thr s1 r) as [s2 os]. cbn [snd] in *. cbn [mon_p]. rewrite IH, andb_true_r, <- Ho.
  apply cb_eqb_refl.
Qed.

Lemma p_inv_init : p_inv p_init [].
Proof. split; reflexivity. Qed.

Lemma p_state_inv : forall thr evs s hist, p_inv s hist -> p_inv (p_state thr s evs) (rev evs ++ hist).
Proof.
  unfold p_state. induction evs as [|e r IH]; intros s hist H; cbn; auto.
  pose proof (p_step_inv thr s hist e H) as Hi. destruct (p_step thr s e) as [s1 o]. cbn in Hi.
  specialize (IH s1 _ Hi). destruct (p_run thr s1 r) as [s2 os]. cbn in *.
  rewrite <- app_assoc. exact IH.
Qed.

(* THE threshold rule: after any history [pre], the callback for the next result is absent when the
   prober is stopped, and otherwise reports the outcome and fatal <-> the run of consecutive failures
   (since the last success / stop) that this result completes has exactly the threshold's length. *)
Lemma fatal_exact : forall thr pre ok,
  p_out thr p_init (pre ++ [PResult ok]) =
  p_out thr p_init pre ++
  [if spec_stopped (rev pre) then None
   else Some (ok, spec_trail (PResult ok :: rev pre) =? thr)].
Proof.
  intros thr pre ok. unfold p_out at 1. rewrite p_run_app. cbn [snd]. f_equal.
  pose proof (p_state_inv thr pre p_init [] p_inv_init) as Hi. rewrite app_nil_r in Hi.
  pose proof (p_step_out thr _ _ (PResult ok) Hi) as Ho.
  unfold p_out. cbn [p_run]. 
  destruct (p_step thr (p_state thr p_init pre) (PResult ok)) as [s1 o]. cbn [snd] in *. rewrite Ho. reflexivity.
Qed.

Lemma holds_p_model : forall p evs, holds_p (mkPC p evs (prober_callbacks p evs)) = true.
Proof.
  intros p evs. unfold holds_p, prober_callbacks; cbn [pc_probe pc_evs pc_obs].
  replace (spec_thr (p_fail p)) with (p_fail (validate p)) by reflexivity.
  apply (mon_p_model _ evs p_init [] p_inv_init).
Qed.

Lemma never_while_stopped : forall thr s e, stopped s = true -> snd (p_step thr s e) = None.
Proof. intros thr s [| |ok] H; cbn; auto. rewrite H. reflexivity. Qed.

Lemma silent_until_start : forall thr outs s, stopped s = true ->
  p_out thr s (map PResult outs) = map (fun _ => None) outs.
Proof.
  unfold p_out. induction outs as [|o r IH]; intros s H; [reflexivity|].
  cbn [map p_run p_step]. rewrite H.
  specialize (IH (mkP (if o then 0%nat else S (cf s)) true) eq_refl).
  destruct (p_run thr _ (map PResult r)) as [s2 os]. cbn [snd] in *. f_equal. exact IH.
Qed.

Lemma stop_stops : forall thr s, stopped (fst (p_step thr s PStop)) = true.
Proof. reflexivity. Qed.

Lemma fatal_implies_failure : forall thr s ok, 1 <= thr ->
  snd (p_step thr s (PResult ok)) = Some (ok, true) -> ok = false.
Proof.
  intros thr s ok Ht H. cbn [snd p_step] in H. destruct (stopped s); [discriminate|]. destruct ok; auto.
  inversion H as [E]. destruct thr; [lia|discriminate|discriminate].
Qed.

(* beyond the threshold: while the failures continue no further fatal is raised *)
Lemma no_second_fatal : forall thr n s,
  stopped s = false -> thr < Z.of_nat (S (cf s)) ->
  p_out thr s (repeat (PResult false) n) = repeat (Some (false, false)) n.
Proof.
  unfold p_out. induction n as [|n IH]; intros s Hs Hc; [reflexivity|].
  cbn [repeat p_run p_step]. rewrite Hs.
  specialize (IH (mkP (S (cf s)) false) eq_refl). cbn [cf] in IH.
  destruct (p_run thr _ (repeat (PResult false) n)) as [s2 os]. cbn [snd] in *.
  f_equal; [|apply IH; lia]. f_equal. f_equal. apply Z.eqb_neq. lia.
Qed.

Lemma after_fatal_quiet : forall thr s n,
  snd (p_step thr s (PResult false)) = Some (false, true) ->
  p_out thr (fst (p_step thr s (PResult false))) (repeat (PResult false) n) = repeat (Some (false, false)) n.
Proof.
  intros thr s n H. unfold p_step, snd in H. destruct (stopped s) eqn:Hs; [discriminate|].
  destruct (Z.of_nat (S (cf s)) =? thr) eqn:E; [|discriminate]. clear H. apply Z.eqb_eq in E. apply no_second_fatal; cbn [p_step fst stopped cf]; auto.
  rewrite Nat2Z.inj_succ in *. lia.
Qed.

(* ================================================================================ Part 3 ====== *)
Lemma fold_left_inv {A B} (f : A -> B -> A) (P : A -> Prop) :
  (forall a b, P a -> P (f a b)) -> forall l a, P a -> P (fold_left f l a).
Proof. intros H l. induction l as [|b r IH]; intros a Ha; cbn; auto. Qed.

Ltac crush_h :=
  repeat match goal with
  | s : hst |- _ => destruct s
  | c : cfg |- _ => destruct c
  end; cbn in *;
  repeat (match goal with
  | H : context [match ?x with _ => _ end] |- _ => destruct x eqn:?; cbn in *; try discriminate; try lia
  | |- context [match ?x with _ => _ end] => destruct x eqn:?; cbn in *; try discriminate; try lia
  end); subst; cbn in *; try discriminate; try congruence; try lia; auto.

(* "Not Ready after a failed probe", "Ready after a successful one" *)
Lemma notready_after_failure : forall c s, deliverable c s (RR false false) = true ->
  hl (health_step c s (RR false false)) = HNotReady.
Proof. intros c s H. unfold health_step. rewrite H. reflexivity. Qed.

Lemma ready_after_success : forall c s, deliverable c s (RR true false) = true ->
  hl (health_step c s (RR true false)) = HReady.
Proof. intros c s H. unfold health_step. rewrite H. reflexivity. Qed.

(* one step can only produce / keep Ready in two ways *)
Lemma ready_step : forall c s o, hl (health_step c s o) = HReady ->
  (o = RR true false /\ deliverable c s o = true) \/
  (hl s = HReady /\ launches (health_step c s o) = launches s /\ signals (health_step c s o) = signals s).
Proof.
  intros c s o H. unfold health_step in *. destruct (deliverable c s o) eqn:D; [|right; auto].
  destruct o as [ok fatal|ok fatal|code|].
  - destruct fatal.
    + right. revert H. clear D. unfold h_apply, do_stop, cmd_exited, after_exit. crush_h.
    + destruct ok; [left; auto|]. cbn in H. discriminate.
  - right. revert H. clear D. unfold h_apply, after_exit. crush_h.
  - right. revert H. clear D. unfold h_apply, cmd_exited, after_exit. crush_h.
  - right. revert H. clear D. unfold h_apply, do_stop, cmd_exited, after_exit. crush_h.
Qed.

Lemma h_run_snoc : forall c ops o, h_run c (ops ++ [o]) = health_step c (h_run c ops) o.
Proof. intros. unfold h_run. rewrite fold_left_app. reflexivity. Qed.

(* "reported Ready only after a probe has succeeded ... forgotten when restarted or stopped":
   whenever the model reports Ready, the history contains a successful readiness result that was
   delivered while the probers were running, and since then no launch and no stop signal happened *)
Lemma ready_only_after_success : forall c ops, hl (h_run c ops) = HReady ->
  exists pre post, ops = pre ++ RR true false :: post /\
    deliverable c (h_run c pre) (RR true false) = true /\
    launches (h_run c ops) = launches (h_run c (pre ++ [RR true false])) /\
    signals (h_run c ops) = signals (h_run c (pre ++ [RR true false])).
Proof.
  intros c ops. induction ops as [|o r IH] using rev_ind; intros H.
  - cbn in H. discriminate.
  - rewrite h_run_snoc in *. destruct (ready_step _ _ _ H) as [[-> D]|(Hr & Hl & Hs)].
    + exists r, []. rewrite h_run_snoc. auto.
    + destruct (IH Hr) as (pre & post & -> & D & E1 & E2).
      exists pre, (post ++ [o]). rewrite <- app_assoc. cbn. repeat split; auto; congruence.
Qed.

(* a relaunch or a stop signal leaves the readiness unknown *)
Lemma forgotten : forall c s o,
  (launches s < launches (health_step c s o) \/ signals s < signals (health_step c s o))%nat ->
  hl (health_step c s o) = HUnknown.
Proof.
  intros c s o. unfold health_step. destruct (deliverable c s o); [|lia].
  destruct o as [ok fatal|ok fatal|code|]; unfold h_apply, do_stop, cmd_exited, after_exit; crush_h.
Qed.

(* a fatal readiness result always sends exactly one stop signal *)
Lemma fatal_sends_stop : forall c s ok, deliverable c s (RR ok true) = true ->
  signals (health_step c s (RR ok true)) = S (signals s).
Proof.
  intros c s ok D. unfold health_step. rewrite D. clear D.
  unfold h_apply, do_stop, cmd_exited, after_exit. crush_h.
Qed.

(* reachable states of a non-daemon process: Running with a live command, or Completed *)
Definition nd_inv (s : hst) : Prop :=
  (st s = Running /\ alive s = true /\ stopflag s = false /\ cancelled s = false) \/
  (st s = Completed /\ alive s = false).

Lemma nd_inv_step : forall c s o, c_daemon c = false -> c_fixed c = true -> nd_inv s -> nd_inv (health_step c s o).
Proof.
  intros c s o Hd Hf [(H1 & H2 & H3 & H4)|(H1 & H2)]; unfold health_step, nd_inv.
  - destruct (deliverable c s o); [|left; auto].
    destruct o as [ok fatal|ok fatal|code|]; unfold h_apply, do_stop, cmd_exited, after_exit; crush_h.
  - destruct (deliverable c s o) eqn:D; [|right; auto]. exfalso. revert D. unfold deliverable. crush_h.
Qed.

Lemma nd_inv_run : forall c ops, c_daemon c = false -> c_fixed c = true -> nd_inv (h_run c ops).
Proof.
  intros c ops Hd Hf. unfold h_run. apply fold_left_inv.
  - intros a b. apply nd_inv_step; auto.
  - left. unfold h_init, start_status. rewrite Hd. cbn. auto.
Qed.

Definition wants_relaunch (c : cfg) : bool :=
  match c_policy c with
  | PolAlways => true
  | PolOnFailure => negb (c_stopcode c =? 0)
  | PolNo => false
  end.

(* after the repair: fatal readiness => stop signal => the process runs again (restart budget permitting) *)
Lemma fatal_relaunch : forall c ops ok,
  c_daemon c = false -> c_fixed c = true ->
  let s := h_run c ops in
  deliverable c s (RR ok true) = true ->
  let s' := health_step c s (RR ok true) in
  signals s' = S (signals s) /\ hl s' = HUnknown /\
  (wants_relaunch c = true -> budget c (restarts s) = true ->
     launches s' = S (launches s) /\ st s' = Running /\ alive s' = true /\ restarts s' = restarts s + 1) /\
  (wants_relaunch c = false -> launches s' = launches s /\ st s' = Completed).
Proof.
  intros c ops ok Hd Hf s D s'. pose proof (nd_inv_run c ops Hd Hf) as I. fold s in I.
  subst s'. unfold health_step. rewrite D. destruct I as [(H1 & H2 & H3 & H4)|(H1 & H2)].
  - clearbody s. clear D. unfold h_apply, do_stop, cmd_exited, after_exit, wants_relaunch, budget, restartable.
    destruct s as [st0 hl0 la si re al to ca sf], c as [pol mx dm rd lv sc fx]; cbn in *; subst; cbn.
    destruct pol; cbn; try destruct (sc =? 0); cbn;
      try destruct ((mx =? 0) || (re <? mx)) eqn:B; cbn;
      repeat split; intros; cbn; auto; try discriminate.
  - exfalso. clearbody s. revert D. unfold deliverable. rewrite H1. cbn. discriminate.
Qed.

(* a daemon whose liveness probe turns fatal while it is Launched is handled exactly like its exit
   (with the daemon's exit code, 0) *)
Lemma daemon_liveness_is_exit : forall c s ok, c_daemon c = true -> st s = Launched ->
  deliverable c s (LR ok true) = true ->
  health_step c s (LR ok true) = after_exit c s 0.
Proof.
  intros c s ok Hd Hs D. unfold health_step. rewrite D. unfold h_apply. rewrite Hd, Hs. reflexivity.
Qed.

Lemma daemon_liveness_restart : forall c s ok, c_daemon c = true -> st s = Launched ->
  stopflag s = false -> cancelled s = false ->
  deliverable c s (LR ok true) = true ->
  let s' := health_step c s (LR ok true) in
  match c_policy c with
  | PolAlways => if budget c (restarts s)
                 then launches s' = S (launches s) /\ st s' = Launching /\ hl s' = HUnknown
                 else launches s' = launches s /\ st s' = Completed
  | _ => launches s' = launches s /\ st s' = Completed
  end.
Proof.
  intros c s ok Hd Hs Hf Hc D s'. subst s'. rewrite daemon_liveness_is_exit; auto.
  unfold after_exit, restartable, budget, start_status. rewrite Hf, Hc, Hd.
  destruct (c_policy c); cbn; auto.
  destruct ((c_max c =? 0) || (restarts s <? c_max c)); cbn; auto.
Qed.

(* a liveness failure of a non-daemon has no effect at all *)
Lemma nondaemon_liveness_noop : forall c s ok fatal, c_daemon c = false ->
  health_step c s (LR ok fatal) = s.
Proof.
  intros c s ok fatal Hd. unfold health_step. destruct (deliverable c s (LR ok fatal)); auto.
  unfold h_apply. rewrite Hd, andb_false_r. reflexivity.
Qed.

(* probe results change nothing once the probers are stopped *)
Lemma results_need_probing : forall c s ok fatal, probing (st s) = false ->
  health_step c s (RR ok fatal) = s /\ health_step c s (LR ok fatal) = s.
Proof. intros c s ok fatal H. unfold health_step, deliverable. rewrite H. cbn. auto. Qed.

(* --- the observation the model itself would produce satisfies the monitor -------------------- *)
Fixpoint model_obs (c : cfg) (s : hst) (ops : list hop) : list hop * list hobs :=
  match ops with
  | [] => ([], [])
  | o :: r =>
      if deliverable c s o then
        let s' := h_apply c s o in
        let '(os, bs) := model_obs c s' r in (o :: os, obs_of s' :: bs)
      else model_obs c s r
  end.

Definition model_case (c : cfg) (ops : list hop) : hcase :=
  let '(os, bs) := model_obs c (h_init c) ops in mkHC c (obs_of (h_init c)) os bs.

Definition f11b_free (c : cfg) : bool :=
  match c_policy c with PolOnFailure => negb (c_stopcode c =? 0) | _ => true end.

Lemma ltb_S n : (n <? S n)%nat = true.  Proof. apply Nat.ltb_lt. lia. Qed.
Lemma eqb_S n : (n =? S n)%nat = false.  Proof. apply Nat.eqb_neq. lia. Qed.
Lemma eqb_S' n : (S n =? n)%nat = false.  Proof. apply Nat.eqb_neq. lia. Qed.

Ltac fin := cbn -[Nat.ltb Nat.eqb]; rewrite ?ltb_S, ?eqb_S, ?eqb_S', ?Nat.eqb_refl, ?Nat.ltb_irrefl; cbn -[Nat.ltb Nat.eqb];
            rewrite ?ltb_S, ?eqb_S, ?eqb_S', ?Nat.eqb_refl, ?Nat.ltb_irrefl; cbn -[Nat.ltb Nat.eqb]; repeat split; auto;
            try match goal with |- (if ?x then _ else _) = _ => destruct x; reflexivity end.

Lemma nd_clauses : forall c s o, c_daemon c = false -> c_fixed c = true -> f11b_free c = true ->
  nd_inv s -> deliverable c s o = true ->
  let a := obs_of s in let b := obs_of (h_apply c s o) in
  cl_ready a o b = true /\ cl_notready o b = true /\ cl_forget a b = true /\
  cl_fatal c a o b = true /\ cl_live c a o b = true.
Proof.
  intros c s o Hd Hf Hb I D a b. subst a b.
  destruct I as [(H1 & H2 & H3 & H4)|(H1 & H2)].
  2:{ exfalso. revert D. unfold deliverable. destruct o; rewrite ?H1, ?H2; cbn; discriminate. }
  destruct s as [st0 hl0 la si re al to ca sf], c as [pol mx dm rd lv sc fx]; cbn in *; subst.
  unfold f11b_free in Hb; cbn in Hb. clear D.
  destruct o as [ok fatal|ok fatal|code|];
  unfold cl_ready, cl_notready, cl_forget, cl_fatal, cl_live, obs_of, h_apply, do_stop, cmd_exited, after_exit,
         restartable, budget, start_status; cbn -[Nat.ltb Nat.eqb].
  - destruct fatal, ok, pol, hl0; cbn -[Nat.ltb Nat.eqb]; try destruct (sc =? 0) eqn:?; cbn -[Nat.ltb Nat.eqb] in *; try discriminate;
      try destruct ((mx =? 0) || (re <? mx)) eqn:?; fin.
  - destruct (fatal && false) eqn:E; [rewrite andb_false_r in E; discriminate|].
    destruct hl0, fatal; fin.
  - destruct pol, hl0; cbn -[Nat.ltb Nat.eqb]; try destruct (code =? 0); cbn -[Nat.ltb Nat.eqb]; try destruct ((mx =? 0) || (re <? mx)) eqn:?; fin.
  - destruct hl0; fin.
Qed.

Lemma nd_inv_apply : forall c s o, c_daemon c = false -> c_fixed c = true -> nd_inv s ->
  deliverable c s o = true -> nd_inv (h_apply c s o).
Proof.
  intros c s o Hd Hf I D. pose proof (nd_inv_step c s o Hd Hf I) as H. unfold health_step in H.
  rewrite D in H. exact H.
Qed.

Lemma mon_h_model_nd : forall c, c_daemon c = false -> c_fixed c = true -> f11b_free c = true ->
  forall ops s, nd_inv s ->
  mon_h c (obs_of s) (fst (model_obs c s ops)) (snd (model_obs c s ops)) = 0%nat.
Proof.
  intros c Hd Hf Hb. induction ops as [|o r IH]; intros s I; [reflexivity|].
  cbn [model_obs]. destruct (deliverable c s o) eqn:D; [|apply IH; exact I].
  specialize (IH (h_apply c s o) (nd_inv_apply c s o Hd Hf I D)).
  destruct (nd_clauses c s o Hd Hf Hb I D) as (C1 & C2 & C3 & C4 & C5).
  destruct (model_obs c (h_apply c s o) r) as [os bs]. cbn [fst snd mon_h] in *.
  rewrite C1, C2, C3, C4, C5. cbn. exact IH.
Qed.

(* for every event list: the trace the (repaired) model produces for a non-daemon process passes the
   monitor that the check applies to the implementation's traces (F11b excluded by f11b_free) *)
Lemma holds_h_model_nd : forall c ops, c_daemon c = false -> c_fixed c = true -> f11b_free c = true ->
  holds_h (model_case c ops) = true.
Proof.
  intros c ops Hd Hf Hb. unfold holds_h, clause_h, model_case.
  pose proof (mon_h_model_nd c Hd Hf Hb ops (h_init c)) as H.
  destruct (model_obs c (h_init c) ops) as [os bs]. cbn [hc_cfg hc_obs0 hc_ops hc_obs fst snd] in *.
  rewrite H; [reflexivity|]. left. unfold h_init, start_status. rewrite Hd. cbn. auto.
Qed.

(* and it agrees with itself under the correspondence checker (sanity of model_ok_h) *)
Lemma hobs_eqb_refl : forall o, hobs_eqb o o = true.
Proof.
  intros [s h l g r]. unfold hobs_eqb; cbn. rewrite !Nat.eqb_refl, Z.eqb_refl.
  destruct s, h; reflexivity.
Qed.

Lemma model_trace_h_model : forall c ops s,
  model_trace_h c s (fst (model_obs c s ops)) (snd (model_obs c s ops)) = true.
Proof.
  intros c. induction ops as [|o r IH]; intros s; [reflexivity|].
  cbn [model_obs]. destruct (deliverable c s o) eqn:D; [|apply IH].
  specialize (IH (h_apply c s o)). destruct (model_obs c (h_apply c s o) r) as [os bs].
  cbn [fst snd model_trace_h] in *. rewrite D, hobs_eqb_refl, IH. reflexivity.
Qed.

(* --- findings, as theorems about the model ---------------------------------------------------- *)
(* F11 (unrepaired code): policy always, fatal readiness: not relaunched, Restarts incremented *)
Lemma f11_unfixed_no_relaunch :
  let c := mkCfg PolAlways 0 false true false (-1) false in
  let s := h_run c [RR true false; RR false true] in
  st s = Completed /\ launches s = 1%nat /\ restarts s = 1 /\ signals s = 1%nat.
Proof. vm_compute. auto. Qed.

(* F11b (also after the repair): on_failure and the stopped command exits with code 0 *)
Lemma f11b_on_failure_exit0 :
  let c := mkCfg PolOnFailure 0 false true false 0 true in
  let s := h_run c [RR true false; RR false true] in
  st s = Completed /\ launches s = 1%nat /\ signals s = 1%nat.
Proof. vm_compute. auto. Qed.
