(* C02 simulation, part 1: the thread-level invariant Rt (whoever is about to stop an instance has already
   made the observer record the stop request) and its preservation by every step.  Used by RelC02b.v. *)
From Coq Require Import List ZArith NArith Bool Lia.
From RecordUpdate Require Import RecordSet.
From PC.Base Require Import Assoc.
From PC.Sup Require Import Model Monitors Tactics Sim ObsFacts Effects RelCore LemC02.
Import ListNotations RecordSetNotations.

(* ---- the restart decision table (process.go:284-316) ------------------------------------------------ *)
Lemma restart_ok_spec stopped p c maxr restarts :
  restart_ok stopped p c maxr restarts = true <->
  stopped = false /\ policy_allows p c = true /\ (maxr = 0 \/ restarts < maxr).
Proof.
  unfold restart_ok, policy_allows.
  destruct (Nat.eqb_spec maxr 0); destruct (Nat.ltb_spec restarts maxr); destruct stopped; destruct p;
    destruct (c =? 0)%Z; cbn; split; try discriminate; try tauto; try lia;
    intros (? & ? & ?); try discriminate; try lia.
Qed.

(* ---- stop requests recorded by the observer ---------------------------------------------------------- *)
Definition sreq (o : obs) (i : iid) : Prop := o_stopreq (oi_get o i) = true.

Lemma sreq_le o o' i : obs_le o o' -> sreq o i -> sreq o' i.
Proof.
  unfold sreq, oi_get. intros H. destruct (get i (oi o)) as [x|] eqn:E; [|discriminate].
  destruct (H i x E) as (x' & -> & L). apply L.
Qed.
Lemma endst_le o o' i : obs_le o o' -> o_endst (oi_get o i) <> None -> o_endst (oi_get o' i) <> None.
Proof.
  unfold oi_get. intros H. destruct (get i (oi o)) as [x|] eqn:E; [|cbn; congruence].
  destruct (H i x E) as (x' & -> & L). apply L.
Qed.

Section Rt.
Context (cs : amap pconf).

(* thread-level facts: whoever is about to stop an instance has already made the observer record the request *)
Record Rt (s : sys) (o : obs) : Prop := mkRt {
  rt_run : forall p, In p (running s) -> get (snd p) (insts s) <> None;
  rt_reg : forall th n i, last_reg (get_thread s th) = Some (n, Some i) -> get i (insts s) <> None;
  rt_apc : forall th i, (apc (get_thread s th) = AStopping i \/ exists n, apc (get_thread s th) = ARestartStopping n i) ->
           get i (insts s) <> None;
  rt_sd : forall t order i, sd_active s = Some (t, order) -> memN i order = true -> sreq o i;
  rt_loop : forall th order rest i, dpc (get_thread s th) = DLoop order rest -> memN i rest = true -> sreq o i;
  rt_ready : forall th i, spc (get_thread s th) = SReady i true -> sreq o i;
  rt_spend : forall th i, spc (get_thread s th) = SPend i -> sreq o i;
  rt_pend : forall th i, (pend (get_thread s th) = Some (RRunCtx i) -> sreq o i) /\
                         (pend (get_thread s th) = Some (REndEarly i) -> sreq o i \/ o_endst (oi_get o i) <> None)
}.

Lemma Rt_init ord : Rt (init cs ord) (obs0 cs).
Proof. constructor; cbn; try discriminate; try contradiction.
  - intros th i [H|[n H]]; discriminate.
  - intros th i. split; discriminate.
Qed.

Lemma Rt_obs_le s o o' : Rt s o -> obs_le o o' -> Rt s o'.
Proof.
  intros [H1 Ha Hb H2 H3 H4 H5 H6] L. constructor; eauto using sreq_le.
  intros th i. destruct (H6 th i) as [A B]. split; [eauto using sreq_le|].
  intros E. destruct (B E); [left|right]; eauto using sreq_le, endst_le.
Qed.

(* flush: the thread's pending release disappears, the rest of the thread records is untouched *)
Lemma flush_get_thread th s th' :
  get_thread (flush th s) th' = get_thread s th' \/
  (th' = th /\ get_thread (flush th s) th' = get_thread s th <| pend := None |>).
Proof.
  unfold flush. destruct (get th (threads s)) as [t|] eqn:Et; [|now left].
  destruct (pend t) as [r|] eqn:Ep; [|now left].
  assert (E : forall X, get_thread (apply_release r X) th' = get_thread X th').
  { intros X. destruct r; unfold apply_release; sup_simpl; try reflexivity; unfold get_thread;
      autorewrite with sup; try reflexivity. destruct (code_set X); reflexivity. }
  rewrite E. rewrite get_thread_set_thread. destruct (N.eqb_spec th th'); [right|now left].
  subst. split; [reflexivity|]. unfold get_thread. now rewrite Et.
Qed.

Lemma flush_sd_active th s : sd_active (flush th s) = sd_active s.
Proof.
  unfold flush. destruct (get th (threads s)) as [t|]; [|reflexivity]. destruct (pend t) as [r|]; [|reflexivity].
  destruct r; unfold apply_release; sup_simpl; try reflexivity. destruct (code_set _); reflexivity.
Qed.

Lemma Rt_flush th s o : Rt s o -> Rt (flush th s) o.
Proof.
  intros [H1 Ha Hb H2 H3 H4 H5 H6]. constructor.
  - intros p Hp. rewrite flush_running in Hp. specialize (H1 p Hp).
    pose proof (flush_insts th s (snd p)) as F. destruct (get (snd p) (insts s)); [|congruence].
    destruct F as (x' & -> & _). discriminate.
  - intros th' n i Hq. assert (Hx : get i (insts s) <> None).
    { destruct (flush_get_thread th s th') as [E|[-> E]]; rewrite E in Hq; cbn in Hq; eapply Ha; eauto. }
    pose proof (flush_insts th s i) as F. destruct (get i (insts s)); [|congruence]. destruct F as (x' & -> & _). discriminate.
  - intros th' i Hq. assert (Hx : get i (insts s) <> None).
    { destruct (flush_get_thread th s th') as [E|[-> E]]; rewrite E in Hq; cbn in Hq; eapply Hb; eauto. }
    pose proof (flush_insts th s i) as F. destruct (get i (insts s)); [|congruence]. destruct F as (x' & -> & _). discriminate.
  - intros t order i. rewrite flush_sd_active. apply H2.
  - intros th' order rest i. destruct (flush_get_thread th s th') as [->|[-> ->]]; cbn; apply H3.
  - intros th' i. destruct (flush_get_thread th s th') as [->|[-> ->]]; cbn; apply H4.
  - intros th' i. destruct (flush_get_thread th s th') as [->|[-> ->]]; cbn; apply H5.
  - intros th' i. destruct (flush_get_thread th s th') as [->|[-> ->]]; cbn; [apply H6|split; discriminate].
Qed.

(* ---- what single events make the observer record ---------------------------------------------------- *)
Lemma sreq_intro o i x : get i (oi o) = Some x -> o_stopreq x = true -> sreq o i.
Proof. intros E H. unfold sreq. now rewrite (oi_get_some _ _ _ E). Qed.

Lemma refresh_stopreq o i : sreq o i -> sreq (refresh_succ o) i.
Proof. apply sreq_le, obs_le_refresh. Qed.

Lemma sreq_NoRestart o th i xo : get i (oi o) = Some xo -> sreq (obs_step cs o (th, ENoRestart i)) i.
Proof.
  intros E. unfold obs_step. cbn [ev_inst fst snd]. apply refresh_stopreq.
  eapply sreq_intro; [rewrite oi_upd_get, N.eqb_refl; cbn; rewrite E; reflexivity|reflexivity].
Qed.
Lemma sreq_StopPending o th i xo : get i (oi o) = Some xo -> sreq (obs_step cs o (th, EStopPending i)) i.
Proof.
  intros E. unfold obs_step. cbn [ev_inst fst snd]. apply refresh_stopreq.
  eapply sreq_intro; [rewrite oi_upd_get, N.eqb_refl; cbn; rewrite E; reflexivity|reflexivity].
Qed.
Lemma sreq_StopEnter o th i xo : get i (oi o) = Some xo -> sreq (obs_step cs o (th, EStopEnter i true)) i.
Proof.
  intros E. unfold obs_step. cbn [ev_inst fst snd]. apply refresh_stopreq.
  eapply sreq_intro; [rewrite oi_upd_get, N.eqb_refl; cbn; rewrite E; reflexivity|cbn; apply orb_true_r].
Qed.
Lemma sreq_ShutdownOrder o th order i xo : get i (oi o) = Some xo -> memN i order = true ->
  sreq (obs_step cs o (th, EShutdownOrder order)) i.
Proof.
  intros E M. unfold obs_step. cbn [ev_inst fst snd]. apply refresh_stopreq.
  eapply sreq_intro.
  - cbn. rewrite fold_oi_upd_get by reflexivity. rewrite M. cbn. rewrite E. reflexivity.
  - reflexivity.
Qed.
Lemma endst_ProcEnd o th i s0 xo : get i (oi o) = Some xo ->
  o_endst (oi_get (obs_step cs o (th, EProcEnd i s0)) i) <> None.
Proof.
  intros E. unfold obs_step. cbn [ev_inst fst snd]. unfold oi_get.
  rewrite refresh_get, oi_upd_get, N.eqb_refl, E. cbn. destruct (_ && _); cbn; discriminate.
Qed.

(* ---- instances never disappear ----------------------------------------------------------------------- *)
Definition has_inst (s : sys) (j : iid) : Prop := get j (insts s) <> None.
Lemma has_upd_inst i f s j : has_inst s j -> has_inst (upd_inst i f s) j.
Proof. unfold has_inst. rewrite insts_upd_inst. destruct (N.eqb i j); [|auto]. destruct (get j (insts s)); cbn; congruence. Qed.
Lemma has_upd_vis n f s j : has_inst s j -> has_inst (upd_vis n f s) j.
Proof. unfold has_inst. now rewrite upd_vis_insts. Qed.
Lemma has_write_status n s0 s j : has_inst s j -> has_inst (write_status n s0 s) j.
Proof. unfold has_inst. now rewrite write_status_insts. Qed.
Lemma has_set_thread th t s j : has_inst s j -> has_inst (set_thread th t s) j.
Proof. auto. Qed.
Lemma has_fold_upd_inst (f : inst -> inst) l j : forall s, has_inst s j -> has_inst (fold_left (fun s i => upd_inst i f s) l s) j.
Proof. induction l as [|a l IH]; intros s H; cbn; [exact H|]. apply IH, has_upd_inst, H. Qed.
Lemma has_same_insts s s' j : insts s' = insts s -> has_inst s j -> has_inst s' j.
Proof. unfold has_inst. now intros ->. Qed.

Ltac has_tac :=
  unfold set_pc, end_finish, end_release_early;
  repeat first
  [ assumption
  | apply has_upd_inst | apply has_upd_vis | apply has_write_status | apply has_set_thread | apply has_fold_upd_inst
  | match goal with
    | |- has_inst (if ?b then _ else _) _ => destruct b
    | |- has_inst (match ?b with _ => _ end) _ => destruct b
    | |- has_inst (RecordSet.set _ _ ?X) _ => apply (has_same_insts X); [reflexivity|]
    end ].

Lemma in_set_inv {A} k (v : A) m p : In p (set k v m) -> p = (k, v) \/ In p m.
Proof.
  induction m as [|[k' v'] r IH]; cbn; [intros [<-|[]]; now left|].
  destruct (N.eqb k' k); cbn; intros [<-|H]; auto. destruct (IH H); auto.
Qed.
Lemma in_del_inv {A} k (m : amap A) p : In p (del k m) -> In p m.
Proof.
  induction m as [|[k' v'] r IH]; cbn; [auto|]. destruct (N.eqb k' k); cbn; [auto|]. intros [<-|H]; auto.
Qed.

Lemma has_step s th e s' : step_core s th e = Some s' -> forall j, has_inst s j -> has_inst s' j.
Proof.
  intros H j Hj.
  destruct (step_core_kind _ _ _ _ H) as [? ?|i x ? ? ? ? ? ?|H0|H0|H0|i s0 ? H0|i s0 b ? H0|H0|i ? H0|H0|H0]; subst; auto.
  - destruct e; kind_cases H0; try has_tac.
    unfold has_inst in *. cbn. rewrite get_set. destruct (N.eqb i j); [discriminate|exact Hj].
  - destruct e; kind_cases H0; has_tac.
  - destruct e; kind_cases H0; has_tac.
  - kind_cases H0; has_tac.
  - kind_cases H0; has_tac.
  - destruct e; kind_cases H0; has_tac.
  - kind_cases H0; has_tac.
  - destruct e; kind_cases H0; has_tac.
  - destruct e; kind_cases H0; has_tac.
Qed.

Definition ev_facts (o' : obs) (e : event) : Prop :=
  match e with
  | ENoRestart i | EStopPending i => sreq o' i
  | EShutdownOrder order => forall i, memN i order = true -> sreq o' i
  | EProcEnd i _ => o_endst (oi_get o' i) <> None
  | _ => True
  end.

Ltac rt_thread th0 :=
  autorewrite with sup;
  match goal with
  | |- context[N.eqb ?a th0] => destruct (N.eqb_spec a th0); [subst th0|]; cbn
  | _ => idtac
  end.

Ltac rt_pre :=
  repeat match goal with
  | |- Rt (match ?x with _ => _ end) _ => destruct x eqn:?
  | |- Rt (if ?b then _ else _) _ => destruct b eqn:?
  | |- Rt ?S _ => match S with context[if ?b then _ else _] => destruct b eqn:? end
  end.
Ltac rt_norm := unfold set_pc, end_finish, end_release_early.
Ltac rt_direct H1 Ha Hb H2 H3 H4 H5 H6 Hh :=
  constructor;
  [ let p0 := fresh "p" in let Hp0 := fresh "Hp" in
    intros p0 Hp0; unfold set_pc, end_finish, end_release_early in Hp0; autorewrite with sup in Hp0; cbn in Hp0; autorewrite with sup in Hp0; try (apply Hh, H1, Hp0)
  | let th0 := fresh "th" in let n0 := fresh "n" in let i0 := fresh "i" in let Hq := fresh "Hq" in
    intros th0 n0 i0 Hq; apply (Hh i0); revert Hq; rt_norm; rt_thread th0; try apply Ha; try discriminate
  | let th0 := fresh "th" in let i0 := fresh "i" in let Hq := fresh "Hq" in
    intros th0 i0 Hq; apply (Hh i0); revert Hq; rt_norm; rt_thread th0; try apply Hb; try (intros [Hq|[? Hq]]; discriminate)
  | let t0 := fresh "t" in let order0 := fresh "order" in let i0 := fresh "i" in
    intros t0 order0 i0; rt_norm; autorewrite with sup; cbn; try apply H2; try discriminate
  | let th0 := fresh "th" in let order0 := fresh "order" in let rest0 := fresh "rest" in let i0 := fresh "i" in
    intros th0 order0 rest0 i0; rt_norm; rt_thread th0; try apply H3; try discriminate
  | let th0 := fresh "th" in let i0 := fresh "i" in
    intros th0 i0; rt_norm; rt_thread th0; try apply H4; try discriminate
  | let th0 := fresh "th" in let i0 := fresh "i" in
    intros th0 i0; rt_norm; rt_thread th0; try apply H5; try discriminate
  | let th0 := fresh "th" in let i0 := fresh "i" in
    intros th0 i0; rt_norm; rt_thread th0; try apply H6; try (split; discriminate) ].


Lemma thread_reg_some (P : iid -> Prop) t n i :
  (forall n i, last_reg t = Some (n, Some i) -> P i) ->
  opt_eqb (opt_eqb N.eqb) (thread_reg t n) (Some (Some i)) = true -> P i.
Proof.
  intros Ha H. unfold thread_reg in H. destruct (last_reg t) as [[k2 r]|] eqn:E; [|discriminate].
  destruct (N.eqb k2 n); [|discriminate]. cbn in H. apply opt_eqb_N_eq in H. subst r. eapply Ha; eauto.
Qed.

Lemma Rt_step_stop s o th e s' : Rt s o -> ev_facts o e -> (forall j, has_inst s j -> has_inst s' j) ->
  step_stop s th e = Some s' -> Rt s' o.
Proof.
  intros HRt Hev Hh H. pose proof HRt as [H1 Ha Hb H2 H3 H4 H5 H6].
  destruct e; kind_cases H; cbn in Hev; split_andb; subst; rt_pre; rt_direct H1 Ha Hb H2 H3 H4 H5 H6 Hh.
  - subst cancel. split; [|discriminate]. intros [= <-].
    destruct (spc (get_thread s th)) eqn:Es; try discriminate.
    + destruct (dpc (get_thread s th)) eqn:Ed; try discriminate. destruct rest; try discriminate. split_andb. subst.
      eapply H3; [exact Ed|]. rewrite memN_cons, N.eqb_refl. reflexivity.
    + split_andb. subst. eapply H4; eauto.
  - intros [= <-]. exact Hev.
  - intros [= <- <-] Hm. eapply H3; [eassumption|]. rewrite memN_cons, Hm. apply orb_true_r.
  - intros [= <- <-] Hm. eapply H3; [eassumption|]. rewrite memN_cons, Hm. apply orb_true_r.
  - intros [= <- <-] Hm. eapply H3; [eassumption|]. rewrite memN_cons, Hm. apply orb_true_r.
Qed.

Lemma Rt_step_api s o th e s' : Rt s o -> ev_facts o e -> (forall j, has_inst s j -> has_inst s' j) ->
  step_api s th e = Some s' -> Rt s' o.
Proof.
  intros HRt Hev Hh H. pose proof HRt as [H1 Ha Hb H2 H3 H4 H5 H6].
  destruct e; kind_cases H; cbn in Hev; split_andb; subst; rt_pre; rt_direct H1 Ha Hb H2 H3 H4 H5 H6 Hh.
  - intros [= <-]. exact Hev.
  - intros [= <-]. exact Hev.
  - destruct found as [i9|]; (intros [Hq|[n9 Hq]]; try discriminate Hq). injection Hq as <-.
    eapply (thread_reg_some (has_inst s)); [apply Ha|exact H0].
  - destruct found as [i9|]; (intros [Hq|[n9 Hq]]; try discriminate Hq). injection Hq as <- <-.
    eapply (thread_reg_some (has_inst s)); [apply Ha|eassumption].
  - destruct found as [i9|]; (intros [Hq|[n9 Hq]]; try discriminate Hq). injection Hq as <- <-.
    eapply (thread_reg_some (has_inst s)); [apply Ha|eassumption].
Qed.

Lemma Rt_step_state s o th i s0 s' : Rt s o -> (forall j, has_inst s j -> has_inst s' j) ->
  step_state s th i s0 = Some s' -> Rt s' o.
Proof.
  intros HRt Hh H. pose proof HRt as [H1 Ha Hb H2 H3 H4 H5 H6].
  kind_cases H; split_andb; subst; rt_pre; rt_direct H1 Ha Hb H2 H3 H4 H5 H6 Hh.
Qed.

Lemma Rt_step_procend s o th i s0 (b : bool) s' : Rt s o -> ev_facts o (if b then EProcEnd i s0 else EProcEnded i s0) ->
  (forall j, has_inst s j -> has_inst s' j) ->
  step_procend s th i s0 b = Some s' -> Rt s' o.
Proof.
  intros HRt Hev Hh H. pose proof HRt as [H1 Ha Hb H2 H3 H4 H5 H6].
  kind_cases H; cbn in Hev; split_andb; subst; rt_pre; rt_direct H1 Ha Hb H2 H3 H4 H5 H6 Hh.
  all: split; [discriminate|intros [= <-]; right; exact Hev].
Qed.

Lemma same_members_in l1 : forall l2 a, same_members l1 l2 = true -> In a l1 -> In a l2.
Proof.
  induction l1 as [|b r IH]; intros l2 a H Ha; [destruct Ha|].
  cbn in H. apply andb_true_iff in H. destruct H as [Hb Hr]. destruct Ha as [<-|Ha].
  - now apply memN_In.
  - specialize (IH _ _ Hr Ha). unfold removeN in IH. apply filter_In in IH. apply IH.
Qed.

Lemma Rt_step_shutdown s o th e s' : Rt s o -> ev_facts o e -> (forall j, has_inst s j -> has_inst s' j) ->
  step_shutdown s th e = Some s' -> Rt s' o.
Proof.
  intros HRt Hev Hh H. pose proof HRt as [H1 Ha Hb H2 H3 H4 H5 H6].
  destruct e; kind_cases H; cbn in Hev; split_andb; subst; rt_pre; rt_direct H1 Ha Hb H2 H3 H4 H5 H6 Hh.
  all: try (intros [= <- <-]; apply Hev).
  intros Hq. apply (Hb th). destruct (apc (get_thread s th)); try exact Hq; destruct Hq as [Hq|[? Hq]]; discriminate.
Qed.

Lemma Rt_step_ordered s o th i s' : Rt s o -> (forall j, has_inst s j -> has_inst s' j) ->
  step_ordered_go s th i = Some s' -> Rt s' o.
Proof.
  intros HRt Hh H.
  kind_cases H; split_andb. pose proof HRt as [H1 Ha Hb H2 H3 H4 H5 H6]. rt_pre; rt_direct H1 Ha Hb H2 H3 H4 H5 H6 Hh.
  intros [= <-]. eapply H2; eauto.
Qed.

Lemma Rt_step_env s o th e s' : Rt s o -> (forall j, has_inst s j -> has_inst s' j) ->
  step_env s th e = Some s' -> Rt s' o.
Proof.
  intros HRt Hh H. pose proof HRt as [H1 Ha Hb H2 H3 H4 H5 H6].
  destruct e; kind_cases H; split_andb; subst; rt_pre; rt_direct H1 Ha Hb H2 H3 H4 H5 H6 Hh.
Qed.

Lemma Rt_step_own s o th e s' : Rt s o -> (forall j, has_inst s j -> has_inst s' j) ->
  step_own s th e = Some s' -> Rt s' o.
Proof.
  intros HRt Hh H. pose proof HRt as [H1 Ha Hb H2 H3 H4 H5 H6].
  destruct e; kind_cases H; split_andb; subst; rt_pre; rt_direct H1 Ha Hb H2 H3 H4 H5 H6 Hh.
Qed.

Lemma Rt_step_reg s o th e s' : Rt s o -> (forall j, has_inst s j -> has_inst s' j) ->
  step_reg s th e = Some s' -> Rt s' o.
Proof.
  intros HRt Hh H. pose proof HRt as [H1 Ha Hb H2 H3 H4 H5 H6].
  destruct e; kind_cases H; split_andb; subst; rt_pre; rt_direct H1 Ha Hb H2 H3 H4 H5 H6 Hh.
  - cbn. destruct (in_set_inv _ _ _ _ Hp) as [->|Hp']; [cbn; congruence|apply H1, Hp'].
  - cbn. apply H1. eapply in_del_inv, Hp.
  - intros [= <- ->]. match goal with Hf : opt_eqb N.eqb _ _ = true |- _ => apply opt_eqb_N_eq in Hf; symmetry in Hf; apply get_in in Hf end.
    match goal with Hf : In _ _ |- _ => apply (H1 _ Hf) end.
(*STOP*)
Qed.

Lemma Rt_step_core s o th e s' : Rc cs s o -> Rt s o -> step_core s th e = Some s' -> Rt s' (obs_step cs o (th, e)).
Proof.
  intros HRc HRt H.
  assert (Hle : obs_le o (obs_step cs o (th, e))).
  { apply obs_step_le. intros i n ->. cbn in H. unfold step_reg in H. break_step H.
    apply negb_true_iff in E0. unfold has in E0. destruct (get i (insts s)) eqn:Ei; [discriminate|].
    eapply rc_noinst; eauto. }
  assert (Hoi : forall i, get i (insts s) <> None -> exists xo, get i (oi o) = Some xo).
  { intros i Hi. destruct (get i (insts s)) as [x|] eqn:Ex; [|congruence].
    destruct (rc_inst _ _ _ HRc _ _ Ex) as (xo & Exo & _). eauto. }
  assert (Hev : ev_facts (obs_step cs o (th, e)) e).
  { destruct e; cbn [ev_facts]; auto.
    - (* EProcEnd *) cbn in H. unfold step_procend in H. destruct (get i (insts s)) as [x|] eqn:Ex; [|discriminate].
      destruct (Hoi i) as (xo & Exo); [congruence|]. eapply endst_ProcEnd; eauto.
    - (* ENoRestart *) cbn in H. unfold step_api in H.
      destruct (Hoi i) as (xo & Exo); [|eapply sreq_NoRestart; eauto].
      apply (rt_apc _ _ HRt th). break_step H; split_andb; subst; eauto.
    - (* EStopPending *) cbn in H. unfold step_stop in H. destruct (get i (insts s)) as [x|] eqn:Ex; [|discriminate].
      destruct (Hoi i) as (xo & Exo); [congruence|]. eapply sreq_StopPending; eauto.
    - (* EShutdownOrder *) intros i Hm. pose proof Hm as Hi. cbn in H. unfold step_shutdown in H. break_step H.
      apply memN_In in Hi. apply (same_members_in _ _ _ E0) in Hi. apply in_map_iff in Hi. destruct Hi as (p & Ep & Hp).
      destruct (Hoi i) as (xo & Exo); [rewrite <- Ep; apply (rt_run _ _ HRt _ Hp)|].
      eapply sreq_ShutdownOrder; eauto. }
  pose proof (has_step _ _ _ _ H) as Hh.
  pose proof (Rt_obs_le _ _ _ HRt Hle) as HRt'.
  destruct (step_core_kind _ _ _ _ H) as [? ?|i x ? ? ? ? ? ?|H0|H0|H0|i s0 ? H0|i s0 b ? H0|H0|i ? H0|H0|H0]; subst;
    eauto using Rt_step_reg, Rt_step_api, Rt_step_stop, Rt_step_state, Rt_step_shutdown, Rt_step_ordered, Rt_step_env, Rt_step_own.
  - destruct HRt' as [G1 Ga Gb G2 G3 G4 G5 G6]. constructor; auto.
  - eapply Rt_step_procend; eauto.
Qed.

Lemma Rt_step s o th e s' : Rc cs s o -> Rt s o -> step s (th, e) = Some s' -> Rt s' (obs_step cs o (th, e)).
Proof.
  intros HRc HRt H. unfold step in H. cbn [fst snd] in H.
  eapply Rt_step_core; [|apply Rt_flush, HRt|exact H].
  eapply Rc_sys_same; [exact HRc|apply sys_same_flush].
Qed.


End Rt.
