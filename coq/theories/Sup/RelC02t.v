(* C02 simulation: Rt is preserved by the stop / API steps (heavy, brute force). *)
From Coq Require Import List ZArith NArith Bool Lia.
From RecordUpdate Require Import RecordSet.
From PC.Base Require Import Assoc.
From PC.Sup Require Import Model Monitors Tactics Sim ObsFacts Effects RelCore LemC02 RelC02defs.
Import ListNotations RecordSetNotations.

Section RtA.
Context (cs : amap pconf).

Lemma Rt_step_stop s o th e s' : Rt s o -> ev_facts o e -> (forall j, has_inst s j -> has_inst s' j) ->
  step_stop s th e = Some s' -> Rt s' o.
Proof.
  intros HRt Hev Hh H. pose proof HRt as [H1 Ha Hb H2 H3 H4 He H5 H6].
  destruct e; kind_cases H; cbn in Hev; split_andb; subst; rt_pre; rt_direct H1 Ha Hb H2 H3 H4 He H5 H6 Hh.
  - subst cancel. intros [= <- <-].
    destruct (spc (get_thread s th)) eqn:Es; try discriminate.
    + destruct (dpc (get_thread s th)) eqn:Ed; try discriminate. destruct rest; try discriminate. split_andb. subst.
      eapply H3; [exact Ed|]. rewrite memN_cons, N.eqb_refl. reflexivity.
    + split_andb. subst. exact (H4 _ _ _ Es).
  - subst cancel. split; [|discriminate]. intros [= <-].
    destruct (spc (get_thread s th)) eqn:Es; try discriminate.
    + destruct (dpc (get_thread s th)) eqn:Ed; try discriminate. destruct rest; try discriminate. split_andb. subst.
      eapply H3; [exact Ed|]. rewrite memN_cons, N.eqb_refl. reflexivity.
    + split_andb. subst. exact (H4 _ _ _ Es).
  - subst cancel. intros [= <- <-].
    destruct (spc (get_thread s th)) eqn:Es; try discriminate.
    + destruct (dpc (get_thread s th)) eqn:Ed; try discriminate. destruct rest; try discriminate. split_andb. discriminate.
    + split_andb. subst. exact (H4 _ _ _ Es).
  - intros [= <-]. exact Hev.
  - intros [= <- <-] Hm. eapply H3; [eassumption|]. rewrite memN_cons, Hm. apply orb_true_r.
  - intros [= <- <-] Hm. eapply H3; [eassumption|]. rewrite memN_cons, Hm. apply orb_true_r.
  - intros [= <- <-] Hm. eapply H3; [eassumption|]. rewrite memN_cons, Hm. apply orb_true_r.
Qed.

Lemma Rt_step_api s o th e s' : Rt s o -> ev_facts o e -> (forall j, has_inst s j -> has_inst s' j) ->
  step_api s th e = Some s' -> Rt s' o.
Proof.
  intros HRt Hev Hh H. pose proof HRt as [H1 Ha Hb H2 H3 H4 He H5 H6].
  destruct e; kind_cases H; cbn in Hev; split_andb; subst; rt_pre; rt_direct H1 Ha Hb H2 H3 H4 He H5 H6 Hh.
  - intros [= <- <-]. exact Hev.
  - intros [= <- <-]. exact Hev.
  - destruct found as [i9|]; (intros [Hq|[n9 Hq]]; try discriminate Hq). injection Hq as <-.
    eapply (thread_reg_some (has_inst s)); [apply Ha|exact H0].
  - destruct found as [i9|]; (intros [Hq|[n9 Hq]]; try discriminate Hq). injection Hq as <- <-.
    eapply (thread_reg_some (has_inst s)); [apply Ha|eassumption].
  - destruct found as [i9|]; (intros [Hq|[n9 Hq]]; try discriminate Hq). injection Hq as <- <-.
    eapply (thread_reg_some (has_inst s)); [apply Ha|eassumption].
Qed.

End RtA.
