(* Generic lemmas for the C01 simulation proof: association lists, the ghost observer of the C01
   scheduling hypotheses, and model-independent facts about the observer (Monitors.obs_step):
   what it never forgets (monotonicity) and what particular events make it record. *)
From Coq Require Import List ZArith NArith Bool Lia.
From RecordUpdate Require Import RecordSet.
From PC.Base Require Import Assoc.
From PC.Sup Require Import Model Monitors Tactics Sim ObsFacts Effects RelCore.
Import ListNotations RecordSetNotations.

(* ---- association lists ------------------------------------------------------------------------------ *)
Section AssocLemmas.
Context {V : Type}.
Implicit Types (m : amap V).

Lemma in_keys_set a k (v : V) m : In a (keys (set k v m)) -> a = k \/ In a (keys m).
Proof.
  induction m as [|[k' v'] r IH]; cbn.
  - intros [H|[]]; auto.
  - destruct (N.eqb_spec k' k); cbn.
    + intros [H|H]; subst; auto.
    + intros [H|H]; auto. destruct (IH H); auto.
Qed.

Lemma NoDup_keys_set k (v : V) m : NoDup (keys m) -> NoDup (keys (set k v m)).
Proof.
  induction m as [|[k' v'] r IH]; cbn; intros H.
  - constructor; [intros []|constructor].
  - inversion H as [|? ? Hn Hr]; subst. destruct (N.eqb_spec k' k); cbn.
    + subst. constructor; assumption.
    + constructor; [|now apply IH]. intros Hin. apply in_keys_set in Hin. destruct Hin; [congruence|contradiction].
Qed.

Lemma in_get_nodup j (y : V) m : NoDup (keys m) -> In (j, y) m -> get j m = Some y.
Proof.
  induction m as [|[k' v'] r IH]; cbn; intros H Hin; [contradiction|].
  inversion H as [|? ? Hn Hr]; subst. destruct Hin as [E|Hin].
  - inversion E; subst. now rewrite N.eqb_refl.
  - destruct (N.eqb_spec k' j).
    + subst. exfalso. apply Hn. change j with (fst (j, y)). now apply in_map.
    + now apply IH.
Qed.

Lemma get_in_vals j (y : V) m : get j m = Some y -> In y (vals m).
Proof. intros H. apply get_in in H. change y with (snd (j, y)). now apply in_map. Qed.

Lemma in_vals_get (y : V) m : NoDup (keys m) -> In y (vals m) -> exists j, get j m = Some y.
Proof.
  intros Hn Hin. unfold vals in Hin. apply in_map_iff in Hin. destruct Hin as ([j y'] & E & Hin). cbn in E. subst y'.
  exists j. now apply in_get_nodup.
Qed.

Lemma keys_map_snd (f : N * V -> V) m : keys (map (fun p => (fst p, f p)) m) = keys m.
Proof. unfold keys. rewrite map_map. apply map_ext. reflexivity. Qed.
End AssocLemmas.

(* ---- the ghost observer: three scheduling patterns under which the C01 monitor is too strict ---------- *)
(* g_unreg : an instance of process n was created (NewProcess) while an instance of a process that n DEPENDS ON
             was between NewProcess and addRunningProcess (created by another request, not yet registered):
             the monitor orders instances by creation, the code by registration.  (Creations of unrelated
             processes may overlap freely; within Run()'s spawn loop this cannot happen at all.)
   g_newer : a dependent resolved a dependency name to an instance that is not older than itself although an
             older instance of that name exists (the dependency was restarted between the creation of the
             dependent and its lookup): the monitor only accepts instances created before the dependent.
   g_endov : a status of an instance was written that differs from the status of the latest onProcessEnd
             entered for it, while the observer had not yet seen the instance end (two overlapping
             onProcessEnd executions, e.g. the stop of a Pending process racing with its own Skipped end):
             the observer's o_endst has one slot, so o_ended lags behind the done flag of the code. *)
Record gst := mkG { g_unregd : list iid (* created, not yet registered *); g_unreg : bool; g_newer : bool; g_endov : bool }.
Definition g0 : gst := mkG [] false false false.

Definition has_older (o : obs) (k : name) (ix : nat) : bool :=
  existsb (fun y => N.eqb (o_nm y) k && Nat.ltb (o_idx y) ix) (vals (oi o)).

(* is an instance of one of the dependencies of process n created but not yet registered *)
Definition dep_unregistered (cs : amap pconf) (o : obs) (g : gst) (n : name) : bool :=
  existsb (fun j => memN (o_nm (oi_get o j)) (map fst (deps (conf_of cs n)))) (g_unregd g).

Definition g_step (cs : amap pconf) (o : obs) (g : gst) (te : tid * event) : gst :=
  match snd te with
  | ENewInst i n =>
      mkG (i :: g_unregd g) (g_unreg g || dep_unregistered cs o g n) (g_newer g) (g_endov g)
  | ERegAdd i _ =>
      mkG (removeN i (g_unregd g)) (g_unreg g) (g_newer g) (g_endov g)
  | EDepWait k (Some j) =>
      match get (fst te) (o_th o) with
      | Some i => let ix := o_idx (oi_get o i) in
                  mkG (g_unregd g) (g_unreg g)
                      (g_newer g || (negb (Nat.ltb (o_idx (oi_get o j)) ix) && has_older o k ix)) (g_endov g)
      | None => g
      end
  | EState i s0 =>
      let x := oi_get o i in
      mkG (g_unregd g) (g_unreg g) (g_newer g)
          (g_endov g || match o_endst x with Some s1 => negb (status_eqb s1 s0) && negb (o_ended x) | None => false end)
  | _ => g
  end.

Definition gbad (g : gst) : bool := g_unreg g || g_newer g || g_endov g.

Lemma gbad_mono cs o g te : gbad g = true -> gbad (g_step cs o g te) = true.
Proof.
  unfold gbad, g_step. destruct te as [th e]. cbn [fst snd]. intros H.
  destruct (g_unreg g) eqn:A; destruct (g_newer g) eqn:B; destruct (g_endov g) eqn:C; try discriminate H;
  destruct e; cbn; rewrite ?A, ?B, ?C; cbn; try reflexivity;
  repeat match goal with |- context[match ?x with _ => _ end] => destruct x; cbn; rewrite ?A, ?B, ?C; cbn end;
  rewrite ?orb_true_r; reflexivity.
Qed.

(* the pair (observer, ghost) folded over a history *)
Definition og_step (cs : amap pconf) (og : obs * gst) (te : tid * event) : obs * gst :=
  (obs_step cs (fst og) te, g_step cs (fst og) (snd og) te).
Definition og_final (cs : amap pconf) (evs : list (tid * event)) : obs * gst :=
  fold_left (og_step cs) evs (obs0 cs, g0).
(* the decidable scheduling hypothesis of C01_main_partial *)
Definition sched_ok_C01 (cs : amap pconf) (evs : list (tid * event)) : bool := negb (gbad (snd (og_final cs evs))).

Lemma og_final_fst cs evs og : fst (fold_left (og_step cs) evs og) = fold_left (obs_step cs) evs (fst og).
Proof. revert og. induction evs as [|e r IH]; intros og; cbn; [reflexivity|]. now rewrite IH. Qed.

(* ---- observer invariant -------------------------------------------------------------------------------- *)
Definition Oinv (o : obs) : Prop :=
  NoDup (keys (oi o)) /\ forall j y, get j (oi o) = Some y -> o_idx y < o_cnt o.

(* after every step: an ended instance whose name reports code 0 is marked successful *)
Definition Refreshed (o : obs) : Prop :=
  forall j y, get j (oi o) = Some y -> o_ended y = true -> (r_code (on_get o (o_nm y)) =? 0)%Z = true -> o_succ y = true.

Lemma refreshed_refresh o : Refreshed (refresh_succ o).
Proof.
  intros j y. rewrite refresh_get. destruct (get j (oi o)) as [x|]; cbn [option_map]; [|discriminate].
  intros E He Hc. injection E as <-.
  assert (Hon : forall n, on_get (refresh_succ o) n = on_get o n) by reflexivity.
  destruct (o_ended x && (r_code (on_get o (o_nm x)) =? 0)%Z) eqn:B; [reflexivity|].
  rewrite Hon in Hc. rewrite He, Hc in B. discriminate B.
Qed.

Lemma refreshed_step cs o te : Refreshed (obs_step cs o te).
Proof. destruct te as [th e]. unfold obs_step. apply refreshed_refresh. Qed.

(* ---- what the observer never forgets -------------------------------------------------------------------- *)
Definition oinst_le (e : event) (j : iid) (y y' : oinst) : Prop :=
  o_nm y' = o_nm y /\ o_idx y' = o_idx y /\
  (o_ended y = true -> o_ended y' = true) /\ (o_succ y = true -> o_succ y' = true) /\
  (o_logok y = true -> o_logok y' = true) /\ (o_started y = true -> o_started y' = true) /\
  (o_stopreq y = true -> o_stopreq y' = true) /\
  (o_endst y' = o_endst y \/ exists s0, e = EProcEnd j s0 /\ o_endst y' = Some s0).

Lemma oinst_le_refl e j y : oinst_le e j y y.
Proof. unfold oinst_le. repeat split; auto. Qed.

Lemma oinst_le_trans e j y1 y2 y3 : oinst_le e j y1 y2 -> oinst_le e j y2 y3 -> oinst_le e j y1 y3.
Proof.
  unfold oinst_le. intros (A1 & A2 & A3 & A4 & A5 & A6 & A7 & A8) (B1 & B2 & B3 & B4 & B5 & B6 & B7 & B8).
  repeat split; try congruence; auto.
  destruct B8 as [B8|B8]; [|now right]. rewrite B8. exact A8.
Qed.

Record ole (e : event) (o o' : obs) : Prop := mkOle {
  ole_oi : forall j y, get j (oi o) = Some y -> exists y', get j (oi o') = Some y' /\ oinst_le e j y y';
  ole_none : forall j, get j (oi o) = None -> get j (oi o') = None;
  ole_on : forall n r, get n (onm o) = Some r ->
           exists r', get n (onm o') = Some r' /\ (r_ready r = true -> r_ready r' = true);
  ole_on_none : forall n, get n (onm o) = None -> get n (onm o') = None;
  ole_cnt : o_cnt o' = o_cnt o;
  ole_keys : keys (oi o') = keys (oi o) }.

Lemma ole_refl e o : ole e o o.
Proof. constructor; eauto using oinst_le_refl. Qed.

Lemma ole_trans e o1 o2 o3 : ole e o1 o2 -> ole e o2 o3 -> ole e o1 o3.
Proof.
  intros [A1 A2 A3 A4 A5 A6] [B1 B2 B3 B4 B5 B6]. constructor; try congruence; auto.
  - intros j y H. destruct (A1 j y H) as (y2 & H2 & L2). destruct (B1 j y2 H2) as (y3 & H3 & L3).
    exists y3. split; [exact H3|eapply oinst_le_trans; eauto].
  - intros n r H. destruct (A3 n r H) as (r2 & H2 & L2). destruct (B3 n r2 H2) as (r3 & H3 & L3).
    exists r3. split; auto.
Qed.

Lemma ole_eq e o o' : oi o' = oi o -> onm o' = onm o -> o_cnt o' = o_cnt o -> ole e o o'.
Proof.
  intros A B C. constructor; rewrite ?A, ?B, ?C; eauto using oinst_le_refl.
Qed.

Lemma keys_set_same {V} k (v v0 : V) (m : amap V) : get k m = Some v0 -> keys (set k v m) = keys m.
Proof.
  induction m as [|[k' v'] r IH]; cbn; [discriminate|].
  destruct (N.eqb_spec k' k); cbn; [subst; reflexivity|]. intros H. unfold keys in *. cbn. f_equal. now apply IH.
Qed.

Lemma ole_oi_upd e i f o : (forall y, oinst_le e i y (f y)) -> ole e o (oi_upd i f o).
Proof.
  intros Hf. constructor.
  - intros j y H. rewrite oi_upd_get, H. destruct (N.eqb_spec i j); cbn; [subst|]; eauto using oinst_le_refl.
  - intros j H. rewrite oi_upd_get, H. now destruct (N.eqb i j).
  - intros n r H. rewrite oi_upd_onm. eauto.
  - intros n H. now rewrite oi_upd_onm.
  - unfold oi_upd. now destruct (get i (oi o)).
  - unfold oi_upd. destruct (get i (oi o)) eqn:E; [|reflexivity]. cbn. eapply keys_set_same; eauto.
Qed.

Lemma on_upd_o_cnt n f o : o_cnt (on_upd n f o) = o_cnt o.
Proof. unfold on_upd. now destruct (get n (onm o)). Qed.

Lemma ole_on_upd e n f o : (forall r, r_ready r = true -> r_ready (f r) = true) -> ole e o (on_upd n f o).
Proof.
  intros Hf. constructor.
  - intros j y H. rewrite on_upd_oi. eauto using oinst_le_refl.
  - intros j H. now rewrite on_upd_oi.
  - intros m r H. rewrite on_upd_get, H. destruct (N.eqb n m); cbn; eauto.
  - intros m H. rewrite on_upd_get, H. now destruct (N.eqb n m).
  - apply on_upd_o_cnt.
  - now rewrite on_upd_oi.
Qed.

Lemma ole_fold_oi_upd e (f : oinst -> oinst) l :
  (forall i y, oinst_le e i y (f y)) -> forall o, ole e o (fold_left (fun o i => oi_upd i f o) l o).
Proof.
  intros Hf. induction l as [|a l IH]; intros o; cbn; [apply ole_refl|].
  eapply ole_trans; [apply (ole_oi_upd e a f o (Hf a))|apply IH].
Qed.

Lemma ole_refresh e o : ole e o (refresh_succ o).
Proof.
  constructor; try reflexivity; eauto.
  - intros j y H. rewrite refresh_get, H. cbn. eexists; split; [reflexivity|].
    destruct (_ && _); cbn; [|apply oinst_le_refl]. unfold oinst_le; cbn. repeat split; auto.
  - intros j H. now rewrite refresh_get, H.
  - unfold refresh_succ. cbn. apply (keys_map_snd (fun p => if o_ended (snd p) && (r_code (on_get o (o_nm (snd p))) =? 0)%Z then snd p <| o_succ := true |> else snd p)).
Qed.

Ltac ole_fin :=
  intros; unfold oinst_le; cbn; repeat split; auto;
  try (destruct_matches; cbn; auto);
  try (right; eexists; split; reflexivity).

Ltac ole_close :=
  repeat first
  [ apply ole_refl
  | match goal with
    | |- ole ?e ?o (oi_upd ?i ?f ?X) =>
        apply (ole_trans e o X); [|apply ole_oi_upd; ole_fin]
    | |- ole ?e ?o (on_upd ?n ?f ?X) =>
        apply (ole_trans e o X); [|apply ole_on_upd; intros; cbn; try (destruct_matches; cbn); auto]
    | |- ole ?e ?o (fold_left (fun o i => oi_upd i ?f o) ?l ?X) =>
        apply (ole_trans e o X); [|apply ole_fold_oi_upd; ole_fin]
    | |- ole ?e ?o (RecordSet.set _ _ ?X) =>
        apply (ole_trans e o X); [|apply ole_eq; reflexivity]
    end ].

Lemma obs_step_ole cs o th e : (forall i n, e <> ENewInst i n) -> ole e o (obs_step cs o (th, e)).
Proof.
  intros Hne. unfold obs_step. eapply ole_trans; [|apply ole_refresh].
  destruct e; cbn [fst snd];
  try (exfalso; eapply Hne; reflexivity);
  try (destruct (ev_inst o th _) eqn:Ev);
  try match goal with |- context[match ?b with true => _ | false => _ end] => destruct b end;
  unfold note_late_commit;
  repeat match goal with |- context[if ?b then _ else _] => destruct b end;
  try apply ole_refl; ole_close.
  intros ->. reflexivity.
Qed.

Definition new_oinst (o : obs) (th : tid) (n : name) : oinst :=
  mkOI n (o_cnt o) 0 false None None false false false false false false false 0 false false
       (match get th (o_api o) with Some OpRun | None => false | Some _ => true end) false false.

Lemma obs_step_new cs o th i n :
  exists o1, ole (ENewInst i n) o1 (obs_step cs o (th, ENewInst i n)) /\
             oi o1 = set i (new_oinst o th n) (oi o) /\ onm o1 = onm o /\ o_cnt o1 = S (o_cnt o).
Proof.
  unfold obs_step. cbn [fst snd ev_inst]. eexists. split; [apply ole_refresh|]. cbn. repeat split; reflexivity.
Qed.

Lemma Oinv_step cs o te : Oinv o -> Oinv (obs_step cs o te).
Proof.
  intros [Hn Hi]. destruct te as [th e].
  assert (D : (forall i n, e <> ENewInst i n) \/ exists i n, e = ENewInst i n).
  { destruct e; try (left; intros; discriminate). right; eauto. }
  destruct D as [D|(i & n & ->)].
  - destruct (obs_step_ole cs o th e D) as [A1 A2 A3 A4 A5 A6]. split; [now rewrite A6|].
    intros j y' H'. rewrite A5. destruct (get j (oi o)) as [y|] eqn:E.
    + destruct (A1 j y E) as (y2 & H2 & L). assert (y2 = y') by congruence. subst y2.
      destruct L as (_ & Li & _). rewrite Li. eauto.
    + rewrite (A2 j E) in H'. discriminate.
  - destruct (obs_step_new cs o th i n) as (o1 & [A1 A2 A3 A4 A5 A6] & B1 & B2 & B3). split.
    + rewrite A6, B1. now apply NoDup_keys_set.
    + intros j y' H'. rewrite A5, B3. destruct (get j (oi o1)) as [y|] eqn:E.
      * destruct (A1 j y E) as (y2 & H2 & L). assert (y2 = y') by congruence. subst y2.
        destruct L as (_ & Li & _). rewrite Li. rewrite B1, get_set in E. destruct (N.eqb i j).
        -- injection E as <-. cbn. lia.
        -- specialize (Hi j y E). lia.
      * rewrite (A2 j E) in H'. discriminate.
Qed.

Lemma Oinv_obs0 cs : Oinv (obs0 cs).
Proof. split; cbn; [constructor|discriminate]. Qed.

(* ---- what particular events make the observer record ------------------------------------------------------ *)
Ltac gain_tac :=
  unfold obs_step; cbn [fst snd ev_inst];
  repeat match goal with H : get _ (o_th _) = Some _ |- _ => rewrite H end.

Lemma gain_started cs o th i y : get th (o_th o) = Some i -> get i (oi o) = Some y ->
  exists y', get i (oi (obs_step cs o (th, EStarted))) = Some y' /\ o_started y' = true.
Proof.
  intros Ht Hy. gain_tac. rewrite refresh_get, oi_upd_get, N.eqb_refl, Hy. cbn.
  eexists; split; [reflexivity|]. destruct (_ && _); reflexivity.
Qed.

Lemma gain_stopenter cs o th i y : get i (oi o) = Some y ->
  exists y', get i (oi (obs_step cs o (th, EStopEnter i true))) = Some y' /\ o_stopreq y' = true.
Proof.
  intros Hy. gain_tac. rewrite refresh_get, oi_upd_get, N.eqb_refl. match goal with |- context[get i (oi ?X)] => change (oi X) with (oi o) end. rewrite Hy. cbn.
  eexists; split; [reflexivity|]. destruct (_ && _); cbn; now rewrite orb_true_r.
Qed.

Lemma gain_procend cs o th i s0 y : get i (oi o) = Some y ->
  exists y', get i (oi (obs_step cs o (th, EProcEnd i s0))) = Some y' /\ o_endst y' = Some s0.
Proof.
  intros Hy. gain_tac. rewrite refresh_get, oi_upd_get, N.eqb_refl, Hy. cbn.
  eexists; split; [reflexivity|]. destruct (_ && _); reflexivity.
Qed.

Lemma gain_state cs o th i s0 y : get i (oi o) = Some y -> o_endst y = Some s0 ->
  exists y', get i (oi (obs_step cs o (th, EState i s0))) = Some y' /\ o_ended y' = true.
Proof.
  intros Hy He. gain_tac. cbv zeta. rewrite refresh_get, oi_upd_get, N.eqb_refl, on_upd_oi.
  assert (E : forall b : bool, get i (oi (if b then o <| w_late := true |> else o)) = Some y) by (intros []; exact Hy).
  rewrite E. cbn. rewrite He. cbn. rewrite status_eqb_refl.
  eexists; split; [reflexivity|]. destruct (_ && _); reflexivity.
Qed.

Lemma gain_logready cs o th i y r : get i (oi o) = Some y -> get (o_nm y) (onm o) = Some r ->
  (exists y', get i (oi (obs_step cs o (th, ELogReady i))) = Some y' /\ o_logok y' = true) /\
  (exists r', get (o_nm y) (onm (obs_step cs o (th, ELogReady i))) = Some r' /\ r_ready r' = true).
Proof.
  intros Hy Hr. gain_tac. split.
  - rewrite refresh_get, on_upd_oi, oi_upd_get, N.eqb_refl, Hy. cbn.
    eexists; split; [reflexivity|]. destruct (_ && _); reflexivity.
  - change (onm (refresh_succ ?X)) with (onm X). unfold oi_get. rewrite Hy.
    rewrite on_upd_get, N.eqb_refl, oi_upd_onm, Hr. cbn. eexists; split; reflexivity.
Qed.

Lemma gain_probe cs o th i y r : get i (oi o) = Some y -> get (o_nm y) (onm o) = Some r ->
  exists r', get (o_nm y) (onm (obs_step cs o (th, EProbe i true false))) = Some r' /\ r_ready r' = true.
Proof.
  intros Hy Hr. gain_tac. change (onm (refresh_succ ?X)) with (onm X). unfold oi_get. rewrite Hy.
  rewrite on_upd_get, N.eqb_refl, Hr. cbn. eexists; split; reflexivity.
Qed.
