(* Generic lemmas for the C01 simulation proof: association lists, the ghost observer of the C01
   scheduling hypotheses, and model-independent facts about the observer (Monitors.obs_step):
   what it never forgets (monotonicity) and what particular events make it record. *)
From Coq Require Import List ZArith NArith Bool Lia.
From RecordUpdate Require Import RecordSet.
From PC.Base Require Import Assoc.
From PC.Sup Require Import Model Monitors Tactics Sim ObsFacts Effects RelCore.
Import ListNotations RecordSetNotations.

(* ---- association lists ------------------------------------------------------------------------------ *)
Section AssocLemmas.
Context {V : Type}.
Implicit Types (m : amap V).

Lemma in_keys_set a k (v : V) m : In a (keys (set k v m)) -> a = k \/ In a (keys m).
Proof.
  induction m as [|[k' v'] r IH]; cbn.
  - intros [H|[]]; auto.
  - destruct (N.eqb_spec k' k); cbn.
    + intros [H|H]; subst; auto.
    + intros [H|H]; auto. destruct (IH H); auto.
Qed.

Lemma NoDup_keys_set k (v : V) m : NoDup (keys m) -> NoDup (keys (set k v m)).
Proof.
  induction m as [|[k' v'] r IH]; cbn; intros H.
  - constructor; [intros []|constructor].
  - inversion H as [|? ? Hn Hr]; subst. destruct (N.eqb_spec k' k); cbn.
    + subst. constructor; assumption.
    + constructor; [|now apply IH]. intros Hin. apply in_keys_set in Hin. destruct Hin; [congruence|contradiction].
Qed.

Lemma in_get_nodup j (y : V) m : NoDup (keys m) -> In (j, y) m -> get j m = Some y.
Proof.
  induction m as [|[k' v'] r IH]; cbn; intros H Hin; [contradiction|].
  inversion H as [|? ? Hn Hr]; subst. destruct Hin as [E|Hin].
  - inversion E; subst. now rewrite N.eqb_refl.
  - destruct (N.eqb_spec k' j).
    + subst. exfalso. apply Hn. change j with (fst (j, y)). now apply in_map.
    + now apply IH.
Qed.

Lemma get_in_vals j (y : V) m : get j m = Some y -> In y (vals m).
Proof. intros H. apply get_in in H. change y with (snd (j, y)). now apply in_map. Qed.

Lemma in_vals_get (y : V) m : NoDup (keys m) -> In y (vals m) -> exists j, get j m = Some y.
Proof.
  intros Hn Hin. unfold vals in Hin. apply in_map_iff in Hin. destruct Hin as ([j y'] & E & Hin). cbn in E. subst y'.
  exists j. now apply in_get_nodup.
Qed.

Lemma keys_map_snd (f : N * V -> V) m : keys (map (fun p => (fst p, f p)) m) = keys m.
Proof. unfold keys. rewrite map_map. apply map_ext. reflexivity. Qed.
End AssocLemmas.

(* ---- the ghost observer: the one scheduling pattern under which the C01 monitor is still too strict ---------- *)
(* g_endov : a status of an instance was written that differs from the status of the latest onProcessEnd
             entered for it, while the observer had not yet seen the instance end (two overlapping
             onProcessEnd executions, e.g. the stop of a Pending process racing with its own Skipped end):
             the observer's o_endst has one slot, so o_ended lags behind the done flag of the code. *)
Record gst := mkG { g_endov : bool }.
Definition g0 : gst := mkG false.

Definition g_step (cs : amap pconf) (o : obs) (g : gst) (te : tid * event) : gst :=
  match snd te with
  | EState i s0 =>
      let x := oi_get o i in
      mkG (g_endov g || match o_endst x with Some s1 => negb (status_eqb s1 s0) && negb (o_ended x) | None => false end)
  | _ => g
  end.

Definition gbad (g : gst) : bool := g_endov g.

Lemma gbad_mono cs o g te : gbad g = true -> gbad (g_step cs o g te) = true.
Proof.
  unfold gbad, g_step. destruct te as [th e]. cbn [fst snd]. intros H. destruct e; cbn; try exact H. now rewrite H.
Qed.

(* the pair (observer, ghost) folded over a history *)
Definition og_step (cs : amap pconf) (og : obs * gst) (te : tid * event) : obs * gst :=
  (obs_step cs (fst og) te, g_step cs (fst og) (snd og) te).
Definition og_final (cs : amap pconf) (evs : list (tid * event)) : obs * gst :=
  fold_left (og_step cs) evs (obs0 cs, g0).
(* the decidable side condition of C01_main_partial: no two overlapping onProcessEnd executions with different statuses *)
Definition sched_ok_C01 (cs : amap pconf) (evs : list (tid * event)) : bool := negb (gbad (snd (og_final cs evs))).

Lemma og_final_fst cs evs og : fst (fold_left (og_step cs) evs og) = fold_left (obs_step cs) evs (fst og).
Proof. revert og. induction evs as [|e r IH]; intros og; cbn; [reflexivity|]. now rewrite IH. Qed.

(* ---- observer invariant -------------------------------------------------------------------------------- *)
Record Oinv (o : obs) : Prop := mkOinv {
  oi_nodup : NoDup (keys (oi o));
  oi_idx : forall j y, get j (oi o) = Some y -> o_idx y < o_cnt o;
  oi_wb : forall j y w, get j (oi o) = Some y -> In w (o_waits y) -> snd w <= o_cnt o;
  oi_lk : forall th k b, get th (o_lk o) = Some (k, b) -> b <= o_cnt o }.

(* after every step: an ended instance whose name reports code 0 is marked successful *)
Definition Refreshed (o : obs) : Prop :=
  forall j y, get j (oi o) = Some y -> o_ended y = true -> (r_code (on_get o (o_nm y)) =? 0)%Z = true -> o_succ y = true.

Lemma refreshed_refresh o : Refreshed (refresh_succ o).
Proof.
  intros j y. rewrite refresh_get. destruct (get j (oi o)) as [x|]; cbn [option_map]; [|discriminate].
  intros E He Hc. injection E as <-.
  assert (Hon : forall n, on_get (refresh_succ o) n = on_get o n) by reflexivity.
  destruct (o_ended x && (r_code (on_get o (o_nm x)) =? 0)%Z) eqn:B; [reflexivity|].
  rewrite Hon in Hc. rewrite He, Hc in B. discriminate B.
Qed.

Lemma refreshed_step cs o te : Refreshed (obs_step cs o te).
Proof. destruct te as [th e]. unfold obs_step. apply refreshed_refresh. Qed.

(* ---- what the observer never forgets -------------------------------------------------------------------- *)
(* c is the registration counter before the step *)
Definition oinst_le (e : event) (c : nat) (j : iid) (y y' : oinst) : Prop :=
  o_nm y' = o_nm y /\
  (o_reg y = true -> o_reg y' = true /\ o_idx y' = o_idx y) /\
  (o_reg y' = true -> o_reg y = true \/ (o_idx y' = c /\ exists n, e = ERegAdd j n)) /\
  (o_idx y' = o_idx y \/ (o_idx y' = c /\ exists n, e = ERegAdd j n)) /\
  (o_ended y = true -> o_ended y' = true) /\ (o_succ y = true -> o_succ y' = true) /\
  (o_logok y = true -> o_logok y' = true) /\ (o_started y = true -> o_started y' = true) /\
  (o_stopreq y = true -> o_stopreq y' = true) /\
  (o_endst y' = o_endst y \/ exists s0, e = EProcEnd j s0 /\ o_endst y' = Some s0) /\
  (exists l, o_waits y' = o_waits y ++ l /\ (l = [] \/ exists k f, e = EDepWait k f)).

Lemma oinst_le_refl e c j y : oinst_le e c j y y.
Proof. unfold oinst_le. repeat split; auto. exists []. rewrite app_nil_r. auto. Qed.

Lemma oinst_le_trans e c j y1 y2 y3 : oinst_le e c j y1 y2 -> oinst_le e c j y2 y3 -> oinst_le e c j y1 y3.
Proof.
  unfold oinst_le. intros (A1 & A2 & A3 & A0 & A4 & A5 & A6 & A7 & A8 & A9 & A10) (B1 & B2 & B3 & B0 & B4 & B5 & B6 & B7 & B8 & B9 & B10).
  split; [congruence|]. split.
  { intros H. destruct (A2 H) as [H2 E2]. destruct (B2 H2) as [H3 E3]. split; congruence. }
  split.
  { intros H. destruct (B3 H) as [H2|H2]; [|now right]. destruct (A3 H2) as [H1|[H1 H1']]; [now left|right].
    destruct (B2 H2) as [_ E3]. split; [congruence|exact H1']. }
  split.
  { destruct B0 as [B|B]; [|right; exact B]. rewrite B. exact A0. }
  split; [auto|]. split; [auto|]. split; [auto|]. split; [auto|]. split; [auto|]. split.
  - destruct B9 as [B|B]; [|now right]. rewrite B. exact A9.
  - destruct A10 as (l1 & E1 & D1). destruct B10 as (l2 & E2 & D2). exists (l1 ++ l2). split.
    + rewrite E2, E1. now rewrite app_assoc.
    + destruct D1 as [->|D1]; [|now right]. destruct D2 as [->|D2]; [now left|now right].
Qed.

Record ole (e : event) (c : nat) (o o' : obs) : Prop := mkOle {
  ole_oi : forall j y, get j (oi o) = Some y -> exists y', get j (oi o') = Some y' /\ oinst_le e c j y y';
  ole_none : forall j, get j (oi o) = None -> get j (oi o') = None;
  ole_on : forall n r, get n (onm o) = Some r ->
           exists r', get n (onm o') = Some r' /\ (r_ready r = true -> r_ready r' = true);
  ole_on_none : forall n, get n (onm o) = None -> get n (onm o') = None;
  ole_cnt : o_cnt o <= o_cnt o';
  ole_keys : keys (oi o') = keys (oi o);
  ole_lk : (forall n, e <> ERegGet n None) -> o_lk o' = o_lk o }.

Lemma ole_refl e c o : ole e c o o.
Proof. constructor; eauto using oinst_le_refl. Qed.

Lemma ole_trans e c o1 o2 o3 : ole e c o1 o2 -> ole e c o2 o3 -> ole e c o1 o3.
Proof.
  intros [A1 A2 A3 A4 A5 A6 A7] [B1 B2 B3 B4 B5 B6 B7]. constructor; try congruence; auto.
  - intros j y H. destruct (A1 j y H) as (y2 & H2 & L2). destruct (B1 j y2 H2) as (y3 & H3 & L3).
    exists y3. split; [exact H3|eapply oinst_le_trans; eauto].
  - intros n r H. destruct (A3 n r H) as (r2 & H2 & L2). destruct (B3 n r2 H2) as (r3 & H3 & L3).
    exists r3. split; auto.
  - lia.
  - intros Hn. rewrite (B7 Hn). auto.
Qed.

Lemma ole_eq e c o o' : oi o' = oi o -> onm o' = onm o -> o_cnt o <= o_cnt o' ->
  ((forall n, e <> ERegGet n None) -> o_lk o' = o_lk o) -> ole e c o o'.
Proof.
  intros A B C D. constructor; rewrite ?A, ?B; eauto using oinst_le_refl.
Qed.

Lemma keys_set_same {V} k (v v0 : V) (m : amap V) : get k m = Some v0 -> keys (set k v m) = keys m.
Proof.
  induction m as [|[k' v'] r IH]; cbn; [discriminate|].
  destruct (N.eqb_spec k' k); cbn; [subst; reflexivity|]. intros H. unfold keys in *. cbn. f_equal. now apply IH.
Qed.

Lemma oi_upd_o_cnt i f o : o_cnt (oi_upd i f o) = o_cnt o.
Proof. unfold oi_upd. now destruct (get i (oi o)). Qed.
Lemma oi_upd_o_lk i f o : o_lk (oi_upd i f o) = o_lk o.
Proof. unfold oi_upd. now destruct (get i (oi o)). Qed.
Lemma on_upd_o_cnt n f o : o_cnt (on_upd n f o) = o_cnt o.
Proof. unfold on_upd. now destruct (get n (onm o)). Qed.
Lemma on_upd_o_lk n f o : o_lk (on_upd n f o) = o_lk o.
Proof. unfold on_upd. now destruct (get n (onm o)). Qed.

Lemma ole_oi_upd e c i f o : (forall y, oinst_le e c i y (f y)) -> ole e c o (oi_upd i f o).
Proof.
  intros Hf. constructor.
  - intros j y H. rewrite oi_upd_get, H. destruct (N.eqb_spec i j); cbn; [subst|]; eauto using oinst_le_refl.
  - intros j H. rewrite oi_upd_get, H. now destruct (N.eqb i j).
  - intros n r H. rewrite oi_upd_onm. eauto.
  - intros n H. now rewrite oi_upd_onm.
  - now rewrite oi_upd_o_cnt.
  - unfold oi_upd. destruct (get i (oi o)) eqn:E; [|reflexivity]. cbn. eapply keys_set_same; eauto.
  - intros _. apply oi_upd_o_lk.
Qed.

Lemma ole_on_upd e c n f o : (forall r, r_ready r = true -> r_ready (f r) = true) -> ole e c o (on_upd n f o).
Proof.
  intros Hf. constructor.
  - intros j y H. rewrite on_upd_oi. eauto using oinst_le_refl.
  - intros j H. now rewrite on_upd_oi.
  - intros m r H. rewrite on_upd_get, H. destruct (N.eqb n m); cbn; eauto.
  - intros m H. rewrite on_upd_get, H. now destruct (N.eqb n m).
  - now rewrite on_upd_o_cnt.
  - now rewrite on_upd_oi.
  - intros _. apply on_upd_o_lk.
Qed.

Lemma ole_fold_oi_upd e c (f : oinst -> oinst) l :
  (forall i y, oinst_le e c i y (f y)) -> forall o, ole e c o (fold_left (fun o i => oi_upd i f o) l o).
Proof.
  intros Hf. induction l as [|a l IH]; intros o; cbn; [apply ole_refl|].
  eapply ole_trans; [apply (ole_oi_upd e c a f o (Hf a))|apply IH].
Qed.

Lemma ole_refresh e c o : ole e c o (refresh_succ o).
Proof.
  constructor; try reflexivity; eauto.
  - intros j y H. rewrite refresh_get, H. cbn. eexists; split; [reflexivity|].
    destruct (_ && _); cbn; [|apply oinst_le_refl]. unfold oinst_le; cbn. repeat split; auto.
    exists []. rewrite app_nil_r. auto.
  - intros j H. now rewrite refresh_get, H.
  - unfold refresh_succ. cbn. apply (keys_map_snd (fun p => if o_ended (snd p) && (r_code (on_get o (o_nm (snd p))) =? 0)%Z then snd p <| o_succ := true |> else snd p)).
Qed.

Ltac ole_fin :=
  intros; unfold oinst_le; cbn; repeat split; auto;
  try (destruct_matches; cbn; auto);
  try solve [intros; discriminate | intros; congruence];
  try solve [right; eexists; split; reflexivity];
  try solve [right; split; [reflexivity|eexists; reflexivity]];
  try solve [exists []; rewrite app_nil_r; auto];
  try solve [eexists; split; [reflexivity|right; eauto]].

Ltac ole_close :=
  repeat first
  [ apply ole_refl
  | match goal with
    | |- ole ?e ?c ?o (oi_upd ?i ?f ?X) =>
        apply (ole_trans e c o X); [|apply ole_oi_upd; ole_fin]
    | |- ole ?e ?c ?o (on_upd ?n ?f ?X) =>
        apply (ole_trans e c o X); [|apply ole_on_upd; intros; cbn; try (destruct_matches; cbn); auto]
    | |- ole ?e ?c ?o (fold_left (fun o i => oi_upd i ?f o) ?l ?X) =>
        apply (ole_trans e c o X); [|apply ole_fold_oi_upd; ole_fin]
    | |- ole ?e ?c ?o (RecordSet.set _ _ ?X) =>
        apply (ole_trans e c o X); [|apply ole_eq; cbn; try reflexivity; try lia; try (intros Hq; exfalso; eapply Hq; reflexivity)]
    end ].

Lemma obs_step_ole cs o th e : (forall i n, e <> ENewInst i n) -> ole e (o_cnt o) o (obs_step cs o (th, e)).
Proof.
  intros Hne. unfold obs_step. eapply ole_trans; [|apply ole_refresh].
  destruct e; cbn [fst snd];
  try (exfalso; eapply Hne; reflexivity);
  try (destruct (ev_inst o th _) eqn:Ev);
  try match goal with |- context[match ?b with true => _ | false => _ end] => destruct b end;
  try match goal with |- context[match ?b with Some _ => _ | None => _ end] => destruct b end;
  unfold note_late_commit;
  repeat match goal with |- context[if ?b then _ else _] => destruct b end;
  try apply ole_refl; ole_close.
  intros ->. reflexivity.
Qed.

Definition new_oinst (o : obs) (th : tid) (n : name) : oinst :=
  mkOI n (o_cnt o) 0 false None None false false false false false false false 0 false false
       (match get th (o_api o) with Some OpRun | None => false | Some _ => true end) false false false [].

Lemma obs_step_new cs o th i n :
  exists o1, (forall c, ole (ENewInst i n) c o1 (obs_step cs o (th, ENewInst i n))) /\
             oi o1 = set i (new_oinst o th n) (oi o) /\ onm o1 = onm o /\ o_cnt o1 = S (o_cnt o) /\ o_lk o1 = o_lk o.
Proof.
  unfold obs_step. cbn [fst snd ev_inst]. eexists. split; [intros c; apply ole_refresh|]. cbn. repeat split; reflexivity.
Qed.

Lemma cnt_regadd cs o th i n : o_cnt (obs_step cs o (th, ERegAdd i n)) = S (o_cnt o).
Proof. unfold obs_step. cbn [fst snd ev_inst]. change (o_cnt (refresh_succ ?X)) with (o_cnt X). now rewrite oi_upd_o_cnt. Qed.

Lemma lk_regget cs o th n : o_lk (obs_step cs o (th, ERegGet n None)) = set th (n, o_cnt o) (o_lk o).
Proof. reflexivity. Qed.

(* the registration counter recorded with a missed lookup *)
Definition miss_bound (o : obs) (th : tid) (k : name) : nat :=
  match get th (o_lk o) with
  | Some (k', b) => if N.eqb k' k then b else o_cnt o
  | None => o_cnt o
  end.

Lemma miss_bound_le o th k : Oinv o -> miss_bound o th k <= o_cnt o.
Proof.
  intros HO. unfold miss_bound. destruct (get th (o_lk o)) as [[k' b]|] eqn:E; [|lia].
  destruct (N.eqb k' k); [|lia]. eapply (oi_lk _ HO); eauto.
Qed.

Lemma depwait_spec cs o th k f j y' :
  get j (oi (obs_step cs o (th, EDepWait k f))) = Some y' ->
  exists y, get j (oi o) = Some y /\
    (o_waits y' = o_waits y \/ (get th (o_th o) = Some j /\ o_waits y' = o_waits y ++ [(k, f, miss_bound o th k)])).
Proof.
  unfold obs_step. cbn [fst snd ev_inst]. destruct (get th (o_th o)) as [i|] eqn:Et.
  - rewrite refresh_get, oi_upd_get. destruct (N.eqb_spec i j).
    + subst j. destruct (get i (oi o)) as [y|]; cbn; [|discriminate]. intros Q. injection Q as <-.
      exists y. split; [reflexivity|]. right. split; [reflexivity|]. destruct (_ && _); reflexivity.
    + destruct (get j (oi o)) as [y|]; cbn; [|discriminate]. intros Q. injection Q as <-.
      exists y. split; [reflexivity|]. left. destruct (_ && _); reflexivity.
  - rewrite refresh_get. destruct (get j (oi o)) as [y|]; cbn; [|discriminate]. intros Q. injection Q as <-.
    exists y. split; [reflexivity|]. left. destruct (_ && _); reflexivity.
Qed.

Lemma ole_inv e c o o' j y' : ole e c o o' -> get j (oi o') = Some y' -> exists y, get j (oi o) = Some y /\ oinst_le e c j y y'.
Proof.
  intros OL H. destruct (get j (oi o)) as [y|] eqn:E.
  - destruct (ole_oi _ _ _ _ OL j y E) as (y2 & E2 & L). exists y. split; [reflexivity|congruence].
  - rewrite (ole_none _ _ _ _ OL j E) in H. discriminate.
Qed.

Lemma Oinv_step cs o te : Oinv o -> Oinv (obs_step cs o te).
Proof.
  intros HO. destruct te as [th e].
  assert (D : (forall i n, e <> ENewInst i n) \/ exists i n, e = ENewInst i n).
  { destruct e; try (left; intros; discriminate). right; eauto. }
  destruct D as [D|(i & n & ->)].
  - pose proof (obs_step_ole cs o th e D) as OL. pose proof (ole_cnt _ _ _ _ OL) as Hc. constructor.
    + rewrite (ole_keys _ _ _ _ OL). apply (oi_nodup _ HO).
    + intros j y' H'. destruct (ole_inv _ _ _ _ _ _ OL H') as (y & E & L).
      destruct L as (_ & _ & _ & [Li|(Li & n & ->)] & _).
      * rewrite Li. pose proof (oi_idx _ HO j y E). lia.
      * rewrite Li, cnt_regadd. lia.
    + intros j y' w H' Hw.
      assert (Dw : (forall k f, e <> EDepWait k f) \/ exists k f, e = EDepWait k f).
      { destruct e; try (left; intros; discriminate). right; eauto. }
      destruct Dw as [Dw|(k & f & ->)].
      * destruct (ole_inv _ _ _ _ _ _ OL H') as (y & E & L).
        destruct L as (_ & _ & _ & _ & _ & _ & _ & _ & _ & _ & (l & El & [->|(k & f & Q)])); [|exfalso; eapply Dw; eauto].
        rewrite app_nil_r in El. rewrite El in Hw. pose proof (oi_wb _ HO j y w E Hw). lia.
      * destruct (depwait_spec _ _ _ _ _ _ _ H') as (y & E & [Q|[_ Q]]); rewrite Q in Hw.
        -- pose proof (oi_wb _ HO j y w E Hw). lia.
        -- apply in_app_or in Hw. destruct Hw as [Hw|[<-|[]]]; [pose proof (oi_wb _ HO j y w E Hw); lia|].
           cbn [snd]. pose proof (miss_bound_le o th k HO). lia.
    + intros t k b H.
      assert (Dl : (forall n, e <> ERegGet n None) \/ exists n, e = ERegGet n None).
      { destruct e; try (left; intros; discriminate). destruct found; [left; intros; discriminate|right; eauto]. }
      destruct Dl as [Dl|(n & ->)].
      * rewrite (ole_lk _ _ _ _ OL Dl) in H. pose proof (oi_lk _ HO t k b H). lia.
      * rewrite lk_regget, get_set in H. destruct (N.eqb th t).
        -- injection H as <- <-. exact Hc.
        -- pose proof (oi_lk _ HO t k b H). lia.
  - destruct (obs_step_new cs o th i n) as (o1 & OL0 & B1 & B2 & B3 & B4). pose proof (OL0 (o_cnt o)) as OL.
    pose proof (ole_cnt _ _ _ _ OL) as Hc. constructor.
    + rewrite (ole_keys _ _ _ _ OL), B1. apply NoDup_keys_set, (oi_nodup _ HO).
    + intros j y' H'. destruct (ole_inv _ _ _ _ _ _ OL H') as (y & E & L).
      destruct L as (_ & _ & _ & [Li|(_ & n0 & Q)] & _); [|discriminate Q]. rewrite Li.
      rewrite B1, get_set in E. destruct (N.eqb i j).
      * injection E as <-. cbn. lia.
      * pose proof (oi_idx _ HO j y E). lia.
    + intros j y' w H' Hw. destruct (ole_inv _ _ _ _ _ _ OL H') as (y & E & L).
      destruct L as (_ & _ & _ & _ & _ & _ & _ & _ & _ & _ & (l & El & [->|(k & f & Q)])); [|discriminate Q].
      rewrite app_nil_r in El. rewrite El in Hw. rewrite B1, get_set in E. destruct (N.eqb i j).
      * injection E as <-. cbn in Hw. contradiction.
      * pose proof (oi_wb _ HO j y w E Hw). lia.
    + intros t k b H. rewrite (ole_lk _ _ _ _ OL) in H by (intros; discriminate). rewrite B4 in H.
      pose proof (oi_lk _ HO t k b H). lia.
Qed.

Lemma Oinv_obs0 cs : Oinv (obs0 cs).
Proof. constructor; cbn; try discriminate. constructor. Qed.

(* ---- what particular events make the observer record ------------------------------------------------------ *)
Ltac gain_tac :=
  unfold obs_step; cbn [fst snd ev_inst];
  repeat match goal with H : get _ (o_th _) = Some _ |- _ => rewrite H end.

Lemma gain_started cs o th i y : get th (o_th o) = Some i -> get i (oi o) = Some y ->
  exists y', get i (oi (obs_step cs o (th, EStarted))) = Some y' /\ o_started y' = true.
Proof.
  intros Ht Hy. gain_tac. rewrite refresh_get, oi_upd_get, N.eqb_refl, Hy. cbn.
  eexists; split; [reflexivity|]. destruct (_ && _); reflexivity.
Qed.

Lemma gain_stopenter cs o th i y : get i (oi o) = Some y ->
  exists y', get i (oi (obs_step cs o (th, EStopEnter i true))) = Some y' /\ o_stopreq y' = true.
Proof.
  intros Hy. gain_tac. rewrite refresh_get, oi_upd_get, N.eqb_refl. match goal with |- context[get i (oi ?X)] => change (oi X) with (oi o) end. rewrite Hy. cbn.
  eexists; split; [reflexivity|]. destruct (_ && _); cbn; now rewrite orb_true_r.
Qed.

Lemma gain_procend cs o th i s0 y : get i (oi o) = Some y ->
  exists y', get i (oi (obs_step cs o (th, EProcEnd i s0))) = Some y' /\ o_endst y' = Some s0.
Proof.
  intros Hy. gain_tac. rewrite refresh_get, oi_upd_get, N.eqb_refl, Hy. cbn.
  eexists; split; [reflexivity|]. destruct (_ && _); reflexivity.
Qed.

Lemma gain_state cs o th i s0 y : get i (oi o) = Some y -> o_endst y = Some s0 ->
  exists y', get i (oi (obs_step cs o (th, EState i s0))) = Some y' /\ o_ended y' = true.
Proof.
  intros Hy He. gain_tac. cbv zeta. rewrite refresh_get, oi_upd_get, N.eqb_refl, on_upd_oi.
  assert (E : forall b : bool, get i (oi (if b then o <| w_late := true |> else o)) = Some y) by (intros []; exact Hy).
  rewrite E. cbn. rewrite He. cbn. rewrite status_eqb_refl.
  eexists; split; [reflexivity|]. destruct (_ && _); reflexivity.
Qed.

Lemma gain_logready cs o th i y r : get i (oi o) = Some y -> get (o_nm y) (onm o) = Some r ->
  (exists y', get i (oi (obs_step cs o (th, ELogReady i))) = Some y' /\ o_logok y' = true) /\
  (exists r', get (o_nm y) (onm (obs_step cs o (th, ELogReady i))) = Some r' /\ r_ready r' = true).
Proof.
  intros Hy Hr. gain_tac. split.
  - rewrite refresh_get, on_upd_oi, oi_upd_get, N.eqb_refl, Hy. cbn.
    eexists; split; [reflexivity|]. destruct (_ && _); reflexivity.
  - change (onm (refresh_succ ?X)) with (onm X). unfold oi_get. rewrite Hy.
    rewrite on_upd_get, N.eqb_refl, oi_upd_onm, Hr. cbn. eexists; split; reflexivity.
Qed.

Lemma gain_probe cs o th i y r : get i (oi o) = Some y -> get (o_nm y) (onm o) = Some r ->
  exists r', get (o_nm y) (onm (obs_step cs o (th, EProbe i true false))) = Some r' /\ r_ready r' = true.
Proof.
  intros Hy Hr. gain_tac. change (onm (refresh_succ ?X)) with (onm X). unfold oi_get. rewrite Hy.
  rewrite on_upd_get, N.eqb_refl, Hr. cbn. eexists; split; reflexivity.
Qed.

Lemma gain_regadd cs o th i n y : get i (oi o) = Some y ->
  exists y', get i (oi (obs_step cs o (th, ERegAdd i n))) = Some y' /\ o_reg y' = true /\ o_nm y' = o_nm y.
Proof.
  intros Hy. gain_tac. rewrite refresh_get, oi_upd_get, N.eqb_refl.
  match goal with |- context[get i (oi ?X)] => change (oi X) with (oi o) end. rewrite Hy. cbn.
  eexists; split; [reflexivity|]. destruct (_ && _); split; reflexivity.
Qed.
