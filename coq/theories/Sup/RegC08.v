(* C08: the API-call clauses in terms of the REGISTRY as the history shows it.
   [rv_of pre] is a view of a history prefix:
     rv_lv    the view of SpecC08 (thread -> instance, instance -> (name, command alive)),
     rv_reg   the registry: process name -> instance registered under it (set by ERegAdd i n, removed by
              ERegDel i under i's name),
     rv_last  thread -> (name, result) of its last registry lookup (ERegGet),
     rv_call  thread -> the API call it is executing: operation, and the lookup (name, result) on which
              the call's "is it running?" check was decided (copied from rv_last at the *_checked trace point).
   Theorems: every lookup returns the registry content; the check of a call is decided on the thread's
   last lookup of the call's own name; the outcome of the call is a function of that lookup; a stop
   request (ENoRestart i) is made exactly for the instance that lookup found. *)
From Coq Require Import List ZArith NArith Bool Lia.
From RecordUpdate Require Import RecordSet.
From PC.Base Require Import Assoc.
From PC.Sup Require Import Model Monitors Tactics Sim ObsFacts Effects RelCore Agreement LemC08 SpecC08 CallC08.
Import ListNotations RecordSetNotations.

Definition lookup_t := (name * option iid)%type.
Record kcall := mkK { k_op : apiop; k_chk : option lookup_t; k_stops : nat }.

Definition setopt {V} (k : N) (x : option V) (m : amap V) : amap V :=
  match x with Some v => set k v m | None => del k m end.
Lemma get_setopt_same {V} k (x : option V) m : get k (setopt k x m) = x.
Proof. destruct x; cbn; [apply get_set_same|apply get_del_same]. Qed.
Lemma get_setopt_other {V} k k' (x : option V) m : k' <> k -> get k (setopt k' x m) = get k m.
Proof. intros H. destruct x; cbn; [now apply get_set_other|now apply get_del_other]. Qed.

(* the call record of a thread after one of ITS events; l = its last lookup so far *)
Definition kc_next (k : option kcall) (l : option lookup_t) (e : event) : option kcall :=
  match e with
  | EApiBegin op => Some (mkK op None 0)
  | EStartChecked _ _ | EStopChecked _ _ | ERestartChecked _ _ =>
      match k with Some k => Some (mkK (k_op k) l (k_stops k)) | None => None end
  | ENoRestart _ => match k with Some k => Some (mkK (k_op k) (k_chk k) (S (k_stops k))) | None => None end
  | EApiReturn _ => None
  | _ => k
  end.

Record rv := mkRv { rv_lv : lv; rv_reg : amap iid; rv_last : amap lookup_t; rv_call : amap kcall }.
Definition rv0 : rv := mkRv lv0 [] [] [].

Definition rv_step (v : rv) (te : tid * event) : rv :=
  let th := fst te in
  mkRv (lv_step (rv_lv v) te)
       (match snd te with
        | ERegAdd i n => set n i (rv_reg v)
        | ERegDel i => match get i (lv_inst (rv_lv v)) with Some (n, _) => del n (rv_reg v) | None => rv_reg v end
        | _ => rv_reg v
        end)
       (match snd te with ERegGet n r => set th (n, r) (rv_last v) | _ => rv_last v end)
       (setopt th (kc_next (get th (rv_call v)) (get th (rv_last v)) (snd te)) (rv_call v)).
Definition rv_of (evs : list (tid * event)) : rv := fold_left rv_step evs rv0.

(* ---- what is checked ---------------------------------------------------------------------------------- *)
Definition lk_eqb (a b : option lookup_t) : bool :=
  opt_eqb (fun p q => N.eqb (fst p) (fst q) && opt_eqb N.eqb (snd p) (snd q)) a b.

Definition mon_k (cs : amap pconf) (k : option kcall) (l : option lookup_t) (e : event) : bool :=
  match e with
  | EStartChecked n found =>
      match l with Some (n', r) => N.eqb n n' && Bool.eqb found (isSomeb r) | None => false end
  | EStopChecked n f | ERestartChecked n f =>
      match l with Some (n', r) => N.eqb n n' && opt_eqb N.eqb f r | None => false end
  | ENoRestart i =>
      match k with
      | Some k => match k_op k, k_chk k with
                  | (OpStop n | OpRestart n), Some (n', Some i') => N.eqb n n' && N.eqb i i'
                  | _, _ => false
                  end
      | None => false
      end
  | EApiReturn ok =>
      match k with
      | Some k => match k_op k, k_chk k with
                  | OpStart n, Some (n', r) => N.eqb n n' && Bool.eqb ok (negb (isSomeb r) && has n cs) && Nat.eqb (k_stops k) 0
                  | OpStop n, Some (n', r) => N.eqb n n' && Bool.eqb ok (isSomeb r) && (isSomeb r || Nat.eqb (k_stops k) 0)
                  | OpRestart n, Some (n', r) => N.eqb n n' && Bool.eqb ok (has n cs) && (isSomeb r || Nat.eqb (k_stops k) 0)
                  | (OpStart _ | OpStop _ | OpRestart _), None => false
                  | _, _ => true
                  end
      | None => false
      end
  | _ => true
  end.

Definition mon_reg (cs : amap pconf) (v : rv) (te : tid * event) : bool :=
  (match snd te with ERegGet n r => opt_eqb N.eqb r (get n (rv_reg v)) | _ => true end)
  && mon_k cs (get (fst te) (rv_call v)) (get (fst te) (rv_last v)) (snd te).

(* ---- the call record agrees with the thread's API program counter -------------------------------------- *)
Definition chk_is (k : kcall) (n : name) (r : option iid) : bool := lk_eqb (k_chk k) (Some (n, r)).
Definition chk_nm (k : kcall) (n : name) : bool :=
  match k_chk k with Some (n', _) => N.eqb n n' | None => false end.
Definition chk_none (k : kcall) : bool := match k_chk k with None => true | Some _ => false end.

Definition nostop (k : kcall) : bool := Nat.eqb (k_stops k) 0.
(* no stop was requested unless the check found an instance *)
Definition stops_ok (k : kcall) : bool :=
  match k_chk k with Some (_, Some _) => true | _ => nostop k end.

Definition phase2 (cs : amap pconf) (k : option kcall) (a : apipc) : bool :=
  match k with
  | None => match a with ANone | AReturned => true | _ => false end
  | Some k =>
      match k_op k, a with
      | OpRun, (ARun _ | ARunWait | ARunDone _) => true
      | OpShutdown, (AShutdown | AShutdownDone) => true
      | OpStart n, AStart n' => N.eqb n n' && chk_none k && nostop k
      | OpStart n, AStartSpawn n' => N.eqb n n' && chk_is k n None && has n cs && nostop k
      | OpStart n, AFail => chk_nm k n && match k_chk k with Some (_, None) => negb (has n cs) | _ => true end && nostop k
      | OpStart n, AOk => chk_is k n None && has n cs && nostop k
      | OpStop n, AStop n' => N.eqb n n' && chk_none k && nostop k
      | OpStop n, AStopping i => chk_is k n (Some i)
      | OpStop n, AFail => chk_is k n None && nostop k
      | OpRestart n, ARestart n' => N.eqb n n' && chk_none k && nostop k
      | OpRestart n, ARestartStopping n' i => N.eqb n n' && chk_is k n (Some i)
      | OpRestart n, ARestartSpawn n' => N.eqb n n' && chk_nm k n && has n cs && stops_ok k
      | OpRestart n, AFail => chk_nm k n && negb (has n cs) && stops_ok k
      | OpRestart n, AOk => chk_nm k n && has n cs && stops_ok k
      | _, _ => false
      end
  end.

Definition lr_of (s : sys) (th : tid) : option lookup_t := last_reg (get_thread s th).

Record RR (cs : amap pconf) (s : sys) (o : obs) (v : rv) : Prop := mkRR {
  rr_core : Rc cs s o;
  rr_view : View o (rv_lv v);
  rr_reg : running s = rv_reg v;
  rr_known : forall n i, get n (running s) = Some i -> has n cs = true;
  rr_last : forall th, lr_of s th = get th (rv_last v);
  rr_call : forall th, phase2 cs (get th (rv_call v)) (apc_of s th) = true }.

Lemma RR_init cs ord : RR cs (init cs ord) (obs0 cs) rv0.
Proof. constructor; try reflexivity; [apply Rc_init|apply View_init|discriminate]. Qed.

(* ---- model side: the registry and the lookup records ---------------------------------------------------- *)
Definition reg_event (e : event) : bool := match e with ERegAdd _ _ | ERegDel _ => true | _ => false end.

Lemma running_fold_upd_inst (f : inst -> inst) l : forall s, running (fold_left (fun s i => upd_inst i f s) l s) = running s.
Proof. induction l as [|a l IH]; intros s; cbn; [reflexivity|]. now rewrite IH, upd_inst_running. Qed.

Ltac run_close :=
  unfold set_pc, end_release_early, end_finish, set_stage;
  repeat (progress (
    repeat match goal with
           | |- context[running (if ?c then _ else _)] => destruct c
           | |- context[running (match ?c with _ => _ end)] => destruct c
           end;
    autorewrite with sup; cbn [running RecordSet.set eta_sys];
    rewrite ?running_fold_upd_inst)); try reflexivity.

Lemma step_reg_run s th e s' : reg_event e = false -> step_reg s th e = Some s' -> running s' = running s.
Proof. intros Hn H. destruct e; try discriminate Hn; kind_cases H; run_close. Qed.
Lemma step_stop_run s th e s' : step_stop s th e = Some s' -> running s' = running s.
Proof. intros H. destruct e; kind_cases H; run_close. Qed.
Lemma step_env_run s th e s' : step_env s th e = Some s' -> running s' = running s.
Proof. intros H. destruct e; kind_cases H; run_close. Qed.
Lemma step_state_run s th i s0 s' : step_state s th i s0 = Some s' -> running s' = running s.
Proof. intros H. kind_cases H; run_close. Qed.
Lemma step_procend_run s th i s0 b s' : step_procend s th i s0 b = Some s' -> running s' = running s.
Proof. intros H. kind_cases H; run_close. Qed.
Lemma step_ordered_run s th i s' : step_ordered_go s th i = Some s' -> running s' = running s.
Proof. intros H. kind_cases H; run_close. Qed.
Lemma step_own_run s th e s' : step_own s th e = Some s' -> running s' = running s.
Proof. intros H. destruct e; kind_cases H; run_close. Qed.
Lemma step_shutdown_run s th e s' : step_shutdown s th e = Some s' -> running s' = running s.
Proof. intros H. destruct e; kind_cases H; run_close. Qed.
Lemma step_api_run s th e s' : step_api s th e = Some s' -> running s' = running s.
Proof. intros H. destruct e; kind_cases H; run_close. Qed.
(* frame: [lr_same th b s s']: threads other than th keep their apc; th keeps it too when b *)
Definition lr_same (th : tid) (b : bool) (s s' : sys) : Prop :=
  forall th', (b = true \/ th' <> th) -> lr_of s' th' = lr_of s th'.

Lemma lr_same_refl th b s : lr_same th b s s.
Proof. intros th' _. reflexivity. Qed.
Lemma lr_same_trans th b s1 s2 s3 : lr_same th b s1 s2 -> lr_same th b s2 s3 -> lr_same th b s1 s3.
Proof. intros A B th' H. rewrite (B th' H). apply A, H. Qed.
Lemma lr_same_eq th b s s' : threads s' = threads s -> lr_same th b s s'.
Proof. intros E th' _. unfold lr_of, get_thread. now rewrite E. Qed.
Lemma lr_same_set_thread th b t s : (b = true -> last_reg t = lr_of s th) -> lr_same th b s (set_thread th t s).
Proof.
  intros Ht th' H. unfold lr_of. rewrite get_thread_set_thread. destruct (N.eqb_spec th th'); [|reflexivity].
  subst th'. destruct H as [H|H]; [now apply Ht|contradiction].
Qed.
Ltac lr_same_close :=
  unfold set_pc, end_release_early, end_finish, write_status;
  repeat first
  [ apply lr_same_refl
  | match goal with
    | |- lr_same ?th ?b ?s (set_thread ?th ?t ?X) =>
        apply (lr_same_trans th b s X); [|apply lr_same_set_thread; let Hb := fresh in intros Hb; try discriminate Hb; clear Hb; unfold lr_of;
             repeat (match goal with |- context[get_thread (if ?c then _ else _)] => destruct c end);
             autorewrite with sup; cbn; try reflexivity; unfold get_thread; autorewrite with sup; try reflexivity;
             cbn [threads RecordSet.set eta_sys]; rewrite ?threads_fold_upd_inst; reflexivity]
    | |- lr_same ?th ?b ?s (upd_inst ?i ?f ?X) => apply (lr_same_trans th b s X); [|apply lr_same_eq; apply upd_inst_threads]
    | |- lr_same ?th ?b ?s (upd_vis ?n ?f ?X) => apply (lr_same_trans th b s X); [|apply lr_same_eq; apply upd_vis_threads]
    | |- lr_same ?th ?b ?s (fold_left (fun s i => upd_inst i ?f s) ?l ?X) =>
        apply (lr_same_trans th b s X); [|apply lr_same_eq; apply threads_fold_upd_inst]
    | |- lr_same ?th ?b ?s (RecordSet.set _ _ ?X) => apply (lr_same_trans th b s X); [|apply lr_same_eq; reflexivity]
    | |- lr_same ?th ?b ?s (if ?c then _ else _) => destruct c
    | |- lr_same ?th ?b ?s (match ?c with _ => _ end) => destruct c
    end ].


Definition lr_event (e : event) : bool := match e with ERegGet _ _ => true | _ => false end.

Lemma step_reg_lr s th e s' : step_reg s th e = Some s' -> lr_same th (negb (lr_event e)) s s'.
Proof. intros H. destruct e; kind_cases H; cbn [lr_event negb]; lr_same_close. Qed.
Lemma step_stop_lr s th e s' : step_stop s th e = Some s' -> lr_same th true s s'.
Proof. intros H. destruct e; kind_cases H; lr_same_close. Qed.
Lemma step_env_lr s th e s' : step_env s th e = Some s' -> lr_same th true s s'.
Proof. intros H. destruct e; kind_cases H; lr_same_close. Qed.
Lemma step_state_lr s th i s0 s' : step_state s th i s0 = Some s' -> lr_same th true s s'.
Proof. intros H. kind_cases H; lr_same_close. Qed.
Lemma step_procend_lr s th i s0 b s' : step_procend s th i s0 b = Some s' -> lr_same th true s s'.
Proof. intros H. kind_cases H; lr_same_close. Qed.
Lemma step_ordered_lr s th i s' : step_ordered_go s th i = Some s' -> lr_same th true s s'.
Proof. intros H. kind_cases H; lr_same_close. Qed.
Lemma step_own_lr s th e s' : step_own s th e = Some s' -> lr_same th true s s'.
Proof. intros H. destruct e; kind_cases H; lr_same_close. Qed.
Lemma step_shutdown_lr s th e s' : step_shutdown s th e = Some s' -> lr_same th true s s'.
Proof. intros H. destruct e; kind_cases H; lr_same_close. Qed.
Lemma step_api_lr s th e s' : step_api s th e = Some s' -> lr_same th true s s'.
Proof. intros H. destruct e; kind_cases H; lr_same_close. Qed.

Lemma lr_same_weaken th b s s' : lr_same th true s s' -> lr_same th b s s'.
Proof. intros H th' _. apply H. now left. Qed.

Lemma step_core_lr s th e s' : step_core s th e = Some s' -> lr_same th (negb (lr_event e)) s s'.
Proof.
  intros H. destruct e; cbn [lr_event negb]; unfold step_core in H;
  match type of H with
  | step_reg _ _ _ = _ => apply (step_reg_lr _ _ _ _ H)
  | step_api _ _ _ = _ => apply (step_api_lr _ _ _ _ H)
  | step_stop _ _ _ = _ => apply (step_stop_lr _ _ _ _ H)
  | step_state _ _ _ _ = _ => apply (step_state_lr _ _ _ _ _ H)
  | step_procend _ _ _ _ _ = _ => apply (step_procend_lr _ _ _ _ _ _ H)
  | step_shutdown _ _ _ = _ => apply (step_shutdown_lr _ _ _ _ H)
  | step_ordered_go _ _ _ = _ => apply (step_ordered_lr _ _ _ _ H)
  | step_env _ _ _ = _ => apply (step_env_lr _ _ _ _ H)
  | step_own _ _ _ = _ => apply (step_own_lr _ _ _ _ H)
  | _ => idtac
  end.
  - break_step H. subst s'. apply lr_same_eq. reflexivity.
  - injection H as <-. apply lr_same_refl.
Qed.

Lemma step_core_run s th e s' : reg_event e = false -> step_core s th e = Some s' -> running s' = running s.
Proof.
  intros Hn H. destruct e; try discriminate Hn; unfold step_core in H;
  match type of H with
  | step_reg _ _ _ = _ => apply (step_reg_run _ _ _ _ Hn H)
  | step_api _ _ _ = _ => apply (step_api_run _ _ _ _ H)
  | step_stop _ _ _ = _ => apply (step_stop_run _ _ _ _ H)
  | step_state _ _ _ _ = _ => apply (step_state_run _ _ _ _ _ H)
  | step_procend _ _ _ _ _ = _ => apply (step_procend_run _ _ _ _ _ _ H)
  | step_shutdown _ _ _ = _ => apply (step_shutdown_run _ _ _ _ H)
  | step_ordered_go _ _ _ = _ => apply (step_ordered_run _ _ _ _ H)
  | step_env _ _ _ = _ => apply (step_env_run _ _ _ _ H)
  | step_own _ _ _ = _ => apply (step_own_run _ _ _ _ H)
  | _ => idtac
  end.
  - break_step H. subst s'. reflexivity.
  - now injection H as <-.
Qed.

Lemma lr_of_flush th s th' : lr_of (flush th s) th' = lr_of s th'.
Proof.
  unfold lr_of, flush. destruct (get th (threads s)) as [t|] eqn:Et; [|reflexivity].
  destruct (pend t) as [r|] eqn:Ep; [|reflexivity].
  assert (H : forall X, threads X = threads (set_thread th (t <| pend := None |>) s) -> last_reg (get_thread X th') = last_reg (get_thread s th')).
  { intros X HX. unfold get_thread. rewrite HX, threads_set_thread. destruct (N.eqb_spec th th'); [subst; now rewrite Et|reflexivity]. }
  destruct r; unfold apply_release, end_release_early; try (destruct (code_set _)); apply H; autorewrite with sup; reflexivity.
Qed.

(* ---- the acting thread: API events ---------------------------------------------------------------------- *)
Section RegStep.
Context (cs : amap pconf).

Lemma RR_api_step s th e s' k :
  confs s = cs -> step_api s th e = Some s' ->
  phase2 cs k (apc_of s th) = true ->
  phase2 cs (kc_next k (lr_of s th) e) (apc_of s' th) = true /\ mon_k cs k (lr_of s th) e = true.
Proof.
  intros Hc H Hp. unfold apc_of, lr_of in *.
  destruct e; kind_cases H; autorewrite with sup; rewrite ?N.eqb_refl;
  try match goal with E : apc (get_thread _ _) = _ |- _ => rewrite E in Hp end;
  unfold kc_next, mon_k;
  destruct k as [[kop kchk kst]|]; try (destruct kop); cbn in Hp; try discriminate Hp; cbn;
  unfold chk_is, chk_nm, chk_none, stops_ok, nostop, lk_eqb, thread_reg in *; cbn in Hp |- *;
  try match goal with E : apc (get_thread _ _) = _ |- _ => rewrite E end;
  try (destruct (last_reg (get_thread s th)) as [[? [?|]]|]);
  try (destruct kchk as [[? [?|]]|]);
  try match goal with found : option iid |- _ => destruct found end;
  repeat match goal with b : bool |- _ => destruct b end;
  cbn in *; phase_crunch; cbn in *; try discriminate;
  repeat match goal with
         | H : context[N.eqb ?a ?b] |- _ => destruct (N.eqb_spec a b); subst; cbn in H; try discriminate H
         end;
  phase_crunch; try discriminate;
  repeat match goal with |- context[has ?n ?c] => destruct (has n c) eqn:?; cbn in * end; try discriminate;
  rewrite ?N.eqb_refl; cbn; try (split; reflexivity);
  try (destruct kst as [|?]; cbn in *; try discriminate; split; reflexivity).
Qed.

Lemma kc_next_id k l e : api_event e = false -> kc_next k l e = k.
Proof. intros H. destruct e; try discriminate H; reflexivity. Qed.
Lemma mon_k_id k l e : api_event e = false -> mon_k cs k l e = true.
Proof. intros H. destruct e; try discriminate H; reflexivity. Qed.

Lemma RR_unlocked_step s th s' k : step_shutdown s th EShutdownUnlocked = Some s' ->
  phase2 cs k (apc_of s th) = true -> phase2 cs k (apc_of s' th) = true.
Proof.
  intros H Hp. unfold apc_of in *. kind_cases H. autorewrite with sup. rewrite N.eqb_refl. cbn.
  destruct (apc (get_thread s th)) eqn:Ea; exact Hp.
Qed.

Lemma rv_reg_step_other v th e : reg_event e = false -> rv_reg (rv_step v (th, e)) = rv_reg v.
Proof. intros H. destruct e; try discriminate H; reflexivity. Qed.
Lemma rv_last_step_other v th e : lr_event e = false -> rv_last (rv_step v (th, e)) = rv_last v.
Proof. intros H. destruct e; try discriminate H; reflexivity. Qed.

Lemma RR_step s o v th e s' : RR cs s o v -> step s (th, e) = Some s' ->
  RR cs s' (obs_step cs o (th, e)) (rv_step v (th, e)) /\ mon_reg cs v (th, e) = true.
Proof.
  intros [HR HV Hreg Hknown Hlast Hcall] H.
  pose proof (Rc_step cs s o th e s' HR H) as HR'.
  pose proof (View_step cs o (rv_lv v) (th, e) HV) as HV'.
  unfold step in H. cbn [fst snd] in H.
  assert (HR0 : Rc cs (flush th s) o) by (eapply Rc_sys_same; [exact HR|apply sys_same_flush]).
  assert (Hreg0 : running (flush th s) = rv_reg v) by now rewrite flush_running.
  assert (Hknown0 : forall n i, get n (running (flush th s)) = Some i -> has n cs = true) by (rewrite flush_running; exact Hknown).
  assert (Hlast0 : forall th', lr_of (flush th s) th' = get th' (rv_last v)) by (intros; rewrite lr_of_flush; apply Hlast).
  assert (Hcall0 : forall th', phase2 cs (get th' (rv_call v)) (apc_of (flush th s) th') = true) by (intros; rewrite apc_of_flush; apply Hcall).
  assert (Hc0 : confs (flush th s) = cs) by apply (rc_confs _ _ _ HR0).
  set (s0 := flush th s) in *. clearbody s0. clear HR Hreg Hknown Hlast Hcall s.
  pose proof (step_core_apc _ _ _ _ H) as Hapc. pose proof (step_core_lr _ _ _ _ H) as Hlr.
  (* the registry *)
  assert (Hreg' : running s' = rv_reg (rv_step v (th, e)) /\
                  (match e with ERegGet n r => opt_eqb N.eqb r (get n (rv_reg v)) | _ => true end) = true).
  { destruct (reg_event e) eqn:Hre.
    - destruct e; try discriminate Hre; (split; [|reflexivity]); cbn in H; unfold step_reg in H.
      + (* ERegAdd *) break_step H. subst s'. unfold rv_step, set_stage. cbn. now rewrite Hreg0.
      + (* ERegDel *) destruct (get i (insts s0)) as [x|] eqn:Ex; [|discriminate]. break_step H. subst s'.
        unfold rv_step. cbn. destruct HV as [_ Vi]. rewrite Vi.
        destruct (rc_inst _ _ _ HR0 i x Ex) as (xo & Exo & Hn & _). rewrite Exo. cbn. now rewrite Hn, Hreg0.
    - rewrite rv_reg_step_other by assumption. rewrite (step_core_run _ _ _ _ Hre H). split; [exact Hreg0|].
      destruct e; try reflexivity. cbn in H. unfold step_reg in H. break_step H. split_andb. now rewrite <- Hreg0. }
  destruct Hreg' as [Hreg' Hmreg].
  assert (Hknown' : forall n i, get n (running s') = Some i -> has n cs = true).
  { destruct (reg_event e) eqn:Hre.
    - destruct e; try discriminate Hre; cbn in H; unfold step_reg in H;
        (destruct (get i (insts s0)) as [x|] eqn:Ex; [|discriminate]); break_step H; subst s'; intros n0 i0; unfold set_stage; cbn.
      + rewrite get_set. destruct (N.eqb_spec n n0); [|apply Hknown0]. subst n0. intros _. split_andb.
        destruct (rc_inst _ _ _ HR0 i x Ex) as (xo & _ & _ & Hcf & _). unfold has. subst n. now rewrite Hcf.
      + rewrite get_del. destruct (N.eqb (nm x) n0); [discriminate|apply Hknown0].
    - rewrite (step_core_run _ _ _ _ Hre H). exact Hknown0. }
  (* the lookup records *)
  assert (Hlast' : forall th', lr_of s' th' = get th' (rv_last (rv_step v (th, e)))).
  { intros th'. destruct (lr_event e) eqn:Hle.
    - destruct e; try discriminate Hle. unfold rv_step. cbn [rv_last fst snd]. rewrite get_set.
      destruct (N.eqb_spec th th').
      + subst th'. cbn in H. unfold step_reg in H. break_step H. subst s'. unfold lr_of. now rewrite get_thread_set_thread, N.eqb_refl.
      + rewrite (Hlr th') by (right; congruence). apply Hlast0.
    - rewrite rv_last_step_other by assumption. rewrite (Hlr th') by (left; reflexivity). apply Hlast0. }
  (* the calls *)
  assert (Hth : phase2 cs (kc_next (get th (rv_call v)) (get th (rv_last v)) e) (apc_of s' th) = true /\
                mon_k cs (get th (rv_call v)) (get th (rv_last v)) e = true).
  { rewrite <- (Hlast0 th). specialize (Hcall0 th).
    destruct (api_event e) eqn:Ha.
    - destruct e; try discriminate Ha; unfold step_core in H;
        try (now apply (RR_api_step s0 th _ s' _ Hc0 H)).
      split; [|reflexivity]. cbn [kc_next]. apply (RR_unlocked_step s0 th s' _ H). exact Hcall0.
    - rewrite kc_next_id, mon_k_id by assumption. rewrite (Hapc th) by (left; reflexivity). auto. }
  destruct Hth as [Hth Hmk].
  split.
  - constructor; auto.
    intros th'. unfold rv_step. cbn [rv_call fst snd]. destruct (N.eqb_spec th' th).
    + subst th'. now rewrite get_setopt_same.
    + rewrite get_setopt_other by congruence. rewrite (Hapc th') by (right; assumption). apply Hcall0.
  - unfold mon_reg. cbn [fst snd]. now rewrite Hmreg, Hmk.
Qed.
End RegStep.

(* ---- along accepted histories ----------------------------------------------------------------------------- *)
Lemma accept_RR cs : forall evs s o v s', RR cs s o v -> accept s evs = Some s' ->
  RR cs s' (fold_left (obs_step cs) evs o) (fold_left rv_step evs v).
Proof.
  induction evs as [|[th e] evs IH]; intros s o v s' HR H; cbn in *.
  - now injection H as <-.
  - destruct (step s (th, e)) as [s1|] eqn:Es; [|discriminate].
    eapply IH; [|exact H]. apply (RR_step cs s o v th e s1 HR Es).
Qed.

Lemma reg_run cs : forall evs s o v s', RR cs s o v -> accept s evs = Some s' ->
  forall pre e post, evs = pre ++ e :: post -> mon_reg cs (fold_left rv_step pre v) e = true.
Proof.
  induction evs as [|[th a] evs IH]; intros s o v s' HR Hacc pre e post E.
  - destruct pre; discriminate E.
  - cbn in Hacc. destruct (step s (th, a)) as [s1|] eqn:Es; [|discriminate].
    destruct (RR_step cs s o v th a s1 HR Es) as [HR1 Hm].
    destruct pre as [|b pre]; cbn in E.
    + injection E as <- _. exact Hm.
    + injection E as <- E. cbn. eapply IH; eauto.
Qed.

Theorem C08_reg_lemma : forall cs ord evs s, accept (init cs ord) evs = Some s ->
  forall pre e post, evs = pre ++ e :: post -> mon_reg cs (rv_of pre) e = true.
Proof.
  intros cs ord evs s Hacc pre e post E.
  exact (reg_run cs evs _ _ _ s (RR_init cs ord) Hacc pre e post E).
Qed.

Lemma accept_prefix_app : forall pre s post s', accept s (pre ++ post) = Some s' -> exists s1, accept s pre = Some s1.
Proof.
  induction pre as [|a pre IH]; intros s post s' H; cbn in *; [eauto|].
  destruct (step s a) as [sa|]; [|discriminate]. eauto.
Qed.

(* only configured names are ever registered *)
Theorem C08_registered_known_lemma : forall cs ord evs s, accept (init cs ord) evs = Some s ->
  forall pre post, evs = pre ++ post -> forall n i, get n (rv_reg (rv_of pre)) = Some i -> has n cs = true.
Proof.
  intros cs ord evs s Hacc pre post -> n i Hn.
  destruct (accept_prefix_app _ _ _ _ Hacc) as (s1 & H1).
  pose proof (accept_RR cs pre _ _ _ _ (RR_init cs ord) H1) as HR.
  apply (rr_known _ _ _ _ HR n i). now rewrite (rr_reg _ _ _ _ HR).
Qed.

(* ---- where in the history the view's records come from (pure facts about the view) ------------------------- *)
Lemma rv_of_snoc l a : rv_of (l ++ [a]) = rv_step (rv_of l) a.
Proof. unfold rv_of. now rewrite fold_left_app. Qed.
Lemma cv_of_snoc l a : cv_of (l ++ [a]) = cv_step (cv_of l) a.
Proof. unfold cv_of. now rewrite fold_left_app. Qed.

Definition later_lookup (th : tid) (te : tid * event) : bool := N.eqb (fst te) th && lr_event (snd te).

(* the recorded last lookup of a thread IS its last ERegGet *)
Lemma last_lookup_pos : forall pre th n r, get th (rv_last (rv_of pre)) = Some (n, r) ->
  exists pre0 mid, pre = pre0 ++ (th, ERegGet n r) :: mid /\ forallb (fun te => negb (later_lookup th te)) mid = true.
Proof.
  induction pre as [|[th' e] l IH] using rev_ind; intros th n r H; [discriminate H|].
  rewrite rv_of_snoc in H.
  assert (Hstep : (exists n' r', e = ERegGet n' r' /\ th' = th /\ (n', r') = (n, r)) \/
                  (later_lookup th (th', e) = false /\ get th (rv_last (rv_of l)) = Some (n, r))).
  { unfold later_lookup. cbn [fst snd]. destruct (lr_event e) eqn:Hle.
    - destruct e; try discriminate Hle. unfold rv_step in H. cbn [rv_last fst snd] in H. rewrite get_set in H.
      destruct (N.eqb_spec th' th); [left; injection H as <- <-; eauto 6|right; split; [reflexivity|exact H]].
    - right. rewrite andb_false_r. split; [reflexivity|]. now rewrite rv_last_step_other in H by assumption. }
  destruct Hstep as [(n' & r' & -> & -> & E)|[Hl H0]].
  - injection E as -> ->. exists l, []. split; reflexivity.
  - destruct (IH th n r H0) as (pre0 & mid & -> & Hm). exists pre0, (mid ++ [(th', e)]). split.
    + now rewrite <- app_assoc.
    + apply forallb_forall. intros x Hx. apply in_app_or in Hx. destruct Hx as [Hx|[<-|[]]].
      * rewrite forallb_forall in Hm. now apply Hm.
      * now rewrite Hl.
Qed.

(* the lookup recorded in a call record was the thread's last lookup at one of its *_checked trace points *)
Lemma check_pos : forall pre th k lk, get th (rv_call (rv_of pre)) = Some k -> k_chk k = Some lk ->
  exists pre1 e1 mid1, pre = pre1 ++ (th, e1) :: mid1 /\ get th (rv_last (rv_of pre1)) = Some lk.
Proof.
  induction pre as [|[th' e] l IH] using rev_ind; intros th k lk H Hk; [discriminate H|].
  rewrite rv_of_snoc in H. unfold rv_step in H. cbn [rv_call fst snd] in H.
  assert (Hcase : (th' = th /\ get th (rv_last (rv_of l)) = Some lk) \/
                  (exists k0, get th (rv_call (rv_of l)) = Some k0 /\ k_chk k0 = Some lk)).
  { destruct (N.eqb_spec th' th).
    - subst th'. rewrite get_setopt_same in H.
      destruct e; cbn [kc_next] in H; try (right; exists k; split; assumption);
        try discriminate H;
        try (destruct (get th (rv_call (rv_of l))) as [k0|]; [|discriminate H]; injection H as <-; cbn in Hk; eauto; fail).
      injection H as <-. discriminate Hk.
    - rewrite get_setopt_other in H by assumption. right. eauto. }
  destruct Hcase as [[-> Hl]|(k0 & H0 & Hk0)].
  - exists l, e, []. auto.
  - destruct (IH th k0 lk H0 Hk0) as (pre1 & e1 & mid1 & -> & Hl). exists pre1, e1, (mid1 ++ [(th', e)]).
    split; [now rewrite <- app_assoc|exact Hl].
Qed.

(* the call view of CallC08 and the call record here describe the same call *)
Lemma cv_rv_op : forall pre th c, get th (cv_of pre) = Some c ->
  exists k, get th (rv_call (rv_of pre)) = Some k /\ k_op k = c_op c.
Proof.
  induction pre as [|[th' e] l IH] using rev_ind; intros th c H; [discriminate H|].
  rewrite cv_of_snoc in H. rewrite rv_of_snoc. unfold rv_step. cbn [rv_call fst snd].
  destruct (N.eqb_spec th' th).
  2:{ rewrite cv_step_other in H by congruence. rewrite get_setopt_other by assumption. now apply IH. }
  subst th'. rewrite get_setopt_same.
  unfold cv_step, cv_upd in H. cbn [fst snd] in H.
  destruct e; cbn [kc_next]; try (now apply IH);
    try (destruct (get th (cv_of l)) as [c0|] eqn:Ec; [|rewrite Ec in H; discriminate H];
         rewrite get_set_same in H; injection H as <-;
         destruct (IH th c0 Ec) as (k0 & -> & Hop); eexists; split; [reflexivity|exact Hop]; fail).
  - rewrite get_set_same in H. injection H as <-. eexists; split; reflexivity.
  - rewrite get_del_same in H. discriminate H.
Qed.

(* ---- the theorems ---------------------------------------------------------------------------------------- *)
(* every registry lookup returns what is registered *)
Theorem C08_lookup_truthful_lemma : forall cs ord evs s, accept (init cs ord) evs = Some s ->
  forall pre th n r post, evs = pre ++ (th, ERegGet n r) :: post -> r = get n (rv_reg (rv_of pre)).
Proof.
  intros cs ord evs s Hacc pre th n r post E.
  pose proof (C08_reg_lemma cs ord evs s Hacc pre _ post E) as H. unfold mon_reg in H. cbn [fst snd] in H.
  apply andb_true_iff in H. destruct H as [H _]. now apply opt_eqb_N_eq in H.
Qed.

(* the lookup on which a returning call was decided: a position in the history, and truthful *)
Lemma decided_lookup cs ord evs s : accept (init cs ord) evs = Some s ->
  forall pre th e post, evs = pre ++ (th, e) :: post ->
  forall k n r, get th (rv_call (rv_of pre)) = Some k -> k_chk k = Some (n, r) ->
  exists pre0 mid, pre = pre0 ++ (th, ERegGet n r) :: mid /\ r = get n (rv_reg (rv_of pre0)).
Proof.
  intros Hacc pre th e post E k n r Hk Hc.
  destruct (check_pos pre th k (n, r) Hk Hc) as (pre1 & e1 & mid1 & -> & Hl).
  destruct (last_lookup_pos pre1 th n r Hl) as (pre0 & mid & -> & _).
  exists pre0, (mid ++ (th, e1) :: mid1). split.
  - now rewrite <- app_assoc.
  - eapply (C08_lookup_truthful_lemma cs ord evs s Hacc pre0 th n r). rewrite E.
    repeat (rewrite <- app_assoc; cbn [app]). reflexivity.
Qed.

Ltac ret_facts Hacc E Hc Hop :=
  match type of Hc with get ?th (cv_of ?pre) = Some ?c =>
    let k := fresh "k" in let Hk := fresh "Hk" in let Hko := fresh "Hko" in let Hm := fresh "Hm" in
    destruct (cv_rv_op pre th c Hc) as (k & Hk & Hko);
    pose proof (C08_reg_lemma _ _ _ _ Hacc pre _ _ E) as Hm;
    unfold mon_reg in Hm; cbn [fst snd] in Hm; apply andb_true_iff in Hm; destruct Hm as [_ Hm];
    unfold mon_k in Hm; rewrite Hk in Hm; rewrite Hko, Hop in Hm
  end.

(* StartProcess(n): "launches a new instance iff none is active, otherwise fails without side effects;
   unknown names fail and change nothing" *)
Theorem C08_start_registered_lemma : forall cs ord evs s, accept (init cs ord) evs = Some s ->
  forall pre th ok post, evs = pre ++ (th, EApiReturn ok) :: post ->
  forall c n, get th (cv_of pre) = Some c -> c_op c = OpStart n ->
  exists pre0 mid r,
    pre = pre0 ++ (th, ERegGet n r) :: mid /\ r = get n (rv_reg (rv_of pre0)) /\
    (ok = true <-> r = None /\ has n cs = true) /\
    c_spawned c = (if ok then 1 else 0) /\ (ok = false -> c_created c = 0) /\ c_stops c = 0.
Proof.
  intros cs ord evs s Hacc pre th ok post E c n Hc Hop.
  destruct (C08_start_call_lemma cs ord evs s Hacc pre th ok post E c n Hc Hop) as (_ & Hsp & Hcr & Hst).
  ret_facts Hacc E Hc Hop.
  destruct (k_chk k) as [[n' r]|] eqn:Hchk; [|discriminate Hm].
  apply andb_true_iff in Hm. destruct Hm as [Hm _]. apply andb_true_iff in Hm. destruct Hm as [Hn Hok].
  apply N.eqb_eq in Hn. subst n'. apply Bool.eqb_prop in Hok.
  destruct (decided_lookup cs ord evs s Hacc pre th _ post E k n r Hk Hchk) as (pre0 & mid & Hpre & Hr).
  exists pre0, mid, r. split; [exact Hpre|]. split; [exact Hr|]. split; [|auto]. subst ok. split.
  - intros Hx. apply andb_true_iff in Hx. destruct Hx as [Hx1 Hx2]. split; [destruct r; [discriminate Hx1|reflexivity]|exact Hx2].
  - intros [-> Hh]. now rewrite Hh.
Qed.

(* StopProcess(n): succeeds iff an instance was registered under n when it looked; a failing stop requested no stop *)
Theorem C08_stop_registered_lemma : forall cs ord evs s, accept (init cs ord) evs = Some s ->
  forall pre th ok post, evs = pre ++ (th, EApiReturn ok) :: post ->
  forall c n, get th (cv_of pre) = Some c -> c_op c = OpStop n ->
  exists pre0 mid r,
    pre = pre0 ++ (th, ERegGet n r) :: mid /\ r = get n (rv_reg (rv_of pre0)) /\
    (ok = true <-> r <> None) /\
    c_spawned c = 0 /\ c_created c = 0 /\ (ok = false -> c_stops c = 0).
Proof.
  intros cs ord evs s Hacc pre th ok post E c n Hc Hop.
  destruct (C08_stop_call_lemma cs ord evs s Hacc pre th ok post E c n Hc Hop) as (_ & Hsp & Hcr & Hst).
  ret_facts Hacc E Hc Hop.
  destruct (k_chk k) as [[n' r]|] eqn:Hchk; [|discriminate Hm].
  apply andb_true_iff in Hm. destruct Hm as [Hm _]. apply andb_true_iff in Hm. destruct Hm as [Hn Hok].
  apply N.eqb_eq in Hn. subst n'. apply Bool.eqb_prop in Hok.
  destruct (decided_lookup cs ord evs s Hacc pre th _ post E k n r Hk Hchk) as (pre0 & mid & Hpre & Hr).
  exists pre0, mid, r. split; [exact Hpre|]. split; [exact Hr|]. split; [|auto]. subst ok.
  destruct r; cbn; split; try congruence; auto.
Qed.

(* RestartProcess(n): succeeds iff n is configured, then exactly one new instance; unknown names fail,
   create nothing and request no stop *)
Theorem C08_restart_registered_lemma : forall cs ord evs s, accept (init cs ord) evs = Some s ->
  forall pre th ok post, evs = pre ++ (th, EApiReturn ok) :: post ->
  forall c n, get th (cv_of pre) = Some c -> c_op c = OpRestart n ->
  exists pre0 mid r,
    pre = pre0 ++ (th, ERegGet n r) :: mid /\ r = get n (rv_reg (rv_of pre0)) /\
    ok = has n cs /\ c_spawned c = (if ok then 1 else 0) /\ (ok = false -> c_created c = 0 /\ r = None).
Proof.
  intros cs ord evs s Hacc pre th ok post E c n Hc Hop.
  destruct (C08_restart_call_lemma cs ord evs s Hacc pre th ok post E c n Hc Hop) as (Hok & Hsp & Hcr & _).
  ret_facts Hacc E Hc Hop.
  destruct (k_chk k) as [[n' r]|] eqn:Hchk; [|discriminate Hm].
  apply andb_true_iff in Hm. destruct Hm as [Hm _]. apply andb_true_iff in Hm. destruct Hm as [Hn _].
  apply N.eqb_eq in Hn. subst n'.
  destruct (decided_lookup cs ord evs s Hacc pre th _ post E k n r Hk Hchk) as (pre0 & mid & Hpre & Hr).
  exists pre0, mid, r. split; [exact Hpre|]. split; [exact Hr|]. split; [exact Hok|]. split; [exact Hsp|].
  intros Hf. split; [now apply Hcr|]. destruct r as [i|]; [|reflexivity]. exfalso.
  assert (Hkn : has n cs = true).
  { apply (C08_registered_known_lemma cs ord evs s Hacc pre0 ((th, ERegGet n (Some i)) :: mid ++ (th, EApiReturn ok) :: post)) with (n := n) (i := i).
    - rewrite E, Hpre. repeat (rewrite <- app_assoc; cbn [app]). reflexivity.
    - now rewrite <- Hr. }
  congruence.
Qed.

(* a stop is requested (ENoRestart i) only inside StopProcess(n) / RestartProcess(n), and exactly for the
   instance i that was registered under n when the call looked it up *)
Theorem C08_stop_target_lemma : forall cs ord evs s, accept (init cs ord) evs = Some s ->
  forall pre th i post, evs = pre ++ (th, ENoRestart i) :: post ->
  exists k n pre0 mid,
    get th (rv_call (rv_of pre)) = Some k /\ (k_op k = OpStop n \/ k_op k = OpRestart n) /\
    pre = pre0 ++ (th, ERegGet n (Some i)) :: mid /\ get n (rv_reg (rv_of pre0)) = Some i.
Proof.
  intros cs ord evs s Hacc pre th i post E.
  pose proof (C08_reg_lemma cs ord evs s Hacc pre _ post E) as Hm.
  unfold mon_reg in Hm. cbn [fst snd] in Hm. apply andb_true_iff in Hm. destruct Hm as [_ Hm].
  unfold mon_k in Hm. destruct (get th (rv_call (rv_of pre))) as [k|] eqn:Hk; [|discriminate Hm].
  destruct (k_chk k) as [[n' [i'|]]|] eqn:Hchk; try (destruct (k_op k); discriminate Hm).
  assert (Hop : exists n, (k_op k = OpStop n \/ k_op k = OpRestart n) /\ n = n' /\ i = i').
  { destruct (k_op k) as [|n|n|n|] eqn:Eo; try discriminate Hm;
      apply andb_true_iff in Hm; destruct Hm as [A B]; apply N.eqb_eq in A, B; exists n; auto. }
  destruct Hop as (n & Hop & <- & <-).
  destruct (decided_lookup cs ord evs s Hacc pre th _ post E k n (Some i) Hk Hchk) as (pre0 & mid & Hpre & Hr).
  exists k, n, pre0, mid. auto.
Qed.
