(* More effect lemmas for the C04 proof: the thread of the event, guards implied by acceptance, flush,
   and the observer side. *)
From Coq Require Import List ZArith NArith Bool Lia.
From RecordUpdate Require Import RecordSet.
From PC.Base Require Import Assoc.
From PC.Sup Require Import Model Monitors Tactics Sim ObsFacts Effects RelCore LemC04.
Import ListNotations RecordSetNotations.

(* the thread of the event *)
Definition thr_eff (s : sys) (th : tid) (e : event) (s' : sys) : Prop :=
  (pend (get_thread s th) = None -> pk (pend (get_thread s' th)) = pk_next e) /\
  (dpc (get_thread s th) = DNone -> e <> EShutdownCall -> dpc (get_thread s' th) = DNone) /\
  (has th (thinst s) = true -> apc (get_thread s th) = ANone -> apc (get_thread s' th) = ANone).

Ltac thr_tac :=
  unfold thr_eff; destr_state; sup_simpl;
  (split; [intros ?Hp|split; [intros ?Hd ?Hne|intros ?Hh ?Ha]]);
  try (exfalso; match goal with H : _ <> EShutdownCall |- _ => apply H; reflexivity end);
  try congruence;
  unfold get_thread in *; sup_simpl; cbn -[get Assoc.set N.eqb] in *; rewrite ?N.eqb_refl; cbn -[get Assoc.set N.eqb];
  try reflexivity; try congruence;
  try (match goal with H : pend _ = None |- _ => rewrite H end; reflexivity);
  try (repeat match goal with |- context[if ?b then _ else _] => destruct b end; reflexivity).

Lemma own_thr s th e s' : step_own s th e = Some s' -> thr_eff s th e s'.
Proof. intros H. destruct e; kind_cases H; thr_tac.
Qed.
Lemma reg_thr s th e s' : step_reg s th e = Some s' -> thr_eff s th e s'.
Proof. intros H. destruct e; kind_cases H; thr_tac. Qed.
Lemma stop_thr s th e s' : step_stop s th e = Some s' -> thr_eff s th e s'.
Proof. intros H. destruct e; kind_cases H; thr_tac.

Qed.
Lemma state_thr s th i s0 s' : step_state s th i s0 = Some s' -> thr_eff s th (EState i s0) s'.
Proof. intros H. kind_cases H; thr_tac. Qed.
Lemma procend_thr s th i s0 b s' : step_procend s th i s0 b = Some s' -> thr_eff s th (if b then EProcEnd i s0 else EProcEnded i s0) s'.
Proof. intros H. destruct b; kind_cases H; thr_tac. Qed.
Lemma ordered_thr s th i s' : step_ordered_go s th i = Some s' -> thr_eff s th (EOrderedGo i) s'.
Proof. intros H. kind_cases H; thr_tac. Qed.
Lemma env_thr s th e s' : step_env s th e = Some s' -> thr_eff s th e s'.
Proof. intros H. destruct e; kind_cases H; thr_tac. Qed.
Lemma shutdown_thr s th e s' : step_shutdown s th e = Some s' -> thr_eff s th e s'.
Proof. intros H. destruct e; kind_cases H; try thr_tac.
  now rewrite Ha.
Qed.
Lemma api_thr s th e s' : step_api s th e = Some s' -> thr_eff s th e s'.
Proof. intros H. destruct e; kind_cases H; thr_tac.
  all: match goal with H1 : has _ _ = true, H2 : negb (has _ _) = true |- _ => rewrite H1 in H2; discriminate H2 end.
Qed.

Lemma core_thr s th e s' : step_core s th e = Some s' -> thr_eff s th e s'.
Proof.
  intros H. destruct (step_core_kind _ _ _ _ H) as [? ?|i x ? ? ? ? ? ?|Hk|Hk|Hk|i s0 ? Hk|i s0 b ? Hk|Hk|i ? Hk|Hk|Hk]; subst.
  - repeat split; auto. intros Hp. now rewrite Hp.
  - repeat split; auto. intros Hp. unfold get_thread in *. cbn. now rewrite Hp.
  - now apply reg_thr.
  - now apply api_thr.
  - now apply stop_thr.
  - now apply state_thr.
  - now apply procend_thr.
  - now apply shutdown_thr.
  - now apply ordered_thr.
  - now apply env_thr.
  - now apply own_thr.
Qed.



(* ---- guards implied by acceptance ---- *)
Ltac own_break H :=
  cbn in H; unfold step_own, own_inst in H; break_step H;
  repeat match goal with E : (match _ with _ => _ end) = Some _ |- _ => break_step E end;
  repeat match goal with E : (_, _) = (_, _) |- _ => injection E as ? ?; subst end.

Lemma core_pre s th e s' c : step_core s th e = Some s' -> cl_pre e = Some c ->
  exists i x, get th (thinst s) = Some i /\ get i (insts s) = Some x /\ cl (pc x) = c.
Proof.
  intros H Hc. destruct e; cbn in Hc; try discriminate Hc; injection Hc as <-; own_break H; subst;
  (do 2 eexists; split; [first [eassumption|reflexivity]|split; [eassumption|]]);
  match goal with E : pc _ = _ |- _ => rewrite E end; reflexivity.
Qed.

Lemma g_waitret s th c s' : step_core s th (EWaitReturn c) = Some s' ->
  exists i x, get th (thinst s) = Some i /\ get i (insts s) = Some x /\ exited x = Some c.
Proof.
  intros H. own_break H. subst.
  do 2 eexists; split; [first [eassumption|reflexivity]|split; [eassumption|]].
  destruct (exited _) as [c'|]; cbn in *; [|discriminate].
  match goal with E : Z.eqb _ _ = true |- _ => apply Z.eqb_eq in E; now subst end.
Qed.

Lemma g_cmdexit s th i c s' : step_core s th (ECmdExit i c) = Some s' ->
  exists x, get i (insts s) = Some x /\ alive x = true.
Proof. intros H. cbn in H. break_step H. eauto. Qed.

Lemma g_runret s th c s' : step_core s th (ERunReturn c) = Some s' -> wg s = 0 /\ c = proj_code s.
Proof.
  intros H. cbn in H. break_step H. split_andb. apply Nat.eqb_eq in H0. auto.
Qed.

Lemma g_sdcall s th s' : step_core s th EShutdownCall = Some s' ->
  apc (get_thread s th) = AShutdown \/
  exists i x c, get th (thinst s) = Some i /\ get i (insts s) = Some x /\ pc x = ITriggered c.
Proof.
  intros H. cbn in H. unfold own_inst in H. break_step H.
  destruct (apc (get_thread s th)); auto; right;
    destruct (get th (thinst s)) as [ii|] eqn:Eii; try discriminate;
    destruct (get ii (insts s)) as [xx|] eqn:Exx; try discriminate;
    destruct (pc xx) eqn:Ep; try discriminate; eauto 6.
Qed.

Lemma g_sdorder s th l s' : step_core s th (EShutdownOrder l) = Some s' -> dpc (get_thread s th) = DBegun.
Proof. intros H. unfold step_core, step_shutdown in H. break_step H.
reflexivity. Qed.

Lemma g_begin s th i s' : step_core s th (EBegin i) = Some s' ->
  exists x, get i (insts s) = Some x /\ get th (thinst s) = None /\ get th (threads s) = None /\
            (forall t j, get t (thinst s) = Some j -> j <> i).
Proof.
  intros H. unfold step_core in H. break_step H. split_andb. unfold has in *.
  destruct (get th (thinst s)) eqn:E3; [discriminate|]. destruct (get th (threads s)) eqn:E4; [discriminate|].
  eexists; repeat split; eauto using forallb_thinst_neq.
Qed.

(* ---- flush ---- *)
Lemma flush_spec th s :
  thinst (flush th s) = thinst s /\
  (forall j, match get j (insts s) with
             | Some x => exists x', get j (insts (flush th s)) = Some x' /\ pc x' = pc x /\ alive x' = alive x /\ exited x' = exited x
             | None => get j (insts (flush th s)) = None end) /\
  (forall th', get_thread (flush th s) th' = if N.eqb th th' then get_thread s th <| pend := None |> else get_thread s th') /\
  wg (flush th s) = (match pk (pend (get_thread s th)) with PW => pred (wg s) | _ => wg s end) /\
  code_set (flush th s) = (match pk (pend (get_thread s th)) with PC _ => true | _ => code_set s end) /\
  proj_code (flush th s) = (match pk (pend (get_thread s th)) with PC c => if code_set s then proj_code s else c | _ => proj_code s end).
Proof.
  split; [apply flush_thinst|]. split.
  { intros j. pose proof (flush_insts th s j) as H. destruct (get j (insts s)) as [x|]; [|exact H].
    destruct H as (x' & E & L). exists x'. unfold inst_latch_le in L. intuition congruence. }
  unfold flush, get_thread. destruct (get th (threads s)) as [t|] eqn:Et.
  2:{ cbn. repeat split. intros th'. destruct (N.eqb_spec th th'); [subst; now rewrite Et|reflexivity]. }
  destruct (pend t) as [r|] eqn:Ep.
  2:{ cbn. repeat split. intros th'. destruct (N.eqb_spec th th'); [subst; rewrite Et; destruct t; cbn in *; now subst|reflexivity]. }
  split.
  { intros th'. destruct r; unfold apply_release; try destruct (code_set _); sup_simpl; cbn -[get N.eqb];
      rewrite ?get_set; destruct (N.eqb th th'); reflexivity. }
  destruct r; unfold apply_release; sup_simpl; cbn; try (repeat split; reflexivity).
  destruct (code_set s) eqn:Ec; cbn; repeat split; auto.
Qed.
