(* Property monitors for the supervisor core: observers over recorded event histories.
   They are independent of [Model.step]: an observer only folds the events it understands into a small
   record of facts (who was launched, who exited with what, who ended, who was asked to stop ...) and a
   monitor is a check evaluated at each event on the facts accumulated BEFORE it.
   [holds_Cxx confs evs = true] means the property text was not contradicted anywhere in the history.
   The checks use them (a) on the implementation's histories when the correspondence breaks, to find a
   concrete failing history, and (b) as the statements of the theorems in Props/Cxx.v:
   accepted histories satisfy them. *)
From Coq Require Import List ZArith NArith Bool.
From RecordUpdate Require Import RecordSet.
From PC.Base Require Import Assoc.
From PC.Sup Require Import Model.
Import ListNotations RecordSetNotations.

(* ---- facts per instance ---------------------------------------------------------------------------- *)
Record oinst := mkOI {
  o_nm : name;
  o_idx : nat;                 (* registration order *)
  o_launches : nat;            (* successful Commander.Start() calls *)
  o_alive : bool;              (* a command was started and has not exited *)
  o_code : option Z;           (* exit code of the last command that exited *)
  o_endst : option status;     (* onProcessEnd(status) entered *)
  o_ended : bool;              (* ... and its status write happened *)
  o_started : bool;            (* released from its own dependencies (onProcessStart) *)
  o_stopreq : bool;            (* a stop of this instance or a shutdown including it was requested *)
  o_logok : bool;              (* its ready line was seen *)
  o_succ : bool;               (* it had ended and the reported exit code of its name was 0 *)
  o_depfail : bool;            (* one of its dependency waits reported failure *)
  o_elapsed : bool;            (* a back-off elapsed since its last exit *)
  o_sigs : nat;                (* stop signals delivered to its commands *)
  o_insnap : bool;             (* it was in the snapshot of a shutdown *)
  o_sd_victim : bool;          (* ... already when its last command exited *)
  o_byapi : bool;              (* spawned by StartProcess / RestartProcess (not by Run) *)
  o_gone : bool;               (* its goroutine reached inst_exit *)
  o_commit : bool;             (* passed its "am I being terminated" check / back-off, launch is next *)
  o_reg : bool;                (* addRunningProcess happened: o_idx is its registration index (first ERegAdd) *)
  o_waits : list (name * option iid * nat) }.
                               (* per dependency name: the instance its lookup returned (dep_wait), or None together
                                  with the registration counter at the moment its running-registry lookup missed *)
#[export] Instance eta_oinst : Settable _ :=
  settable! mkOI <o_nm; o_idx; o_launches; o_alive; o_code; o_endst; o_ended; o_started; o_stopreq; o_logok; o_succ; o_depfail; o_elapsed; o_sigs; o_insnap; o_sd_victim; o_byapi; o_gone; o_commit; o_reg; o_waits>.

Record oname := mkON { r_status : status; r_code : Z; r_ready : bool (* Health was Ready at some time *);
                       r_restarts : nat (* reported restart counter of the name *) }.
#[export] Instance eta_oname : Settable _ := settable! mkON <r_status; r_code; r_ready; r_restarts>.

Record obs := mkObs {
  oi : amap oinst;
  onm : amap oname;
  o_cnt : nat;
  o_th : amap iid;                  (* thread -> instance (EBegin) *)
  o_api : amap apiop;               (* thread -> API call in progress *)
  o_sd_done : nat;                  (* completed ShutDownProject calls *)
  o_sd_snap : list iid;             (* union of the snapshots of completed shutdowns *)
  o_sd_cur : amap (list iid);       (* thread -> snapshot of its shutdown in progress *)
  o_triggers : list (iid * Z * bool); (* exit_trigger events: instance, code, was a shutdown victim *)
  o_run_ret : option Z;
  o_after_sd_spawn : list iid;
  o_stopstage : amap bool;          (* thread -> its stop execution has only passed stop_enter so far *)
  o_stopinst : amap (option iid);   (* thread -> instance whose status its stop execution is about to read *)
  o_instop : amap iid;              (* thread -> instance it is executing stopProcess on (stop_enter .. stop_return) *)
  o_spawning : bool;                (* Run() is inside its spawn loop *)
  o_api_sd_first : bool;            (* a shutdown requested through the API took its snapshot before the project exit code was fixed *)
  (* the known check-then-act windows (known_findings.json); sticky *)
  w_commit : bool;   (* F20/F21: a stop concluded "not running" for an instance already committed to launch *)
  w_late : bool;     (* F26: a stop wrote Terminating after the instance had reached a terminal status *)
  w_sdspawn : bool;  (* F22: a shutdown took its snapshot while Run() was still spawning *)
  w_dup : bool;      (* F25: a second instance of a name was registered while an earlier one had not ended *)
  w_sdlag : bool;    (* F37: an instance committed to (re)launching after a shutdown/stop request but before its stop began *)
  w_zombie : bool;   (* F38: a new instance of a name was created while the goroutine of an ended one still lives *)
  w_stale : bool;    (* F32: a stop did nothing on an instance that is still waiting for its dependencies *)
  (* is the project exit code already fixed (exitCodeOnce.Do has run)?  It directly follows the exit_trigger
     trace point, so it has run as soon as a goroutine that logged exit_trigger logs anything else *)
  o_trig_th : list tid;             (* goroutines that have logged an exit_trigger *)
  o_code_fixed : bool;
  o_lk : amap (name * nat) }.       (* thread -> (name, registration counter) of its last getRunningProcess miss *)            (* ... and one of them has moved on since (resume / shutdown_call / exit_code_set); sticky *)    (* instances registered by an explicit start request after the last completed shutdown *)
#[export] Instance eta_obs : Settable _ :=
  settable! mkObs <oi; onm; o_cnt; o_th; o_api; o_sd_done; o_sd_snap; o_sd_cur; o_triggers; o_run_ret; o_after_sd_spawn; o_stopstage; o_stopinst; o_instop; o_spawning; o_api_sd_first; w_commit; w_late; w_sdspawn; w_dup; w_sdlag; w_zombie; w_stale; o_trig_th; o_code_fixed; o_lk>.

Definition obs0 (cs : amap pconf) : obs :=
  mkObs [] (map (fun p => (fst p, mkON (if deferred (snd p) then SDisabled else SPending) 0 false 0)) cs)
        0 [] [] 0 [] [] [] None [] [] [] [] false false false false false false false false false [] false [].

Definition oi_get (o : obs) (i : iid) : oinst :=
  match get i (oi o) with Some x => x
  | None => mkOI 0%N 0 0 false None None false false false false false false false 0 false false false false false false [] end.
Definition on_get (o : obs) (n : name) : oname :=
  match get n (onm o) with Some x => x | None => mkON SPending 0 false 0 end.
Definition oi_upd (i : iid) (f : oinst -> oinst) (o : obs) : obs :=
  match get i (oi o) with Some x => o <| oi := set i (f x) (oi o) |> | None => o end.
Definition on_upd (n : name) (f : oname -> oname) (o : obs) : obs :=
  match get n (onm o) with Some x => o <| onm := set n (f x) (onm o) |> | None => o end.

Definition terminal (s : status) : bool :=
  match s with SCompleted | SSkipped | SError => true | _ => false end.

(* the instance an event of thread th is about *)
Definition ev_inst (o : obs) (th : tid) (e : event) : option iid :=
  match e with
  | ENewInst i _ | ERegAdd i _ | ERegDel i | EDoneAdd i | ESpawn i _ | EBegin i | EState i _ | EProcEnd i _ | EProcEnded i _
  | ENoRestart i | EStopEnter i _ | EStopRunning i | EStopPending i | ESignal i _ _ | EStopReturn i
  | EOrderedGo i | ECmdExit i _ | EOutLine i _ | ELogReady i | EProbe i _ _ => Some i
  | _ => get th (o_th o)
  end.

(* a stop execution on instance i has passed stop_enter and not yet looked at the status *)
Definition stopping (o : obs) (i : iid) : bool :=
  existsb (fun p => match snd p with Some j => N.eqb i j | None => false end) (o_stopinst o).

(* an instance commits to (re)launching although a stop was requested: inside the stop execution it is
   the check-then-act window F20/F21; before the stop execution of that process has begun (a shutdown
   stops processes one after the other) it is the lag F37 *)
Definition note_late_commit (o : obs) (i : iid) : obs :=
  if o_stopreq (oi_get o i) then
    if stopping o i then o <| w_commit := true |> else o <| w_sdlag := true |>
  else o.

(* after every event: an ended instance whose name reports exit code 0 has "completed successfully" *)
Definition refresh_succ (o : obs) : obs :=
  o <| oi := map (fun p => let x := snd p in
                           (fst p, if o_ended x && (r_code (on_get o (o_nm x)) =? 0)%Z then x <| o_succ := true |> else x))
                 (oi o) |>.

Definition obs_step (cs : amap pconf) (o : obs) (te : tid * event) : obs :=
  let '(th, e) := te in
  let o1 :=
    match e, ev_inst o th e with
    | ENewInst i n, _ =>
        let byapi := match get th (o_api o) with Some OpRun | None => false | Some _ => true end in
        let dup := existsb (fun y => N.eqb (o_nm y) n && negb (o_ended y)) (vals (oi o)) in
        (o <| oi := set i (mkOI n (o_cnt o) 0 false None None false false false false false false false 0 false false byapi false false false []) (oi o) |>
           <| w_dup := w_dup o || dup |>
           <| w_zombie := w_zombie o || existsb (fun y => N.eqb (o_nm y) n && o_ended y && negb (o_gone y)) (vals (oi o)) |>
           <| o_cnt := S (o_cnt o) |>
           <| o_after_sd_spawn := if Nat.ltb 0 (o_sd_done o) && byapi then i :: o_after_sd_spawn o else o_after_sd_spawn o |>)
    | EBegin i, _ => o <| o_th := set th i (o_th o) |>
    | ERegAdd i _, _ =>
        (* the registration index is assigned at the FIRST addRunningProcess of the instance *)
        oi_upd i (fun x => x <| o_idx := if o_reg x then o_idx x else o_cnt o |> <| o_reg := true |>)
               (o <| o_cnt := S (o_cnt o) |>)
    | ERegGet n None, _ => o <| o_lk := set th (n, o_cnt o) (o_lk o) |>
    | EDepWait k found, Some i =>
        (* what getDoneOrRunningProcess(k) returned to the waiting instance; for a miss: everything registered
           before the running-registry lookup of this thread (if that lookup was not logged: before now) *)
        let b := match get th (o_lk o) with
                 | Some (k', b) => if N.eqb k' k then b else o_cnt o
                 | None => o_cnt o
                 end in
        oi_upd i (fun x => x <| o_waits := o_waits x ++ [(k, found, b)] |>) o
    | EApiBegin op, _ => o <| o_api := set th op (o_api o) |>
                           <| o_spawning := match op with OpRun => true | _ => o_spawning o end |>
    | ERunSpawned, _ => o <| o_spawning := false |>
    | EShutdownBegin, _ => o <| w_sdspawn := w_sdspawn o || o_spawning o |>
    | ERunChecked false, Some i =>
        (* the check passed although a stop had already been requested: same window *)
        oi_upd i (fun x => x <| o_commit := true |>) (note_late_commit o i)
    | EApiReturn _, _ => o <| o_api := del th (o_api o) |>
    | EStarted, Some i => oi_upd i (fun x => x <| o_started := true |>) o
    | EInstExit, Some i => oi_upd i (fun x => x <| o_gone := true |>) o
    | EState i s0, _ =>
        let n := o_nm (oi_get o i) in
        let o := if status_eqb s0 STerminating && terminal (r_status (on_get o n)) then o <| w_late := true |> else o in
        let o := on_upd n (fun r => let r := r <| r_status := s0 |> in
                                    match s0 with SSkipped | SError => r <| r_code := 1%Z |> | _ => r end) o in
        oi_upd i (fun x => if opt_eqb status_eqb (o_endst x) (Some s0) then x <| o_ended := true |> else x) o
    | ELaunch true, Some i => oi_upd i (fun x => x <| o_launches := S (o_launches x) |> <| o_alive := true |> <| o_elapsed := false |> <| o_commit := false |>) o
    | ELaunch false, Some i => oi_upd i (fun x => x <| o_commit := false |>) o
    | ECmdExit i c, _ => oi_upd i (fun x => x <| o_alive := false |> <| o_code := Some c |> <| o_sd_victim := o_insnap x |>) o
    | EExitCode c, Some i => on_upd (o_nm (oi_get o i)) (fun r => r <| r_code := c |>) o
    | EBackoffWait _, Some i => on_upd (o_nm (oi_get o i)) (fun r => r <| r_restarts := S (r_restarts r) |>) o
    | EBackoffElapsed, Some i =>
        oi_upd i (fun x => x <| o_elapsed := true |> <| o_commit := true |>) (note_late_commit o i)
    | EProcEnd i s0, _ =>
        (* onProcessEnd by the instance's own thread: it no longer launches *)
        let own := opt_eqb N.eqb (get th (o_th o)) (Some i) in
        oi_upd i (fun x => x <| o_endst := Some s0 |> <| o_commit := if own then false else o_commit x |>) o
    | EDepDone _ false, Some i => oi_upd i (fun x => x <| o_depfail := true |>) o
    | ENoRestart i, _ => oi_upd i (fun x => x <| o_stopreq := true |>) (o <| w_commit := w_commit o || o_commit (oi_get o i) |>)
    | EStopEnter i cancel, _ =>
        (* an internal stop (readiness probe failure, cancel = false) is not a stop request *)
        oi_upd i (fun x => x <| o_stopreq := o_stopreq x || cancel |>)
                             (o <| w_dup := w_dup o || stopping o i || existsb (fun p => N.eqb (snd p) i) (o_instop o) |>
                                <| o_instop := set th i (o_instop o) |>
                                <| w_commit := w_commit o || (cancel && o_commit (oi_get o i)) |> <| o_stopstage := set th true (o_stopstage o) |> <| o_stopinst := set th (Some i) (o_stopinst o) |>)
    | EStopRunning i, _ => o <| o_stopstage := set th false (o_stopstage o) |> <| o_stopinst := set th None (o_stopinst o) |>
    | EStopPending i, _ =>
        (* a stop that finds the instance Pending ends it, whether it is an external or an internal stop *)
        oi_upd i (fun x => x <| o_stopreq := true |>)
        (o <| o_stopstage := set th false (o_stopstage o) |> <| o_stopinst := set th None (o_stopinst o) |> <| w_commit := w_commit o || o_commit (oi_get o i) |>)
    | EStopReturn i, _ =>
        let direct := match get th (o_stopstage o) with Some true => true | _ => false end in
        let x := oi_get o i in
        let unfinished := match o_endst x with None => true | Some _ => false end in
        (o <| o_stopstage := del th (o_stopstage o) |> <| o_stopinst := set th None (o_stopinst o) |> <| o_instop := del th (o_instop o) |>
           <| w_commit := w_commit o || (direct && o_commit x) |>
           <| w_stale := w_stale o || (direct && unfinished && negb (o_commit x) && Nat.eqb (o_launches x) 0) |>)
    | ESignal i _ _, _ => oi_upd i (fun x => x <| o_sigs := S (o_sigs x) |>) o
    | EShutdownOrder order, _ =>
        let o := o <| w_commit := w_commit o || existsb (fun i => o_commit (oi_get o i)) order |> in
        let o := fold_left (fun o i => oi_upd i (fun x => x <| o_stopreq := true |> <| o_insnap := true |>) o) order o in
        let by_api := match get th (o_th o) with None => true | Some _ => false end in
        o <| o_sd_cur := set th order (o_sd_cur o) |>
          <| o_api_sd_first := o_api_sd_first o || (by_api && negb (o_code_fixed o)) |>
    | EShutdownEnd, _ =>
        let snap := match get th (o_sd_cur o) with Some l => l | None => [] end in
        o <| o_sd_done := S (o_sd_done o) |> <| o_sd_snap := snap ++ o_sd_snap o |> <| o_sd_cur := del th (o_sd_cur o) |>
          <| o_after_sd_spawn := [] |>
    | ELogReady i, _ =>
        on_upd (o_nm (oi_get o i)) (fun r => r <| r_ready := true |>) (oi_upd i (fun x => x <| o_logok := true |>) o)
    | EProbe i true false, _ => on_upd (o_nm (oi_get o i)) (fun r => r <| r_ready := true |>) o
    | EExitTrigger c, Some i => o <| o_triggers := o_triggers o ++ [(i, c, o_sd_victim (oi_get o i))] |>
                                  <| o_trig_th := th :: o_trig_th o |>
    | EResume, _ | EShutdownCall, _ | EExitCodeSet _, _ =>
        (* what a triggering goroutine logs next: exitCodeOnce.Do lies behind it *)
        o <| o_code_fixed := o_code_fixed o || memN th (o_trig_th o) |>
    | ERunReturn c, _ => o <| o_run_ret := Some c |>
    | _, _ => o
    end in
  refresh_succ o1.

(* ---- C01: dependency gating ----------------------------------------------------------------------- *)
Definition met (o : obs) (c : cond) (j : oinst) : bool :=
  match c with
  | CCompleted => o_ended j
  | CSuccess => o_succ j
  | CHealthy => r_ready (on_get o (o_nm j))
  | CLogReady => o_logok j
  | CStarted => o_started j || o_stopreq j || (match o_endst j with Some _ => true | None => false end)
  end.

Definition conf_of (cs : amap pconf) (n : name) : pconf :=
  match get n cs with Some c => c | None => mkConf [] PNo 0 0 false false false false false false false end.

(* instances of k that were registered (addRunningProcess) with a registration index below b *)
Definition reg_before (o : obs) (k : name) (b : nat) : list oinst :=
  filter (fun y => o_reg y && N.eqb (o_nm y) k && Nat.ltb (o_idx y) b) (vals (oi o)).
Definition some_met (o : obs) (c : cond) (J : list oinst) : bool :=
  match J with [] => true | _ => existsb (met o c) J end.
Definition wait_of (x : oinst) (k : name) : option (name * option iid * nat) :=
  find (fun w => N.eqb (fst (fst w)) k) (o_waits x).

(* at every successful launch of instance i, for every dependency (k, c) of its process:
   - the lookup of k returned instance j (dep_wait k (Some j)): j is an instance of k and has met c;
   - the lookup found nothing: no instance of k had been registered when the dependent looked into the
     running registry, or one of those has met c;
   - the dependent never looked k up: the same, judged against everything registered until now *)
Definition mon_C01 (cs : amap pconf) (o : obs) (te : tid * event) : bool :=
  match snd te, ev_inst o (fst te) (snd te) with
  | ELaunch true, Some i =>
      let x := oi_get o i in
      forallb (fun d =>
                 match wait_of x (fst d) with
                 | Some (_, Some j, _) => N.eqb (o_nm (oi_get o j)) (fst d) && met o (snd d) (oi_get o j)
                 | Some (_, None, b) => some_met o (snd d) (reg_before o (fst d) b)
                 | None => some_met o (snd d) (reg_before o (fst d) (o_cnt o))
                 end)
              (deps (conf_of cs (o_nm x)))
  | _, _ => true
  end.

(* ---- C02: restart policy -------------------------------------------------------------------------- *)
Definition policy_allows (p : policy) (c : Z) : bool :=
  match p with PAlways => true | POnFailure => negb (c =? 0)%Z | _ => false end.

Definition mon_C02 (cs : amap pconf) (o : obs) (te : tid * event) : bool :=
  match snd te, ev_inst o (fst te) (snd te) with
  | ELaunch true, Some i =>
      let x := oi_get o i in
      let c := conf_of cs (o_nm x) in
      if Nat.eqb (o_launches x) 0 then true
      else
        (* a relaunch: the last exit justifies it, the bound is respected, the back-off elapsed, and no
           stop / shutdown was requested for it *)
        match o_code x with
        | Some ec => policy_allows (pol c) ec && (Nat.eqb (maxr c) 0 || Nat.leb (o_launches x) (maxr c))
                     && o_elapsed x && negb (o_stopreq x)
        | None => false
        end
  | ERestartDecision true, Some i =>
      (* the decision to relaunch is never taken once a stop / shutdown has been requested *)
      negb (o_stopreq (oi_get o i))
  | EBackoffWait secs, Some i => N.eqb secs (N.max 1 (backoff (conf_of cs (o_nm (oi_get o i)))))
  | EProcEnded i SCompleted, _ =>
      (* the instance gave up: only legitimate when the policy does not ask for a relaunch *)
      let x := oi_get o i in
      let c := conf_of cs (o_nm x) in
      (* restarts are counted per replica name, when the back-off begins (the reported Restarts counter;
         it survives a manual restart and includes a back-off that a stop interrupted) *)
      let relaunches := r_restarts (on_get o (o_nm x)) in
      match o_code x with
      | Some ec => negb (policy_allows (pol c) ec && (Nat.eqb (maxr c) 0 || Nat.ltb relaunches (maxr c))
                         && negb (o_stopreq x))
      | None => true
      end
  | _, _ => true
  end.

(* ---- C05: unsatisfiable dependency => Skipped, never launched ------------------------------------- *)
Definition mon_C05 (cs : amap pconf) (o : obs) (te : tid * event) : bool :=
  match snd te, ev_inst o (fst te) (snd te) with
  | ELaunch _, Some i => negb (o_depfail (oi_get o i))
  | EProcEnded i s0, _ =>
      let x := oi_get o i in
      if o_depfail x then (status_eqb s0 SSkipped || status_eqb s0 STerminating)
                          && (if status_eqb s0 SSkipped then negb (r_code (on_get o (o_nm x)) =? 0)%Z else true)
      else negb (status_eqb s0 SSkipped)
  | _, _ => true
  end.

(* ---- C04: project completion and exit code -------------------------------------------------------- *)
Definition mon_C04 (cs : amap pconf) (o : obs) (te : tid * event) : bool :=
  match snd te with
  | ERunReturn c =>
      (* nothing launched by this Run is still alive *)
      forallb (fun x => negb (o_alive x) || o_byapi x) (vals (oi o)) &&
      match o_triggers o with
      | [] => (c =? 0)%Z
      | ts => (* the code of a trigger that was not itself a victim of a shutdown, if there is one *)
              let genuine := filter (fun t => negb (snd t)) ts in
              match (if o_api_sd_first o then [] else genuine) with
              | [] => existsb (fun t => Z.eqb (snd (fst t)) c) ts
              | _ => existsb (fun t => Z.eqb (snd (fst t)) c) genuine
              end
      end
  | _ => true
  end.

(* ---- C03: shutdown completeness ------------------------------------------------------------------- *)
Definition mon_C03 (cs : amap pconf) (o : obs) (te : tid * event) : bool :=
  match snd te, ev_inst o (fst te) (snd te) with
  | EShutdownEnd, _ =>
      let snap := match get (fst te) (o_sd_cur o) with Some l => l | None => [] end in
      (* every launched command of the snapshot has exited and none is reported running *)
      forallb (fun i => let x := oi_get o i in
                        negb (o_alive x) && negb (is_running_status (r_status (on_get o (o_nm x))))) snap
  | ELaunch true, Some i =>
      (* no launch after a completed shutdown, except for instances started by an explicit request afterwards
         or by an explicit request that was still in progress when the shutdown took its snapshot (such an
         instance was never in a shutdown snapshot) *)
      if Nat.ltb 0 (o_sd_done o) then memN i (o_after_sd_spawn o) || (o_byapi (oi_get o i) && negb (o_insnap (oi_get o i))) else true
  | _, _ => true
  end.

(* ---- C08: at most one live command per name ------------------------------------------------------- *)
Definition mon_C08 (cs : amap pconf) (o : obs) (te : tid * event) : bool :=
  match snd te, ev_inst o (fst te) (snd te) with
  | ELaunch true, Some i =>
      let n := o_nm (oi_get o i) in
      forallb (fun p => negb (N.eqb (o_nm (snd p)) n && o_alive (snd p)) || N.eqb (fst p) i) (oi o)
  | _, _ => true
  end.

(* ---- C09: reported state ---------------------------------------------------------------------------- *)
Definition legal (a b : status) : bool :=
  match a, b with
  | SPending, (SRunning | SLaunching | SSkipped | STerminating | SError) => true
  | SDisabled, (SRunning | SLaunching | SSkipped | STerminating | SError) => true
  | SForeground, (SRunning | SLaunching | SError) => true
  | SRunning, (SRestarting | STerminating | SCompleted | SError) => true
  | SLaunching, (SLaunched | STerminating | SCompleted | SError | SRestarting) => true
  | SLaunched, (SRestarting | STerminating | SCompleted | SError) => true
  | SRestarting, (SRunning | SLaunching | SCompleted | STerminating | SError) => true
  | STerminating, (SCompleted | SError | SRestarting | SSkipped) => true
  | _, _ => false
  end.
Definition mon_C09 (cs : amap pconf) (o : obs) (te : tid * event) : bool :=
  match snd te with
  | EState i s0 =>
      let x := oi_get o i in
      let prev := r_status (on_get o (o_nm x)) in
      (* legal transition, or an explicit new start of a name whose previous instance ended *)
      (legal prev s0 || (Nat.eqb (o_launches x) 0 && status_eqb s0 SPending) || (status_eqb prev SPending && status_eqb s0 SPending))
      (* Completed / Skipped / Error only when no command of the instance is alive *)
      && (negb (terminal s0) || negb (o_alive x))
  | ELaunch true => match ev_inst o (fst te) (snd te) with
                    | Some i => is_running_status (r_status (on_get o (o_nm (oi_get o i))))
                    | None => true
                    end
  | EExitCode c => match ev_inst o (fst te) (snd te) with
                   | Some i => opt_eqb Z.eqb (o_code (oi_get o i)) (Some c)
                   | None => true
                   end
  | _ => true
  end.

(* ---- C12: ordered shutdown ------------------------------------------------------------------------ *)
(* at a stop signal issued by an ordered shutdown worker, every instance of the shutdown's snapshot whose
   configuration depends on the signalled process has no command alive *)
Definition mon_C12 (ordered : bool) (cs : amap pconf) (o : obs) (te : tid * event) : bool :=
  match snd te with
  | ESignal i _ _ =>
      if negb ordered then true else
      let n := o_nm (oi_get o i) in
      forallb (fun snap =>
                 if memN i (snd snap) then
                   forallb (fun j => let y := oi_get o j in
                                     negb (memN n (map fst (deps (conf_of cs (o_nm y))))) || negb (o_alive y))
                           (snd snap)
                 else true) (o_sd_cur o)
  | _ => true
  end.

(* ---- running a monitor over a history -------------------------------------------------------------- *)
Fixpoint mon_run (cs : amap pconf) (m : obs -> tid * event -> bool) (o : obs) (evs : list (tid * event)) (k : nat)
  : option nat :=     (* Some position of the first violation *)
  match evs with
  | [] => None
  | e :: r => if m o e then mon_run cs m (obs_step cs o e) r (S k) else Some k
  end.

Definition holds (cs : amap pconf) (m : amap pconf -> obs -> tid * event -> bool) (evs : list (tid * event)) : bool :=
  match mon_run cs (m cs) (obs0 cs) evs 0 with None => true | Some _ => false end.

Definition holds_C01 cs evs := holds cs mon_C01 evs.
Definition holds_C02 cs evs := holds cs mon_C02 evs.
Definition holds_C03 cs evs := holds cs mon_C03 evs.
Definition holds_C04 cs evs := holds cs mon_C04 evs.
Definition holds_C05 cs evs := holds cs mon_C05 evs.
Definition holds_C08 cs evs := holds cs mon_C08 evs.
Definition holds_C09 cs evs := holds cs mon_C09 evs.
Definition holds_C12 (ord : bool) cs evs := holds cs (mon_C12 ord) evs.

(* the windows hit by a history, as a bit list [commit; late; sdspawn; dup; stale] *)
Definition windows_of (o : obs) : list bool := [w_zombie o; w_sdlag o; w_commit o; w_late o; w_sdspawn o; w_dup o; w_stale o].
Definition final_obs (cs : amap pconf) (evs : list (tid * event)) : obs := fold_left (obs_step cs) evs (obs0 cs).
Definition no_windows (cs : amap pconf) (evs : list (tid * event)) : bool :=
  negb (existsb (fun b => b) (windows_of (final_obs cs evs))).
