(* C09, clauses (a1) legality of status transitions and (b) status at launch: the name-level relation.
   Proved for histories in which Terminating is only written over a running status of a live command
   (assumption monitor asm), outside the duplicate-instance window w_dup. *)
From Coq Require Import List ZArith NArith Bool Lia.
From RecordUpdate Require Import RecordSet.
From PC.Base Require Import Assoc.
From PC.Sup Require Import Model Monitors Tactics Sim ObsFacts Effects RelCore LemC09 LemC09b RelC09.
Import ListNotations RecordSetNotations.

(* ---- association-list facts --------------------------------------------------------------------------- *)
Definition begun (s : sys) (i : iid) : bool := has i (map (fun p => (snd p, tt)) (thinst s)).

Lemma has_swap_set (m : amap iid) th i j : get th m = None ->
  has j (map (fun p => (snd p, tt)) (set th i m)) = has j (map (fun p => (snd p, tt)) m) || N.eqb i j.
Proof.
  unfold has. induction m as [|[k v] r IH]; cbn.
  - intros _. destruct (N.eqb i j); reflexivity.
  - destruct (N.eqb_spec k th); [discriminate|]. intros H. cbn. destruct (N.eqb v j); [reflexivity|]. now apply IH.
Qed.

Lemma has_swap_get (m : amap iid) th i : get th m = Some i -> has i (map (fun p => (snd p, tt)) m) = true.
Proof.
  unfold has. induction m as [|[k v] r IH]; cbn; [discriminate|].
  destruct (N.eqb k th).
  - intros [= ->]. now rewrite N.eqb_refl.
  - intros H. destruct (N.eqb v i); [reflexivity|]. now apply IH.
Qed.

Lemma get_in_vals {A} (m : amap A) k v : get k m = Some v -> In v (vals m).
Proof. intros H. apply get_in in H. unfold vals. now apply (in_map snd) in H. Qed.

(* ---- program-counter classes -------------------------------------------------------------------------- *)
Definition done_pc (p : ipc) : bool := match p with IInEnd _ _ true => true | p => after_pc p end.
Definition pre0_pc (p : ipc) : bool := match p with IDeps _ => true | _ => false end.
Definition pre_pc (p : ipc) : bool :=
  match p with IDeps _ | IBlocked _ _ _ _ | ISkipDecided | IPreStart => true | _ => false end.
Definition endst_pc (s0 : status) (p : ipc) : bool :=
  match p with IInEnd s1 _ _ => status_eqb s0 s1 | p => after_pc p end.

(* the reported status that goes with each program counter of the (only) unfinished instance of a name *)
Definition okst (p : ipc) (v : status) : bool :=
  match p with
  | IDeps _ | IBlocked _ _ _ _ | ISkipDecided | IPreStart => status_eqb v SPending
  | IPreLaunch => status_eqb v SPending || status_eqb v SRestarting
  | IStateSet => status_eqb v SRunning
  | IAlive | IExited _ | ICodeWritten _ | IWillRestart _ => status_eqb v SRunning || status_eqb v STerminating
  | IRestarting _ | IBackoff _ => status_eqb v SRestarting
  | IEnding SSkipped _ | IInEnd SSkipped _ false => status_eqb v SPending
  | IEnding SError _ | IInEnd SError _ false => status_eqb v SPending || status_eqb v SRunning
  | IEnding SCompleted _ | IInEnd SCompleted _ false =>
      status_eqb v SRunning || status_eqb v SRestarting || status_eqb v STerminating
  | IEnding _ _ | IInEnd _ _ false => false
  | _ => true
  end.

Lemma okst_own e p p' v : own_tr e p p' = true -> done_pc p = false -> okst p v = true -> okst p' v = true.
Proof.
  intros Htr Hd Hok.
  destruct e; try match goal with b : bool |- _ => destruct b end; cbn in Htr; try discriminate;
  destruct p; try discriminate; destruct p'; try discriminate; cbn in *;
  repeat match goal with s : status |- _ => destruct s; try discriminate end;
  try reflexivity; try assumption; try (rewrite Hok; reflexivity); try (rewrite Hok; apply orb_true_r).
Qed.

Ltac own_tr_cases Htr :=
  match type of Htr with own_tr ?e ?p ?p' = true =>
    destruct e; try match goal with b : bool |- _ => destruct b end; cbn in Htr; try discriminate Htr;
    destruct p; try discriminate Htr; destruct p'; try discriminate Htr end.

Lemma done_own e p p' : own_tr e p p' = true -> done_pc p = true -> done_pc p' = true.
Proof. intros Htr Hd. own_tr_cases Htr; cbn in *; try discriminate; try reflexivity. Qed.
Lemma endst_own e p p' s0 : own_tr e p p' = true -> endst_pc s0 p = true -> endst_pc s0 p' = true.
Proof. intros Htr Hd. own_tr_cases Htr; cbn in *; try discriminate; try reflexivity. Qed.
Lemma pre_own e p p' : own_tr e p p' = true -> pre_pc p' = true -> pre_pc p = true /\ e <> ELaunch true.
Proof. intros Htr Hd. own_tr_cases Htr; cbn in *; try discriminate; split; try reflexivity; discriminate. Qed.
Lemma own_not_pre0 e p p' : own_tr e p p' = true -> done_pc p = false \/ done_pc p' = true.
Proof. intros Htr. own_tr_cases Htr; cbn; auto. Qed.

Lemma st_write_status n s0 s m v : get n (viss s) = Some v ->
  st (vis_of (write_status n s0 s) m) = if N.eqb n m then s0 else st (vis_of s m).
Proof.
  intros Hv. unfold vis_of, write_status. rewrite viss_upd_vis. destruct (N.eqb_spec n m); [subst; rewrite Hv|reflexivity].
  cbn. destruct s0; reflexivity.
Qed.

Lemma msame_st s s' n : msame s s' -> st (vis_of s' n) = st (vis_of s n).
Proof.
  intros (_ & _ & _ & D). specialize (D n). unfold vis_of. destruct (get n (viss s)) as [v|].
  - destruct D as (v' & -> & _ & E & _). exact E.
  - now rewrite D.
Qed.
Lemma msame_begun s s' i : msame s s' -> begun s' i = begun s i.
Proof. intros (_ & B & _). unfold begun. now rewrite B. Qed.

(* ---- the relation ----------------------------------------------------------------------------------------- *)
Record P2 (s : sys) (i : iid) (x : inst) (xo : oinst) : Prop := mkP2 {
  p_ended : o_ended xo = true -> done_pc (pc x) = true;
  p_endst : forall s0, o_endst xo = Some s0 -> s0 = STerminating \/ endst_pc s0 (pc x) = true;
  p_launches : pre_pc (pc x) = true -> launches x = 0;
  p_notbegun : begun s i = false -> pre0_pc (pc x) = true;
  p_status : done_pc (pc x) = false -> begun s i = true -> okst (pc x) (st (vis_of s (nm x))) = true;
  (* created, Pending written, goroutine not yet begun: Pending is still reported *)
  p_staged : done_pc (pc x) = false -> begun s i = false -> staged1 s i = true -> st (vis_of s (nm x)) = SPending }.

Lemma P2_frame s s' i x x' xo xo' : msame s s' -> stage_le s s' -> ifr x x' -> ofr xo xo' -> P2 s i x xo -> P2 s' i x' xo'.
Proof.
  intros M SL (Hn & _ & Hl & Hp & _) (_ & _ & _ & _ & Hes & Hed & Hb) [A B C D E G].
  constructor; rewrite ?Hp, ?Hl, ?Hn, ?Hes, ?Hed, ?Hb, ?(msame_begun _ _ _ M), ?(msame_st _ _ _ M); auto.
Qed.

Lemma msame_inv s s' j x' : msame s s' -> get j (insts s') = Some x' -> exists x, get j (insts s) = Some x /\ ifr x x'.
Proof.
  intros (_ & _ & C & _) H. specialize (C j). destruct (get j (insts s)) as [x|]; [|congruence].
  destruct C as (x2 & E2 & F). exists x. split; [reflexivity|]. congruence.
Qed.
Lemma msame_none s s' j : msame s s' -> get j (insts s') = None -> get j (insts s) = None.
Proof.
  intros (_ & _ & C & _) H. specialize (C j). destruct (get j (insts s)) as [x|]; [|reflexivity].
  destruct C as (x2 & E2 & F). congruence.
Qed.
Lemma osame_inv o o' j x' : osame o o' -> get j (oi o') = Some x' -> exists x, get j (oi o) = Some x /\ ofr x x'.
Proof.
  intros (C & _) H. specialize (C j). destruct (get j (oi o)) as [x|]; [|congruence].
  destruct C as (x2 & E2 & F). exists x. split; [reflexivity|]. congruence.
Qed.

Section RelC09b.
Context (cs : amap pconf).

Definition uniq (s : sys) : Prop :=
  forall i j x y, get i (insts s) = Some x -> get j (insts s) = Some y ->
    nm x = nm y -> done_pc (pc x) = false -> done_pc (pc y) = false -> i = j.
Definition begun_has (s : sys) : Prop := forall i, get i (insts s) = None -> begun s i = false.
Definition IR2 (s : sys) (o : obs) : Prop :=
  forall i x xo, get i (insts s) = Some x -> get i (oi o) = Some xo -> P2 s i x xo.

Record R2 (s : sys) (o : obs) : Prop := mkR2 {
  r2_r1 : R1 cs s o;
  r2_inst : IR2 s o;
  r2_uniq : uniq s;
  r2_begun : begun_has s }.

(* the assumptions about the history under which (a1) and (b) are proved *)
Definition asm (o : obs) (te : tid * event) : bool :=
  match snd te with
  | EState i STerminating =>
      (* Terminating is written over a running status, while the command is alive, by the stop-running path *)
      let x := oi_get o i in
      is_running_status (r_status (on_get o (o_nm x))) && o_alive x
      && negb (opt_eqb status_eqb (o_endst x) (Some STerminating))
  | _ => true
  end.

Lemma R2_init ord : R2 (init cs ord) (obs0 cs).
Proof.
  constructor.
  - apply R1_init.
  - intros i x xo H. discriminate H.
  - intros i j x y H. discriminate H.
  - intros i _. reflexivity.
Qed.

Lemma uniq_frame s s' : uniq s -> msame s s' -> uniq s'.
Proof.
  intros U M i j x' y' Hx Hy Hn Hdx Hdy.
  destruct (msame_inv _ _ _ _ M Hx) as (x & Ex & (Hnx & _ & _ & Hpx & _)).
  destruct (msame_inv _ _ _ _ M Hy) as (y & Ey & (Hny & _ & _ & Hpy & _)).
  eapply (U i j x y); eauto; congruence.
Qed.
Lemma begun_frame s s' : begun_has s -> msame s s' -> begun_has s'.
Proof. intros B M i Hi. rewrite (msame_begun _ _ i M). apply B. eapply msame_none; eauto. Qed.
Lemma IR2_frame s s' o o' : IR2 s o -> msame s s' -> stage_le s s' -> osame o o' -> IR2 s' o'.
Proof.
  intros H M SL O i x' xo' Hx Hxo.
  destruct (msame_inv _ _ _ _ M Hx) as (x & Ex & Fx). destruct (osame_inv _ _ _ _ O Hxo) as (xo & Exo & Fxo).
  eapply P2_frame; eauto.
Qed.

Lemma R2_frame s s' o o' : R1 cs s' o' -> R2 s o -> msame s s' -> stage_le s s' -> osame o o' -> R2 s' o'.
Proof.
  intros H1 [_ A B D] M SL O. constructor; eauto using IR2_frame, uniq_frame, begun_frame.
Qed.

Lemma P2_same s s' j y yo yo' : P2 s j y yo -> begun s' j = begun s j ->
  st (vis_of s' (nm y)) = st (vis_of s (nm y)) ->
  o_ended yo' = o_ended yo -> o_endst yo' = o_endst yo -> o_byapi yo' = o_byapi yo ->
  (staged1 s' j = true -> staged1 s j = true) -> P2 s' j y yo'.
Proof. intros [A B C D E G] Hb Hs H1 H2 H3 H4. constructor; rewrite ?Hb, ?Hs, ?H1, ?H2, ?H3; auto. Qed.

Lemma after_done p : after_pc p = true -> done_pc p = true.
Proof. destruct p; cbn; try discriminate; auto. Qed.

(* a step that changes one instance and no reported status *)
Lemma R2_local s s' o o' i x x' :
  R2 s o -> R1 cs s' o' ->
  get i (insts s) = Some x -> get i (insts s') = Some x' -> (forall j, j <> i -> get j (insts s') = get j (insts s)) ->
  thinst s' = thinst s -> stage s' = stage s -> (forall n, st (vis_of s' n) = st (vis_of s n)) -> nm x' = nm x ->
  (done_pc (pc x) = true -> done_pc (pc x') = true) ->
  (forall j yo', get j (oi o') = Some yo' -> exists yo, get j (oi o) = Some yo /\
       (j <> i -> o_ended yo' = o_ended yo /\ o_endst yo' = o_endst yo /\ o_byapi yo' = o_byapi yo)) ->
  (forall xo xo', get i (oi o) = Some xo -> get i (oi o') = Some xo' -> P2 s i x xo -> P2 s' i x' xo') ->
  R2 s' o'.
Proof.
  intros [_ A U B] H1 Hx Hx' Hfr Hth Hsg Hst Hnm Hdone Hobs Hi.
  assert (Hbeg : forall j, begun s' j = begun s j) by (intros j; unfold begun; now rewrite Hth).
  constructor; auto.
  - intros j y yo' Hy Hyo. destruct (Hobs j yo' Hyo) as (yo & Eyo & Hsame).
    destruct (N.eqb_spec j i) as [->|Hne].
    + assert (y = x') by congruence. subst y. eapply Hi; eauto.
    + rewrite (Hfr j Hne) in Hy. destruct (Hsame Hne) as (E1 & E2 & E3). eapply P2_same; eauto.
      unfold staged1. now rewrite Hsg.
  - intros j1 j2 y1 y2 Hy1 Hy2 Hn Hd1 Hd2.
    assert (Hback : forall j y, get j (insts s') = Some y -> done_pc (pc y) = false ->
                    exists y0, get j (insts s) = Some y0 /\ nm y0 = nm y /\ done_pc (pc y0) = false).
    { intros j y Hy Hd. destruct (N.eqb_spec j i) as [->|Hne].
      - exists x. assert (y = x') by congruence. subst y. repeat split; auto.
        destruct (done_pc (pc x)) eqn:Edx; [rewrite (Hdone eq_refl) in Hd; discriminate|reflexivity].
      - rewrite (Hfr j Hne) in Hy. eauto. }
    destruct (Hback _ _ Hy1 Hd1) as (z1 & Ez1 & Hn1 & Hz1). destruct (Hback _ _ Hy2 Hd2) as (z2 & Ez2 & Hn2 & Hz2).
    eapply (U j1 j2 z1 z2); eauto. congruence.
  - intros j Hj. rewrite Hbeg. apply B. destruct (N.eqb_spec j i) as [->|Hne]; [congruence|]. now rewrite <- (Hfr j Hne).
Qed.

Lemma begun_own s th i : get th (thinst s) = Some i -> begun s i = true.
Proof. apply has_swap_get. Qed.

Lemma R2_own s o th e s' : R2 s o -> R1 cs s' (obs_step cs o (th, e)) -> step_own s th e = Some s' ->
  R2 s' (obs_step cs o (th, e)).
Proof.
  intros HR H1 Hk.
  destruct (own_effect _ _ _ _ Hk) as (i & x & x' & Hth & Hx & Hx' & Hfr & Hti & _ & Hnm & _ & Htr & _ & _ & Hl & Hst & _ & Hsg).
  assert (Hobs : forall j yo', get j (oi (obs_step cs o (th, e))) = Some yo' -> exists yo, get j (oi o) = Some yo /\
            o_ended yo' = o_ended yo /\ o_endst yo' = o_endst yo /\ o_byapi yo' = o_byapi yo).
  { intros j yo' Hyo. destruct (is_launch e) eqn:El.
    - apply is_launch_true in El. subst e.
      assert (Hoth : get th (o_th o) = Some i) by (rewrite <- (rc_th _ _ _ (proj1 (r2_r1 _ _ HR))); exact Hth).
      eapply obs_launch_get in Hyo; eauto. destruct Hyo as (yo & Hyo & _ & _ & E1 & E2 & E3 & _). eauto.
    - apply is_launch_false in El. destruct (own_oexc _ _ _ _ Hk El) as [Ho _].
      destruct (osame_inv _ _ _ _ (obs_step_osame cs o th e Ho) Hyo) as (yo & Eyo & (_ & _ & _ & _ & E1 & E2 & E3)). eauto. }
  assert (Hb : begun s i = true) by (eapply begun_own; eauto).
  assert (Hb' : begun s' i = true) by (unfold begun; rewrite Hti; exact Hb).
  eapply (R2_local s s' o _ i x x'); eauto.
  - intros Hd. eapply done_own; eauto.
  - intros j yo' Hyo. destruct (Hobs j yo' Hyo) as (yo & Eyo & E1 & E2 & E3). eauto.
  - intros xo xo' Hxo Hxo' [A B C D E G]. destruct (Hobs i xo' Hxo') as (yo & Eyo & E1 & E2 & E3).
    assert (yo = xo) by congruence. subst yo.
    constructor; try (intros _ Hn; congruence).
    + intros He. rewrite E1 in He. eapply done_own; eauto.
    + intros s0 Hs0. rewrite E2 in Hs0. destruct (B s0 Hs0); [left|right; eapply endst_own]; eauto.
    + intros Hp. destruct (pre_own _ _ _ Htr Hp) as [Hp0 Hne]. rewrite Hl.
      destruct e; try (apply C; exact Hp0). destruct ok; [congruence|auto].
    + intros Hn. congruence.
    + intros Hd _. rewrite Hnm, Hst. eapply okst_own; eauto.
      * destruct (done_pc (pc x)) eqn:Edx; [rewrite (done_own _ _ _ Htr Edx) in Hd; discriminate|reflexivity].
      * apply E; auto. destruct (done_pc (pc x)) eqn:Edx; [rewrite (done_own _ _ _ Htr Edx) in Hd; discriminate|reflexivity].
Qed.

Lemma okst_inend s1 c v : okst (IInEnd s1 c false) v = okst (IEnding s1 c) v.
Proof. destruct s1; reflexivity. Qed.

Lemma R2_procend s o th i s0 (b : bool) s' :
  R2 s o -> R1 cs s' (obs_step cs o (th, if b then EProcEnd i s0 else EProcEnded i s0)) ->
  step_procend s th i s0 b = Some s' ->
  R2 s' (obs_step cs o (th, if b then EProcEnd i s0 else EProcEnded i s0)).
Proof.
  intros HR H1 Hk.
  destruct (procend_effect _ _ _ _ _ _ Hk) as (x & x' & Hx & Hx' & Hfr & Hti & _ & Hnm & _ & _ & _ & Hl & Hv & Htr & Hsg).
  assert (Hobs : forall j yo', get j (oi (obs_step cs o (th, if b then EProcEnd i s0 else EProcEnded i s0))) = Some yo' ->
            exists yo, get j (oi o) = Some yo /\ o_ended yo' = o_ended yo /\ o_byapi yo' = o_byapi yo /\
              o_endst yo' = if b && N.eqb i j then Some s0 else o_endst yo).
  { intros j yo' Hyo. destruct b.
    - apply obs_procend_get in Hyo. destruct Hyo as (yo & Hyo & _ & _ & _ & _ & E1 & E3 & E2). eauto.
    - destruct (osame_inv _ _ _ _ (obs_step_osame cs o th (EProcEnded i s0) eq_refl) Hyo) as (yo & Eyo & (_ & _ & _ & _ & E2 & E1 & E3)). eauto. }
  assert (Hst : forall n, st (vis_of s' n) = st (vis_of s n)) by (intros n; unfold vis_of; now rewrite Hv).
  assert (Hbeg : begun s' i = begun s i) by (unfold begun; now rewrite Hti).
  eapply (R2_local s s' o _ i x x'); eauto.
  - intros Hd. destruct Htr as [E0 E1 E2 E3|E0 E1 E2 E3|c E0 E1 E2 E3|c E0 E1 E2 E3]; try congruence.
    + rewrite E2 in Hd. discriminate.
    + now apply after_done.
  - intros j yo' Hyo. destruct (Hobs j yo' Hyo) as (yo & Eyo & E1 & E3 & E2). exists yo. split; [exact Eyo|].
    intros Hne. repeat split; auto. rewrite E2. destruct (N.eqb_spec i j); [congruence|]. now rewrite andb_false_r.
  - intros xo xo' Hxo Hxo' [A B C D E G]. destruct (Hobs i xo' Hxo') as (yo & Eyo & E1 & E3 & E2).
    assert (Hstg : staged1 s' i = staged1 s i) by (unfold staged1; now rewrite Hsg).
    assert (yo = xo) by congruence. subst yo. rewrite N.eqb_refl, andb_true_r in E2.
    destruct Htr as [E0 T1 T2 T3|E0 T1 T2 T3|c E0 T1 T2 T3|c E0 T1 T2 T3]; subst b; subst.
    + (* stop thread, entry *)
      constructor; rewrite ?T3, ?Hbeg, ?Hnm, ?Hst, ?E1, ?E3, ?Hl, ?Hstg; auto. rewrite E2. intros s1 [= <-]. now left.
    + constructor; rewrite ?T3, ?Hbeg, ?Hnm, ?Hst, ?E1, ?E2, ?E3, ?Hl, ?Hstg; auto.
    + (* own entry *)
      constructor; rewrite ?T3, ?Hbeg, ?Hnm, ?Hst, ?E1, ?E2, ?E3, ?Hl, ?Hstg, ?okst_inend; rewrite ?T2 in *; cbn in *; auto; try discriminate.
      intros s1 [= <-]. right. apply status_eqb_refl.
    + (* own exit *)
      pose proof (after_done _ T3) as Hd.
      constructor; rewrite ?Hd, ?Hbeg, ?Hnm, ?Hst, ?E1, ?E2, ?E3, ?Hl, ?Hstg; auto; try discriminate.
      * intros s1 Hs1. right. destruct (pc x'); cbn in T3; try discriminate; reflexivity.
      * intros Hp. destruct (pc x'); cbn in T3, Hp; discriminate.
      * intros Hb. specialize (D Hb). rewrite T2 in D. discriminate.
Qed.

Lemma R2_cmdexit s o th i c s' :
  R2 s o -> R1 cs s' (obs_step cs o (th, ECmdExit i c)) -> step_env s th (ECmdExit i c) = Some s' ->
  R2 s' (obs_step cs o (th, ECmdExit i c)).
Proof.
  intros HR H1 Hk. destruct (cmdexit_effect _ _ _ _ _ Hk) as (x & Hx & _ & ->).
  assert (Hobs : forall j yo', get j (oi (obs_step cs o (th, ECmdExit i c))) = Some yo' -> exists yo, get j (oi o) = Some yo /\
            o_ended yo' = o_ended yo /\ o_endst yo' = o_endst yo /\ o_byapi yo' = o_byapi yo).
  { intros j yo' Hyo. apply obs_cmdexit_get in Hyo. destruct Hyo as (yo & Hyo & _ & _ & E2 & E1 & E3 & _). eauto. }
  eapply (R2_local s _ o _ i x (x <| alive := false |> <| exited := Some c |>)); eauto.
  - rewrite insts_upd_inst, N.eqb_refl, Hx. reflexivity.
  - intros j Hj. rewrite insts_upd_inst. destruct (N.eqb_spec i j); [congruence|reflexivity].
  - apply upd_inst_thinst.
  - apply upd_inst_stage.
  - intros n. now rewrite vis_of_upd_inst.
  - intros j yo' Hyo. destruct (Hobs j yo' Hyo) as (yo & Eyo & E1 & E2 & E3). eauto.
  - intros xo xo' Hxo Hxo' [A B C D E G]. destruct (Hobs i xo' Hxo') as (yo & Eyo & E1 & E2 & E3).
    assert (yo = xo) by congruence. subst yo.
    constructor; cbn [pc nm launches]; unfold begun, staged1; rewrite ?upd_inst_thinst, ?upd_inst_stage, ?vis_of_upd_inst, ?E1, ?E2, ?E3; auto.
Qed.

Lemma R2_vis s o i x : R2 s o -> get i (insts s) = Some x -> exists v, get (nm x) (viss s) = Some v.
Proof.
  intros HR Hx. destruct (r2_r1 _ _ HR) as [HRc _].
  destruct (rc_inst _ _ _ HRc i x Hx) as (xo & _ & _ & Hc & _).
  destruct (rc_name _ _ _ HRc _ _ Hc) as (v & r & Hv & _). eauto.
Qed.

Lemma R2_state s o th i s0 s' :
  R2 s o -> R1 cs s' (obs_step cs o (th, EState i s0)) -> step_state s th i s0 = Some s' ->
  (s0 = STerminating -> o_alive (oi_get o i) = true /\ opt_eqb status_eqb (o_endst (oi_get o i)) (Some STerminating) = false) ->
  R2 s' (obs_step cs o (th, EState i s0)).
Proof.
  intros HR H1 Hk Hnt.
  destruct (state_effect _ _ _ _ _ Hk) as (x & x' & Hx & Hx' & Hfr & Hti & _ & Hnm & _ & _ & _ & Hl & Hv & Htr & Hsg).
  assert (Hstg : forall j, j <> i -> staged1 s' j = staged1 s j).
  { intros j Hj. unfold staged1. rewrite Hsg. destruct (status_eqb s0 SPending); [|reflexivity]. rewrite get_set_other by congruence. reflexivity. }
  assert (Hstgi : s0 <> SPending -> staged1 s' i = staged1 s i).
  { intros Hj. unfold staged1. rewrite Hsg. destruct (status_eqb s0 SPending) eqn:Ep; [apply status_eqb_eq in Ep; contradiction|reflexivity]. }
  destruct (R2_vis _ _ _ _ HR Hx) as (v & Hvis).
  assert (Hst : forall n, st (vis_of s' n) = if N.eqb (nm x) n then s0 else st (vis_of s n)).
  { intros n. rewrite <- (st_write_status (nm x) s0 s n v Hvis). unfold vis_of. now rewrite Hv. }
  assert (Hbeg : forall j, begun s' j = begun s j) by (intros j; unfold begun; now rewrite Hti).
  assert (Hobs : forall j yo', get j (oi (obs_step cs o (th, EState i s0))) = Some yo' -> exists yo, get j (oi o) = Some yo /\
            o_endst yo' = o_endst yo /\ o_byapi yo' = o_byapi yo /\
            o_ended yo' = (if N.eqb i j && opt_eqb status_eqb (o_endst yo) (Some s0) then true else o_ended yo)).
  { intros j yo' Hyo. apply obs_state_get in Hyo. destruct Hyo as (yo & Hyo & _ & _ & _ & _ & E2 & E3 & E1). eauto. }
  (* the writer is not finished, and what it becomes *)
  assert (Hcase : done_pc (pc x) = false /\
            ((pc x' = pc x /\ pre0_pc (pc x) = true /\ begun s i = false /\ s0 = SPending) \/
             (begun s i = true /\ ((pc x = IPreLaunch /\ s0 = SRunning /\ pc x' = IStateSet) \/
                                   (exists c, pc x = IWillRestart c /\ s0 = SRestarting /\ pc x' = IRestarting c) \/
                                   (exists c, pc x = IInEnd s0 c false /\ pc x' = IInEnd s0 c true))) \/
             (pc x' = pc x /\ pc x = IAlive /\ s0 = STerminating /\
              forall xo, get i (oi o) = Some xo -> opt_eqb status_eqb (o_endst xo) (Some STerminating) = false))).
  { assert (Hstop : s0 = STerminating -> pc x' = pc x -> done_pc (pc x) = false /\
              (pc x' = pc x /\ pc x = IAlive /\ s0 = STerminating /\
               forall xo, get i (oi o) = Some xo -> opt_eqb status_eqb (o_endst xo) (Some STerminating) = false)).
    { intros Hs Hp. destruct (Hnt Hs) as [Hal He].
      destruct (R1_oi cs _ _ _ _ (r2_r1 _ _ HR) Hx) as (xo & Hxo & Hget & [IA IB IC ID] & _).
      rewrite Hget in Hal, He. rewrite IA in Hal. specialize (IB Hal).
      split; [now rewrite IB|]. repeat split; auto. intros xo2 Hxo2. congruence. }
    destruct Htr as [c E1 E2 E3|E1 E2 E3|todo E1 E2 E3 E4 E5|E1 E2 E3 E4|c E1 E2 E3 E4|c E1 E2 E3].
    - destruct (Hstop E2 E3) as [? ?]. split; auto.
    - destruct (Hstop E2 E3) as [? ?]. split; auto.
    - split; [now rewrite E2|]. left. rewrite E2. repeat split; auto. congruence.
    - split; [now rewrite E2|]. right; left. split; [eapply begun_own; eauto|]. auto.
    - split; [now rewrite E2|]. right; left. split; [eapply begun_own; eauto|]. right. left. eauto.
    - split; [now rewrite E2|]. right; left. split; [eapply begun_own; eauto|]. right. right. eauto. }
  destruct Hcase as [Hdx Hcase].
  destruct HR as [_ A U B].
  constructor; auto.
  - (* instances *)
    intros j y yo' Hy Hyo. destruct (Hobs j yo' Hyo) as (yo & Eyo & E2 & E3 & E1).
    destruct (N.eqb_spec i j) as [<-|Hne].
    + assert (y = x') by congruence. subst y. destruct (A _ _ _ Hx Eyo) as [PA PB PC PD PE PG]. cbn [andb] in E1.
      assert (Hend : s0 <> STerminating -> opt_eqb status_eqb (o_endst yo) (Some s0) = true -> endst_pc s0 (pc x) = true).
      { intros Hnt0. destruct (o_endst yo) as [s1|] eqn:Es1; cbn; [|discriminate]. intros Hs. apply status_eqb_eq in Hs. subst s1.
        destruct (PB s0 eq_refl); [contradiction|assumption]. }
      destruct Hcase as [(Hp & Hp0 & Hb & ->)|[(Hb & [(Hp & -> & Hp')|[(c & Hp & -> & Hp')|(c & Hp & Hp')]])|(Hp & Hp0 & -> & Hne)]].
      * constructor; rewrite ?Hp, ?Hl, ?Hbeg, ?Hnm, ?Hst, ?N.eqb_refl, ?E2, ?E3; auto; try (intros; congruence).
        rewrite E1. destruct (opt_eqb status_eqb (o_endst yo) (Some SPending)) eqn:Eo; [|exact PA].
        specialize (Hend ltac:(discriminate) eq_refl). destruct (pc x); cbn in Hp0, Hend; discriminate.
      * constructor; rewrite ?Hp', ?Hl, ?Hbeg, ?Hnm, ?Hst, ?N.eqb_refl, ?E2, ?E3; cbn; auto; try discriminate; try congruence; try (intros; congruence).
        -- rewrite E1. destruct (opt_eqb status_eqb (o_endst yo) (Some SRunning)) eqn:Eo.
           ++ specialize (Hend ltac:(discriminate) eq_refl). rewrite Hp in Hend. discriminate.
           ++ intros He. specialize (PA He). rewrite Hp in PA. discriminate.
        -- intros s1 Hs1. destruct (PB s1 Hs1) as [?|Hq]; [now left|]. rewrite Hp in Hq. discriminate.
      * constructor; rewrite ?Hp', ?Hl, ?Hbeg, ?Hnm, ?Hst, ?N.eqb_refl, ?E2, ?E3; cbn; auto; try discriminate; try congruence; try (intros; congruence).
        -- rewrite E1. destruct (opt_eqb status_eqb (o_endst yo) (Some SRestarting)) eqn:Eo.
           ++ specialize (Hend ltac:(discriminate) eq_refl). rewrite Hp in Hend. discriminate.
           ++ intros He. specialize (PA He). rewrite Hp in PA. discriminate.
        -- intros s1 Hs1. destruct (PB s1 Hs1) as [?|Hq]; [now left|]. rewrite Hp in Hq. discriminate.
      * constructor; rewrite ?Hp', ?Hl, ?Hbeg, ?Hnm, ?Hst, ?N.eqb_refl, ?E2, ?E3; cbn; auto; try discriminate; try congruence; try (intros; congruence).
        intros s1 Hs1. destruct (PB s1 Hs1) as [?|Hq]; [now left|]. rewrite Hp in Hq. now right.
      * (* a stop execution writes Terminating over the live command *)
        rewrite (Hne yo Eyo) in E1.
        constructor; rewrite ?Hp, ?Hp0, ?Hl, ?Hbeg, ?Hnm, ?Hst, ?N.eqb_refl, ?E1, ?E2, ?E3; cbn; auto; try discriminate.
        -- intros He. specialize (PA He). rewrite Hp0 in PA. discriminate.
        -- intros s1 Hs1. destruct (PB s1 Hs1) as [?|Hq]; [now left|]. rewrite Hp0 in Hq. discriminate.
        -- intros Hb. specialize (PD Hb). rewrite Hp0 in PD. discriminate.
        -- intros _ Hb. specialize (PD Hb). rewrite Hp0 in PD. discriminate.
    + rewrite (Hfr j) in Hy by congruence. destruct (A _ _ _ Hy Eyo) as [PA PB PC PD PE PG].
      assert (Eend : o_ended yo' = o_ended yo).
      { rewrite E1. destruct (N.eqb_spec i j); [congruence|reflexivity]. }
      assert (Hsame : done_pc (pc y) = false -> st (vis_of s' (nm y)) = st (vis_of s (nm y))).
      { intros Hdy. rewrite Hst. destruct (N.eqb_spec (nm x) (nm y)) as [En|]; [|reflexivity].
        exfalso. apply Hne. eapply (U i j x y); eauto. }
      constructor; rewrite ?Hbeg, ?Eend, ?E2, ?E3; auto.
      * intros Hdy Hb. rewrite (Hsame Hdy). auto.
      * intros Hdy Hb Hsj. rewrite (Hsame Hdy). apply PG; auto. rewrite <- Hstg; auto.
  - (* uniq *)
    intros j1 j2 y1 y2 Hy1 Hy2 Hn Hd1 Hd2.
    assert (Hdone : done_pc (pc x') = false -> True) by auto.
    assert (Hback : forall j y, get j (insts s') = Some y -> done_pc (pc y) = false ->
                    exists y0, get j (insts s) = Some y0 /\ nm y0 = nm y /\ done_pc (pc y0) = false).
    { intros j y Hy Hd. destruct (N.eqb_spec j i) as [->|Hne].
      - exists x. assert (y = x') by congruence. subst y. repeat split; auto.
      - rewrite (Hfr j Hne) in Hy. eauto. }
    destruct (Hback _ _ Hy1 Hd1) as (z1 & Ez1 & Hn1 & Hz1). destruct (Hback _ _ Hy2 Hd2) as (z2 & Ez2 & Hn2 & Hz2).
    eapply (U j1 j2 z1 z2); eauto. congruence.
  - intros j Hj. rewrite Hbeg. apply B. destruct (N.eqb_spec j i) as [->|Hne]; [congruence|]. now rewrite <- (Hfr j Hne).
Qed.

Lemma forallb_not_begun (m : amap iid) i :
  forallb (fun p => negb (N.eqb (snd p) i)) m = true -> has i (map (fun p => (snd p, tt)) m) = false.
Proof.
  unfold has. induction m as [|[k v] r IH]; cbn; [reflexivity|].
  intros H. apply andb_true_iff in H. destruct H as [H1 H2]. apply negb_true_iff in H1. rewrite H1. auto.
Qed.

Lemma begin_effect s th i s' : step_core s th (EBegin i) = Some s' ->
  exists x, get i (insts s) = Some x /\ get th (thinst s) = None /\ begun s i = false /\ staged1 s i = true /\
            s' = s <| thinst := set th i (thinst s) |> <| stage := del i (stage s) |>.
Proof.
  intros H. cbn in H. break_step H. subst s'. split_andb. exists i0. repeat split.
  - unfold has in *. destruct (get th (thinst s)); [discriminate|reflexivity].
  - now apply forallb_not_begun.
  - unfold staged1. destruct (get i (stage s)) as [[c [|k]]|]; try discriminate; reflexivity.
Qed.

Lemma R2_on_status s o i x : R2 s o -> get i (insts s) = Some x ->
  r_status (on_get o (o_nm (oi_get o i))) = st (vis_of s (nm x)).
Proof.
  intros HR Hx. destruct (r2_r1 _ _ HR) as [HRc _].
  destruct (rc_inst _ _ _ HRc i x Hx) as (xo & Hxo & Hn & Hc & _).
  destruct (rc_name _ _ _ HRc _ _ Hc) as (v & r & Hv & Hr & _ & Hs & _).
  unfold oi_get, on_get, vis_of. now rewrite Hxo, Hn, Hr, Hv.
Qed.

Lemma R2_begin s o th i s' :
  R2 s o -> R1 cs s' (obs_step cs o (th, EBegin i)) -> step_core s th (EBegin i) = Some s' ->
  R2 s' (obs_step cs o (th, EBegin i)).
Proof.
  intros HR H1 Hk. destruct (begin_effect _ _ _ _ Hk) as (x & Hx & Hth & Hnb & Hsg & ->).
  set (s' := s <| thinst := set th i (thinst s) |> <| stage := del i (stage s) |>).
  assert (Hbeg : forall j, begun s' j = begun s j || N.eqb i j).
  { intros j. unfold begun. cbn. now apply has_swap_set. }
  assert (Hstg : forall j, j <> i -> staged1 s' j = staged1 s j).
  { intros j Hj. unfold staged1. cbn. rewrite get_del_other by congruence. reflexivity. }
  assert (Hvis : forall n, vis_of s' n = vis_of s n) by reflexivity.
  pose proof (obs_step_osame cs o th (EBegin i) eq_refl) as HO.
  destruct HR as [_ A U B]. constructor; auto.
  - intros j y yo' Hy Hyo. change (get j (insts s) = Some y) in Hy.
    destruct (osame_inv _ _ _ _ HO Hyo) as (yo & Eyo & (_ & _ & _ & _ & E2 & E1 & E3)).
    destruct (A _ _ _ Hy Eyo) as [PA PB PC PD PE PG].
    constructor; rewrite ?Hbeg, ?Hvis, ?E1, ?E2, ?E3; auto.
    + intros Hb. apply orb_false_iff in Hb. tauto.
    + intros Hd Hb. destruct (N.eqb_spec i j) as [<-|Hne].
      * assert (y = x) by congruence. subst y. pose proof (PD Hnb) as Hp0. rewrite (PG Hd Hnb Hsg).
        destruct (pc x); try discriminate. reflexivity.
      * rewrite orb_false_r in Hb. apply PE; auto.
    + intros Hd Hb Hs. apply orb_false_iff in Hb. destruct Hb as [Hb Hne]. apply N.eqb_neq in Hne.
      apply PG; auto. rewrite <- Hstg; auto.
  - intros j Hj. change (get j (insts s) = None) in Hj. rewrite Hbeg, (B j Hj). cbn. destruct (N.eqb_spec i j); [congruence|reflexivity].
Qed.

Lemma w_dup_newinst o th i n :
  w_dup (obs_step cs o (th, ENewInst i n)) =
  w_dup o || existsb (fun y => N.eqb (o_nm y) n && negb (o_ended y)) (vals (oi o)).
Proof. reflexivity. Qed.

Lemma R2_newinst s o th i n s' :
  R2 s o -> R1 cs s' (obs_step cs o (th, ENewInst i n)) -> step_reg s th (ENewInst i n) = Some s' ->
  w_dup (obs_step cs o (th, ENewInst i n)) = false ->
  R2 s' (obs_step cs o (th, ENewInst i n)).
Proof.
  intros HR H1 Hk Hw. destruct (newinst_effect _ _ _ _ _ Hk) as (c & Hc & Hi & Hcr & ->).
  rewrite w_dup_newinst in Hw. apply orb_false_iff in Hw. destruct Hw as [_ Hdup].
  destruct (r2_r1 _ _ HR) as [HRc _]. rewrite (rc_confs _ _ _ HRc) in Hc.
  (* every earlier instance of the name has ended *)
  assert (Hold : forall j y, get j (insts s) = Some y -> nm y = n -> done_pc (pc y) = true).
  { intros j y Hy Hn. destruct (rc_inst _ _ _ HRc j y Hy) as (yo & Hyo & Hno & _).
    assert (Hin : In yo (vals (oi o))) by (eapply get_in_vals; eauto).
    destruct (o_ended yo) eqn:Ee.
    - eapply (p_ended _ _ _ _ (r2_inst _ _ HR _ _ _ Hy Hyo)); eauto.
    - exfalso. assert (existsb (fun y => N.eqb (o_nm y) n && negb (o_ended y)) (vals (oi o)) = true); [|congruence].
      apply existsb_exists. exists yo. split; [exact Hin|]. rewrite Hno, Hn, N.eqb_refl, Ee. reflexivity. }
  set (s' := set_stage th i 0 (s <| insts := set i (new_inst n c) (insts s) |>)) in *.
  assert (Hins : insts s' = set i (new_inst n c) (insts s)) by reflexivity.
  assert (Hbeg : forall j, begun s' j = begun s j) by reflexivity.
  assert (Hst : forall m, vis_of s' m = vis_of s m) by reflexivity.
  assert (Hstg : forall j, staged1 s' j = if N.eqb i j then false else staged1 s j).
  { intros j. unfold staged1. change (stage s') with (set i (th, 0) (stage s)). rewrite get_set. destruct (N.eqb i j); reflexivity. }
  destruct HR as [_ A U B]. constructor; auto.
  - intros j y yo' Hy Hyo. apply obs_newinst_get in Hyo. rewrite Hins, get_set in Hy.
    destruct (N.eqb_spec i j) as [<-|Hne].
    + injection Hy as <-. destruct Hyo as (_ & _ & _ & _ & E2 & E1 & E3).
      constructor; rewrite ?Hbeg, ?Hst, ?Hstg, ?N.eqb_refl, ?E1, ?E2, ?E3, ?(B i Hi); cbn; auto; try discriminate.
    + destruct Hyo as (yo & Eyo & (_ & _ & _ & _ & E2 & E1 & E3)).
      destruct (A _ _ _ Hy Eyo) as [PA PB PC PD PE PG]. constructor; rewrite ?Hbeg, ?Hst, ?Hstg, ?E1, ?E2, ?E3; auto.
      destruct (N.eqb_spec i j); [contradiction|exact PG].
  - intros j1 j2 y1 y2 Hy1 Hy2 Hn Hd1 Hd2. rewrite Hins, get_set in Hy1, Hy2.
    destruct (N.eqb_spec i j1) as [<-|N1]; destruct (N.eqb_spec i j2) as [<-|N2]; auto.
    + injection Hy1 as <-. cbn in Hn. rewrite (Hold j2 y2 Hy2 (eq_sym Hn)) in Hd2. discriminate.
    + injection Hy2 as <-. cbn in Hn. rewrite (Hold j1 y1 Hy1 Hn) in Hd1. discriminate.
    + eapply U; eauto.
  - intros j Hj. rewrite Hins, get_set in Hj. destruct (N.eqb_spec i j); [discriminate|]. rewrite Hbeg. auto.
Qed.

Lemma R2_flush s o th : R2 s o -> R2 (flush th s) o.
Proof.
  intros HR. eapply R2_frame; eauto using msame_flush, osame_refl.
  - apply R1_flush. apply (r2_r1 _ _ HR).
  - apply stage_le_eq, flush_stage.
Qed.

Lemma asm_state o th i s0 : asm o (th, EState i s0) = true -> s0 = STerminating ->
  is_running_status (r_status (on_get o (o_nm (oi_get o i)))) = true /\ o_alive (oi_get o i) = true /\
  opt_eqb status_eqb (o_endst (oi_get o i)) (Some STerminating) = false.
Proof.
  intros H ->. cbn in H. apply andb_true_iff in H. destruct H as [H H3]. apply andb_true_iff in H. destruct H as [H1 H2].
  apply negb_true_iff in H3. auto.
Qed.

Lemma R2_step s o th e s' : R2 s o -> step s (th, e) = Some s' -> asm o (th, e) = true ->
  w_dup (obs_step cs o (th, e)) = false -> R2 s' (obs_step cs o (th, e)).
Proof.
  intros HR H Hasm Hw.
  assert (H1 : R1 cs s' (obs_step cs o (th, e))) by (eapply R1_step; eauto; apply (r2_r1 _ _ HR)).
  apply (R2_flush _ _ th) in HR. unfold step in H. cbn [fst snd] in H.
  set (s0 := flush th s) in *. clearbody s0. clear s.
  destruct (step_core_kind _ _ _ _ H) as [? ?|i x ? ? ? ? ? ?|Hk|Hk|Hk|i st0 ? Hk|i st0 b ? Hk|Hk|i ? Hk|Hk|Hk]; subst.
  - eapply R2_frame; eauto using msame_refl, obs_step_osame. apply stage_le_eq; reflexivity.
  - eapply R2_begin; eauto.
  - destruct (mexc e) eqn:Hex.
    + destruct (reg_mexc _ _ _ _ Hk Hex) as (i & n & ->). eapply R2_newinst; eauto.
    + eapply R2_frame; [eassumption|eassumption|eapply step_reg_msame; eauto|eapply step_reg_stage; eauto|apply obs_step_osame; eapply reg_oexc; eauto].
  - eapply R2_frame; [eassumption|eassumption|eapply step_api_msame; eauto|eapply step_api_stage; eauto|apply obs_step_osame; eapply api_oexc; eauto].
  - eapply R2_frame; [eassumption|eassumption|eapply step_stop_msame; eauto|eapply step_stop_stage; eauto|apply obs_step_osame; eapply stop_oexc; eauto].
  - eapply R2_state; eauto. intros Hs. destruct (asm_state _ _ _ _ Hasm Hs) as (_ & ? & ?). auto.
  - eapply R2_procend; eauto.
  - eapply R2_frame; [eassumption|eassumption|eapply step_shutdown_msame; eauto|eapply step_shutdown_stage; eauto|apply obs_step_osame; eapply shutdown_oexc; eauto].
  - eapply R2_frame; [eassumption|eassumption|eapply step_ordered_msame; eauto|eapply step_ordered_stage; eauto|apply obs_step_osame; reflexivity].
  - destruct (mexc e) eqn:Hex.
    + destruct (env_mexc _ _ _ _ Hk Hex) as (i & c & ->). eapply R2_cmdexit; eauto.
    + eapply R2_frame; [eassumption|eassumption|eapply step_env_msame; eauto|eapply step_env_stage; eauto|apply obs_step_osame; eapply env_oexc; eauto].
  - eapply R2_own; eauto.
Qed.

(* (a1) *)
Lemma R2_mon_legal s o th e s' : R2 s o -> step s (th, e) = Some s' -> asm o (th, e) = true -> mon_legal o (th, e) = true.
Proof.
  intros HR H Hasm. destruct e; try reflexivity.
  apply (R2_flush _ _ th) in HR. unfold step in H. cbn [fst snd] in H.
  change (step_state (flush th s) th i s0 = Some s') in H. set (sf := flush th s) in *. clearbody sf.
  destruct (state_effect _ _ _ _ _ H) as (x & x' & Hx & _ & _ & _ & _ & _ & _ & _ & _ & _ & _ & Htr & _).
  pose proof (R2_on_status _ _ _ _ HR Hx) as Hprev.
  destruct (r2_r1 _ _ HR) as [HRc _].
  destruct (rc_inst _ _ _ HRc i x Hx) as (xo & Hxo & Hn & Hc & Hla).
  destruct (r2_inst _ _ HR _ _ _ Hx Hxo) as [PA PB PC PD PE PG].
  assert (Hterm : s0 = STerminating -> is_running_status (st (vis_of sf (nm x))) = true).
  { intros Hs. destruct (asm_state _ _ _ _ Hasm Hs) as (Hr & _). now rewrite Hprev in Hr. }
  unfold mon_legal. cbn [snd]. rewrite Hprev. unfold oi_get. rewrite Hxo.
  destruct Htr as [c E1 E2 E3|E1 E2 E3|todo E1 E2 E3 E4 E5|E1 E2 E3 E4|c E1 E2 E3 E4|c E1 E2 E3].
  - specialize (Hterm E2). subst s0. destruct (st (vis_of sf (nm x))); try discriminate; reflexivity.
  - specialize (Hterm E2). subst s0. destruct (st (vis_of sf (nm x))); try discriminate; reflexivity.
  - (* initial Pending: the instance has never launched *) subst s0.
    rewrite Hla, PC by (now rewrite E2). cbn. now rewrite orb_true_r.
  - subst s0. assert (Hb : begun sf i = true) by (eapply begun_own; eauto).
    rewrite E2 in PE. specialize (PE eq_refl Hb). cbn in PE. destruct (st (vis_of sf (nm x))); try discriminate; reflexivity.
  - subst s0. assert (Hb : begun sf i = true) by (eapply begun_own; eauto).
    rewrite E2 in PE. specialize (PE eq_refl Hb). cbn in PE. destruct (st (vis_of sf (nm x))); try discriminate; reflexivity.
  - assert (Hb : begun sf i = true) by (eapply begun_own; eauto).
    rewrite E2 in PE. specialize (PE eq_refl Hb). destruct s0; cbn in PE; try discriminate;
    destruct (st (vis_of sf (nm x))); try discriminate; reflexivity.
Qed.

(* (b) *)
Lemma R2_mon_launch s o th e s' : R2 s o -> step s (th, e) = Some s' -> mon_launch o (th, e) = true.
Proof.
  intros HR H. destruct e; try reflexivity. destruct ok; [|reflexivity].
  apply (R2_flush _ _ th) in HR. unfold step in H. cbn [fst snd] in H.
  change (step_own (flush th s) th (ELaunch true) = Some s') in H. set (sf := flush th s) in *. clearbody sf.
  destruct (own_effect _ _ _ _ H) as (i & x & x' & Hth & Hx & _ & _ & _ & _ & _ & _ & Htr & _).
  pose proof (R2_on_status _ _ _ _ HR Hx) as Hprev.
  destruct (r2_r1 _ _ HR) as [HRc _].
  destruct (rc_inst _ _ _ HRc i x Hx) as (xo & Hxo & _).
  destruct (r2_inst _ _ HR _ _ _ Hx Hxo) as [PA PB PC PD PE PG].
  unfold mon_launch. cbn [fst snd ev_inst]. rewrite <- (rc_th _ _ _ HRc), Hth, Hprev.
  assert (Hb : begun sf i = true) by (eapply begun_own; eauto).
  cbn in Htr. destruct (pc x) eqn:Ep; try discriminate. specialize (PE eq_refl Hb). cbn in PE.
  destruct (st (vis_of sf (nm x))); try discriminate; reflexivity.
Qed.

Definition mon_ab (o : obs) (te : tid * event) : bool := mon_legal o te && mon_launch o te.

Theorem C09_legal_launch_holds ord evs s :
  accept (init cs ord) evs = Some s -> holds' cs asm evs = true -> w_dup (final_obs cs evs) = false ->
  holds' cs mon_legal evs = true /\ holds' cs mon_launch evs = true.
Proof.
  intros Hacc HA HW. apply andb_true_iff. rewrite <- holds'_and.
  eapply (sim2_holds cs ord (fun s o => w_dup o = true \/ R2 s o) mon_ab asm w_dup); eauto.
  - right. apply R2_init.
  - intros s1 o [th e] s1' HR Hs Ha. destruct (w_dup (obs_step cs o (th, e))) eqn:Ew; [auto|].
    destruct HR as [Hd|HR]; [rewrite (w_dup_mono cs o (th, e) Hd) in Ew; discriminate|].
    split; [right; eapply R2_step; eauto|]. left. unfold mon_ab.
    rewrite (R2_mon_legal _ _ _ _ _ HR Hs Ha), (R2_mon_launch _ _ _ _ _ HR Hs). reflexivity.
  - apply w_dup_mono.
Qed.
End RelC09b.

(* ---- the whole monitor ------------------------------------------------------------------------------------ *)
Definition C09_assumptions (cs : amap pconf) (evs : list (tid * event)) : bool := holds' cs asm evs.

Theorem C09_main_partial_lemma cs ord evs s :
  accept (init cs ord) evs = Some s -> C09_assumptions cs evs = true -> w_dup (final_obs cs evs) = false ->
  holds_C09 cs evs = true.
Proof.
  intros Hacc HA HW. rewrite holds_C09_split.
  destruct (C09_legal_launch_holds cs ord evs s Hacc HA HW) as [H1 H2].
  rewrite H1, H2, (C09_term_holds cs ord evs s Hacc), (C09_code_holds cs ord evs s Hacc). reflexivity.
Qed.

(* declarative readings: the check holds at every position of the history, on the facts accumulated before it *)
Definition obs_before (cs : amap pconf) (evs : list (tid * event)) (p : nat) : obs :=
  fold_left (obs_step cs) (firstn p evs) (obs0 cs).

Lemma holds'_nth cs m evs : holds' cs m evs = true ->
  forall p e, nth_error evs p = Some e -> m (obs_before cs evs p) e = true.
Proof.
  unfold holds'. destruct (mon_run cs m (obs0 cs) evs 0) eqn:E; [discriminate|]. intros _ p e Hp.
  eapply mon_run_None_nth; eauto.
Qed.

Theorem C09_code_declarative cs ord evs s : accept (init cs ord) evs = Some s ->
  forall p th c i, nth_error evs p = Some (th, EExitCode c) ->
    get th (o_th (obs_before cs evs p)) = Some i ->
    o_code (oi_get (obs_before cs evs p) i) = Some c.
Proof.
  intros Hacc p th c i Hp Hth. pose proof (holds'_nth _ _ _ (C09_code_holds cs ord evs s Hacc) p _ Hp) as H.
  unfold mon_code in H. cbn [fst snd ev_inst] in H. rewrite Hth in H.
  destruct (o_code (oi_get (obs_before cs evs p) i)) as [c0|]; cbn in H; [|discriminate].
  apply Z.eqb_eq in H. now subst.
Qed.

Theorem C09_term_declarative cs ord evs s : accept (init cs ord) evs = Some s ->
  forall p th i s0, nth_error evs p = Some (th, EState i s0) -> terminal s0 = true ->
    o_alive (oi_get (obs_before cs evs p) i) = false.
Proof.
  intros Hacc p th i s0 Hp Ht. pose proof (holds'_nth _ _ _ (C09_term_holds cs ord evs s Hacc) p _ Hp) as H.
  unfold mon_term in H. cbn [snd] in H. rewrite Ht in H. cbn in H. now apply negb_true_iff in H.
Qed.
