(* C08: with the guard "a thread creates one instance and spawns it before it creates another"
   (ENewInst requires that the creating thread has no stage entry below 3) the call theorems become exact:
   when a StartProcess / RestartProcess call returns, the number of instances it created equals the
   number it spawned. *)
From Coq Require Import List ZArith NArith Bool Lia.
From RecordUpdate Require Import RecordSet.
From PC.Base Require Import Assoc.
From PC.Sup Require Import Model Monitors Tactics Sim ObsFacts Effects RelCore Agreement LemC08 RelC08 RelC08b RelC08c CallC08 RegC08.
Import ListNotations RecordSetNotations.

(* ---- stage is touched only by the staged creation events ------------------------------------------------ *)
Lemma upd_inst_stage i f s : stage (upd_inst i f s) = stage s. Proof. frame_tac. Qed.
Lemma upd_vis_stage n f s : stage (upd_vis n f s) = stage s. Proof. frame_tac. Qed.
Lemma set_thread_stage th t s : stage (set_thread th t s) = stage s. Proof. reflexivity. Qed.
Lemma write_status_stage n s0 s : stage (write_status n s0 s) = stage s.
Proof. unfold write_status. now rewrite upd_vis_stage. Qed.
Lemma stage_fold_upd_inst (f : inst -> inst) l : forall s, stage (fold_left (fun s i => upd_inst i f s) l s) = stage s.
Proof. induction l as [|a l IH]; intros s; cbn; [reflexivity|]. now rewrite IH, upd_inst_stage. Qed.
#[local] Hint Rewrite upd_inst_stage upd_vis_stage set_thread_stage write_status_stage stage_fold_upd_inst : stg.

Ltac stg_close :=
  unfold set_pc, end_release_early, end_finish;
  repeat (progress (
    repeat match goal with
           | |- context[stage (if ?c then _ else _)] => destruct c
           | |- context[stage (match ?c with _ => _ end)] => destruct c
           end;
    autorewrite with stg; cbn [stage RecordSet.set eta_sys])); try reflexivity.

Definition stage_event (e : event) : bool :=
  match e with ENewInst _ _ | ERegAdd _ _ | ESpawn _ _ | EState _ _ | EBegin _ => true | _ => false end.

Lemma step_reg_stg s th e s' : stage_event e = false -> step_reg s th e = Some s' -> stage s' = stage s.
Proof. intros Hn H. destruct e; try discriminate Hn; kind_cases H; stg_close. Qed.
Lemma step_stop_stg s th e s' : step_stop s th e = Some s' -> stage s' = stage s.
Proof. intros H. destruct e; kind_cases H; stg_close. Qed.
Lemma step_env_stg s th e s' : step_env s th e = Some s' -> stage s' = stage s.
Proof. intros H. destruct e; kind_cases H; stg_close. Qed.
Lemma step_procend_stg s th i s0 b s' : step_procend s th i s0 b = Some s' -> stage s' = stage s.
Proof. intros H. kind_cases H; stg_close. Qed.
Lemma step_ordered_stg s th i s' : step_ordered_go s th i = Some s' -> stage s' = stage s.
Proof. intros H. kind_cases H; stg_close. Qed.
Lemma step_own_stg s th e s' : step_own s th e = Some s' -> stage s' = stage s.
Proof. intros H. destruct e; kind_cases H; stg_close. Qed.
Lemma step_shutdown_stg s th e s' : step_shutdown s th e = Some s' -> stage s' = stage s.
Proof. intros H. destruct e; kind_cases H; stg_close. Qed.
Lemma step_api_stg s th e s' : stage_event e = false -> step_api s th e = Some s' -> stage s' = stage s.
Proof. intros Hn H. destruct e; try discriminate Hn; kind_cases H; stg_close. Qed.

Lemma step_core_stg s th e s' : stage_event e = false -> step_core s th e = Some s' -> stage s' = stage s.
Proof.
  intros Hn H. destruct e; try discriminate Hn; unfold step_core in H;
  match type of H with
  | step_reg _ _ _ = _ => apply (step_reg_stg _ _ _ _ Hn H)
  | step_api _ _ _ = _ => apply (step_api_stg _ _ _ _ Hn H)
  | step_stop _ _ _ = _ => apply (step_stop_stg _ _ _ _ H)
  | step_procend _ _ _ _ _ = _ => apply (step_procend_stg _ _ _ _ _ _ H)
  | step_shutdown _ _ _ = _ => apply (step_shutdown_stg _ _ _ _ H)
  | step_ordered_go _ _ _ = _ => apply (step_ordered_stg _ _ _ _ H)
  | step_env _ _ _ = _ => apply (step_env_stg _ _ _ _ H)
  | step_own _ _ _ = _ => apply (step_own_stg _ _ _ _ H)
  | _ => idtac
  end.
  now injection H as <-.
Qed.

(* what a staged event does to the stage table: it writes ONE entry, of the acting thread *)
Lemma step_core_stage_eff s th e s' : stage_event e = true -> step_core s th e = Some s' ->
  (stage s' = stage s /\ exists i s0, e = EState i s0) \/
  (exists i k, stage s' = set i (th, k) (stage s) /\
     ((e = ENewInst i (match e with ENewInst _ n => n | _ => 0%N end) /\ k = 0 /\ get i (insts s) = None /\ get i (insts s') <> None /\
       creates (get_thread s th) (match e with ENewInst _ n => n | _ => 0%N end) = true /\
       forall j p, get j (stage s) = Some p -> fst p = th -> snd p < 3 -> False) \/
      (exists k0, get i (stage s) = Some (th, k0) /\ k0 < 3 /\ k = S k0 /\ (k = 3 <-> exists i' n, e = ESpawn i' n) /\
         (forall i' n', e <> ENewInst i' n') /\ (forall i', e <> EBegin i')))) \/
  (exists i cth, e = EBegin i /\ get i (stage s) = Some (cth, 3) /\ stage s' = del i (stage s)).
Proof.
  intros Hs H. destruct e; try discriminate Hs; unfold step_core in H.
  - (* ENewInst *) kind_cases H. right. left. exists i, 0. split; [reflexivity|]. left.
    apply negb_true_iff in E0. unfold has in E0. destruct (get i (insts s)) eqn:Ei; [discriminate|].
    repeat split; auto; [unfold set_stage; cbn; rewrite get_set_same; discriminate|].
    intros j [t k] Hj Ht Hk. cbn in Ht, Hk. subst t.
    apply get_in in Hj. rewrite forallb_forall in E2. specialize (E2 _ Hj). cbn [fst snd] in E2.
    rewrite N.eqb_refl in E2. apply Nat.ltb_lt in Hk. rewrite Hk in E2. discriminate.
  - (* ERegAdd *) kind_cases H. right. left. exists i, 2. split; [reflexivity|]. right. exists 1.
    unfold at_stage in E1. destruct (get i (stage s)) as [[t k]|]; [|discriminate]. split_andb.
    apply Nat.eqb_eq in H0. subst. repeat split; try lia; auto; try (intros; discriminate). intros (? & ? & Hc). discriminate Hc.
  - (* ESpawn *) kind_cases H; stg_close;
      (right; left; exists i, 3; split; [reflexivity|]; right; exists 2;
       match goal with E : at_stage _ _ _ _ = true |- _ => unfold at_stage in E; destruct (get i (stage s)) as [[t k]|]; [|discriminate E]; split_andb end;
       match goal with H0 : Nat.eqb _ _ = true |- _ => apply Nat.eqb_eq in H0 end; subst; repeat split; try lia; eauto; intros; discriminate).
  - (* EBegin *) break_step H. subst s'. right. right.
    destruct (get i (stage s)) as [[cth [|[|[|[|k]]]]]|] eqn:E5; try discriminate. exists i, cth. auto.
  - (* EState *) kind_cases H; stg_close; try (left; split; [reflexivity|eauto]; fail);
    (right; left; exists i, 1; split; [reflexivity|]; right; exists 0;
     match goal with E : at_stage _ _ _ _ = true |- _ => unfold at_stage in E; destruct (get i (stage s)) as [[t k]|]; [|discriminate E]; split_andb end;
     match goal with H0 : Nat.eqb _ _ = true |- _ => apply Nat.eqb_eq in H0 end; subst; repeat split; try lia; auto; try (intros (? & ? & Hc); discriminate Hc); intros; discriminate).
Qed.

Lemma flush_stage th s : stage (flush th s) = stage s.
Proof.
  unfold flush. destruct (get th (threads s)) as [t|]; [|reflexivity]. destruct (pend t) as [r|]; [|reflexivity].
  destruct r; unfold apply_release, end_release_early; autorewrite with stg; try reflexivity. destruct (code_set _); reflexivity.
Qed.

(* ---- the invariant ------------------------------------------------------------------------------------- *)
(* thread th has created instance i and not yet spawned it *)
Definition low (s : sys) (th : tid) (i : iid) : Prop := exists k, get i (stage s) = Some (th, k) /\ k < 3.
Definition nolow (s : sys) (th : tid) : Prop := forall i, ~ low s th i.

Definition J (s : sys) (th : tid) (cr sp : nat) : Prop :=
  (nolow s th /\ cr = sp) \/ ((exists i, low s th i) /\ cr = S sp).

Definition quiet (a : apipc) : bool := match a with ANone | AOk => true | _ => false end.

Record K (s : sys) (m : amap call) : Prop := mkK8 {
  k_inst : forall i p, get i (stage s) = Some p -> get i (insts s) <> None;
  k_uniq : forall th i1 i2, low s th i1 -> low s th i2 -> i1 = i2;
  k_quiet : forall th, quiet (apc_of s th) = true -> nolow s th;
  k_call : forall th c, get th m = Some c -> J s th (c_created c) (c_spawned c) }.

Lemma K_init cs ord : K (init cs ord) [].
Proof. constructor; cbn; try discriminate; [intros th i1 i2 (k & H & _); discriminate H|intros th _ i (k & H & _); discriminate H]. Qed.

Definition cs_of (c : option call) : option (nat * nat) := option_map (fun c => (c_created c, c_spawned c)) c.

Lemma cv_cs_self (m : amap call) (th : tid) (e : event) :
  cs_of (get th (cv_step m (th, e))) =
  match e with
  | EApiBegin _ => Some (0, 0)
  | EApiReturn _ => None
  | ENewInst _ _ => option_map (fun p => (S (fst p), snd p)) (cs_of (get th m))
  | ESpawn _ _ => option_map (fun p => (fst p, S (snd p))) (cs_of (get th m))
  | _ => cs_of (get th m)
  end.
Proof.
  unfold cv_step, cv_upd, cs_of. cbn [fst snd].
  destruct e; try reflexivity; try (destruct (get th m) as [c|] eqn:E; [rewrite get_set_same|rewrite E]; reflexivity).
  - now rewrite get_set_same.
  - now rewrite get_del_same.
Qed.

Lemma apc_quiet_back s th e s' : step_core s th e = Some s' -> (forall i n, e <> ESpawn i n) ->
  quiet (apc_of s' th) = true -> quiet (apc_of s th) = true.
Proof.
  intros H Hns Hq. destruct (api_event e) eqn:Ha.
  2:{ pose proof (step_core_apc _ _ _ _ H) as Hs. rewrite Ha in Hs. rewrite <- (Hs th) by (left; reflexivity). exact Hq. }
  unfold apc_of in *. destruct e; try discriminate Ha; unfold step_core in H; try (exfalso; eapply Hns; reflexivity);
    kind_cases H; revert Hq; autorewrite with sup; rewrite ?N.eqb_refl; cbn;
    repeat match goal with E : apc (get_thread _ _) = _ |- _ => rewrite E end; cbn;
    try discriminate; try (intros Hq; exact Hq); destruct_matches; cbn; try discriminate; auto.
Qed.

Lemma low_stage_eq s s' : stage s' = stage s -> forall th i, low s' th i <-> low s th i.
Proof. intros E th i. unfold low. now rewrite E. Qed.

Lemma J_same s s' th cr sp : (forall i, low s' th i <-> low s th i) -> J s th cr sp -> J s' th cr sp.
Proof.
  intros HL [[Hn He]|[(i & Hi) He]].
  - left. split; [|exact He]. intros i Hi. apply (Hn i). now apply HL.
  - right. split; [|exact He]. exists i. now apply HL.
Qed.

Lemma insts_mono s th e s' : step_core s th e = Some s' -> forall i, get i (insts s) <> None -> get i (insts s') <> None.
Proof.
  intros H i Hi. pose proof (step_core_end _ _ _ _ H i) as HE. destruct (get i (insts s)) as [x|]; [|congruence].
  destruct HE as (x' & -> & _). discriminate.
Qed.

Section KStep.
Context (m : amap call) (th : tid) (e : event) (s0 s' : sys).
Context (H : step_core s0 th e = Some s').
Context (Ki0 : forall i p, get i (stage s0) = Some p -> get i (insts s0) <> None).
Context (Ku0 : forall th' i1 i2, low s0 th' i1 -> low s0 th' i2 -> i1 = i2).
Context (Kq0 : forall th', quiet (apc_of s0 th') = true -> nolow s0 th').
Context (Kc0 : forall th' c, get th' m = Some c -> J s0 th' (c_created c) (c_spawned c)).

(* the stage table does not change and the event is neither a creation nor a spawn *)
Lemma K_unchanged : stage s' = stage s0 -> (forall i n, e <> ESpawn i n) -> (forall i n, e <> ENewInst i n) ->
  K s' (cv_step m (th, e)).
Proof.
  intros Hst Hns Hnn.
  pose proof (step_core_apc _ _ _ _ H) as Hapc. pose proof (insts_mono _ _ _ _ H) as Hmono.
  pose proof (low_stage_eq _ _ Hst) as HL.
  constructor.
  - intros i p. rewrite Hst. intros Hp. apply Hmono. eapply Ki0; eauto.
  - intros th' i1 i2 H1 H2. apply HL in H1, H2. eapply Ku0; eauto.
  - intros th' Hq i Hi. apply HL in Hi. revert i Hi. apply Kq0.
    destruct (N.eqb_spec th' th).
    + subst th'. apply (apc_quiet_back _ _ _ _ H Hns Hq).
    + rewrite <- (Hapc th') by (right; assumption). exact Hq.
  - intros th' c Hc. destruct (N.eqb_spec th' th).
    + subst th'. pose proof (cv_cs_self m th e) as Hcs. rewrite Hc in Hcs. cbn [cs_of option_map] in Hcs.
      destruct e; try (destruct (get th m) as [cq|] eqn:Ec; [|discriminate Hcs]; cbn in Hcs;
                       let E1 := fresh in let E2 := fresh in injection Hcs as E1 E2; rewrite E1, E2;
                       eapply J_same; [apply HL|apply (Kc0 th cq Ec)]; fail); try discriminate Hcs.
      * exfalso. eapply Hnn. reflexivity.
      * exfalso. eapply Hns. reflexivity.
      * (* EApiBegin *)
        injection Hcs as -> ->. left. split; [|reflexivity]. intros i Hi. apply HL in Hi. revert i Hi. apply Kq0.
        pose proof H as H2. unfold step_core in H2. unfold apc_of. kind_cases H2; reflexivity.
    + rewrite cv_step_other in Hc by assumption. eapply J_same; [apply HL|apply (Kc0 th' c Hc)].
Qed.

Lemma low_set_other i k : stage s' = set i (th, k) (stage s0) ->
  (get i (stage s0) = None \/ exists k0, get i (stage s0) = Some (th, k0)) ->
  forall th' j, th' <> th -> (low s' th' j <-> low s0 th' j).
Proof.
  intros Hs Hold th' j Hne. unfold low. rewrite Hs, get_set. destruct (N.eqb_spec i j); [|tauto]. subst j.
  split; intros (k1 & Hk & _); exfalso.
  - injection Hk as Hk _. congruence.
  - destruct Hold as [Ho|(k0 & Ho)]; rewrite Ho in Hk; [discriminate|]. injection Hk as Hk _. congruence.
Qed.

Lemma low_set_self i k : stage s' = set i (th, k) (stage s0) ->
  forall j, low s' th j <-> (j = i /\ k < 3) \/ (j <> i /\ low s0 th j).
Proof.
  intros Hs j. unfold low. rewrite Hs, get_set. destruct (N.eqb_spec i j).
  - subst j. split.
    + intros (k1 & Hk & Hl). injection Hk as <-. left. auto.
    + intros [[_ Hl]|[Hc _]]; [eauto|congruence].
  - split; [intros Hl; right; split; [congruence|exact Hl]|intros [[Hc _]|[_ Hl]]; [congruence|exact Hl]].
Qed.

Lemma creates_not_quiet t n : creates t n = true -> quiet (apc t) = false.
Proof. unfold creates. destruct (apc t); try discriminate; reflexivity. Qed.

(* NewProcess *)
Lemma K_new i n : e = ENewInst i n -> stage s' = set i (th, 0) (stage s0) -> get i (insts s0) = None ->
  get i (insts s') <> None -> creates (get_thread s0 th) n = true ->
  (forall j p, get j (stage s0) = Some p -> fst p = th -> snd p < 3 -> False) ->
  K s' (cv_step m (th, e)).
Proof.
  intros He Hs Hin Hin' Hcr Hguard.
  pose proof (step_core_apc _ _ _ _ H) as Hapc. pose proof (insts_mono _ _ _ _ H) as Hmono.
  assert (Hnone : get i (stage s0) = None).
  { destruct (get i (stage s0)) as [p|] eqn:E; [|reflexivity]. apply Ki0 in E. congruence. }
  assert (Hnl : nolow s0 th) by (intros j (k & Hk & Hl); apply (Hguard j (th, k) Hk eq_refl Hl)).
  pose proof (low_set_other i 0 Hs (or_introl Hnone)) as HLo.
  pose proof (low_set_self i 0 Hs) as HLs.
  assert (Hsame : forall th', apc_of s' th' = apc_of s0 th').
  { intros th'. apply Hapc. left. subst e. reflexivity. }
  constructor.
  - intros j p. rewrite Hs, get_set. destruct (N.eqb_spec i j); [subst j; intros _; exact Hin'|]. intros Hp. apply Hmono. eapply Ki0; eauto.
  - intros th' i1 i2 H1 H2. destruct (N.eqb_spec th' th).
    + subst th'. apply HLs in H1, H2. destruct H1 as [[-> _]|[_ H1]]; [|exfalso; eapply Hnl; eauto].
      destruct H2 as [[-> _]|[_ H2]]; [reflexivity|exfalso; eapply Hnl; eauto].
    + apply (HLo th' _ n0) in H1. apply (HLo th' _ n0) in H2. eapply Ku0; eauto.
  - intros th' Hq. rewrite Hsame in Hq. destruct (N.eqb_spec th' th).
    + subst th'. unfold apc_of in Hq. rewrite (creates_not_quiet _ _ Hcr) in Hq. discriminate Hq.
    + intros j Hj. apply (HLo th' j n0) in Hj. eapply Kq0; eauto.
  - intros th' c Hc. destruct (N.eqb_spec th' th).
    + subst th'. pose proof (cv_cs_self m th e) as Hcs. rewrite Hc in Hcs. subst e. cbn [cs_of option_map] in Hcs.
      destruct (get th m) as [cq|] eqn:Ec; [|discriminate Hcs]. cbn in Hcs. injection Hcs as E1 E2. rewrite E1, E2.
      destruct (Kc0 th cq Ec) as [[_ Heq]|[(j & Hj) _]]; [|exfalso; eapply Hnl; eauto].
      right. split; [|now rewrite Heq]. exists i. apply HLs. left. split; [reflexivity|lia].
    + rewrite cv_step_other in Hc by assumption. eapply J_same; [intros j; apply (HLo th' j n0)|apply (Kc0 th' c Hc)].
Qed.

(* Pending write, registration, spawn: the entry of the thread's one unfinished instance moves on *)
Lemma K_move i k0 : stage s' = set i (th, S k0) (stage s0) -> get i (stage s0) = Some (th, k0) -> k0 < 3 ->
  (S k0 = 3 <-> exists i' n, e = ESpawn i' n) -> (forall i' n', e <> ENewInst i' n') -> (forall i', e <> EBegin i') ->
  stage_event e = true -> K s' (cv_step m (th, e)).
Proof.
  intros Hs Hold Hk0 Hiff Hnn Hnb Hse.
  pose proof (step_core_apc _ _ _ _ H) as Hapc. pose proof (insts_mono _ _ _ _ H) as Hmono.
  pose proof (low_set_other i (S k0) Hs (or_intror (ex_intro _ k0 Hold))) as HLo.
  pose proof (low_set_self i (S k0) Hs) as HLs.
  assert (Hlow0 : low s0 th i) by (exists k0; auto).
  assert (Hother : forall th', th' <> th -> apc_of s' th' = apc_of s0 th') by (intros th' Hne; apply Hapc; now right).
  constructor.
  - intros j p. rewrite Hs, get_set. destruct (N.eqb_spec i j).
    + subst j. intros _. apply Hmono. eapply Ki0; eauto.
    + intros Hp. apply Hmono. eapply Ki0; eauto.
  - intros th' i1 i2 H1 H2. destruct (N.eqb_spec th' th).
    + subst th'. apply HLs in H1, H2.
      assert (A1 : i1 = i) by (destruct H1 as [[-> _]|[_ H1]]; [reflexivity|eapply Ku0; eauto]).
      assert (A2 : i2 = i) by (destruct H2 as [[-> _]|[_ H2]]; [reflexivity|eapply Ku0; eauto]). congruence.
    + apply (HLo th' _ n) in H1. apply (HLo th' _ n) in H2. eapply Ku0; eauto.
  - intros th' Hq. destruct (N.eqb_spec th' th).
    + subst th'. intros j Hj. apply HLs in Hj. destruct Hj as [[-> Hlt]|[Hne Hj]].
      * (* not yet spawned: the event is no API event, the thread was quiet before: impossible *)
        assert (Hns : forall i1 n1, e <> ESpawn i1 n1).
        { intros i1 n1 He. assert (S k0 = 3) by (apply Hiff; eauto). lia. }
        apply (Kq0 th (apc_quiet_back _ _ _ _ H Hns Hq) i Hlow0).
      * apply Hne. eapply Ku0; eauto.
    + rewrite Hother in Hq by assumption. intros j Hj. apply (HLo th' j n) in Hj. eapply Kq0; eauto.
  - intros th' c Hc. destruct (N.eqb_spec th' th).
    + subst th'. pose proof (cv_cs_self m th e) as Hcs. rewrite Hc in Hcs. cbn [cs_of option_map] in Hcs.
      destruct e; try discriminate Hse.
      * exfalso. eapply Hnn. reflexivity.
      * (* ERegAdd *) destruct (get th m) as [cq|] eqn:Ec; [|discriminate Hcs]. cbn in Hcs. injection Hcs as E1 E2. rewrite E1, E2.
        eapply J_same; [|apply (Kc0 th cq Ec)]. intros j. rewrite HLs.
        assert (S k0 < 3) by (destruct (Nat.eq_dec (S k0) 3) as [E3|]; [apply Hiff in E3; destruct E3 as (? & ? & E3); discriminate E3|lia]).
        split; [intros [[-> _]|[_ Hj]]; auto|intros Hj; destruct (N.eqb_spec j i); [left; auto|right; auto]].
      * (* ESpawn *) destruct (get th m) as [cq|] eqn:Ec; [|discriminate Hcs]. cbn in Hcs. injection Hcs as E1 E2. rewrite E1, E2.
        assert (E3 : S k0 = 3) by (apply Hiff; eauto).
        destruct (Kc0 th cq Ec) as [[Hn _]|[_ Heq]]; [exfalso; eapply Hn; eauto|].
        left. split; [|now rewrite Heq]. intros j Hj. apply HLs in Hj. destruct Hj as [[_ Hlt]|[Hne Hj]]; [lia|]. apply Hne. eapply Ku0; eauto.
      * exfalso. eapply Hnb. reflexivity.
      * (* EState *) destruct (get th m) as [cq|] eqn:Ec; [|discriminate Hcs]. cbn in Hcs. injection Hcs as E1 E2. rewrite E1, E2.
        eapply J_same; [|apply (Kc0 th cq Ec)]. intros j. rewrite HLs.
        assert (S k0 < 3) by (destruct (Nat.eq_dec (S k0) 3) as [E3|]; [apply Hiff in E3; destruct E3 as (? & ? & E3); discriminate E3|lia]).
        split; [intros [[-> _]|[_ Hj]]; auto|intros Hj; destruct (N.eqb_spec j i); [left; auto|right; auto]].
    + rewrite cv_step_other in Hc by assumption. eapply J_same; [intros j; apply (HLo th' j n)|apply (Kc0 th' c Hc)].
Qed.

(* the goroutine of a spawned instance begins *)
Lemma K_begin i cth : e = EBegin i -> get i (stage s0) = Some (cth, 3) -> stage s' = del i (stage s0) ->
  K s' (cv_step m (th, e)).
Proof.
  intros He Hold Hs.
  pose proof (step_core_apc _ _ _ _ H) as Hapc. pose proof (insts_mono _ _ _ _ H) as Hmono.
  assert (HL : forall th' j, low s' th' j <-> low s0 th' j).
  { intros th' j. unfold low. rewrite Hs, get_del. destruct (N.eqb_spec i j); [|tauto]. subst j.
    split; intros (k & Hk & Hl); [discriminate Hk|]. rewrite Hold in Hk. injection Hk as _ <-. lia. }
  assert (Hsame : forall th', apc_of s' th' = apc_of s0 th') by (intros th'; apply Hapc; left; subst e; reflexivity).
  constructor.
  - intros j p. rewrite Hs, get_del. destruct (N.eqb i j); [discriminate|]. intros Hp. apply Hmono. eapply Ki0; eauto.
  - intros th' i1 i2 H1 H2. apply HL in H1, H2. eapply Ku0; eauto.
  - intros th' Hq j Hj. rewrite Hsame in Hq. apply HL in Hj. eapply Kq0; eauto.
  - intros th' c Hc. rewrite cv_step_id in Hc by (subst e; reflexivity). eapply J_same; [apply HL|apply (Kc0 th' c Hc)].
Qed.

Lemma K_core : K s' (cv_step m (th, e)).
Proof.
  destruct (stage_event e) eqn:Hse.
  - destruct (step_core_stage_eff _ _ _ _ Hse H) as
      [[Hst (i & st0 & He)]|[(i & k & Hs & [(He & Hk & Hin & Hin' & Hcr & Hg)|(k0 & Hold & Hk0 & Hk & Hiff & Hnn & Hnb)])|(i & cth & He & Hold & Hs)]].
    + apply K_unchanged; [exact Hst|intros ? ? Hc; rewrite He in Hc; discriminate Hc|intros ? ? Hc; rewrite He in Hc; discriminate Hc].
    + subst k. eapply K_new; eauto.
    + subst k. eapply K_move; eauto.
    + eapply K_begin; eauto.
  - apply K_unchanged; [apply (step_core_stg _ _ _ _ Hse H)|intros ? ? Hc; rewrite Hc in Hse; discriminate Hse|intros ? ? Hc; rewrite Hc in Hse; discriminate Hse].
Qed.
End KStep.

Lemma K_step s m th e s' : K s m -> step s (th, e) = Some s' -> K s' (cv_step m (th, e)).
Proof.
  intros [Ki Ku Kq Kc] H. unfold step in H. cbn [fst snd] in H.
  assert (HL0 : forall th' i, low (flush th s) th' i <-> low s th' i) by (apply low_stage_eq, flush_stage).
  apply (K_core m th e (flush th s) s' H).
  - intros i p. rewrite flush_stage. intros Hp. specialize (Ki i p Hp).
    pose proof (flush_insts th s i) as HF. destruct (get i (insts s)) as [x|]; [|congruence]. destruct HF as (x' & -> & _). discriminate.
  - intros th' i1 i2 H1 H2. apply HL0 in H1, H2. eapply Ku; eauto.
  - intros th' Hq i Hi. rewrite apc_of_flush in Hq. apply (Kq th' Hq i). now apply HL0.
  - intros th' c Hc. eapply J_same; [|apply (Kc th' c Hc)]. intros i. apply HL0.
Qed.

(* ---- theorems -------------------------------------------------------------------------------------------- *)
Lemma accept_K : forall evs s m s', K s m -> accept s evs = Some s' -> K s' (fold_left cv_step evs m).
Proof.
  induction evs as [|[th e] evs IH]; intros s m s' HK H; cbn in *.
  - now injection H as <-.
  - destruct (step s (th, e)) as [s1|] eqn:Es; [|discriminate]. eapply IH; [|exact H]. exact (K_step s m th e s1 HK Es).
Qed.

Lemma accept_CR cs : forall evs s o m s', Rc cs s o -> CR cs s m -> accept s evs = Some s' ->
  CR cs s' (fold_left cv_step evs m).
Proof.
  induction evs as [|[th e] evs IH]; intros s o m s' HR HC H; cbn in *.
  - now injection H as <-.
  - destruct (step s (th, e)) as [s1|] eqn:Es; [|discriminate].
    eapply IH; [eapply Rc_step; eauto| |exact H]. apply (CR_step cs s m th e s1 (rc_confs _ _ _ HR) HC Es).
Qed.

(* when a StartProcess / RestartProcess call returns, it has created exactly as many instances as it spawned *)
Theorem C08_created_eq_spawned_lemma : forall cs ord evs s, accept (init cs ord) evs = Some s ->
  forall pre th ok post, evs = pre ++ (th, EApiReturn ok) :: post ->
  forall c n, get th (cv_of pre) = Some c -> (c_op c = OpStart n \/ c_op c = OpRestart n) ->
  c_created c = c_spawned c.
Proof.
  intros cs ord evs s Hacc pre th ok post -> c n Hc Hop.
  destruct (PC.Sup.RelC08c.accept_app _ _ _ _ _ Hacc) as (s1 & s2 & Hpre & Hst & _).
  pose proof (accept_K pre _ _ _ (K_init cs ord) Hpre) as HK. fold (cv_of pre) in HK.
  pose proof (accept_CR cs pre _ _ _ _ (Rc_init cs ord) (CR_init cs ord) Hpre) as HC. fold (cv_of pre) in HC.
  specialize (HC th). rewrite Hc in HC.
  (* the thread is about to return: its apc is AFail or AOk *)
  unfold step in Hst. cbn [fst snd] in Hst.
  assert (Ha : apc_of s1 th = AFail \/ apc_of s1 th = AOk).
  { rewrite <- (apc_of_flush th s1 th). unfold apc_of. unfold step_core in Hst. kind_cases Hst; auto;
      rewrite <- (apc_of_flush th s1 th) in HC; unfold apc_of in HC;
      match goal with E : apc (get_thread _ _) = _ |- _ => rewrite E in HC end;
      unfold phase_ok in HC; destruct Hop as [Hop|Hop]; rewrite Hop in HC; discriminate HC. }
  destruct Ha as [Ha|Ha].
  - rewrite Ha in HC. unfold phase_ok in HC. destruct Hop as [Hop|Hop]; rewrite Hop in HC; unfold z in HC;
      repeat (apply andb_true_iff in HC; destruct HC as [HC ?]);
      repeat match goal with H0 : Nat.eqb _ _ = true |- _ => apply Nat.eqb_eq in H0 end; congruence.
  - assert (Hq : quiet (apc_of s1 th) = true) by now rewrite Ha.
    destruct (k_call _ _ HK th c Hc) as [[_ He]|[(i & Hi) _]]; [exact He|].
    exfalso. apply (k_quiet _ _ HK th Hq i Hi).
Qed.

(* ---- the exact forms of the call theorems ------------------------------------------------------------------ *)
Theorem C08_start_exact_lemma : forall cs ord evs s, accept (init cs ord) evs = Some s ->
  forall pre th ok post, evs = pre ++ (th, EApiReturn ok) :: post ->
  forall c n, get th (cv_of pre) = Some c -> c_op c = OpStart n ->
  (ok = true <-> c_found c = Some false /\ has n cs = true) /\
  c_created c = (if ok then 1 else 0) /\ c_spawned c = (if ok then 1 else 0) /\ c_stops c = 0.
Proof.
  intros cs ord evs s Hacc pre th ok post E c n Hc Hop.
  destruct (C08_start_call_lemma cs ord evs s Hacc pre th ok post E c n Hc Hop) as (A & B & _ & D).
  pose proof (C08_created_eq_spawned_lemma cs ord evs s Hacc pre th ok post E c n Hc (or_introl Hop)) as Heq.
  repeat split; try apply A; auto; congruence.
Qed.

Theorem C08_restart_exact_lemma : forall cs ord evs s, accept (init cs ord) evs = Some s ->
  forall pre th ok post, evs = pre ++ (th, EApiReturn ok) :: post ->
  forall c n, get th (cv_of pre) = Some c -> c_op c = OpRestart n ->
  ok = has n cs /\ c_created c = (if ok then 1 else 0) /\ c_spawned c = (if ok then 1 else 0) /\
  (c_found c <> Some true -> c_stops c = 0).
Proof.
  intros cs ord evs s Hacc pre th ok post E c n Hc Hop.
  destruct (C08_restart_call_lemma cs ord evs s Hacc pre th ok post E c n Hc Hop) as (A & B & _ & D).
  pose proof (C08_created_eq_spawned_lemma cs ord evs s Hacc pre th ok post E c n Hc (or_intror Hop)) as Heq.
  repeat split; auto; congruence.
Qed.

Theorem C08_start_registered_exact_lemma : forall cs ord evs s, accept (init cs ord) evs = Some s ->
  forall pre th ok post, evs = pre ++ (th, EApiReturn ok) :: post ->
  forall c n, get th (cv_of pre) = Some c -> c_op c = OpStart n ->
  exists pre0 mid r,
    pre = pre0 ++ (th, ERegGet n r) :: mid /\ r = get n (rv_reg (rv_of pre0)) /\
    (ok = true <-> r = None /\ has n cs = true) /\
    c_created c = (if ok then 1 else 0) /\ c_spawned c = (if ok then 1 else 0) /\ c_stops c = 0.
Proof.
  intros cs ord evs s Hacc pre th ok post E c n Hc Hop.
  destruct (C08_start_registered_lemma cs ord evs s Hacc pre th ok post E c n Hc Hop) as (pre0 & mid & r & A & B & C & D & _ & F).
  pose proof (C08_created_eq_spawned_lemma cs ord evs s Hacc pre th ok post E c n Hc (or_introl Hop)) as Heq.
  exists pre0, mid, r. repeat split; try apply C; auto; congruence.
Qed.

Theorem C08_restart_registered_exact_lemma : forall cs ord evs s, accept (init cs ord) evs = Some s ->
  forall pre th ok post, evs = pre ++ (th, EApiReturn ok) :: post ->
  forall c n, get th (cv_of pre) = Some c -> c_op c = OpRestart n ->
  exists pre0 mid r,
    pre = pre0 ++ (th, ERegGet n r) :: mid /\ r = get n (rv_reg (rv_of pre0)) /\
    ok = has n cs /\ c_created c = (if ok then 1 else 0) /\ c_spawned c = (if ok then 1 else 0) /\
    (ok = false -> r = None).
Proof.
  intros cs ord evs s Hacc pre th ok post E c n Hc Hop.
  destruct (C08_restart_registered_lemma cs ord evs s Hacc pre th ok post E c n Hc Hop) as (pre0 & mid & r & A & B & C & D & F).
  pose proof (C08_created_eq_spawned_lemma cs ord evs s Hacc pre th ok post E c n Hc (or_intror Hop)) as Heq.
  exists pre0, mid, r. repeat split; auto; try congruence. intros Hf. now apply F.
Qed.
