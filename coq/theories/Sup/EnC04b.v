(* C04 enabledness, part 3: an instance goroutine that is not waiting for anything outside itself has an
   enabled step of its own.  Statement: Props/C04.v (C04_own_step_enabled). *)
From Coq Require Import List ZArith NArith Bool Lia.
From RecordUpdate Require Import RecordSet.
From PC.Base Require Import Assoc.
From PC.Sup Require Import Model Monitors Tactics Sim ObsFacts Effects RelCore
  LemC04 LemC04i LemC04s LemC04n LemC04g LemC04o LemC04c LemC04l RelC04 EnC04 EnC04p.
Import ListNotations RecordSetNotations.

(* ---- pc_ok holds in every reachable state ------------------------------------------------------------- *)
Definition R7 (s : sys) : Prop := forall j x, get j (insts s) = Some x -> pc_ok x = true.

Lemma R7_step s te s' : R7 s -> step s te = Some s' -> R7 s'.
Proof.
  intros H7 H. destruct te as [th e]. unfold step in H. cbn [fst snd] in H.
  assert (H70 : R7 (flush th s)).
  { intros j x0 Hx0. pose proof (flush_insts th s j) as F. destruct (get j (insts s)) as [x|] eqn:Hx; [|congruence].
    destruct F as (x1 & E1 & L). assert (x1 = x0) by congruence. subst x1. unfold inst_latch_le in L.
    destruct L as (_ & _ & Ep & _ & _ & _ & _ & _ & Ed & _). specialize (H7 j x Hx). unfold pc_ok in *. now rewrite Ep, Ed. }
  intros j x' Hx'. destruct (get j (insts (flush th s))) as [x|] eqn:Hx.
  - destruct (core_pcok _ _ _ _ H j x Hx) as (x2 & E2 & Hok). assert (x2 = x') by congruence. subst. apply Hok, (H70 j x Hx).
  - destruct (is_newinst_dec e j) as [(n & ->)|Hno]; [|rewrite (core_none _ _ _ _ H j Hx Hno) in Hx'; discriminate].
    destruct (newinst_eff _ _ _ _ _ H) as (_ & c & Hget). rewrite Hget, N.eqb_refl in Hx'. injection Hx' as <-. reflexivity.
Qed.

Lemma R7_run : forall evs s s', R7 s -> accept s evs = Some s' -> R7 s'.
Proof.
  induction evs as [|e r IH]; intros s s' H7 Hacc; cbn in Hacc; [now injection Hacc as <-|].
  destruct (step s e) as [s1|] eqn:Es; [|discriminate]. eapply IH; [eapply R7_step; eauto|exact Hacc].
Qed.
Lemma R7_reach cs ord evs s : accept (init cs ord) evs = Some s -> R7 s.
Proof. apply R7_run. intros j x Hx. discriminate Hx. Qed.

(* ---- flush, seen from the flushing thread's own instance ----------------------------------------------- *)
Lemma flush_lock th s : lock_free s = true -> lock_free (flush th s) = true.
Proof.
  unfold flush, lock_free. destruct (get th (threads s)) as [t|]; [|auto]. destruct (pend t) as [r|]; [|auto].
  destruct r; unfold apply_release; sup_simpl; cbn; auto. destruct (code_set _); cbn; auto.
Qed.

Lemma latch_le_released c y y' : inst_latch_le y y' -> latch_released c y = true -> latch_released c y' = true.
Proof.
  unfold inst_latch_le. intros (_ & _ & _ & _ & _ & _ & _ & _ & _ & Ld & Ls & Lr & Lre & Ll). destruct c; cbn; auto.
  - destruct (l_logready y) as [b|]; [|discriminate]. intros _. now rewrite (Ll b eq_refl).
  - intros H. apply orb_true_iff in H. apply orb_true_iff. destruct H; auto.
Qed.

(* ---- the statement ------------------------------------------------------------------------------------ *)
(* the goroutine of instance i waits for something outside itself (or is outside the part covered here) *)
Definition busy (s : sys) (th : tid) (i : iid) (x : inst) : bool :=
  (match pc x with
   | IAlive => match exited x with None => true | Some _ => false end      (* (a) its command has not exited *)
   | IBlocked k c j _ => match get j (insts s) with                        (* (b) the awaited latch is not released *)
                         | Some y => negb (latch_released c y) | None => true end
   | IWgDone => opt_eqb N.eqb (get (nm x) (running s)) (Some i) && negb (lock_free s)   (* (d) registry lock held *)
   | IGone => true                                                         (* (e) gone *)
   | IDeps (_ :: _) => true                                                (* dependency lookups: not covered *)
   | _ => false
   end)
  || negb (match spc (get_thread s th), dpc (get_thread s th) with SIdle, DNone => true | _, _ => false end).
                                                                           (* (f) inside ShutDownProject / a stop execution *)

(* the events of an instance goroutine at each program counter *)
Definition own_event (p : ipc) (e : event) : bool :=
  match p, e with
  | IDeps [], ERunChecked _ | IBlocked _ _ _ _, EDepDone _ _ | ISkipDecided, ESkip | IPreStart, EStarted
  | IPreLaunch, EState _ SRunning | IStateSet, ELaunch _ | IAlive, EWaitReturn _ | IExited _, EExitCode _
  | ICodeWritten _, ERestartDecision _ | IWillRestart _, EState _ SRestarting | IRestarting _, EBackoffWait _
  | IBackoff _, EBackoffElapsed | IEnding _ _, EProcEnd _ _ | IInEnd _ _ false, EState _ _ | IInEnd _ _ true, EProcEnded _ _
  | IRunRet _, ERunReturned _ | IDoneReg _, EDoneAdd _ | IDoneReg _, EInstDone
  | IProjEnd _ _, EDoneAdd _ | IProjEnd _ _, EExitTrigger _ | IProjEnd _ _, EInstExit
  | ITriggered _, EShutdownCall | ILeaving, EInstExit | IWgDone, ERegDel _ | IWgDone, EInstGone => true
  | _, _ => false
  end.

Ltac own_go :=
  eexists; split; [reflexivity|]; cbn [step_core]; unfold step_own, own_inst;
  match goal with H1 : get _ (thinst _) = Some _, H2 : get _ (insts _) = Some _, H3 : pc _ = _ |- _ =>
    rewrite H1, H2; cbn [fst snd]; rewrite H3 end;
  cbn; rewrite ?N.eqb_refl, ?Z.eqb_refl, ?eqb_reflx, ?status_eqb_refl; cbn; try reflexivity.

Theorem own_step_enabled : forall cs ord evs s th i x,
  accept (init cs ord) evs = Some s ->
  get th (thinst s) = Some i -> get i (insts s) = Some x -> busy s th i x = false ->
  exists e s', own_event (pc x) e = true /\ step s (th, e) = Some s'.
Proof.
  intros cs ord evs s th i x Hacc Hth Hx Hb.
  pose proof (R7_reach _ _ _ _ Hacc i x Hx) as Hok.
  apply orb_false_iff in Hb. destruct Hb as [Hb Hidle]. apply negb_false_iff in Hidle.
  destruct (flush_spec th s) as (F1 & _ & F3 & _).
  pose proof (flush_insts th s i) as Fi. rewrite Hx in Fi. destruct Fi as (x0 & Hx0 & L).
  pose proof L as L'. unfold inst_latch_le in L'. destruct L' as (Enm & Ecf & Epc & _ & _ & Eex & _ & _ & Eda & _).
  set (s0 := flush th s) in *.
  assert (Hth0 : get th (thinst s0) = Some i) by (rewrite F1; exact Hth).
  assert (Hspc0 : spc (get_thread s0 th) = SIdle /\ dpc (get_thread s0 th) = DNone).
  { unfold s0. rewrite F3, N.eqb_refl. cbn. destruct (spc (get_thread s th)); try discriminate. destruct (dpc (get_thread s th)); try discriminate. auto. }
  destruct Hspc0 as [Hspc0 Hdpc0].
  unfold step. cbn [fst snd]. fold s0.
  unfold pc_ok in Hok. rewrite <- Epc in Hb, Hok |- *.
  destruct (pc x0) eqn:Hp.
  - (* IDeps *) destruct todo; [|discriminate].
    exists (ERunChecked (l_runctx x0 || status_eqb (st (vis_of s0 (nm x0))) STerminating)). own_go.
  - (* IBlocked *)
    destruct (get j (insts s)) as [y|] eqn:Hy; [|discriminate]. apply negb_false_iff in Hb.
    pose proof (flush_insts th s j) as Fj. rewrite Hy in Fj. destruct Fj as (y0 & Hy0 & Ly). fold s0 in Hy0.
    pose proof (latch_le_released _ _ _ Ly Hb) as Hrel.
    exists (EDepDone k (wait_result s0 c y0)). own_go. rewrite Hy0, Hrel, eqb_reflx. reflexivity.
  - exists ESkip. own_go.
  - exists EStarted. own_go.
  - (* IPreLaunch *) exists (EState i SRunning). eexists. split; [reflexivity|]. cbn [step_core]. unfold step_state.
    rewrite Hx0, Hspc0, Hth0. cbn. rewrite N.eqb_refl, Hp. reflexivity.
  - exists (ELaunch (negb (start_fail (cf x0)))). own_go.
  - (* IAlive *) rewrite <- Eex in Hb. destruct (exited x0) as [c|] eqn:He; [|discriminate].
    exists (EWaitReturn c). own_go. rewrite He. cbn. rewrite Z.eqb_refl. reflexivity.
  - exists (EExitCode c). own_go.
  - exists (ERestartDecision (restart_ok (f_stopped x0) (pol (cf x0)) c (maxr (cf x0)) (restarts (vis_of s0 (nm x0))))). own_go.
  - (* IWillRestart *) exists (EState i SRestarting). eexists. split; [reflexivity|]. cbn [step_core]. unfold step_state.
    rewrite Hx0, Hspc0, Hth0. cbn. rewrite N.eqb_refl, Hp. reflexivity.
  - exists (EBackoffWait (N.max 1 (backoff (cf x0)))). own_go.
  - exists EBackoffElapsed. own_go.
  - (* IEnding *) exists (EProcEnd i s1). eexists. split; [reflexivity|]. cbn [step_core]. unfold step_procend.
    rewrite Hx0, Hspc0, Hth0. cbn. rewrite N.eqb_refl, Hp, status_eqb_refl. reflexivity.
  - (* IInEnd *) apply negb_true_iff in Hok. destruct stage.
    + exists (EProcEnded i s1). eexists. split; [reflexivity|]. cbn [step_core]. unfold step_procend.
      rewrite Hx0, Hspc0, Hth0. cbn. rewrite N.eqb_refl, Hp, status_eqb_refl. reflexivity.
    + exists (EState i s1). eexists. split; [reflexivity|]. cbn [step_core]. unfold step_state.
      rewrite Hx0, Hspc0, Hth0, Hok. cbn. rewrite N.eqb_refl, Hp, status_eqb_refl. reflexivity.
  - exists (ERunReturned (match c with Some l => l | None => code (vis_of s0 (nm x0)) end)). own_go.
  - (* IDoneReg *) destruct (d_added x0) eqn:Hd.
    + exists EInstDone. own_go. rewrite Hd. reflexivity.
    + exists (EDoneAdd i). eexists. split; [reflexivity|]. cbn [step_core]. unfold step_reg.
      rewrite Hx0, Hth0. cbn. rewrite N.eqb_refl, Hp. reflexivity.
  - (* IProjEnd *) destruct (d_added x0) eqn:Hd.
    + destruct (is_trigger (cf x0) c skipped) eqn:Ht.
      * exists (EExitTrigger c). own_go. rewrite Ht, Hd. reflexivity.
      * exists EInstExit. own_go. rewrite Ht, Hd. reflexivity.
    + destruct skipped; [|rewrite <- Eda in Hok; congruence].
      exists (EDoneAdd i). eexists. split; [reflexivity|]. cbn [step_core]. unfold step_reg.
      rewrite Hx0, Hth0. cbn. rewrite N.eqb_refl, Hp. reflexivity.
  - (* ITriggered *) exists EShutdownCall. eexists. split; [reflexivity|]. cbn [step_core]. unfold step_shutdown, own_inst.
    rewrite Hdpc0, Hth0, Hx0, Hp. destruct (apc (get_thread s0 th)); reflexivity.
  - discriminate Hok.
  - exists EInstExit. own_go.
  - (* IWgDone *) rewrite <- Enm in Hb. assert (Hrun : running s0 = running s) by apply flush_running.
    destruct (opt_eqb N.eqb (get (nm x0) (running s)) (Some i)) eqn:Hr.
    + cbn in Hb. apply negb_false_iff in Hb. pose proof (flush_lock th s Hb) as Hl. fold s0 in Hl.
      exists (ERegDel i). eexists. split; [reflexivity|]. cbn [step_core]. unfold step_reg.
      rewrite Hx0, Hl, Hrun, Hr, Hth0. cbn. rewrite N.eqb_refl, Hp. reflexivity.
    + exists EInstGone. own_go. rewrite Hrun, Hr. reflexivity.
  - discriminate Hb.
Qed.


(* ---- a spawned goroutine can begin --------------------------------------------------------------------- *)
Definition R8 (s : sys) : Prop := NoDup (map fst (thinst s)).

Lemma R8_step s te s' : R8 s -> step s te = Some s' -> R8 s'.
Proof.
  intros H8 H. destruct te as [th e]. unfold step in H. cbn [fst snd] in H.
  destruct (core_scal _ _ _ _ H) as (_ & _ & _ & Sthi & _). unfold R8. rewrite Sthi, flush_thinst.
  destruct e; try exact H8. now apply nodup_set.
Qed.
Lemma R8_reach cs ord evs s : accept (init cs ord) evs = Some s -> R8 s.
Proof.
  assert (Hrun : forall evs s s', R8 s -> accept s evs = Some s' -> R8 s').
  { induction evs0 as [|e r IH]; intros s1 s2 H8 Hacc; cbn in Hacc; [now injection Hacc as <-|].
    destruct (step s1 e) as [s3|] eqn:Es; [|discriminate]. eapply IH; [eapply R8_step; eauto|exact Hacc]. }
  apply Hrun. constructor.
Qed.

Lemma in_get_nodup {V} (m : amap V) k v : NoDup (map fst m) -> In (k, v) m -> get k m = Some v.
Proof.
  induction m as [|[k' v'] r IH]; cbn; [tauto|]. intros Hn [E|Hin].
  - injection E as -> ->. now rewrite N.eqb_refl.
  - inversion Hn as [|? ? Hni Hr]; subst. destruct (N.eqb_spec k' k); [|auto]. subst. exfalso. apply Hni.
    change k with (fst (k, v)). now apply in_map.
Qed.

(* a thread identifier that is not in use *)
Definition fresh_tid (s : sys) : tid := N.succ (fold_right N.max 0%N (map fst (thinst s) ++ map fst (threads s))).
Lemma max_ge l k : In k l -> (k <= fold_right N.max 0 l)%N.
Proof. induction l as [|a r IH]; cbn; [tauto|]. intros [->|H]; [lia|]. specialize (IH H). lia. Qed.
Lemma fresh_tid_thinst s : get (fresh_tid s) (thinst s) = None.
Proof.
  destruct (get (fresh_tid s) (thinst s)) as [i|] eqn:E; [|reflexivity]. apply get_in in E.
  assert (Hin : In (fresh_tid s) (map fst (thinst s) ++ map fst (threads s))).
  { apply in_or_app. left. change (fresh_tid s) with (fst (fresh_tid s, i)). now apply in_map. }
  apply max_ge in Hin. unfold fresh_tid in Hin at 1. lia.
Qed.
Lemma fresh_tid_threads s : get (fresh_tid s) (threads s) = None.
Proof.
  destruct (get (fresh_tid s) (threads s)) as [t|] eqn:E; [|reflexivity]. apply get_in in E.
  assert (Hin : In (fresh_tid s) (map fst (thinst s) ++ map fst (threads s))).
  { apply in_or_app. right. change (fresh_tid s) with (fst (fresh_tid s, t)). now apply in_map. }
  apply max_ge in Hin. unfold fresh_tid in Hin at 1. lia.
Qed.

Theorem spawned_can_begin : forall cs ord evs s i c,
  accept (init cs ord) evs = Some s -> get i (stage s) = Some (c, 3) ->
  exists th s', get th (thinst s) = None /\ step s (th, EBegin i) = Some s'.
Proof.
  intros cs ord evs s i c Hacc Hst. destruct (reach cs ord evs s Hacc) as (o & g & HR & H5 & _).
  pose proof (R8_reach _ _ _ _ Hacc) as H8.
  destruct (r5_stage _ _ H5 i _ Hst) as (x & Hx).
  set (th := fresh_tid s). exists th. pose proof (fresh_tid_thinst s) as Ft. pose proof (fresh_tid_threads s) as Fr. fold th in Ft, Fr.
  assert (Hfl : flush th s = s) by (unfold flush; now rewrite Fr).
  eexists. split; [exact Ft|]. unfold step. cbn [fst snd]. rewrite Hfl. unfold step_core. rewrite Hx. unfold has. rewrite Ft, Fr. cbn.
  assert (Hall : forallb (fun p : N * N => negb (snd p =? i)%N) (thinst s) = true).
  { apply forallb_forall. intros [t j] Hin. cbn. apply negb_true_iff, N.eqb_neq. intros ->.
    pose proof (in_get_nodup _ _ _ H8 Hin) as Hg. rewrite (r_nostage _ _ _ _ HR t i Hg) in Hst. discriminate. }
  rewrite Hall, Hst. reflexivity.
Qed.

(* ---- deadlock-freedom modulo "busy" -------------------------------------------------------------------- *)
Definition R9 (s : sys) : Prop := NoDup (map fst (stage s)).

Lemma keys_del {V} k (m : amap V) j : In j (map fst (del k m)) -> In j (map fst m).
Proof.
  induction m as [|[a v] r IH]; cbn; [tauto|]. destruct (N.eqb a k); cbn; [auto|]. intros [H|H]; auto.
Qed.
Lemma nodup_del {V} k (m : amap V) : NoDup (map fst m) -> NoDup (map fst (del k m)).
Proof.
  induction m as [|[a v] r IH]; cbn; intros H; [constructor|]. inversion H as [|? ? Hn Hr]; subst.
  destruct (N.eqb a k); cbn; [auto|]. constructor; [|auto]. intros Hin. apply Hn. eapply keys_del; eauto.
Qed.

Lemma R9_step s te s' : R9 s -> step s te = Some s' -> R9 s'.
Proof.
  intros H9 H. destruct te as [th e]. unfold step in H. cbn [fst snd] in H.
  pose proof (core_stage _ _ _ _ H) as HSt. unfold R9 in *. unfold stage_eff in HSt. rewrite ?flush_stage in HSt.
  destruct e; try (rewrite HSt; exact H9).
  - rewrite HSt. now apply nodup_set.
  - destruct HSt as [-> _]. now apply nodup_set.
  - destruct HSt as [-> _]. now apply nodup_set.
  - destruct HSt as [-> _]. now apply nodup_del.
  - destruct HSt as [->|[-> _]]; [exact H9|now apply nodup_set].
Qed.
Lemma R9_reach cs ord evs s : accept (init cs ord) evs = Some s -> R9 s.
Proof.
  assert (Hrun : forall evs s s', R9 s -> accept s evs = Some s' -> R9 s').
  { induction evs0 as [|e r IH]; intros s1 s2 H9 Hacc; cbn in Hacc; [now injection Hacc as <-|].
    destruct (step s1 e) as [s3|] eqn:Es; [|discriminate]. eapply IH; [eapply R9_step; eauto|exact Hacc]. }
  apply Hrun. constructor.
Qed.

(* If no begun goroutine waits for something outside itself, then either nothing of Run()'s wait group is
   outstanding (and Run() can return: run_can_return) or some goroutine has an enabled step.  What is missing
   for a deadlock-freedom statement of the quiet supervisor is the induction along the dependency order that
   discharges case (b) of [busy]; see notes/C04.md. *)
Theorem progress_modulo_busy : forall cs ord evs s,
  accept (init cs ord) evs = Some s ->
  (forall th i x, get th (thinst s) = Some i -> get i (insts s) = Some x ->
     busy s th i x = false \/ (pc x = IGone /\ pend (get_thread s th) <> Some RWgDone)) ->
  wg_quiet s \/
  exists th e s', step s (th, e) = Some s' /\
    ((exists i, e = EBegin i /\ get th (thinst s) = None) \/
     (exists i x, get th (thinst s) = Some i /\ get i (insts s) = Some x /\ own_event (pc x) e = true)).
Proof.
  intros cs ord evs s Hacc Hnb. pose proof (R8_reach _ _ _ _ Hacc) as H8. pose proof (R9_reach _ _ _ _ Hacc) as H9.
  destruct (wg_quiet_b s) eqn:Eq; [left; now apply wg_quiet_b_spec|right].
  unfold wg_quiet_b in Eq. apply andb_false_iff in Eq. destruct Eq as [Eq|Eq].
  - (* a spawned goroutine has not begun *)
    assert (Hex : exists p, In p (stage s) /\ Nat.eqb (snd (snd p)) 3 = true).
    { clear - Eq. induction (stage s) as [|a r IH]; [discriminate|]. cbn in Eq. apply andb_false_iff in Eq.
      destruct Eq as [Eq|Eq]; [exists a; split; [now left|now apply negb_false_iff in Eq]|].
      destruct (IH Eq) as (p & Hin & Hp). exists p. split; [now right|exact Hp]. }
    destruct Hex as ([i [c k]] & Hin & Hk). cbn in Hk. apply Nat.eqb_eq in Hk. subst k.
    pose proof (in_get_nodup _ _ _ H9 Hin) as Hg.
    destruct (spawned_can_begin _ _ _ _ _ _ Hacc Hg) as (th & s' & Hn & Hs'). exists th, (EBegin i), s'. eauto 8.
  - (* a begun goroutine has not finished *)
    assert (Hex : exists p, In p (thinst s) /\
              match get (snd p) (insts s) with
              | Some x => (match pc x with IWgDone | IGone => true | _ => false end) &&
                          (match pend (get_thread s (fst p)) with Some RWgDone => false | _ => true end)
              | None => true end = false).
    { clear - Eq. induction (thinst s) as [|a r IH]; [discriminate|]. cbn in Eq. apply andb_false_iff in Eq.
      destruct Eq as [Eq|Eq]; [exists a; split; [now left|exact Eq]|].
      destruct (IH Eq) as (p & Hin & Hp). exists p. split; [now right|exact Hp]. }
    destruct Hex as ([t i] & Hin & Hp). cbn [fst snd] in Hp. pose proof (in_get_nodup _ _ _ H8 Hin) as Ht.
    destruct (get i (insts s)) as [x|] eqn:Hx; [|discriminate].
    destruct (Hnb t i x Ht Hx) as [Hb|(Hgone & Hpe)].
    + destruct (own_step_enabled _ _ _ _ _ _ _ Hacc Ht Hx Hb) as (e & s' & He & Hs'). exists t, e, s'. split; [exact Hs'|].
      right. exists i, x. auto.
    + exfalso. rewrite Hgone in Hp. cbn in Hp. destruct (pend (get_thread s t)) as [[]|]; try discriminate. now apply Hpe.
Qed.
