(* C04 enabledness, part 6: further invariants of reachable states (registries and lookup results name existing
   instances, IBlocked waits on an existing instance of a configured dependency, IAlive has a command or a
   delivered exit, existing instances are begun or staged, a pending waitGroup.Done() sits at IWgDone) and the
   progress theorem for the quiet supervisor.  Statements: Props/C04.v. *)
From Coq Require Import List ZArith NArith Bool Lia.
From RecordUpdate Require Import RecordSet.
From PC.Base Require Import Assoc.
From PC.Sup Require Import Model Monitors Tactics Sim ObsFacts Effects RelCore
  LemC04 LemC04i LemC04s LemC04t LemC04n LemC04g LemC04o LemC04c LemC04l RelC04 EnC04 EnC04p EnC04b EnC04q EnC04r.
Import ListNotations RecordSetNotations.

Record K (s : sys) : Prop := mkK {
  k_run : forall k j, get k (running s) = Some j -> exists y, get j (insts s) = Some y /\ nm y = k;
  k_done : forall k j, get k (donereg s) = Some j -> exists y, get j (insts s) = Some y /\ nm y = k;
  k_lk : forall t k j, lk_res (lk (get_thread s t)) = Some (k, j) -> exists y, get j (insts s) = Some y /\ nm y = k;
  k_blk : forall i x k c j todo, get i (insts s) = Some x -> pc x = IBlocked k c j todo ->
          (exists y, get j (insts s) = Some y /\ nm y = k) /\ dep_cond (cf x) k = Some c;
  k_alive : forall i x, get i (insts s) = Some x -> pc x = IAlive -> alive x = true \/ exited x <> None;
  k_ex : forall i x, get i (insts s) = Some x -> (exists t, get t (thinst s) = Some i) \/ (exists v, get i (stage s) = Some v);
  k_wd : forall t i x, get t (thinst s) = Some i -> get i (insts s) = Some x ->
         pend (get_thread s t) = Some RWgDone -> pc x = IWgDone
}.

Lemma K_init cs ord : K (init cs ord).
Proof. constructor; cbn; try discriminate. Qed.

Lemma cl_alive p : cl p = CAlive <-> p = IAlive.
Proof. destruct p; cbn; split; congruence. Qed.

Lemma K_flush s th : K s -> K (flush th s).
Proof.
  intros [K1 K2 K3 K4 K5 K6 K7]. destruct (flush_spec th s) as (F1 & _ & F3 & _).
  assert (Hfw : forall j y, get j (insts s) = Some y -> exists y', get j (insts (flush th s)) = Some y' /\ inst_latch_le y y').
  { intros j y Hy. pose proof (flush_insts th s j) as F. rewrite Hy in F. exact F. }
  assert (Hbk : forall j y', get j (insts (flush th s)) = Some y' -> exists y, get j (insts s) = Some y /\ inst_latch_le y y').
  { intros j y' Hy'. pose proof (flush_insts th s j) as F. destruct (get j (insts s)) as [y|]; [|congruence].
    destruct F as (y2 & E2 & L). assert (y2 = y') by congruence. subst. eauto. }
  assert (Hex : forall j k, (exists y, get j (insts s) = Some y /\ nm y = k) -> exists y, get j (insts (flush th s)) = Some y /\ nm y = k).
  { intros j k (y & Hy & Hn). destruct (Hfw _ _ Hy) as (y' & Hy' & L). exists y'. split; [exact Hy'|]. destruct L as (En & _). congruence. }
  assert (Hlk : forall t, lk (get_thread (flush th s) t) = lk (get_thread s t)).
  { intros t. rewrite F3. destruct (N.eqb_spec th t); [subst|]; reflexivity. }
  constructor.
  - intros k j. rewrite flush_running. intros H. apply Hex. eauto.
  - intros k j. rewrite flush_donereg. intros H. apply Hex. eauto.
  - intros t k j. rewrite Hlk. intros H. apply Hex. eauto.
  - intros i x' k c j todo Hx' Hp. destruct (Hbk _ _ Hx') as (x & Hx & L). destruct L as (_ & Ecf & Epc & _).
    rewrite Epc in Hp. destruct (K4 i x k c j todo Hx Hp) as (He & Hd). split; [now apply Hex|congruence].
  - intros i x' Hx' Hp. destruct (Hbk _ _ Hx') as (x & Hx & L). destruct L as (_ & _ & Epc & _ & Ea & Ee & _).
    rewrite Epc in Hp. rewrite Ea, Ee. eauto.
  - intros i x' Hx'. destruct (Hbk _ _ Hx') as (x & Hx & _). rewrite F1, flush_stage. eauto.
  - rewrite F1. intros t i x' Ht Hx' Hp. destruct (Hbk _ _ Hx') as (x & Hx & L). destruct L as (_ & _ & Epc & _).
    rewrite Epc. rewrite F3 in Hp. destruct (N.eqb_spec th t); [subst; discriminate Hp|]. eauto.
Qed.

Lemma g_instexit s th s' : step_core s th EInstExit = Some s' ->
  exists i x', get th (thinst s) = Some i /\ get i (insts s') = Some x' /\ pc x' = IWgDone.
Proof.
  intros H. cbn in H. unfold step_own, own_inst in H.
  destruct (get th (thinst s)) as [i|] eqn:Ht; [|discriminate]. destruct (get i (insts s)) as [x|] eqn:Hx; [|discriminate].
  cbn in H. exists i. destruct (pc x); try discriminate H.
  - destruct (_ && _); [|discriminate]. injection H as <-. unfold set_pc. rewrite set_thread_insts, insts_upd_inst, N.eqb_refl, Hx. cbn. eauto.
  - injection H as <-. unfold set_pc. rewrite set_thread_insts, insts_upd_inst, N.eqb_refl, Hx. cbn. eauto.
Qed.

Lemma K_core s th e s' : K s ->
  (forall t1 t2 i, get t1 (thinst s) = Some i -> get t2 (thinst s) = Some i -> t1 = t2) ->
  (forall t i, get t (thinst s) = Some i -> exists x, get i (insts s) = Some x) ->
  pend (get_thread s th) = None -> step_core s th e = Some s' -> K s'.
Proof.
  intros [K1 K2 K3 K4 K5 K6 K7] Hinj Hthi Hp H.
  destruct (core_regs _ _ _ _ H) as (Rr & Rd & Rl). pose proof (core_blk _ _ _ _ H) as HB.
  pose proof (core_inst_eff' _ _ _ _ H) as HI. pose proof (core_stage _ _ _ _ H) as HSt.
  pose proof (core_pcf _ _ _ _ H) as HF. pose proof (core_none _ _ _ _ H) as HN.
  destruct (core_scal _ _ _ _ H) as (_ & _ & _ & Sthi & Sthr). destruct (core_thr _ _ _ _ H) as (Tpk & _). specialize (Tpk Hp).
  assert (Hex : forall j k, (exists y, get j (insts s) = Some y /\ nm y = k) -> exists y, get j (insts s') = Some y /\ nm y = k).
  { intros j k (y & Hy & Hn). destruct (HB j y Hy) as (y' & Hy' & En & _). exists y'. split; [exact Hy'|congruence]. }
  assert (Hthi_mono : forall t j, get t (thinst s) = Some j -> get t (thinst s') = Some j).
  { intros t j Ht. rewrite Sthi. destruct e; auto. rewrite get_set. destruct (N.eqb_spec th t); [|auto].
    subst t. destruct (g_begin _ _ _ _ H) as (x & _ & Hn & _). congruence. }
  (* an instance of the post-state is an instance of the pre-state or the one just created *)
  assert (Hcase : forall j x', get j (insts s') = Some x' ->
            (exists x, get j (insts s) = Some x) \/ (exists n c, e = ENewInst j n /\ x' = new_inst n c)).
  { intros j x' Hx'. destruct (get j (insts s)) as [x|] eqn:Hx; [eauto|right].
    destruct (is_newinst_dec e j) as [(n & ->)|Hno]; [|rewrite (HN j Hx Hno) in Hx'; discriminate].
    destruct (newinst_eff _ _ _ _ _ H) as (_ & c & Hget). rewrite Hget, N.eqb_refl in Hx'. injection Hx' as <-. eauto. }
  constructor.
  - intros k j Hg. destruct (Rr k j Hg) as [Hg0|Hn]; apply Hex; eauto.
  - intros k j Hg. destruct (Rd k j Hg) as [Hg0|Hn]; apply Hex; eauto.
  - intros t k j Hg. destruct (N.eqb_spec t th) as [->|Hne].
    + destruct (Rl k j Hg) as [Hg0|[Hg0|Hg0]]; apply Hex; eauto.
    + rewrite (Sthr t Hne) in Hg. apply Hex; eauto.
  - intros i x' k c j todo Hx' Hpc. destruct (Hcase _ _ Hx') as [(x & Hx)|(n & c0 & -> & ->)]; [|discriminate Hpc].
    destruct (HB i x Hx) as (x2 & E2 & _ & Ecf & Horig). assert (x2 = x') by congruence. subst x2.
    destruct (Horig _ _ _ _ Hpc) as [Hp0|(Ht & Hd & Hl)].
    + destruct (K4 i x k c j todo Hx Hp0) as (He & Hd). split; [now apply Hex|congruence].
    + split; [|congruence]. apply Hex. apply (K3 th k j). now apply thread_lookup_res.
  - intros i x' Hx' Hpc. destruct (Hcase _ _ Hx') as [(x & Hx)|(n & c0 & -> & ->)]; [|discriminate Hpc].
    destruct (HI i x Hx) as (x2 & E2 & Ecl & Eal & Eex). assert (x2 = x') by congruence. subst x2.
    apply cl_alive in Hpc. rewrite Ecl in Hpc. rewrite Eal, Eex.
    destruct (own (thinst s) th i) eqn:Eo.
    + destruct (cl_next_alive _ _ Hpc) as [->|Hc]; [left; reflexivity|].
      apply cl_alive in Hc. destruct (K5 i x Hx Hc) as [Ha|He];
        destruct e; cbn in *; auto; try discriminate Hpc;
        repeat match goal with |- context[if ?b then _ else _] => destruct b end; auto; try (right; discriminate).
    + apply cl_alive in Hpc. destruct (K5 i x Hx Hpc) as [Ha|He];
        destruct e; cbn; auto;
        repeat match goal with |- context[if ?b then _ else _] => destruct b end; auto; try (right; discriminate).
  - (* existing instances are begun or staged *)
    intros i x' Hx'. unfold stage_eff in HSt. destruct (Hcase _ _ Hx') as [(x & Hx)|(n & c0 & -> & ->)].
    2:{ right. rewrite HSt. rewrite get_set_same. eauto. }
    destruct (K6 i x Hx) as [(t & Ht)|(v & Hv)]; [left; exists t; now apply Hthi_mono|].
    destruct e; try (right; exists v; now rewrite HSt).
    + right. rewrite HSt, get_set. destruct (N.eqb i0 i); eauto.
    + destruct HSt as [-> _]. right. rewrite get_set. destruct (N.eqb i0 i); eauto.
    + destruct HSt as [-> _]. right. rewrite get_set. destruct (N.eqb i0 i); eauto.
    + destruct HSt as [-> _]. destruct (N.eqb_spec i0 i) as [->|Hne].
      * left. exists th. rewrite Sthi. apply get_set_same.
      * right. exists v. now rewrite get_del_other.
    + destruct HSt as [->|[-> _]]; [eauto|]. right. rewrite get_set. destruct (N.eqb i0 i); eauto.
  - (* a pending waitGroup.Done() sits at IWgDone *)
    intros t i x' Ht Hx' Hpe. destruct (N.eqb_spec t th) as [->|Hne].
    + assert (Ee : e = EInstExit).
      { assert (Hk : pk (pend (get_thread s' th)) = PW) by (rewrite Hpe; reflexivity). rewrite Tpk in Hk.
        destruct e; cbn in Hk; try discriminate Hk; reflexivity. }
      subst e. destruct (g_instexit _ _ _ H) as (i2 & x2 & Ht2 & Hx2 & Hp2).
      pose proof (Hthi_mono _ _ Ht2) as Ht3. assert (i2 = i) by congruence. subst i2. congruence.
    + rewrite (Sthr t Hne) in Hpe.
      assert (Ht0 : get t (thinst s) = Some i).
      { rewrite Sthi in Ht. destruct e; auto. rewrite get_set in Ht. destruct (N.eqb_spec th t); [congruence|exact Ht]. }
      destruct (Hcase _ _ Hx') as [(x & Hx)|(n & c0 & -> & ->)].
      2:{ exfalso. destruct (newinst_eff _ _ _ _ _ H) as (Hnone & _). destruct (Hthi _ _ Ht0) as (x0 & Hx0). congruence. }
      destruct (HF i x Hx) as (x2 & E2 & Epc); [intros Hc; apply Hne; eapply Hinj; eauto|].
      assert (x2 = x') by congruence. subst x2. rewrite Epc. eapply K7; eauto.
Qed.

Section Reach.
Context (cs : amap pconf).
Lemma RK_run : forall evs s o g s', R4 cs s o g -> K s -> accept s evs = Some s' -> exists o' g', R4 cs s' o' g' /\ K s'.
Proof.
  induction evs as [|[th e] r IH]; intros s o g s' HR HK Hacc; cbn in Hacc.
  - injection Hacc as <-. eauto.
  - destruct (step s (th, e)) as [s1|] eqn:Es; [|discriminate].
    destruct (R4_step cs _ _ _ _ _ HR Es) as (HR1 & _).
    destruct (R4_flush cs _ _ _ th HR) as (HR0 & Hp0).
    pose proof (K_flush _ th HK) as HK0. unfold step in Es. cbn [fst snd] in Es.
    assert (HK1 : K s1) by (eapply K_core; eauto; [apply (r_inj _ _ _ _ HR0)|apply (r_thi _ _ _ _ HR0)]).
    exact (IH _ _ _ _ HR1 HK1 Hacc).
Qed.
Lemma K_reach ord evs s : accept (init cs ord) evs = Some s -> K s.
Proof. intros H. destruct (RK_run evs _ _ _ _ (R4_init cs ord) (K_init cs ord) H) as (_ & _ & _ & HK). exact HK. Qed.
End Reach.

