(* Simulation relation and proof for C12 (ordered shutdown).  See Props/C12.v for the statements. *)
From Coq Require Import List ZArith NArith Bool Lia.
From RecordUpdate Require Import RecordSet.
From PC.Base Require Import Assoc.
From PC.Sup Require Import Model Monitors Tactics Sim ObsFacts Effects RelCore LemC12 LemC12Inst LemC12Obs LemC12Obs3.
Import ListNotations RecordSetNotations.

(* an instance that a stop found Pending and ended: its run context is cancelled, and (outside the commit window)
   it has never been launched and is not committed to launching - it can then never launch *)
Definition Q (f : bool) (x : inst) : Prop :=
  l_runctx x = true /\ (f = false -> launches x = 0 /\ cmt_pc (pc x) = false).

(* per-instance agreement; f is the value of w_commit of the observer state *)
Record PI (f : bool) (x : inst) (xo : oinst) : Prop := mkPI {
  pi_alive : o_alive xo = alive x;
  pi_commit : cmt_pc (pc x) = true -> o_commit xo = true;
  pi_done : l_done x = true -> ended_pc (pc x) = true \/ Q f x;
  pi_live : live_pc (pc x) = true -> launches x <> 0
}.

Definition PIstep (f f' : bool) (x x' : inst) (xo xo' : oinst) : Prop :=
  PI f' x' xo' /\ (Q f x -> Q f' x').

Ltac small_type b :=
  let t := type of b in
  lazymatch t with
  | bool => idtac | status => idtac | option _ => idtac
  end.

Ltac pi_split_vars :=
  repeat match goal with H : status_eqb _ _ = true |- _ => apply status_eqb_eq in H; subst end;
  repeat match goal with
  | H : context[insts (match ?x with _ => _ end)] |- _ => destruct x eqn:?
  | H : context[if ?b then _ else _] |- _ => is_var b; destruct b
  | H : context[match ?b with _ => _ end] |- _ => is_var b; small_type b; destruct b
  end.

Ltac pi_norm_obs Hrth Hxo' Hf :=
  unfold obs_step in Hxo'; cbn [fst snd ev_inst extra1] in Hxo', Hf;
  repeat match goal with Ht : get ?th (thinst ?s) = Some _ |- _ =>
    rewrite <- ?(Hrth th) in Hxo'; rewrite <- ?(Hrth th) in Hf; rewrite ?Ht in Hxo'; rewrite ?Ht in Hf end;
  cbv zeta in Hxo'; pi_split_vars; cbn [fst snd ev_inst extra1] in Hxo', Hf;
  repeat match type of Hxo' with context[if ?b then _ else _] => destruct b eqn:? end;
  autorewrite with obsn in Hxo'; cbn in Hxo'; rewrite ?get_set in Hxo'.

Ltac pi_norm_mod s Hx' :=
  unfold set_pc, end_finish, end_release_early, write_status in Hx'; autorewrite with sup in Hx'; cbn in Hx';
  rewrite ?get_set in Hx'.

Ltac pi_eqs j s x Hx Hxo Hx' Hxo' :=
  repeat match type of Hx' with context[N.eqb ?a j] => destruct (N.eqb_spec a j); [subst j|] end;
  repeat match type of Hxo' with context[N.eqb ?a j] => destruct (N.eqb_spec a j); [subst j|] end;
  try contradiction;
  rewrite ?Hx in Hx'; rewrite ?Hxo in Hxo'; cbn [option_map] in Hx', Hxo';
  try (injection Hx' as <-); try (injection Hxo' as <-);
  repeat match goal with H : get ?i (insts s) = Some ?y |- _ =>
    lazymatch y with x => fail | _ => rewrite Hx in H; injection H as -> end end.

Ltac use_refl :=
  repeat match goal with
  | H : ?a = ?a -> _ |- _ => specialize (H eq_refl)
  | H : _ /\ _ |- _ => destruct H
  end.

Ltac pi_fin Hxo Hf :=
  rewrite ?(oi_get_some _ _ _ Hxo) in Hf;
  unfold PIstep, Q in *; split_andb;
  repeat match goal with H : false = _ || _ |- _ => symmetry in H; apply orb_false_iff in H; destruct H end;
  (split; [constructor|]); unfold Q; cbn; autorewrite with obsn; cbn;
  repeat match goal with |- context[if ?b then _ else _] => destruct b eqn:? end; cbn;
  rewrite ?orb_true_r, ?orb_false_r, ?andb_true_l in *; intros;
  repeat match goal with H : ?a = false, H' : ?a = false -> _ |- _ => specialize (H' H) end; use_refl;
  subst; repeat match goal with H : pc ?y = _ |- _ => rewrite H in * end; cbn in *; use_refl;
  repeat match goal with |- ?b = false => destruct b eqn:?; [exfalso|reflexivity] end; use_refl;
  solve [tauto | congruence | intuition congruence].

Definition pend_at (sp : stoppc) : option iid := match sp with SPend i | SPendE i => Some i | _ => None end.

Definition PI_goal (cs : amap pconf) (s : sys) (o : obs) (th : tid) (e : event) (s' : sys) : Prop :=
  forall (f f' : bool), Rc cs s o ->
  (f' = false -> f = false /\ extra1 o e = false) ->
  (forall i, pend_at (spc (get_thread s th)) = Some i -> get th (thinst s) <> Some i) ->
  (forall i x xo, pend_at (spc (get_thread s th)) = Some i -> get i (insts s) = Some x -> get i (oi o) = Some xo ->
                  Q f x) ->
  forall j x xo x' xo', get j (insts s) = Some x -> get j (oi o) = Some xo -> PI f x xo ->
    get j (insts s') = Some x' -> get j (oi (obs_step cs o (th, e))) = Some xo' ->
    PIstep f f' x x' xo xo'.

Ltac pi_start :=
  let H := fresh "H" in
  intros H f f' HR Hf HO HT j x xo x' xo' Hx Hxo [Pa Pc Pd Pl] Hx' Hxo';
  pose proof (rc_th _ _ _ HR) as Hrth.

Ltac pi_leaf j s x :=
  match goal with
    Hrth : (forall th : N, get th (thinst _) = get th (o_th _)),
    Hf : _ = false -> _ /\ _,
    Hx : get j (insts s) = Some x, Hxo : get j (oi _) = Some _,
    Hx' : get j (insts _) = Some _, Hxo' : get j (oi (obs_step _ _ _)) = Some _ |- _ =>
    pi_split_vars; pi_norm_obs Hrth Hxo' Hf; pi_norm_mod s Hx';
    pi_eqs j s x Hx Hxo Hx' Hxo'; try solve [pi_fin Hxo Hf]
  end.

Lemma fold_fstopped_get' l : forall s j,
  get j (insts (fold_left (fun s0 i => upd_inst i (fun x => x <| f_stopped := true |>) s0) l s)) =
  option_map (fun x => if memN j l then x <| f_stopped := true |> else x) (get j (insts s)).
Proof.
  induction l as [|a l IH]; intros s j; cbn [fold_left].
  - cbn. now destruct (get j (insts s)).
  - rewrite IH, insts_upd_inst. unfold memN. cbn [existsb]. rewrite (N.eqb_sym j a).
    destruct (N.eqb a j); destruct (get j (insts s)) as [x|]; cbn; try reflexivity.
    destruct (existsb (N.eqb j) l); reflexivity.
Qed.

Lemma existsb_memN_false (g : N -> bool) l j : existsb g l = false -> memN j l = true -> g j = false.
Proof.
  intros H Hm. apply memN_In in Hm. destruct (g j) eqn:E; [|reflexivity].
  assert (existsb g l = true) by (apply existsb_exists; eauto). congruence.
Qed.

Section PIstep.
Context (cs : amap pconf).

Lemma PI_reg s o th e s' : step_reg s th e = Some s' -> PI_goal cs s o th e s'.
Proof.
  intros H f f' HR Hf HO HT j x xo x' xo' Hx Hxo [Pa Pc Pd Pl] Hx' Hxo'.
  pose proof (rc_th _ _ _ HR) as Hrth.
  destruct e; kind_cases H; pi_leaf j s x.
  all: exfalso; unfold has in E0; rewrite Hx in E0; discriminate.
Qed.

End PIstep.
