(* Simulation relation and proofs for C05 (unsatisfiable dependency => Skipped, never launched).
   The statements are collected in Props/C05.v. *)
From Coq Require Import List ZArith NArith Bool Lia.
From RecordUpdate Require Import RecordSet.
From PC.Base Require Import Assoc.
From PC.Sup Require Import Model Monitors Tactics Sim ObsFacts Effects RelCore LemC05.
Import ListNotations RecordSetNotations.

(* ---- classes of program counters ------------------------------------------------------------------- *)
(* positions in which no dependency wait of the instance can have reported failure: everything on the way
   to a launch, every later position of an instance that launched or failed to start, and the epilogue
   (run returned .. project end) of an instance that was not skipped *)
Definition nofail_pc (p : ipc) : bool :=
  match p with
  | IDeps _ | IBlocked _ _ _ _ | IPreStart | IPreLaunch | IStateSet | IAlive | IExited _ | ICodeWritten _
  | IWillRestart _ | IRestarting _ | IBackoff _ | IRunRet _ | IDoneReg _ | IProjEnd _ false => true
  | IEnding s _ | IInEnd s _ _ => negb (status_eqb s SSkipped)
  | _ => false
  end.
(* positions that only a failed dependency wait leads to *)
Definition skip_pc (p : ipc) : bool :=
  match p with
  | ISkipDecided | IProjEnd _ true => true
  | IEnding s _ | IInEnd s _ _ => status_eqb s SSkipped
  | _ => false
  end.
Definition gone_pc (p : ipc) : bool := match p with IWgDone | IGone => true | _ => false end.

Ltac trans_cases H :=
  match type of H with pc_trans ?e ?p ?p' = true =>
    destruct e; try discriminate H; destruct p; try discriminate H; destruct p'; try discriminate H; cbn in H;
    repeat match type of H with context[match ?x with _ => _ end] => destruct x; cbn in H; try discriminate H end;
    split_andb;
    repeat match goal with E : status_eqb _ _ = true |- _ => apply status_eqb_eq in E; subst end
  end.

Lemma trans_nofail e p p' : pc_trans e p p' = true -> nofail_pc p' = true -> nofail_pc p = true /\ is_depfail e = false.
Proof. intros H N. trans_cases H; cbn in *; try discriminate; auto. Qed.

Lemma trans_skip e p p' : pc_trans e p p' = true -> skip_pc p' = true -> skip_pc p = true \/ is_depfail e = true.
Proof. intros H N. trans_cases H; cbn in *; try discriminate; auto. Qed.

Lemma trans_gone e p p' : pc_trans e p p' = true -> gone_pc p = true -> gone_pc p' = true.
Proof. intros H N. trans_cases H; cbn in *; try discriminate; auto. Qed.

Lemma trans_exit e p p' : pc_trans e p p' = true -> is_exit e = true -> gone_pc p' = true.
Proof. intros H N. trans_cases H; cbn in *; try discriminate; auto. Qed.

Lemma trans_inend e p c : pc_trans e p (IInEnd SSkipped c true) = true -> exists i, e = EState i SSkipped.
Proof.
  intros H. destruct e; try discriminate H; destruct p; try discriminate H; cbn in H;
    repeat match type of H with context[match ?x with _ => _ end] => destruct x; cbn in H; try discriminate H end;
    split_andb; repeat match goal with E : status_eqb _ _ = true |- _ => apply status_eqb_eq in E; subst end; eauto.
Qed.

(* ---- the relation ----------------------------------------------------------------------------------- *)
Section RelC05.
Context (cs : amap pconf).

(* per instance: model instance x, observer record xo *)
Record P5 (s : sys) (o : obs) (x : inst) (xo : oinst) : Prop := mkP5 {
  p5_nofail : nofail_pc (pc x) = true -> o_depfail xo = false;
  p5_skip : skip_pc (pc x) = true -> o_depfail xo = true;
  p5_gone : o_gone xo = true -> gone_pc (pc x) = true;
  (* between the status write Skipped and proc_ended(Skipped) the reported code of the name is still the 1
     that the status write stored - unless the history went through a dup/zombie window *)
  p5_code : forall c, pc x = IInEnd SSkipped c true -> W_C05 o = true \/ code (vis_of s (nm x)) = 1%Z
}.

(* outside the dup/zombie windows, of two instances of one name at least one has left (inst_exit) *)
Definition U5 (o : obs) : Prop :=
  W_C05 o = false -> forall i j xi xj, i <> j -> get i (oi o) = Some xi -> get j (oi o) = Some xj ->
  o_nm xi = o_nm xj -> o_gone xi = true \/ o_gone xj = true.

Record R5 (s : sys) (o : obs) : Prop := mkR5 {
  r5_core : Rc cs s o;
  r5_inst : forall i x xo, get i (insts s) = Some x -> get i (oi o) = Some xo -> P5 s o x xo;
  r5_uniq : U5 o
}.

Lemma R5_init ord : R5 (init cs ord) (obs0 cs).
Proof.
  constructor.
  - apply Rc_init.
  - cbn. discriminate.
  - intros _ i j xi xj _ H. cbn in H. discriminate.
Qed.

Lemma W_false_mono o e : W_C05 (obs_step cs o e) = false -> W_C05 o = false.
Proof. intros H. destruct (W_C05 o) eqn:E; [|reflexivity]. rewrite (W_C05_mono cs o e E) in H. discriminate. Qed.

Lemma R5_flush s o th : R5 s o -> R5 (flush th s) o.
Proof.
  intros [HR HI HU]. constructor.
  - eapply Rc_sys_same; eauto using sys_same_flush.
  - intros i y xo Hy Hxo. pose proof (flush_pc th s i) as F.
    destruct (get i (insts s)) as [x|] eqn:Ex; [|congruence].
    destruct F as (y' & Ey' & Hn & Hp). assert (y' = y) by congruence. subst y'.
    destruct (HI i x xo Ex Hxo) as [A B C D]. constructor; rewrite ?Hp; auto.
    intros c Hc. rewrite Hn, flush_code. eauto.
  - exact HU.
Qed.

Lemma own_is_iff s o th i : Rc cs s o -> (own_is o th i = true <-> get th (thinst s) = Some i).
Proof.
  intros HR. unfold own_is. rewrite <- (rc_th _ _ _ HR). split.
  - apply opt_eqb_N_eq.
  - intros ->. cbn. apply N.eqb_refl.
Qed.

(* one accepted step (after the flush), every event except the creation of an instance *)
Lemma P5_step s o th e s' : is_new e = false ->
  R5 s o -> step_core s th e = Some s' ->
  forall i y yo, get i (insts s') = Some y -> get i (oi (obs_step cs o (th, e))) = Some yo ->
  P5 s' (obs_step cs o (th, e)) y yo.
Proof.
  intros Hn [HR HI HU] H i y yo Hy Hyo.
  pose proof (step_core_pc s th e s' Hn H i) as M. pose proof (obs_step5 cs o th e Hn i) as O.
  destruct (get i (insts s)) as [x|] eqn:Ex; [|congruence].
  destruct M as (y' & Ey' & Hnm & Hpc & Htouch). assert (y' = y) by congruence. subst y'.
  destruct (rc_inst _ _ _ HR i x Ex) as (xo & Exo & Hxn & Hcf & _). rewrite Exo in O.
  destruct O as (yo' & Eyo' & On & Od & Og). assert (yo' = yo) by congruence. subst yo'.
  pose proof (HI i x xo Ex Exo) as [A B C D].
  pose proof (own_is_iff s o th i HR) as Hown.
  constructor.
  - (* nofail *)
    intros Hnf. rewrite Od.
    assert (Hd : is_depfail e && own_is o th i = false).
    { destruct (is_depfail e) eqn:Ed; [|reflexivity]. destruct (own_is o th i) eqn:Eo; [|reflexivity]. exfalso.
      assert (Ht : touches e = true) by (unfold touches; now rewrite Ed).
      pose proof (Htouch Ht (proj1 Hown eq_refl)) as Tr. destruct (trans_nofail _ _ _ Tr Hnf). congruence. }
    rewrite Hd, orb_false_r. destruct Hpc as [Hs|[_ Tr]].
    + rewrite Hs in Hnf. auto.
    + destruct (trans_nofail _ _ _ Tr Hnf). auto.
  - (* skip *)
    intros Hsk. rewrite Od. destruct Hpc as [Hs|[Ho Tr]].
    + rewrite Hs in Hsk. rewrite (B Hsk). reflexivity.
    + destruct (trans_skip _ _ _ Tr Hsk) as [K|K].
      * rewrite (B K). reflexivity.
      * rewrite K, (proj2 Hown Ho). apply orb_true_r.
  - (* gone *)
    rewrite Og. intros Hg. apply orb_true_iff in Hg. destruct Hg as [Hg|Hg].
    + specialize (C Hg). destruct Hpc as [Hs|[_ Tr]]; [now rewrite Hs|eapply trans_gone; eauto].
    + apply andb_true_iff in Hg. destruct Hg as [He Ho].
      assert (Ht : touches e = true) by (unfold touches; rewrite He; apply orb_true_r).
      eapply trans_exit; [exact (Htouch Ht (proj1 Hown Ho))|exact He].
  - (* code *)
    intros c Hc. destruct (W_C05 (obs_step cs o (th, e))) eqn:EW; [now left|right].
    pose proof (W_false_mono _ _ EW) as EW0. rewrite Hnm.
    destruct Hpc as [Hs|[Ho Tr]].
    + rewrite Hs in Hc. destruct (D c Hc) as [K|K]; [congruence|].
      destruct (step_core_code s th e s' H (nm x)) as [Q|[Q|Q]]; [congruence|exact Q|].
      exfalso. destruct Q as (i2 & x2 & c2 & -> & Ht2 & Ex2 & Hn2 & Hp2).
      assert (Hne : i2 <> i) by (intros ->; congruence).
      destruct (rc_inst _ _ _ HR i2 x2 Ex2) as (xo2 & Exo2 & Hxn2 & _).
      destruct (HU EW0 i2 i xo2 xo Hne Exo2 Exo ltac:(congruence)) as [G|G].
      * pose proof (p5_gone _ _ _ _ (HI i2 x2 xo2 Ex2 Exo2) G) as G2. rewrite Hp2 in G2. discriminate.
      * specialize (C G). rewrite Hc in C. discriminate.
    + rewrite Hc in Tr. destruct (trans_inend _ _ _ Tr) as (i' & ->).
      destruct (step_state_skipped _ _ _ _ H) as (x' & Ex' & Ht' & Hcode).
      assert (i' = i) by congruence. subst i'. assert (x' = x) by congruence. subst x'.
      apply Hcode. destruct (rc_name _ _ _ HR (nm x) (cf x) Hcf) as (v & r & Ev & _). congruence.
Qed.

Lemma U5_step o th e : is_new e = false -> U5 o -> U5 (obs_step cs o (th, e)).
Proof.
  intros Hn HU EW i j yi yj Hne Hi Hj Hnm.
  pose proof (W_false_mono _ _ EW) as EW0.
  pose proof (obs_step5 cs o th e Hn i) as Oi. pose proof (obs_step5 cs o th e Hn j) as Oj.
  destruct (get i (oi o)) as [xi|] eqn:Exi; [|congruence]. destruct (get j (oi o)) as [xj|] eqn:Exj; [|congruence].
  destruct Oi as (yi' & Ei & Ni & _ & Gi). destruct Oj as (yj' & Ej & Nj & _ & Gj).
  assert (yi' = yi) by congruence. assert (yj' = yj) by congruence. subst yi' yj'.
  destruct (HU EW0 i j xi xj Hne Exi Exj ltac:(congruence)) as [G|G]; [left; rewrite Gi|right; rewrite Gj]; rewrite G; reflexivity.
Qed.

(* the creation of an instance *)
Lemma R5_new s o th i n s' : R5 s o -> Rc cs s' (obs_step cs o (th, ENewInst i n)) ->
  step_core s th (ENewInst i n) = Some s' -> R5 s' (obs_step cs o (th, ENewInst i n)).
Proof.
  intros [HR HI HU] HR' H.
  destruct (step_core_new _ _ _ _ _ H) as (Hfresh & c & Hc & ->).
  pose proof (rc_noinst _ _ _ HR i Hfresh) as Hofresh.
  destruct (obs_step_new cs o th i n) as ((xn & Exn & Nn & Dn & Gn) & Hoth & Hwin).
  constructor; [exact HR'| |].
  - intros j y yo Hy Hyo. cbn in Hy. rewrite get_set in Hy. destruct (N.eqb_spec i j) as [<-|Hne].
    + injection Hy as <-. assert (yo = xn) by congruence. subst yo.
      constructor; cbn; try discriminate; auto. rewrite Gn. discriminate.
    + specialize (Hoth j ltac:(congruence)).
      destruct (rc_inst _ _ _ HR j y Hy) as (xo & Exo & _). rewrite Exo in Hoth.
      destruct Hoth as (yo' & Eyo' & K1 & K2 & K3). assert (yo' = yo) by congruence. subst yo'.
      destruct (HI j y xo Hy Exo) as [A B C D]. constructor; rewrite ?K2, ?K3; auto.
      intros c0 Hc0. destruct (D c0 Hc0) as [K|K]; [left; now apply W_C05_mono|right; exact K].
  - intros EW a b ya yb Hne Ha Hb Hnm.
    pose proof (W_false_mono _ _ EW) as EW0.
    assert (Hold : forall j yj, j <> i -> get j (oi (obs_step cs o (th, ENewInst i n))) = Some yj ->
                   exists xj, get j (oi o) = Some xj /\ o_nm yj = o_nm xj /\ o_gone yj = o_gone xj).
    { intros j yj Hj Hg. specialize (Hoth j Hj). destruct (get j (oi o)) as [xj|]; [|congruence].
      destruct Hoth as (yj' & E' & K1 & _ & K3). assert (yj' = yj) by congruence. subst. eauto. }
    destruct (N.eq_dec a i) as [->|Ha']; destruct (N.eq_dec b i) as [->|Hb']; [congruence| | |].
    + (* a is the new instance *)
      assert (ya = xn) by congruence. subst ya.
      destruct (Hold b yb Hb' Hb) as (xb & Exb & N1 & G1). right. rewrite G1.
      apply (Hwin EW xb); [apply in_map_iff; exists (b, xb); split; [reflexivity|now apply get_in]|congruence].
    + assert (yb = xn) by congruence. subst yb.
      destruct (Hold a ya Ha' Ha) as (xa & Exa & N1 & G1). left. rewrite G1.
      apply (Hwin EW xa); [apply in_map_iff; exists (a, xa); split; [reflexivity|now apply get_in]|congruence].
    + destruct (Hold a ya Ha' Ha) as (xa & Exa & N1 & G1). destruct (Hold b yb Hb' Hb) as (xb & Exb & N2 & G2).
      rewrite G1, G2. apply (HU EW0 a b xa xb Hne Exa Exb). congruence.
Qed.

Lemma R5_step s o e s' : R5 s o -> step s e = Some s' -> R5 s' (obs_step cs o e).
Proof.
  intros HR5 H. destruct e as [th e].
  pose proof (Rc_step cs s o th e s' (r5_core _ _ HR5) H) as HR'.
  unfold step in H. cbn [fst snd] in H. apply (R5_flush _ _ th) in HR5.
  destruct (is_new e) eqn:Hn.
  - destruct e; try discriminate Hn. now apply R5_new with (s := flush th s).
  - constructor; [exact HR'| |].
    + eapply P5_step; eauto.
    + apply U5_step; [exact Hn|exact (r5_uniq _ _ HR5)].
Qed.

End RelC05.

(* ---- the monitor, split into its two clauses -------------------------------------------------------- *)
(* (a) no launch attempt after a failed dependency wait; (b1) proc_ended reports Skipped exactly for the
   instances with a failed dependency wait (or Terminating, when such an instance was stopped while pending) *)
Definition mon_C05_core (cs : amap pconf) (o : obs) (te : tid * event) : bool :=
  match snd te, ev_inst o (fst te) (snd te) with
  | ELaunch _, Some i => negb (o_depfail (oi_get o i))
  | EProcEnded i s0, _ =>
      let x := oi_get o i in
      if o_depfail x then status_eqb s0 SSkipped || status_eqb s0 STerminating
      else negb (status_eqb s0 SSkipped)
  | _, _ => true
  end.
(* (b2) at proc_ended(Skipped) of such an instance the reported exit code of its name is not 0 *)
Definition mon_C05_code (cs : amap pconf) (o : obs) (te : tid * event) : bool :=
  match snd te with
  | EProcEnded i s0 =>
      let x := oi_get o i in
      if o_depfail x && status_eqb s0 SSkipped then negb (r_code (on_get o (o_nm x)) =? 0)%Z else true
  | _ => true
  end.

Lemma mon_C05_split cs o te : mon_C05 cs o te = mon_C05_core cs o te && mon_C05_code cs o te.
Proof.
  destruct te as [th e]. unfold mon_C05, mon_C05_core, mon_C05_code. cbn [fst snd].
  destruct e; try reflexivity.
  - cbn. destruct (get th (o_th o)); [now rewrite andb_true_r|reflexivity].
  - cbn. destruct (o_depfail (oi_get o i)); destruct (status_eqb s SSkipped); cbn; rewrite ?andb_true_r; reflexivity.
Qed.

Section MonC05.
Context (cs : amap pconf).

Lemma mon5_core s o e s' : R5 cs s o -> step s e = Some s' -> mon_C05_core cs o e = true.
Proof.
  intros HR5 H. destruct e as [th e]. unfold step in H. cbn [fst snd] in H.
  apply (R5_flush _ _ _ th) in HR5. destruct HR5 as [HR HI _]. set (s0 := flush th s) in *. clearbody s0.
  unfold mon_C05_core. cbn [fst snd]. destruct e; try reflexivity.
  - (* ELaunch *)
    cbn in H. unfold step_own, own_inst in H.
    destruct (get th (thinst s0)) as [i|] eqn:Et; [|discriminate].
    destruct (get i (insts s0)) as [x|] eqn:Ex; [|discriminate].
    cbn [ev_inst]. rewrite <- (rc_th _ _ _ HR), Et.
    destruct (rc_inst _ _ _ HR i x Ex) as (xo & Exo & _). unfold oi_get. rewrite Exo.
    break_step H. rewrite (p5_nofail _ _ _ _ (HI i x xo Ex Exo)); [reflexivity|]. now rewrite E.
  - (* EProcEnded *)
    cbn in H. unfold step_procend in H.
    destruct (get i (insts s0)) as [x|] eqn:Ex; [|discriminate].
    destruct (rc_inst _ _ _ HR i x Ex) as (xo & Exo & _). cbn [ev_inst]. unfold oi_get. rewrite Exo.
    pose proof (HI i x xo Ex Exo) as [A B _ _].
    break_step H; split_andb;
      repeat match goal with E : status_eqb _ _ = true |- _ => apply status_eqb_eq in E; subst end;
      try (destruct (o_depfail xo); reflexivity);
      cbn in A, B;
      match goal with |- context[status_eqb ?sx SSkipped] =>
        (destruct (o_depfail xo);
         [ destruct (status_eqb sx SSkipped); [reflexivity|discriminate (A eq_refl)]
         | destruct (status_eqb sx SSkipped); [discriminate (B eq_refl)|reflexivity] ]) end.
Qed.

Lemma mon5_code s o e s' : R5 cs s o -> step s e = Some s' -> mon_C05_code cs o e = true \/ W_C05 o = true.
Proof.
  intros HR5 H. destruct e as [th e]. unfold step in H. cbn [fst snd] in H.
  apply (R5_flush _ _ _ th) in HR5. destruct HR5 as [HR HI _]. set (s0 := flush th s) in *. clearbody s0.
  unfold mon_C05_code. cbn [fst snd]. destruct e; try (left; reflexivity).
  cbn in H. unfold step_procend in H.
  destruct (get i (insts s0)) as [x|] eqn:Ex; [|discriminate].
  destruct (rc_inst _ _ _ HR i x Ex) as (xo & Exo & Hxn & Hcf & _). unfold oi_get. rewrite Exo.
  pose proof (p5_code _ _ _ _ (HI i x xo Ex Exo)) as D.
  match goal with |- context[status_eqb ?sx SSkipped] =>
    destruct (o_depfail xo && status_eqb sx SSkipped) eqn:Eb; [|left; reflexivity];
    apply andb_true_iff in Eb; destruct Eb as [_ Eb]; apply status_eqb_eq in Eb; subst sx end.
  destruct (rc_name _ _ _ HR (nm x) (cf x) Hcf) as (v & r & Ev & Er & Hc & _).
  assert (Hfin : code (vis_of s0 (nm x)) = 1%Z -> negb (r_code (on_get o (o_nm xo)) =? 0)%Z = true).
  { intros K. unfold on_get. rewrite Hxn, Er, Hc. unfold vis_of in K. rewrite Ev in K. rewrite K. reflexivity. }
  break_step H; split_andb; try discriminate;
    repeat match goal with E : status_eqb _ _ = true |- _ => apply status_eqb_eq in E; subst end;
    (destruct (D _ eq_refl) as [K|K]; [right; exact K|left; exact (Hfin K)]).
Qed.

Lemma mon5_main s o e s' : R5 cs s o -> step s e = Some s' -> mon_C05 cs o e = true \/ W_C05 o = true.
Proof.
  intros HR H. rewrite mon_C05_split, (mon5_core s o e s' HR H). cbn. eapply mon5_code; eauto.
Qed.
End MonC05.

(* ---- the theorems ----------------------------------------------------------------------------------- *)
(* every accepted history that did not go through the dup (F25) or zombie (F38) window satisfies the
   whole monitor *)
Theorem C05_main_lemma : forall cs ord evs s,
  accept (init cs ord) evs = Some s -> W_C05 (final_obs cs evs) = false -> holds_C05 cs evs = true.
Proof.
  intros cs ord evs s Hacc HW.
  exact (sim_holds_partial cs ord (R5 cs) (mon_C05 cs) W_C05 (R5_init cs ord)
           (fun s o e s' HR H => conj (R5_step cs s o e s' HR H) (mon5_main cs s o e s' HR H))
           (W_C05_mono cs) evs s Hacc HW).
Qed.

(* clauses (a) and (b1) hold in EVERY accepted history, windows or not *)
Theorem C05_core_lemma : forall cs ord evs s,
  accept (init cs ord) evs = Some s -> holds cs mon_C05_core evs = true.
Proof.
  intros cs ord evs s Hacc.
  exact (sim_holds_partial cs ord (R5 cs) (mon_C05_core cs) (fun _ => false) (R5_init cs ord)
           (fun s o e s' HR H => conj (R5_step cs s o e s' HR H) (or_introl (mon5_core cs s o e s' HR H)))
           (fun _ _ H => H) evs s Hacc eq_refl).
Qed.

(* ---- the window hypothesis is needed: a concrete accepted history -------------------------------- *)
Module Witness.
Open Scope N_scope.
(* process 1 (A) has no dependencies; process 2 (B) depends on A with process_completed_successfully *)
Definition confA := mkConf [] PNo 0 0 false false false false false false false.
Definition confB := mkConf [(1, CSuccess)] PNo 0 0 false false false false false false false.
Definition cs1 : amap pconf := [(1, confA); (2, confB)].

(* Run() (thread 100) and a concurrent StartProcess(B) (thread 200, its "is B running" check precedes
   Run's registration of B: the F25 window) create two instances of B: 11 and 12.  Instance 11 looks A up
   before A is registered, so it does not wait and launches its command.  A (instance 10) exits with code 1.
   Instance 12 waits for A, is refused (dep_done false), decides to skip and writes state Skipped (exit code
   of name B := 1).  Before it logs proc_ended(Skipped), the command of instance 11 exits with 0 and
   instance 11 stores exit code 0 under the shared name.  At proc_ended(12, Skipped) the reported exit code
   of the skipped process is 0. *)
Definition wit1 : list (tid * event) := [
 (100, EApiBegin OpRun);
 (200, EApiBegin (OpStart 2));
 (200, ERegGet 2 None);
 (200, EStartChecked 2 false);
 (100, ENewInst 11 2);
 (100, EState 11 SPending);
 (100, ERegAdd 11 2);
 (100, ESpawn 11 2);
 (1, EBegin 11);
 (1, EDoneGet 1 None);
 (1, ELookupMid 1);
 (1, ERegGet 1 None);
 (1, EDoneGet 1 None);
 (1, EDepWait 1 None);
 (1, ERunChecked false);
 (1, EStarted);
 (1, EState 11 SRunning);
 (1, ELaunch true);
 (100, ENewInst 10 1);
 (100, EState 10 SPending);
 (100, ERegAdd 10 1);
 (100, ESpawn 10 1);
 (100, ERunSpawned);
 (2, EBegin 10);
 (2, ERunChecked false);
 (2, EStarted);
 (2, EState 10 SRunning);
 (2, ELaunch true);
 (900, ECmdExit 10 1%Z);
 (2, EWaitReturn 1%Z);
 (2, EExitCode 1%Z);
 (2, ERestartDecision false);
 (2, EProcEnd 10 SCompleted);
 (2, EState 10 SCompleted);
 (2, EProcEnded 10 SCompleted);
 (200, ENewInst 12 2);
 (200, EState 12 SPending);
 (200, ERegAdd 12 2);
 (200, ESpawn 12 2);
 (200, EApiReturn true);
 (3, EBegin 12);
 (3, EDoneGet 1 None);
 (3, ELookupMid 1);
 (3, ERegGet 1 (Some 10));
 (3, EDepWait 1 (Some 10));
 (3, EDepDone 1 false);
 (3, ESkip);
 (3, EProcEnd 12 SSkipped);
 (3, EState 12 SSkipped);
 (900, ECmdExit 11 0%Z);
 (1, EWaitReturn 0%Z);
 (1, EExitCode 0%Z);
 (3, EProcEnded 12 SSkipped)
].

(* The same failure through the zombie window (F38) alone: A (instance 10) exits with 1 and ends, B (instance
   12) is refused and writes state Skipped.  RestartProcess(A) while the goroutine of instance 10 still
   lives creates instance 14, which runs, exits with 0 and ends; RestartProcess(B) while the goroutine of
   instance 12 still lives creates instance 13, whose dependency wait on A succeeds; its command exits
   with 0 and it stores exit code 0 under the name B before instance 12 logs proc_ended(Skipped). *)
Definition wit2 : list (tid * event) := [
 (100, EApiBegin OpRun);
 (100, ENewInst 10 1); (100, EState 10 SPending); (100, ERegAdd 10 1); (100, ESpawn 10 1);
 (100, ENewInst 12 2); (100, EState 12 SPending); (100, ERegAdd 12 2); (100, ESpawn 12 2);
 (100, ERunSpawned);
 (1, EBegin 10); (3, EBegin 12);
 (3, EDoneGet 1 None); (3, ELookupMid 1); (3, ERegGet 1 (Some 10)); (3, EDepWait 1 (Some 10));
 (1, ERunChecked false); (1, EStarted); (1, EState 10 SRunning); (1, ELaunch true);
 (900, ECmdExit 10 1%Z);
 (1, EWaitReturn 1%Z); (1, EExitCode 1%Z); (1, ERestartDecision false);
 (1, EProcEnd 10 SCompleted); (1, EState 10 SCompleted);
 (3, EDepDone 1 false); (3, ESkip); (3, EProcEnd 12 SSkipped); (3, EState 12 SSkipped);
 (* RestartProcess(A) while the goroutine of the ended instance 10 still lives *)
 (200, EApiBegin (OpRestart 1)); (200, ERegGet 1 (Some 10)); (200, ERestartChecked 1 (Some 10));
 (200, ENoRestart 10); (200, EStopEnter 10 true); (200, EStopReturn 10); (200, ERestartStopped 1);
 (200, ENewInst 14 1); (200, EState 14 SPending); (200, ERegAdd 14 1); (200, ESpawn 14 1); (200, EApiReturn true);
 (4, EBegin 14); (4, ERunChecked false); (4, EStarted); (4, EState 14 SRunning); (4, ELaunch true);
 (900, ECmdExit 14 0%Z);
 (4, EWaitReturn 0%Z); (4, EExitCode 0%Z); (4, ERestartDecision false);
 (4, EProcEnd 14 SCompleted); (4, EState 14 SCompleted);
 (* RestartProcess(B) while the goroutine of the skipped instance 12 still lives *)
 (300, EApiBegin (OpRestart 2)); (300, ERegGet 2 (Some 12)); (300, ERestartChecked 2 (Some 12));
 (300, ENoRestart 12); (300, EStopEnter 12 true); (300, EStopReturn 12); (300, ERestartStopped 2);
 (300, ENewInst 13 2); (300, EState 13 SPending); (300, ERegAdd 13 2); (300, ESpawn 13 2); (300, EApiReturn true);
 (5, EBegin 13);
 (5, EDoneGet 1 None); (5, ELookupMid 1); (5, ERegGet 1 (Some 14)); (5, EDepWait 1 (Some 14));
 (5, EDepDone 1 true);
 (5, ERunChecked false); (5, EStarted); (5, EState 13 SRunning); (5, ELaunch true);
 (900, ECmdExit 13 0%Z);
 (5, EWaitReturn 0%Z); (5, EExitCode 0%Z);
 (3, EProcEnded 12 SSkipped)
].
End Witness.

Theorem C05_refuted_lemma : exists cs ord evs s,
  accept (init cs ord) evs = Some s /\ holds_C05 cs evs = false.
Proof.
  exists Witness.cs1, false, Witness.wit1.
  destruct (accept (init Witness.cs1 false) Witness.wit1) as [s|] eqn:E.
  - exists s. split; [reflexivity|]. vm_compute. reflexivity.
  - vm_compute in E. discriminate E.
Qed.

(* each of the two flags is needed on its own *)
Theorem C05_windows_needed_lemma :
  (exists cs ord evs s, accept (init cs ord) evs = Some s /\ w_zombie (final_obs cs evs) = false /\ holds_C05 cs evs = false) /\
  (exists cs ord evs s, accept (init cs ord) evs = Some s /\ w_dup (final_obs cs evs) = false /\ holds_C05 cs evs = false).
Proof.
  split.
  - exists Witness.cs1, false, Witness.wit1.
    destruct (accept (init Witness.cs1 false) Witness.wit1) as [s|] eqn:E.
    + exists s. split; [reflexivity|]. vm_compute. split; reflexivity.
    + vm_compute in E. discriminate E.
  - exists Witness.cs1, false, Witness.wit2.
    destruct (accept (init Witness.cs1 false) Witness.wit2) as [s|] eqn:E.
    + exists s. split; [reflexivity|]. vm_compute. split; reflexivity.
    + vm_compute in E. discriminate E.
Qed.

(* ---- declarative (position-quantified) forms ------------------------------------------------------- *)
Lemma accept_app s l1 l2 : accept s (l1 ++ l2) = match accept s l1 with Some s1 => accept s1 l2 | None => None end.
Proof. revert s. induction l1 as [|e l1 IH]; intros s; cbn; [reflexivity|]. destruct (step s e); [apply IH|reflexivity]. Qed.

(* the binding thread -> instance never changes *)
Lemma step_core_thinst s th e s' : step_core s th e = Some s' ->
  thinst s' = thinst s \/ (exists i, e = EBegin i /\ get th (thinst s) = None /\ thinst s' = set th i (thinst s)).
Proof.
  intros H. destruct (exceptional e) eqn:Hex.
  2:{ left. destruct (step_core_same _ _ _ _ Hex H) as (_ & T & _). exact T. }
  destruct e; try discriminate Hex; cbn in H.
  - left. unfold step_reg in H. break_step H. subst s'. reflexivity.
  - right. break_step H. subst s'. exists i. split_andb. unfold has in *. destruct (get th (thinst s)); [discriminate|]. auto.
  - left. unfold step_state in H. break_step H; subst s'; unfold set_pc, end_finish, set_stage; cbn [thinst RecordSet.set]; autorewrite with sup;
      repeat match goal with |- context[thinst (if ?b then _ else _)] => destruct b end; autorewrite with sup; reflexivity.
  - left. unfold step_own, own_inst in H. break_step H; subst s'; autorewrite with sup; reflexivity.
  - left. unfold step_own, own_inst in H. break_step H; subst s'; unfold set_pc; autorewrite with sup; reflexivity.
  - left. unfold step_own, own_inst in H. break_step H; subst s'; unfold set_pc; autorewrite with sup; reflexivity.
Qed.

Lemma step_thinst s e s' th i : step s e = Some s' -> get th (thinst s) = Some i -> get th (thinst s') = Some i.
Proof.
  destruct e as [th' e]. unfold step. cbn [fst snd]. intros H Ht. rewrite <- (flush_thinst th' s) in Ht.
  destruct (step_core_thinst _ _ _ _ H) as [->|(i' & _ & Hnone & ->)]; [exact Ht|].
  rewrite get_set. destruct (N.eqb_spec th' th); [subst; congruence|exact Ht].
Qed.

(* "instance i of thread th has left the launch path for good" *)
Definition Off (th : tid) (i : iid) (s : sys) : Prop :=
  get th (thinst s) = Some i /\ exists x, get i (insts s) = Some x /\ nofail_pc (pc x) = false.

Lemma Off_step th i s e s' : step s e = Some s' -> Off th i s -> Off th i s'.
Proof.
  intros H (Ht & x & Ex & Hp). split; [eapply step_thinst; eauto|].
  destruct e as [th' e]. unfold step in H. cbn [fst snd] in H.
  pose proof (flush_pc th' s i) as F. rewrite Ex in F. destruct F as (x0 & Ex0 & _ & Hp0).
  destruct (is_new e) eqn:Hn.
  - destruct e; try discriminate Hn. destruct (step_core_new _ _ _ _ _ H) as (Hfresh & c & _ & ->).
    exists x0. cbn. rewrite get_set_other by congruence. split; [exact Ex0|congruence].
  - pose proof (step_core_pc _ _ _ _ Hn H i) as M. rewrite Ex0 in M. destruct M as (y & Ey & _ & Hpc & _).
    exists y. split; [exact Ey|]. destruct Hpc as [->|[_ Tr]]; [congruence|].
    destruct (nofail_pc (pc y)) eqn:Ny; [|reflexivity]. destruct (trans_nofail _ _ _ Tr Ny). congruence.
Qed.

Lemma Off_accept th i evs : forall s s', accept s evs = Some s' -> Off th i s -> Off th i s'.
Proof.
  induction evs as [|e evs IH]; intros s s' H HO; cbn in H; [now injection H as <-|].
  destruct (step s e) as [s1|] eqn:Es; [|discriminate]. eapply IH; eauto using Off_step.
Qed.

(* a failed dependency wait puts the thread's instance there *)
Lemma depfail_Off s th k s' : step s (th, EDepDone k false) = Some s' -> exists i, Off th i s'.
Proof.
  intros H. unfold step in H. cbn [fst snd] in H.
  pose proof H as H0. cbn in H0. unfold step_own, own_inst in H0.
  destruct (get th (thinst (flush th s))) as [i|] eqn:Et; [|discriminate].
  destruct (get i (insts (flush th s))) as [x|] eqn:Ex; [|discriminate]. clear H0.
  exists i. split.
  - destruct (step_core_thinst _ _ _ _ H) as [->|(? & ? & _)]; [exact Et|discriminate].
  - pose proof (step_core_pc _ th (EDepDone k false) _ eq_refl H i) as M. rewrite Ex in M. destruct M as (y & Ey & _ & _ & Ht).
    exists y. split; [exact Ey|]. specialize (Ht eq_refl Et).
    destruct (nofail_pc (pc y)) eqn:Ny; [|reflexivity]. destruct (trans_nofail _ _ _ Ht Ny). discriminate.
Qed.

(* (a), declaratively: in an accepted history no thread logs a launch attempt after it has logged a failed
   dependency wait (a thread serves one instance for its whole life) *)
Theorem C05_never_launched_lemma : forall cs ord p1 th k p2 ok p3 s,
  accept (init cs ord) (p1 ++ (th, EDepDone k false) :: p2 ++ (th, ELaunch ok) :: p3) = Some s -> False.
Proof.
  intros cs ord p1 th k p2 ok p3 s H.
  rewrite accept_app in H. destruct (accept (init cs ord) p1) as [s1|]; [|discriminate H]. cbn [accept] in H.
  destruct (step s1 (th, EDepDone k false)) as [s2|] eqn:E2; [|discriminate H].
  rewrite accept_app in H. destruct (accept s2 p2) as [s3|] eqn:E3; [|discriminate H]. cbn [accept] in H.
  destruct (step s3 (th, ELaunch ok)) as [s4|] eqn:E4; [|discriminate H]. clear H.
  destruct (depfail_Off _ _ _ _ E2) as (i & HO). apply (Off_accept th i p2 _ _ E3) in HO.
  destruct HO as (Ht & x & Ex & Hp).
  unfold step in E4. cbn [fst snd] in E4. cbn in E4. unfold step_own, own_inst in E4.
  rewrite flush_thinst, Ht in E4. pose proof (flush_pc th s3 i) as F. rewrite Ex in F. destruct F as (x0 & Ex0 & _ & Hp0).
  rewrite Ex0 in E4. destruct (pc x0) eqn:Epc; try discriminate. rewrite <- Hp0 in Hp. discriminate.
Qed.

(* (b1), declaratively: if the thread of instance i logged a failed dependency wait, every later
   proc_ended of i reports Skipped or Terminating *)
Theorem C05_ended_status_lemma : forall cs ord p0 th i p1 k p2 th' s0 p3 s,
  accept (init cs ord) (p0 ++ (th, EBegin i) :: p1 ++ (th, EDepDone k false) :: p2 ++ (th', EProcEnded i s0) :: p3) = Some s ->
  s0 = SSkipped \/ s0 = STerminating.
Proof.
  intros cs ord p0 th i p1 k p2 th' s0 p3 s H.
  rewrite accept_app in H. destruct (accept (init cs ord) p0) as [s1|]; [|discriminate H]. cbn [accept] in H.
  destruct (step s1 (th, EBegin i)) as [s2|] eqn:E2; [|discriminate H].
  rewrite accept_app in H. destruct (accept s2 p1) as [s3|] eqn:E3; [|discriminate H]. cbn [accept] in H.
  destruct (step s3 (th, EDepDone k false)) as [s4|] eqn:E4; [|discriminate H].
  rewrite accept_app in H. destruct (accept s4 p2) as [s5|] eqn:E5; [|discriminate H]. cbn [accept] in H.
  destruct (step s5 (th', EProcEnded i s0)) as [s6|] eqn:E6; [|discriminate H]. clear H.
  (* th is bound to i from EBegin on *)
  assert (Ht2 : get th (thinst s2) = Some i).
  { unfold step in E2. cbn in E2. break_step E2. subst s2. cbn. apply get_set_same. }
  assert (Ht3 : get th (thinst s3) = Some i).
  { clear - E3 Ht2. revert s2 s3 E3 Ht2. induction p1 as [|e l IH]; intros s2 s3 E3 Ht2; cbn in E3; [now injection E3 as <-|].
    destruct (step s2 e) as [sx|] eqn:Es; [|discriminate]. eapply IH; eauto using step_thinst. }
  destruct (depfail_Off _ _ _ _ E4) as (i' & HO).
  assert (i' = i). { destruct HO as (Ht4 & _). pose proof (step_thinst _ _ _ _ _ E4 Ht3). congruence. } subst i'.
  apply (Off_accept th i p2 _ _ E5) in HO. destruct HO as (Ht & x & Ex & Hp).
  unfold step in E6. cbn [fst snd] in E6. cbn in E6. unfold step_procend in E6.
  pose proof (flush_pc th' s5 i) as F. rewrite Ex in F. destruct F as (x0 & Ex0 & _ & Hp0). rewrite Ex0 in E6.
  rewrite <- Hp0 in Hp.
  break_step E6; split_andb;
    repeat match goal with E : status_eqb _ _ = true |- _ => apply status_eqb_eq in E; subst end; auto;
    cbn in Hp; apply negb_false_iff in Hp; apply status_eqb_eq in Hp; auto.
Qed.

(* ---- exit_on_skipped: the trigger of a skipped instance carries exit code 1 --------------------------- *)
(* positions after a failed dependency wait, with the exit code the instance will hand to the project *)
Definition skipcode_pc (p : ipc) : bool :=
  match p with
  | ISkipDecided | ICodeSet | ILeaving | IWgDone | IGone => true
  | IEnding SSkipped c | IInEnd SSkipped c _ | IProjEnd c true | ITriggered c => Z.eqb c 1
  | _ => false
  end.

Lemma trans_skipcode e p p' : pc_trans e p p' = true -> skipcode_pc p = true -> skipcode_pc p' = true.
Proof.
  intros H N. trans_cases H; cbn in *; try discriminate; auto; subst; auto.
  destruct skipped; [exact N|discriminate N].
Qed.

Definition Off1 (th : tid) (i : iid) (s : sys) : Prop :=
  get th (thinst s) = Some i /\ exists x, get i (insts s) = Some x /\ skipcode_pc (pc x) = true.

Lemma Off1_step th i s e s' : step s e = Some s' -> Off1 th i s -> Off1 th i s'.
Proof.
  intros H (Ht & x & Ex & Hp). split; [eapply step_thinst; eauto|].
  destruct e as [th' e]. unfold step in H. cbn [fst snd] in H.
  pose proof (flush_pc th' s i) as F. rewrite Ex in F. destruct F as (x0 & Ex0 & _ & Hp0).
  destruct (is_new e) eqn:Hn.
  - destruct e; try discriminate Hn. destruct (step_core_new _ _ _ _ _ H) as (Hfresh & c & _ & ->).
    exists x0. cbn. rewrite get_set_other by congruence. split; [exact Ex0|congruence].
  - pose proof (step_core_pc _ _ _ _ Hn H i) as M. rewrite Ex0 in M. destruct M as (y & Ey & _ & Hpc & _).
    exists y. split; [exact Ey|]. destruct Hpc as [->|[_ Tr]]; [congruence|].
    eapply trans_skipcode; [exact Tr|congruence].
Qed.

Lemma Off1_accept th i evs : forall s s', accept s evs = Some s' -> Off1 th i s -> Off1 th i s'.
Proof.
  induction evs as [|e evs IH]; intros s s' H HO; cbn in H; [now injection H as <-|].
  destruct (step s e) as [s1|] eqn:Es; [|discriminate]. eapply IH; eauto using Off1_step.
Qed.

Lemma depfail_Off1 s th k s' : step s (th, EDepDone k false) = Some s' -> exists i, Off1 th i s'.
Proof.
  intros H. unfold step in H. cbn [fst snd] in H.
  pose proof H as H0. cbn in H0. unfold step_own, own_inst in H0.
  destruct (get th (thinst (flush th s))) as [i|] eqn:Et; [|discriminate].
  destruct (get i (insts (flush th s))) as [x|] eqn:Ex; [|discriminate]. clear H0.
  exists i. split.
  - destruct (step_core_thinst _ _ _ _ H) as [->|(? & ? & _)]; [exact Et|discriminate].
  - pose proof (step_core_pc _ th (EDepDone k false) _ eq_refl H i) as M. rewrite Ex in M. destruct M as (y & Ey & _ & _ & Ht).
    exists y. split; [exact Ey|]. specialize (Ht eq_refl Et).
    destruct (pc x); try discriminate Ht. destruct (pc y); try discriminate Ht. reflexivity.
Qed.

(* if the instance of a thread that logged a failed dependency wait fires an exit trigger
   (exit_on_skipped), the trigger carries exit code 1 *)
Theorem C05_trigger_code_lemma : forall cs ord p1 th k p2 c p3 s,
  accept (init cs ord) (p1 ++ (th, EDepDone k false) :: p2 ++ (th, EExitTrigger c) :: p3) = Some s -> c = 1%Z.
Proof.
  intros cs ord p1 th k p2 c p3 s H.
  rewrite accept_app in H. destruct (accept (init cs ord) p1) as [s1|]; [|discriminate H]. cbn [accept] in H.
  destruct (step s1 (th, EDepDone k false)) as [s2|] eqn:E2; [|discriminate H].
  rewrite accept_app in H. destruct (accept s2 p2) as [s3|] eqn:E3; [|discriminate H]. cbn [accept] in H.
  destruct (step s3 (th, EExitTrigger c)) as [s4|] eqn:E4; [|discriminate H]. clear H.
  destruct (depfail_Off1 _ _ _ _ E2) as (i & HO). apply (Off1_accept th i p2 _ _ E3) in HO.
  destruct HO as (Ht & x & Ex & Hp).
  unfold step in E4. cbn [fst snd] in E4. cbn in E4. unfold step_own, own_inst in E4.
  rewrite flush_thinst, Ht in E4. pose proof (flush_pc th s3 i) as F. rewrite Ex in F. destruct F as (x0 & Ex0 & _ & Hp0).
  rewrite Ex0 in E4. rewrite <- Hp0 in Hp. destruct (pc x0) eqn:Epc; try discriminate E4.
  break_step E4. split_andb. cbn in Hp. destruct skipped; [|discriminate Hp]. apply Z.eqb_eq in Hp. congruence.
Qed.

(* ... and only a process configured with exit_on_skipped fires it *)
Theorem C05_trigger_conf_lemma : forall cs ord p1 th k p2 c p3 s,
  accept (init cs ord) (p1 ++ (th, EDepDone k false) :: p2 ++ (th, EExitTrigger c) :: p3) = Some s ->
  exists s3 i x, accept (init cs ord) (p1 ++ (th, EDepDone k false) :: p2) = Some s3 /\
                 get th (thinst s3) = Some i /\ get i (insts s3) = Some x /\ on_skipped (cf x) = true.
Proof.
  intros cs ord p1 th k p2 c p3 s H.
  change (p1 ++ (th, EDepDone k false) :: p2 ++ (th, EExitTrigger c) :: p3)
    with (p1 ++ ((th, EDepDone k false) :: p2) ++ (th, EExitTrigger c) :: p3) in H.
  rewrite app_assoc, accept_app in H.
  destruct (accept (init cs ord) (p1 ++ (th, EDepDone k false) :: p2)) as [s3|] eqn:E3; [|discriminate H].
  cbn [accept] in H. destruct (step s3 (th, EExitTrigger c)) as [s4|] eqn:E4; [|discriminate H]. clear H.
  pose proof E3 as E3'. rewrite accept_app in E3'.
  destruct (accept (init cs ord) p1) as [s1|]; [|discriminate E3']. cbn [accept] in E3'.
  destruct (step s1 (th, EDepDone k false)) as [s2|] eqn:E2; [|discriminate E3'].
  destruct (depfail_Off1 _ _ _ _ E2) as (i & HO). apply (Off1_accept th i p2 _ _ E3') in HO.
  destruct HO as (Ht & x & Ex & Hp).
  exists s3, i, x. repeat split; auto.
  unfold step in E4. cbn [fst snd] in E4. cbn in E4. unfold step_own, own_inst in E4.
  rewrite flush_thinst, Ht in E4. pose proof (flush_insts th s3 i) as F. rewrite Ex in F. destruct F as (x0 & Ex0 & L).
  destruct L as (_ & Hcf & Hp0 & _). rewrite Ex0 in E4. rewrite <- Hp0 in Hp. destruct (pc x0) eqn:Epc; try discriminate E4.
  break_step E4. split_andb. cbn in Hp. destruct skipped; [|discriminate Hp]. cbn in *. congruence.
Qed.
