(* Simulation relation and proof for C02 (restart policy).  See Props/C02.v for the statements. *)
From Coq Require Import List ZArith NArith Bool Lia.
From RecordUpdate Require Import RecordSet.
From PC.Base Require Import Assoc.
From PC.Sup Require Import Model Monitors Tactics Sim ObsFacts Effects RelCore.
Import ListNotations RecordSetNotations.

(* ---- the restart decision table (process.go:284-316) ------------------------------------------------ *)
Lemma restart_ok_spec stopped p c maxr restarts :
  restart_ok stopped p c maxr restarts = true <->
  stopped = false /\ policy_allows p c = true /\ (maxr = 0 \/ restarts < maxr).
Proof.
  unfold restart_ok, policy_allows.
  destruct (Nat.eqb_spec maxr 0); destruct (Nat.ltb_spec restarts maxr); destruct stopped; destruct p;
    destruct (c =? 0)%Z; cbn; split; try discriminate; try tauto; try lia;
    intros (? & ? & ?); try discriminate; try lia.
Qed.

Definition commit_pc (p : ipc) : bool :=
  match p with IPreStart | IPreLaunch | IStateSet => true | _ => false end.
Definition relaunch_pc (p : ipc) : bool :=
  match p with IBackoff _ | IPreLaunch | IStateSet => true | _ => false end.
Definition inend_pc (p : ipc) : bool :=
  match p with IInEnd _ _ _ | IRunRet _ | IDoneReg _ | IProjEnd _ _ | ITriggered _ | ICodeSet | ILeaving | IWgDone | IGone => true
  | _ => false end.

Definition Pok (x : inst) (c : Z) : Prop :=
  policy_allows (pol (cf x)) c = true /\ (maxr (cf x) = 0 \/ launches x <= maxr (cf x)).

(* why an instance gave up instead of relaunching *)
Definition GaveUp (s : sys) (x : inst) (xo : oinst) (c : Z) : Prop :=
  o_stopreq xo = true \/ policy_allows (pol (cf x)) c = false \/
  (maxr (cf x) <> 0 /\ maxr (cf x) <= restarts (vis_of s (nm x))).

Section RelC02.
Context (cs : amap pconf).

Record P2 (s : sys) (o : obs) (x : inst) (xo : oinst) : Prop := mkP2 {
  p_commit : commit_pc (pc x) = true -> o_commit xo = true;
  p_stop : any_window o = false -> o_stopreq xo = true -> commit_pc (pc x) = false;
  p_exited : forall c, exited x = Some c -> o_code xo = Some c /\ pc x = IAlive /\ alive x = false;
  p_alive : alive x = true -> pc x = IAlive;
  p_code : forall c, pc x = IExited c \/ pc x = ICodeWritten c -> o_code xo = Some c /\ alive x = false /\ exited x = None;
  p_decided : forall c, pc x = IWillRestart c \/ pc x = IRestarting c \/ pc x = IBackoff c ->
              o_code xo = Some c /\ Pok x c /\ alive x = false /\ exited x = None;
  p_relaunch : (pc x = IPreLaunch \/ pc x = IStateSet) -> 1 <= launches x ->
               exists c, o_code xo = Some c /\ Pok x c /\ o_elapsed xo = true /\ alive x = false /\ exited x = None;
  p_first : commit_pc (pc x) = true -> alive x = false /\ exited x = None;
  p_gaveup : forall c b, pc x = IEnding SCompleted c \/ pc x = IInEnd SCompleted c b ->
             o_code xo = Some c /\ GaveUp s x xo c /\ alive x = false /\ exited x = None;
  p_restarts : launches x <= restarts (vis_of s (nm x)) + 1 /\
               (relaunch_pc (pc x) = true -> launches x <= restarts (vis_of s (nm x)));
  p_fstopped : f_stopped x = true -> o_stopreq xo = true;
  p_runctx : l_runctx x = true -> o_stopreq xo = true \/ inend_pc (pc x) = true
}.

Record R2 (s : sys) (o : obs) : Prop := mkR2 {
  r2_core : Rc cs s o;
  r2_inst : forall i x xo, get i (insts s) = Some x -> get i (oi o) = Some xo -> P2 s o x xo;
  r2_pend : forall th t i, get th (threads s) = Some t ->
            (pend t = Some (RRunCtx i) -> o_stopreq (oi_get o i) = true) /\
            (pend t = Some (REndEarly i) -> o_stopreq (oi_get o i) = true \/
                                            exists x, get i (insts s) = Some x /\ inend_pc (pc x) = true)
}.

Lemma R2_init ord : R2 (init cs ord) (obs0 cs).
Proof.
  constructor.
  - apply Rc_init.
  - cbn. discriminate.
  - cbn. discriminate.
Qed.

End RelC02.
