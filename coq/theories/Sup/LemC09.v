(* Generic lemmas used by the C09 simulation proof (RelC09.v): a simulation theorem with an assumption
   monitor and a window flag that may be raised by the offending event itself, conjunction of monitors,
   and effect lemmas that describe what each kind of step does to one instance / one visible record. *)
From Coq Require Import List ZArith NArith Bool Lia.
From RecordUpdate Require Import RecordSet.
From PC.Base Require Import Assoc.
From PC.Sup Require Import Model Monitors Tactics Sim ObsFacts Effects RelCore.
Import ListNotations RecordSetNotations.

(* ---- monitors ---------------------------------------------------------------------------------------- *)
Definition holds' (cs : amap pconf) (m : obs -> tid * event -> bool) (evs : list (tid * event)) : bool :=
  match mon_run cs m (obs0 cs) evs 0 with None => true | Some _ => false end.

Lemma mon_run_ext cs m1 m2 : (forall o e, m1 o e = m2 o e) ->
  forall evs o k, mon_run cs m1 o evs k = mon_run cs m2 o evs k.
Proof.
  intros H. induction evs as [|e r IH]; intros o k; cbn; [reflexivity|]. rewrite H. destruct (m2 o e); auto.
Qed.

Lemma mon_run_and cs m1 m2 : forall evs o k,
  mon_run cs m1 o evs k = None -> mon_run cs m2 o evs k = None ->
  mon_run cs (fun o e => m1 o e && m2 o e) o evs k = None.
Proof.
  induction evs as [|e r IH]; intros o k; cbn; [reflexivity|].
  destruct (m1 o e); [|discriminate]. destruct (m2 o e); [|discriminate]. cbn. apply IH.
Qed.

Lemma mon_run_and_inv cs m1 m2 : forall evs o k,
  mon_run cs (fun o e => m1 o e && m2 o e) o evs k = None ->
  mon_run cs m1 o evs k = None /\ mon_run cs m2 o evs k = None.
Proof.
  induction evs as [|e r IH]; intros o k; cbn; [auto|].
  destruct (m1 o e), (m2 o e); cbn; try discriminate. apply IH.
Qed.

Lemma holds'_and cs m1 m2 evs :
  holds' cs (fun o e => m1 o e && m2 o e) evs = holds' cs m1 evs && holds' cs m2 evs.
Proof.
  unfold holds'.
  destruct (mon_run cs m1 (obs0 cs) evs 0) eqn:E1; destruct (mon_run cs m2 (obs0 cs) evs 0) eqn:E2; cbn;
    try (destruct (mon_run cs (fun o e => m1 o e && m2 o e) (obs0 cs) evs 0) eqn:E; [reflexivity|];
         apply mon_run_and_inv in E; destruct E; congruence).
  now rewrite mon_run_and.
Qed.

(* mon_run m = None says: the check is true at every position, on the observer state before it *)
Lemma mon_run_None_nth cs m : forall evs o k, mon_run cs m o evs k = None ->
  forall p e, nth_error evs p = Some e -> m (fold_left (obs_step cs) (firstn p evs) o) e = true.
Proof.
  induction evs as [|a r IH]; intros o k H p e Hp; [destruct p; discriminate|].
  cbn in H. destruct (m o a) eqn:Ea; [|discriminate].
  destruct p as [|p]; cbn in *; [injection Hp as <-; exact Ea|]. eapply IH; eauto.
Qed.

(* ---- simulation with an assumption monitor A and a window flag W read AFTER the event ----------------- *)
Section Sim2.
Context (cs : amap pconf) (ord : bool).
Context (R : sys -> obs -> Prop) (m A : obs -> tid * event -> bool) (W : obs -> bool).
Context (R0 : R (init cs ord) (obs0 cs)).
Context (Rstep : forall s o e s', R s o -> step s e = Some s' -> A o e = true ->
                 R s' (obs_step cs o e) /\ (m o e = true \/ W (obs_step cs o e) = true)).
Context (Wmono : forall o e, W o = true -> W (obs_step cs o e) = true).

Lemma W_fold : forall l o, W o = true -> W (fold_left (obs_step cs) l o) = true.
Proof. induction l as [|a l IH]; intros o H; [exact H|]. cbn. apply IH. now apply Wmono. Qed.

Lemma sim2_run : forall evs s o k s', R s o -> accept s evs = Some s' ->
  mon_run cs A o evs k = None ->
  W (fold_left (obs_step cs) evs o) = false ->
  mon_run cs m o evs k = None.
Proof.
  induction evs as [|e evs IH]; intros s o k s' HR Hacc HA HW; [reflexivity|].
  cbn in Hacc. destruct (step s e) as [s1|] eqn:Es; [|discriminate].
  cbn [mon_run fold_left] in *. destruct (A o e) eqn:Ea; [|discriminate].
  destruct (Rstep s o e s1 HR Es Ea) as [HR1 Hm].
  destruct Hm as [Hm|Hm].
  - rewrite Hm. eapply IH; eauto.
  - rewrite (W_fold evs _ Hm) in HW. discriminate.
Qed.

Theorem sim2_holds : forall evs s,
  accept (init cs ord) evs = Some s ->
  holds' cs A evs = true ->
  W (final_obs cs evs) = false ->
  holds' cs m evs = true.
Proof.
  intros evs s Hacc HA HW. unfold holds' in *.
  destruct (mon_run cs A (obs0 cs) evs 0) eqn:EA; [discriminate|].
  now rewrite (sim2_run evs _ _ 0 s R0 Hacc EA HW).
Qed.
End Sim2.

Definition mtrue (o : obs) (e : tid * event) : bool := true.
Lemma holds'_mtrue cs evs : holds' cs mtrue evs = true.
Proof.
  unfold holds'. assert (H : forall evs o k, mon_run cs mtrue o evs k = None) by (induction evs0; intros; cbn; auto).
  now rewrite H.
Qed.
Definition wnone (o : obs) : bool := false.

(* single window flags are sticky *)
Lemma flag_le_nth o o' : flag_le o o' ->
  (w_zombie o = true -> w_zombie o' = true) /\ (w_sdlag o = true -> w_sdlag o' = true) /\
  (w_commit o = true -> w_commit o' = true) /\ (w_late o = true -> w_late o' = true) /\
  (w_sdspawn o = true -> w_sdspawn o' = true) /\ (w_dup o = true -> w_dup o' = true) /\
  (w_stale o = true -> w_stale o' = true).
Proof.
  unfold flag_le, windows_of. intros H.
  repeat match goal with H : Forall2 _ (_ :: _) (_ :: _) |- _ => inversion H; subst; clear H end.
  repeat split; assumption.
Qed.
Lemma w_dup_mono cs o e : w_dup o = true -> w_dup (obs_step cs o e) = true.
Proof. apply (flag_le_nth _ _ (obs_step_flags_mono cs o e)). Qed.
Lemma w_late_mono cs o e : w_late o = true -> w_late (obs_step cs o e) = true.
Proof. apply (flag_le_nth _ _ (obs_step_flags_mono cs o e)). Qed.

(* ---- model-side frame: steps that leave the "core" of every instance and every status alone ----------- *)
Definition ifr (x x' : inst) : Prop :=
  nm x' = nm x /\ cf x' = cf x /\ launches x' = launches x /\ pc x' = pc x /\ alive x' = alive x /\ exited x' = exited x.

Definition msame (s s' : sys) : Prop :=
  confs s' = confs s /\ thinst s' = thinst s /\
  (forall j, match get j (insts s) with
             | Some x => exists x', get j (insts s') = Some x' /\ ifr x x'
             | None => get j (insts s') = None end) /\
  (forall n, match get n (viss s) with
             | Some v => exists v', get n (viss s') = Some v' /\ code v' = code v /\ st v' = st v /\ restarts v' = restarts v
             | None => get n (viss s') = None end).

Lemma ifr_refl x : ifr x x. Proof. repeat split. Qed.
Lemma msame_refl s : msame s s.
Proof.
  repeat split; intros k; [destruct (get k (insts s)) as [x|]|destruct (get k (viss s)) as [v|]]; eauto 8 using ifr_refl.
Qed.
Lemma msame_trans s1 s2 s3 : msame s1 s2 -> msame s2 s3 -> msame s1 s3.
Proof.
  intros (A1 & B1 & C1 & D1) (A2 & B2 & C2 & D2). repeat split; try congruence.
  - intros j. specialize (C1 j). specialize (C2 j). destruct (get j (insts s1)) as [x|].
    + destruct C1 as (x2 & E2 & F2). rewrite E2 in C2. destruct C2 as (x3 & E3 & F3).
      exists x3. split; [exact E3|]. unfold ifr in *. intuition congruence.
    + now rewrite C1 in C2.
  - intros n. specialize (D1 n). specialize (D2 n). destruct (get n (viss s1)) as [v|].
    + destruct D1 as (v2 & E2 & ? & ? & ?). rewrite E2 in D2. destruct D2 as (v3 & E3 & ? & ? & ?).
      exists v3. repeat split; congruence.
    + now rewrite D1 in D2.
Qed.
Lemma msame_eq s s' : confs s' = confs s -> thinst s' = thinst s -> insts s' = insts s -> viss s' = viss s -> msame s s'.
Proof.
  intros A B C D. repeat split; auto.
  - intros k. rewrite C. destruct (get k (insts s)) as [x|]; eauto using ifr_refl.
  - intros k. rewrite D. destruct (get k (viss s)) as [v|]; eauto 8.
Qed.
Lemma msame_upd_inst i f s : (forall x, ifr x (f x)) -> msame s (upd_inst i f s).
Proof.
  intros Hf. repeat split; [apply upd_inst_confs|apply upd_inst_thinst| |].
  - intros j. rewrite insts_upd_inst. destruct (N.eqb i j); destruct (get j (insts s)) as [x|]; cbn; eauto using ifr_refl.
  - intros n. rewrite upd_inst_viss. destruct (get n (viss s)) as [v|]; eauto 8.
Qed.
Lemma msame_upd_vis n f s :
  (forall v, code (f v) = code v /\ st (f v) = st v /\ restarts (f v) = restarts v) -> msame s (upd_vis n f s).
Proof.
  intros Hf. repeat split; [apply upd_vis_confs|apply upd_vis_thinst| |].
  - intros j. rewrite upd_vis_insts. destruct (get j (insts s)) as [x|]; eauto using ifr_refl.
  - intros m. rewrite viss_upd_vis. destruct (N.eqb n m); destruct (get m (viss s)) as [v|]; cbn; eauto 8;
      exists (f v); destruct (Hf v) as (? & ? & ?); auto.
Qed.
Lemma msame_fold_upd_inst (f : inst -> inst) l : (forall x, ifr x (f x)) ->
  forall s, msame s (fold_left (fun s i => upd_inst i f s) l s).
Proof.
  intros Hf. induction l as [|a l IH]; intros s; cbn; [apply msame_refl|].
  eapply msame_trans; [apply (msame_upd_inst a f s Hf)|apply IH].
Qed.

Ltac msame_close :=
  unfold set_pc, end_release_early, end_finish;
  repeat first
  [ apply msame_refl
  | match goal with
    | |- msame ?s (upd_inst ?i ?f ?X) =>
        apply (msame_trans s X); [|apply msame_upd_inst; intros; unfold ifr; cbn; repeat split; try reflexivity; destruct_matches; reflexivity]
    | |- msame ?s (upd_vis ?n ?f ?X) =>
        apply (msame_trans s X); [|apply msame_upd_vis; intros; cbn; repeat split; try reflexivity; destruct_matches; reflexivity]
    | |- msame ?s (fold_left (fun s i => upd_inst i ?f s) ?l ?X) =>
        apply (msame_trans s X); [|apply msame_fold_upd_inst; intros; unfold ifr; cbn; repeat split; reflexivity]
    | |- msame ?s (set_thread ?th ?t ?X) =>
        apply (msame_trans s X); [|apply msame_eq; reflexivity]
    | |- msame ?s (RecordSet.set _ _ ?X) =>
        apply (msame_trans s X); [|apply msame_eq; reflexivity]
    | |- msame ?s (if ?b then _ else _) => destruct b
    | |- msame ?s (match ?b with _ => _ end) => destruct b
    end ].

Ltac kind_cases H :=
  unfold_steps H; unfold own_inst in H; cbn [fst snd] in H; break_step H;
  repeat match goal with E : (match _ with _ => _ end) = Some _ |- _ => break_step E end;
  repeat match goal with E : _ = ?s' |- _ => is_var s'; subst s' end.

Lemma msame_flush th s : msame s (flush th s).
Proof.
  repeat split; [apply flush_confs|apply flush_thinst| |].
  - intros j. pose proof (flush_insts th s j) as H. destruct (get j (insts s)) as [x|]; [|exact H].
    destruct H as (x' & E & L). exists x'. unfold inst_latch_le in L. unfold ifr. intuition congruence.
  - intros n. rewrite flush_viss. destruct (get n (viss s)) as [v|]; eauto 6.
Qed.

Definition mexc (e : event) : bool :=
  match e with ENewInst _ _ | ECmdExit _ _ => true | _ => false end.

Lemma step_reg_msame s th e s' : mexc e = false -> step_reg s th e = Some s' -> msame s s'.
Proof. intros Hex H. destruct e; try discriminate Hex; kind_cases H; msame_close. Qed.
Lemma step_stop_msame s th e s' : step_stop s th e = Some s' -> msame s s'.
Proof. intros H. destruct e; kind_cases H; msame_close. Qed.
Lemma step_shutdown_msame s th e s' : step_shutdown s th e = Some s' -> msame s s'.
Proof. intros H. destruct e; kind_cases H; msame_close. Qed.
Lemma step_env_msame s th e s' : mexc e = false -> step_env s th e = Some s' -> msame s s'.
Proof. intros Hex H. destruct e; try discriminate Hex; kind_cases H; msame_close. Qed.
Lemma step_api_msame s th e s' : step_api s th e = Some s' -> msame s s'.
Proof. intros H. destruct e; kind_cases H; msame_close. Qed.
Lemma step_ordered_msame s th i s' : step_ordered_go s th i = Some s' -> msame s s'.
Proof. intros H. kind_cases H; msame_close. Qed.

(* ---- effect of the steps of an instance's own goroutine ------------------------------------------------ *)
Definition own_tr (e : event) (p p' : ipc) : bool :=
  match e, p, p' with
  | EDepWait _ _, IDeps _, (IDeps _ | IBlocked _ _ _ _) => true
  | EDepDone _ _, IBlocked _ _ _ _, (IDeps _ | ISkipDecided) => true
  | ESkip, ISkipDecided, IEnding SSkipped _ => true
  | ERunChecked _, IDeps _, (IRunRet (Some _) | IEnding SError _ | IPreStart) => true
  | EStarted, IPreStart, IPreLaunch => true
  | ELaunch true, IStateSet, IAlive => true
  | ELaunch false, IStateSet, IEnding SError _ => true
  | EWaitReturn c, IAlive, IExited c' => Z.eqb c c'
  | EExitCode c, IExited c1, ICodeWritten c2 => Z.eqb c c1 && Z.eqb c c2
  | ELookupMid _, IDeps _, IDeps _ => true
  | ERestartDecision _, ICodeWritten c, (IWillRestart c' | IEnding SCompleted c') => Z.eqb c c'
  | EBackoffWait _, IRestarting c, IBackoff c' => Z.eqb c c'
  | EBackoffElapsed, IBackoff _, IPreLaunch => true
  | EBackoffCancelled, IBackoff c, IEnding SCompleted c' => Z.eqb c c'
  | ERunReturned _, IRunRet _, IDoneReg _ => true
  | EInstDone, IDoneReg _, IProjEnd _ _ => true
  | EExitTrigger _, IProjEnd _ _, ITriggered _ => true
  | EExitCodeSet _, ITriggered _, ILeaving => true
  | EInstExit, (IProjEnd _ _ | ILeaving), IWgDone => true
  | EWgDone, IWgDone, IWgDone => true
  | EInstGone, IWgDone, IGone => true
  | _, _, _ => false
  end.

Lemma st_vis_of_upd_vis n f s m : (forall v, st (f v) = st v) -> st (vis_of (upd_vis n f s) m) = st (vis_of s m).
Proof.
  intros Hf. unfold vis_of. rewrite viss_upd_vis. destruct (N.eqb n m); destruct (get m (viss s)); cbn; auto.
Qed.

(* the creation-stage field does not interfere with the other fields *)
Lemma stg_insts f s : insts (RecordSet.set stage f s) = insts s. Proof. reflexivity. Qed.
Lemma stg_thinst f s : thinst (RecordSet.set stage f s) = thinst s. Proof. reflexivity. Qed.
Lemma stg_confs f s : confs (RecordSet.set stage f s) = confs s. Proof. reflexivity. Qed.
Lemma stg_viss f s : viss (RecordSet.set stage f s) = viss s. Proof. reflexivity. Qed.
Lemma stg_threads f s : threads (RecordSet.set stage f s) = threads s. Proof. reflexivity. Qed.
Lemma stg_vis_of f s n : vis_of (RecordSet.set stage f s) n = vis_of s n. Proof. reflexivity. Qed.
Lemma stg_stage f s : stage (RecordSet.set stage f s) = f (stage s). Proof. reflexivity. Qed.
Lemma upd_inst_stage i f s : stage (upd_inst i f s) = stage s.
Proof. unfold upd_inst. destruct (get i (insts s)); reflexivity. Qed.
Lemma upd_vis_stage n f s : stage (upd_vis n f s) = stage s.
Proof. unfold upd_vis. destruct (get n (viss s)); reflexivity. Qed.
Lemma set_thread_stage th t s : stage (set_thread th t s) = stage s. Proof. reflexivity. Qed.
Lemma write_status_stage n s0 s : stage (write_status n s0 s) = stage s.
Proof. unfold write_status. apply upd_vis_stage. Qed.
#[export] Hint Rewrite stg_insts stg_thinst stg_confs stg_viss stg_threads stg_vis_of stg_stage
  upd_inst_stage upd_vis_stage set_thread_stage write_status_stage : sup.

Ltac inst_here :=
  autorewrite with sup; rewrite ?N.eqb_refl;
  repeat match goal with E : get ?i (insts ?s) = Some ?x |- context[get ?i (insts ?s)] => rewrite E end;
  cbn [option_map].

Lemma own_effect s th e s' : step_own s th e = Some s' ->
  exists i x x', get th (thinst s) = Some i /\ get i (insts s) = Some x /\ get i (insts s') = Some x' /\
   (forall j, j <> i -> get j (insts s') = get j (insts s)) /\
   thinst s' = thinst s /\ confs s' = confs s /\ nm x' = nm x /\ cf x' = cf x /\
   own_tr e (pc x) (pc x') = true /\
   alive x' = (match e with ELaunch true => true | _ => alive x end) /\
   exited x' = (match e with EWaitReturn _ => None | _ => exited x end) /\
   launches x' = (match e with ELaunch true => S (launches x) | _ => launches x end) /\
   (forall n, st (vis_of s' n) = st (vis_of s n)) /\
   (match e with EWaitReturn c => exited x = Some c | _ => True end) /\
   stage s' = stage s.
Proof.
  intros H. destruct e; kind_cases H; split_andb.
  all: match goal with H1 : get _ (thinst _) = Some ?i, H2 : get ?i (insts _) = Some ?x |- _ => exists i, x end.
  all: eexists; split; [reflexivity|]; split; [eassumption|]; split; [unfold set_pc; inst_here; reflexivity|].
  all: split; [intros jj Hj; unfold set_pc; autorewrite with sup; apply N.eqb_neq in Hj; rewrite N.eqb_sym in Hj; rewrite ?Hj; reflexivity|].
  all: split; [unfold set_pc; autorewrite with sup; reflexivity|].
  all: split; [unfold set_pc; autorewrite with sup; reflexivity|].
  all: repeat match goal with E : pc _ = _ |- _ => rewrite E end.
  all: destruct_matches; cbn; repeat split; subst; rewrite ?Z.eqb_refl; try reflexivity.
  all: try (intros n0; unfold set_pc; autorewrite with sup; try reflexivity; apply st_vis_of_upd_vis; intros; reflexivity).
  all: try (match goal with H : opt_eqb Z.eqb ?a (Some ?c) = true |- ?a = Some ?c =>
              destruct a; cbn in H; [apply Z.eqb_eq in H; now subst|discriminate] end).
  all: try (unfold set_pc; autorewrite with sup; reflexivity).
Qed.

(* ---- effect of a status write ------------------------------------------------------------------------ *)
Inductive state_tr (s : sys) (th : tid) (i : iid) (s0 : status) (x x' : inst) : Prop :=
| STstopRun c : spc (get_thread s th) = SRun i c -> s0 = STerminating -> pc x' = pc x -> state_tr s th i s0 x x'
| STstopPend : spc (get_thread s th) = SPendE i -> s0 = STerminating -> pc x' = pc x -> state_tr s th i s0 x x'
| STspawn todo : s0 = SPending -> pc x = IDeps todo -> pc x' = pc x ->
    has i (map (fun p => (snd p, tt)) (thinst s)) = false -> at_stage s th i 0 = true -> state_tr s th i s0 x x'
| STrun : get th (thinst s) = Some i -> pc x = IPreLaunch -> s0 = SRunning -> pc x' = IStateSet -> state_tr s th i s0 x x'
| STrestart c : get th (thinst s) = Some i -> pc x = IWillRestart c -> s0 = SRestarting -> pc x' = IRestarting c ->
    state_tr s th i s0 x x'
| STend c : get th (thinst s) = Some i -> pc x = IInEnd s0 c false -> pc x' = IInEnd s0 c true -> state_tr s th i s0 x x'.

Lemma state_effect s th i s0 s' : step_state s th i s0 = Some s' ->
  exists x x', get i (insts s) = Some x /\ get i (insts s') = Some x' /\
   (forall j, j <> i -> get j (insts s') = get j (insts s)) /\
   thinst s' = thinst s /\ confs s' = confs s /\ nm x' = nm x /\ cf x' = cf x /\
   alive x' = alive x /\ exited x' = exited x /\ launches x' = launches x /\
   viss s' = viss (write_status (nm x) s0 s) /\ state_tr s th i s0 x x' /\
   stage s' = (if status_eqb s0 SPending then set i (th, 1) (stage s) else stage s).
Proof.
  intros H. kind_cases H; split_andb;
  repeat match goal with E : status_eqb _ _ = true |- _ => apply status_eqb_eq in E; subst end;
  repeat match goal with E : opt_eqb N.eqb _ _ = true |- _ => apply opt_eqb_N_eq in E end.
  all: try match goal with |- context[if ?c then upd_inst _ _ _ else _] => destruct c end.
  all: match goal with H2 : get ?i (insts _) = Some ?x |- _ => exists x end.
  all: eexists; split; [reflexivity|]; split; [unfold set_pc, end_finish; inst_here; reflexivity|].
  all: split; [intros jj Hj; unfold set_pc, end_finish; autorewrite with sup; apply N.eqb_neq in Hj; rewrite N.eqb_sym in Hj; rewrite ?Hj; reflexivity|].
  all: split; [unfold set_pc, end_finish; autorewrite with sup; reflexivity|].
  all: split; [unfold set_pc, end_finish; autorewrite with sup; reflexivity|].
  all: repeat (split; [reflexivity || (unfold set_pc, end_finish; autorewrite with sup; reflexivity)|]).
  all: repeat match goal with H : ?a = ?b :> N |- _ => subst a || subst b end.
  all: split; [|unfold set_pc, end_finish; autorewrite with sup; cbn; rewrite ?status_eqb_refl; try reflexivity].

  all: first [ eapply STstopRun; [eassumption|reflexivity|reflexivity]
             | eapply STstopPend; [eassumption|reflexivity|reflexivity]
             | eapply STrun; [eassumption|eassumption|reflexivity|reflexivity]
             | eapply STrestart; [eassumption|eassumption|reflexivity|reflexivity]
             | eapply STend; [eassumption|eassumption|reflexivity]
             | match goal with |- state_tr _ _ _ _ ?x _ => destruct (pc x) eqn:Epc; try discriminate end;
               eapply STspawn; [reflexivity|exact Epc|reflexivity|assumption|assumption] ].
Qed.

(* ---- effect of onProcessEnd entry / exit ---------------------------------------------------------------- *)
Definition after_pc (p : ipc) : bool :=
  match p with IRunRet _ | IDoneReg _ | IProjEnd _ _ | ITriggered _ | ICodeSet | ILeaving | IWgDone | IGone => true | _ => false end.

Inductive procend_tr (s : sys) (th : tid) (i : iid) (s0 : status) (b : bool) (x x' : inst) : Prop :=
| PTstopE : b = true -> spc (get_thread s th) = SPend i -> s0 = STerminating -> pc x' = pc x -> procend_tr s th i s0 b x x'
| PTstopX : b = false -> spc (get_thread s th) = SPendS i -> s0 = STerminating -> pc x' = pc x -> procend_tr s th i s0 b x x'
| PTownE c : b = true -> get th (thinst s) = Some i -> pc x = IEnding s0 c -> pc x' = IInEnd s0 c false -> procend_tr s th i s0 b x x'
| PTownX c : b = false -> get th (thinst s) = Some i -> pc x = IInEnd s0 c true -> after_pc (pc x') = true -> procend_tr s th i s0 b x x'.

Lemma procend_effect s th i s0 b s' : step_procend s th i s0 b = Some s' ->
  exists x x', get i (insts s) = Some x /\ get i (insts s') = Some x' /\
   (forall j, j <> i -> get j (insts s') = get j (insts s)) /\
   thinst s' = thinst s /\ confs s' = confs s /\ nm x' = nm x /\ cf x' = cf x /\
   alive x' = alive x /\ exited x' = exited x /\ launches x' = launches x /\
   viss s' = viss s /\ procend_tr s th i s0 b x x' /\ stage s' = stage s.
Proof.
  intros H. kind_cases H; split_andb;
  repeat match goal with E : status_eqb _ _ = true |- _ => apply status_eqb_eq in E; subst end;
  repeat match goal with E : opt_eqb N.eqb _ _ = true |- _ => apply opt_eqb_N_eq in E end.
  all: match goal with H2 : get ?i (insts _) = Some ?x |- _ => exists x end.
  all: eexists; split; [reflexivity|]; split; [unfold set_pc; inst_here; reflexivity|].
  all: split; [intros jj Hj; unfold set_pc; autorewrite with sup; apply N.eqb_neq in Hj; rewrite N.eqb_sym in Hj; rewrite ?Hj; reflexivity|].
  all: repeat (split; [reflexivity || (unfold set_pc; autorewrite with sup; reflexivity)|]).
  all: repeat match goal with H : ?a = ?b :> N |- _ => subst a || subst b end.
  all: split; [|unfold set_pc; autorewrite with sup; reflexivity].
  all: first [ eapply PTstopE; [reflexivity|eassumption|reflexivity|reflexivity]
             | eapply PTstopX; [reflexivity|eassumption|reflexivity|reflexivity]
             | eapply PTownE; [reflexivity|eassumption|eassumption|reflexivity]
             | eapply PTownX; [reflexivity|eassumption|eassumption|cbn; destruct_matches; reflexivity] ].
Qed.

Lemma newinst_effect s th i n s' : step_reg s th (ENewInst i n) = Some s' ->
  exists c, get n (confs s) = Some c /\ get i (insts s) = None /\ creates (get_thread s th) n = true /\
            s' = set_stage th i 0 (s <| insts := set i (new_inst n c) (insts s) |>).
Proof.
  intros H. unfold step_reg in H. break_step H. subst s'. exists p. repeat split; auto.
  apply negb_true_iff in E0. unfold has in E0. destruct (get i (insts s)); [discriminate|reflexivity].
Qed.

Lemma cmdexit_effect s th i c s' : step_env s th (ECmdExit i c) = Some s' ->
  exists x, get i (insts s) = Some x /\ alive x = true /\
            s' = upd_inst i (fun x => x <| alive := false |> <| exited := Some c |>) s.
Proof. intros H. unfold step_env in H. break_step H. subst s'. eauto. Qed.

(* ---- observer-side frame: events that leave the per-instance facts and the reported status alone -------- *)
Definition ofr (x x' : oinst) : Prop :=
  o_nm x' = o_nm x /\ o_launches x' = o_launches x /\ o_alive x' = o_alive x /\ o_code x' = o_code x /\
  o_endst x' = o_endst x /\ o_ended x' = o_ended x /\ o_byapi x' = o_byapi x.

Definition osame (o o' : obs) : Prop :=
  (forall j, match get j (oi o) with
             | Some x => exists x', get j (oi o') = Some x' /\ ofr x x'
             | None => get j (oi o') = None end) /\
  (forall n, match get n (onm o) with
             | Some r => exists r', get n (onm o') = Some r' /\ r_status r' = r_status r
             | None => get n (onm o') = None end).

Lemma ofr_refl x : ofr x x. Proof. repeat split. Qed.
Lemma osame_refl o : osame o o.
Proof.
  split; intros k; [destruct (get k (oi o)) as [x|]|destruct (get k (onm o)) as [r|]]; eauto using ofr_refl.
Qed.
Lemma osame_trans o1 o2 o3 : osame o1 o2 -> osame o2 o3 -> osame o1 o3.
Proof.
  intros (B1 & C1) (B2 & C2). split.
  - intros j. specialize (B1 j). specialize (B2 j). destruct (get j (oi o1)) as [x|].
    + destruct B1 as (x2 & E2 & F2). rewrite E2 in B2. destruct B2 as (x3 & E3 & F3). exists x3. split; [exact E3|].
      unfold ofr in *. intuition congruence.
    + now rewrite B1 in B2.
  - intros n. specialize (C1 n). specialize (C2 n). destruct (get n (onm o1)) as [r|].
    + destruct C1 as (r2 & E2 & ?). rewrite E2 in C2. destruct C2 as (r3 & E3 & ?). exists r3. split; congruence.
    + now rewrite C1 in C2.
Qed.
Lemma osame_eq o o' : oi o' = oi o -> onm o' = onm o -> osame o o'.
Proof.
  intros B C. split.
  - intros k. rewrite B. destruct (get k (oi o)) as [x|]; eauto using ofr_refl.
  - intros k. rewrite C. destruct (get k (onm o)) as [r|]; eauto.
Qed.
Lemma osame_oi_upd i f o : (forall x, ofr x (f x)) -> osame o (oi_upd i f o).
Proof.
  intros Hf. split.
  - intros j. rewrite oi_upd_get. destruct (N.eqb i j); destruct (get j (oi o)) as [x|]; cbn; eauto using ofr_refl.
  - intros n. rewrite oi_upd_onm. destruct (get n (onm o)) as [r|]; eauto.
Qed.
Lemma osame_on_upd n f o : (forall r, r_status (f r) = r_status r) -> osame o (on_upd n f o).
Proof.
  intros Hf. split.
  - intros j. rewrite on_upd_oi. destruct (get j (oi o)) as [x|]; eauto using ofr_refl.
  - intros m. rewrite on_upd_get. destruct (N.eqb n m); destruct (get m (onm o)) as [r|]; cbn; eauto.
Qed.
Lemma osame_fold_oi_upd (f : oinst -> oinst) l : (forall x, ofr x (f x)) ->
  forall o, osame o (fold_left (fun o i => oi_upd i f o) l o).
Proof.
  intros Hf. induction l as [|a l IH]; intros o; cbn; [apply osame_refl|].
  eapply osame_trans; [apply (osame_oi_upd a f o Hf)|apply IH].
Qed.
Lemma osame_refresh o : osame o (refresh_succ o).
Proof.
  split.
  - intros j. rewrite refresh_get. destruct (get j (oi o)) as [x|]; cbn; [|reflexivity].
    eexists; split; [reflexivity|]. destruct (_ && _); unfold ofr; cbn; repeat split; reflexivity.
  - intros n. cbn. destruct (get n (onm o)) as [r|]; eauto.
Qed.

Ltac osame_close :=
  repeat first
  [ apply osame_refl
  | match goal with
    | |- osame ?o (oi_upd ?i ?f ?X) =>
        apply (osame_trans o X); [|apply osame_oi_upd; intros; unfold ofr; cbn; repeat split; reflexivity]
    | |- osame ?o (on_upd ?n ?f ?X) =>
        apply (osame_trans o X); [|apply osame_on_upd; intros; cbn; reflexivity]
    | |- osame ?o (fold_left (fun o i => oi_upd i ?f o) ?l ?X) =>
        apply (osame_trans o X); [|apply osame_fold_oi_upd; intros; unfold ofr; cbn; repeat split; reflexivity]
    | |- osame ?o (RecordSet.set _ _ ?X) =>
        apply (osame_trans o X); [|apply osame_eq; reflexivity]
    end ].

Definition oexc (e : event) : bool :=
  match e with
  | ENewInst _ _ | ELaunch true | EState _ _ | ECmdExit _ _ | EProcEnd _ _ => true
  | _ => false
  end.

Lemma obs_step_osame cs o th e : oexc e = false -> osame o (obs_step cs o (th, e)).
Proof.
  intros Hex. unfold obs_step. eapply osame_trans; [|apply osame_refresh].
  destruct e; try discriminate Hex; cbn [fst snd];
  try (destruct (ev_inst o th _) eqn:Ev);
  try match goal with |- context[match ?b with true => _ | false => _ end] => destruct b end;
  try discriminate Hex; unfold note_late_commit;
  repeat match goal with |- context[if ?b then _ else _] => destruct b end;
  try apply osame_refl; osame_close.
Qed.
