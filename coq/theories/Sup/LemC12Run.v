(* C12 proof, model-only part 5: the values of the running registry are existing instances. *)
From Coq Require Import List ZArith NArith Bool Lia.
From RecordUpdate Require Import RecordSet.
From PC.Base Require Import Assoc.
From PC.Sup Require Import Model Monitors Tactics Sim ObsFacts Effects RelCore LemC12 LemC12Inst LemC12Frame.
Import ListNotations RecordSetNotations.

Definition RunOK (s : sys) : Prop := forall p, In p (running s) -> get (snd p) (insts s) <> None.

Lemma in_set {V} (k : N) (v : V) m p : In p (set k v m) -> p = (k, v) \/ In p m.
Proof.
  induction m as [|[k' v'] r IH]; cbn.
  - intros [<-|[]]. now left.
  - destruct (N.eqb k' k); cbn; intros [<-|Hin]; auto. destruct (IH Hin); auto.
Qed.
Lemma in_del {V} (k : N) (m : amap V) p : In p (del k m) -> In p m.
Proof.
  induction m as [|[k' v'] r IH]; cbn; [auto|]. destruct (N.eqb k' k); cbn; [auto|]. intros [<-|Hin]; auto.
Qed.

Lemma same_members_In l1 : forall l2, same_members l1 l2 = true -> forall a, In a l1 -> In a l2.
Proof.
  induction l1 as [|b l1 IH]; intros l2 H a Ha; [destruct Ha|]. cbn in H. apply andb_true_iff in H. destruct H as [Hb Hr].
  destruct Ha as [<-|Ha]; [now apply memN_In|]. specialize (IH _ Hr a Ha). unfold removeN in IH.
  apply filter_In in IH. tauto.
Qed.

Lemma fold_fstopped_running l s :
  running (fold_left (fun s0 i => upd_inst i (fun x => x <| f_stopped := true |>) s0) l s) = running s.
Proof. apply (fold_upd_inst_proj running). intros. apply upd_inst_running. Qed.

Lemma step_running s th e s' : step_core s th e = Some s' ->
  running s' = running s \/
  (exists i n x, running s' = set n i (running s) /\ get i (insts s) = Some x) \/
  (exists k, running s' = del k (running s)).
Proof.
  intros H. step_leaves H e;
  repeat match goal with
  | |- context[running (match ?x with _ => _ end)] => destruct x eqn:?
  | |- context[running (if ?x then _ else _)] => destruct x eqn:?
  end;
  unfold set_pc, end_finish, end_release_early, write_status; autorewrite with sup; cbn; rewrite ?fold_fstopped_running;
  try first [ left; reflexivity | solve [right; left; eauto] | solve [right; right; eauto] ].
  destruct cancel; autorewrite with sup; left; reflexivity.
Qed.

Lemma RunOK_core s th e s' : RunOK s -> step_core s th e = Some s' -> RunOK s'.
Proof.
  intros HRn H p Hp.
  assert (Hex : forall j, get j (insts s) <> None -> get j (insts s') <> None).
  { intros j Hj. pose proof (step_ichange _ _ _ _ H j) as Hi. destruct (get j (insts s)); [|congruence].
    destruct Hi as (x' & -> & _). discriminate. }
  destruct (step_running _ _ _ _ H) as [E|[(i & n & x & E & Hx)|(k & E)]]; rewrite E in Hp.
  - apply Hex, HRn, Hp.
  - apply in_set in Hp. destruct Hp as [->|Hp]; [|apply Hex, HRn, Hp]. cbn. apply Hex. congruence.
  - apply in_del in Hp. apply Hex, HRn, Hp.
Qed.

Lemma RunOK_flush th s : RunOK s -> RunOK (flush th s).
Proof.
  intros HRn p. rewrite flush_running. intros Hp. specialize (HRn p Hp).
  pose proof (flush_insts th s (snd p)) as Hf. destruct (get (snd p) (insts s)); [|congruence].
  destruct Hf as (x' & -> & _). discriminate.
Qed.
