(* Frames for the creation-stage field (hardened Sup model). *)
From Coq Require Import List ZArith NArith Bool Lia.
From RecordUpdate Require Import RecordSet.
From PC.Base Require Import Assoc.
From PC.Sup Require Import Model Monitors Tactics Sim ObsFacts Effects RelCore LemC09.
Import ListNotations RecordSetNotations.

(* the instance has been created and its Pending status written, its goroutine has not begun *)
Definition staged1 (s : sys) (i : iid) : bool :=
  match get i (stage s) with Some (_, S _) => true | _ => false end.

Definition stage_le (s s' : sys) : Prop := forall i, staged1 s' i = true -> staged1 s i = true.

Lemma stage_le_eq s s' : stage s' = stage s -> stage_le s s'.
Proof. intros H i. unfold staged1. now rewrite H. Qed.

Lemma stage_le_set s s' th i k : stage s' = set i (th, S k) (stage s) -> at_stage s th i k = true -> k <> 0 -> stage_le s s'.
Proof.
  intros H Ha Hk j. unfold staged1. rewrite H, get_set. destruct (N.eqb_spec i j) as [<-|]; [|auto].
  intros _. unfold at_stage in Ha. destruct (get i (stage s)) as [[c k']|]; [|discriminate].
  apply andb_true_iff in Ha. destruct Ha as [_ Ha]. apply Nat.eqb_eq in Ha. subst k'. destruct k; [contradiction|reflexivity].
Qed.

Lemma flush_stage th s : stage (flush th s) = stage s.
Proof.
  unfold flush. destruct (get th (threads s)) as [t|]; [|reflexivity]. destruct (pend t) as [r|]; [|reflexivity].
  destruct r; unfold apply_release, end_release_early; autorewrite with sup; try reflexivity. destruct (code_set _); reflexivity.
Qed.

Ltac stage_close :=
  repeat match goal with
         | |- stage_le _ (match ?x with _ => _ end) => destruct x
         | |- stage_le _ (if ?b then _ else _) => destruct b
         end;
  first [ apply stage_le_eq; unfold set_pc, end_release_early, end_finish; autorewrite with sup; try reflexivity;
          repeat match goal with |- context[stage (RecordSet.set ?fld ?f ?Y)] => change (stage (RecordSet.set fld f Y)) with (stage Y) end;
          autorewrite with sup; try reflexivity;
          repeat match goal with |- context[if ?b then _ else _] => destruct b end; autorewrite with sup; reflexivity
        | eapply stage_le_set; [unfold set_pc; autorewrite with sup; reflexivity|eassumption|discriminate] ].

Lemma fold_upd_inst_stage (f : inst -> inst) l : forall s, stage (fold_left (fun s i => upd_inst i f s) l s) = stage s.
Proof. induction l as [|a l IH]; intros s; cbn; [reflexivity|]. now rewrite IH, upd_inst_stage. Qed.
#[export] Hint Rewrite fold_upd_inst_stage : sup.

Lemma step_reg_stage s th e s' : mexc e = false -> step_reg s th e = Some s' -> stage_le s s'.
Proof. intros Hex H. destruct e; try discriminate Hex; kind_cases H; split_andb. all: stage_close. Qed.
Lemma step_stop_stage s th e s' : step_stop s th e = Some s' -> stage_le s s'.
Proof. intros H. destruct e; kind_cases H. all: stage_close. Qed.
Lemma step_shutdown_stage s th e s' : step_shutdown s th e = Some s' -> stage_le s s'.
Proof. intros H. destruct e; kind_cases H. all: stage_close. Qed.
Lemma step_env_stage s th e s' : step_env s th e = Some s' -> stage_le s s'.
Proof. intros H. destruct e; kind_cases H. all: stage_close. Qed.
Lemma step_api_stage s th e s' : step_api s th e = Some s' -> stage_le s s'.
Proof. intros H. destruct e; kind_cases H; split_andb. all: stage_close. Qed.
Lemma step_ordered_stage s th i s' : step_ordered_go s th i = Some s' -> stage_le s s'.
Proof. intros H. kind_cases H. all: stage_close. Qed.
