(* Frames for the creation-stage field and the API program counters of threads (hardened Sup model). *)
From Coq Require Import List ZArith NArith Bool Lia.
From RecordUpdate Require Import RecordSet.
From PC.Base Require Import Assoc.
From PC.Sup Require Import Model Monitors Tactics Sim ObsFacts Effects RelCore LemC09.
Import ListNotations RecordSetNotations.

(* the instance has been created and its Pending status written, its goroutine has not begun *)
Definition staged1 (s : sys) (i : iid) : bool :=
  match get i (stage s) with Some (_, S _) => true | _ => false end.

Definition stage_le (s s' : sys) : Prop := forall i, staged1 s' i = true -> staged1 s i = true.

Lemma stage_le_eq s s' : stage s' = stage s -> stage_le s s'.
Proof. intros H i. unfold staged1. now rewrite H. Qed.

Lemma stage_le_set s s' th i k : stage s' = set i (th, S k) (stage s) -> at_stage s th i k = true -> k <> 0 -> stage_le s s'.
Proof.
  intros H Ha Hk j. unfold staged1. rewrite H, get_set. destruct (N.eqb_spec i j) as [<-|]; [|auto].
  intros _. unfold at_stage in Ha. destruct (get i (stage s)) as [[c k']|]; [|discriminate].
  apply andb_true_iff in Ha. destruct Ha as [_ Ha]. apply Nat.eqb_eq in Ha. subst k'. destruct k; [contradiction|reflexivity].
Qed.

Lemma flush_stage th s : stage (flush th s) = stage s.
Proof.
  unfold flush. destruct (get th (threads s)) as [t|]; [|reflexivity]. destruct (pend t) as [r|]; [|reflexivity].
  destruct r; unfold apply_release, end_release_early; autorewrite with sup; try reflexivity. destruct (code_set _); reflexivity.
Qed.

Ltac stage_close :=
  repeat match goal with
         | |- stage_le _ (match ?x with _ => _ end) => destruct x
         | |- stage_le _ (if ?b then _ else _) => destruct b
         end;
  first [ apply stage_le_eq; unfold set_pc, end_release_early, end_finish; autorewrite with sup; try reflexivity;
          repeat match goal with |- context[stage (RecordSet.set ?fld ?f ?Y)] => change (stage (RecordSet.set fld f Y)) with (stage Y) end;
          autorewrite with sup; try reflexivity;
          repeat match goal with |- context[if ?b then _ else _] => destruct b end; autorewrite with sup; reflexivity
        | eapply stage_le_set; [unfold set_pc; autorewrite with sup; reflexivity|eassumption|discriminate] ].

Lemma fold_upd_inst_stage (f : inst -> inst) l : forall s, stage (fold_left (fun s i => upd_inst i f s) l s) = stage s.
Proof. induction l as [|a l IH]; intros s; cbn; [reflexivity|]. now rewrite IH, upd_inst_stage. Qed.
#[export] Hint Rewrite fold_upd_inst_stage : sup.

Lemma step_reg_stage s th e s' : mexc e = false -> step_reg s th e = Some s' -> stage_le s s'.
Proof. intros Hex H. destruct e; try discriminate Hex; kind_cases H; split_andb. all: stage_close. Qed.
Lemma step_stop_stage s th e s' : step_stop s th e = Some s' -> stage_le s s'.
Proof. intros H. destruct e; kind_cases H. all: stage_close. Qed.
Lemma step_shutdown_stage s th e s' : step_shutdown s th e = Some s' -> stage_le s s'.
Proof. intros H. destruct e; kind_cases H. all: stage_close. Qed.
Lemma step_env_stage s th e s' : step_env s th e = Some s' -> stage_le s s'.
Proof. intros H. destruct e; kind_cases H. all: stage_close. Qed.
Lemma step_api_stage s th e s' : step_api s th e = Some s' -> stage_le s s'.
Proof. intros H. destruct e; kind_cases H; split_andb. all: stage_close. Qed.
Lemma step_ordered_stage s th i s' : step_ordered_go s th i = Some s' -> stage_le s s'.
Proof. intros H. kind_cases H. all: stage_close. Qed.

(* ---- the API program counter of each thread ------------------------------------------------------------ *)
Definition apc_of (s : sys) (th : tid) : apipc := apc (get_thread s th).
(* StartProcess / RestartProcess on their way to runProcess *)
Definition chain (a : apipc) : bool :=
  match a with AStart _ | AStartSpawn _ | ARestart _ | ARestartStopping _ _ | ARestartSpawn _ => true | _ => false end.

Definition weak_rel (a a' : apipc) : Prop :=
  (chain a' = true -> chain a = true) /\
  (forall todo', a' = ARun todo' -> exists todo, a = ARun todo /\ forall n, memN n todo' = true -> memN n todo = true).

Definition api_rel (s : sys) (e : event) (a a' : apipc) : Prop :=
  match e with
  | EApiBegin op => a' = match op with OpRun => ARun (runnable_names s) | OpStart n => AStart n | OpStop n => AStop n
                                  | OpRestart n => ARestart n | OpShutdown => AShutdown end
  | EApiReturn _ => a' = AReturned
  | _ => weak_rel a a'
  end.

Definition apc_frame (s : sys) (th : tid) (e : event) (s' : sys) : Prop :=
  (forall th', th' <> th -> apc_of s' th' = apc_of s th') /\ api_rel s e (apc_of s th) (apc_of s' th).

Lemma weak_refl a a' : a' = a -> weak_rel a a'.
Proof. intros ->. split; [auto|]. intros todo H. eauto. Qed.
Lemma weak_plain a a' : chain a' = false -> (forall todo, a' <> ARun todo) -> weak_rel a a'.
Proof. intros H1 H2. split; [congruence|]. intros todo H. exfalso. eapply H2; eauto. Qed.

Lemma memN_removeN n k l : memN n (removeN k l) = true -> memN n l = true.
Proof.
  rewrite !memN_In. unfold removeN. rewrite filter_In. tauto.
Qed.

Lemma apc_of_set_thread th t s th' : apc_of (set_thread th t s) th' = if N.eqb th th' then apc t else apc_of s th'.
Proof. unfold apc_of. rewrite get_thread_set_thread. destruct (N.eqb th th'); reflexivity. Qed.
Lemma apc_of_upd_inst i f s th : apc_of (upd_inst i f s) th = apc_of s th.
Proof. unfold apc_of, get_thread. now rewrite upd_inst_threads. Qed.
Lemma apc_of_upd_vis n f s th : apc_of (upd_vis n f s) th = apc_of s th.
Proof. unfold apc_of, get_thread. now rewrite upd_vis_threads. Qed.
Lemma apc_of_write_status n s0 s th : apc_of (write_status n s0 s) th = apc_of s th.
Proof. unfold write_status. apply apc_of_upd_vis. Qed.
Lemma apc_of_fold (f : inst -> inst) l th : forall s, apc_of (fold_left (fun s i => upd_inst i f s) l s) th = apc_of s th.
Proof. induction l as [|a l IH]; intros s; cbn; [reflexivity|]. now rewrite IH, apc_of_upd_inst. Qed.
#[export] Hint Rewrite apc_of_set_thread apc_of_upd_inst apc_of_upd_vis apc_of_write_status apc_of_fold : sup.

Ltac apc_strip :=
  unfold set_pc, end_finish, end_release_early; autorewrite with sup;
  repeat match goal with
         | |- context[apc_of (RecordSet.set ?fld ?f ?Y) ?t] => change (apc_of (RecordSet.set fld f Y) t) with (apc_of Y t)
         end;
  autorewrite with sup.

Ltac apc_other :=
  intros th' Hne;
  repeat match goal with
         | |- apc_of (match ?x with _ => _ end) _ = _ => destruct x
         | |- apc_of (if ?b then _ else _) _ = _ => destruct b
         end;
  apc_strip;
  try (apply N.eqb_neq in Hne; rewrite N.eqb_sym in Hne; rewrite ?Hne); try reflexivity;
  repeat match goal with |- context[if ?b then _ else _] => destruct b end; apc_strip; rewrite ?Hne; try reflexivity.

Ltac apc_same :=
  apply weak_refl;
  repeat match goal with
         | |- apc_of (match ?x with _ => _ end) _ = _ => destruct x
         | |- apc_of (if ?b then _ else _) _ = _ => destruct b
         end;
  apc_strip; rewrite ?N.eqb_refl; try reflexivity;
  repeat match goal with |- context[if ?b then _ else _] => destruct b end; apc_strip; rewrite ?N.eqb_refl; try reflexivity.

Lemma step_reg_apc s th e s' : step_reg s th e = Some s' -> apc_frame s th e s'.
Proof.
  intros H. destruct e; kind_cases H. all: split; [apc_other|cbn [api_rel]; apc_same].
Qed.
Lemma step_stop_apc s th e s' : step_stop s th e = Some s' -> apc_frame s th e s'.
Proof. intros H. destruct e; kind_cases H. all: split; [apc_other|cbn [api_rel]; apc_same]. Qed.
Lemma step_env_apc s th e s' : step_env s th e = Some s' -> apc_frame s th e s'.
Proof. intros H. destruct e; kind_cases H. all: split; [apc_other|cbn [api_rel]; apc_same]. Qed.
Lemma step_ordered_apc s th i s' : step_ordered_go s th i = Some s' -> apc_frame s th (EOrderedGo i) s'.
Proof. intros H. kind_cases H. all: split; [apc_other|cbn [api_rel]; apc_same]. Qed.
Lemma step_own_apc s th e s' : step_own s th e = Some s' -> apc_frame s th e s'.
Proof. intros H. destruct e; kind_cases H. all: split; [apc_other|cbn [api_rel]; apc_same]. Qed.
Lemma step_state_apc s th i s0 s' : step_state s th i s0 = Some s' -> apc_frame s th (EState i s0) s'.
Proof. intros H. kind_cases H. all: split; [apc_other|cbn [api_rel]; apc_same]. Qed.
Lemma step_procend_apc s th i s0 (b : bool) s' : step_procend s th i s0 b = Some s' ->
  apc_frame s th (if b then EProcEnd i s0 else EProcEnded i s0) s'.
Proof. intros H. destruct b; kind_cases H. all: split; [apc_other|cbn [api_rel]; apc_same]. Qed.
