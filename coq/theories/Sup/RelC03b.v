(* C03, second part: the clauses of the relation that depend on the "nobody escaped the snapshot" hypothesis,
   the monitor check and the theorems.  (RelC03.v: the five clauses that only need the window flags.) *)
From Coq Require Import List ZArith NArith Bool Lia.
From RecordUpdate Require Import RecordSet.
From PC.Base Require Import Assoc.
From PC.Sup Require Import Model Monitors Tactics Sim ObsFacts Effects RelCore LemC03 RelC03.
Import ListNotations RecordSetNotations.

(* ---- the second hypothesis --------------------------------------------------------------------------------------- *)
(* evaluated on the observer state BEFORE the event:
   (1) an instance is created by Run()'s spawn loop after a completed shutdown;
   (2) when a shutdown returns, there is an instance outside its snapshot whose goroutine has not reached
       inst_exit and that is not "excused".  Excused = created by an explicit StartProcess/RestartProcess and never
       in a shutdown snapshot (the API call is still on its way to register it: the snapshot is the registry
       content and the registry lock is held until the shutdown has returned). *)
Definition byapi_of (o : obs) (th : tid) : bool :=
  match get th (o_api o) with Some OpRun | None => false | Some _ => true end.
Definition is_run (o : obs) (th : tid) : bool := match get th (o_api o) with Some OpRun => true | _ => false end.
Definition snap_of (o : obs) (th : tid) : list iid := match get th (o_sd_cur o) with Some l => l | None => [] end.
Definition excused (o : obs) (i : iid) (xo : oinst) : bool := o_byapi xo && negb (o_insnap xo).
Definition escape_C03 (o : obs) (te : tid * event) : bool :=
  match snd te with
  | ENewInst i n => Nat.ltb 0 (o_sd_done o) && is_run o (fst te)
  | EShutdownEnd => existsb (fun p => negb (memN (fst p) (snap_of o (fst te))) && negb (o_gone (snd p)) &&
                                      negb (excused o (fst p) (snd p))) (oi o)
  | _ => false
  end.
Definition escapes_C03 (cs : amap pconf) (evs : list (tid * event)) : bool := bad_run cs escape_C03 (obs0 cs) evs.

(* ---- model: who moves a program counter --------------------------------------------------------------------------- *)
Lemma step_own_cpc s th e s' : step_own s th e = Some s' ->
  thinst s' = thinst s /\
  forall i x', get th (thinst s) = Some i -> get i (insts s') = Some x' ->
    cpc (pc x') = true -> (exists x, get i (insts s) = Some x /\ cpc (pc x) = true) \/ e = ERunChecked false \/ e = EBackoffElapsed.
Proof.
  intros H. destruct e; try (unfold step_own in H; destruct (own_inst s th) as [[? ?]|]; [destruct (pc _)|]; discriminate H).
  all: kind_cases H.
  all: split; [unfold set_pc; autorewrite with sup; reflexivity|].
  all: intros i' x' Hth; injection Hth as <-; unfold set_pc; autorewrite with sup; rewrite ?N.eqb_refl;
       match goal with E : get _ (thinst _) = Some ?i, E' : get ?i (insts _) = Some ?y |- _ => rewrite ?E' end; cbn;
       intros Hx'; injection Hx' as <-.
  all: repeat match goal with |- context[if ?b then _ else _] => is_var b; destruct b end.
  all: try match goal with |- context[match ?b with Some _ => _ | None => _ end] => is_var b; destruct b end.
  all: cbn; auto; try (intros; discriminate).
  all: intros Hc; left; eexists; split; [reflexivity|]; try exact Hc; rewrite ?E1; auto.
Qed.

Lemma step_core_thinst s th e s' : step_core s th e = Some s' -> own_ev e = false ->
  forall t j, get t (thinst s) = Some j -> get t (thinst s') = Some j.
Proof.
  intros H Hev t j Ht. unfold step_core in H. destruct e; try discriminate Hev; kind_cases H.
  all: try match goal with |- context[match dpc ?t with _ => _ end] => destruct (dpc t) as [| | |? [|? ?]| |] end.
  all: unfold set_pc, end_finish; cbn; autorewrite with sup;
       repeat match goal with |- context[if ?b then _ else _] => destruct b end; autorewrite with sup; try exact Ht.
  - rewrite get_set. destruct (N.eqb_spec th t); [|exact Ht]. subst t. split_andb. unfold has in *.
    rewrite Ht in *. discriminate.
  - rewrite (fold_upd_inst_proj thinst) by (intros; apply upd_inst_thinst). exact Ht.
Qed.

Lemma step_core_cpc s th e s' : step_core s th e = Some s' -> own_ev e = false ->
  forall j x x', get j (insts s) = Some x -> get j (insts s') = Some x' ->
    (pc x' = pc x \/ get th (thinst s) = Some j) /\ (cpc (pc x') = true -> cpc (pc x) = true).
Proof.
  intros H Hev. destruct (frame_ev e) eqn:Hf.
  { intros j x x' Hx Hx'. destruct (csame_fwd _ _ _ _ (step_core_csame _ _ _ _ Hf H) Hx) as (x2 & Hx2 & (_ & Ep & _)).
    assert (x2 = x') by congruence. subst x2. rewrite Ep. auto. }
  unfold step_core in H. destruct e; try discriminate Hev; try discriminate Hf; kind_cases H.
  all: intros j x x' Hx; unfold set_pc, end_finish; cbn; autorewrite with sup.
  all: repeat match goal with |- context[if ?b then _ else _] => is_var b; destruct b end; autorewrite with sup.
  all: try rewrite get_set.
  all: try match goal with |- context[N.eqb ?a ?b] => destruct (N.eqb_spec a b); [subst b|] end.
  all: try (intros Hx'; assert (x' = x) by congruence; subst x'; auto; fail).
  all: try match goal with E : get ?i (insts _) = Some ?y, Hx : get ?i (insts _) = Some ?x |- _ => rewrite E in Hx; injection Hx as <- end.
  all: try match goal with E : get ?i (insts _) = Some ?y |- _ => rewrite ?E end; cbn; intros Hx'; try (injection Hx' as <-).
  1:{ exfalso. unfold has in E0. rewrite Hx in E0. discriminate. }
  all: cbn; repeat match goal with E : pc _ = _ |- _ => rewrite E; clear E end; cbn;
       (split; [first [left; reflexivity | right; apply opt_eqb_N_eq; assumption]|auto; try (intros; discriminate)]).
  all: destruct s1; cbn; intros; discriminate.
Qed.

(* ---- API calls: the model's program counter and the observer's o_api agree -------------------------------------- *)
Definition api_rel (a : apipc) (oa : option apiop) : bool :=
  match a with
  | ARun _ => match oa with Some OpRun => true | _ => false end
  | AStart _ | AStartSpawn _ | ARestart _ | ARestartStopping _ _ | ARestartSpawn _ =>
      match oa with Some OpRun | None => false | Some _ => true end
  | _ => true
  end.
Definition oa_next (e : event) (oa : option apiop) : option apiop :=
  match e with EApiBegin op => Some op | EApiReturn _ => None | _ => oa end.

Lemma step_core_apc s th e s' : step_core s th e = Some s' ->
  (forall th', th' <> th -> apc (get_thread s' th') = apc (get_thread s th')) /\
  forall oa, api_rel (apc (get_thread s th)) oa = true -> api_rel (apc (get_thread s' th)) (oa_next e oa) = true.
Proof.
  intros H. unfold step_core in H. destruct e; kind_cases H.
  all: try match goal with |- context[match dpc ?t with _ => _ end] => destruct (dpc t) as [| | |? [|? ?]| |] end.
  all: split; [intros th' Hne; unfold set_pc, end_finish; autorewrite with sup;
               try rewrite (proj2 (N.eqb_neq th th')) by congruence;
               repeat match goal with |- context[if ?b then _ else _] => destruct b end; autorewrite with sup;
               try rewrite (proj2 (N.eqb_neq th th')) by congruence; reflexivity|].
  all: intros oa; unfold set_pc, end_finish; autorewrite with sup; rewrite ?N.eqb_refl; cbn [oa_next apc];
       repeat match goal with |- context[if ?b then _ else _] => destruct b end; autorewrite with sup; rewrite ?N.eqb_refl; cbn;
       repeat match goal with E : apc _ = _ |- _ => rewrite E; clear E end; cbn; auto.
  1-3: destruct found; cbn; auto.
  destruct (apc (get_thread s th)); cbn; auto.
Qed.

Lemma oi_upd_o_api i f o : o_api (oi_upd i f o) = o_api o. Proof. now apply (oi_upd_proj o_api). Qed.
Lemma on_upd_o_api i f o : o_api (on_upd i f o) = o_api o. Proof. now apply (on_upd_proj o_api). Qed.
Lemma note_late_o_api o i : o_api (note_late_commit o i) = o_api o.
Proof. unfold note_late_commit. destruct (o_stopreq _); [destruct (stopping o i)|]; reflexivity. Qed.
#[export] Hint Rewrite oi_upd_o_api on_upd_o_api note_late_o_api : obsf.

Lemma obs_pre_api cs o th e th' :
  get th' (o_api (obs_pre cs o (th, e))) = if N.eqb th th' then oa_next e (get th (o_api o)) else get th' (o_api o).
Proof.
  assert (Hsame : o_api (obs_pre cs o (th, e)) = o_api o ->
                  match e with EApiBegin _ | EApiReturn _ => False | _ => True end ->
                  get th' (o_api (obs_pre cs o (th, e))) = if N.eqb th th' then oa_next e (get th (o_api o)) else get th' (o_api o)).
  { intros -> He. destruct (N.eqb_spec th th'); [subst|reflexivity]. destruct e; try contradiction; reflexivity. }
  destruct e; try (apply Hsame; [|exact I]; obs_cases o th; try reflexivity;
                   repeat match goal with |- context[if ?b then _ else _] => destruct b end; cbn; autorewrite with obsf; try reflexivity;
                   fold_proj o_api; reflexivity).
  - cbn. apply get_set.
  - cbn. rewrite get_del. destruct (N.eqb th th'); reflexivity.
Qed.


(* ---- registry, creation stage, registry lock: which events touch them ------------------------------------------- *)
Definition reg_ev (e : event) : bool :=
  match e with ENewInst _ _ | EState _ _ | ERegAdd _ _ | ERegDel _ | ESpawn _ _ | EBegin _ | EShutdownBegin => true | _ => false end.

Lemma step_core_regs s th e s' : step_core s th e = Some s' -> reg_ev e = false ->
  running s' = running s /\ stage s' = stage s /\ thinst s' = thinst s /\ reg_lock s' = reg_lock s.
Proof.
  intros H He. unfold step_core in H. destruct e; try discriminate He; kind_cases H.
  all: try match goal with |- context[match dpc ?t with _ => _ end] => destruct (dpc t) as [| | |? [|? ?]| |] end.
  all: unfold set_pc, end_finish, write_status, upd_inst, upd_vis; cbn;
       repeat match goal with |- context[match ?x with _ => _ end] => destruct x; cbn end; try (repeat split; reflexivity).
  fold (upd_inst). 
  assert (G : forall l s0, let s1 := fold_left (fun s i => match get i (insts s) with Some x => s <| insts := set i (x <| f_stopped := true |>) (insts s) |> | None => s end) l s0 in
               running s1 = running s0 /\ stage s1 = stage s0 /\ thinst s1 = thinst s0 /\ reg_lock s1 = reg_lock s0).
  { induction l as [|a l IH]; intros s0; cbn; [repeat split|]. destruct (get a (insts s0)); [|apply IH].
    destruct (IH (s0 <| insts := set a (i <| f_stopped := true |>) (insts s0) |>)) as (A & B & C & D). cbn in *. auto. }
  apply G.
Qed.

Lemma flush_stage th s : stage (flush th s) = stage s.
Proof.
  unfold flush. destruct (get th (threads s)) as [t|]; [|reflexivity]. destruct (pend t) as [r|]; [|reflexivity].
  destruct r; unfold apply_release, end_release_early, upd_inst, set_thread; cbn;
  repeat match goal with |- context[match ?x with _ => _ end] => destruct x; cbn end; reflexivity.
Qed.
Lemma flush_reg_lock th s :
  reg_lock (flush th s) = match pend (get_thread s th) with Some RUnlock => None | _ => reg_lock s end.
Proof.
  unfold flush, get_thread. destruct (get th (threads s)) as [t|]; [|reflexivity]. destruct (pend t) as [r|]; [|reflexivity].
  destruct r; unfold apply_release, end_release_early, upd_inst, set_thread; cbn;
  repeat match goal with |- context[match ?x with _ => _ end] => destruct x; cbn end; reflexivity.
Qed.

Lemma eff_new s th i n s' : step_core s th (ENewInst i n) = Some s' ->
  get i (insts s) = None /\ running s' = running s /\ thinst s' = thinst s /\ reg_lock s' = reg_lock s /\
  stage s' = set i (th, 0) (stage s) /\ exists x, get i (insts s') = Some x.
Proof.
  intros H. unfold step_core in H. kind_cases H. unfold has in *. destruct (get i (insts s)); [discriminate|]. repeat split.
  cbn. rewrite get_set_same. eauto.
Qed.
Lemma eff_state s th i s0 s' : step_core s th (EState i s0) = Some s' ->
  running s' = running s /\ thinst s' = thinst s /\ reg_lock s' = reg_lock s /\
  (stage s' = stage s \/ (at_stage s th i 0 = true /\ stage s' = set i (th, 1) (stage s))).
Proof.
  intros H. unfold step_core in H. kind_cases H.
  all: unfold set_pc, end_finish, write_status, upd_inst, upd_vis; cbn;
       repeat match goal with |- context[match ?x with _ => _ end] => destruct x; cbn end; auto 6.
Qed.
Lemma eff_regadd s th i n s' : step_core s th (ERegAdd i n) = Some s' ->
  exists x, get i (insts s) = Some x /\ nm x = n /\ gonepc (pc x) = false /\ reg_lock s = None /\
    running s' = set n i (running s) /\ stage s' = set i (th, 2) (stage s) /\ thinst s' = thinst s /\ reg_lock s' = reg_lock s /\
    insts s' = insts s.
Proof.
  intros H. unfold step_core in H. kind_cases H. split_andb. eexists. split; [reflexivity|]. unfold lock_free in *.
  destruct (reg_lock s) eqn:El; [discriminate|]. destruct (pc i0); try discriminate. repeat split; auto.
Qed.
Lemma eff_regdel s th i s' : step_core s th (ERegDel i) = Some s' ->
  exists x, get i (insts s) = Some x /\ gonepc (pc x) = true /\ get (nm x) (running s) = Some i /\
    running s' = del (nm x) (running s) /\ stage s' = stage s /\ thinst s' = thinst s /\ reg_lock s' = reg_lock s /\ insts s' = insts s.
Proof.
  intros H. unfold step_core in H. kind_cases H. eexists. split; [reflexivity|]. split_andb.
  destruct (pc i0); try discriminate; try (rewrite andb_false_r in *; discriminate). repeat split; auto.
  now apply opt_eqb_N_eq.
Qed.
Lemma eff_spawn s th i n s' : step_core s th (ESpawn i n) = Some s' ->
  at_stage s th i 2 = true /\ stage s' = set i (th, 3) (stage s) /\ running s' = running s /\ thinst s' = thinst s /\ reg_lock s' = reg_lock s.
Proof. intros H. unfold step_core in H. kind_cases H; repeat split; auto. Qed.
Lemma eff_begin s th i s' : step_core s th (EBegin i) = Some s' ->
  (exists c, get i (stage s) = Some (c, 3)) /\ (exists x, get i (insts s) = Some x) /\
  thinst s' = set th i (thinst s) /\ stage s' = del i (stage s) /\ running s' = running s /\ reg_lock s' = reg_lock s /\ insts s' = insts s.
Proof.
  intros H. unfold step_core in H. break_step H. subst s'.
  destruct (get i (stage s)) as [[c k]|] eqn:Es; [|discriminate].
  do 3 (destruct k as [|k]; try discriminate). destruct k; [|discriminate]. repeat split; eauto.
Qed.
Lemma eff_sdbegin s th s' : step_core s th EShutdownBegin = Some s' ->
  reg_lock s = None /\ reg_lock s' = Some th /\ running s' = running s /\ stage s' = stage s /\ thinst s' = thinst s.
Proof. intros H. unfold step_core in H. kind_cases H. unfold lock_free in *. destruct (reg_lock s) eqn:El; [discriminate|]. repeat split; auto. Qed.

Lemma step_core_unl s th e s' : step_core s th e = Some s' ->
  forall th', pend (get_thread s' th') = Some RUnlock -> pend (get_thread s th') = Some RUnlock \/ (th' = th /\ e = EShutdownEnd).
Proof.
  intros H th'. unfold step_core in H. destruct e; kind_cases H.
  all: try match goal with |- context[match dpc ?t with _ => _ end] => destruct (dpc t) as [| | |? [|? ?]| |] end.
  all: unfold set_pc, end_finish; autorewrite with sup;
       repeat match goal with |- context[if ?b then _ else _] => is_var b; destruct b end; autorewrite with sup; auto.
  all: try (destruct (N.eqb_spec th th'); [subst th'|]; cbn; auto; try (intros; discriminate); fail).
  all: destruct (i =? i2)%N; autorewrite with sup; (destruct (N.eqb_spec th th'); [subst th'|]); cbn; auto.
Qed.

(* ---- "active => registered => in the snapshot" ----------------------------------------------------------------------- *)
Definition staged2 (s : sys) (i : iid) : bool := match get i (stage s) with Some (_, k) => Nat.leb 2 k | None => false end.
Definition act (s : sys) (i : iid) : Prop := staged2 s i = true \/ exists t, get t (thinst s) = Some i.
Definition lockpc (d : sdpc) : bool := match d with DBegun | DLoop _ _ | DWaitAll _ => true | _ => false end.
Definition snappc (d : sdpc) (order : list iid) : Prop := (exists r, d = DLoop order r) \/ d = DWaitAll order.

Record Inv3 (s : sys) : Prop := mkInv3 {
  iv_thi : forall t i, get t (thinst s) = Some i -> exists x, get i (insts s) = Some x;
  iv_sti : forall i ck, get i (stage s) = Some ck -> exists x, get i (insts s) = Some x;
  iv_reg : forall i x, get i (insts s) = Some x -> act s i -> gonepc (pc x) = false -> get (nm x) (running s) = Some i;
  iv_lock : forall th, lockpc (dpc (get_thread s th)) = true -> reg_lock s = Some th;
  iv_unl : forall th, pend (get_thread s th) = Some RUnlock -> dpc (get_thread s th) = DEnded /\ reg_lock s = Some th;
  iv_snap : forall th order, snappc (dpc (get_thread s th)) order ->
            forall i x, get i (insts s) = Some x -> act s i -> gonepc (pc x) = false -> memN i order = true }.

Definition ibwd (s s' : sys) : Prop :=
  forall j x', get j (insts s') = Some x' -> act s' j ->
  exists x, get j (insts s) = Some x /\ nm x' = nm x /\ (gonepc (pc x) = true -> gonepc (pc x') = true).
Definition ifwd (s s' : sys) : Prop := forall j x, get j (insts s) = Some x -> exists x', get j (insts s') = Some x'.
Definition snap_all (s : sys) (order : list iid) : Prop :=
  forall i x, get i (insts s) = Some x -> act s i -> gonepc (pc x) = false -> memN i order = true.

Lemma not_gone_bwd x x' : (gonepc (pc x) = true -> gonepc (pc x') = true) -> gonepc (pc x') = false -> gonepc (pc x) = false.
Proof. intros Hg Hx'. destruct (gonepc (pc x)); [rewrite Hg in Hx' by reflexivity; discriminate|reflexivity]. Qed.

(* threads part: lock clauses *)
Lemma G2_keep s s' : reg_lock s' = reg_lock s ->
  (forall th, lockpc (dpc (get_thread s' th)) = true -> lockpc (dpc (get_thread s th)) = true) ->
  (forall th, pend (get_thread s' th) = Some RUnlock ->
     (pend (get_thread s th) = Some RUnlock /\ dpc (get_thread s' th) = dpc (get_thread s th)) \/
     (dpc (get_thread s' th) = DEnded /\ reg_lock s = Some th)) ->
  Inv3 s ->
  (forall th, lockpc (dpc (get_thread s' th)) = true -> reg_lock s' = Some th) /\
  (forall th, pend (get_thread s' th) = Some RUnlock -> dpc (get_thread s' th) = DEnded /\ reg_lock s' = Some th).
Proof.
  intros El Hl Hu I3. split.
  - intros th Hp. rewrite El. apply (iv_lock _ I3), Hl, Hp.
  - intros th Hp. rewrite El. destruct (Hu th Hp) as [[Hp0 Ed]|[Ed Hk]]; [rewrite Ed; apply (iv_unl _ I3), Hp0|auto].
Qed.

Lemma G3_keep s s' : ibwd s s' -> (forall i, act s' i -> act s i) ->
  (forall th order, snappc (dpc (get_thread s' th)) order -> snappc (dpc (get_thread s th)) order \/ snap_all s order) ->
  Inv3 s -> forall th order, snappc (dpc (get_thread s' th)) order -> snap_all s' order.
Proof.
  intros Hb Ha Hs I3 th order Hsn i x' Hx' Hac Hg. destruct (Hb i x' Hx' Hac) as (x & Hx & En & Hgg).
  pose proof (not_gone_bwd _ _ Hgg Hg) as Hg0.
  destruct (Hs th order Hsn) as [Hold|Hall]; [eapply (iv_snap _ I3); eauto|eapply Hall; eauto].
Qed.

Lemma G1_keep s s' : running s' = running s -> thinst s' = thinst s ->
  (forall i, staged2 s' i = true -> staged2 s i = true) ->
  (forall i ck, get i (stage s') = Some ck -> (exists ck', get i (stage s) = Some ck') \/ exists x, get i (insts s') = Some x) ->
  ibwd s s' -> ifwd s s' -> Inv3 s ->
  (forall t i, get t (thinst s') = Some i -> exists x, get i (insts s') = Some x) /\
  (forall i ck, get i (stage s') = Some ck -> exists x, get i (insts s') = Some x) /\
  (forall i x, get i (insts s') = Some x -> act s' i -> gonepc (pc x) = false -> get (nm x) (running s') = Some i) /\
  (forall i, act s' i -> act s i).
Proof.
  intros Er Et Hst Hsk Hb Hf I3.
  assert (Hact : forall i, act s' i -> act s i).
  { intros i [H|[t H]]; [left; auto|right; exists t; now rewrite <- Et]. }
  repeat split; auto.
  - intros t i Ht. rewrite Et in Ht. destruct (iv_thi _ I3 t i Ht) as (x & Hx). eauto.
  - intros i ck Hk. destruct (Hsk i ck Hk) as [(ck' & Hk')|Hx]; [|exact Hx]. destruct (iv_sti _ I3 i ck' Hk') as (x & Hx). eauto.
  - intros i x' Hx' Ha Hg. destruct (Hb i x' Hx' Ha) as (x & Hx & En & Hgg). rewrite Er, En.
    apply (iv_reg _ I3); auto. eapply not_gone_bwd; eauto.
Qed.

Lemma Inv3_init cs ord : Inv3 (init cs ord).
Proof.
  constructor; cbn; try discriminate; try (intros th order [[r H]|H]; discriminate).
Qed.

Lemma Inv3_flush th s : Inv3 s -> Inv3 (flush th s).
Proof.
  intros I3.
  assert (Hb : ibwd s (flush th s)).
  { intros j x' Hx' _. destruct (flush_bwd _ _ _ _ Hx') as (x & Hx & (En & Ep & _)). exists x. rewrite Ep. auto. }
  assert (Hf : ifwd s (flush th s)).
  { intros j x Hx. destruct (flush_fwd th _ _ _ Hx) as (x' & Hx' & _). eauto. }
  destruct (G1_keep s (flush th s)) as (A & B & C & Hact); auto using flush_running, flush_thinst.
  { intros i. unfold staged2. now rewrite flush_stage. } { intros i ck. rewrite flush_stage. eauto. }
  assert (Hth : forall th', dpc (get_thread (flush th s) th') = dpc (get_thread s th') /\
                            (pend (get_thread (flush th s) th') = Some RUnlock -> th' <> th /\ pend (get_thread s th') = Some RUnlock)).
  { intros th'. destruct (flush_thread th s th') as (_ & _ & Ed & Ep). split; [exact Ed|]. rewrite Ep.
    destruct (N.eqb_spec th th'); [discriminate|]. intros Hp. split; [congruence|exact Hp]. }
  assert (Hlk : forall th', reg_lock s = Some th' -> th' <> th \/ pend (get_thread s th) <> Some RUnlock -> reg_lock (flush th s) = Some th').
  { intros th' Hl Hc. rewrite flush_reg_lock. destruct (pend (get_thread s th)) as [[]|] eqn:Ep; auto.
    destruct (iv_unl _ I3 th Ep) as [_ Hl2]. destruct Hc as [Hc|Hc]; congruence. }
  constructor; auto.
  - intros th' Hp. destruct (Hth th') as [Ed _]. rewrite Ed in Hp. apply Hlk; [apply (iv_lock _ I3); auto|].
    destruct (N.eq_dec th' th) as [->|Hne]; [|auto]. right. intros Hpe. destruct (iv_unl _ I3 th Hpe) as [Hd _]. rewrite Hd in Hp. discriminate.
  - intros th' Hp. destruct (Hth th') as [Ed Hp2]. destruct (Hp2 Hp) as [Hne Hp0]. destruct (iv_unl _ I3 th' Hp0) as [Hd Hl].
    rewrite Ed. split; [exact Hd|]. apply Hlk; auto.
  - intros th' order Hsn. eapply (G3_keep s (flush th s)); eauto.
    intros th2 o2 H2. left. destruct (Hth th2) as [Ed _]. now rewrite Ed in H2.
Qed.

Lemma own_not_reg e : own_ev e = true -> reg_ev e = false.
Proof. destruct e; intros H; try discriminate H; reflexivity. Qed.

Lemma all_ibwd s th e s' : step_core s th e = Some s' -> (forall i n, e <> ENewInst i n) -> ibwd s s' /\ ifwd s s'.
Proof.
  intros H Hne. destruct (own_ev e) eqn:Hev.
  - rewrite step_core_own in H by exact Hev.
    destruct (step_own_mono _ _ _ _ H) as (i & x & x' & Hth & Hx & Hx' & Hoth & En & Ed & Er & Hg & _).
    split.
    + intros j y' Hy' _. destruct (N.eq_dec j i) as [->|Hn]; [assert (y' = x') by congruence; subst; eauto|].
      rewrite (Hoth j Hn) in Hy'. eauto.
    + intros j y Hy. destruct (N.eq_dec j i) as [->|Hn]; [eauto|]. rewrite (Hoth j Hn). eauto.
  - split.
    + intros j y' Hy' _.
      destruct (step_core_inst_bwd _ _ _ _ H Hev j y' Hy') as [(x & Hx & (En & _ & _ & _ & Hg & _))|(_ & n & c & E & _)]; [eauto|].
      exfalso. eapply Hne; eauto.
    + intros j y Hy. destruct (step_core_inst _ _ _ _ H Hev j y Hy) as (y' & Hy' & _). eauto.
Qed.

Lemma dpc_other s th e s' : step_core s th e = Some s' -> forall th', th' <> th -> dpc (get_thread s' th') = dpc (get_thread s th').
Proof.
  intros H th' Hne. destruct (own_ev e) eqn:Hev.
  - rewrite step_core_own in H by exact Hev.
    destruct (step_own_mono _ _ _ _ H) as (i & x & x' & _ & _ & _ & _ & _ & _ & _ & _ & _ & _ & _ & Hthr). apply Hthr.
  - destruct (step_core_dpc _ _ _ _ H Hev) as [Ho _]. auto.
Qed.

Lemma unl_keep s th e s' : step_core s th e = Some s' -> pend (get_thread s th) = None -> e <> EShutdownEnd ->
  forall th', pend (get_thread s' th') = Some RUnlock ->
  pend (get_thread s th') = Some RUnlock /\ dpc (get_thread s' th') = dpc (get_thread s th').
Proof.
  intros H Hpn Hne th' Hp. destruct (step_core_unl _ _ _ _ H th' Hp) as [Hp0|[_ He]]; [|contradiction].
  split; [exact Hp0|]. apply (dpc_other _ _ _ _ H). intros ->. congruence.
Qed.

Lemma dpc_self_mono s th e s' : step_core s th e = Some s' ->
  match e with EShutdownOrder _ | EShutdownBegin => False | _ => True end ->
  (lockpc (dpc (get_thread s' th)) = true -> lockpc (dpc (get_thread s th)) = true) /\
  (forall order, snappc (dpc (get_thread s' th)) order -> snappc (dpc (get_thread s th)) order).
Proof.
  intros H He. destruct (own_ev e) eqn:Hev.
  - rewrite step_core_own in H by exact Hev.
    destruct (step_own_mono _ _ _ _ H) as (i & x & x' & _ & _ & _ & _ & _ & _ & _ & _ & _ & _ & _ & Hthr).
    destruct (Hthr th) as (_ & Ed & _). rewrite Ed. auto.
  - destruct (step_core_dpc _ _ _ _ H Hev) as [_ Hth].
    destruct e; try contradiction; try discriminate Hev; try (rewrite Hth; auto; fail).
    all: try (rewrite Hth; split; [discriminate|intros order [[r Hr]|Hr]; discriminate]).
    destruct Hth as [Hth|(o0 & rest & E1 & E2)]; [rewrite Hth; auto|]. rewrite E1, E2. split; [auto|].
    intros order [[r Hr]|Hr]; [|discriminate]. injection Hr as <- <-. left. eauto.
Qed.

Definition plain_thr (e : event) : Prop := match e with EShutdownOrder _ | EShutdownEnd | EShutdownBegin => False | _ => True end.

Lemma thr_conds s th e s' : step_core s th e = Some s' -> pend (get_thread s th) = None -> plain_thr e ->
  (forall th', lockpc (dpc (get_thread s' th')) = true -> lockpc (dpc (get_thread s th')) = true) /\
  (forall th', pend (get_thread s' th') = Some RUnlock ->
     (pend (get_thread s th') = Some RUnlock /\ dpc (get_thread s' th') = dpc (get_thread s th')) \/
     (dpc (get_thread s' th') = DEnded /\ reg_lock s = Some th')) /\
  (forall th' order, snappc (dpc (get_thread s' th')) order -> snappc (dpc (get_thread s th')) order \/ snap_all s order).
Proof.
  intros H Hpn Hpl.
  destruct (dpc_self_mono _ _ _ _ H) as [Hl Hs]. { destruct e; try contradiction; exact I. }
  split; [|split].
  - intros th' Hp. destruct (N.eq_dec th' th) as [->|Hne]; [auto|]. now rewrite (dpc_other _ _ _ _ H th' Hne) in Hp.
  - intros th' Hp. left. apply (unl_keep _ _ _ _ H Hpn); [intros ->; contradiction|exact Hp].
  - intros th' order Hsn. left. destruct (N.eq_dec th' th) as [->|Hne]; [auto|]. now rewrite (dpc_other _ _ _ _ H th' Hne) in Hsn.
Qed.

Lemma Inv3_assemble s th e s' : step_core s th e = Some s' -> pend (get_thread s th) = None -> plain_thr e ->
  running s' = running s -> thinst s' = thinst s -> reg_lock s' = reg_lock s ->
  (forall i, staged2 s' i = true -> staged2 s i = true) ->
  (forall i ck, get i (stage s') = Some ck -> (exists ck', get i (stage s) = Some ck') \/ exists x, get i (insts s') = Some x) ->
  ibwd s s' -> ifwd s s' -> Inv3 s -> Inv3 s'.
Proof.
  intros H Hpn Hpl Er Et El Hst Hsk Hb Hf I3.
  destruct (thr_conds _ _ _ _ H Hpn Hpl) as (T1 & T2 & T3).
  destruct (G1_keep s s') as (A & B & C & Hact); auto.
  destruct (G2_keep s s' El T1 T2 I3) as [D E].
  constructor; auto. intros th' order Hsn. eapply (G3_keep s s'); eauto.
Qed.

Lemma same_members_in l1 : forall l2, same_members l1 l2 = true -> forall a, In a l2 -> In a l1.
Proof.
  induction l1 as [|b r IH]; intros l2 H a Ha; cbn in H.
  - destruct l2; [contradiction|discriminate].
  - apply andb_true_iff in H. destruct H as [Hb Hr]. destruct (N.eq_dec a b) as [->|Hne]; [now left|right].
    apply (IH _ Hr). unfold removeN. apply filter_In. split; [exact Ha|]. apply negb_true_iff, N.eqb_neq. exact Hne.
Qed.

Lemma eff_order s th order s' : step_core s th (EShutdownOrder order) = Some s' ->
  dpc (get_thread s th) = DBegun /\ same_members order (map snd (running s)) = true /\ snappc (dpc (get_thread s' th)) order.
Proof.
  intros H. unfold step_core in H. kind_cases H. split; [auto|]. split; [auto|].
  autorewrite with sup. rewrite N.eqb_refl. cbn. destruct (ordered s); [right|left]; eauto.
Qed.

Lemma Inv3_core s o th e s' : Inv s o -> Inv3 s -> pend (get_thread s th) = None -> step_core s th e = Some s' -> Inv3 s'.
Proof.
  intros HI I3 Hpn H.
  destruct (reg_ev e) eqn:Hre.
  2:{ destruct (step_core_regs _ _ _ _ H Hre) as (Er & Es & Et & El).
      destruct (all_ibwd _ _ _ _ H) as [Hb Hf]. { intros i n ->. discriminate. }
      assert (Hst : forall i, staged2 s' i = true -> staged2 s i = true) by (intros i; unfold staged2; now rewrite Es).
      assert (Hsk : forall i ck, get i (stage s') = Some ck -> (exists ck', get i (stage s) = Some ck') \/ exists x, get i (insts s') = Some x)
        by (intros i ck; rewrite Es; eauto).
      assert (Hev : own_ev e = true \/ own_ev e = false) by (destruct (own_ev e); auto).
      destruct e; try discriminate Hre; try (eapply Inv3_assemble; eauto; exact I).
      - (* EShutdownOrder *)
        destruct (eff_order _ _ _ _ H) as (Hd0 & Hsm & Hsn').
        destruct (G1_keep s s') as (A & B & C & Hact); auto.
        assert (Hall : snap_all s order).
        { intros i x Hx Ha Hg. pose proof (iv_reg _ I3 i x Hx Ha Hg) as Hr. apply get_in in Hr.
          apply memN_In, (same_members_in _ _ Hsm). apply (in_map snd) in Hr. exact Hr. }
        destruct (G2_keep s s' El) as [D E]; auto.
        { intros th' Hp. destruct (N.eq_dec th' th) as [->|Hne]; [now rewrite Hd0|]. now rewrite (dpc_other _ _ _ _ H th' Hne) in Hp. }
        { intros th' Hp. left. apply (unl_keep _ _ _ _ H Hpn); [discriminate|exact Hp]. }
        constructor; auto. intros th' o2 Hsn. eapply (G3_keep s s'); eauto.
        intros th2 o3 H3. destruct (N.eq_dec th2 th) as [->|Hne].
        + right. destruct Hsn' as [[r Hr]|Hr]; rewrite Hr in H3; destruct H3 as [[r3 H3]|H3]; try discriminate; injection H3 as <-; auto.
        + left. now rewrite (dpc_other _ _ _ _ H th2 Hne) in H3.
      - (* EShutdownEnd *)
        destruct (sdend_guard _ _ _ H) as (order & Hdp & _).
        destruct (step_core_dpc _ _ _ _ H eq_refl) as [_ Hde]. cbn in Hde.
        destruct (dpc_self_mono _ _ _ _ H I) as [Hl Hs].
        destruct (G1_keep s s') as (A & B & C & Hact); auto.
        destruct (G2_keep s s' El) as [D E]; auto.
        { intros th' Hp. destruct (N.eq_dec th' th) as [->|Hne]; [auto|]. now rewrite (dpc_other _ _ _ _ H th' Hne) in Hp. }
        { intros th' Hp. destruct (step_core_unl _ _ _ _ H th' Hp) as [Hp0|[-> _]].
          - left. split; [exact Hp0|]. apply (dpc_other _ _ _ _ H). intros ->. congruence.
          - right. split; [exact Hde|]. apply (iv_lock _ I3). destruct Hdp as [[r Hr]|Hr]; rewrite Hr; reflexivity. }
        constructor; auto. intros th' o2 Hsn. eapply (G3_keep s s'); eauto.
        intros th2 o3 H3. left. destruct (N.eq_dec th2 th) as [->|Hne]; [auto|]. now rewrite (dpc_other _ _ _ _ H th2 Hne) in H3. }
  assert (Hstage_set : forall i k j, get j (set i (th, k) (stage s)) = if N.eqb i j then Some (th, k) else get j (stage s))
    by (intros; apply get_set).
  destruct e; try discriminate Hre.
  - (* ENewInst *)
    destruct (eff_new _ _ _ _ _ H) as (Hnone & Er & Et & El & Es & Hnew).
    assert (Hnact : forall t, get t (thinst s) <> Some i).
    { intros t Ht. destruct (iv_thi _ I3 t i Ht) as (x & Hx). congruence. }
    eapply Inv3_assemble; eauto; try exact I.
    + intros j. unfold staged2. rewrite Es, Hstage_set. destruct (N.eqb_spec i j); [discriminate|auto].
    + intros j ck. rewrite Es, Hstage_set. destruct (N.eqb_spec i j); [subst; auto|eauto].
    + intros j x' Hx' Ha.
      destruct (step_core_inst_bwd _ _ _ _ H eq_refl j x' Hx') as [(x & Hx & (En & _ & _ & _ & Hg & _))|(_ & n0 & c & E & _)]; [eauto|].
      injection E as <- _. exfalso. destruct Ha as [Ha|[t Ht]].
      * unfold staged2 in Ha. rewrite Es, Hstage_set, N.eqb_refl in Ha. discriminate.
      * rewrite Et in Ht. exact (Hnact t Ht).
    + intros j y Hy. destruct (step_core_inst _ _ _ _ H eq_refl j y Hy) as (y' & Hy' & _). eauto.
  - (* ERegAdd *)
    destruct (eff_regadd _ _ _ _ _ H) as (x & Hx & Hn & Hg & Hlk & Er & Es & Et & El & Ei).
    destruct (thr_conds _ _ _ _ H Hpn I) as (T1 & T2 & T3).
    destruct (G2_keep s s' El T1 T2 I3) as [D E].
    assert (Hact : forall j, j <> i -> act s' j -> act s j).
    { intros j Hne [Ha|[t Ht]]; [left|right; exists t; now rewrite <- Et].
      unfold staged2 in *. rewrite Es, Hstage_set in Ha. destruct (N.eqb_spec i j); [congruence|exact Ha]. }
    constructor; auto.
    + intros t j Ht. rewrite Et in Ht. rewrite Ei. apply (iv_thi _ I3 t j Ht).
    + intros j ck Hk. rewrite Ei. rewrite Es, Hstage_set in Hk. destruct (N.eqb_spec i j); [subst; eauto|apply (iv_sti _ I3 j ck Hk)].
    + intros j y Hy Ha Hgy. rewrite Ei in Hy. rewrite Er, get_set. destruct (N.eq_dec j i) as [->|Hne].
      * assert (y = x) by congruence. subst y. rewrite Hn, N.eqb_refl. reflexivity.
      * pose proof (iv_reg _ I3 j y Hy (Hact j Hne Ha) Hgy) as Hr.
        destruct (N.eqb_spec n (nm y)); [|exact Hr]. exfalso.
        destruct (iv_name _ _ HI j i y x Hy Hx Hne) as [G|G]; congruence.
    + intros th' order Hsn. exfalso. destruct (T3 th' order Hsn) as [Hold|Hall].
      * assert (Hl : lockpc (dpc (get_thread s th')) = true) by (destruct Hold as [[r Hr]|Hr]; rewrite Hr; reflexivity).
        rewrite (iv_lock _ I3 th' Hl) in Hlk. discriminate.
      * (* snap_all never offered by thr_conds *) destruct (dpc_self_mono _ _ _ _ H I) as [_ Hs].
        assert (Hold : snappc (dpc (get_thread s th')) order).
        { destruct (N.eq_dec th' th) as [->|Hne]; [auto|]. now rewrite (dpc_other _ _ _ _ H th' Hne) in Hsn. }
        assert (Hl : lockpc (dpc (get_thread s th')) = true) by (destruct Hold as [[r Hr]|Hr]; rewrite Hr; reflexivity).
        rewrite (iv_lock _ I3 th' Hl) in Hlk. discriminate.
  - (* ERegDel *)
    destruct (eff_regdel _ _ _ _ H) as (x & Hx & Hg & Hrx & Er & Es & Et & El & Ei).
    destruct (thr_conds _ _ _ _ H Hpn I) as (T1 & T2 & T3).
    destruct (G2_keep s s' El T1 T2 I3) as [D E].
    assert (Hact : forall j, act s' j -> act s j) by (intros j; unfold act, staged2; rewrite Es, Et; auto).
    assert (Hb : ibwd s s') by (intros j y Hy _; rewrite Ei in Hy; eauto).
    constructor; auto.
    + intros t j Ht. rewrite Et in Ht. rewrite Ei. apply (iv_thi _ I3 t j Ht).
    + intros j ck Hk. rewrite Ei. rewrite Es in Hk. apply (iv_sti _ I3 j ck Hk).
    + intros j y Hy Ha Hgy. rewrite Ei in Hy. pose proof (iv_reg _ I3 j y Hy (Hact j Ha) Hgy) as Hr.
      rewrite Er, get_del. destruct (N.eqb_spec (nm x) (nm y)) as [En|]; [|exact Hr]. exfalso.
      rewrite En in Hrx. assert (j = i) by congruence. subst j. congruence.
    + intros th' order Hsn. eapply (G3_keep s s'); eauto.
  - (* ESpawn *)
    destruct (eff_spawn _ _ _ _ _ H) as (Has & Es & Er & Et & El).
    destruct (all_ibwd _ _ _ _ H) as [Hb Hf]. { intros a b E. discriminate. }
    assert (Hold : get i (stage s) = Some (th, 2)).
    { unfold at_stage in Has. destruct (get i (stage s)) as [[c k]|]; [|discriminate]. split_andb.
      apply Nat.eqb_eq in H1. subst. reflexivity. }
    eapply Inv3_assemble; eauto; try exact I.
    + intros j. unfold staged2. rewrite Es, Hstage_set. destruct (N.eqb_spec i j); [subst; now rewrite Hold|auto].
    + intros j ck. rewrite Es, Hstage_set. destruct (N.eqb_spec i j); [subst; eauto|eauto].
  - (* EBegin *)
    destruct (eff_begin _ _ _ _ H) as ((c & Hst) & (x & Hx) & Et & Es & Er & El & Ei).
    destruct (thr_conds _ _ _ _ H Hpn I) as (T1 & T2 & T3).
    destruct (G2_keep s s' El T1 T2 I3) as [D E].
    assert (Hact : forall j, act s' j -> act s j).
    { intros j [Ha|[t Ht]].
      - left. unfold staged2 in *. rewrite Es, get_del in Ha. destruct (N.eqb_spec i j); [discriminate|exact Ha].
      - rewrite Et, get_set in Ht. destruct (N.eqb_spec th t); [|right; eauto]. injection Ht as <-. left. unfold staged2. now rewrite Hst. }
    assert (Hb : ibwd s s') by (intros j y Hy _; rewrite Ei in Hy; eauto).
    constructor; auto.
    + intros t j Ht. rewrite Ei. rewrite Et, get_set in Ht. destruct (N.eqb_spec th t); [injection Ht as <-; eauto|apply (iv_thi _ I3 t j Ht)].
    + intros j ck Hk. rewrite Ei. rewrite Es, get_del in Hk. destruct (N.eqb_spec i j); [discriminate|apply (iv_sti _ I3 j ck Hk)].
    + intros j y Hy Ha Hgy. rewrite Ei in Hy. rewrite Er. apply (iv_reg _ I3); auto.
    + intros th' order Hsn. eapply (G3_keep s s'); eauto.
  - (* EState *)
    destruct (eff_state _ _ _ _ _ H) as (Er & Et & El & Hs).
    destruct (all_ibwd _ _ _ _ H) as [Hb Hf]. { intros a b E. discriminate. }
    eapply Inv3_assemble; eauto; try exact I.
    + intros j. unfold staged2. destruct Hs as [->|[Ha ->]]; [auto|]. rewrite Hstage_set. destruct (N.eqb_spec i j); [discriminate|auto].
    + intros j ck. destruct Hs as [->|[Ha ->]]; [eauto|]. rewrite Hstage_set. destruct (N.eqb_spec i j); [subst|eauto].
      intros _. left. unfold at_stage in Ha. destruct (get j (stage s)); [eauto|discriminate].
  - (* EShutdownBegin *)
    destruct (eff_sdbegin _ _ _ H) as (Hl0 & Hl1 & Er & Es & Et).
    destruct (step_core_dpc _ _ _ _ H eq_refl) as [_ Hd]. cbn in Hd.
    destruct (all_ibwd _ _ _ _ H) as [Hb Hf]. { intros a b E. discriminate. }
    destruct (G1_keep s s') as (A & B & C & Hact); auto.
    { intros j. unfold staged2. now rewrite Es. } { intros j ck. rewrite Es. eauto. }
    assert (Hno : forall th', th' <> th -> lockpc (dpc (get_thread s' th')) = true -> False).
    { intros th' Hne Hp. rewrite (dpc_other _ _ _ _ H th' Hne) in Hp. rewrite (iv_lock _ I3 th' Hp) in Hl0. discriminate. }
    constructor; auto.
    + intros th' Hp. destruct (N.eq_dec th' th) as [->|Hne]; [exact Hl1|]. exfalso. eauto.
    + intros th' Hp. exfalso. destruct (unl_keep _ _ _ _ H Hpn) with (th' := th') as [Hp0 _]; [discriminate|exact Hp|].
      destruct (iv_unl _ I3 th' Hp0) as [_ Hk]. congruence.
    + intros th' order Hsn. exfalso. destruct (N.eq_dec th' th) as [->|Hne].
      * rewrite Hd in Hsn. destruct Hsn as [[r Hr]|Hr]; discriminate.
      * apply (Hno th' Hne). destruct Hsn as [[r Hr]|Hr]; rewrite Hr; reflexivity.
Qed.


(* ---- observer: o_byapi, o_insnap, o_stopreq ---------------------------------------------------------------------- *)
Definition oai_le (x x' : oinst) : Prop :=
  o_byapi x' = o_byapi x /\ o_insnap x' = o_insnap x /\ (o_stopreq x = true -> o_stopreq x' = true).
Lemma oai_le_refl x : oai_le x x. Proof. repeat split; auto. Qed.
Lemma oai_le_trans x y z : oai_le x y -> oai_le y z -> oai_le x z.
Proof. unfold oai_le. intuition congruence. Qed.

Lemma obs_pre_oai cs o th e :
  match e with ENewInst _ _ | EShutdownOrder _ => False | _ => True end -> obs_rel oai_le o (obs_pre cs o (th, e)).
Proof.
  intros Hne. unfold obs_pre.
  destruct e; try contradiction; cbn [fst snd];
  try (destruct (ev_inst o th _) eqn:Ev);
  try match goal with |- context[match ?b with true => _ | false => _ end] => destruct b end;
  try match goal with |- context[match ?b with true => _ | false => _ end] => destruct b end;
  unfold note_late_commit;
  repeat match goal with |- context[if ?b then _ else _] => destruct b end;
  try apply (obs_rel_refl oai_le oai_le_refl); obs_rel_close oai_le oai_le_refl oai_le_trans.
  all: intros x; unfold oai_le; cbn; auto.
  1,2: destruct (opt_eqb _ _ _); cbn; auto.
  repeat split; auto. intros ->. reflexivity.
Qed.

Lemma fold_snap_fields l j (x : oinst) :
  let x' := fold_left (fun x i => if N.eqb i j then x <| o_stopreq := true |> <| o_insnap := true |> else x) l x in
  o_byapi x' = o_byapi x /\ (memN j l = true -> o_stopreq x' = true /\ o_insnap x' = true) /\ (memN j l = false -> x' = x) /\
  (o_stopreq x = true -> o_stopreq x' = true) /\ (o_insnap x = true -> o_insnap x' = true).
Proof.
  revert x. induction l as [|a l IH]; intros x; cbn; [repeat split; auto; discriminate|].
  unfold memN in *. cbn. rewrite (N.eqb_sym j a). destruct (N.eqb a j) eqn:E; cbn.
  - destruct (IH (x <| o_stopreq := true |> <| o_insnap := true |>)) as (A & B & C & D & F). cbn in *.
    split; [exact A|]. split; [intros _; split; [apply D|apply F]; reflexivity|]. split; [discriminate|].
    split; intros _; [apply D|apply F]; reflexivity.
  - apply IH.
Qed.

Lemma oi_sdorder cs o th order j :
  get j (oi (obs_pre cs o (th, EShutdownOrder order))) =
  option_map (fun x => fold_left (fun x i => if N.eqb i j then x <| o_stopreq := true |> <| o_insnap := true |> else x) order x) (get j (oi o)).
Proof. cbn. rewrite fold_oi_upd_get. reflexivity. Qed.

Section RelC03b.
Context (cs : amap pconf).

Definition c_beg (s : sys) : Prop :=
  forall i x, get i (insts s) = Some x -> (exists t, pc x = IDeps t) \/ exists th, get th (thinst s) = Some i.
Definition aft_ok (o : obs) (i : iid) (x : inst) (xo : oinst) : Prop :=
  memN i (o_after_sd_spawn o) = true \/ nl x = true \/ (o_byapi xo = true /\ o_insnap xo = false) \/
  (o_stopreq xo = true /\ cpc (pc x) = false).
Definition c_aft (s : sys) (o : obs) : Prop :=
  0 < o_sd_done o -> forall i x xo, get i (insts s) = Some x -> get i (oi o) = Some xo -> aft_ok o i x xo.

Definition c_api (s : sys) (o : obs) : Prop := forall th, api_rel (apc (get_thread s th)) (get th (o_api o)) = true.
Record Inv2 (s : sys) (o : obs) : Prop := mkInv2 { iv_beg : c_beg s; iv_aft : c_aft s o; iv_api : c_api s o }.

Lemma c_api_core s o th e s' : c_api s o -> step_core s th e = Some s' -> c_api s' (obs_pre cs o (th, e)).
Proof.
  intros HP H th'. destruct (step_core_apc _ _ _ _ H) as [Hoth Hth]. rewrite obs_pre_api.
  destruct (N.eqb_spec th th'); [subst th'; apply Hth, HP|]. rewrite Hoth by congruence. apply HP.
Qed.
Definition R4 (s : sys) (o : obs) : Prop := Rc cs s o /\ Inv s o /\ Inv2 s o /\ Inv3 s.

Lemma R4_init ord : R4 (init cs ord) (obs0 cs).
Proof.
  split; [apply Rc_init|]. split; [apply Inv_init|]. split; [|apply Inv3_init]. constructor.
  - intros i x H. cbn in H. discriminate.
  - intros H. cbn in H. lia.
  - intros th. reflexivity.
Qed.

Lemma aft_ok_mono o o' i x x' xo xo' :
  (memN i (o_after_sd_spawn o) = true -> memN i (o_after_sd_spawn o') = true) ->
  (nl x = true -> nl x' = true) -> oai_le xo xo' -> (o_stopreq xo = true -> cpc (pc x') = true -> cpc (pc x) = true) ->
  aft_ok o i x xo -> aft_ok o' i x' xo'.
Proof.
  intros Hm Hn (Eb & Ei & Hs) Hc [H|[H|[[H1 H2]|[H1 H2]]]]; unfold aft_ok; auto.
  - right. right. left. split; congruence.
  - right. right. right. split; [auto|]. destruct (cpc (pc x')); [rewrite Hc in H2 by auto; discriminate|reflexivity].
Qed.

Lemma Inv2_flush th s o : Inv2 s o -> Inv2 (flush th s) o.
Proof.
  intros [HB HA HP]. constructor; [| |intros th'; destruct (flush_thread th s th') as (Ea & _); rewrite Ea; apply HP].
  - intros i x' Hx'. destruct (flush_bwd _ _ _ _ Hx') as (x & Hx & (_ & Ep & _)). rewrite flush_thinst, Ep. eauto.
  - intros Hsd i x' xo Hx' Hxo. destruct (flush_bwd _ _ _ _ Hx') as (x & Hx & (_ & Ep & _ & _ & _ & Hr & _)).
    eapply (aft_ok_mono o o i x x' xo xo); [auto|eapply nl_mono; eauto|apply oai_le_refl|rewrite Ep; auto|eauto].
Qed.

Lemma Inv2_refresh s o : Inv2 s o -> Inv2 s (refresh_succ o).
Proof.
  intros [HB HA HP]. constructor; [exact HB| |exact HP].
  intros Hsd i x xo' Hx Hxo'. rewrite refresh_get in Hxo'. destruct (get i (oi o)) as [xo|] eqn:Hxo; [|discriminate].
  cbn in Hxo'. injection Hxo' as <-.
  eapply (aft_ok_mono o (refresh_succ o) i x x xo); [auto|auto| |auto|apply HA; auto].
  destruct (_ && _); repeat split; auto.
Qed.

Lemma Inv2_own s o th e s' : Rc cs s o -> Inv s o -> Inv2 s o -> step_own s th e = Some s' ->
  W_C03 (obs_pre cs o (th, e)) = false -> Inv2 s' (obs_pre cs o (th, e)).
Proof.
  intros HRc HI [HB HA HP] H HW. pose proof (step_own_ev _ _ _ _ H) as Hev.
  destruct (step_own_mono _ _ _ _ H) as (i & x & x' & Hth & Hx & Hx' & Hoth & En & Ed & Er & Hg & Hnl & Hrp & Hbad & Hthr).
  destruct (step_own_cpc _ _ _ _ H) as [Eti Hcpc].
  constructor; [| |eapply c_api_core; [exact HP|rewrite step_core_own by exact Hev; exact H]].
  - intros j y' Hy'. rewrite Eti. destruct (N.eq_dec j i) as [->|Hne]; [right; eauto|]. rewrite (Hoth j Hne) in Hy'. eauto.
  - intros Hsd j y' yo' Hy' Hyo'.
    rewrite obs_pre_sd_done in Hsd by (destruct e; try discriminate Hev; exact I).
    assert (Hoai : obs_rel oai_le o (obs_pre cs o (th, e))) by (apply obs_pre_oai; destruct e; try discriminate Hev; exact I).
    destruct (obs_rel_bwd _ _ _ _ _ Hoai Hyo') as (yo & Hyo & L).
    assert (Haf : o_after_sd_spawn (obs_pre cs o (th, e)) = o_after_sd_spawn o)
      by (apply obs_pre_after; destruct e; try discriminate Hev; exact I).
    destruct (N.eq_dec j i) as [->|Hne].
    + assert (y' = x') by congruence. subst y'.
      eapply (aft_ok_mono o _ i x x' yo yo'); [rewrite Haf; auto|exact Hnl|exact L| |apply HA; auto].
      intros Hst Hc. destruct (Hcpc i x' Hth Hx' Hc) as [(x2 & Hx2 & Hc2)|Hev2]; [congruence|]. exfalso.
      assert (Hst' : o_stopreq (oi_get o i) = true) by (unfold oi_get; now rewrite Hyo).
      destruct Hev2 as [-> | ->]; cbn [obs_pre ev_inst fst snd] in HW; rewrite <- (rc_th _ _ _ HRc th), Hth in HW;
        rewrite late_commit_W in HW by exact Hst'; discriminate.
    + rewrite (Hoth j Hne) in Hy'.
      eapply (aft_ok_mono o _ j y' y' yo yo'); [rewrite Haf; auto|auto|exact L|auto|apply HA; auto].
Qed.

Lemma W_sdorder o th order : W_C03 (obs_pre cs o (th, EShutdownOrder order)) = false ->
  forall i, memN i order = true -> o_commit (oi_get o i) = false.
Proof.
  unfold W_C03. cbn. intros HW i Hi.
  assert (Hc : w_commit (fold_left (fun o i => oi_upd i (fun x => x <| o_stopreq := true |> <| o_insnap := true |>) o) order
                 (o <| w_commit := w_commit o || existsb (fun i => o_commit (oi_get o i)) order |>)) = false).
  { destruct (w_commit _); [discriminate|reflexivity]. }
  rewrite (fold_oi_upd_proj w_commit) in Hc by (intros; apply oi_upd_w_commit). cbn in Hc.
  apply orb_false_iff in Hc. destruct Hc as [_ Hc]. apply memN_In in Hi.
  exact (existsb_false_in _ _ Hc i Hi).
Qed.

Lemma Inv2_nonown s o th e s' : Rc cs s o -> Inv s o -> Inv2 s o -> step_core s th e = Some s' -> own_ev e = false ->
  W_C03 (obs_pre cs o (th, e)) = false -> escape_C03 o (th, e) = false -> Inv2 s' (obs_pre cs o (th, e)).
Proof.
  intros HRc HI [HB HA HP] H Hev HW Hesc.
  pose proof (step_core_thinst _ _ _ _ H Hev) as Hti. pose proof (step_core_cpc _ _ _ _ H Hev) as Hcp.
  constructor; [| |eapply c_api_core; eauto].
  - intros j x' Hx'.
    destruct (step_core_inst_bwd _ _ _ _ H Hev j x' Hx') as [(x & Hx & L)|(Hnx & n & c & -> & Hc & ->)].
    + destruct (Hcp j x x' Hx Hx') as [[Ep|Hown] _].
      * rewrite Ep. destruct (HB j x Hx) as [Hd|(t & Ht)]; [left; exact Hd|right; exists t; auto].
      * right. exists th. auto.
    + left. cbn. eauto.
  - intros Hsd j x' xo' Hx' Hxo'.
    destruct (step_core_inst_bwd _ _ _ _ H Hev j x' Hx') as [(x & Hx & L)|(Hnx & n & c & -> & Hc & ->)].
    + destruct L as (_ & _ & _ & _ & _ & Hnl). destruct (Hcp j x x' Hx Hx') as [_ Hcpc].
      destruct e; try discriminate Hev;
      try (rewrite obs_pre_sd_done in Hsd by exact I;
           match type of Hxo' with get _ (oi (obs_pre _ _ (_, ?ee))) = _ =>
             destruct (obs_rel_bwd _ _ _ _ _ (obs_pre_oai cs o th ee I) Hxo') as (xo & Hxo & Lo) end;
           eapply (aft_ok_mono o _ j x x' xo xo'); [rewrite obs_pre_after by exact I; auto|exact Hnl|exact Lo|auto|apply HA; auto]; fail).
      * (* ENewInst *)
        assert (Hji : j <> i).
        { intros ->. unfold step_core, step_reg in H. break_step H. unfold has in *. rewrite Hx in *. discriminate. }
        cbn in Hxo'. rewrite get_set_other in Hxo' by congruence.
        eapply (aft_ok_mono o _ j x x' xo' xo'); [|exact Hnl|apply oai_le_refl|auto|apply HA; auto].
        intros Hk. cbn. destruct (_ && _); [|exact Hk]. unfold memN in *. cbn. rewrite Hk. apply orb_true_r.
      * (* EShutdownOrder *)
        rewrite obs_pre_sd_done in Hsd by exact I.
        rewrite oi_sdorder in Hxo'. destruct (get j (oi o)) as [xo|] eqn:Hxo; [|discriminate]. cbn in Hxo'. injection Hxo' as <-.
        destruct (fold_snap_fields order j xo) as (Fb & Fin & Fout & Fs & _).
        pose proof (HA Hsd j x xo Hx Hxo) as Hold.
        destruct (memN j order) eqn:Hm.
        -- destruct (Fin eq_refl) as [Fst Fis].
           assert (Hnc : cpc (pc x') = false).
           { destruct (cpc (pc x')) eqn:Ec; [|reflexivity]. specialize (Hcpc eq_refl).
             pose proof (pi_commit _ _ _ (iv_inst _ _ HI j x xo Hx Hxo) Hcpc) as Hoc.
             pose proof (W_sdorder _ _ _ HW j Hm) as Hf. unfold oi_get in Hf. rewrite Hxo in Hf. congruence. }
           destruct Hold as [Hk|[Hk|_]].
           ++ left. rewrite obs_pre_after by exact I. exact Hk.
           ++ right. left. auto.
           ++ right. right. right. split; [exact Fst|exact Hnc].
        -- rewrite (Fout eq_refl).
           eapply (aft_ok_mono o _ j x x' xo xo); [rewrite obs_pre_after by exact I; auto|exact Hnl|apply oai_le_refl|auto|exact Hold].
      * (* EShutdownEnd *)
        cbn in Hxo'. destruct (sdend_guard _ _ _ H) as (order & Hdp & Had).
        pose proof (iv_sd _ _ HI th order Hdp) as Hcur. pose proof (iv_inst _ _ HI j x xo' Hx Hxo') as P.
        destruct (memN j order) eqn:Hm.
        -- right. left. apply Hnl. destruct (all_done_in _ _ _ Had Hm) as (x2 & Hx2 & Hd2). assert (x2 = x) by congruence. subst x2.
           exact (pi_done _ _ _ P Hd2).
        -- unfold escape_C03 in Hesc. cbn [fst snd] in Hesc.
           pose proof (existsb_false_in _ _ Hesc (j, xo') (get_in _ _ _ Hxo')) as He. cbn in He.
           unfold snap_of in He. rewrite Hcur, Hm in He. cbn in He.
           destruct (o_gone xo') eqn:Hg; cbn in He.
           ++ right. left. apply Hnl, gonepc_nl, (pi_gone _ _ _ P Hg).
           ++ apply negb_false_iff in He. unfold excused in He.
              apply andb_true_iff in He. destruct He as [He1 He2]. apply negb_true_iff in He2.
              right. right. left. auto.
    + (* the new instance *) left. cbn in Hsd |- *. unfold escape_C03, is_run in Hesc. cbn [fst snd] in Hesc.
      pose proof (HP th) as Ha. unfold step_core, step_reg in H. break_step H. unfold creates in *.
      destruct (o_sd_done o) as [|k]; [lia|]. cbn in Hesc.
      destruct (apc (get_thread s th)); try discriminate; cbn in Ha;
      destruct (get th (o_api o)) as [[]|]; cbn in Hesc, Ha; try discriminate; cbn; now rewrite N.eqb_refl.
Qed.

(* ---- one step --------------------------------------------------------------------------------------------------------- *)
Lemma R4_step s o th e s' : R4 s o -> step s (th, e) = Some s' ->
  W_C03 (obs_step cs o (th, e)) = false -> escape_C03 o (th, e) = false -> R4 s' (obs_step cs o (th, e)).
Proof.
  intros (HRc & HI & HI2 & HI3) H HW Hesc. split; [eapply Rc_step; eauto|].
  rewrite obs_step_pre in *. unfold step in H. cbn [fst snd] in H.
  assert (HRc0 : Rc cs (flush th s) o) by (eapply Rc_sys_same; eauto using sys_same_flush).
  assert (HI0 : Inv (flush th s) o) by now apply Inv_flush.
  assert (HI20 : Inv2 (flush th s) o) by now apply Inv2_flush.
  assert (Hpn : pend (get_thread (flush th s) th) = None).
  { destruct (flush_thread th s th) as (_ & _ & _ & Ep). rewrite Ep, N.eqb_refl. reflexivity. }
  split; [|split].
  - apply Inv_refresh. eapply (Inv_core cs (flush th s)); eauto.
  - apply Inv2_refresh. destruct (own_ev e) eqn:Hev.
    + rewrite step_core_own in H by exact Hev. eapply Inv2_own; eauto.
    + eapply Inv2_nonown; eauto.
  - eapply (Inv3_core (flush th s) o); eauto. now apply Inv3_flush.
Qed.

(* ---- the monitor ------------------------------------------------------------------------------------------------------- *)
Lemma mon_core s o th e s' : Rc cs s o -> Inv s o -> Inv2 s o -> Inv3 s -> step_core s th e = Some s' ->
  mon_C03 cs o (th, e) = true.
Proof.
  intros HRc HI [HB HA HP] I3 H. unfold mon_C03. cbn [fst snd].
  destruct e; try reflexivity; try (destruct (ev_inst o th _); reflexivity).
  - (* ELaunch *)
    destruct ok; [|try reflexivity; cbn; destruct (get th (o_th o)); reflexivity].
    cbn [ev_inst]. rewrite <- (rc_th _ _ _ HRc th).
    cbn in H. unfold step_own, own_inst in H.
    destruct (get th (thinst s)) as [i|] eqn:Et; [|discriminate]. destruct (get i (insts s)) as [x|] eqn:Ex; [|discriminate].
    destruct (pc x) eqn:Ep; try discriminate H.
    destruct (Nat.ltb 0 (o_sd_done o)) eqn:Hsd; [|reflexivity]. apply Nat.ltb_lt in Hsd.
    destruct (rc_inst _ _ _ HRc i x Ex) as (xo & Hxo & _).
    destruct (HA Hsd i x xo Ex Hxo) as [Hm|[Hn|[[H1 H2]|[H1 H2]]]].
    + rewrite Hm. reflexivity.
    + unfold nl in Hn. rewrite Ep in Hn. discriminate.
    + unfold oi_get. rewrite Hxo, H1, H2. apply orb_true_r.
    + rewrite Ep in H2. discriminate.
  - (* EShutdownEnd *)
    destruct (sdend_guard _ _ _ H) as (order & Hdp & Had).
    pose proof (iv_sd _ _ HI th order Hdp) as Hcur. rewrite Hcur.
    apply forallb_forall. intros i Hi. apply memN_In in Hi.
    destruct (all_done_in _ _ _ Had Hi) as (x & Hx & Hd).
    destruct (rc_inst _ _ _ HRc i x Hx) as (xo & Hxo & Hnm & Hcf & _).
    pose proof (iv_inst _ _ HI i x xo Hx Hxo) as P. unfold oi_get. rewrite Hxo.
    pose proof (pi_done _ _ _ P Hd) as Hnl.
    apply andb_true_iff. split.
    + rewrite (pi_alive _ _ _ P). destruct (alive x) eqn:Ea; [|reflexivity].
      pose proof (pi_pc _ _ _ P) as B. rewrite Ea in B. specialize (B eq_refl). rewrite (nl_not_alive _ Hnl) in B. discriminate.
    + destruct (rc_name _ _ _ HRc _ _ Hcf) as (v & r & Hv & Hr & _ & Hst & _).
      rewrite Hnm. unfold on_get. rewrite Hr, Hst.
      destruct (is_running_status (st v)) eqn:Hrun; [|reflexivity]. exfalso.
      destruct (iv_run _ _ HI _ _ Hv Hrun) as (j & y & Hy & _ & Hdy & Hrp).
      destruct (memN j order) eqn:Hm.
      * destruct (all_done_in _ _ _ Had Hm) as (y2 & Hy2 & Hd2). congruence.
      * (* an unfinished instance in its launch cycle is active and not gone: it is in the snapshot *)
        assert (Hact : act s j).
        { destruct (HB j y Hy) as [(t & Hpt)|(t & Ht)]; [rewrite Hpt in Hrp; discriminate|right; eauto]. }
        rewrite (iv_snap _ I3 th order Hdp j y Hy Hact (run_not_gone _ Hrp)) in Hm. discriminate.
Qed.

Lemma R4_step_mon s o e s' : R4 s o -> step s e = Some s' ->
  W_C03 (obs_step cs o e) = false -> escape_C03 o e = false -> R4 s' (obs_step cs o e) /\ mon_C03 cs o e = true.
Proof.
  destruct e as [th e]. intros HR H HW Hesc. split; [eapply R4_step; eauto|].
  destruct HR as (HRc & HI & HI2 & HI3). unfold step in H. cbn [fst snd] in H.
  eapply (mon_core (flush th s)); eauto.
  - eapply Rc_sys_same; eauto using sys_same_flush.
  - now apply Inv_flush.
  - now apply Inv2_flush.
  - now apply Inv3_flush.
Qed.
End RelC03b.

(* ---- the theorem -------------------------------------------------------------------------------------------------------- *)
Theorem C03_partial_lemma : forall cs ord evs s,
  accept (init cs ord) evs = Some s ->
  W_C03 (final_obs cs evs) = false ->
  escapes_C03 cs evs = false ->
  holds_C03 cs evs = true.
Proof.
  intros cs ord evs s Hacc HW Hesc. unfold holds_C03.
  apply (xsim_holds cs ord (R4 cs) (mon_C03 cs) W_C03 escape_C03 (R4_init cs ord) (R4_step_mon cs) (W_C03_mono cs) evs s Hacc HW Hesc).
Qed.
Print Assumptions C03_partial_lemma.

