(* C03, second part: the clauses of the relation that depend on the "nobody escaped the snapshot" hypothesis,
   the monitor check and the theorems.  (RelC03.v: the five clauses that only need the window flags.) *)
From Coq Require Import List ZArith NArith Bool Lia.
From RecordUpdate Require Import RecordSet.
From PC.Base Require Import Assoc.
From PC.Sup Require Import Model Monitors Tactics Sim ObsFacts Effects RelCore LemC03 RelC03.
Import ListNotations RecordSetNotations.

(* ---- the second hypothesis --------------------------------------------------------------------------------------- *)
(* evaluated on the observer state BEFORE the event:
   (1) an instance is created after a completed shutdown by Run()'s spawn loop or outside any API call;
   (2) when a shutdown returns, there is an instance outside its snapshot whose goroutine has not reached
       inst_exit and that is not "excused".  Excused = created by an explicit StartProcess/RestartProcess, never
       in a shutdown snapshot, and no goroutine has begun it yet (the API call is still on its way to register it:
       the snapshot is the registry content, the registry lock is held until the shutdown has returned). *)
Definition byapi_of (o : obs) (th : tid) : bool :=
  match get th (o_api o) with Some OpRun | None => false | Some _ => true end.
Definition snap_of (o : obs) (th : tid) : list iid := match get th (o_sd_cur o) with Some l => l | None => [] end.
Definition begun (o : obs) (i : iid) : bool := existsb (fun q => N.eqb (snd q) i) (o_th o).
Definition excused (o : obs) (i : iid) (xo : oinst) : bool := o_byapi xo && negb (o_insnap xo) && negb (begun o i).
Definition escape_C03 (o : obs) (te : tid * event) : bool :=
  match snd te with
  | ENewInst i n => Nat.ltb 0 (o_sd_done o) && negb (byapi_of o (fst te))
  | EShutdownEnd => existsb (fun p => negb (memN (fst p) (snap_of o (fst te))) && negb (o_gone (snd p)) &&
                                      negb (excused o (fst p) (snd p))) (oi o)
  | _ => false
  end.
Definition escapes_C03 (cs : amap pconf) (evs : list (tid * event)) : bool := bad_run cs escape_C03 (obs0 cs) evs.

(* ---- model: who moves a program counter --------------------------------------------------------------------------- *)
Lemma step_own_cpc s th e s' : step_own s th e = Some s' ->
  thinst s' = thinst s /\
  forall i x x', get th (thinst s) = Some i -> get i (insts s) = Some x -> get i (insts s') = Some x' ->
    cpc (pc x') = true -> cpc (pc x) = true \/ e = ERunChecked false \/ e = EBackoffElapsed.
Proof.
  intros H. destruct e; try (unfold step_own in H; destruct (own_inst s th) as [[? ?]|]; [destruct (pc _)|]; discriminate H).
  all: kind_cases H.
  all: split; [unfold set_pc; autorewrite with sup; reflexivity|].
  all: intros i' x x' Hth Hx Hx'.
  all: match goal with E : get _ (thinst _) = Some ?i |- _ => rewrite E in Hth; injection Hth as <- end.
  all: match goal with E' : get ?i (insts _) = Some ?y |- _ => rewrite E' in Hx; injection Hx as <- end.
  all: unfold set_pc in Hx'; autorewrite with sup in Hx'; rewrite ?N.eqb_refl in Hx';
       match goal with E' : get ?i (insts _) = Some ?y |- _ => rewrite ?E' in Hx' end; cbn in Hx'; injection Hx' as <-.
  all: repeat match goal with |- context[if ?b then _ else _] => is_var b; destruct b end.
  all: try match goal with |- context[match ?b with Some _ => _ | None => _ end] => is_var b; destruct b end.
  all: cbn; rewrite ?E1; cbn; auto; try (intros; discriminate).
  destruct (bad_dir (cf _)); cbn; auto; intros; discriminate.
Qed.

Lemma step_core_cpc s th e s' : step_core s th e = Some s' -> own_ev e = false ->
  (forall t j, get t (thinst s) = Some j -> get t (thinst s') = Some j) /\
  forall j x x', get j (insts s) = Some x -> get j (insts s') = Some x' ->
    (pc x' = pc x \/ get th (thinst s) = Some j) /\ (cpc (pc x') = true -> cpc (pc x) = true).
Proof.
  intros H Hev. destruct (frame_ev e) eqn:Hf.
  { split.
    - intros t j Ht. unfold step_core in H. destruct e; try discriminate Hf; kind_cases H;
      unfold set_pc, end_finish; cbn; autorewrite with sup;
      repeat match goal with |- context[if ?b then _ else _] => is_var b; destruct b end; autorewrite with sup; try exact Ht.
      all: try (rewrite (fold_upd_inst_proj thinst) by (intros; apply upd_inst_thinst); exact Ht).
      cbn. rewrite get_set. destruct (N.eqb_spec th t); [subst; unfold has in *; rewrite Ht in *; discriminate|exact Ht].
    - intros j x x' Hx Hx'. destruct (csame_fwd _ _ _ _ (step_core_csame _ _ _ _ Hf H) Hx) as (x2 & Hx2 & (_ & Ep & _)).
      assert (x2 = x') by congruence. subst x2. rewrite Ep. auto. }
  unfold step_core in H. destruct e; try discriminate Hev; try discriminate Hf; kind_cases H.
  all: split; [intros t j Ht; unfold set_pc, end_finish; cbn; autorewrite with sup;
               repeat match goal with |- context[if ?b then _ else _] => is_var b; destruct b end; autorewrite with sup; exact Ht|].
  all: intros j x x' Hx Hx'; unfold set_pc, end_finish in Hx'; cbn in Hx'; autorewrite with sup in Hx'.
  all: repeat match type of Hx' with context[if ?b then _ else _] => is_var b; destruct b end; autorewrite with sup in Hx'.
  all: try rewrite get_set in Hx'.
  all: repeat match type of Hx' with context[N.eqb ?a ?b] => destruct (N.eqb_spec a b); [subst b|] end.
  all: try (assert (x' = x) by congruence; subst x'; auto; fail).
  all: try match goal with E : get ?i (insts _) = Some ?y, Hx : get ?i (insts _) = Some ?x |- _ => rewrite E in Hx; injection Hx as <- end.
  all: try match goal with E : get ?i (insts _) = Some ?y |- _ => rewrite ?E in Hx' end; cbn in Hx'; try (injection Hx' as <-).
(*STOP*)
