(* C02 simulation: status writes and entry of onProcessEnd (heavy). *)
From Coq Require Import List ZArith NArith Bool Lia.
From RecordUpdate Require Import RecordSet.
From PC.Base Require Import Assoc.
From PC.Sup Require Import Model Monitors Tactics Sim ObsFacts Effects RelCore LemC02 RelC02defs.
Import ListNotations RecordSetNotations.

Section D.
Context (cs : amap pconf).

Lemma P2all_state s o th i s0 s' : Rc cs s o -> Ro o -> Rz s o -> P2all s o -> step_state s th i s0 = Some s' ->
  P2all s' (obs_step cs o (th, EState i s0)).
Proof.
  intros HRc HRo HRz HP H. pose proof (wkeep_step cs o (th, EState i s0)) as Hwk.
  pose proof (obs_step_keep cs o th (EState i s0) eq_refl) as Hk.
  set (o' := obs_step cs o (th, EState i s0)) in *. clearbody o'.
  unfold step_state in H. destruct (get i (insts s)) as [x|] eqn:Ex; [|discriminate]. cbv zeta in H.
  destruct (vis_exists cs _ _ _ _ HRc Ex) as (v & Ev).
  assert (Hgen : (if status_eqb s0 SPending
                  then check negb (opt_eqb N.eqb (get th (thinst s)) (Some i)) && negb (has i (map (fun p => (snd p, tt)) (thinst s)))
                             && (match pc x with IDeps _ => true | _ => false end);
                       check at_stage s th i 0;
                       Some (set_stage th i 1 (write_status (nm x) SPending s))
                  else check opt_eqb N.eqb (get th (thinst s)) (Some i);
                       match pc x with
                       | IPreLaunch => check status_eqb s0 SRunning; Some (set_pc i IStateSet (write_status (nm x) SRunning s))
                       | IWillRestart c => check status_eqb s0 SRestarting;
                                           Some (set_pc i (IRestarting c) (write_status (nm x) SRestarting s))
                       | IInEnd s1 c false => check status_eqb s0 s1; Some (set_pc i (IInEnd s1 c true) (end_finish i (nm x) s1 s))
                       | _ => None
                       end) = Some s' -> P2all s' o').
  { clear H. intros H. break_step H; subst s'; split_andb.
    - (* spawn: Pending *)
      intros j y' yo' Hy' Hyo'. unfold set_stage in Hy'. rewrite insts_set_stage, write_status_insts in Hy'. destruct (N.eqb_spec j i) as [->|Hji].
      + assert (y' = x) by congruence. subst y'. destruct (Hk i yo' Hyo') as (xo & Exo & Ok).
        eapply P2_frame2; [apply (HP _ _ _ Ex Exo)|apply ikeep_refl|exact Ok|unfold set_stage; rewrite vis_of_set_stage, restarts_write_status; lia|exact Hwk|].
        intros _ Hl. destruct (pc x); discriminate.
      + eapply (P2all_status_others cs s o _ o' i x (nm x) SPending); eauto using ikeep_refl.
        * left. match goal with Ea : at_stage s th i 0 = true |- _ =>
            unfold at_stage in Ea; destruct (get i (stage s)) as [[t0 k0]|]; [|discriminate Ea];
            apply andb_true_iff in Ea; destruct Ea as [_ Ea]; apply Nat.eqb_eq in Ea; subst k0; eauto end.
        * intros m. unfold set_stage. rewrite vis_of_set_stage. apply st_write_status.
        * intros m. unfold set_stage. rewrite vis_of_set_stage. apply restarts_write_status.
    - (* Running *)
      intros j y' yo' Hy' Hyo'. unfold set_pc in Hy'. autorewrite with sup in Hy'. destruct (N.eqb_spec i j) as [<-|Hji].
      + rewrite Ex in Hy'. cbn in Hy'. injection Hy' as <-. inst_i_tac HP Ex Hk i. all: state_fin Hwk Ev.
      + eapply (P2all_status_others cs s o _ o' i x (nm x) SRunning); eauto using ikeep_refl.
        * right; discriminate.
        * intros m. unfold set_pc. autorewrite with sup. apply st_write_status.
        * intros m. unfold set_pc. autorewrite with sup. apply restarts_write_status.
    - (* Restarting *)
      intros j y' yo' Hy' Hyo'. unfold set_pc in Hy'. autorewrite with sup in Hy'. destruct (N.eqb_spec i j) as [<-|Hji].
      + rewrite Ex in Hy'. cbn in Hy'. injection Hy' as <-. inst_i_tac HP Ex Hk i. all: state_fin Hwk Ev.
        intros c0 [[=]|[[= <-]|[=]]]. apply (Pdecided c). now left.
      + eapply (P2all_status_others cs s o _ o' i x (nm x) SRestarting); eauto using ikeep_refl.
        * right; discriminate.
        * intros m. unfold set_pc. autorewrite with sup. apply st_write_status.
        * intros m. unfold set_pc. autorewrite with sup. apply restarts_write_status.
    - (* the terminal status inside onProcessEnd *)
      apply status_eqb_eq in E3. subst s0.
      intros j y' yo' Hy' Hyo'. unfold set_pc, end_finish in Hy'. autorewrite with sup in Hy'. destruct (N.eqb_spec i j) as [<-|Hji].
      + rewrite Ex in Hy'. cbn in Hy'. injection Hy' as <-. inst_i_tac HP Ex Hk i. all: unfold end_finish; state_fin Hwk Ev.
        intros c0 [[=]|[b0 Hb0]]. injection Hb0 as -> <-. destruct (Pgaveup c) as (A & B); [right; eauto|]. split; [exact A|].
        unfold GaveUp in *. cbn. autorewrite with sup. rewrite restarts_write_status, ?Ob. exact B.
        intros s2 c0 [[=]|[b0 Hb0]]. injection Hb0 as <- <- _. apply (Ps1 s1 c). right. eauto.
      + eapply (P2all_status_others cs s o _ o' i x (nm x) s1); eauto using ikeep_refl.
        * right. destruct (rc_inst _ _ _ HRc _ _ Ex) as (xo9 & Exo9 & _).
          apply (p_s1 _ _ _ _ (HP _ _ _ Ex Exo9) s1 c). right. eexists. eassumption.
        * intros m. unfold set_pc, end_finish. autorewrite with sup. apply st_write_status.
        * intros m. unfold set_pc, end_finish. autorewrite with sup. apply restarts_write_status. }
  destruct (spc (get_thread s th)) eqn:Es; try (apply Hgen; exact H).
  - (* SRun: stopProcess writes Terminating *)
    break_step H. subst s'. eapply P2all_frame; [exact HP| |exact Hk|exact Hwk].
    destruct cancel; sback_close.
  - (* SPendE *)
    break_step H. subst s'. eapply P2all_frame; [exact HP| |exact Hk|exact Hwk]. sback_close.
Qed.

Ltac s1_tac :=
  let Hc := fresh "Hc" in intros ? ? Hc; cbn in Hc; destruct Hc as [Hc|[? Hc]]; try discriminate Hc; inversion Hc; subst;
  match goal with P : forall s1 c, _ \/ _ -> s1 <> SPending |- _ => eapply P; solve [left; reflexivity|right; eexists; reflexivity] end.

Lemma P2all_procend_entry s o th i s0 s' : Rc cs s o -> Rt s o -> Rs s o -> P2all s o -> step_procend s th i s0 true = Some s' ->
  P2all s' (obs_step cs o (th, EProcEnd i s0)).
Proof.
  intros HRc HRt HRs HP H. pose proof (wkeep_step cs o (th, EProcEnd i s0)) as Hwk.
  pose proof (procend_shape cs o th i s0) as Hshape.
  set (o' := obs_step cs o (th, EProcEnd i s0)) in *. clearbody o'.
  unfold step_procend in H. destruct (get i (insts s)) as [x|] eqn:Ex; [|discriminate]. cbv zeta in H.
  assert (Hown : opt_eqb N.eqb (get th (thinst s)) (Some i) = opt_eqb N.eqb (get th (o_th o)) (Some i))
    by now rewrite (rc_th _ _ _ HRc).
  assert (Hsp : spc (get_thread s th) = SPend i -> o_stopreq (oi_get o i) = true) by (apply (rt_spend _ _ HRt)).
  break_step H; subst s'; split_andb; repeat match goal with Hq : i = ?k |- _ => subst k end;
    comb_tac2 HP i Ex Hshape Hwk; comb_fin Hwk; try (gaveup_tac; fail); try (s1_tac; fail).
  - assert (Hsr : o_stopreq xo0 = true) by (rewrite <- (oi_get_some _ _ _ Exo); apply Hsp; reflexivity).
    intros Hc. exfalso. rewrite Pstop in Hc by assumption. discriminate.
  - assert (Hsr : o_stopreq xo0 = true) by (rewrite <- (oi_get_some _ _ _ Exo); apply Hsp; reflexivity).
    intros c Hc. destruct (Pgaveup c Hc) as (A & B). split; [exact A|]. left. congruence.
  - assert (Hsr : o_stopreq xo0 = true) by (rewrite <- (oi_get_some _ _ _ Exo); apply Hsp; reflexivity).
    intros _. now left.
Qed.

End D.
