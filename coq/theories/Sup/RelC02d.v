(* C02 simulation, part 4: status writes, onProcessEnd, stop requests, new instances, command exits. *)
From Coq Require Import List ZArith NArith Bool Lia.
From RecordUpdate Require Import RecordSet.
From PC.Base Require Import Assoc.
From PC.Sup Require Import Model Monitors Tactics Sim ObsFacts Effects RelCore LemC02 RelC02t RelC02b RelC02c.
Import ListNotations RecordSetNotations.

Lemma P2_frame2 s o x xo s' o' x' xo' :
  P2 s o x xo -> ikeep x x' -> okeep xo xo' -> restarts (vis_of s (nm x)) <= restarts (vis_of s' (nm x)) -> wkeep o o' ->
  (W4 o' = false -> launched_pc (pc x) = true -> st (vis_of s' (nm x)) <> SPending) -> P2 s' o' x' xo'.
Proof.
  intros [] (I1 & I2 & I3 & I4 & I5 & I6 & I7 & I8) (O1 & O2 & O3 & O4 & O5 & O6) V1 (Wa & Wb) Hst.
  constructor; unfold Pok, GaveUp in *; rewrite ?I1, ?I2, ?I3, ?I4, ?I5, ?I6, ?I7, ?I8, ?O1, ?O2, ?O3, ?O4, ?O5, ?O6; auto.
  - intros c Hc. destruct (p_gaveup c Hc) as (A & B). split; [exact A|].
    destruct B as [B|[B|[B1 B2]]]; auto. right; right. split; [exact B1|lia].
  - destruct p_restarts as [A B]. split; [lia|]. intros Hr. specialize (B Hr). lia.
Qed.

Lemma st_write_status n s0 s m :
  st (vis_of (write_status n s0 s) m) =
  if N.eqb n m then match get m (viss s) with Some _ => s0 | None => SPending end else st (vis_of s m).
Proof.
  unfold write_status. rewrite vis_of_upd_vis. destruct (N.eqb n m); [|reflexivity]. unfold vis_of.
  destruct (get m (viss s)); [|reflexivity]. destruct s0; reflexivity.
Qed.
Lemma restarts_write_status n s0 s m : restarts (vis_of (write_status n s0 s) m) = restarts (vis_of s m).
Proof.
  unfold write_status. rewrite vis_of_upd_vis. destruct (N.eqb n m); [|reflexivity]. unfold vis_of.
  destruct (get m (viss s)); [|reflexivity]. destruct s0; reflexivity.
Qed.

Lemma keep_shape o o' i : oback okeep o o' -> forall j xo', get j (oi o') = Some xo' ->
  exists xo, get j (oi o) = Some xo /\ okeep (if N.eqb i j then xo else xo) xo'.
Proof. intros H j xo' Hj. destruct (H j xo' Hj) as (xo & E & K). exists xo. split; [exact E|]. now destruct (N.eqb i j). Qed.

Section D.
Context (cs : amap pconf).

Lemma vis_exists s o i x : Rc cs s o -> get i (insts s) = Some x -> exists v, get (nm x) (viss s) = Some v.
Proof.
  intros HRc Ex. destruct (rc_inst _ _ _ HRc _ _ Ex) as (xo & _ & _ & Hcf & _).
  destruct (rc_name _ _ _ HRc _ _ Hcf) as (v & r & Ev & _). eauto.
Qed.

(* outside the dup/zombie windows a name has at most one instance that has not left *)
Lemma other_launched_absurd s o i j x y : Rc cs s o -> Rd o -> P2all s o -> W4 o = false -> i <> j ->
  get i (insts s) = Some x -> get j (insts s) = Some y -> nm x = nm y ->
  gone_pc (pc x) = false -> launched_pc (pc y) = true -> False.
Proof.
  intros HRc HRd HP HW Hij Ex Ey Hn Hgx Hly.
  destruct (rc_inst _ _ _ HRc _ _ Ex) as (xo & Exo & Nx & _). destruct (rc_inst _ _ _ HRc _ _ Ey) as (yo & Eyo & Ny & _).
  assert (Hd : w_dup o = false /\ w_zombie o = false).
  { unfold W4 in HW. destruct (w_commit o), (w_sdlag o), (w_dup o), (w_zombie o); try discriminate; auto. }
  destruct Hd as [Hd Hz].
  destruct (HRd Hd Hz i j xo yo Hij Exo Eyo) as [[_ G]|[_ G]]; [congruence| |].
  - apply (p_gone _ _ _ _ (HP _ _ _ Ex Exo)) in G. congruence.
  - apply (p_gone _ _ _ _ (HP _ _ _ Ey Eyo)) in G. destruct (pc y); discriminate.
Qed.

(* ---- status writes -------------------------------------------------------------------------------------- *)
Lemma P2all_status_others s o s' o' i x n s0 :
  Rc cs s o -> Rd o -> P2all s o -> wkeep o o' -> oback okeep o o' ->
  get i (insts s) = Some x -> n = nm x -> (gone_pc (pc x) = false \/ s0 <> SPending) ->
  (forall m, st (vis_of s' m) = if N.eqb n m then match get m (viss s) with Some _ => s0 | None => SPending end else st (vis_of s m)) ->
  (forall m, restarts (vis_of s' m) = restarts (vis_of s m)) ->
  forall j y y' yo', j <> i -> get j (insts s) = Some y -> ikeep y y' -> get j (oi o') = Some yo' -> P2 s' o' y' yo'.
Proof.
  intros HRc HRd HP Hwk Hk Ex -> Hor Hst Hres j y y' yo' Hji Ey Ik Eyo'.
  destruct (Hk j yo' Eyo') as (yo & Eyo & Ok).
  eapply P2_frame2; [apply (HP _ _ _ Ey Eyo)|exact Ik|exact Ok|rewrite Hres; lia|exact Hwk|].
  intros Hw Hl. rewrite Hst. destruct (N.eqb_spec (nm x) (nm y)) as [En|En].
  - destruct (vis_exists _ _ _ _ HRc Ey) as (v & ->). destruct Hor as [Hg|Hs0]; [|exact Hs0].
    exfalso. eapply (other_launched_absurd s o i j x y); eauto. apply Hwk, Hw.
  - apply (p_status _ _ _ _ (HP _ _ _ Ey Eyo)); [apply Hwk, Hw|exact Hl].
Qed.

Ltac inst_i_tac HP Ex Hk i :=
  (* goal: P2 s' o' x' xo' for the acting instance i, with x' an update of x *)
  match goal with Hxo : get i (oi ?o') = Some ?xo' |- _ =>
    let xo := fresh "xo" in let Exo := fresh "Exo" in let Ok := fresh "Ok" in let HPx := fresh "HPx" in
    destruct (Hk i xo' Hxo) as (xo & Exo & Ok); pose proof (HP _ _ _ Ex Exo) as HPx;
    destruct HPx as [Pcommit Pstop Pexited Palive Pcode Pdecided Prelaunch Pgaveup Prestarts Ppre Pfstopped Prunctx Pendst Pgone Pnostop Pstatus];
    okeep_use Ok; constructor
  end.

Lemma P2all_state s o th i s0 s' : Rc cs s o -> Rd o -> P2all s o -> step_state s th i s0 = Some s' ->
  P2all s' (obs_step cs o (th, EState i s0)).
Proof.
  intros HRc HRd HP H. pose proof (wkeep_step cs o (th, EState i s0)) as Hwk.
  pose proof (obs_step_keep cs o th (EState i s0) eq_refl) as Hk.
  set (o' := obs_step cs o (th, EState i s0)) in *. clearbody o'.
  unfold step_state in H. destruct (get i (insts s)) as [x|] eqn:Ex; [|discriminate]. cbv zeta in H.
  destruct (vis_exists _ _ _ _ HRc Ex) as (v & Ev).
  assert (Hgen : (if status_eqb s0 SPending
                  then check negb (opt_eqb N.eqb (get th (thinst s)) (Some i)) && negb (has i (map (fun p => (snd p, tt)) (thinst s)))
                             && (match pc x with IDeps _ => true | _ => false end);
                       Some (write_status (nm x) SPending s)
                  else check opt_eqb N.eqb (get th (thinst s)) (Some i);
                       match pc x with
                       | IPreLaunch => check status_eqb s0 SRunning; Some (set_pc i IStateSet (write_status (nm x) SRunning s))
                       | IWillRestart c => check status_eqb s0 SRestarting;
                                           Some (set_pc i (IRestarting c) (write_status (nm x) SRestarting s))
                       | IInEnd s1 c false => check status_eqb s0 s1; Some (set_pc i (IInEnd s1 c true) (end_finish i (nm x) s1 s))
                       | _ => None
                       end) = Some s' -> P2all s' o').
  { clear H. intros H. break_step H; subst s'; split_andb.
    - (* spawn: Pending *)
      intros j y' yo' Hy' Hyo'. rewrite write_status_insts in Hy'. destruct (N.eqb_spec j i) as [->|Hji].
      + assert (y' = x) by congruence. subst y'. destruct (Hk i yo' Hyo') as (xo & Exo & Ok).
        eapply P2_frame2; [apply (HP _ _ _ Ex Exo)|apply ikeep_refl|exact Ok|rewrite restarts_write_status; lia|exact Hwk|].
        intros _ Hl. destruct (pc x); discriminate.
      + eapply (P2all_status_others s o _ o' i x (nm x) SPending); eauto using ikeep_refl.
        * left. destruct (pc x); try discriminate; reflexivity.
        * intros m. apply st_write_status.
        * intros m. apply restarts_write_status.
    - (* Running *)
      intros j y' yo' Hy' Hyo'. unfold set_pc in Hy'. autorewrite with sup in Hy'. destruct (N.eqb_spec i j) as [<-|Hji].
      + rewrite Ex in Hy'. cbn in Hy'. injection Hy' as <-. inst_i_tac HP Ex Hk i.
        all: unfold set_pc; autorewrite with sup; rewrite ?st_write_status, ?restarts_write_status, ?N.eqb_refl, ?Ev.
        all: match goal with E : pc _ = _ |- _ => rewrite E in * end.
        all: try (p2_clause; fail).
(*STOP*)
End D.
