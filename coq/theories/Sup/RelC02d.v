(* C02 simulation, part 4: status writes, onProcessEnd, stop requests, new instances, command exits. *)
From Coq Require Import List ZArith NArith Bool Lia.
From RecordUpdate Require Import RecordSet.
From PC.Base Require Import Assoc.
From PC.Sup Require Import Model Monitors Tactics Sim ObsFacts Effects RelCore LemC02 RelC02t RelC02b RelC02c.
Import ListNotations RecordSetNotations.

Lemma P2_frame2 s o x xo s' o' x' xo' :
  P2 s o x xo -> ikeep x x' -> okeep xo xo' -> restarts (vis_of s (nm x)) <= restarts (vis_of s' (nm x)) -> wkeep o o' ->
  (W4 o' = false -> launched_pc (pc x) = true -> st (vis_of s' (nm x)) <> SPending) -> P2 s' o' x' xo'.
Proof.
  intros [] (I1 & I2 & I3 & I4 & I5 & I6 & I7 & I8) (O1 & O2 & O3 & O4 & O5 & O6) V1 (Wa & Wb) Hst.
  constructor; unfold Pok, GaveUp in *; rewrite ?I1, ?I2, ?I3, ?I4, ?I5, ?I6, ?I7, ?I8, ?O1, ?O2, ?O3, ?O4, ?O5, ?O6; auto.
  - intros c Hc. destruct (p_gaveup c Hc) as (A & B). split; [exact A|].
    destruct B as [B|[B|[B1 B2]]]; auto. right; right. split; [exact B1|lia].
  - destruct p_restarts as [A B]. split; [lia|]. intros Hr. specialize (B Hr). lia.
Qed.

Lemma st_write_status n s0 s m :
  st (vis_of (write_status n s0 s) m) =
  if N.eqb n m then match get m (viss s) with Some _ => s0 | None => SPending end else st (vis_of s m).
Proof.
  unfold write_status. rewrite vis_of_upd_vis. destruct (N.eqb n m); [|reflexivity]. unfold vis_of.
  destruct (get m (viss s)); [|reflexivity]. destruct s0; reflexivity.
Qed.
Lemma restarts_write_status n s0 s m : restarts (vis_of (write_status n s0 s) m) = restarts (vis_of s m).
Proof.
  unfold write_status. rewrite vis_of_upd_vis. destruct (N.eqb n m); [|reflexivity]. unfold vis_of.
  destruct (get m (viss s)); [|reflexivity]. destruct s0; reflexivity.
Qed.

Lemma keep_shape o o' i : oback okeep o o' -> forall j xo', get j (oi o') = Some xo' ->
  exists xo, get j (oi o) = Some xo /\ okeep (if N.eqb i j then xo else xo) xo'.
Proof. intros H j xo' Hj. destruct (H j xo' Hj) as (xo & E & K). exists xo. split; [exact E|]. now destruct (N.eqb i j). Qed.

Section D.
Context (cs : amap pconf).

Lemma vis_exists s o i x : Rc cs s o -> get i (insts s) = Some x -> exists v, get (nm x) (viss s) = Some v.
Proof.
  intros HRc Ex. destruct (rc_inst _ _ _ HRc _ _ Ex) as (xo & _ & _ & Hcf & _).
  destruct (rc_name _ _ _ HRc _ _ Hcf) as (v & r & Ev & _). eauto.
Qed.

(* outside the dup/zombie windows a name has at most one instance that has not left *)
Lemma other_launched_absurd s o i j x y : Rc cs s o -> Rd o -> P2all s o -> W4 o = false -> i <> j ->
  get i (insts s) = Some x -> get j (insts s) = Some y -> nm x = nm y ->
  gone_pc (pc x) = false -> launched_pc (pc y) = true -> False.
Proof.
  intros HRc HRd HP HW Hij Ex Ey Hn Hgx Hly.
  destruct (rc_inst _ _ _ HRc _ _ Ex) as (xo & Exo & Nx & _). destruct (rc_inst _ _ _ HRc _ _ Ey) as (yo & Eyo & Ny & _).
  assert (Hd : w_dup o = false /\ w_zombie o = false).
  { unfold W4 in HW. destruct (w_commit o), (w_sdlag o), (w_dup o), (w_zombie o); try discriminate; auto. }
  destruct Hd as [Hd Hz].
  destruct (HRd Hd Hz i j xo yo Hij Exo Eyo) as [[_ G]|[_ G]]; [congruence| |].
  - apply (p_gone _ _ _ _ (HP _ _ _ Ex Exo)) in G. congruence.
  - apply (p_gone _ _ _ _ (HP _ _ _ Ey Eyo)) in G. destruct (pc y); discriminate.
Qed.

(* ---- status writes -------------------------------------------------------------------------------------- *)
Lemma P2all_status_others s o s' o' i x n s0 :
  Rc cs s o -> Rd o -> P2all s o -> wkeep o o' -> oback okeep o o' ->
  get i (insts s) = Some x -> n = nm x -> (gone_pc (pc x) = false \/ s0 <> SPending) ->
  (forall m, st (vis_of s' m) = if N.eqb n m then match get m (viss s) with Some _ => s0 | None => SPending end else st (vis_of s m)) ->
  (forall m, restarts (vis_of s' m) = restarts (vis_of s m)) ->
  forall j y y' yo', j <> i -> get j (insts s) = Some y -> ikeep y y' -> get j (oi o') = Some yo' -> P2 s' o' y' yo'.
Proof.
  intros HRc HRd HP Hwk Hk Ex -> Hor Hst Hres j y y' yo' Hji Ey Ik Eyo'.
  destruct (Hk j yo' Eyo') as (yo & Eyo & Ok).
  eapply P2_frame2; [apply (HP _ _ _ Ey Eyo)|exact Ik|exact Ok|rewrite Hres; lia|exact Hwk|].
  intros Hw Hl. rewrite Hst. destruct (N.eqb_spec (nm x) (nm y)) as [En|En].
  - destruct (vis_exists _ _ _ _ HRc Ey) as (v & ->). destruct Hor as [Hg|Hs0]; [|exact Hs0].
    exfalso. eapply (other_launched_absurd s o i j x y); eauto. apply Hwk, Hw.
  - apply (p_status _ _ _ _ (HP _ _ _ Ey Eyo)); [apply Hwk, Hw|exact Hl].
Qed.

Ltac inst_i_tac HP Ex Hk i :=
  (* goal: P2 s' o' x' xo' for the acting instance i, with x' an update of x *)
  match goal with Hxo : get i (oi ?o') = Some ?xo' |- _ =>
    let xo := fresh "xo" in let Exo := fresh "Exo" in let Ok := fresh "Ok" in let HPx := fresh "HPx" in
    destruct (Hk i xo' Hxo) as (xo & Exo & Ok); pose proof (HP _ _ _ Ex Exo) as HPx;
    destruct HPx as [Pcommit Pstop Pexited Palive Pcode Pdecided Prelaunch Pgaveup Prestarts Ppre Pfstopped Prunctx Pendst Pgone Pnostop Pstatus];
    destruct Ok as (Oa & Ob & Oc & Od & Oe & Of); cbn in Oa, Ob, Oc, Od, Oe, Of; constructor;
    rewrite ?Oa, ?Ob, ?Oc, ?Od, ?Oe, ?Of
  end.

Ltac wk_intro Hwk :=
  match goal with
  | |- W2 _ = false -> _ => let Hw := fresh "Hw" in intros Hw; pose proof (proj1 Hwk Hw)
  | |- W4 _ = false -> _ => let Hw := fresh "Hw" in intros Hw; pose proof (proj2 Hwk Hw); pose proof (proj1 Hwk (W4_W2 _ Hw))
  | _ => idtac
  end.

Ltac state_fin Hwk Ev :=
  unfold set_pc; autorewrite with sup; rewrite ?st_write_status, ?restarts_write_status; cbn; rewrite ?N.eqb_refl, ?Ev;
  try match goal with E : pc _ = _ |- _ => rewrite E in * end;
  wk_intro Hwk; try (p2_clause; fail).

Lemma P2all_state s o th i s0 s' : Rc cs s o -> Rd o -> P2all s o -> step_state s th i s0 = Some s' ->
  P2all s' (obs_step cs o (th, EState i s0)).
Proof.
  intros HRc HRd HP H. pose proof (wkeep_step cs o (th, EState i s0)) as Hwk.
  pose proof (obs_step_keep cs o th (EState i s0) eq_refl) as Hk.
  set (o' := obs_step cs o (th, EState i s0)) in *. clearbody o'.
  unfold step_state in H. destruct (get i (insts s)) as [x|] eqn:Ex; [|discriminate]. cbv zeta in H.
  destruct (vis_exists _ _ _ _ HRc Ex) as (v & Ev).
  assert (Hgen : (if status_eqb s0 SPending
                  then check negb (opt_eqb N.eqb (get th (thinst s)) (Some i)) && negb (has i (map (fun p => (snd p, tt)) (thinst s)))
                             && (match pc x with IDeps _ => true | _ => false end);
                       check at_stage s th i 0;
                       Some (set_stage th i 1 (write_status (nm x) SPending s))
                  else check opt_eqb N.eqb (get th (thinst s)) (Some i);
                       match pc x with
                       | IPreLaunch => check status_eqb s0 SRunning; Some (set_pc i IStateSet (write_status (nm x) SRunning s))
                       | IWillRestart c => check status_eqb s0 SRestarting;
                                           Some (set_pc i (IRestarting c) (write_status (nm x) SRestarting s))
                       | IInEnd s1 c false => check status_eqb s0 s1; Some (set_pc i (IInEnd s1 c true) (end_finish i (nm x) s1 s))
                       | _ => None
                       end) = Some s' -> P2all s' o').
  { clear H. intros H. break_step H; subst s'; split_andb.
    - (* spawn: Pending *)
      intros j y' yo' Hy' Hyo'. unfold set_stage in Hy'. rewrite insts_set_stage, write_status_insts in Hy'. destruct (N.eqb_spec j i) as [->|Hji].
      + assert (y' = x) by congruence. subst y'. destruct (Hk i yo' Hyo') as (xo & Exo & Ok).
        eapply P2_frame2; [apply (HP _ _ _ Ex Exo)|apply ikeep_refl|exact Ok|unfold set_stage; rewrite vis_of_set_stage, restarts_write_status; lia|exact Hwk|].
        intros _ Hl. destruct (pc x); discriminate.
      + eapply (P2all_status_others s o _ o' i x (nm x) SPending); eauto using ikeep_refl.
        * left. destruct (pc x); try discriminate; reflexivity.
        * intros m. unfold set_stage. rewrite vis_of_set_stage. apply st_write_status.
        * intros m. unfold set_stage. rewrite vis_of_set_stage. apply restarts_write_status.
    - (* Running *)
      intros j y' yo' Hy' Hyo'. unfold set_pc in Hy'. autorewrite with sup in Hy'. destruct (N.eqb_spec i j) as [<-|Hji].
      + rewrite Ex in Hy'. cbn in Hy'. injection Hy' as <-. inst_i_tac HP Ex Hk i. all: state_fin Hwk Ev.
      + eapply (P2all_status_others s o _ o' i x (nm x) SRunning); eauto using ikeep_refl.
        * right; discriminate.
        * intros m. unfold set_pc. autorewrite with sup. apply st_write_status.
        * intros m. unfold set_pc. autorewrite with sup. apply restarts_write_status.
    - (* Restarting *)
      intros j y' yo' Hy' Hyo'. unfold set_pc in Hy'. autorewrite with sup in Hy'. destruct (N.eqb_spec i j) as [<-|Hji].
      + rewrite Ex in Hy'. cbn in Hy'. injection Hy' as <-. inst_i_tac HP Ex Hk i. all: state_fin Hwk Ev.
        intros c0 [[=]|[[= <-]|[=]]]. apply (Pdecided c). now left.
      + eapply (P2all_status_others s o _ o' i x (nm x) SRestarting); eauto using ikeep_refl.
        * right; discriminate.
        * intros m. unfold set_pc. autorewrite with sup. apply st_write_status.
        * intros m. unfold set_pc. autorewrite with sup. apply restarts_write_status.
    - (* the terminal status inside onProcessEnd *)
      apply status_eqb_eq in E3. subst s0.
      intros j y' yo' Hy' Hyo'. unfold set_pc, end_finish in Hy'. autorewrite with sup in Hy'. destruct (N.eqb_spec i j) as [<-|Hji].
      + rewrite Ex in Hy'. cbn in Hy'. injection Hy' as <-. inst_i_tac HP Ex Hk i. all: unfold end_finish; state_fin Hwk Ev.
        intros c0 [[=]|[b0 Hb0]]. injection Hb0 as -> <-. destruct (Pgaveup c) as (A & B); [right; eauto|]. split; [exact A|].
        unfold GaveUp in *. cbn. autorewrite with sup. rewrite restarts_write_status, ?Ob. exact B.
      + eapply (P2all_status_others s o _ o' i x (nm x) s1); eauto using ikeep_refl.
        * left. match goal with E : pc x = _ |- _ => rewrite E end. reflexivity.
        * intros m. unfold set_pc, end_finish. autorewrite with sup. apply st_write_status.
        * intros m. unfold set_pc, end_finish. autorewrite with sup. apply restarts_write_status. }
  destruct (spc (get_thread s th)) eqn:Es; try (apply Hgen; exact H).
  - (* SRun: stopProcess writes Terminating *)
    break_step H. subst s'. eapply P2all_frame; [exact HP| |exact Hk|exact Hwk].
    destruct cancel; sback_close.
  - (* SPendE *)
    break_step H. subst s'. eapply P2all_frame; [exact HP| |exact Hk|exact Hwk]. sback_close.
Qed.

(* ---- onProcessEnd ---------------------------------------------------------------------------------------- *)
Lemma procend_shape o th i s0 : forall j xo', get j (oi (obs_step cs o (th, EProcEnd i s0))) = Some xo' ->
  exists xo, get j (oi o) = Some xo /\
    okeep (if N.eqb i j then xo <| o_endst := Some s0 |> <| o_commit := if opt_eqb N.eqb (get th (o_th o)) (Some i) then false else o_commit xo |> else xo) xo'.
Proof. intros j xo'. unfold obs_step. cbn [ev_inst fst snd]. intros H. eapply obs_upd_shape in H; eauto. Qed.

Ltac comb_tac2 HP i E0 Hshape Hwk :=
  let j9 := fresh "j" in let x9 := fresh "x" in let xo9 := fresh "xo" in let Hx9 := fresh "Hx" in let Hxo9 := fresh "Hxo" in
  let xo := fresh "xo" in let Exo := fresh "Exo" in let Ok := fresh "Ok" in let Hne := fresh "Hne" in let HPx := fresh "HPx" in
  intros j9 x9 xo9 Hx9 Hxo9; unfold set_pc in Hx9; autorewrite with sup in Hx9; cbn [fst snd] in Hx9;
  destruct (Hshape j9 xo9 Hxo9) as (xo & Exo & Ok);
  destruct (N.eqb_spec i j9) as [<-|Hne];
  [ rewrite ?E0 in Hx9; cbn in Hx9; injection Hx9 as <-; pose proof (HP _ _ _ E0 Exo) as HPx; p2_pre;
    destruct HPx as [Pcommit Pstop Pexited Palive Pcode Pdecided Prelaunch Pgaveup Prestarts Ppre Pfstopped Prunctx Pendst Pgone Pnostop Pstatus];
    destruct Ok as (Oa & Ob & Oc & Od & Oe & Of); rewrite ?N.eqb_refl in *; cbn in Oa, Ob, Oc, Od, Oe, Of; constructor;
    rewrite ?Oa, ?Ob, ?Oc, ?Od, ?Oe, ?Of
  | eapply P2_frame; [apply (HP j9 x9 xo Hx9 Exo)|apply ikeep_refl|exact Ok|apply vrel_vkeep; vrel_tac|exact Hwk] ].

Ltac gaveup_tac :=
  let c0 := fresh "c" in let Hc := fresh "Hc" in let b9 := fresh "b" in
  intros c0 Hc; cbn in Hc; destruct Hc as [Hc|[b9 Hc]]; try discriminate Hc; inversion Hc; subst;
  match goal with Pg : forall c, _ \/ _ -> o_code _ = Some c /\ GaveUp _ _ _ c |- _ =>
    let A := fresh in let B := fresh in
    edestruct Pg as (A & B); [solve [left; reflexivity | right; eexists; reflexivity]|];
    split; [exact A|]; unfold GaveUp in *; cbn; unfold set_pc, end_finish; autorewrite with sup;
    repeat match goal with Hq : o_stopreq _ = o_stopreq _ |- _ => rewrite Hq end; exact B
  end.

Ltac comb_fin Hwk :=
  try match goal with E : pc _ = _ |- _ => rewrite E in * end;
  rewrite ?N.eqb_refl in *; wk_intro Hwk; try (p2_clause; fail).

Lemma P2all_procend_entry s o th i s0 s' : Rc cs s o -> Rt s o -> P2all s o -> step_procend s th i s0 true = Some s' ->
  P2all s' (obs_step cs o (th, EProcEnd i s0)).
Proof.
  intros HRc HRt HP H. pose proof (wkeep_step cs o (th, EProcEnd i s0)) as Hwk.
  pose proof (procend_shape o th i s0) as Hshape.
  set (o' := obs_step cs o (th, EProcEnd i s0)) in *. clearbody o'.
  unfold step_procend in H. destruct (get i (insts s)) as [x|] eqn:Ex; [|discriminate]. cbv zeta in H.
  assert (Hown : opt_eqb N.eqb (get th (thinst s)) (Some i) = opt_eqb N.eqb (get th (o_th o)) (Some i))
    by now rewrite (rc_th _ _ _ HRc).
  assert (Hsp : spc (get_thread s th) = SPend i -> o_stopreq (oi_get o i) = true) by (apply (rt_spend _ _ HRt)).
  break_step H; subst s'; split_andb; repeat match goal with Hq : i = ?k |- _ => subst k end;
    comb_tac2 HP i Ex Hshape Hwk; comb_fin Hwk; try (gaveup_tac; fail).
  - assert (Hsr : o_stopreq xo0 = true) by (rewrite <- (oi_get_some _ _ _ Exo); apply Hsp; reflexivity).
    intros Hc. exfalso. rewrite Pstop in Hc by assumption. discriminate.
  - assert (Hsr : o_stopreq xo0 = true) by (rewrite <- (oi_get_some _ _ _ Exo); apply Hsp; reflexivity).
    intros c Hc. destruct (Pgaveup c Hc) as (A & B). split; [exact A|]. left. congruence.
  - assert (Hsr : o_stopreq xo0 = true) by (rewrite <- (oi_get_some _ _ _ Exo); apply Hsp; reflexivity).
    intros _. now left.
Qed.

Lemma P2all_procend_exit s o th i s0 s' : Rc cs s o -> P2all s o -> step_procend s th i s0 false = Some s' ->
  P2all s' (obs_step cs o (th, EProcEnded i s0)).
Proof.
  intros HRc HP H. pose proof (wkeep_step cs o (th, EProcEnded i s0)) as Hwk.
  pose proof (obs_step_keep cs o th (EProcEnded i s0) eq_refl) as Hk.
  pose proof (keep_shape _ _ i Hk) as Hshape.
  set (o' := obs_step cs o (th, EProcEnded i s0)) in *. clearbody o'.
  unfold step_procend in H. destruct (get i (insts s)) as [x|] eqn:Ex; [|discriminate]. cbv zeta in H.
  assert (Hgen : (check opt_eqb N.eqb (get th (thinst s)) (Some i);
                  match pc x with
                  | IInEnd s1 c true =>
                      check status_eqb s0 s1;
                      Some (set_pc i (match s1 with
                                      | SSkipped => IProjEnd c true
                                      | SError => IRunRet (Some 1%Z)
                                      | _ => IRunRet None
                                      end) s)
                  | _ => None
                  end) = Some s' -> P2all s' o').
  { clear H. intros H. break_step H; subst s'.
    all: comb_tac2 HP i Ex Hshape Hwk; comb_fin Hwk; try (gaveup_tac; fail). }
  destruct (spc (get_thread s th)) eqn:Es; try (apply Hgen; exact H).
  break_step H. subst s'. eapply P2all_frame; [exact HP| |exact Hk|exact Hwk]. sback_close.
Qed.

End D.
