(* C04 enabledness, part 8: a thread inside a creation stays inside it until it spawns (brute force over the step kinds). *)
From Coq Require Import List ZArith NArith Bool Lia.
From RecordUpdate Require Import RecordSet.
From PC.Base Require Import Assoc.
From PC.Sup Require Import Model Monitors Tactics Sim ObsFacts Effects RelCore LemC04 LemC04i.
Import ListNotations RecordSetNotations.

(* the thread of the event keeps "is about to create a process named n" unless the event is the spawn of an n *)
Definition creates_eff (s : sys) (th : tid) (e : event) (s' : sys) : Prop :=
  forall n, creates (get_thread s th) n = true -> creates (get_thread s' th) n = true \/ exists i, e = ESpawn i n.

Lemma memN_removeN_keep n m l : n <> m -> memN n l = true -> memN n (removeN m l) = true.
Proof.
  intros Hne H. apply memN_In. apply memN_In in H. unfold removeN. apply filter_In. split; [exact H|].
  apply negb_true_iff. now apply N.eqb_neq.
Qed.

Ltac cr_tac :=
  unfold creates_eff; intros nn; destr_state; sup_goal; unfold get_thread, creates; sup_goal; cbn -[get Assoc.set N.eqb memN removeN]; sup_goal;
  cbn -[get Assoc.set N.eqb memN removeN]; rewrite ?N.eqb_refl; cbn -[get Assoc.set N.eqb memN removeN];
  unfold get_thread in *;
  repeat match goal with E : apc _ = _ |- _ => rewrite E end; cbn -[get Assoc.set N.eqb memN removeN];
  intros Hc; try discriminate Hc;
  first [ left; exact Hc
        | split_andb; subst;
          match goal with |- context[removeN ?m _] => destruct (N.eqb_spec nn m); [subst; right; eexists; reflexivity|left; now apply memN_removeN_keep] end
        | split_andb; apply N.eqb_eq in Hc; subst; right; eexists; reflexivity ].

Lemma api_cr s th e s' : step_api s th e = Some s' -> creates_eff s th e s'.
Proof. intros H. destruct e; kind_cases H; try solve [cr_tac].
  all: intros nn Hc; unfold creates in Hc; rewrite E in Hc; apply N.eqb_eq in Hc; apply N.eqb_eq in E0; subst; right; eexists; reflexivity.
Qed.
Lemma own_cr s th e s' : step_own s th e = Some s' -> creates_eff s th e s'.
Proof. intros H. destruct e; kind_cases H; cr_tac. Qed.
Lemma reg_cr s th e s' : step_reg s th e = Some s' -> creates_eff s th e s'.
Proof. intros H. destruct e; kind_cases H; cr_tac. Qed.
Lemma stop_cr s th e s' : step_stop s th e = Some s' -> creates_eff s th e s'.
Proof. intros H. destruct e; kind_cases H; cr_tac. Qed.
Lemma state_cr s th i s0 s' : step_state s th i s0 = Some s' -> creates_eff s th (EState i s0) s'.
Proof. intros H. kind_cases H; cr_tac. Qed.
Lemma procend_cr s th i s0 b s' : step_procend s th i s0 b = Some s' -> creates_eff s th (if b then EProcEnd i s0 else EProcEnded i s0) s'.
Proof. intros H. destruct b; kind_cases H; cr_tac. Qed.
Lemma ordered_cr s th i s' : step_ordered_go s th i = Some s' -> creates_eff s th (EOrderedGo i) s'.
Proof. intros H. kind_cases H; cr_tac. Qed.
Lemma env_cr s th e s' : step_env s th e = Some s' -> creates_eff s th e s'.
Proof. intros H. destruct e; kind_cases H; cr_tac. Qed.
Lemma shutdown_cr s th e s' : step_shutdown s th e = Some s' -> creates_eff s th e s'.
Proof. intros H. destruct e; kind_cases H; try solve [cr_tac].
  intros nn Hc. left. unfold creates in *. rewrite get_thread_set_thread, N.eqb_refl. cbn.
  destruct (apc (get_thread s th)); try discriminate Hc; exact Hc.
Qed.

Lemma core_cr s th e s' : step_core s th e = Some s' -> creates_eff s th e s'.
Proof.
  intros H. destruct (step_core_kind _ _ _ _ H) as [? ?|i x ? ? ? ? ? ? ?|Hk|Hk|Hk|i s0 ? Hk|i s0 b ? Hk|Hk|i ? Hk|Hk|Hk]; subst.
  - intros n Hc. now left.
  - intros n Hc. now left.
  - now apply reg_cr.
  - now apply api_cr.
  - now apply stop_cr.
  - now apply state_cr.
  - now apply procend_cr.
  - now apply shutdown_cr.
  - now apply ordered_cr.
  - now apply env_cr.
  - now apply own_cr.
Qed.

