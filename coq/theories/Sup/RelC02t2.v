(* C02 simulation: Rt is preserved by onProcessEnd, shutdown, ordered stop, environment, own-thread and registry steps (heavy). *)
From Coq Require Import List ZArith NArith Bool Lia.
From RecordUpdate Require Import RecordSet.
From PC.Base Require Import Assoc.
From PC.Sup Require Import Model Monitors Tactics Sim ObsFacts Effects RelCore LemC02 RelC02defs.
Import ListNotations RecordSetNotations.

Section RtB.
Context (cs : amap pconf).

Lemma Rt_step_procend s o th i s0 (b : bool) s' : Rt s o -> ev_facts o (if b then EProcEnd i s0 else EProcEnded i s0) ->
  (forall j, has_inst s j -> has_inst s' j) ->
  step_procend s th i s0 b = Some s' -> Rt s' o.
Proof.
  intros HRt Hev Hh H. pose proof HRt as [H1 Ha Hb H2 H3 H4 He H5 H6].
  kind_cases H; cbn in Hev; split_andb; subst; rt_pre; rt_direct H1 Ha Hb H2 H3 H4 He H5 H6 Hh.
  all: split; [discriminate|intros [= <-]; right; exact Hev].
Qed.

Lemma Rt_step_shutdown s o th e s' : Rt s o -> ev_facts o e -> (forall j, has_inst s j -> has_inst s' j) ->
  step_shutdown s th e = Some s' -> Rt s' o.
Proof.
  intros HRt Hev Hh H. pose proof HRt as [H1 Ha Hb H2 H3 H4 He H5 H6].
  destruct e; kind_cases H; cbn in Hev; split_andb; subst; rt_pre; rt_direct H1 Ha Hb H2 H3 H4 He H5 H6 Hh.
  all: try (intros [= <- <-]; apply Hev).
  intros Hq. apply (Hb th). destruct (apc (get_thread s th)); try exact Hq; destruct Hq as [Hq|[? Hq]]; discriminate.
Qed.

Lemma Rt_step_ordered s o th i s' : Rt s o -> (forall j, has_inst s j -> has_inst s' j) ->
  step_ordered_go s th i = Some s' -> Rt s' o.
Proof.
  intros HRt Hh H.
  kind_cases H; split_andb. pose proof HRt as [H1 Ha Hb H2 H3 H4 He H5 H6]. rt_pre; rt_direct H1 Ha Hb H2 H3 H4 He H5 H6 Hh.
  intros [= <- <-]. eapply H2; eauto.
Qed.

Lemma Rt_step_env s o th e s' : Rt s o -> ev_facts o e -> (forall j, has_inst s j -> has_inst s' j) ->
  step_env s th e = Some s' -> Rt s' o.
Proof.
  intros HRt Hev Hh H. pose proof HRt as [H1 Ha Hb H2 H3 H4 He H5 H6].
  destruct e; kind_cases H; cbn in Hev; split_andb; subst; rt_pre; rt_direct H1 Ha Hb H2 H3 H4 He H5 H6 Hh.
  intros [= <- <-]. exact Hev.
Qed.

Lemma Rt_step_own s o th e s' : Rt s o -> (forall j, has_inst s j -> has_inst s' j) ->
  step_own s th e = Some s' -> Rt s' o.
Proof.
  intros HRt Hh H. pose proof HRt as [H1 Ha Hb H2 H3 H4 He H5 H6].
  destruct e; kind_cases H; split_andb; subst; rt_pre; rt_direct H1 Ha Hb H2 H3 H4 He H5 H6 Hh.
Qed.

Lemma Rt_step_reg s o th e s' : Rt s o -> (forall j, has_inst s j -> has_inst s' j) ->
  step_reg s th e = Some s' -> Rt s' o.
Proof.
  intros HRt Hh H. pose proof HRt as [H1 Ha Hb H2 H3 H4 He H5 H6].
  destruct e; kind_cases H; split_andb; subst; rt_pre; rt_direct H1 Ha Hb H2 H3 H4 He H5 H6 Hh.
  - destruct (in_set_inv _ _ _ _ Hp) as [->|Hp']; [|apply Hh, H1, Hp'].
    split; [cbn; congruence|]. intros t. cbn. rewrite get_set, N.eqb_refl. discriminate.
  - apply Hh, H1. eapply in_del_inv, Hp.
  - intros [= <- ->]. match goal with Hf : opt_eqb N.eqb _ _ = true |- _ => apply opt_eqb_N_eq in Hf; symmetry in Hf; apply get_in in Hf end.
    match goal with Hf : In _ _ |- _ => apply (H1 _ Hf) end.
Qed.

End RtB.
