(* Model-side frames and effect lemmas for the C01 simulation proof (model only, no observer). *)
From Coq Require Import List ZArith NArith Bool Lia.
From RecordUpdate Require Import RecordSet.
From PC.Base Require Import Assoc.
From PC.Sup Require Import Model Monitors Tactics Sim ObsFacts Effects RelCore LemC01.
Import ListNotations RecordSetNotations.

(* ---- program-counter classes ------------------------------------------------------------------------------ *)
(* dependencies an instance has not yet resolved; None: the instance will never launch (again) *)
Definition remaining (p : ipc) : option (list name) :=
  match p with
  | IDeps todo => Some todo
  | IBlocked k _ _ todo => Some (k :: todo)
  | IPreStart | IPreLaunch | IStateSet | IAlive | IExited _ | ICodeWritten _ | IWillRestart _ | IRestarting _
  | IBackoff _ => Some []
  | _ => None
  end.
Definition late_pc (p : ipc) : bool :=
  match p with ITriggered _ | ICodeSet | ILeaving | IWgDone | IGone => true | _ => false end.
Definition plain_pc (p : ipc) : bool :=
  match p with IDeps _ | IBlocked _ _ _ _ => false | _ => true end.

Definition pc_ok (x x' : inst) : Prop :=
  pc x' = pc x \/
  (plain_pc (pc x') = true /\ (remaining (pc x') = Some [] -> remaining (pc x) = Some []) /\
   (late_pc (pc x') = true -> late_pc (pc x) = true \/ d_added x = true)).

Lemma plain_remaining p l : plain_pc p = true -> remaining p = Some l -> l = [].
Proof. destruct p; cbn; intros; try discriminate; congruence. Qed.

Definition lk_plain (l : lookup_st) : Prop := match l with LNone | LMid _ | LDone1 _ None => True | _ => False end.

(* ---- model frame for everything except latches: what Minv, Rg and Rk look at ------------------------------- *)
Record frM (s s' : sys) : Prop := mkFrM {
  fm_confs : confs s' = confs s;
  fm_thinst : thinst s' = thinst s;
  fm_running : running s' = running s;
  fm_donereg : donereg s' = donereg s;
  fm_insts : forall j, match get j (insts s) with
             | Some x => exists x', get j (insts s') = Some x' /\ nm x' = nm x /\ cf x' = cf x /\
                                    d_added x' = d_added x /\ pc_ok x x'
             | None => get j (insts s') = None end;
  fm_lk : forall th, lk (get_thread s' th) = lk (get_thread s th) \/ lk_plain (lk (get_thread s' th)) }.

Lemma pc_ok_refl x : pc_ok x x. Proof. now left. Qed.

Lemma pc_ok_trans x1 x2 x3 : d_added x2 = d_added x1 -> pc_ok x1 x2 -> pc_ok x2 x3 -> pc_ok x1 x3.
Proof.
  intros Hd [A|(A1 & A2 & A3)] [B|(B1 & B2 & B3)].
  - left; congruence.
  - right. rewrite <- A, <- Hd. auto.
  - right. rewrite B. auto.
  - right. repeat split; auto. intros H. destruct (B3 H) as [H1|H1]; [auto|right; congruence].
Qed.

Lemma frM_refl s : frM s s.
Proof.
  constructor; auto. intros j. destruct (get j (insts s)) as [x|]; eauto 8 using pc_ok_refl.
Qed.

Lemma frM_trans s1 s2 s3 : frM s1 s2 -> frM s2 s3 -> frM s1 s3.
Proof.
  intros [A1 A2 A3 A4 A5 A6] [B1 B2 B3 B4 B5 B6]. constructor; try congruence.
  - intros j. specialize (A5 j). specialize (B5 j). destruct (get j (insts s1)) as [x|].
    + destruct A5 as (x2 & E2 & ? & ? & ? & ?). rewrite E2 in B5. destruct B5 as (x3 & E3 & ? & ? & ? & ?).
      exists x3. repeat split; try congruence. eapply pc_ok_trans; eauto.
    + now rewrite A5 in B5.
  - intros th. destruct (B6 th) as [B|B]; [|now right]. rewrite B. apply A6.
Qed.

Lemma frM_eq s s' : confs s' = confs s -> thinst s' = thinst s -> running s' = running s -> donereg s' = donereg s ->
  insts s' = insts s -> threads s' = threads s -> frM s s'.
Proof.
  intros A B C D E F. constructor; auto.
  - intros j. rewrite E. destruct (get j (insts s)) as [x|]; eauto 8 using pc_ok_refl.
  - intros th. left. unfold get_thread. now rewrite F.
Qed.

Lemma frM_upd_inst i f s :
  (forall x, nm (f x) = nm x /\ cf (f x) = cf x /\ d_added (f x) = d_added x /\ pc (f x) = pc x) -> frM s (upd_inst i f s).
Proof.
  intros Hf. constructor; autorewrite with sup; auto.
  - intros j. rewrite insts_upd_inst. destruct (N.eqb i j); destruct (get j (insts s)) as [x|]; cbn; eauto 8 using pc_ok_refl.
    exists (f x). destruct (Hf x) as (? & ? & ? & ?). repeat split; auto. now left.
  - intros th. left. unfold get_thread. now rewrite upd_inst_threads.
Qed.

Lemma frM_upd_inst_at i f s y :
  get i (insts s) = Some y -> nm (f y) = nm y -> cf (f y) = cf y -> d_added (f y) = d_added y -> pc_ok y (f y) ->
  frM s (upd_inst i f s).
Proof.
  intros Hy A B C D. constructor; autorewrite with sup; auto.
  - intros j. rewrite insts_upd_inst. destruct (N.eqb_spec i j).
    + subst j. rewrite Hy. cbn. eauto 8.
    + destruct (get j (insts s)) as [x|]; eauto 8 using pc_ok_refl.
  - intros th. left. unfold get_thread. now rewrite upd_inst_threads.
Qed.

Lemma frM_upd_vis n f s : frM s (upd_vis n f s).
Proof.
  constructor; autorewrite with sup; auto.
  - intros j. destruct (get j (insts s)) as [x|]; eauto 8 using pc_ok_refl.
  - intros th. left. unfold get_thread. now rewrite upd_vis_threads.
Qed.

Lemma frM_set_thread th t s : lk t = lk (get_thread s th) \/ lk_plain (lk t) -> frM s (set_thread th t s).
Proof.
  intros Ht. constructor; auto.
  - intros j. cbn. destruct (get j (insts s)) as [x|]; eauto 8 using pc_ok_refl.
  - intros th'. rewrite get_thread_set_thread. destruct (N.eqb_spec th th'); [subst; exact Ht|now left].
Qed.

Lemma frM_set_thread_tr s X th t : frM s X -> lk t = lk (get_thread s th) \/ lk_plain (lk t) -> frM s (set_thread th t X).
Proof.
  intros [A1 A2 A3 A4 A5 A6] Ht. constructor; auto.
  intros th'. rewrite get_thread_set_thread. destruct (N.eqb_spec th th'); [subst; exact Ht|apply A6].
Qed.

Lemma frM_fold_upd_inst (f : inst -> inst) l :
  (forall x, nm (f x) = nm x /\ cf (f x) = cf x /\ d_added (f x) = d_added x /\ pc (f x) = pc x) ->
  forall s, frM s (fold_left (fun s i => upd_inst i f s) l s).
Proof.
  intros Hf. induction l as [|a l IH]; intros s; cbn; [apply frM_refl|].
  eapply frM_trans; [apply (frM_upd_inst a f s Hf)|apply IH].
Qed.

Ltac kind_cases H :=
  unfold_steps H; unfold own_inst in H; cbn [fst snd] in H; break_step H;
  repeat match goal with E : (match _ with _ => _ end) = Some _ |- _ => break_step E end;
  repeat match goal with E : _ = ?s' |- _ => is_var s'; subst s' end.

Ltac frM_close :=
  unfold set_pc, end_release_early, end_finish, write_status;
  repeat first
  [ apply frM_refl
  | match goal with
    | |- frM ?s (upd_inst ?i ?f ?X) =>
        apply (frM_trans s X); [|apply frM_upd_inst; intros; cbn; repeat split; try reflexivity; destruct_matches; reflexivity]
    | |- frM ?s (upd_vis ?n ?f ?X) =>
        apply (frM_trans s X); [|apply frM_upd_vis]
    | |- frM ?s (fold_left (fun s i => upd_inst i ?f s) ?l ?X) =>
        apply (frM_trans s X); [|apply frM_fold_upd_inst; intros; cbn; repeat split; reflexivity]
    | |- frM ?s (set_thread ?th ?t ?X) =>
        apply frM_set_thread_tr; [|cbn; auto]
    | |- frM ?s (RecordSet.set _ _ ?X) =>
        apply (frM_trans s X); [|apply frM_eq; reflexivity]
    | |- frM ?s (if ?b then _ else _) => destruct b
    | |- frM ?s (match ?b with _ => _ end) => destruct b
    end ].

Lemma step_api_frM s th e s' : step_api s th e = Some s' -> frM s s'.
Proof. intros H. destruct e; kind_cases H; frM_close. Qed.
Lemma step_stop_frM s th e s' : step_stop s th e = Some s' -> frM s s'.
Proof. intros H. destruct e; kind_cases H; frM_close. Qed.
Lemma step_shutdown_frM s th e s' : step_shutdown s th e = Some s' -> frM s s'.
Proof. intros H. destruct e; kind_cases H; frM_close. Qed.
Lemma step_env_frM s th e s' : step_env s th e = Some s' -> frM s s'.
Proof. intros H. destruct e; kind_cases H; frM_close. Qed.
Lemma step_ordered_frM s th i s' : step_ordered_go s th i = Some s' -> frM s s'.
Proof. intros H. kind_cases H; frM_close. Qed.

Lemma get_thread_upd_inst i f s th : get_thread (upd_inst i f s) th = get_thread s th.
Proof. unfold get_thread. now rewrite upd_inst_threads. Qed.
Lemma get_thread_upd_vis n f s th : get_thread (upd_vis n f s) th = get_thread s th.
Proof. unfold get_thread. now rewrite upd_vis_threads. Qed.
#[export] Hint Rewrite get_thread_upd_inst get_thread_upd_vis : sup.

(* ---- the instance goroutine's own events ------------------------------------------------------------------- *)
Definition own_trans (s : sys) (th : tid) (e : event) (x x' : inst) : Prop :=
  match e with
  | EDepWait k found => exists todo c, pc x = IDeps todo /\ memN k todo = true /\ dep_cond (cf x) k = Some c /\
        thread_lookup (get_thread s th) k = Some found /\
        pc x' = match found with None => IDeps (removeN k todo) | Some j => IBlocked k c j (removeN k todo) end
  | EDepDone k ok => exists c j todo y, pc x = IBlocked k c j todo /\ get j (insts s) = Some y /\ latch_released c y = true /\
        ok = wait_result s c y /\ pc x' = (if ok then IDeps todo else ISkipDecided)
  | _ => pc_ok x x' /\ (e = ELaunch true -> pc x = IStateSet)
  end.

Lemma opt_opt_eqb_eq (a b : option (option N)) : opt_eqb (opt_eqb N.eqb) a b = true -> a = b.
Proof.
  destruct a as [a|], b as [b|]; cbn; try discriminate; auto. intros H. apply opt_eqb_N_eq in H. now subst.
Qed.

Ltac pc_ok_tac :=
  destruct_matches;
  first [ left; cbn; congruence
        | right; cbn;
          repeat match goal with H : pc _ = _ |- _ => rewrite H end; cbn;
          repeat split; intros; try discriminate; auto ].

Lemma step_own_eff s th e s' : step_own s th e = Some s' ->
  exists i x x', get th (thinst s) = Some i /\ get i (insts s) = Some x /\ get i (insts s') = Some x' /\
    nm x' = nm x /\ cf x' = cf x /\ d_added x' = d_added x /\ own_trans s th e x x' /\
    (forall j, j <> i -> get j (insts s') = get j (insts s)) /\
    confs s' = confs s /\ thinst s' = thinst s /\ running s' = running s /\ donereg s' = donereg s /\
    (forall th', lk (get_thread s' th') = lk (get_thread s th') \/ lk_plain (lk (get_thread s' th'))).
Proof.
  intros H. destruct e; kind_cases H; split_andb;
  repeat match goal with b : bool |- _ => destruct b end;
  match goal with
  | Ei : get th (thinst ?s) = Some ?i, Ex : get ?i (insts ?s) = Some ?x |- _ =>
      exists i, x; eexists; unfold set_pc; autorewrite with sup; rewrite ?N.eqb_refl, ?Ex; cbn [option_map];
      (split; [reflexivity|]); (split; [reflexivity|]); (split; [reflexivity|])
  end.
  all: cbn; repeat (split; [try reflexivity|]).
  all: try (intros jj Hjj; autorewrite with sup;
            match goal with |- context[N.eqb ?a jj] => destruct (N.eqb_spec a jj) end; [congruence|reflexivity]).
  all: try (intros th'; autorewrite with sup; try (destruct (N.eqb_spec th th'); [subst th'|]); cbn; now auto).
  all: try (intros Q; try discriminate Q; assumption).
  all: try (repeat match goal with |- context[if ?b then _ else _] => destruct b end; now pc_ok_tac).
  all: try (match goal with H : opt_eqb (opt_eqb N.eqb) _ _ = true |- _ => apply opt_opt_eqb_eq in H; symmetry in H end;
            do 2 eexists; repeat split; eauto).
  all: try (subst; do 4 eexists; repeat split; now eauto).
Qed.

Ltac frM_close2 :=
  unfold set_pc, end_release_early, end_finish, write_status;
  repeat first
  [ apply frM_refl
  | match goal with
    | |- frM ?s (upd_inst ?i ?f ?X) =>
        apply (frM_trans s X);
        [|first [ apply frM_upd_inst; intros; cbn; repeat split; try reflexivity; destruct_matches; reflexivity
                | eapply frM_upd_inst_at;
                  [ autorewrite with sup; rewrite ?N.eqb_refl;
                    first [eassumption | match goal with E : get _ (insts _) = Some _ |- _ => rewrite E end; cbn; reflexivity]
                  | reflexivity | reflexivity | reflexivity | pc_ok_tac ] ] ]
    | |- frM ?s (upd_vis ?n ?f ?X) =>
        apply (frM_trans s X); [|apply frM_upd_vis]
    | |- frM ?s (set_thread ?th ?t ?X) =>
        apply frM_set_thread_tr; [|cbn; auto]
    | |- frM ?s (RecordSet.set _ _ ?X) =>
        apply (frM_trans s X); [|apply frM_eq; reflexivity]
    | |- frM ?s (if ?b then _ else _) => destruct b
    | |- frM ?s (match ?b with _ => _ end) => destruct b
    end ].

Lemma step_state_frM s th i s0 s' : step_state s th i s0 = Some s' -> frM s s'.
Proof. intros H. kind_cases H; frM_close2. Qed.
Lemma step_procend_frM s th i s0 b s' : step_procend s th i s0 b = Some s' -> frM s s'.
Proof. intros H. kind_cases H; frM_close2. Qed.

(* ---- flush ---------------------------------------------------------------------------------------------- *)
Lemma apply_release_threads r s : threads (apply_release r s) = threads s.
Proof. destruct r; unfold apply_release, end_release_early; autorewrite with sup; try reflexivity. now destruct (code_set s). Qed.

Lemma flush_thread th s th' :
  lk (get_thread (flush th s) th') = lk (get_thread s th') /\
  spc (get_thread (flush th s) th') = spc (get_thread s th') /\
  (pend (get_thread (flush th s) th') = pend (get_thread s th') \/ pend (get_thread (flush th s) th') = None).
Proof.
  unfold flush. destruct (get th (threads s)) as [t|] eqn:Et; [|auto]. destruct (pend t) as [r|] eqn:Ep; [|auto].
  unfold get_thread at 1 3 5 7. rewrite apply_release_threads, threads_set_thread.
  destruct (N.eqb_spec th th'); [subst th'|].
  - unfold get_thread. rewrite Et. cbn. auto.
  - fold (get_thread s th'). auto.
Qed.

Lemma flush_inst_spec th s j :
  match get j (insts s) with
  | Some x => exists x', get j (insts (flush th s)) = Some x' /\ nm x' = nm x /\ cf x' = cf x /\ pc x' = pc x /\
      d_added x' = d_added x /\ l_done x' = l_done x /\
      (l_started x' = true -> l_started x = true \/ pend (get_thread s th) = Some (RStarted j)) /\
      (l_runctx x' = true -> l_runctx x = true \/ pend (get_thread s th) = Some (RRunCtx j) \/
                             pend (get_thread s th) = Some (REndEarly j)) /\
      (l_logready x' = Some true -> l_logready x = Some true)
  | None => get j (insts (flush th s)) = None
  end.
Proof.
  unfold flush, get_thread. destruct (get th (threads s)) as [t|] eqn:Et.
  2:{ destruct (get j (insts s)) as [x|]; [exists x; repeat split; auto|reflexivity]. }
  destruct (pend t) as [r|] eqn:Ep.
  2:{ destruct (get j (insts s)) as [x|]; [exists x; repeat split; auto|reflexivity]. }
  destruct r; unfold apply_release; sup_simpl; cbn;
  try (destruct (code_set s); cbn);
  try (destruct (get j (insts s)) as [x|]; [exists x; repeat split; auto|reflexivity]).
  all: match goal with |- context[N.eqb ?a ?b] => destruct (N.eqb_spec a b) end;
       destruct (get j (insts s)) as [x|]; cbn; try reflexivity;
       try (exists x; repeat split; now auto).
  all: subst; eexists; split; [reflexivity|]; cbn; repeat split; auto.
  all: destruct (l_logready x) as [[|]|]; cbn; auto; discriminate.
Qed.

(* ---- the model-only invariant ---------------------------------------------------------------------------- *)
Definition is_inst (s : sys) (j : iid) (k : name) : Prop := exists y, get j (insts s) = Some y /\ nm y = k.
Definition lk_ok (s : sys) (l : lookup_st) : Prop :=
  match l with
  | LDone1 k (Some j) | LReg k (Some j) | LDone2 k (Some j) => is_inst s j k
  | _ => True
  end.
Definition pc_dep (s : sys) (x x' : inst) : Prop :=
  (exists todo, pc x' = IDeps todo) \/ pc x' = ISkipDecided \/
  (exists k c j todo, pc x' = IBlocked k c j todo /\ is_inst s j k /\ dep_cond (cf x) k = Some c).

Record frM2 (s s' : sys) : Prop := mkFrM2 {
  f2_confs : confs s' = confs s;
  f2_thinst : thinst s' = thinst s;
  f2_running : running s' = running s;
  f2_donereg : donereg s' = donereg s;
  f2_insts : forall j, match get j (insts s) with
             | Some x => exists x', get j (insts s') = Some x' /\ nm x' = nm x /\ cf x' = cf x /\
                                    d_added x' = d_added x /\ (pc_ok x x' \/ pc_dep s x x')
             | None => get j (insts s') = None end;
  f2_lk : forall th, lk (get_thread s' th) = lk (get_thread s th) \/ lk_plain (lk (get_thread s' th)) }.

Lemma frM_frM2 s s' : frM s s' -> frM2 s s'.
Proof.
  intros [A1 A2 A3 A4 A5 A6]. constructor; auto. intros j. specialize (A5 j).
  destruct (get j (insts s)) as [x|]; [|exact A5]. destruct A5 as (x' & ? & ? & ? & ? & ?). eauto 10.
Qed.

Lemma f2_inv s s' j x' : frM2 s s' -> get j (insts s') = Some x' ->
  exists x, get j (insts s) = Some x /\ nm x' = nm x /\ cf x' = cf x /\ d_added x' = d_added x /\ (pc_ok x x' \/ pc_dep s x x').
Proof.
  intros F H. pose proof (f2_insts _ _ F j) as A. destruct (get j (insts s)) as [x|]; [|congruence].
  destruct A as (x2 & E & ?). assert (x2 = x') by congruence. subst. eauto.
Qed.

Lemma is_inst_fr s s' j k : frM2 s s' -> is_inst s j k -> is_inst s' j k.
Proof.
  intros F (y & Hy & Hn). pose proof (f2_insts _ _ F j) as A. rewrite Hy in A.
  destruct A as (y' & E & Hn' & _). exists y'. split; [exact E|congruence].
Qed.

Record Minv (s : sys) : Prop := mkMinv {
  mi_late : forall i x, get i (insts s) = Some x -> late_pc (pc x) = true -> d_added x = true;
  mi_added : forall i x, get i (insts s) = Some x -> d_added x = true -> get (nm x) (donereg s) <> None;
  mi_run : forall k j, get k (running s) = Some j -> is_inst s j k;
  mi_done : forall k j, get k (donereg s) = Some j -> is_inst s j k;
  mi_lk : forall th, lk_ok s (lk (get_thread s th));
  mi_blocked : forall i x k c j todo, get i (insts s) = Some x -> pc x = IBlocked k c j todo ->
               is_inst s j k /\ dep_cond (cf x) k = Some c }.

Lemma lk_ok_fr s s' l : frM2 s s' -> lk_ok s l -> lk_ok s' l.
Proof. intros F. destruct l as [|k [j|]|k|k [j|]|k [j|]]; cbn; auto; apply is_inst_fr; exact F. Qed.

Lemma lk_plain_ok s l : lk_plain l -> lk_ok s l.
Proof. destruct l as [|k [j|]|k|k [j|]|k [j|]]; cbn; tauto. Qed.

Lemma Minv_frame s s' : Minv s -> frM2 s s' -> Minv s'.
Proof.
  intros [M1 M2 M3 M4 M5 M6] F. constructor.
  - intros i x' H' L. destruct (f2_inv _ _ _ _ F H') as (x & Hx & _ & _ & Hd & [[P|(P1 & P2 & P3)]|P]).
    + rewrite Hd. apply (M1 i x Hx). congruence.
    + rewrite Hd. destruct (P3 L) as [Q|Q]; [now apply (M1 i x Hx)|exact Q].
    + exfalso. destruct P as [(t & P)|[P|(k & c & j & t & P & _)]]; rewrite P in L; discriminate.
  - intros i x' H' L. destruct (f2_inv _ _ _ _ F H') as (x & Hx & Hn & _ & Hd & _).
    rewrite (f2_donereg _ _ F), Hn. apply (M2 i x Hx). congruence.
  - intros k j. rewrite (f2_running _ _ F). intros H. eapply is_inst_fr; eauto.
  - intros k j. rewrite (f2_donereg _ _ F). intros H. eapply is_inst_fr; eauto.
  - intros th. destruct (f2_lk _ _ F th) as [E|E]; [rewrite E; eapply lk_ok_fr; eauto|now apply lk_plain_ok].
  - intros i x' k c j todo H' Hp. destruct (f2_inv _ _ _ _ F H') as (x & Hx & _ & Hc & _ & [[P|(P1 & _)]|P]).
    + rewrite P in Hp. destruct (M6 i x k c j todo Hx Hp) as [A B]. split; [eapply is_inst_fr; eauto|congruence].
    + rewrite Hp in P1. discriminate.
    + destruct P as [(t & P)|[P|(k1 & c1 & j1 & t1 & P & Q1 & Q2)]]; try congruence.
      rewrite Hp in P. injection P as -> -> -> ->. split; [eapply is_inst_fr; eauto|congruence].
Qed.

Lemma thread_lookup_ok s t k j : lk_ok s (lk t) -> thread_lookup t k = Some (Some j) -> is_inst s j k.
Proof.
  unfold thread_lookup. destruct (lk t) as [|k1 [j1|]|k1|k1 [j1|]|k1 [j1|]]; cbn; try discriminate;
  destruct (N.eqb_spec k1 k); try discriminate; subst; intros H E; injection E as <-; exact H.
Qed.

Lemma step_own_frM2 s th e s' : Minv s -> step_own s th e = Some s' -> frM2 s s'.
Proof.
  intros M H. destruct (step_own_eff _ _ _ _ H) as (i & x & x' & Ht & Hx & Hx' & Hn & Hc & Hd & Tr & Ho & A1 & A2 & A3 & A4 & A5).
  constructor; auto. intros j. destruct (N.eqb_spec j i).
  - subst j. rewrite Hx. exists x'. repeat split; auto.
    destruct e; cbn in Tr; try (left; exact (proj1 Tr)).
    + destruct Tr as (todo & c & P1 & P0 & P2 & P3 & P4). right. destruct found as [j|]; [|left; eauto].
      right; right. exists k, c, j, (removeN k todo). repeat split; auto.
      eapply thread_lookup_ok; [apply (mi_lk _ M th)|exact P3].
    + destruct Tr as (c & j & todo & y & P1 & P2 & P3 & P4 & P5). right. destruct ok; [left; eauto|right; left; exact P5].
  - rewrite (Ho j n). destruct (get j (insts s)) as [y|]; eauto 10 using pc_ok_refl.
Qed.

Lemma own_other_frM s th e s' : step_own s th e = Some s' ->
  (forall k f, e <> EDepWait k f) -> (forall k ok, e <> EDepDone k ok) -> frM s s'.
Proof.
  intros H N1 N2. destruct (step_own_eff _ _ _ _ H) as (i & x & x' & Ht & Hx & Hx' & Hn & Hc & Hd & Tr & Ho & A1 & A2 & A3 & A4 & A5).
  constructor; auto. intros j. destruct (N.eqb_spec j i).
  - subst j. rewrite Hx. exists x'. repeat split; auto.
    destruct e; cbn in Tr; try exact (proj1 Tr); exfalso; [eapply N1|eapply N2]; reflexivity.
  - rewrite (Ho j n). destruct (get j (insts s)) as [y|]; eauto 10 using pc_ok_refl.
Qed.

Lemma flush_frM th s : frM s (flush th s).
Proof.
  constructor; auto using flush_confs, flush_thinst, flush_running, flush_donereg.
  - intros j. pose proof (flush_inst_spec th s j) as A. destruct (get j (insts s)) as [x|]; [|exact A].
    destruct A as (x' & E & ? & ? & Hp & ? & _). exists x'. repeat split; auto. now left.
  - intros th'. left. apply flush_thread.
Qed.

(* registry events, in explicit form *)
Lemma reg_newinst s th i n s' : step_reg s th (ENewInst i n) = Some s' ->
  exists c, get n (confs s) = Some c /\ get i (insts s) = None /\
            s' = set_stage th i 0 (s <| insts := set i (new_inst n c) (insts s) |>).
Proof.
  intros H. kind_cases H. apply negb_true_iff in E0. unfold has in E0. destruct (get i (insts s)); [discriminate|].
  eexists; repeat split; eauto.
Qed.
Lemma reg_regadd s th i n s' : step_reg s th (ERegAdd i n) = Some s' ->
  exists x, get i (insts s) = Some x /\ nm x = n /\ s' = set_stage th i 2 (s <| running := set n i (running s) |>).
Proof. intros H. kind_cases H. split_andb. eexists; repeat split; eauto. Qed.
Lemma reg_regdel s th i s' : step_reg s th (ERegDel i) = Some s' ->
  exists x, get i (insts s) = Some x /\ pc x = IWgDone /\ s' = s <| running := del (nm x) (running s) |>.
Proof. intros H. kind_cases H. eexists; repeat split; eauto. split_andb. destruct (pc i0); try discriminate; reflexivity. Qed.
Lemma reg_regget s th n found s' : step_reg s th (ERegGet n found) = Some s' ->
  found = get n (running s) /\
  exists t', s' = set_thread th t' s /\
     ((lk (get_thread s th) = LMid n /\ lk t' = LReg n found) \/ lk t' = LNone).
Proof.
  intros H. kind_cases H; split_andb; apply opt_eqb_N_eq in H0; (split; [assumption|]); eexists; (split; [reflexivity|]); cbn; auto.
  destruct (lk (get_thread s th)) as [|k r|k|k r|k r]; auto. destruct (N.eqb_spec k n); subst; auto.
Qed.
Lemma reg_doneadd s th i s' : step_reg s th (EDoneAdd i) = Some s' ->
  exists x, get i (insts s) = Some x /\
    s' = upd_inst i (fun x => x <| d_added := true |>) (s <| donereg := set (nm x) i (donereg s) |>).
Proof. intros H. kind_cases H; eexists; repeat split; eauto. Qed.
Lemma reg_doneget s th n found s' : step_reg s th (EDoneGet n found) = Some s' ->
  found = get n (donereg s) /\
  exists t', s' = set_thread th t' s /\
     ((lk (get_thread s th) = LReg n None /\ lk t' = LDone2 n found) \/ lk t' = LDone1 n found).
Proof.
  intros H. kind_cases H; apply opt_eqb_N_eq in E; (split; [assumption|]); eexists; (split; [reflexivity|]); cbn; auto.
  destruct (lk (get_thread s th)) as [|k r|k|k r|k r]; auto. destruct r; auto. destruct (N.eqb_spec k n); subst; auto.
Qed.

(* ---- Minv is preserved by every step ---------------------------------------------------------------------- *)
Lemma Minv_set_thread s th t' : Minv s -> lk_ok s (lk t') -> Minv (set_thread th t' s).
Proof.
  intros [M1 M2 M3 M4 M5 M6] L. constructor; auto.
  intros th'. rewrite get_thread_set_thread. destruct (N.eqb th th'); [exact L|apply M5].
Qed.

Lemma is_inst_insts s s' j k : insts s' = insts s -> is_inst s j k -> is_inst s' j k.
Proof. intros E (y & A & B). exists y. now rewrite E. Qed.

Lemma lk_ok_mono s s' l : (forall j k, is_inst s j k -> is_inst s' j k) -> lk_ok s l -> lk_ok s' l.
Proof. intros F. destruct l as [|k [j|]|k|k [j|]|k [j|]]; cbn; auto. Qed.

Lemma Minv_newinst s i n c : Minv s -> get i (insts s) = None -> Minv (s <| insts := set i (new_inst n c) (insts s) |>).
Proof.
  intros [M1 M2 M3 M4 M5 M6] Hi.
  assert (F : forall j k, is_inst s j k -> is_inst (s <| insts := set i (new_inst n c) (insts s) |>) j k).
  { intros j k (y & A & B). exists y. cbn. rewrite get_set. destruct (N.eqb_spec i j); [congruence|auto]. }
  constructor; cbn.
  - intros j x. rewrite get_set. destruct (N.eqb i j); [intros E; injection E as <-; discriminate|apply M1].
  - intros j x. rewrite get_set. destruct (N.eqb i j); [intros E; injection E as <-; discriminate|apply M2].
  - intros k j H. apply F. now apply M3.
  - intros k j H. apply F. now apply M4.
  - intros th. eapply lk_ok_mono; [exact F|apply M5].
  - intros j x k c0 j0 todo. rewrite get_set. destruct (N.eqb i j); [intros E; injection E as <-; discriminate|].
    intros A B. destruct (M6 _ _ _ _ _ _ A B). split; auto.
Qed.

Lemma Minv_doneadd s i x : Minv s -> get i (insts s) = Some x ->
  Minv (upd_inst i (fun x => x <| d_added := true |>) (s <| donereg := set (nm x) i (donereg s) |>)).
Proof.
  intros [M1 M2 M3 M4 M5 M6] Hx.
  set (s1 := s <| donereg := set (nm x) i (donereg s) |>).
  set (s2 := upd_inst i (fun x => x <| d_added := true |>) s1).
  assert (F : forall j k, is_inst s j k -> is_inst s2 j k).
  { intros j k (y & A & B). unfold s2. unfold is_inst. rewrite insts_upd_inst. cbn [insts s1].
    change (insts s1) with (insts s). rewrite A. destruct (N.eqb i j); cbn; eauto. }
  constructor; unfold s2.
  - intros j y. rewrite insts_upd_inst. change (insts s1) with (insts s). destruct (N.eqb i j); [|apply M1].
    destruct (get j (insts s)) as [y0|] eqn:E; cbn; [|discriminate]. intros Q. injection Q as <-. reflexivity.
  - intros j y. rewrite insts_upd_inst, upd_inst_donereg.
    change (insts s1) with (insts s). change (donereg s1) with (set (nm x) i (donereg s)).
    destruct (N.eqb_spec i j).
    + subst j. rewrite Hx. cbn. intros Q _. injection Q as <-. cbn. now rewrite get_set_same.
    + intros A B. rewrite get_set. destruct (N.eqb (nm x) (nm y)); [discriminate|]. eapply M2; eauto.
  - intros k j. rewrite upd_inst_running. change (running s1) with (running s). intros H. apply F. now apply M3.
  - intros k j. rewrite upd_inst_donereg. change (donereg s1) with (set (nm x) i (donereg s)). rewrite get_set.
    destruct (N.eqb_spec (nm x) k).
    + intros Q. injection Q as <-. apply F. exists x. auto.
    + intros H. apply F. now apply M4.
  - intros th. rewrite get_thread_upd_inst. eapply lk_ok_mono; [exact F|]. change (get_thread s1 th) with (get_thread s th). apply M5.
  - intros j y k c j0 todo. rewrite insts_upd_inst. change (insts s1) with (insts s). destruct (N.eqb i j).
    + destruct (get j (insts s)) as [y0|] eqn:E; cbn; [|discriminate]. intros Q. injection Q as <-. cbn.
      intros B. destruct (M6 _ _ _ _ _ _ E B). split; auto.
    + intros A B. destruct (M6 _ _ _ _ _ _ A B). split; auto.
Qed.

Lemma Minv_set_stage s th i k : Minv s -> Minv (set_stage th i k s).
Proof. intros [M1 M2 M3 M4 M5 M6]. constructor; auto. Qed.

Lemma Minv_step_core s th e s' : Minv s -> step_core s th e = Some s' -> Minv s'.
Proof.
  intros M H.
  destruct (step_core_kind _ _ _ _ H) as [? ?|i x ? ? ? ? ? ?|Hk|Hk|Hk|i s0 ? Hk|i s0 b ? Hk|Hk|i ? Hk|Hk|Hk]; subst.
  - exact M.
  - destruct M as [M1 M2 M3 M4 M5 M6]. constructor; auto.
  - destruct e; try (cbn in Hk; discriminate Hk).
    + destruct (reg_newinst _ _ _ _ _ Hk) as (c & ? & ? & ->). now apply Minv_set_stage, Minv_newinst.
    + destruct (reg_regadd _ _ _ _ _ Hk) as (x & Hx & Hn & ->). apply Minv_set_stage.
      destruct M as [M1 M2 M3 M4 M5 M6]. constructor; auto.
      cbn. intros k j. rewrite get_set. destruct (N.eqb_spec n k); [|apply M3].
      intros Q. injection Q as <-. subst k. exists x. auto.
    + destruct (reg_regdel _ _ _ _ Hk) as (x & Hx & Hp & ->). destruct M as [M1 M2 M3 M4 M5 M6]. constructor; auto.
      cbn. intros k j. rewrite get_del. destruct (N.eqb (nm x) k); [discriminate|apply M3].
    + destruct (reg_regget _ _ _ _ _ Hk) as (Hf & t' & -> & L). apply Minv_set_thread; [exact M|].
      destruct L as [[_ L]|L]; rewrite L; cbn; [|exact I]. destruct found as [j|]; [|exact I].
      apply (mi_run _ M). now symmetry.
    + destruct (reg_doneadd _ _ _ _ Hk) as (x & Hx & ->). now apply Minv_doneadd.
    + destruct (reg_doneget _ _ _ _ _ Hk) as (Hf & t' & -> & L). apply Minv_set_thread; [exact M|].
      destruct L as [[_ L]|L]; rewrite L; cbn; (destruct found as [j|]; [|exact I]); apply (mi_done _ M); now symmetry.
  - eapply Minv_frame; [exact M|apply frM_frM2; eapply step_api_frM; eauto].
  - eapply Minv_frame; [exact M|apply frM_frM2; eapply step_stop_frM; eauto].
  - eapply Minv_frame; [exact M|apply frM_frM2; eapply step_state_frM; eauto].
  - eapply Minv_frame; [exact M|apply frM_frM2; eapply step_procend_frM; eauto].
  - eapply Minv_frame; [exact M|apply frM_frM2; eapply step_shutdown_frM; eauto].
  - eapply Minv_frame; [exact M|apply frM_frM2; eapply step_ordered_frM; eauto].
  - eapply Minv_frame; [exact M|apply frM_frM2; eapply step_env_frM; eauto].
  - eapply Minv_frame; [exact M|eapply step_own_frM2; eauto].
Qed.

Lemma Minv_step s te s' : Minv s -> step s te = Some s' -> Minv s'.
Proof.
  intros M H. unfold step in H. eapply Minv_step_core; [|exact H].
  eapply Minv_frame; [exact M|apply frM_frM2, flush_frM].
Qed.

Lemma Minv_init cs ord : Minv (init cs ord).
Proof. constructor; cbn; try discriminate. intros th. exact I. Qed.
