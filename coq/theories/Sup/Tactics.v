(* Tactics and frame lemmas for reasoning about Sup.Model.step. *)
From Coq Require Import List ZArith NArith Bool Lia.
From RecordUpdate Require Import RecordSet.
From PC.Base Require Import Assoc.
From PC.Sup Require Import Model.
Import ListNotations RecordSetNotations.

(* break a hypothesis of the form  (match/if ... ) = Some _  into its cases *)
Ltac break_step H :=
  repeat match type of H with
  | None = Some _ => discriminate H
  | Some _ = Some _ => injection H as H
  | (if ?b then _ else _) = Some _ => let E := fresh "E" in destruct b eqn:E
  | (match ?x with _ => _ end) = Some _ => let E := fresh "E" in destruct x eqn:E
  | (let '(_, _) := ?x in _) = Some _ => let E := fresh "E" in destruct x eqn:E
  end.

Ltac unfold_steps H :=
  unfold step_api, step_stop, step_state, step_procend, step_own, step_shutdown, step_ordered_go,
         step_env, step_reg, do_spawn, set_stage in H.

(* split boolean conjunctions in hypotheses *)
Ltac split_andb :=
  repeat match goal with
  | H : (_ && _) = true |- _ => apply andb_true_iff in H; destruct H
  | H : negb _ = true |- _ => apply negb_true_iff in H
  | H : N.eqb _ _ = true |- _ => apply N.eqb_eq in H
  | H : Bool.eqb _ _ = true |- _ => apply Bool.eqb_prop in H
  | H : Z.eqb _ _ = true |- _ => apply Z.eqb_eq in H
  end.

(* ---- simple facts about the helpers ------------------------------------------------------------ *)
Lemma opt_eqb_N_eq a b : opt_eqb N.eqb a b = true -> a = b.
Proof. destruct a, b; cbn; try discriminate; auto. intros H. apply N.eqb_eq in H. now subst. Qed.

Lemma status_eqb_eq a b : status_eqb a b = true -> a = b.
Proof. destruct a, b; cbn; congruence. Qed.
Lemma status_eqb_refl a : status_eqb a a = true.
Proof. destruct a; reflexivity. Qed.
Lemma health_eqb_eq a b : health_eqb a b = true -> a = b.
Proof. destruct a, b; cbn; congruence. Qed.

(* projections of the state after the helper updates *)
Section Frames.
Implicit Types (s : sys) (i j : iid) (n m : name) (th : tid).

Lemma insts_upd_inst i f s j :
  get j (insts (upd_inst i f s)) =
  if N.eqb i j then option_map f (get j (insts s)) else get j (insts s).
Proof.
  unfold upd_inst. destruct (get i (insts s)) as [x|] eqn:E; cbn.
  - rewrite get_set. destruct (N.eqb_spec i j); [subst; now rewrite E|reflexivity].
  - destruct (N.eqb_spec i j); [subst; now rewrite E|reflexivity].
Qed.

Lemma viss_upd_vis n f s m :
  get m (viss (upd_vis n f s)) =
  if N.eqb n m then option_map f (get m (viss s)) else get m (viss s).
Proof.
  unfold upd_vis. destruct (get n (viss s)) as [x|] eqn:E; cbn.
  - rewrite get_set. destruct (N.eqb_spec n m); [subst; now rewrite E|reflexivity].
  - destruct (N.eqb_spec n m); [subst; now rewrite E|reflexivity].
Qed.

Lemma threads_set_thread th t s th' :
  get th' (threads (set_thread th t s)) = if N.eqb th th' then Some t else get th' (threads s).
Proof. unfold set_thread. cbn. apply get_set. Qed.

Lemma get_thread_set_thread th t s th' :
  get_thread (set_thread th t s) th' = if N.eqb th th' then t else get_thread s th'.
Proof. unfold get_thread. rewrite threads_set_thread. now destruct (N.eqb th th'). Qed.

End Frames.

(* fields untouched by each helper: stated as rewrite rules *)
Ltac frame_tac := intros; unfold upd_inst, upd_vis, set_thread, set_pc, write_status, end_release_early, end_finish, upd_inst, upd_vis;
  cbn; repeat match goal with |- context[match ?x with _ => _ end] => destruct x; cbn end; reflexivity.

Lemma upd_inst_viss i f s : viss (upd_inst i f s) = viss s. Proof. frame_tac. Qed.
Lemma upd_inst_confs i f s : confs (upd_inst i f s) = confs s. Proof. frame_tac. Qed.
Lemma upd_inst_running i f s : running (upd_inst i f s) = running s. Proof. frame_tac. Qed.
Lemma upd_inst_donereg i f s : donereg (upd_inst i f s) = donereg s. Proof. frame_tac. Qed.
Lemma upd_inst_threads i f s : threads (upd_inst i f s) = threads s. Proof. frame_tac. Qed.
Lemma upd_inst_thinst i f s : thinst (upd_inst i f s) = thinst s. Proof. frame_tac. Qed.
Lemma upd_inst_wg i f s : wg (upd_inst i f s) = wg s. Proof. frame_tac. Qed.
Lemma upd_inst_reg_lock i f s : reg_lock (upd_inst i f s) = reg_lock s. Proof. frame_tac. Qed.
Lemma upd_inst_sd_active i f s : sd_active (upd_inst i f s) = sd_active s. Proof. frame_tac. Qed.
Lemma upd_inst_proj_code i f s : proj_code (upd_inst i f s) = proj_code s. Proof. frame_tac. Qed.
Lemma upd_inst_code_set i f s : code_set (upd_inst i f s) = code_set s. Proof. frame_tac. Qed.
Lemma upd_inst_ordered i f s : ordered (upd_inst i f s) = ordered s. Proof. frame_tac. Qed.
Lemma upd_inst_run_called i f s : run_called (upd_inst i f s) = run_called s. Proof. frame_tac. Qed.

Lemma upd_vis_insts n f s : insts (upd_vis n f s) = insts s. Proof. frame_tac. Qed.
Lemma upd_vis_confs n f s : confs (upd_vis n f s) = confs s. Proof. frame_tac. Qed.
Lemma upd_vis_running n f s : running (upd_vis n f s) = running s. Proof. frame_tac. Qed.
Lemma upd_vis_donereg n f s : donereg (upd_vis n f s) = donereg s. Proof. frame_tac. Qed.
Lemma upd_vis_threads n f s : threads (upd_vis n f s) = threads s. Proof. frame_tac. Qed.
Lemma upd_vis_thinst n f s : thinst (upd_vis n f s) = thinst s. Proof. frame_tac. Qed.
Lemma upd_vis_wg n f s : wg (upd_vis n f s) = wg s. Proof. frame_tac. Qed.
Lemma upd_vis_reg_lock n f s : reg_lock (upd_vis n f s) = reg_lock s. Proof. frame_tac. Qed.
Lemma upd_vis_sd_active n f s : sd_active (upd_vis n f s) = sd_active s. Proof. frame_tac. Qed.
Lemma upd_vis_proj_code n f s : proj_code (upd_vis n f s) = proj_code s. Proof. frame_tac. Qed.
Lemma upd_vis_code_set n f s : code_set (upd_vis n f s) = code_set s. Proof. frame_tac. Qed.
Lemma upd_vis_ordered n f s : ordered (upd_vis n f s) = ordered s. Proof. frame_tac. Qed.
Lemma upd_vis_run_called n f s : run_called (upd_vis n f s) = run_called s. Proof. frame_tac. Qed.

Lemma set_thread_insts th t s : insts (set_thread th t s) = insts s. Proof. reflexivity. Qed.
Lemma set_thread_viss th t s : viss (set_thread th t s) = viss s. Proof. reflexivity. Qed.
Lemma set_thread_confs th t s : confs (set_thread th t s) = confs s. Proof. reflexivity. Qed.
Lemma set_thread_running th t s : running (set_thread th t s) = running s. Proof. reflexivity. Qed.
Lemma set_thread_donereg th t s : donereg (set_thread th t s) = donereg s. Proof. reflexivity. Qed.
Lemma set_thread_thinst th t s : thinst (set_thread th t s) = thinst s. Proof. reflexivity. Qed.
Lemma set_thread_wg th t s : wg (set_thread th t s) = wg s. Proof. reflexivity. Qed.
Lemma set_thread_reg_lock th t s : reg_lock (set_thread th t s) = reg_lock s. Proof. reflexivity. Qed.
Lemma set_thread_sd_active th t s : sd_active (set_thread th t s) = sd_active s. Proof. reflexivity. Qed.
Lemma set_thread_proj_code th t s : proj_code (set_thread th t s) = proj_code s. Proof. reflexivity. Qed.
Lemma set_thread_code_set th t s : code_set (set_thread th t s) = code_set s. Proof. reflexivity. Qed.
Lemma set_thread_ordered th t s : ordered (set_thread th t s) = ordered s. Proof. reflexivity. Qed.
Lemma set_thread_run_called th t s : run_called (set_thread th t s) = run_called s. Proof. reflexivity. Qed.

Lemma vis_of_upd_inst i f s n : vis_of (upd_inst i f s) n = vis_of s n.
Proof. unfold vis_of. now rewrite upd_inst_viss. Qed.
Lemma vis_of_set_thread th t s n : vis_of (set_thread th t s) n = vis_of s n.
Proof. reflexivity. Qed.

#[export] Hint Rewrite upd_inst_viss upd_inst_confs upd_inst_running upd_inst_donereg upd_inst_threads upd_inst_thinst
  upd_inst_wg upd_inst_reg_lock upd_inst_sd_active upd_inst_proj_code upd_inst_code_set upd_inst_ordered upd_inst_run_called
  upd_vis_insts upd_vis_confs upd_vis_running upd_vis_donereg upd_vis_threads upd_vis_thinst upd_vis_wg upd_vis_reg_lock
  upd_vis_sd_active upd_vis_proj_code upd_vis_code_set upd_vis_ordered upd_vis_run_called
  set_thread_insts set_thread_viss set_thread_confs set_thread_running set_thread_donereg set_thread_thinst set_thread_wg
  set_thread_reg_lock set_thread_sd_active set_thread_proj_code set_thread_code_set set_thread_ordered set_thread_run_called
  vis_of_upd_inst vis_of_set_thread insts_upd_inst viss_upd_vis threads_set_thread get_thread_set_thread : sup.

(* write_status / end_* in terms of upd_vis / upd_inst *)
Lemma write_status_insts n s0 s : insts (write_status n s0 s) = insts s.
Proof. unfold write_status. now rewrite upd_vis_insts. Qed.
Lemma write_status_threads n s0 s : threads (write_status n s0 s) = threads s.
Proof. unfold write_status. now rewrite upd_vis_threads. Qed.
Lemma write_status_thinst n s0 s : thinst (write_status n s0 s) = thinst s.
Proof. unfold write_status. now rewrite upd_vis_thinst. Qed.
Lemma write_status_confs n s0 s : confs (write_status n s0 s) = confs s.
Proof. unfold write_status. now rewrite upd_vis_confs. Qed.
Lemma write_status_running n s0 s : running (write_status n s0 s) = running s.
Proof. unfold write_status. now rewrite upd_vis_running. Qed.
Lemma write_status_donereg n s0 s : donereg (write_status n s0 s) = donereg s.
Proof. unfold write_status. now rewrite upd_vis_donereg. Qed.
Lemma write_status_wg n s0 s : wg (write_status n s0 s) = wg s.
Proof. unfold write_status. now rewrite upd_vis_wg. Qed.
Lemma write_status_reg_lock n s0 s : reg_lock (write_status n s0 s) = reg_lock s.
Proof. unfold write_status. now rewrite upd_vis_reg_lock. Qed.
Lemma write_status_sd_active n s0 s : sd_active (write_status n s0 s) = sd_active s.
Proof. unfold write_status. now rewrite upd_vis_sd_active. Qed.
Lemma write_status_proj_code n s0 s : proj_code (write_status n s0 s) = proj_code s.
Proof. unfold write_status. now rewrite upd_vis_proj_code. Qed.
Lemma write_status_code_set n s0 s : code_set (write_status n s0 s) = code_set s.
Proof. unfold write_status. now rewrite upd_vis_code_set. Qed.
Lemma write_status_ordered n s0 s : ordered (write_status n s0 s) = ordered s.
Proof. unfold write_status. now rewrite upd_vis_ordered. Qed.
Lemma write_status_run_called n s0 s : run_called (write_status n s0 s) = run_called s.
Proof. unfold write_status. now rewrite upd_vis_run_called. Qed.

#[export] Hint Rewrite write_status_insts write_status_threads write_status_thinst write_status_confs write_status_running
  write_status_donereg write_status_wg write_status_reg_lock write_status_sd_active write_status_proj_code write_status_code_set
  write_status_ordered write_status_run_called : sup.

(* normalise a goal/hypotheses that mention the post-state of a step *)
Ltac sup_simpl :=
  unfold set_pc, end_finish, end_release_early in *;
  autorewrite with sup in *; cbn [fst snd option_map] in *.
