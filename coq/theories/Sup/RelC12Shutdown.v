(* C12 proof: the per-instance relation PI is preserved by the steps of one sub-step function (see RelC12.v). *)
From Coq Require Import List ZArith NArith Bool Lia.
From RecordUpdate Require Import RecordSet.
From PC.Base Require Import Assoc.
From PC.Sup Require Import Model Monitors Tactics Sim ObsFacts Effects RelCore LemC12 LemC12Inst LemC12Obs RelC12.
Import ListNotations RecordSetNotations.
Section PIstep.
Context (cs : amap pconf).
Lemma PI_shutdown s o th e s' : step_shutdown s th e = Some s' -> PI_goal cs s o th e s'.
Proof.
  intros H f f' HR Hf HO HT j x xo x' xo' Hx Hxo [Pa Pc Pd Pl] Hx' Hxo'.
  pose proof (rc_th _ _ _ HR) as Hrth.
  destruct e; try solve [kind_cases H; pi_leaf j s x].
  (* EShutdownOrder *)
  kind_cases H. cbn in Hx'. rewrite fold_fstopped_get', Hx in Hx'. cbn in Hx'. injection Hx' as <-.
  unfold obs_step in Hxo'. cbn [fst snd ev_inst] in Hxo'. cbv zeta in Hxo'.
  change (fun x : oinst => x <| o_stopreq := true |> <| o_insnap := true |>) with snap_upd in Hxo'.
  autorewrite with obsn in Hxo'. cbn in Hxo'. rewrite fold_snap_get in Hxo'. cbn in Hxo'. rewrite Hxo in Hxo'. cbn in Hxo'.
  injection Hxo' as <-.
  cbn [LemC12Obs3.extra1] in Hf. destruct (memN j order) eqn:Em; unfold snap_upd; pi_fin Hxo Hf.
Qed.

End PIstep.
