(* C08, creation clause: when an instance of a process is created (NewProcess in runProcess, by Run,
   StartProcess or RestartProcess), no earlier instance of that process has a command alive - so the
   new instance is created, a fortiori launched, only after the previous one has exited.
   Same hypotheses as C08_combined.  Uses the relations R8 / R8b at the state BEFORE the creation and the
   window flags AFTER it (they are set by the creation event itself). *)
From Coq Require Import List ZArith NArith Bool Lia.
From RecordUpdate Require Import RecordSet.
From PC.Base Require Import Assoc.
From PC.Sup Require Import Model Monitors Tactics Sim ObsFacts Effects RelCore LemC08 RelC08 RelC08b SpecC08.
Import ListNotations RecordSetNotations.

Lemma accept_app : forall pre s e post s', accept s (pre ++ e :: post) = Some s' ->
  exists s1 s2, accept s pre = Some s1 /\ step s1 e = Some s2 /\ accept s2 post = Some s'.
Proof.
  induction pre as [|a pre IH]; intros s e post s' H; cbn in H.
  - destruct (step s e) as [s2|] eqn:E; [|discriminate]. exists s, s2. auto.
  - destruct (step s a) as [sa|] eqn:E; [|discriminate]. destruct (IH _ _ _ _ H) as (s1 & s2 & A & B & C).
    exists s1, s2. cbn. rewrite E. auto.
Qed.

Lemma accept_R8 cs : forall evs s o s', R8 cs s o -> accept s evs = Some s' -> R8 cs s' (fold_left (obs_step cs) evs o).
Proof.
  induction evs as [|[th e] evs IH]; intros s o s' HR H; cbn in *.
  - now injection H as <-.
  - destruct (step s (th, e)) as [s1|] eqn:Es; [|discriminate].
    eapply IH; [|exact H]. apply (R8_step cs s o th e s1 HR Es).
Qed.

Lemma accept_R8b cs : forall evs s o s', R8b cs s o -> no_stop_pending evs = true -> accept s evs = Some s' ->
  R8b cs s' (fold_left (obs_step cs) evs o).
Proof.
  induction evs as [|[th e] evs IH]; intros s o s' HR Hn H; cbn in *.
  - now injection H as <-.
  - destruct (step s (th, e)) as [s1|] eqn:Es; [|discriminate].
    apply andb_true_iff in Hn. destruct Hn as [Hn1 Hn]. apply negb_true_iff in Hn1.
    eapply IH; [|exact Hn|exact H]. apply (R8b_step cs s o th e s1 HR Hn1 Es).
Qed.

Lemma w_zombie_mono_fold cs evs : forall o, w_zombie (fold_left (obs_step cs) evs o) = false -> w_zombie o = false.
Proof.
  induction evs as [|e evs IH]; intros o H; [exact H|]. cbn in H.
  apply (flag_le_dup_zombie _ _ (obs_step_flags_mono cs o e)). now apply IH.
Qed.

(* what the flags computed at a creation event say about the older instances of the name *)
Lemma new_flags cs o th i n j y :
  get j (oi o) = Some y -> o_nm y = n ->
  (w_dup (obs_step cs o (th, ENewInst i n)) = false -> o_ended y = true) /\
  (w_dup (obs_step cs o (th, ENewInst i n)) = false -> w_zombie (obs_step cs o (th, ENewInst i n)) = false -> o_gone y = true).
Proof.
  intros Hj Hn. apply get_in_vals in Hj. unfold obs_step. cbn.
  assert (A : w_dup o || existsb (fun y0 : oinst => (o_nm y0 =? n)%N && negb (o_ended y0)) (vals (oi o)) = false -> o_ended y = true).
  { intros Hd. apply orb_false_iff in Hd. destruct Hd as [_ Hd].
    pose proof (existsb_false_in _ _ _ Hd Hj) as D. cbn in D. rewrite Hn, N.eqb_refl in D. cbn in D.
    now apply negb_false_iff in D. }
  split; [exact A|]. intros Hd Hz. specialize (A Hd).
  apply orb_false_iff in Hz. destruct Hz as [_ Hz].
  pose proof (existsb_false_in _ _ _ Hz Hj) as D. cbn in D. rewrite Hn, N.eqb_refl, A in D. cbn in D.
  now apply negb_false_iff in D.
Qed.

Theorem C08_created_after_exit_lemma : forall cs ord evs s,
  accept (init cs ord) evs = Some s -> w_dup (final_obs cs evs) = false ->
  w_zombie (final_obs cs evs) = false \/ no_stop_pending evs = true ->
  forall pre th i n post, evs = pre ++ (th, ENewInst i n) :: post ->
  forall j, get j (lv_inst (lv_of pre)) <> Some (n, true).
Proof.
  intros cs ord evs s Hacc Hd Hor pre th i n post -> j Hj.
  destruct (accept_app _ _ _ _ _ Hacc) as (s1 & s2 & Hpre & Hst & _).
  unfold final_obs in Hd, Hor. rewrite fold_left_app in Hd, Hor. cbn [fold_left] in Hd, Hor.
  fold (final_obs cs pre) in Hd, Hor. set (o := final_obs cs pre) in *.
  apply w_dup_mono_fold in Hd.
  destruct (View_final cs pre) as [_ Vi]. fold o in Vi. rewrite Vi in Hj.
  destruct (get j (oi o)) as [y|] eqn:Ey; [|discriminate]. cbn in Hj. injection Hj as Hn Hal.
  destruct (new_flags cs o th i n j y Ey Hn) as [Hen Hgo]. specialize (Hen Hd).
  destruct Hor as [Hz|Hnp].
  - (* outside the zombie window: the old instance is past inst_exit *)
    apply w_zombie_mono_fold in Hz. specialize (Hgo Hd Hz).
    pose proof (accept_R8 cs pre _ _ _ (R8_init cs ord) Hpre) as [HR HA _ _]. fold (final_obs cs pre) in HR, HA. fold o in HR, HA.
    destruct (get j (insts s1)) as [x|] eqn:Ex; [|rewrite (rc_noinst _ _ _ HR j Ex) in Ey; discriminate].
    destruct (HA j x y Ex Ey) as [A1 A2]. rewrite Hgo in A2.
    assert (Ha : alive x = true) by congruence.
    destruct (ok8_alive _ _ A2 Ha) as (_ & _ & Hc). discriminate Hc.
  - (* no stop of a Pending process: the old instance is inside or past its own onProcessEnd *)
    assert (Hnp1 : no_stop_pending pre = true).
    { unfold no_stop_pending in *. rewrite forallb_app in Hnp. now apply andb_true_iff in Hnp. }
    pose proof (accept_R8b cs pre _ _ _ (R8b_init cs ord) Hnp1 Hpre) as [[HR HA _ _] HH _ _].
    fold (final_obs cs pre) in HR, HA, HH. fold o in HR, HA, HH.
    destruct (get j (insts s1)) as [x|] eqn:Ex; [|rewrite (rc_noinst _ _ _ HR j Ex) in Ey; discriminate].
    destruct (HA j x y Ex Ey) as [A1 A2].
    assert (Ha : alive x = true) by congruence.
    destruct (ok8_alive _ _ A2 Ha) as (Hpc & _ & _).
    assert (Hh : hb y = true) by (unfold hb; rewrite Hen; now destruct (o_endst y)).
    pose proof (HH j x y Ex Ey Hh) as Hc. rewrite Hpc in Hc. discriminate Hc.
Qed.
