(* C03: concrete histories (refutations of the unconditional statement, necessity of the hypotheses,
   non-vacuity) and the declarative reading of the monitor. *)
From Coq Require Import List ZArith NArith Bool Lia.
From PC.Base Require Import Assoc.
From PC.Sup Require Import Model Monitors Check Sim ObsFacts RelC03 RelC03b RelC03x LemC03.
Import ListNotations.
Open Scope N_scope.

Definition c03_conf : pconf := mkConf [] PNo 0 0 false false false false false false false.
Definition c03_cs : amap pconf := [(0, c03_conf)].

(* F20/F21 (window commit): the instance has passed its "am I being terminated" check, the shutdown's stop
   finds it Pending, marks it terminated and returns; the command is launched after ShutDownProject returned. *)
Definition evs_c03_commit : list (tid * event) := [
  (1, EApiBegin OpRun); (1, ERegGet 0 None); (1, ENewInst 1 0); (1, EState 1 SPending); (1, ERegAdd 1 0); (1, ESpawn 1 0);
  (2, EBegin 1); (1, ERunSpawned); (2, ERunChecked false);
  (5, EApiBegin OpShutdown); (5, EShutdownCall); (5, EShutdownBegin); (5, EShutdownOrder [1]);
  (5, EStopEnter 1 true); (5, EStopPending 1); (5, EProcEnd 1 STerminating); (5, EState 1 STerminating); (5, EProcEnded 1 STerminating);
  (5, EStopReturn 1); (5, EShutdownEnd); (5, EShutdownUnlocked); (5, EApiReturn true);
  (2, EStarted); (2, EState 1 SRunning); (2, ELaunch true)].

Lemma c03_refuted : exists cs ord evs s, accept (init cs ord) evs = Some s /\ holds_C03 cs evs = false.
Proof. exists c03_cs, false, evs_c03_commit. eexists. split; vm_compute; reflexivity. Qed.

(* the history above went through the commit window only and nobody escaped the snapshot *)
Lemma c03_refuted_in_commit_window :
  windows_of (final_obs c03_cs evs_c03_commit) = [false; false; true; false; false; false; false] /\
  escapes_C03 c03_cs evs_c03_commit = false.
Proof. split; vm_compute; reflexivity. Qed.

(* The windows alone are not enough (finding): ShutDownProject completes before Run() is called; Run() then
   launches everything.  Accepted, no window flag at all, monitor false: part (1) of escapes_C03 is needed. *)
Definition evs_c03_run_after : list (tid * event) := [
  (5, EApiBegin OpShutdown); (5, EShutdownCall); (5, EShutdownBegin); (5, EShutdownOrder []); (5, EShutdownEnd);
  (5, EShutdownUnlocked); (5, EApiReturn true);
  (1, EApiBegin OpRun); (1, ERegGet 0 None); (1, ENewInst 1 0); (1, EState 1 SPending); (1, ERegAdd 1 0); (1, ESpawn 1 0);
  (2, EBegin 1); (1, ERunSpawned); (2, ERunChecked false); (2, EStarted); (2, EState 1 SRunning); (2, ELaunch true)].

Lemma c03_windows_not_enough :
  (exists s, accept (init c03_cs false) evs_c03_run_after = Some s) /\
  any_window (final_obs c03_cs evs_c03_run_after) = false /\ holds_C03 c03_cs evs_c03_run_after = false.
Proof. repeat split; try (eexists; vm_compute; reflexivity); vm_compute; reflexivity. Qed.

(* A StartProcess call that overlaps the shutdown (it has looked at the registry and created its instance before
   the shutdown took its snapshot, registers it when the shutdown has released the registry lock, the command is
   launched after ShutDownProject returned) is inside the theorem: no window, no escape (the instance is
   "excused"), and the monitor - which allows such a launch since clause (b) was weakened - holds. *)
Definition evs_c03_start_overlap : list (tid * event) := [
  (6, EApiBegin (OpStart 0)); (6, ERegGet 0 None); (6, EStartChecked 0 false); (6, ENewInst 1 0); (6, EState 1 SPending);
  (5, EApiBegin OpShutdown); (5, EShutdownCall); (5, EShutdownBegin); (5, EShutdownOrder []); (5, EShutdownEnd);
  (5, EShutdownUnlocked); (5, EApiReturn true);
  (6, ERegAdd 1 0); (6, ESpawn 1 0); (6, EApiReturn true);
  (2, EBegin 1); (2, ERunChecked false); (2, EStarted); (2, EState 1 SRunning); (2, ELaunch true)].

Lemma c03_start_overlap_covered :
  (exists s, accept (init c03_cs false) evs_c03_start_overlap = Some s) /\
  W_C03 (final_obs c03_cs evs_c03_start_overlap) = false /\ escapes_C03 c03_cs evs_c03_start_overlap = false /\
  holds_C03 c03_cs evs_c03_start_overlap = true.
Proof. repeat split; try (eexists; vm_compute; reflexivity); vm_compute; reflexivity. Qed.

(* non-vacuity: Run, launch, ShutDownProject (signal, exit, end), Run returns, then an explicit StartProcess
   launches a new instance - 53 events, accepted, no window, no escape, monitor holds *)
Definition evs_c03_ok : list (tid * event) := [
  (1, EApiBegin OpRun); (1, ERegGet 0 None); (1, ENewInst 1 0); (1, EState 1 SPending); (1, ERegAdd 1 0); (1, ESpawn 1 0);
  (2, EBegin 1); (1, ERunSpawned); (2, ERunChecked false); (2, EStarted); (2, EState 1 SRunning); (2, ELaunch true);
  (5, EApiBegin OpShutdown); (5, EShutdownCall); (5, EShutdownBegin); (5, EShutdownOrder [1]);
  (5, EStopEnter 1 true); (5, EStopRunning 1); (5, EState 1 STerminating); (5, ESignal 1 15%Z false); (5, EStopReturn 1);
  (9, ECmdExit 1 (-1)%Z); (2, EWaitReturn (-1)%Z); (2, EExitCode (-1)%Z); (2, ERestartDecision false);
  (2, EProcEnd 1 SCompleted); (2, EState 1 SCompleted); (2, EProcEnded 1 SCompleted); (2, ERunReturned (-1)%Z);
  (2, EDoneAdd 1); (2, EInstDone); (2, EInstExit);
  (5, EShutdownEnd); (5, EShutdownUnlocked); (5, EApiReturn true);
  (2, EWgDone); (2, ERegDel 1); (2, EInstGone);
  (1, ERunReturn 0%Z); (1, EApiReturn true);
  (7, EApiBegin (OpStart 0)); (7, ERegGet 0 None); (7, EStartChecked 0 false); (7, ENewInst 2 0); (7, EState 2 SPending);
  (7, ERegAdd 2 0); (7, ESpawn 2 0); (7, EApiReturn true);
  (3, EBegin 2); (3, ERunChecked false); (3, EStarted); (3, EState 2 SRunning); (3, ELaunch true)].

Lemma c03_nonvacuous :
  (exists s, accept (init c03_cs false) evs_c03_ok = Some s) /\
  W_C03 (final_obs c03_cs evs_c03_ok) = false /\ escapes_C03 c03_cs evs_c03_ok = false /\
  holds_C03 c03_cs evs_c03_ok = true /\ length evs_c03_ok = 53%nat /\
  In (5, EShutdownEnd) evs_c03_ok /\ In (3, ELaunch true) evs_c03_ok.
Proof. repeat split; try (eexists; vm_compute; reflexivity); try (vm_compute; reflexivity); cbn; tauto. Qed.

(* non-vacuity for the C03x theorem: distinct names, no window, the oracle holds on the 53-event history *)
Lemma c03x_nonvacuous :
  wf_confs c03_cs = true /\ W_C03 (final_obs c03_cs evs_c03_ok) = false /\ holds_C03x c03_cs evs_c03_ok = true.
Proof. repeat split; vm_compute; reflexivity. Qed.

(* ---- what the monitor says, position by position -------------------------------------------------------- *)
Lemma mon_run_at cs (m : obs -> tid * event -> bool) : forall pre o k e post,
  mon_run cs m o (pre ++ e :: post) k = None -> m (fold_left (obs_step cs) pre o) e = true.
Proof.
  induction pre as [|a pre IH]; intros o k e post H; cbn in *.
  - destruct (m o e); [reflexivity|discriminate].
  - destruct (m o a); [|discriminate]. eapply IH; eauto.
Qed.

Lemma holds_at cs m evs pre e post : holds cs m evs = true -> evs = pre ++ e :: post -> m cs (final_obs cs pre) e = true.
Proof.
  unfold holds, final_obs. intros H ->. destruct (mon_run _ _ _ _ _) eqn:E; [discriminate|].
  eapply mon_run_at; eauto.
Qed.

Theorem c03_declarative : forall cs ord evs s,
  accept (init cs ord) evs = Some s ->
  W_C03 (final_obs cs evs) = false ->
  escapes_C03 cs evs = false ->
  (forall pre th post, evs = pre ++ (th, EShutdownEnd) :: post ->
     let o := final_obs cs pre in
     forall i, In i (snap_of o th) ->
       o_alive (oi_get o i) = false /\ is_running_status (r_status (on_get o (o_nm (oi_get o i)))) = false) /\
  (forall pre th post i, evs = pre ++ (th, ELaunch true) :: post ->
     let o := final_obs cs pre in
     get th (o_th o) = Some i -> (0 < o_sd_done o)%nat ->
     In i (o_after_sd_spawn o) \/ (o_byapi (oi_get o i) = true /\ o_insnap (oi_get o i) = false)).
Proof.
  intros cs ord evs s Hacc HW Hesc. pose proof (C03_partial_lemma cs ord evs s Hacc HW Hesc) as Hh. unfold holds_C03 in Hh.
  split.
  - intros pre th post E o i Hi. pose proof (holds_at _ _ _ _ _ _ Hh E) as Hm. unfold mon_C03 in Hm. cbn [fst snd] in Hm.
    fold o in Hm. unfold snap_of in Hi. rewrite forallb_forall in Hm. specialize (Hm i Hi).
    apply andb_true_iff in Hm. destruct Hm as [H1 H2]. apply negb_true_iff in H1, H2. auto.
  - intros pre th post i E o Hth Hsd. pose proof (holds_at _ _ _ _ _ _ Hh E) as Hm. unfold mon_C03 in Hm. cbn [fst snd ev_inst] in Hm.
    fold o in Hm. rewrite Hth in Hm. apply Nat.ltb_lt in Hsd. rewrite Hsd in Hm. apply orb_true_iff in Hm.
    destruct Hm as [Hm|Hm]; [left; now apply memN_In|right]. apply andb_true_iff in Hm. destruct Hm as [H1 H2].
    apply negb_true_iff in H2. auto.
Qed.
