(* C02 simulation: instances never disappear (has_step); Rt is preserved by status writes (heavy, brute force). *)
From Coq Require Import List ZArith NArith Bool Lia.
From RecordUpdate Require Import RecordSet.
From PC.Base Require Import Assoc.
From PC.Sup Require Import Model Monitors Tactics Sim ObsFacts Effects RelCore LemC02 RelC02defs.
Import ListNotations RecordSetNotations.

Section RtC.
Context (cs : amap pconf).

Lemma has_step s th e s' : step_core s th e = Some s' -> forall j, has_inst s j -> has_inst s' j.
Proof.
  intros H j Hj.
  destruct (step_core_kind _ _ _ _ H) as [? ?|i x ? ? ? ? ? ?|H0|H0|H0|i s0 ? H0|i s0 b ? H0|H0|i ? H0|H0|H0]; subst; auto.
  - destruct Hj as [Hj Q]. split; [exact Hj|]. intros t. cbn. rewrite get_del. destruct (N.eqb i j); [discriminate|apply Q].
  - destruct e; kind_cases H0; try has_tac.
    all: destruct Hj as [Hj Q]; split; cbn; [try exact Hj|intros t; cbn; rewrite get_set; destruct (N.eqb_spec i j); [|apply Q]]; try discriminate.
    + rewrite get_set. destruct (N.eqb i j); [discriminate|exact Hj].
    + subst j. apply negb_true_iff in E0. unfold has in E0. destruct (get i (insts s)); [discriminate E0|contradiction].
  - destruct e; kind_cases H0; has_tac.
  - destruct e; kind_cases H0; has_tac.
  - kind_cases H0; has_tac.
  - kind_cases H0; has_tac.
  - destruct e; kind_cases H0; has_tac.
  - kind_cases H0; has_tac.
  - destruct e; kind_cases H0; has_tac.
  - destruct e; kind_cases H0; has_tac.
Qed.

Lemma Rt_step_state s o th i s0 s' : Rt s o -> (forall j, has_inst s j -> has_inst s' j) ->
  step_state s th i s0 = Some s' -> Rt s' o.
Proof.
  intros HRt Hh H. pose proof HRt as [H1 Ha Hb H2 H3 H4 He H5 H6].
  kind_cases H; split_andb; subst; rt_pre; rt_direct H1 Ha Hb H2 H3 H4 He H5 H6 Hh.
Qed.

End RtC.
