(* C04 enabledness, part 4: effect lemmas for the registries, the lookup results kept by a thread and the origin
   of IBlocked (brute force over the step kinds). *)
From Coq Require Import List ZArith NArith Bool Lia.
From RecordUpdate Require Import RecordSet.
From PC.Base Require Import Assoc.
From PC.Sup Require Import Model Monitors Tactics Sim ObsFacts Effects RelCore LemC04 LemC04i.
Import ListNotations RecordSetNotations.

(* a lookup result (name, instance) a thread holds *)
Definition lk_res (l : lookup_st) : option (name * iid) :=
  match l with LDone1 k (Some j) | LReg k (Some j) | LDone2 k (Some j) => Some (k, j) | _ => None end.

Lemma thread_lookup_res t k j : thread_lookup t k = Some (Some j) -> lk_res (lk t) = Some (k, j).
Proof.
  unfold thread_lookup, lk_res. destruct (lk t) as [|k1 [j1|]|k1|k1 [j1|]|k1 [j1|]]; try discriminate;
    destruct (N.eqb_spec k1 k); try discriminate; intros E; injection E as <-; subst; reflexivity.
Qed.

Definition regs_eff (s : sys) (th : tid) (e : event) (s' : sys) : Prop :=
  (forall k j, get k (running s') = Some j -> get k (running s) = Some j \/ exists x, get j (insts s) = Some x /\ nm x = k) /\
  (forall k j, get k (donereg s') = Some j -> get k (donereg s) = Some j \/ exists x, get j (insts s) = Some x /\ nm x = k) /\
  (forall k j, lk_res (lk (get_thread s' th)) = Some (k, j) ->
     lk_res (lk (get_thread s th)) = Some (k, j) \/ get k (running s) = Some j \/ get k (donereg s) = Some j).

Ltac map_leaf :=
  intros kk jj Hg;
  first [ left; exact Hg
        | rewrite get_set in Hg; destruct (N.eqb_spec _ kk); [injection Hg as <-; subst; right; eexists; split; [eassumption|first [reflexivity|assumption]]|left; exact Hg]
        | rewrite get_del in Hg; destruct (N.eqb _ kk); [discriminate Hg|left; exact Hg] ].

Ltac lk_leaf :=
  unfold get_thread; sup_goal; cbn -[get Assoc.set N.eqb]; sup_goal; cbn -[get Assoc.set N.eqb]; rewrite ?N.eqb_refl; cbn -[get Assoc.set N.eqb];
  intros kk jj Hg;
  first [ left; exact Hg
        | repeat match type of Hg with context[match ?b with _ => _ end] => destruct b eqn:? end; cbn in Hg; try discriminate Hg;
          injection Hg as <- <-; split_andb;
          repeat match goal with H : opt_eqb N.eqb _ _ = true |- _ => apply opt_eqb_N_eq in H end; subst;
          first [left; reflexivity | right; left; congruence | right; right; congruence | left; cbn; congruence] ].

Ltac regs_tac :=
  unfold regs_eff; destr_state; sup_goal; cbn -[get Assoc.set del N.eqb get_thread]; sup_goal; cbn -[get Assoc.set del N.eqb get_thread];
  split_andb; subst;
  (split; [try solve [map_leaf]|split; [try solve [map_leaf]|try solve [lk_leaf]]]).
Ltac regs_tac' := unfold regs_eff; destr_state; sup_goal; cbn -[get Assoc.set del N.eqb get_thread]; sup_goal; cbn -[get Assoc.set del N.eqb get_thread];
  split_andb; subst; (split; [map_leaf|split; [map_leaf|lk_leaf]]).

Lemma own_regs s th e s' : step_own s th e = Some s' -> regs_eff s th e s'.
Proof. intros H. destruct e; kind_cases H; regs_tac'.
Qed.
Lemma reg_regs s th e s' : step_reg s th e = Some s' -> regs_eff s th e s'.
Proof. intros H. destruct e; kind_cases H; regs_tac.
  - intros k j Hg. rewrite get_set in Hg. destruct (N.eqb_spec (nm i0) k); [injection Hg as <-; right; eauto|left; exact Hg].
  - rewrite N.eqb_refl. cbn. intros k j Hg. right. left.
    match goal with H : opt_eqb N.eqb _ _ = true |- _ => apply opt_eqb_N_eq in H end.
    destruct (lk (get_thread s th)) as [|k1 r1|k1|k1 r1|k1 r1]; cbn in Hg; try discriminate Hg.
    destruct (N.eqb_spec k1 n); cbn in Hg; try discriminate Hg. destruct found; try discriminate Hg. injection Hg as <- <-. congruence.
  - intros k j Hg. rewrite get_set in Hg. destruct (N.eqb_spec (nm i0) k); [injection Hg as <-; right; eauto|left; exact Hg].
  - rewrite N.eqb_refl. cbn. intros k j Hg. right. right.
    match goal with H : opt_eqb N.eqb _ _ = true |- _ => apply opt_eqb_N_eq in H end.
    destruct (lk (get_thread s th)) as [|k1 r1|k1|k1 [j1|]|k1 r1]; cbn in Hg;
      try (destruct (N.eqb_spec k1 n); cbn in Hg); destruct found; try discriminate Hg; injection Hg as <- <-; congruence.
Qed.


Lemma api_regs s th e s' : step_api s th e = Some s' -> regs_eff s th e s'.
Proof. intros H. destruct e; kind_cases H; regs_tac'. Qed.
Lemma stop_regs s th e s' : step_stop s th e = Some s' -> regs_eff s th e s'.
Proof. intros H. destruct e; kind_cases H; regs_tac'. Qed.
Lemma state_regs s th i s0 s' : step_state s th i s0 = Some s' -> regs_eff s th (EState i s0) s'.
Proof. intros H. kind_cases H; regs_tac'.
Qed.
Lemma procend_regs s th i s0 b s' : step_procend s th i s0 b = Some s' -> regs_eff s th (if b then EProcEnd i s0 else EProcEnded i s0) s'.
Proof. intros H. destruct b; kind_cases H; regs_tac'. Qed.
Lemma ordered_regs s th i s' : step_ordered_go s th i = Some s' -> regs_eff s th (EOrderedGo i) s'.
Proof. intros H. kind_cases H; regs_tac'. Qed.
Lemma env_regs s th e s' : step_env s th e = Some s' -> regs_eff s th e s'.
Proof. intros H. destruct e; kind_cases H; regs_tac'. Qed.
Lemma shutdown_regs s th e s' : step_shutdown s th e = Some s' -> regs_eff s th e s'.
Proof. intros H. destruct e; kind_cases H; try regs_tac'.
  unfold regs_eff. cbn -[get]. rewrite !(fold_upd_inst_proj running), !(fold_upd_inst_proj donereg);
    try (intros; first [apply upd_inst_running|apply upd_inst_donereg]).
  split; [auto|split; [auto|]]. unfold get_thread. cbn -[get N.eqb]. rewrite get_set_same. cbn. intros k j Hg. now left.
Qed.

Lemma core_regs s th e s' : step_core s th e = Some s' -> regs_eff s th e s'.
Proof.
  intros H. destruct (step_core_kind _ _ _ _ H) as [? ?|i x ? ? ? ? ? ? ?|Hk|Hk|Hk|i s0 ? Hk|i s0 b ? Hk|Hk|i ? Hk|Hk|Hk]; subst.
  - repeat split; auto.
  - repeat split; auto.
  - now apply reg_regs.
  - now apply api_regs.
  - now apply stop_regs.
  - now apply state_regs.
  - now apply procend_regs.
  - now apply shutdown_regs.
  - now apply ordered_regs.
  - now apply env_regs.
  - now apply own_regs.
Qed.


Lemma opt_opt_eqb_eq (a b : option (option iid)) : opt_eqb (opt_eqb N.eqb) a b = true -> a = b.
Proof. destruct a as [a|], b as [b|]; cbn; try discriminate; auto. intros H. apply opt_eqb_N_eq in H. now subst. Qed.

(* IBlocked k c j _ is entered only at the instance's own dep_wait, with condition and instance as looked up *)
Definition blk_eff (s : sys) (th : tid) (e : event) (s' : sys) : Prop :=
  forall i x, get i (insts s) = Some x -> exists x', get i (insts s') = Some x' /\ nm x' = nm x /\ cf x' = cf x /\
    forall k c j todo, pc x' = IBlocked k c j todo ->
      pc x = IBlocked k c j todo \/
      (get th (thinst s) = Some i /\ dep_cond (cf x) k = Some c /\ thread_lookup (get_thread s th) k = Some (Some j)).

Ltac blk_leaf :=
  cbn;
  repeat match goal with
  | |- context[match ?b with _ => _ end] => is_var b; destruct b
  | |- context[if ?b then _ else _] => destruct b eqn:?
  end; cbn;
  intros ? ? ? ? Hb;
  first [ left; exact Hb
        | discriminate Hb
        | left; repeat match goal with E : pc _ = _ |- _ => rewrite E in Hb end; discriminate Hb
        | injection Hb as <- <- <- <-; right; split; [first [reflexivity|assumption]|split; [assumption|]];
          match goal with H : opt_eqb (opt_eqb N.eqb) _ _ = true |- _ => apply opt_opt_eqb_eq in H; now rewrite <- H end ].

Ltac blk_tac :=
  intros jj xx Hjj;
  repeat (sup_goal; match goal with |- context[insts ?X] =>
    match X with
    | match ?b with _ => _ end => destruct b eqn:?
    | if ?b then _ else _ => destruct b eqn:?
    end end);
  sup_goal; cbn -[get Assoc.set N.eqb get_thread]; sup_goal; cbn -[get Assoc.set N.eqb get_thread];
  repeat match goal with
  | |- context[N.eqb ?a jj] => destruct (N.eqb_spec a jj); [subst|]
  end;
  repeat match goal with
  | H1 : get ?i ?m = Some ?a, H2 : get ?i ?m = Some ?b |- _ => assert (a = b) by congruence; subst; clear H2
  end;
  repeat match goal with H : get jj (insts _) = _ |- _ => rewrite H end; cbn [option_map];
  (eexists; split; [reflexivity|]);
  split_andb; subst;
  (split; [cbn; repeat match goal with |- context[if ?b then _ else _] => destruct b end; reflexivity
          |split; [cbn; repeat match goal with |- context[if ?b then _ else _] => destruct b end; reflexivity|try solve [blk_leaf]]]).

Lemma own_blk s th e s' : step_own s th e = Some s' -> blk_eff s th e s'.
Proof. intros H. unfold blk_eff. destruct e; kind_cases H; blk_tac.
Qed.
Lemma reg_blk s th e s' : step_reg s th e = Some s' -> (forall i n, e <> ENewInst i n) -> blk_eff s th e s'.
Proof. intros H Hn. unfold blk_eff. destruct e; try (exfalso; eapply Hn; reflexivity); kind_cases H; blk_tac. Qed.
Lemma api_blk s th e s' : step_api s th e = Some s' -> blk_eff s th e s'.
Proof. intros H. unfold blk_eff. destruct e; kind_cases H; blk_tac. Qed.
Lemma stop_blk s th e s' : step_stop s th e = Some s' -> blk_eff s th e s'.
Proof. intros H. unfold blk_eff. destruct e; kind_cases H; blk_tac. Qed.
Lemma ordered_blk s th i s' : step_ordered_go s th i = Some s' -> blk_eff s th (EOrderedGo i) s'.
Proof. intros H. unfold blk_eff. kind_cases H; blk_tac. Qed.
Lemma env_blk s th e s' : step_env s th e = Some s' -> blk_eff s th e s'.
Proof. intros H. unfold blk_eff. destruct e; kind_cases H; blk_tac. Qed.
Lemma procend_blk s th i s0 b s' : step_procend s th i s0 b = Some s' -> blk_eff s th (if b then EProcEnd i s0 else EProcEnded i s0) s'.
Proof. intros H. unfold blk_eff. destruct b; kind_cases H; blk_tac. Qed.
Lemma state_blk s th i s0 s' : step_state s th i s0 = Some s' -> blk_eff s th (EState i s0) s'.
Proof. intros H. unfold blk_eff. kind_cases H; blk_tac. Qed.

Lemma fold_stopped_get'' l : forall s j x, get j (insts s) = Some x ->
  exists x', get j (insts (fold_left (fun s i => upd_inst i (fun x => x <| f_stopped := true |>) s) l s)) = Some x' /\
             (x' = x \/ x' = x <| f_stopped := true |>).
Proof.
  induction l as [|a l IH]; intros s j x Hj; cbn; [eauto|].
  assert (exists y, get j (insts (upd_inst a (fun x => x <| f_stopped := true |>) s)) = Some y /\ (y = x \/ y = x <| f_stopped := true |>)) as (y & Hy & Hd).
  { rewrite insts_upd_inst. destruct (N.eqb a j); rewrite Hj; cbn; eauto. }
  destruct (IH _ _ _ Hy) as (x' & Hx' & Hd'). exists x'. split; [exact Hx'|].
  destruct Hd as [->| ->]; destruct Hd' as [->| ->]; auto.
Qed.

Lemma shutdown_blk s th e s' : step_shutdown s th e = Some s' -> blk_eff s th e s'.
Proof.
  intros H. unfold blk_eff. destruct e; kind_cases H; try blk_tac.
  intros j x Hj. cbn -[get].
  destruct (fold_stopped_get'' order s j x Hj) as (x' & Hx' & Hd). exists x'. split; [exact Hx'|].
  destruct Hd as [->| ->]; cbn; repeat split; auto.
Qed.

Lemma core_blk s th e s' : step_core s th e = Some s' -> blk_eff s th e s'.
Proof.
  intros H. destruct (step_core_kind _ _ _ _ H) as [? ?|i x ? ? ? ? ? ? ?|Hk|Hk|Hk|i s0 ? Hk|i s0 b ? Hk|Hk|i ? Hk|Hk|Hk]; subst.
  - intros j x Hj. exists x. repeat split; auto.
  - intros j y Hj. exists y. repeat split; auto.
  - destruct e; try (apply reg_blk; [exact Hk|intros; discriminate]).
    intros j x Hj. destruct (newinst_eff _ _ _ _ _ H) as (Hnone & c & Hget).
    exists x. rewrite Hget. destruct (N.eqb_spec i j); [subst; congruence|]. repeat split; auto.
  - now apply api_blk.
  - now apply stop_blk.
  - now apply state_blk.
  - now apply procend_blk.
  - now apply shutdown_blk.
  - now apply ordered_blk.
  - now apply env_blk.
  - now apply own_blk.
Qed.


