(* Simulation relation and proof for C08 (at most one live command per process name).
   See Props/C08.v for the statements.

   Relation:  R8 s o  :=  Rc s o                      (basic agreement, RelCore)
                       /\ every instance x with observer record y satisfies P8 x y:
                            o_alive y = alive x,
                            alive x -> pc x = IAlive and no uncollected exit code,
                            uncollected exit code -> pc x = IAlive,
                            o_gone y -> pc x is IWgDone / IGone   (the goroutine is past inst_exit)
                       /\ NoDup (keys (oi o))
                       /\ Pair8 o   (LemC08: outside the dup/zombie windows, of two instances of one name
                                     one has ended and its goroutine is gone). *)
From Coq Require Import List ZArith NArith Bool Lia.
From RecordUpdate Require Import RecordSet.
From PC.Base Require Import Assoc.
From PC.Sup Require Import Model Monitors Tactics Sim ObsFacts Effects RelCore LemC08.
Import ListNotations RecordSetNotations.

Definition alive_pc (p : ipc) : bool := match p with IAlive => true | _ => false end.
Definition gone_pc (p : ipc) : bool := match p with IWgDone | IGone => true | _ => false end.
Definition isnone {A} (o : option A) : bool := match o with None => true | Some _ => false end.

(* the model-side part of P8, with the observer's o_gone as parameter g *)
Definition ok8 (x : inst) (g : bool) : bool :=
  (negb (alive x) || (alive_pc (pc x) && isnone (exited x)))
  && (isnone (exited x) || alive_pc (pc x))
  && (negb g || gone_pc (pc x)).

Definition pres8 (x x' : inst) : Prop := alive x' = alive x /\ forall g, ok8 x g = true -> ok8 x' g = true.

(* a step that neither creates an instance nor changes [alive] and keeps ok8 *)
Definition step_ok8 (s s' : sys) : Prop :=
  forall j, match get j (insts s) with
            | Some x => exists x', get j (insts s') = Some x' /\ pres8 x x'
            | None => get j (insts s') = None
            end.

Lemma pres8_refl x : pres8 x x.
Proof. split; auto. Qed.
Lemma pres8_trans x y z : pres8 x y -> pres8 y z -> pres8 x z.
Proof. intros [A1 B1] [A2 B2]. split; [congruence|auto]. Qed.

Lemma step_ok8_refl s : step_ok8 s s.
Proof. intros j. destruct (get j (insts s)) as [x|]; eauto using pres8_refl. Qed.

Lemma step_ok8_trans s1 s2 s3 : step_ok8 s1 s2 -> step_ok8 s2 s3 -> step_ok8 s1 s3.
Proof.
  intros A B j. specialize (A j). specialize (B j). destruct (get j (insts s1)) as [x|].
  - destruct A as (x2 & E2 & P2). rewrite E2 in B. destruct B as (x3 & E3 & P3). eauto using pres8_trans.
  - now rewrite A in B.
Qed.

Lemma step_ok8_eq s s' : insts s' = insts s -> step_ok8 s s'.
Proof. intros E j. rewrite E. destruct (get j (insts s)) as [x|]; eauto using pres8_refl. Qed.

Lemma step_ok8_upd_inst i f s :
  (forall x, get i (insts s) = Some x -> pres8 x (f x)) -> step_ok8 s (upd_inst i f s).
Proof.
  intros Hf j. rewrite insts_upd_inst. destruct (N.eqb_spec i j).
  - subst j. destruct (get i (insts s)) as [x|] eqn:E; cbn; eauto.
  - destruct (get j (insts s)) as [x|]; eauto using pres8_refl.
Qed.

Lemma step_ok8_fold_upd_inst (f : inst -> inst) l :
  (forall x, pres8 x (f x)) -> forall s, step_ok8 s (fold_left (fun s i => upd_inst i f s) l s).
Proof.
  intros Hf. induction l as [|a l IH]; intros s; cbn; [apply step_ok8_refl|].
  eapply step_ok8_trans; [apply step_ok8_upd_inst; intros; apply Hf|apply IH].
Qed.

Lemma step_ok8_flush th s : step_ok8 s (flush th s).
Proof.
  intros j. pose proof (flush_insts th s j) as H. destruct (get j (insts s)) as [x|]; [|exact H].
  destruct H as (x' & E & L). exists x'. split; [exact E|].
  unfold inst_latch_le in L. destruct L as (_ & _ & Hpc & _ & Hal & Hex & _).
  split; [exact Hal|]. intros g. unfold ok8. now rewrite Hpc, Hal, Hex.
Qed.

(* f changes none of alive / pc / exited *)
Ltac pres8_global := intros; split; [reflexivity|intros g Hg; exact Hg].
(* f moves the pc of an instance whose current pc is known from the context *)
Ltac pres8_local :=
  let x := fresh "x" in let Hx := fresh "Hx" in
  intros x Hx; autorewrite with sup in Hx;
  rewrite ?N.eqb_refl in Hx;
  match goal with E : get ?i (insts ?s) = Some ?x0 |- _ =>
    rewrite E in Hx; cbn in Hx; injection Hx as <- end;
  split; [cbn; try reflexivity|];
  intros g; unfold ok8; cbn;
  repeat match goal with E : pc _ = _ |- _ => rewrite E end; cbn;
  repeat match goal with |- context[alive ?y] => destruct (alive y) end;
  repeat match goal with |- context[exited ?y] => destruct (exited y) end;
  destruct g; cbn; intros; try discriminate; try reflexivity; destruct_matches; try discriminate; reflexivity.

Ltac step_ok8_close :=
  unfold set_pc, end_release_early, end_finish, write_status;
  repeat first
  [ apply step_ok8_refl
  | match goal with
    | |- step_ok8 ?s (upd_inst ?i ?f ?X) =>
        apply (step_ok8_trans s X); [|apply step_ok8_upd_inst; first [pres8_global | pres8_local]]
    | |- step_ok8 ?s (upd_vis ?n ?f ?X) =>
        apply (step_ok8_trans s X); [|apply step_ok8_eq; apply upd_vis_insts]
    | |- step_ok8 ?s (fold_left (fun s i => upd_inst i ?f s) ?l ?X) =>
        apply (step_ok8_trans s X); [|apply step_ok8_fold_upd_inst; pres8_global]
    | |- step_ok8 ?s (set_thread ?th ?t ?X) =>
        apply (step_ok8_trans s X); [|apply step_ok8_eq; reflexivity]
    | |- step_ok8 ?s (RecordSet.set _ _ ?X) =>
        apply (step_ok8_trans s X); [|apply step_ok8_eq; reflexivity]
    | |- step_ok8 ?s (if ?b then _ else _) => destruct b
    | |- step_ok8 ?s (match ?b with _ => _ end) => destruct b
    end ].

(* (RelCore's kind_cases is local to a section there) *)
Ltac kind_cases H :=
  unfold_steps H; unfold own_inst in H; cbn [fst snd] in H; break_step H;
  repeat match goal with E : (match _ with _ => _ end) = Some _ |- _ => break_step E end;
  repeat match goal with E : _ = ?s' |- _ => is_var s'; subst s' end.

(* events at which the model creates an instance or changes [alive] *)
Definition model_special8 (e : event) : bool :=
  match e with ENewInst _ _ | ELaunch true | ECmdExit _ _ => true | _ => false end.

Lemma step_reg_ok8 s th e s' : model_special8 e = false -> step_reg s th e = Some s' -> step_ok8 s s'.
Proof. intros Hex H. destruct e; try discriminate Hex; kind_cases H; step_ok8_close. Qed.
Lemma step_stop_ok8 s th e s' : step_stop s th e = Some s' -> step_ok8 s s'.
Proof. intros H. destruct e; kind_cases H; step_ok8_close. Qed.
Lemma step_shutdown_ok8 s th e s' : step_shutdown s th e = Some s' -> step_ok8 s s'.
Proof. intros H. destruct e; kind_cases H; step_ok8_close. Qed.
Lemma step_env_ok8 s th e s' : model_special8 e = false -> step_env s th e = Some s' -> step_ok8 s s'.
Proof. intros Hex H. destruct e; try discriminate Hex; kind_cases H; step_ok8_close. Qed.
Lemma step_api_ok8 s th e s' : step_api s th e = Some s' -> step_ok8 s s'.
Proof. intros H. destruct e; kind_cases H; step_ok8_close. Qed.
Lemma step_procend_ok8 s th i s0 b s' : step_procend s th i s0 b = Some s' -> step_ok8 s s'.
Proof. intros H. kind_cases H; step_ok8_close. Qed.
Lemma step_ordered_ok8 s th i s' : step_ordered_go s th i = Some s' -> step_ok8 s s'.
Proof. intros H. kind_cases H; step_ok8_close. Qed.
Lemma step_state_ok8 s th i s0 s' : step_state s th i s0 = Some s' -> step_ok8 s s'.
Proof. intros H. kind_cases H; step_ok8_close. Qed.
Lemma step_own_ok8 s th e s' : model_special8 e = false -> step_own s th e = Some s' -> step_ok8 s s'.
Proof.
  intros Hex H. destruct e; try discriminate Hex; kind_cases H; try discriminate Hex;
  try (match goal with ok : bool |- _ => destruct ok; try discriminate Hex end); step_ok8_close.
Qed.

Lemma step_core_ok8 s th e s' : model_special8 e = false -> step_core s th e = Some s' -> step_ok8 s s'.
Proof.
  intros Hex H. destruct (step_core_kind _ _ _ _ H) as [? ?|i x ? ? ? ? ? ?| | | |i s0 ? ?|i s0 b ? ?| |i ? ?| | ]; subst;
    try discriminate Hex;
    eauto using step_ok8_refl, step_reg_ok8, step_stop_ok8, step_shutdown_ok8, step_env_ok8, step_api_ok8,
                step_procend_ok8, step_ordered_ok8, step_own_ok8, step_state_ok8.
  apply step_ok8_eq. reflexivity.
Qed.

(* ---- the per-instance clause -------------------------------------------------------------------------- *)
Definition P8 (x : inst) (y : oinst) : Prop := o_alive y = alive x /\ ok8 x (o_gone y) = true.

Definition AllP8 (s : sys) (o : obs) : Prop :=
  forall i x y, get i (insts s) = Some x -> get i (oi o) = Some y -> P8 x y.

Lemma ok8_alive x g : ok8 x g = true -> alive x = true -> pc x = IAlive /\ exited x = None /\ g = false.
Proof.
  unfold ok8. intros H Ha. rewrite Ha in H. cbn in H. destruct (pc x); cbn in H; try discriminate.
  destruct (exited x); cbn in H; try discriminate. destruct g; cbn in H; try discriminate. auto.
Qed.

Lemma ok8_gone x g : ok8 x g = true -> gone_pc (pc x) = true -> ok8 x true = true.
Proof.
  unfold ok8. intros H Hg. rewrite Hg. apply andb_true_iff in H. destruct H as [H _]. rewrite H. reflexivity.
Qed.

Lemma ok8_notgone x g : ok8 x g = true -> gone_pc (pc x) = false -> g = false.
Proof.
  unfold ok8. intros H Hg. rewrite Hg in H. destruct g; [|reflexivity].
  rewrite andb_false_r in H. discriminate.
Qed.

Lemma refresh_get_P8 o j y' : get j (oi (refresh_succ o)) = Some y' ->
  exists y, get j (oi o) = Some y /\ o_alive y' = o_alive y /\ o_gone y' = o_gone y /\ o_nm y' = o_nm y.
Proof.
  rewrite refresh_get. destruct (get j (oi o)) as [y|]; cbn; [|discriminate].
  intros E. injection E as <-. exists y. split; [reflexivity|]. destruct (_ && _); cbn; auto.
Qed.

Lemma AllP8_frame s o s' o' : AllP8 s o -> step_ok8 s s' -> frame8 true o o' -> AllP8 s' o'.
Proof.
  intros HA HS [_ HF] i x' y' Ex' Ey'. specialize (HS i). specialize (HF i).
  destruct (get i (insts s)) as [x|] eqn:Ex; [|congruence].
  destruct (get i (oi o)) as [y|] eqn:Ey; [|congruence].
  destruct HS as (x2 & Ex2 & Ha & Hok). destruct HF as (y2 & Ey2 & _ & _ & _ & Hb).
  destruct (Hb eq_refl) as [Hal Hg]. assert (x2 = x') by congruence. assert (y2 = y') by congruence. subst x2 y2.
  destruct (HA i x y Ex Ey) as [A1 A2]. split; [congruence|]. rewrite Hg. now apply Hok.
Qed.

(* the model updates instance i by f, the observer updates its record by fo *)
Lemma AllP8_upd s o i x0 f fo :
  AllP8 s o -> get i (insts s) = Some x0 ->
  (forall y, get i (oi o) = Some y -> P8 x0 y -> P8 (f x0) (fo y)) ->
  AllP8 (upd_inst i f s) (refresh_succ (oi_upd i fo o)).
Proof.
  intros HA Ex0 Hf j x' y' Ex' Ey'.
  apply refresh_get_P8 in Ey'. destruct Ey' as (y1 & Ey1 & Hal & Hg & _).
  rewrite insts_upd_inst in Ex'. rewrite oi_upd_get in Ey1.
  assert (P8 x' y1) as [B1 B2].
  { destruct (N.eqb_spec i j).
    - subst j. rewrite Ex0 in Ex'. cbn in Ex'. injection Ex' as <-.
      destruct (get i (oi o)) as [y|] eqn:Ey; cbn in Ey1; [|discriminate]. injection Ey1 as <-.
      apply Hf; [reflexivity|]. now apply (HA i).
    - now apply (HA j). }
  split; [congruence|]. now rewrite Hg.
Qed.

(* the own goroutine of instance i passes inst_exit *)
Lemma AllP8_gone s o s' i :
  AllP8 s o -> step_ok8 s s' ->
  (forall x', get i (insts s') = Some x' -> gone_pc (pc x') = true) ->
  AllP8 s' (refresh_succ (oi_upd i (fun x => x <| o_gone := true |>) o)).
Proof.
  intros HA HS Hi j x' y' Ex' Ey'.
  apply refresh_get_P8 in Ey'. destruct Ey' as (y1 & Ey1 & Hal & Hg & _).
  rewrite oi_upd_get in Ey1. specialize (HS j).
  destruct (get j (insts s)) as [x|] eqn:Ex; [|congruence].
  destruct HS as (x2 & Ex2 & Ha & Hok). assert (x2 = x') by congruence. subst x2.
  destruct (get j (oi o)) as [y|] eqn:Ey; [|destruct (N.eqb i j); discriminate].
  destruct (HA j x y Ex Ey) as [A1 A2]. specialize (Hok _ A2).
  destruct (N.eqb_spec i j); cbn in Ey1; injection Ey1 as <-.
  - subst j. split; [cbn in Hal; congruence|]. rewrite Hg. cbn. eapply ok8_gone; eauto.
  - split; [congruence|]. now rewrite Hg.
Qed.

(* ---- the relation --------------------------------------------------------------------------------- *)
Definition W_C08 (o : obs) : bool := w_dup o || w_zombie o.

Section RelC08.
Context (cs : amap pconf).

Record R8 (s : sys) (o : obs) : Prop := mkR8 {
  r8_core : Rc cs s o;
  r8_inst : AllP8 s o;
  r8_nodup : NoDup (keys (oi o));
  r8_pair : Pair8 o }.

Lemma R8_init ord : R8 (init cs ord) (obs0 cs).
Proof.
  constructor.
  - apply Rc_init.
  - intros i x y E. discriminate E.
  - cbn. constructor.
  - apply Pair8_init.
Qed.

(* the monitor's check at a successful launch *)
Lemma R8_launch_mon s o th i x :
  R8 s o -> get th (thinst s) = Some i -> get i (insts s) = Some x -> pc x = IStateSet ->
  mon_C08 cs o (th, ELaunch true) = true \/ W_C08 o = true.
Proof.
  intros [HR HA Hnd HP] Et Ex Hpc.
  destruct (W_C08 o) eqn:HW; [now right|left].
  unfold W_C08 in HW. apply orb_false_iff in HW. destruct HW as [Hd Hz].
  unfold mon_C08. cbn [fst snd ev_inst]. rewrite <- (rc_th _ _ _ HR), Et.
  destruct (rc_inst _ _ _ HR i x Ex) as (yi & Eyi & Hni & _).
  unfold oi_get. rewrite Eyi.
  apply forallb_forall. intros [j y] Hin. cbn [fst snd].
  destruct (N.eqb_spec j i); [now rewrite orb_true_r|]. rewrite orb_false_r.
  apply negb_true_iff. destruct (N.eqb_spec (o_nm y) (o_nm yi)) as [Hn|]; [|reflexivity]. cbn.
  destruct (o_alive y) eqn:Hal; [exfalso|reflexivity].
  pose proof (in_get_nodup _ _ _ Hnd Hin) as Ey.
  destruct (get j (insts s)) as [xj|] eqn:Exj; [|rewrite (rc_noinst _ _ _ HR j Exj) in Ey; discriminate].
  destruct (HA j xj y Exj Ey) as [A1 A2]. destruct (HA i x yi Ex Eyi) as [B1 B2].
  assert (Haj : alive xj = true) by congruence.
  destruct (ok8_alive _ _ A2 Haj) as (_ & _ & Hgj).
  assert (Hgi : o_gone yi = false) by (apply (ok8_notgone _ _ B2); now rewrite Hpc).
  destruct (HP Hd Hz j i y yi n Ey Eyi Hn) as [D|D]; unfold done8 in D; apply andb_true_iff in D; destruct D; congruence.
Qed.

Lemma mon_C08_other o th e : e <> ELaunch true -> mon_C08 cs o (th, e) = true.
Proof.
  intros Hne. destruct e; try reflexivity. destruct ok; [congruence|].
  unfold mon_C08. cbn. destruct (get th (o_th o)); reflexivity.
Qed.

Lemma R8_step s o th e s' : R8 s o -> step s (th, e) = Some s' ->
  R8 s' (obs_step cs o (th, e)) /\ (mon_C08 cs o (th, e) = true \/ W_C08 o = true).
Proof.
  intros HR8 H. pose proof HR8 as [HR HA Hnd HP].
  assert (HRc' : Rc cs s' (obs_step cs o (th, e))) by (eapply Rc_step; eauto).
  pose proof (obs_step_nodup cs o (th, e) Hnd) as Hnd'.
  pose proof (Pair8_step cs o (th, e) HP) as HP'.
  unfold step in H. cbn [fst snd] in H.
  assert (HA0 : AllP8 (flush th s) o) by (eapply AllP8_frame; eauto using step_ok8_flush, frame8_refl).
  assert (HR0 : Rc cs (flush th s) o) by (eapply Rc_sys_same; eauto using sys_same_flush).
  assert (HR80 : R8 (flush th s) o) by (constructor; assumption).
  set (s0 := flush th s) in *. clearbody s0. clear HR8 HR HA s.
  enough (AllP8 s' (obs_step cs o (th, e)) /\ (mon_C08 cs o (th, e) = true \/ W_C08 o = true)) as [HA' Hm]
    by (split; [constructor; assumption|exact Hm]).
  destruct (model_special8 e || special8 e) eqn:Hsp.
  2:{ apply orb_false_iff in Hsp. destruct Hsp as [Hms Hs].
      assert (Hn : is_new e = false) by (destruct e; try reflexivity; discriminate Hms).
      split.
      - eapply AllP8_frame; [exact HA0|eapply step_core_ok8; eauto|].
        pose proof (obs_step_frame8 cs o th e Hn) as F. now rewrite Hs in F.
      - left. apply mon_C08_other. intros ->. discriminate Hms. }
  destruct e; try discriminate Hsp.
  - (* ENewInst *)
    split; [|left; apply mon_C08_other; discriminate].
    cbn in H. unfold step_reg in H. break_step H. subst s'.
    apply negb_true_iff in E0. unfold has in E0. destruct (get i (insts s0)) eqn:Ei; [discriminate|].
    intros j x' y' Ex' Ey'. unfold obs_step in Ey'. cbn [fst snd] in Ey'.
    apply refresh_get_P8 in Ey'. destruct Ey' as (y1 & Ey1 & Hal & Hg & _).
    unfold set_stage in Ex'. cbn [insts oi RecordSet.set eta_sys eta_obs] in Ex', Ey1. rewrite get_set in Ex'. rewrite get_set in Ey1. destruct (N.eqb_spec i j).
    + injection Ex' as <-. injection Ey1 as <-. split; [rewrite Hal; reflexivity|]. rewrite Hg. reflexivity.
    + destruct (HA0 j x' y1 Ex' Ey1) as [A1 A2]. split; [congruence|]. now rewrite Hg.
  - (* ELaunch *)
    destruct ok; [|discriminate Hsp].
    cbn in H. unfold step_own, own_inst in H.
    destruct (get th (thinst s0)) as [i|] eqn:Et; [|discriminate].
    destruct (get i (insts s0)) as [x|] eqn:Ex; [|discriminate].
    destruct (Rc_own _ _ _ _ _ _ HR0 Et Ex) as [Hth Hn].
    destruct (pc x) eqn:Hpc; try discriminate H. break_step H. subst s'.
    split; [|eapply R8_launch_mon; eauto].
    unfold obs_step. cbn [fst snd ev_inst]. rewrite Hth.
    apply (AllP8_upd s0 o i x); [exact HA0|exact Ex|].
    intros y Ey [A1 A2]. split; [reflexivity|]. cbn.
    unfold ok8 in *. rewrite Hpc in A2. cbn in *.
    destruct (alive x); cbn in A2; [discriminate|]. destruct (exited x); cbn in A2; [discriminate|].
    destruct (o_gone y); cbn in A2; [discriminate|]. reflexivity.
  - (* EInstExit *)
    split; [|left; apply mon_C08_other; discriminate].
    assert (HS : step_ok8 s0 s') by (apply (step_core_ok8 s0 th EInstExit s' eq_refl H)).
    cbn in H. unfold step_own, own_inst in H.
    destruct (get th (thinst s0)) as [i|] eqn:Et; [|discriminate].
    destruct (get i (insts s0)) as [x|] eqn:Ex; [|discriminate].
    destruct (Rc_own _ _ _ _ _ _ HR0 Et Ex) as [Hth Hn].
    unfold obs_step. cbn [fst snd ev_inst]. rewrite Hth.
    apply (AllP8_gone s0 o s' i HA0 HS).
    intros x' Ex'. break_step H; subst s'; sup_simpl; rewrite N.eqb_refl, Ex in Ex'; cbn in Ex'; injection Ex' as <-; reflexivity.
  - (* ECmdExit *)
    split; [|left; apply mon_C08_other; discriminate].
    cbn in H. unfold step_env in H. break_step H. subst s'.
    unfold obs_step. cbn [fst snd ev_inst].
    apply (AllP8_upd s0 o i i0); [exact HA0|exact E|].
    intros y Ey [A1 A2]. split; [reflexivity|].
    destruct (ok8_alive _ _ A2 E0) as (Hpc & Hex & Hg). unfold ok8. cbn. rewrite Hpc, Hg. reflexivity.
Qed.

End RelC08.

(* ---- the theorem ------------------------------------------------------------------------------------ *)
Lemma W_C08_mono cs o e : W_C08 o = true -> W_C08 (obs_step cs o e) = true.
Proof.
  unfold W_C08. intros H.
  destruct (flag_le_dup_zombie _ _ (obs_step_flags_mono cs o e)) as [Hd Hz].
  apply orb_true_iff in H. apply orb_true_iff. destruct H as [H|H].
  - left. destruct (w_dup (obs_step cs o e)) eqn:E; [reflexivity|]. rewrite Hd in H by reflexivity. discriminate.
  - right. destruct (w_zombie (obs_step cs o e)) eqn:E; [reflexivity|]. rewrite Hz in H by reflexivity. discriminate.
Qed.

Theorem C08_main_lemma : forall cs ord evs s,
  accept (init cs ord) evs = Some s -> W_C08 (final_obs cs evs) = false -> holds_C08 cs evs = true.
Proof.
  intros cs ord evs s Hacc HW.
  change (holds cs (fun _ => mon_C08 cs) evs = true).
  refine (sim_holds_partial cs ord (R8 cs) (mon_C08 cs) W_C08 (R8_init cs ord) _ (W_C08_mono cs) evs s Hacc HW).
  intros s0 o [th e] s' HR Hs. exact (R8_step cs s0 o th e s' HR Hs).
Qed.

(* the same with the two flags spelled out, and with the predicate the checks use (no window at all) *)
Lemma C08_main_flags_lemma : forall cs ord evs s,
  accept (init cs ord) evs = Some s ->
  w_dup (final_obs cs evs) = false -> w_zombie (final_obs cs evs) = false -> holds_C08 cs evs = true.
Proof.
  intros cs ord evs s Hacc Hd Hz. apply (C08_main_lemma cs ord evs s Hacc). unfold W_C08. now rewrite Hd, Hz.
Qed.

Lemma C08_no_windows_lemma : forall cs ord evs s,
  accept (init cs ord) evs = Some s -> no_windows cs evs = true -> holds_C08 cs evs = true.
Proof.
  intros cs ord evs s Hacc Hn. apply (C08_main_lemma cs ord evs s Hacc).
  unfold no_windows, windows_of in Hn. apply negb_true_iff in Hn. cbn in Hn.
  unfold W_C08. destruct (w_zombie _); [discriminate Hn|]. destruct (w_dup _); [|reflexivity].
  cbn in Hn. rewrite !orb_true_r in Hn. discriminate Hn.
Qed.
