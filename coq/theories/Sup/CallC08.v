(* C08, the clauses about the API calls themselves (hardened model only: they rest on `creates`):
   a per-thread view [cv] of the history records, for the call a thread is executing, the operation,
   the outcome of its "is it running?" check, and how many instances it created / spawned and how
   many stops it requested.  [call_ret_ok] is what must hold when the call returns, [create_ok] what must
   hold when the thread creates or spawns an instance.  No window hypothesis is needed. *)
From Coq Require Import List ZArith NArith Bool Lia.
From RecordUpdate Require Import RecordSet.
From PC.Base Require Import Assoc.
From PC.Sup Require Import Model Monitors Tactics Sim ObsFacts Effects RelCore Agreement RelC08.
Import ListNotations RecordSetNotations.

Record call := mkCall { c_op : apiop; c_found : option bool; c_created : nat; c_spawned : nat; c_stops : nat }.
#[export] Instance eta_call : Settable _ := settable! mkCall <c_op; c_found; c_created; c_spawned; c_stops>.

Definition cv_upd (th : tid) (f : call -> call) (m : amap call) : amap call :=
  match get th m with Some c => set th (f c) m | None => m end.

Definition isSomeb {A} (o : option A) : bool := match o with Some _ => true | None => false end.

Definition cv_step (m : amap call) (te : tid * event) : amap call :=
  let th := fst te in
  match snd te with
  | EApiBegin op => set th (mkCall op None 0 0 0) m
  | EStartChecked _ found => cv_upd th (fun c => c <| c_found := Some found |>) m
  | EStopChecked _ found => cv_upd th (fun c => c <| c_found := Some (isSomeb found) |>) m
  | ERestartChecked _ found => cv_upd th (fun c => c <| c_found := Some (isSomeb found) |>) m
  | ENewInst _ _ => cv_upd th (fun c => c <| c_created := S (c_created c) |>) m
  | ESpawn _ _ => cv_upd th (fun c => c <| c_spawned := S (c_spawned c) |>) m
  | ENoRestart _ => cv_upd th (fun c => c <| c_stops := S (c_stops c) |>) m
  | EApiReturn _ => del th m
  | _ => m
  end.
Definition cv_of (evs : list (tid * event)) : amap call := fold_left cv_step evs [].

(* a thread may create / spawn an instance of process n only inside Run, inside StartProcess(n) after
   its check found no running instance, or inside RestartProcess(n); Start/Restart: only before their one spawn *)
Definition create_ok (c : option call) (n : name) : bool :=
  match c with
  | Some c => match c_op c with
              | OpRun => true
              | OpStart n' => N.eqb n n' && opt_eqb Bool.eqb (c_found c) (Some false) && Nat.eqb (c_spawned c) 0 && Nat.eqb (c_stops c) 0
              | OpRestart n' => N.eqb n n' && Nat.eqb (c_spawned c) 0
              | _ => false
              end
  | None => false
  end.

(* what holds when a call returns ok *)
Definition call_ret_ok (cs : amap pconf) (c : option call) (ok : bool) : bool :=
  match c with
  | Some c =>
      match c_op c with
      | OpStart n =>
          (* succeeds iff its check found no running instance and the process is configured; then it spawned
             exactly one instance; otherwise it created nothing; it never requests a stop *)
          Bool.eqb ok (opt_eqb Bool.eqb (c_found c) (Some false) && has n cs)
          && Nat.eqb (c_spawned c) (if ok then 1 else 0) && (ok || Nat.eqb (c_created c) 0) && Nat.eqb (c_stops c) 0
      | OpRestart n =>
          (* succeeds iff the process is configured; then exactly one new instance was spawned; an unknown
             name fails and creates nothing; a stop is requested only if the check found an instance *)
          Bool.eqb ok (has n cs) && isSomeb (c_found c)
          && Nat.eqb (c_spawned c) (if ok then 1 else 0) && (ok || Nat.eqb (c_created c) 0)
          && (opt_eqb Bool.eqb (c_found c) (Some true) || Nat.eqb (c_stops c) 0)
      | OpStop n =>
          (* succeeds iff its check found an instance; never creates anything; no stop request when it fails *)
          Bool.eqb ok (opt_eqb Bool.eqb (c_found c) (Some true))
          && Nat.eqb (c_spawned c) 0 && Nat.eqb (c_created c) 0 && (ok || Nat.eqb (c_stops c) 0)
      | _ => true
      end
  | None => false
  end.

Definition mon_call (cs : amap pconf) (m : amap call) (te : tid * event) : bool :=
  match snd te with
  | ENewInst _ n | ESpawn _ n => create_ok (get (fst te) m) n
  | EApiReturn ok => call_ret_ok cs (get (fst te) m) ok
  | _ => true
  end.

(* ---- the relation: the call view agrees with the thread's API program counter ------------------------ *)
Definition z (n : nat) : bool := Nat.eqb n 0.
Definition fnd (c : call) (b : option bool) : bool := opt_eqb Bool.eqb (c_found c) b.

Definition phase_ok (cs : amap pconf) (c : option call) (a : apipc) : bool :=
  match c with
  | None => match a with ANone | AReturned => true | _ => false end
  | Some c =>
      match c_op c, a with
      | OpRun, (ARun _ | ARunWait | ARunDone _) => true
      | OpShutdown, (AShutdown | AShutdownDone) => true
      | OpStart n, AStart n' => N.eqb n n' && fnd c None && z (c_created c) && z (c_spawned c) && z (c_stops c)
      | OpStart n, AStartSpawn n' => N.eqb n n' && fnd c (Some false) && z (c_spawned c) && z (c_stops c) && has n cs
      | OpStart n, AFail => (fnd c (Some true) || (fnd c (Some false) && negb (has n cs))) && z (c_created c) && z (c_spawned c) && z (c_stops c)
      | OpStart n, AOk => fnd c (Some false) && has n cs && Nat.eqb (c_spawned c) 1 && z (c_stops c)
      | OpStop n, AStop n' => N.eqb n n' && fnd c None && z (c_created c) && z (c_spawned c) && z (c_stops c)
      | OpStop n, AStopping _ => fnd c (Some true) && z (c_created c) && z (c_spawned c)
      | OpStop n, AFail => fnd c (Some false) && z (c_created c) && z (c_spawned c) && z (c_stops c)
      | OpRestart n, ARestart n' => N.eqb n n' && fnd c None && z (c_created c) && z (c_spawned c) && z (c_stops c)
      | OpRestart n, ARestartStopping n' _ => N.eqb n n' && fnd c (Some true) && z (c_created c) && z (c_spawned c)
      | OpRestart n, ARestartSpawn n' => N.eqb n n' && isSomeb (c_found c) && z (c_spawned c) && has n cs
                                         && (fnd c (Some true) || z (c_stops c))
      | OpRestart n, AFail => isSomeb (c_found c) && z (c_created c) && z (c_spawned c) && negb (has n cs)
                              && (fnd c (Some true) || z (c_stops c))
      | OpRestart n, AOk => isSomeb (c_found c) && Nat.eqb (c_spawned c) 1 && has n cs && (fnd c (Some true) || z (c_stops c))
      | _, _ => false
      end
  end.

Definition apc_of (s : sys) (th : tid) : apipc := apc (get_thread s th).

Definition CR (cs : amap pconf) (s : sys) (m : amap call) : Prop :=
  forall th, phase_ok cs (get th m) (apc_of s th) = true.

Lemma CR_init cs ord : CR cs (init cs ord) [].
Proof. intros th. reflexivity. Qed.

(* ---- model side: who can change a thread's API program counter ---------------------------------------- *)
Lemma apc_of_flush th s th' : apc_of (flush th s) th' = apc_of s th'.
Proof.
  unfold apc_of, flush. destruct (get th (threads s)) as [t|] eqn:Et; [|reflexivity].
  destruct (pend t) as [r|] eqn:Ep; [|reflexivity].
  assert (H : forall X, threads X = threads (set_thread th (t <| pend := None |>) s) -> apc (get_thread X th') = apc (get_thread s th')).
  { intros X HX. unfold get_thread. rewrite HX, threads_set_thread. destruct (N.eqb_spec th th'); [subst; now rewrite Et|reflexivity]. }
  destruct r; unfold apply_release, end_release_early; try (destruct (code_set _)); apply H; autorewrite with sup; reflexivity.
Qed.

Definition api_event (e : event) : bool :=
  match e with
  | ESpawn _ _ | EApiBegin _ | EStartChecked _ _ | EStopChecked _ _ | ERestartChecked _ _ | ERestartStopped _
  | EApiReturn _ | ERunSpawned | ERunReturn _ | ENoRestart _ | EShutdownUnlocked => true
  | _ => false
  end.

(* frame: [apc_same th b s s']: threads other than th keep their apc; th keeps it too when b *)
Definition apc_same (th : tid) (b : bool) (s s' : sys) : Prop :=
  forall th', (b = true \/ th' <> th) -> apc_of s' th' = apc_of s th'.

Lemma apc_same_refl th b s : apc_same th b s s.
Proof. intros th' _. reflexivity. Qed.
Lemma apc_same_trans th b s1 s2 s3 : apc_same th b s1 s2 -> apc_same th b s2 s3 -> apc_same th b s1 s3.
Proof. intros A B th' H. rewrite (B th' H). apply A, H. Qed.
Lemma apc_same_eq th b s s' : threads s' = threads s -> apc_same th b s s'.
Proof. intros E th' _. unfold apc_of, get_thread. now rewrite E. Qed.
Lemma apc_same_set_thread th b t s : (b = true -> apc t = apc_of s th) -> apc_same th b s (set_thread th t s).
Proof.
  intros Ht th' H. unfold apc_of. rewrite get_thread_set_thread. destruct (N.eqb_spec th th'); [|reflexivity].
  subst th'. destruct H as [H|H]; [now apply Ht|contradiction].
Qed.
Lemma threads_fold_upd_inst (f : inst -> inst) l : forall s, threads (fold_left (fun s i => upd_inst i f s) l s) = threads s.
Proof. induction l as [|a l IH]; intros s; cbn; [reflexivity|]. now rewrite IH, upd_inst_threads. Qed.

Ltac kind_cases H :=
  unfold_steps H; unfold own_inst in H; cbn [fst snd] in H; break_step H;
  repeat match goal with E : (match _ with _ => _ end) = Some _ |- _ => break_step E end;
  repeat match goal with E : _ = ?s' |- _ => is_var s'; subst s' end.

Ltac apc_same_close :=
  unfold set_pc, end_release_early, end_finish, write_status;
  repeat first
  [ apply apc_same_refl
  | match goal with
    | |- apc_same ?th ?b ?s (set_thread ?th ?t ?X) =>
        apply (apc_same_trans th b s X); [|apply apc_same_set_thread; let Hb := fresh in intros Hb; try discriminate Hb; clear Hb; unfold apc_of;
             repeat (match goal with |- context[get_thread (if ?c then _ else _)] => destruct c end);
             autorewrite with sup; cbn; try reflexivity; unfold get_thread; autorewrite with sup; try reflexivity;
             cbn [threads RecordSet.set eta_sys]; rewrite ?threads_fold_upd_inst; reflexivity]
    | |- apc_same ?th ?b ?s (upd_inst ?i ?f ?X) => apply (apc_same_trans th b s X); [|apply apc_same_eq; apply upd_inst_threads]
    | |- apc_same ?th ?b ?s (upd_vis ?n ?f ?X) => apply (apc_same_trans th b s X); [|apply apc_same_eq; apply upd_vis_threads]
    | |- apc_same ?th ?b ?s (fold_left (fun s i => upd_inst i ?f s) ?l ?X) =>
        apply (apc_same_trans th b s X); [|apply apc_same_eq; apply threads_fold_upd_inst]
    | |- apc_same ?th ?b ?s (RecordSet.set _ _ ?X) => apply (apc_same_trans th b s X); [|apply apc_same_eq; reflexivity]
    | |- apc_same ?th ?b ?s (if ?c then _ else _) => destruct c
    | |- apc_same ?th ?b ?s (match ?c with _ => _ end) => destruct c
    end ].

Lemma step_reg_apc s th e s' : step_reg s th e = Some s' -> apc_same th true s s'.
Proof. intros H. destruct e; kind_cases H; apc_same_close. Qed.
Lemma step_stop_apc s th e s' : step_stop s th e = Some s' -> apc_same th true s s'.
Proof. intros H. destruct e; kind_cases H; apc_same_close. Qed.
Lemma step_env_apc s th e s' : step_env s th e = Some s' -> apc_same th true s s'.
Proof. intros H. destruct e; kind_cases H; apc_same_close. Qed.
Lemma step_state_apc s th i s0 s' : step_state s th i s0 = Some s' -> apc_same th true s s'.
Proof. intros H. kind_cases H; apc_same_close. Qed.
Lemma step_procend_apc s th i s0 b s' : step_procend s th i s0 b = Some s' -> apc_same th true s s'.
Proof. intros H. kind_cases H; apc_same_close. Qed.
Lemma step_ordered_apc s th i s' : step_ordered_go s th i = Some s' -> apc_same th true s s'.
Proof. intros H. kind_cases H; apc_same_close. Qed.
Lemma step_own_apc s th e s' : step_own s th e = Some s' -> apc_same th true s s'.
Proof. intros H. destruct e; kind_cases H; apc_same_close. Qed.
Lemma step_shutdown_apc s th e s' : step_shutdown s th e = Some s' -> apc_same th (negb (api_event e)) s s'.
Proof. intros H. destruct e; kind_cases H; cbn [api_event negb]; apc_same_close. Qed.
Lemma step_api_apc s th e s' : step_api s th e = Some s' -> apc_same th false s s'.
Proof. intros H. destruct e; kind_cases H; apc_same_close. Qed.

Lemma apc_same_weaken th b s s' : apc_same th true s s' -> apc_same th b s s'.
Proof. intros H th' _. apply H. now left. Qed.

Lemma step_core_apc s th e s' : step_core s th e = Some s' -> apc_same th (negb (api_event e)) s s'.
Proof.
  intros H. destruct e; cbn [api_event negb]; unfold step_core in H;
  match type of H with
  | step_reg _ _ _ = _ => apply (step_reg_apc _ _ _ _ H)
  | step_api _ _ _ = _ => apply (step_api_apc _ _ _ _ H)
  | step_stop _ _ _ = _ => apply (step_stop_apc _ _ _ _ H)
  | step_state _ _ _ _ = _ => apply (step_state_apc _ _ _ _ _ H)
  | step_procend _ _ _ _ _ = _ => apply (step_procend_apc _ _ _ _ _ _ H)
  | step_shutdown _ _ _ = _ => apply (step_shutdown_apc _ _ _ _ H)
  | step_ordered_go _ _ _ = _ => apply (step_ordered_apc _ _ _ _ H)
  | step_env _ _ _ = _ => apply (step_env_apc _ _ _ _ H)
  | step_own _ _ _ = _ => apply (step_own_apc _ _ _ _ H)
  | _ => idtac
  end.
  - (* EBegin *) break_step H. subst s'. apply apc_same_eq. reflexivity.
  - (* EResume *) injection H as <-. apply apc_same_refl.
Qed.

(* ---- the view side ----------------------------------------------------------------------------------- *)
Lemma cv_step_other m th e th' : th' <> th -> get th' (cv_step m (th, e)) = get th' m.
Proof.
  intros Hne. assert (Hne' : th <> th') by congruence. unfold cv_step, cv_upd. cbn [fst snd].
  destruct e; try reflexivity;
    try (destruct (get th m); [rewrite get_set_other by assumption|]; reflexivity).
  - rewrite get_set_other by assumption. reflexivity.
  - rewrite get_del_other by assumption. reflexivity.
Qed.

Definition cv_event (e : event) : bool :=
  match e with
  | EApiBegin _ | EStartChecked _ _ | EStopChecked _ _ | ERestartChecked _ _ | ENewInst _ _ | ESpawn _ _ | ENoRestart _ | EApiReturn _ => true
  | _ => false
  end.
Lemma cv_step_id m th e : cv_event e = false -> cv_step m (th, e) = m.
Proof. intros H. destruct e; try discriminate H; reflexivity. Qed.
Lemma mon_call_id cs m th e : cv_event e = false -> mon_call cs m (th, e) = true.
Proof. intros H. destruct e; try discriminate H; reflexivity. Qed.

Ltac phase_crunch :=
  repeat match goal with
  | H : (_ && _) = true |- _ => apply andb_true_iff in H; destruct H
  | H : N.eqb _ _ = true |- _ => apply N.eqb_eq in H; subst
  | H : Bool.eqb _ _ = true |- _ => apply Bool.eqb_prop in H; subst
  | H : negb _ = true |- _ => apply negb_true_iff in H
  end.

Section CallStep.
Context (cs : amap pconf).

(* the acting thread, API events *)
Lemma CR_api_step s th e s' c :
  confs s = cs -> step_api s th e = Some s' ->
  phase_ok cs c (apc_of s th) = true ->
  phase_ok cs (get th (cv_step (match c with Some x => [(th, x)] | None => [] end) (th, e))) (apc_of s' th) = true /\
  mon_call cs (match c with Some x => [(th, x)] | None => [] end) (th, e) = true.
Proof.
  intros Hc H Hp. unfold apc_of in *.
  destruct e; kind_cases H; autorewrite with sup; rewrite ?N.eqb_refl;
  try match goal with E : apc (get_thread _ _) = _ |- _ => rewrite E in Hp end;
  unfold cv_step, cv_upd, mon_call; cbn [fst snd get];
  destruct c as [[cop fo cr sp st]|]; try (destruct cop); cbn in Hp; try discriminate Hp;
  rewrite ?N.eqb_refl; cbn [get set del]; rewrite ?N.eqb_refl; cbn;
  unfold fnd, z in *; cbn in Hp |- *; phase_crunch; rewrite ?N.eqb_refl;
  repeat match goal with b : bool |- _ => destruct b end;
  try (destruct fo as [[|]|]); cbn in *; try discriminate;
  repeat match goal with |- context[has ?n ?c] => destruct (has n c) eqn:?; cbn in * end;
  try discriminate;
  try (destruct sp as [|[|?]]); try (destruct cr as [|?]); try (destruct st as [|?]); cbn in *; try discriminate;
  try match goal with E : apc (get_thread _ _) = _ |- _ => rewrite E end;
  try match goal with found : option iid |- _ => destruct found end;
  rewrite ?N.eqb_refl; cbn; try (split; reflexivity).
Qed.

Definition single (th : tid) (c : option call) : amap call := match c with Some x => [(th, x)] | None => [] end.

Lemma get_single th c : get th (single th c) = c.
Proof. destruct c; cbn; [now rewrite N.eqb_refl|reflexivity]. Qed.

Lemma cv_step_self m th e : get th (cv_step m (th, e)) = get th (cv_step (single th (get th m)) (th, e)).
Proof.
  unfold single. destruct e; unfold cv_step, cv_upd; cbn [fst snd]; destruct (get th m) eqn:E; cbn [get];
    rewrite ?N.eqb_refl, ?get_set_same, ?get_del_same, ?E; cbn; rewrite ?N.eqb_refl; reflexivity.
Qed.
Lemma mon_call_self m th e : mon_call cs m (th, e) = mon_call cs (single th (get th m)) (th, e).
Proof.
  unfold single, mon_call. destruct e; cbn [fst snd]; try reflexivity; destruct (get th m); cbn [get]; rewrite ?N.eqb_refl; reflexivity.
Qed.

Lemma CR_unlocked_step s th s' c : step_shutdown s th EShutdownUnlocked = Some s' ->
  phase_ok cs c (apc_of s th) = true -> phase_ok cs c (apc_of s' th) = true.
Proof.
  intros H Hp. unfold apc_of in *. kind_cases H. autorewrite with sup. rewrite N.eqb_refl. cbn.
  destruct (apc (get_thread s th)) eqn:Ea; exact Hp.
Qed.

Lemma CR_newinst_step s th i n s' c : step_reg s th (ENewInst i n) = Some s' ->
  phase_ok cs c (apc_of s th) = true ->
  phase_ok cs (get th (cv_step (single th c) (th, ENewInst i n))) (apc_of s th) = true /\
  mon_call cs (single th c) (th, ENewInst i n) = true.
Proof.
  intros H Hp. unfold apc_of in *. kind_cases H.
  match goal with E : creates _ _ = true |- _ => unfold creates in E; rename E into Ecr end.
  unfold single, cv_step, cv_upd, mon_call; cbn [fst snd].
  destruct (apc (get_thread s th)) eqn:Ea; try discriminate Ecr;
  destruct c as [[cop fo cr sp st]|]; try (destruct cop); cbn in Hp; try discriminate Hp;
  cbn [get]; rewrite ?N.eqb_refl; cbn [get set]; rewrite ?N.eqb_refl; cbn;
  unfold fnd, z in *; cbn in Hp |- *; phase_crunch; rewrite ?N.eqb_refl;
  try (destruct fo as [[|]|]); cbn in *; try discriminate;
  repeat match goal with H : _ = true |- _ => rewrite H end; cbn; rewrite ?N.eqb_refl; cbn; try (split; reflexivity).
Qed.

Lemma CR_step s m th e s' : confs s = cs -> CR cs s m -> step s (th, e) = Some s' ->
  CR cs s' (cv_step m (th, e)) /\ mon_call cs m (th, e) = true.
Proof.
  intros Hc HP H. unfold step in H. cbn [fst snd] in H.
  assert (HP0 : forall th', phase_ok cs (get th' m) (apc_of (flush th s) th') = true) by (intros th'; rewrite apc_of_flush; apply HP).
  assert (Hc0 : confs (flush th s) = cs) by now rewrite flush_confs.
  set (s0 := flush th s) in *. clearbody s0. clear HP Hc s.
  pose proof (step_core_apc _ _ _ _ H) as Hsame.
  (* the acting thread *)
  assert (Hth : phase_ok cs (get th (cv_step m (th, e))) (apc_of s' th) = true /\ mon_call cs m (th, e) = true).
  { rewrite cv_step_self, mon_call_self. specialize (HP0 th).
    destruct (api_event e) eqn:Ha.
    - destruct e; try discriminate Ha; unfold step_core in H;
        try (now apply (CR_api_step s0 th _ s' _ Hc0 H)).
      (* EShutdownUnlocked *)
      split; [|reflexivity]. rewrite cv_step_id by reflexivity. rewrite get_single.
      apply (CR_unlocked_step s0 th s' _ H). exact HP0.
    - rewrite (Hsame th) by (left; reflexivity).
      destruct (cv_event e) eqn:Hcv.
      + destruct e; try discriminate Hcv; try discriminate Ha. unfold step_core in H.
        now apply (CR_newinst_step s0 th _ _ s' _ H).
      + rewrite cv_step_id, mon_call_id by assumption. split; [|reflexivity].
        rewrite get_single. exact HP0. }
  destruct Hth as [Hth Hm]. split; [|exact Hm].
  intros th'. destruct (N.eqb_spec th' th); [subst; exact Hth|].
  rewrite cv_step_other by assumption. rewrite (Hsame th') by (right; assumption). apply HP0.
Qed.
End CallStep.

(* ---- the theorems -------------------------------------------------------------------------------------- *)
Lemma call_run cs : forall evs s o m s', Rc cs s o -> CR cs s m -> accept s evs = Some s' ->
  forall pre e post, evs = pre ++ e :: post -> mon_call cs (fold_left cv_step pre m) e = true.
Proof.
  induction evs as [|[th a] evs IH]; intros s o m s' HR HC Hacc pre e post E.
  - destruct pre; discriminate E.
  - cbn in Hacc. destruct (step s (th, a)) as [s1|] eqn:Es; [|discriminate].
    destruct (CR_step cs s m th a s1 (rc_confs _ _ _ HR) HC Es) as [HC1 Hm].
    pose proof (Rc_step cs s o th a s1 HR Es) as HR1.
    destruct pre as [|b pre]; cbn in E.
    + injection E as <- _. exact Hm.
    + injection E as <- E. cbn. eapply IH; eauto.
Qed.

Theorem C08_calls_lemma : forall cs ord evs s, accept (init cs ord) evs = Some s ->
  forall pre e post, evs = pre ++ e :: post -> mon_call cs (cv_of pre) e = true.
Proof.
  intros cs ord evs s Hacc pre e post E.
  exact (call_run cs evs _ _ _ s (Rc_init cs ord) (CR_init cs ord) Hacc pre e post E).
Qed.

Ltac ret_solve H n cs c ok :=
  destruct c as [cop fo cr sp st]; cbn in *; subst cop;
  destruct ok; destruct fo as [[|]|]; destruct (has n cs); cbn in H; try discriminate H;
  repeat (apply andb_true_iff in H; let H' := fresh in destruct H as [H H']);
  repeat match goal with H0 : Nat.eqb _ _ = true |- _ => apply Nat.eqb_eq in H0 end; subst;
  repeat split; intros; try congruence; try discriminate; auto; try tauto;
  repeat match goal with H0 : _ /\ _ |- _ => destruct H0 end; try congruence; try discriminate.

(* readable consequences *)
Theorem C08_start_call_lemma : forall cs ord evs s, accept (init cs ord) evs = Some s ->
  forall pre th ok post, evs = pre ++ (th, EApiReturn ok) :: post ->
  forall c n, get th (cv_of pre) = Some c -> c_op c = OpStart n ->
  (ok = true <-> c_found c = Some false /\ has n cs = true) /\
  c_spawned c = (if ok then 1 else 0) /\ (ok = false -> c_created c = 0) /\ c_stops c = 0.
Proof.
  intros cs ord evs s Hacc pre th ok post E c n Hc Hop.
  pose proof (C08_calls_lemma cs ord evs s Hacc pre _ post E) as H.
  unfold mon_call in H. cbn [fst snd] in H. rewrite Hc in H. unfold call_ret_ok in H. rewrite Hop in H.
  clear Hc E Hacc. ret_solve H n cs c ok.
Qed.

Theorem C08_restart_call_lemma : forall cs ord evs s, accept (init cs ord) evs = Some s ->
  forall pre th ok post, evs = pre ++ (th, EApiReturn ok) :: post ->
  forall c n, get th (cv_of pre) = Some c -> c_op c = OpRestart n ->
  ok = has n cs /\ c_spawned c = (if ok then 1 else 0) /\ (ok = false -> c_created c = 0) /\
  (c_found c <> Some true -> c_stops c = 0).
Proof.
  intros cs ord evs s Hacc pre th ok post E c n Hc Hop.
  pose proof (C08_calls_lemma cs ord evs s Hacc pre _ post E) as H.
  unfold mon_call in H. cbn [fst snd] in H. rewrite Hc in H. unfold call_ret_ok in H. rewrite Hop in H.
  clear Hc E Hacc. ret_solve H n cs c ok.
Qed.

Theorem C08_stop_call_lemma : forall cs ord evs s, accept (init cs ord) evs = Some s ->
  forall pre th ok post, evs = pre ++ (th, EApiReturn ok) :: post ->
  forall c n, get th (cv_of pre) = Some c -> c_op c = OpStop n ->
  (ok = true <-> c_found c = Some true) /\ c_spawned c = 0 /\ c_created c = 0 /\ (ok = false -> c_stops c = 0).
Proof.
  intros cs ord evs s Hacc pre th ok post E c n Hc Hop.
  pose proof (C08_calls_lemma cs ord evs s Hacc pre _ post E) as H.
  unfold mon_call in H. cbn [fst snd] in H. rewrite Hc in H. unfold call_ret_ok in H. rewrite Hop in H.
  clear Hc E Hacc. ret_solve H n cs c ok.
Qed.

(* an instance is created / spawned only by a thread inside Run, inside StartProcess(n) whose check found
   none running (and which has not spawned yet), or inside RestartProcess(n) which has not spawned yet *)
Theorem C08_create_in_call_lemma : forall cs ord evs s, accept (init cs ord) evs = Some s ->
  forall pre th i n post, (evs = pre ++ (th, ENewInst i n) :: post \/ evs = pre ++ (th, ESpawn i n) :: post) ->
  create_ok (get th (cv_of pre)) n = true.
Proof.
  intros cs ord evs s Hacc pre th i n post [E|E];
    exact (C08_calls_lemma cs ord evs s Hacc pre _ post E).
Qed.
