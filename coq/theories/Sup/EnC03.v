(* C03, liveness half: ENABLEDNESS facts of the model (no fairness, no termination argument).
   1. ShutDownProject is not blocked at its end: once every instance of the snapshot is done, shutdown_end is enabled;
   2. a stopped process is not stuck: the goroutine of an instance whose command has exited can collect the exit code,
      a goroutine in its back-off sleep whose run context was cancelled can leave it, an instance that was asked to
      stop decides NOT to restart and goes to onProcessEnd(Completed);
   3. a thread inside stopProcess always has a next step.
   Statements: Props/C03.v. *)
From Coq Require Import List ZArith NArith Bool Lia.
From RecordUpdate Require Import RecordSet.
From PC.Base Require Import Assoc.
From PC.Sup Require Import Model Monitors Tactics Sim ObsFacts Effects RelCore LemC03 RelC03 RelC03b RelC03x.
Import ListNotations RecordSetNotations.

(* ---- flush does not matter for the guards below ------------------------------------------------------------------------ *)
Lemma all_done_flush th s order : all_done (flush th s) order = all_done s order.
Proof.
  unfold all_done. induction order as [|a r IH]; cbn; [reflexivity|]. rewrite IH. f_equal.
  pose proof (flush_inst3 th s a) as H. destruct (get a (insts s)) as [x|]; [|now rewrite H].
  destruct H as (x' & -> & _ & _ & _ & _ & Ed & _). exact Ed.
Qed.

Lemma own_inst_flush th s i x : get th (thinst s) = Some i -> get i (insts s) = Some x ->
  exists x', own_inst (flush th s) th = Some (i, x') /\ inst_latch_le x x'.
Proof.
  intros Ht Hx. pose proof (flush_insts th s i) as H. rewrite Hx in H. destruct H as (x' & Hx' & L).
  exists x'. split; [|exact L]. unfold own_inst. now rewrite flush_thinst, Ht, Hx'.
Qed.

(* ---- 1. the end of ShutDownProject --------------------------------------------------------------------------------------- *)
Lemma shutdown_can_end s th order :
  dpc (get_thread s th) = DWaitAll order \/ dpc (get_thread s th) = DLoop order [] ->
  all_done s order = true -> exists s', step s (th, EShutdownEnd) = Some s'.
Proof.
  intros Hd Ha. unfold step. cbn [fst snd]. unfold step_core, step_shutdown.
  destruct (flush_thread th s th) as (_ & _ & Ed & _). rewrite Ed.
  destruct Hd as [E|E]; rewrite E, all_done_flush, Ha; eauto.
Qed.

(* ---- 2. a stopped process is not stuck ------------------------------------------------------------------------------------ *)
Lemma wait_return_enabled s th i x c : get th (thinst s) = Some i -> get i (insts s) = Some x ->
  pc x = IAlive -> exited x = Some c -> exists s', step s (th, EWaitReturn c) = Some s'.
Proof.
  intros Ht Hx Hp He. destruct (own_inst_flush th s i x Ht Hx) as (x' & Ho & L).
  destruct L as (_ & _ & Ep & _ & _ & Ee & _).
  unfold step. cbn [fst snd]. unfold step_core, step_own. rewrite Ho, Ep, Hp, Ee, He. cbn. rewrite Z.eqb_refl. eauto.
Qed.

Lemma backoff_cancel_enabled s th i x c : get th (thinst s) = Some i -> get i (insts s) = Some x ->
  pc x = IBackoff c -> l_runctx x = true -> exists s', step s (th, EBackoffCancelled) = Some s'.
Proof.
  intros Ht Hx Hp Hr. destruct (own_inst_flush th s i x Ht Hx) as (x' & Ho & L).
  destruct L as (_ & _ & Ep & _ & _ & _ & _ & _ & _ & _ & _ & Hrc & _).
  unfold step. cbn [fst snd]. unfold step_core, step_own. rewrite Ho, Ep, Hp. rewrite (Hrc Hr). eauto.
Qed.

Lemma stopped_no_restart s th i x c : get th (thinst s) = Some i -> get i (insts s) = Some x ->
  pc x = ICodeWritten c -> f_stopped x = true ->
  exists s' x', step s (th, ERestartDecision false) = Some s' /\ get i (insts s') = Some x' /\ pc x' = IEnding SCompleted c.
Proof.
  intros Ht Hx Hp Hf. destruct (own_inst_flush th s i x Ht Hx) as (x' & Ho & L).
  pose proof L as (_ & _ & Ep & _ & _ & _ & Ef & _).
  unfold step. cbn [fst snd]. unfold step_core, step_own. rewrite Ho, Ep, Hp, Ef, Hf. cbn.
  eexists. eexists. split; [reflexivity|]. unfold own_inst in Ho.
  destruct (get th (thinst (flush th s))); [|discriminate]. destruct (get i0 (insts (flush th s))) eqn:E; [|discriminate].
  injection Ho as -> ->. rewrite insts_upd_inst, N.eqb_refl, E. cbn. split; reflexivity.
Qed.

(* every accepted history: a goroutine is bound to every instance that has left its initial program counter *)
Lemma c_beg_accept : forall evs s0 s, c_beg s0 -> accept s0 evs = Some s -> c_beg s.
Proof.
  induction evs as [|[th e] r IH]; intros s0 s HB H; cbn in H; [injection H as <-; exact HB|].
  destruct (step s0 (th, e)) as [s1|] eqn:Es; [|discriminate]. eapply IH; [|exact H].
  unfold step in Es. cbn [fst snd] in Es. eapply c_beg_core; [apply c_beg_flush, HB|exact Es].
Qed.
Lemma reach_beg cs ord evs s : accept (init cs ord) evs = Some s -> c_beg s.
Proof. apply c_beg_accept. intros i x H. cbn in H. discriminate. Qed.

(* ---- 3. a thread inside stopProcess always has a next step ------------------------------------------------------------- *)
Definition stop_on (p : stoppc) : option iid :=
  match p with
  | SEntered i _ | SRun i _ | SRunT i | SSig i | SPend i | SPendE i | SPendS i | SPendDone i => Some i
  | _ => None
  end.
Definition c_stopx (s : sys) : Prop :=
  forall th i, stop_on (spc (get_thread s th)) = Some i -> exists x, get i (insts s) = Some x.

Lemma ifwd_all s th e s' : step_core s th e = Some s' -> forall j x, get j (insts s) = Some x -> exists x', get j (insts s') = Some x'.
Proof.
  intros H j x Hx. destruct (own_ev e) eqn:Hev.
  - rewrite step_core_own in H by exact Hev.
    destruct (step_own_mono _ _ _ _ H) as (i & y & y' & _ & Hy & Hy' & Hoth & _).
    destruct (N.eq_dec j i) as [->|Hn]; [eauto|]. rewrite (Hoth j Hn). eauto.
  - destruct (step_core_inst _ _ _ _ H Hev j x Hx) as (x' & Hx' & _). eauto.
Qed.

Lemma step_core_stopon s th e s' : step_core s th e = Some s' -> own_ev e = false ->
  forall i, stop_on (spc (get_thread s' th)) = Some i ->
  stop_on (spc (get_thread s th)) = Some i \/ exists x, get i (insts s) = Some x.
Proof.
  intros H Hev. unfold step_core in H. destruct e; try discriminate Hev; kind_cases H.
  all: try match goal with |- context[match dpc ?t with _ => _ end] => destruct (dpc t) as [| | |? [|? ?]| |] eqn:Ed end.
  all: intros k0; unfold set_pc, end_finish; autorewrite with sup; rewrite ?N.eqb_refl; cbn;
       repeat match goal with |- context[if ?b then _ else _] => is_var b; destruct b end; autorewrite with sup; rewrite ?N.eqb_refl; cbn.
  all: try (intros Hk; left; first [exact Hk | congruence]; fail).
  all: try (intros Hk; discriminate Hk).
  all: try (intros Hk; repeat match goal with E : spc _ = _ |- _ => rewrite E in Hk end; cbn in Hk;
            first [discriminate Hk | left; exact Hk]; fail).
  all: try (intros Hk; injection Hk as <-; right; eauto; fail).
  all: try (destruct (i =? i2)%N; autorewrite with sup; rewrite N.eqb_refl; cbn; intros Hk; discriminate Hk).
  apply N.eqb_eq in E0. subst. auto.
Qed.

Lemma c_stopx_flush th s : c_stopx s -> c_stopx (flush th s).
Proof.
  intros HS th' i Hs. destruct (flush_thread th s th') as (_ & Es & _). rewrite Es in Hs.
  destruct (HS th' i Hs) as (x & Hx). destruct (flush_fwd th _ _ _ Hx) as (x' & Hx' & _). eauto.
Qed.

Lemma spc_other s th e s' : step_core s th e = Some s' -> forall th', th' <> th -> spc (get_thread s' th') = spc (get_thread s th').
Proof.
  intros H th' Hne. destruct (own_ev e) eqn:Hev.
  - rewrite step_core_own in H by exact Hev.
    destruct (step_own_mono _ _ _ _ H) as (i & x & x' & _ & _ & _ & _ & _ & _ & _ & _ & _ & _ & _ & Hthr). apply Hthr.
  - destruct (step_core_thr _ _ _ _ H Hev) as [Ho _]. apply Ho, Hne.
Qed.

Lemma c_stopx_core s th e s' : c_stopx s -> step_core s th e = Some s' -> c_stopx s'.
Proof.
  intros HS H th' i Hs.
  assert (Hold : stop_on (spc (get_thread s th')) = Some i \/ exists x, get i (insts s) = Some x).
  { destruct (N.eq_dec th' th) as [->|Hne]; [|left; now rewrite (spc_other _ _ _ _ H th' Hne) in Hs].
    destruct (own_ev e) eqn:Hev; [|eapply step_core_stopon; eauto].
    left. rewrite step_core_own in H by exact Hev.
    destruct (step_own_mono _ _ _ _ H) as (j & x & x' & _ & _ & _ & _ & _ & _ & _ & _ & _ & _ & _ & Hthr).
    destruct (Hthr th) as (Es & _). now rewrite Es in Hs. }
  destruct Hold as [Ho|(x & Hx)]; [destruct (HS th' i Ho) as (x & Hx)|]; eapply ifwd_all; eauto.
Qed.

Lemma c_stopx_accept : forall evs s0 s, c_stopx s0 -> accept s0 evs = Some s -> c_stopx s.
Proof.
  induction evs as [|[th e] r IH]; intros s0 s HB H; cbn in H; [injection H as <-; exact HB|].
  destruct (step s0 (th, e)) as [s1|] eqn:Es; [|discriminate]. eapply IH; [|exact H].
  unfold step in Es. cbn [fst snd] in Es. eapply c_stopx_core; [apply c_stopx_flush, HB|exact Es].
Qed.
Lemma reach_stopx cs ord evs s : accept (init cs ord) evs = Some s -> c_stopx s.
Proof. apply c_stopx_accept. intros th i H. cbn in H. discriminate. Qed.

Lemma stop_not_stuck s th i : c_stopx s -> stop_on (spc (get_thread s th)) = Some i ->
  exists e s', step s (th, e) = Some s'.
Proof.
  intros HS Hs. apply (c_stopx_flush th) in HS. destruct (flush_thread th s th) as (_ & Es & _).
  rewrite <- Es in Hs. destruct (HS th i Hs) as (x & Hx). unfold step. cbn [fst snd].
  set (s0 := flush th s) in *. clearbody s0.
  destruct (spc (get_thread s0 th)) as [|j c|j c|j c|j|j|j|j|j|j|j] eqn:Ep; cbn in Hs; try discriminate Hs; injection Hs as ->.
  - (* SEntered: the status decides *)
    destruct (is_running_status (st (vis_of s0 (nm x)))) eqn:Er.
    + exists (EStopRunning i). unfold step_core, step_stop. rewrite Hx, Ep, N.eqb_refl, Er. eauto.
    + destruct (status_eqb (st (vis_of s0 (nm x))) SPending) eqn:Eq.
      * exists (EStopPending i). unfold step_core, step_stop. rewrite Hx, Ep, N.eqb_refl, Eq. eauto.
      * exists (EStopReturn i). unfold step_core, step_stop. rewrite Hx, Ep, N.eqb_refl, Er, Eq. cbn. eauto.
  - exists (EState i STerminating). unfold step_core, step_state. rewrite Hx, Ep, N.eqb_refl. cbn. eauto.
  - exists (ESignal i 15%Z false). unfold step_core, step_stop. rewrite Ep, N.eqb_refl. eauto.
  - exists (EStopReturn i). unfold step_core, step_stop. rewrite Hx, Ep, N.eqb_refl. eauto.
  - exists (EProcEnd i STerminating). unfold step_core, step_procend. rewrite Hx, Ep, N.eqb_refl. cbn. eauto.
  - exists (EState i STerminating). unfold step_core, step_state. rewrite Hx, Ep, N.eqb_refl. cbn. eauto.
  - exists (EProcEnded i STerminating). unfold step_core, step_procend. rewrite Hx, Ep, N.eqb_refl. cbn. eauto.
  - exists (EStopReturn i). unfold step_core, step_stop. rewrite Hx, Ep, N.eqb_refl. eauto.
Qed.

(* ---- the statements for accepted histories ---------------------------------------------------------------------------------- *)
Theorem en_shutdown_can_end : forall cs ord evs s th order,
  accept (init cs ord) evs = Some s ->
  dpc (get_thread s th) = DWaitAll order \/ dpc (get_thread s th) = DLoop order [] ->
  all_done s order = true ->
  exists s', step s (th, EShutdownEnd) = Some s'.
Proof. intros cs ord evs s th order _. apply shutdown_can_end. Qed.

Theorem en_exit_collected : forall cs ord evs s i x c,
  accept (init cs ord) evs = Some s ->
  get i (insts s) = Some x -> pc x = IAlive -> exited x = Some c ->
  exists th s', get th (thinst s) = Some i /\ step s (th, EWaitReturn c) = Some s'.
Proof.
  intros cs ord evs s i x c Hacc Hx Hp He. destruct (reach_beg _ _ _ _ Hacc i x Hx) as [(t & Hpt)|(th & Ht)]; [congruence|].
  destruct (wait_return_enabled s th i x c Ht Hx Hp He) as (s' & Hs). eauto.
Qed.

Theorem en_backoff_cancelled : forall cs ord evs s i x c,
  accept (init cs ord) evs = Some s ->
  get i (insts s) = Some x -> pc x = IBackoff c -> l_runctx x = true ->
  exists th s', get th (thinst s) = Some i /\ step s (th, EBackoffCancelled) = Some s'.
Proof.
  intros cs ord evs s i x c Hacc Hx Hp Hr. destruct (reach_beg _ _ _ _ Hacc i x Hx) as [(t & Hpt)|(th & Ht)]; [congruence|].
  destruct (backoff_cancel_enabled s th i x c Ht Hx Hp Hr) as (s' & Hs). eauto.
Qed.

Theorem en_stopped_no_restart : forall cs ord evs s i x c,
  accept (init cs ord) evs = Some s ->
  get i (insts s) = Some x -> pc x = ICodeWritten c -> f_stopped x = true ->
  exists th s' x', get th (thinst s) = Some i /\ step s (th, ERestartDecision false) = Some s' /\
                   get i (insts s') = Some x' /\ pc x' = IEnding SCompleted c.
Proof.
  intros cs ord evs s i x c Hacc Hx Hp Hf. destruct (reach_beg _ _ _ _ Hacc i x Hx) as [(t & Hpt)|(th & Ht)]; [congruence|].
  destruct (stopped_no_restart s th i x c Ht Hx Hp Hf) as (s' & x' & Hs & Hx' & Hp'). exists th, s', x'. auto.
Qed.

Theorem en_stop_not_stuck : forall cs ord evs s th i,
  accept (init cs ord) evs = Some s ->
  stop_on (spc (get_thread s th)) = Some i ->
  exists e s', step s (th, e) = Some s'.
Proof. intros cs ord evs s th i Hacc. apply stop_not_stuck. eapply reach_stopx; eauto. Qed.


