(* C02 simulation, part 5: command exit, stop requests (no_restart, shutdown order, stop_enter, stop_pending),
   new instances; then every step preserves P2all. *)
From Coq Require Import List ZArith NArith Bool Lia.
From RecordUpdate Require Import RecordSet.
From PC.Base Require Import Assoc.
From PC.Sup Require Import Model Monitors Tactics Sim ObsFacts Effects RelCore LemC02 RelC02defs RelC02t RelC02t2 RelC02t3 RelC02m RelC02b RelC02c RelC02d RelC02d2.
Import ListNotations RecordSetNotations.

Section F.
Context (cs : amap pconf).

(* ---- joiners of the heavy files: Rt and the own-thread events -------------------------------------------- *)
Lemma Rt_step_core s o th e s' : Rc cs s o -> Rt s o -> step_core s th e = Some s' -> Rt s' (obs_step cs o (th, e)).
Proof.
  intros HRc HRt H.
  assert (Hle : obs_le o (obs_step cs o (th, e))).
  { apply obs_step_le. intros i n ->. cbn in H. unfold step_reg in H. break_step H.
    apply negb_true_iff in E0. unfold has in E0. destruct (get i (insts s)) eqn:Ei; [discriminate|].
    eapply rc_noinst; eauto. }
  assert (Hoi : forall i, get i (insts s) <> None -> exists xo, get i (oi o) = Some xo).
  { intros i Hi. destruct (get i (insts s)) as [x|] eqn:Ex; [|congruence].
    destruct (rc_inst _ _ _ HRc _ _ Ex) as (xo & Exo & _). eauto. }
  assert (Hev : ev_facts (obs_step cs o (th, e)) e).
  { destruct e; cbn [ev_facts]; auto.
    - (* EProcEnd *) cbn in H. unfold step_procend in H. destruct (get i (insts s)) as [x|] eqn:Ex; [|discriminate].
      destruct (Hoi i) as (xo & Exo); [congruence|]. eapply endst_ProcEnd; eauto.
    - (* ENoRestart *) cbn in H. unfold step_api in H.
      destruct (Hoi i) as (xo & Exo); [|eapply sreq_NoRestart; eauto].
      refine (proj1 (rt_apc _ _ HRt th i _)). break_step H; split_andb; subst; eauto.
    - (* EStopPending *) cbn in H. unfold step_stop in H. destruct (get i (insts s)) as [x|] eqn:Ex; [|discriminate].
      destruct (Hoi i) as (xo & Exo); [congruence|]. eapply sreq_StopPending; eauto.
    - (* EShutdownOrder *) intros i Hm. pose proof Hm as Hi. cbn in H. unfold step_shutdown in H. break_step H.
      apply memN_In in Hi. apply (same_members_in _ _ _ E0) in Hi. apply in_map_iff in Hi. destruct Hi as (p & Ep & Hp).
      destruct (Hoi i) as (xo & Exo); [rewrite <- Ep; apply (proj1 (rt_run _ _ HRt _ Hp))|].
      eapply sreq_ShutdownOrder; eauto.
    - (* EProbe *) destruct fatal; [|exact I]. cbn in H. unfold step_env in H.
      destruct (get i (insts s)) as [x|] eqn:Ex; [|discriminate].
      destruct (rc_inst _ _ _ HRc _ _ Ex) as (xo & Exo & _ & _ & Hl).
      apply (lo_le _ _ _ Hle). unfold lo. rewrite (oi_get_some _ _ _ Exo), Hl.
      destruct (launches x); [|lia]. break_step H; discriminate. }
  pose proof (has_step _ _ _ _ H) as Hh.
  pose proof (Rt_obs_le _ _ _ HRt Hle) as HRt'.
  destruct (step_core_kind _ _ _ _ H) as [? ?|i x ? ? ? ? ? ?|H0|H0|H0|i s0 ? H0|i s0 b ? H0|H0|i ? H0|H0|H0]; subst.
  - exact HRt'.
  - destruct HRt' as [G1 Ga Gb G2 G3 G4 Ge G5 G6].
    constructor; [intros p Hp; apply Hh, G1, Hp|intros t0 n i0 Hq; apply Hh; eapply Ga; exact Hq
                 |intros t0 i0 Hq; apply Hh; eapply Gb; exact Hq|exact G2|exact G3|exact G4|exact Ge|exact G5|exact G6].
  - exact (Rt_step_reg _ _ _ _ _ HRt' Hh H0).
  - exact (Rt_step_api _ _ _ _ _ HRt' Hev Hh H0).
  - exact (Rt_step_stop _ _ _ _ _ HRt' Hev Hh H0).
  - exact (Rt_step_state _ _ _ _ _ _ HRt' Hh H0).
  - exact (Rt_step_procend _ _ _ _ _ _ _ HRt' Hev Hh H0).
  - exact (Rt_step_shutdown _ _ _ _ _ HRt' Hev Hh H0).
  - exact (Rt_step_ordered _ _ _ _ _ HRt' Hh H0).
  - exact (Rt_step_env _ _ _ _ _ HRt' Hev Hh H0).
  - exact (Rt_step_own _ _ _ _ _ HRt' Hh H0).
Qed.

Lemma Rt_step s o th e s' : Rc cs s o -> Rt s o -> step s (th, e) = Some s' -> Rt s' (obs_step cs o (th, e)).
Proof.
  intros HRc HRt H. unfold step in H. cbn [fst snd] in H.
  eapply Rt_step_core; [|apply Rt_flush, HRt|exact H].
  eapply Rc_sys_same; [exact HRc|apply sys_same_flush].
Qed.



(* all own events that the observer's instance records do not react to *)
Lemma P2all_own s o th e s' : Rc cs s o -> P2all s o -> oirr e = true -> step_own s th e = Some s' -> P2all s' o.
Proof.
  intros HRc HP Hirr H. destruct (own_special e) eqn:Hsp; [|eapply P2all_own_gen; eauto].
  destruct e; try discriminate Hsp;
    eauto using P2all_own_wait, P2all_own_code, P2all_own_decision, P2all_own_backoff, P2all_own_cancel.
Qed.



(* a stop request for instance x arrives: the observer records it, the model may set isStopped *)
Lemma P2_stopreq s o x xo s' o' xo' (b : bool) :
  P2 s o x xo -> wkeep o o' -> (W2 o' = false -> o_commit xo = false) ->
  okeep (xo <| o_stopreq := true |>) xo' -> (forall n, vis_of s' n = vis_of s n) ->
  (W3 o' = false -> launched_pc (pc x) = true -> commit_pc (pc x) = false -> b = true) ->
  P2 s' o' (x <| f_stopped := if b then true else f_stopped x |>) xo'.
Proof.
  intros [] (Wa & Wb) Hc (O1 & O2 & O3 & O4 & O5 & O6) Hv Hb. cbn in O1, O2, O3, O4, O5, O6.
  assert (Hnc : W2 o' = false -> commit_pc (pc x) = false).
  { intros Hw. destruct (commit_pc (pc x)) eqn:E; [|reflexivity]. rewrite p_commit in Hc by auto. now apply Hc. }
  constructor; cbn; unfold Pok, GaveUp in *; cbn; rewrite ?Hv, ?O1, ?O2, ?O3, ?O4, ?O5, ?O6; auto.
  - intros c Hcc. destruct (p_gaveup c Hcc) as (A & _). split; [exact A|now left].
  - intros Hw _ Hp. destruct b; [reflexivity|].
    destruct (commit_pc (pc x)) eqn:Ec; [specialize (Hnc (W3_W2 _ Hw)); discriminate|].
    assert (Hl : launched_pc (pc x) = true) by (destruct (pc x); try discriminate; reflexivity).
    specialize (Hb Hw Hl eq_refl). discriminate.
Qed.

Lemma stopreq_shape o o0 th e i : oi o0 = oi o ->
  obs_step cs o (th, e) = refresh_succ (oi_upd i (fun x => x <| o_stopreq := true |>) o0) ->
  forall j xo', get j (oi (obs_step cs o (th, e))) = Some xo' ->
  exists xo, get j (oi o) = Some xo /\ okeep (if N.eqb i j then xo <| o_stopreq := true |> else xo) xo'.
Proof. intros E -> j xo' H. eapply obs_upd_shape in H; eauto. Qed.

(* ---- ENoRestart ------------------------------------------------------------------------------------------ *)
Lemma P2all_norestart s o th i s' : Rc cs s o -> Rt s o -> P2all s o -> step_api s th (ENoRestart i) = Some s' ->
  P2all s' (obs_step cs o (th, ENoRestart i)).
Proof.
  intros HRc HRt HP H. pose proof (wkeep_step cs o (th, ENoRestart i)) as Hwk.
  pose proof (W_NoRestart cs o th i) as HW.
  assert (Hshape : forall j xo', get j (oi (obs_step cs o (th, ENoRestart i))) = Some xo' ->
    exists xo, get j (oi o) = Some xo /\ okeep (if N.eqb i j then xo <| o_stopreq := true |> else xo) xo').
  { eapply stopreq_shape; [|reflexivity]. reflexivity. }
  set (o' := obs_step cs o (th, ENoRestart i)) in *. clearbody o'.
  assert (Hs' : s' = set_thread th (get_thread s th <| spc := SReady i true |>) (upd_inst i (fun x => x <| f_stopped := true |>) s)).
  { unfold step_api in H. break_step H; split_andb; subst; reflexivity. }
  subst s'. intros j y' yo' Hy' Hyo'. autorewrite with sup in Hy'.
  destruct (Hshape j yo' Hyo') as (yo & Eyo & Ok).
  destruct (N.eqb_spec i j) as [<-|Hne].
  - destruct (get i (insts s)) as [x|] eqn:Ex; [|discriminate]. cbn in Hy'. injection Hy' as <-.
    apply (P2_stopreq s o x yo _ o' yo' true (HP _ _ _ Ex Eyo) Hwk); auto.
    + intros Hw. specialize (HW Hw). now rewrite (oi_get_some _ _ _ Eyo) in HW.
    + intros n. now autorewrite with sup.
  - eapply P2_frame; [apply (HP _ _ _ Hy' Eyo)|apply ikeep_refl|exact Ok| |exact Hwk].
    apply vrel_vkeep. intros n. autorewrite with sup. split; auto.
Qed.

(* ---- EShutdownOrder -------------------------------------------------------------------------------------- *)
Lemma P2all_sdorder s o th order s' : Rc cs s o -> P2all s o -> step_shutdown s th (EShutdownOrder order) = Some s' ->
  P2all s' (obs_step cs o (th, EShutdownOrder order)).
Proof.
  intros HRc HP H. pose proof (wkeep_step cs o (th, EShutdownOrder order)) as Hwk.
  pose proof (W_ShutdownOrder cs o th order) as HW.
  assert (Hget : forall j, get j (oi (obs_step cs o (th, EShutdownOrder order))) =
     option_map (fun x => if o_ended x && (r_code (on_get (obs_step cs o (th, EShutdownOrder order)) (o_nm x)) =? 0)%Z then x <| o_succ := true |> else x)
       (if memN j order then option_map (fun x => x <| o_stopreq := true |> <| o_insnap := true |>) (get j (oi o)) else get j (oi o))).
  { intros j. unfold obs_step at 1. cbn [ev_inst fst snd]. rewrite refresh_get. cbn [oi].
    match goal with |- option_map ?f _ = option_map ?g _ => assert (Hfg : f = g) by reflexivity end.
    f_equal. cbn. rewrite fold_oi_upd_get by reflexivity. reflexivity. }
  set (o' := obs_step cs o (th, EShutdownOrder order)) in *. clearbody o'.
  unfold step_shutdown in H. break_step H; subst s'.
  all: intros j y' yo' Hy' Hyo'; autorewrite with sup in Hy'; cbn in Hy'; rewrite fold_upd_inst_get in Hy' by reflexivity;
       rewrite Hget in Hyo'; destruct (memN j order) eqn:Hm;
       (destruct (get j (insts s)) as [y|] eqn:Ey; [|discriminate]); (destruct (get j (oi o)) as [yo|] eqn:Eyo; [|discriminate]);
       cbn in Hy', Hyo'; injection Hy' as <-; injection Hyo' as <-.
    all: try (apply (P2_stopreq s o y yo _ o' _ true (HP _ _ _ Ey Eyo) Hwk); auto;
            [ intros Hw; specialize (HW j Hw Hm); now rewrite (oi_get_some _ _ _ Eyo) in HW
            | match goal with |- context[if ?c then _ else _] => destruct c end; unfold okeep; cbn; repeat split; reflexivity
            | intros n; unfold vis_of; cbn; now rewrite viss_fold_upd_inst ]).
  all: eapply P2_frame; [apply (HP _ _ _ Ey Eyo)|apply ikeep_refl| | |exact Hwk];
       [ match goal with |- context[if ?c then _ else _] => destruct c end; unfold okeep; cbn; repeat split; reflexivity
       | apply vrel_vkeep; intros n; unfold vis_of; cbn; rewrite viss_fold_upd_inst; split; auto ].
Qed.


(* ---- EStopPending ---------------------------------------------------------------------------------------- *)
Lemma P2all_stoppending s o th i s' : Rc cs s o -> P2all s o -> step_stop s th (EStopPending i) = Some s' ->
  P2all s' (obs_step cs o (th, EStopPending i)).
Proof.
  intros HRc HP H. pose proof (wkeep_step cs o (th, EStopPending i)) as Hwk.
  pose proof (W_StopPending cs o th i) as HW.
  assert (Hshape : forall j xo', get j (oi (obs_step cs o (th, EStopPending i))) = Some xo' ->
    exists xo, get j (oi o) = Some xo /\ okeep (if N.eqb i j then xo <| o_stopreq := true |> else xo) xo').
  { eapply stopreq_shape; [|reflexivity]. reflexivity. }
  set (o' := obs_step cs o (th, EStopPending i)) in *. clearbody o'.
  unfold step_stop in H. destruct (get i (insts s)) as [x|] eqn:Ex; [|discriminate].
  assert (Hst : st (vis_of s (nm x)) = SPending /\ exists t', s' = set_thread th t' s).
  { break_step H; split_andb; subst. split; [now apply status_eqb_eq|eauto]. }
  destruct Hst as (Hst & t' & ->). clear H.
  intros j y' yo' Hy' Hyo'. autorewrite with sup in Hy'.
  destruct (Hshape j yo' Hyo') as (yo & Eyo & Ok).
  destruct (N.eqb_spec i j) as [<-|Hne].
  - assert (y' = x) by congruence. subst y'.
    pose proof (P2_stopreq s o x yo (set_thread th t' s) o' yo' false (HP _ _ _ Ex Eyo) Hwk) as HH. cbn in HH.
    assert (Hx : x <| f_stopped := f_stopped x |> = x) by (destruct x; reflexivity). rewrite Hx in HH. apply HH; auto.
    + intros Hw. specialize (HW Hw). now rewrite (oi_get_some _ _ _ Eyo) in HW.
    + intros Hw Hl _. exfalso. apply (p_status _ _ _ _ (HP _ _ _ Ex Eyo) (proj2 Hwk Hw) Hl Hst).
  - eapply P2_frame; [apply (HP _ _ _ Hy' Eyo)|apply ikeep_refl|exact Ok|apply vrel_vkeep; intros n; split; auto|exact Hwk].
Qed.

(* ---- EStopEnter ------------------------------------------------------------------------------------------ *)
Lemma P2all_stopenter s o th i cancel s' : Rc cs s o -> Rt s o -> P2all s o -> step_stop s th (EStopEnter i cancel) = Some s' ->
  P2all s' (obs_step cs o (th, EStopEnter i cancel)).
Proof.
  intros HRc HRt HP H. pose proof (wkeep_step cs o (th, EStopEnter i cancel)) as Hwk.
  assert (Hshape : forall j xo', get j (oi (obs_step cs o (th, EStopEnter i cancel))) = Some xo' ->
    exists xo, get j (oi o) = Some xo /\ okeep (if N.eqb i j then xo <| o_stopreq := o_stopreq xo || cancel |> else xo) xo').
  { intros j xo'. unfold obs_step. cbn [ev_inst fst snd]. intros Hq. eapply obs_upd_shape in Hq; eauto. }
  set (o' := obs_step cs o (th, EStopEnter i cancel)) in *. clearbody o'.
  unfold step_stop in H. destruct (get i (insts s)) as [x|] eqn:Ex; [|discriminate]. cbv zeta in H.
  assert (Hsr : cancel = true -> sreq o i).
  { intros ->. break_step H.
    destruct (spc (get_thread s th)) eqn:Es; try discriminate.
    - destruct (dpc (get_thread s th)) eqn:Ed; try discriminate. destruct rest; try discriminate. split_andb. subst.
      eapply (rt_loop _ _ HRt); [exact Ed|]. rewrite memN_cons, N.eqb_refl. reflexivity.
    - split_andb. subst. exact (rt_ready _ _ HRt _ _ _ Es). }
  assert (Hs' : exists t', s' = set_thread th t' s) by (break_step H; subst; eauto).
  destruct Hs' as (t' & ->). clear H.
  eapply P2all_frame; [exact HP|apply sback_eq; reflexivity| |exact Hwk].
  intros j xo' Hj. destruct (Hshape j xo' Hj) as (xo & Exo & Ok). exists xo. split; [exact Exo|].
  destruct (N.eqb_spec i j) as [<-|]; [|exact Ok].
  destruct cancel.
  - specialize (Hsr eq_refl). unfold sreq in Hsr. rewrite (oi_get_some _ _ _ Exo) in Hsr.
    destruct Ok as (O1 & O2 & O3 & O4 & O5 & O6). cbn in *. rewrite Hsr in O2. cbn in O2. unfold okeep. repeat split; congruence.
  - destruct Ok as (O1 & O2 & O3 & O4 & O5 & O6). cbn in *. rewrite orb_false_r in O2. unfold okeep. repeat split; congruence.
Qed.

(* ---- ECmdExit -------------------------------------------------------------------------------------------- *)
Lemma P2all_cmdexit s o th i c s' : P2all s o -> step_env s th (ECmdExit i c) = Some s' ->
  P2all s' (obs_step cs o (th, ECmdExit i c)).
Proof.
  intros HP H. pose proof (wkeep_step cs o (th, ECmdExit i c)) as Hwk.
  assert (Hshape : forall j xo', get j (oi (obs_step cs o (th, ECmdExit i c))) = Some xo' ->
    exists xo, get j (oi o) = Some xo /\
      okeep (if N.eqb i j then xo <| o_alive := false |> <| o_code := Some c |> <| o_sd_victim := o_insnap xo |> else xo) xo').
  { intros j xo'. unfold obs_step. cbn [ev_inst fst snd]. intros Hq. eapply obs_upd_shape in Hq; eauto. }
  set (o' := obs_step cs o (th, ECmdExit i c)) in *. clearbody o'.
  unfold step_env in H. destruct (get i (insts s)) as [x|] eqn:Ex; [|discriminate].
  destruct (alive x) eqn:Ha; [|discriminate]. injection H as <-.
  intros j y' yo' Hy' Hyo'. autorewrite with sup in Hy'.
  destruct (Hshape j yo' Hyo') as (yo & Eyo & Ok).
  destruct (N.eqb_spec i j) as [<-|Hne].
  - rewrite Ex in Hy'. cbn in Hy'. injection Hy' as <-.
    destruct (HP _ _ _ Ex Eyo) as [Pcommit Pstop Pexited Palive Pcode Pdecided Prelaunch Pgaveup Prestarts Ppre Pfstopped Prunctx Pendst Pgone Pnostop Pstatus Ps1 Pendst2].
    destruct Ok as (Oa & Ob & Oc & Od & Oe & Of). cbn in Oa, Ob, Oc, Od, Oe, Of.
    pose proof (Palive Ha) as Epc. rewrite Epc in *.
    constructor; cbn; rewrite ?Epc, ?Oa, ?Ob, ?Oc, ?Od, ?Oe, ?Of; unfold Pok, GaveUp in *; cbn; autorewrite with sup; auto.
    all: try (intros; discriminate).
    all: try (intros c0 Hc; repeat destruct Hc as [Hc|Hc]; try discriminate; destruct Hc as [? Hc]; discriminate).
    + intros Hw Hs _. apply Pnostop; auto. apply Hwk, Hw.
    + intros Hw _. apply Pstatus; auto. apply Hwk, Hw.
    + intros Hw He. apply Pendst2; [apply Hwk, Hw|exact He].
  - eapply P2_frame; [apply (HP _ _ _ Hy' Eyo)|apply ikeep_refl|exact Ok| |exact Hwk].
    apply vrel_vkeep. intros n. autorewrite with sup. split; auto.
Qed.

(* ---- ENewInst -------------------------------------------------------------------------------------------- *)
Lemma P2all_newinst s o th i n s' : Rc cs s o -> P2all s o -> step_reg s th (ENewInst i n) = Some s' ->
  P2all s' (obs_step cs o (th, ENewInst i n)).
Proof.
  intros HRc HP H. pose proof (wkeep_step cs o (th, ENewInst i n)) as Hwk.
  unfold step_reg in H. break_step H. subst s'.
  intros j y' yo' Hy' Hyo'. cbn in Hy'. rewrite get_set in Hy'.
  unfold obs_step in Hyo'. cbn [ev_inst fst snd] in Hyo'. rewrite refresh_get in Hyo'. cbn [oi] in Hyo'. cbn in Hyo'.
  rewrite get_set in Hyo'. destruct (N.eqb_spec i j) as [<-|Hne].
  - injection Hy' as <-. cbn in Hyo'. injection Hyo' as <-.
    constructor; cbn; try discriminate; auto; try (intros; discriminate); try (intros; congruence).
    + intros c0 [Hc|Hc]; discriminate.
    + intros c0 [Hc|[Hc|Hc]]; discriminate.
    + intros c0 [Hc|[b Hc]]; discriminate.
    + split; [lia|intros; lia].
    + intros s2 c0 [Hc|[b Hc]]; discriminate.
  - destruct (get j (oi o)) as [yo|] eqn:Eyo; [|discriminate]. cbn in Hyo'. injection Hyo' as <-.
    eapply P2_frame; [apply (HP _ _ _ Hy' Eyo)|apply ikeep_refl| |apply vrel_vkeep; intros n0; split; auto|exact Hwk].
    match goal with |- okeep _ (if ?c then _ else _) => destruct c end; unfold okeep; cbn; repeat split; reflexivity.
Qed.

(* ---- every step ------------------------------------------------------------------------------------------ *)
Lemma P2all_step_core s o th e s' : Rc cs s o -> Rt s o -> Ro o -> Rz s o -> Rs s o -> P2all s o -> step_core s th e = Some s' ->
  P2all s' (obs_step cs o (th, e)).
Proof.
  intros HRc HRt HRo HRz HRs HP H. pose proof (wkeep_step cs o (th, e)) as Hwk.
  assert (Hfr : oirr e = true -> sback s s' -> P2all s' (obs_step cs o (th, e))).
  { intros Hi Hs. eapply P2all_frame; [exact HP|exact Hs|apply obs_step_keep, Hi|exact Hwk]. }
  destruct (step_core_kind _ _ _ _ H) as [? ?|i x ? ? ? ? ? ?|H0|H0|H0|i s0 ? H0|i s0 b ? H0|H0|i ? H0|H0|H0]; subst.
  - apply Hfr; [reflexivity|apply sback_refl].
  - apply Hfr; [reflexivity|apply sback_eq; reflexivity].
  - (* registry *)
    destruct e; try (apply Hfr; [reflexivity|eapply sback_reg with (2 := H0); intros ? ? Hq; discriminate Hq]); try (cbn in H0; discriminate H0).
    eapply P2all_newinst; eauto.
  - (* API *)
    destruct e; try (apply Hfr; [reflexivity|eapply sback_api with (2 := H0); intros ? Hq; discriminate Hq]); try (cbn in H0; discriminate H0).
    eapply P2all_norestart; eauto.
  - (* stop *)
    destruct e; try (apply Hfr; [reflexivity|eapply sback_stop; exact H0]); try (cbn in H0; discriminate H0).
    + eapply P2all_stopenter; eauto.
    + eapply P2all_stoppending; eauto.
  - eapply P2all_state; eauto.
  - destruct b; [eapply P2all_procend_entry|eapply P2all_procend_exit]; eauto.
  - (* shutdown *)
    destruct e; try (apply Hfr; [reflexivity|eapply sback_shutdown with (2 := H0); intros ? Hq; discriminate Hq]); try (cbn in H0; discriminate H0).
    eapply P2all_sdorder; eauto.
  - apply Hfr; [reflexivity|eapply sback_ordered; eauto].
  - (* environment *)
    destruct e; try (apply Hfr; [reflexivity|eapply sback_env with (2 := H0); intros ? ? Hq; discriminate Hq]); try (cbn in H0; discriminate H0).
    eapply P2all_cmdexit; eauto.
  - (* own *)
    destruct (oirr e) eqn:Hi.
    + eapply P2all_frame; [eapply P2all_own; eauto|apply sback_refl|apply obs_step_keep, Hi|exact Hwk].
    + eapply P2all_own_obs; eauto.
Qed.

(* ---- the events that can write o_endst / o_stopreq of instance i ---------------------------------------------- *)
Definition touches (e : event) (i : iid) : bool :=
  match e with
  | EProcEnd j _ | ENoRestart j | EStopPending j | ENewInst j _ => N.eqb j i
  | EStopEnter j c => N.eqb j i && c
  | EShutdownOrder l => memN i l
  | _ => false
  end.

Definition F2 (o : obs) (i : iid) := (o_endst (oi_get o i), o_stopreq (oi_get o i)).
Lemma F2_refresh o i : F2 (refresh_succ o) i = F2 o i.
Proof. unfold F2, oi_get. rewrite refresh_get. destruct (get i (oi o)); cbn; [destruct (_ && _)|]; reflexivity. Qed.
Lemma F2_on_upd n g o i : F2 (on_upd n g o) i = F2 o i.
Proof. unfold F2, oi_get. now rewrite on_upd_oi. Qed.
Lemma F2_oi_upd j f o i : (j = i -> forall x, o_endst (f x) = o_endst x /\ o_stopreq (f x) = o_stopreq x) -> F2 (oi_upd j f o) i = F2 o i.
Proof.
  intros Hf. unfold F2, oi_get. rewrite oi_upd_get. destruct (N.eqb_spec j i); [|reflexivity].
  destruct (get i (oi o)) as [x|]; cbn; [|reflexivity]. destruct (Hf e x) as [-> ->]. reflexivity.
Qed.
Lemma F2_fold (f : oinst -> oinst) l o i : memN i l = false -> F2 (fold_left (fun o i => oi_upd i f o) l o) i = F2 o i.
Proof.
  revert o. induction l as [|a l IH]; intros o Hm; [reflexivity|]. cbn [fold_left]. rewrite memN_cons in Hm.
  apply orb_false_iff in Hm. destruct Hm as [Ha Hl]. rewrite IH by exact Hl.
  apply F2_oi_upd. intros ->. rewrite N.eqb_refl in Ha. discriminate.
Qed.
Lemma F2_oi_eq o o' i : oi o = oi o' -> F2 o i = F2 o' i.
Proof. unfold F2, oi_get. now intros ->. Qed.

Ltac f2_side Ht :=
  let Hji := fresh in let x := fresh in
  intros Hji x; try (subst; rewrite N.eqb_refl in Ht; cbn in Ht; try discriminate Ht; subst); cbn;
  repeat match goal with |- context[if ?c then _ else _] => destruct c; cbn end; rewrite ?orb_false_r; auto.

Lemma obs_untouched o th e i : touches e i = false -> F2 (obs_step cs o (th, e)) i = F2 o i.
Proof.
  intros Ht. unfold obs_step. rewrite F2_refresh.
  destruct e; cbn [fst snd]; cbn in Ht;
  try (destruct (ev_inst o th _) eqn:Ev);
  try match goal with |- context[match ?b with true => _ | false => _ end] => destruct b end;
  unfold note_late_commit;
  repeat match goal with |- context[if ?b then _ else _] => destruct b end;
  repeat first [ rewrite F2_on_upd | rewrite F2_oi_upd by f2_side Ht | rewrite F2_fold by exact Ht ];
  try (apply F2_oi_eq; reflexivity).
  all: try (unfold F2, oi_get; cbn; rewrite get_set, Ht; reflexivity).
  all: match goal with |- F2 ?Z ?ii = _ => match Z with context[fold_left ?f ?l ?b] =>
         transitivity (F2 (fold_left f l b) ii); [apply F2_oi_eq; reflexivity|] end end;
       rewrite F2_fold by exact Ht; apply F2_oi_eq; reflexivity.
Qed.

(* ---- Rg: begun / launched instances have left runProcess ------------------------------------------------------- *)
Lemma stage_none_step s th e s' i : step_core s th e = Some s' -> get i (stage s) = None -> get i (insts s) <> None ->
  get i (stage s') = None.
Proof.
  intros H Hn Hi. destruct (get i (stage s')) as [v|] eqn:Ev; [|reflexivity].
  destruct (stage_step _ _ _ _ _ _ H Ev) as [A|[[A _]|(n & _ & A & _)]]; congruence.
Qed.

Lemma has_of_none s i : get i (insts s) <> None -> get i (stage s) = None -> has_inst s i.
Proof. intros A B. split; [exact A|]. intros t. rewrite B. discriminate. Qed.

Lemma Rg_init ord : Rg (init cs ord).
Proof. constructor; cbn; intros; discriminate. Qed.

Lemma Rg_step_core s th e s' : Rg s -> step_core s th e = Some s' -> Rg s'.
Proof.
  intros [G1 G2] H.
  assert (Hkeep : forall i, get i (stage s) = None -> get i (insts s) <> None ->
                  get i (stage s') = None /\ get i (insts s') <> None).
  { intros i A B. split; [eapply stage_none_step; eauto|]. apply (has_step _ _ _ _ H i (has_of_none _ _ B A)). }
  constructor.
  - intros t i Ht. destruct (thinst_step _ _ _ _ _ _ H Ht) as [A|(-> & -> & A)].
    + destruct (G1 t i A). auto.
    + cbn in H. break_step H. subst s'. cbn. rewrite get_del, N.eqb_refl. split; [reflexivity|congruence].
  - intros i x' Hx Hl. destruct (launches_step _ _ _ _ _ _ H Hx Hl) as [(x & Ex & Lx)|A].
    + apply Hkeep; [eapply G2; eauto|congruence].
    + destruct (G1 th i A). apply Hkeep; auto.
Qed.

Lemma Rg_flush th s : Rg s -> Rg (flush th s).
Proof.
  intros [G1 G2]. constructor.
  - intros t i. rewrite flush_thinst, flush_stage. intros Ht. destruct (G1 t i Ht) as [A B]. split; [exact A|].
    pose proof (flush_insts th s i) as F. destruct (get i (insts s)); [|congruence]. destruct F as (x' & -> & _). discriminate.
  - intros i x' Hx Hl. rewrite flush_stage. pose proof (flush_insts th s i) as F.
    destruct (get i (insts s)) as [x|] eqn:Ex; [|congruence]. destruct F as (x2 & E2 & L). assert (x2 = x') by congruence. subst.
    destruct L as (_ & _ & _ & L4 & _). eapply G2; eauto. lia.
Qed.

(* ---- Rz: before its creation write an instance has no stop request and no onProcessEnd ------------------------- *)
Lemma Rz_init ord : Rz (init cs ord) (obs0 cs).
Proof. intros i t H. discriminate. Qed.

Lemma Rz_flush th s o : Rz s o -> Rz (flush th s) o.
Proof. intros HR i t. rewrite flush_stage. apply HR. Qed.

Lemma fresh_obs_record o th i n : get i (oi o) = None ->
  o_endst (oi_get (obs_step cs o (th, ENewInst i n)) i) = None /\ o_stopreq (oi_get (obs_step cs o (th, ENewInst i n)) i) = false.
Proof. intros Ho. unfold obs_step, oi_get. cbn [ev_inst fst snd]. rewrite refresh_get. cbn. rewrite get_set_same. cbn. auto. Qed.

Lemma Rz_step_core s o th e s' : Rc cs s o -> Rt s o -> Rg s -> Rz s o -> step_core s th e = Some s' ->
  Rz s' (obs_step cs o (th, e)).
Proof.
  intros HRc HRt [G1 G2] HRz H i t Hst.
  assert (Hnew : forall n, e = ENewInst i n ->
            o_endst (oi_get (obs_step cs o (th, e)) i) = None /\ o_stopreq (oi_get (obs_step cs o (th, e)) i) = false).
  { intros n ->. apply fresh_obs_record. cbn in H. unfold step_reg in H. break_step H.
    apply negb_true_iff in E0. unfold has in E0. destruct (get i (insts s)) eqn:Ei; [discriminate|]. eapply rc_noinst; eauto. }
  destruct (stage_step _ _ _ _ _ _ H Hst) as [A|[(_ & k & [=])|(n & -> & _)]]; [|eapply Hnew; eauto].
  destruct (HRz i t A) as [Z1 Z2].
  assert (Hq : ~ has_inst s i) by (intros [_ Q]; exact (Q t A)).
  destruct (touches e i) eqn:Ht.
  2:{ pose proof (obs_untouched o th e i Ht) as E. split; [rewrite <- Z1; exact (f_equal fst E)|rewrite <- Z2; exact (f_equal snd E)]. }
  destruct e; try discriminate Ht; cbn in Ht; try (apply N.eqb_eq in Ht; rewrite Ht in *; clear Ht); try (eapply Hnew; reflexivity); exfalso; cbn in H.
  - (* EProcEnd i *) unfold step_procend in H. destruct (get i (insts s)) as [x|] eqn:Ex; [|discriminate]. cbv zeta in H.
    destruct (spc (get_thread s th)) eqn:Es;
      try (break_step H; match goal with E : opt_eqb N.eqb (get th (thinst s)) (Some i) = true |- _ =>
             apply opt_eqb_N_eq in E; destruct (G1 _ _ E); congruence end).
    break_step H. split_andb. subst. pose proof (rt_spend _ _ HRt _ _ Es) as Hs. unfold sreq in Hs. congruence.
  - (* ENoRestart i *) unfold step_api in H. apply Hq. apply (rt_apc _ _ HRt th i). break_step H; split_andb; subst; eauto.
  - (* EStopEnter i true *) apply andb_true_iff in Ht. destruct Ht as [Ht ->]. apply N.eqb_eq in Ht. rewrite Ht in *. clear Ht.
    unfold step_stop in H. destruct (get i (insts s)) as [x|] eqn:Ex; [|discriminate]. cbv zeta in H. break_step H.
    destruct (spc (get_thread s th)) eqn:Es; try discriminate.
    + destruct (dpc (get_thread s th)) eqn:Ed; try discriminate. destruct rest; try discriminate. split_andb. subst.
      match goal with A0 : get ?ii (stage s) = Some _ |- _ =>
        assert (Hs : sreq o ii) by (eapply (rt_loop _ _ HRt); [exact Ed|]; rewrite memN_cons, N.eqb_refl; reflexivity);
        unfold sreq in Hs; congruence end.
    + split_andb. subst. pose proof (rt_ready _ _ HRt _ _ _ Es) as Hs. cbn in Hs. unfold sreq in Hs. congruence.
  - (* EStopPending i *) unfold step_stop in H. destruct (get i (insts s)) as [x|] eqn:Ex; [|discriminate].
    destruct (spc (get_thread s th)) eqn:Es; try discriminate. break_step H. split_andb. subst.
    pose proof (rt_ent _ _ HRt _ _ _ Es) as Hs. destruct cancel; [unfold sreq in Hs; congruence|].
    unfold lo in Hs. destruct (rc_inst _ _ _ HRc _ _ Ex) as (xo & Exo & _ & _ & Hl). rewrite (oi_get_some _ _ _ Exo), Hl in Hs.
    rewrite (G2 _ _ Ex Hs) in A. discriminate.
  - (* EShutdownOrder *) unfold step_shutdown in H. break_step H. apply Hq.
    apply memN_In in Ht. apply (same_members_in _ _ _ E0) in Ht. apply in_map_iff in Ht. destruct Ht as (p & <- & Hp).
    apply (rt_run _ _ HRt _ Hp).
Qed.

(* ---- Rs: a pending-stop targets an instance that is not in a launched pc -------------------------------------- *)
Lemma Rs_init ord : Rs (init cs ord) (obs0 cs).
Proof. intros th i x H. cbn in H. discriminate. Qed.

Lemma Rs_flush th s o : Rs s o -> Rs (flush th s) o.
Proof.
  intros HR t i x' Hs HW Hx.
  assert (Hs0 : spc (get_thread s t) = SPend i).
  { destruct (flush_get_thread th s t) as [E|[-> E]]; rewrite E in Hs; exact Hs. }
  pose proof (flush_insts th s i) as F. destruct (get i (insts s)) as [x|] eqn:Ex; [|congruence].
  destruct F as (x2 & E2 & L). assert (x2 = x') by congruence. subst. destruct L as (_ & _ & L3 & _). rewrite L3. eapply HR; eauto.
Qed.

Lemma Rs_step_core s o th e s' : Rc cs s o -> Rt s o -> P2all s o -> Rs s o -> step_core s th e = Some s' ->
  Rs s' (obs_step cs o (th, e)).
Proof.
  intros HRc HRt HP HRs H t i x' Hs HW Hx.
  pose proof (proj2 (wkeep_step cs o (th, e)) HW) as HW0.
  destruct (launched_pc (pc x')) eqn:Hl; [exfalso|reflexivity].
  destruct (launched_enter _ _ _ _ _ _ H Hx Hl) as (x & Ex & Hor).
  destruct (rc_inst _ _ _ HRc _ _ Ex) as (xo & Exo & _).
  destruct (spend_step _ _ _ _ _ _ H Hs) as [A|(-> & -> & y & Ey & Hst)].
  - destruct Hor as [Hor|Hor]; [rewrite (HRs _ _ _ A HW0 Ex) in Hor; discriminate|].
    pose proof (rt_spend _ _ HRt _ _ A) as Hsr. unfold sreq in Hsr. rewrite (oi_get_some _ _ _ Exo) in Hsr.
    pose proof (p_stop _ _ _ _ (HP _ _ _ Ex Exo) (W3_W2 _ HW0) Hsr) as Hc. rewrite Hor in Hc. discriminate.
  - assert (y = x) by congruence. subst y.
    destruct Hor as [Hor|Hor].
    + exact (p_status _ _ _ _ (HP _ _ _ Ex Exo) HW0 Hor Hst).
    + (* the step does not move the pc *)
      destruct (sback_stop s th (EStopPending i) s' H) as [B _]. destruct (B _ _ Hx) as (x2 & E2 & Ik).
      assert (x2 = x) by congruence. subst. destruct Ik as (_ & _ & Ipc & _). rewrite Ipc, Hor in Hl. discriminate.
Qed.


End F.
