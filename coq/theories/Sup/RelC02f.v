(* C02 simulation, part 5: command exit, stop requests (no_restart, shutdown order, stop_enter, stop_pending),
   new instances; then every step preserves P2all. *)
From Coq Require Import List ZArith NArith Bool Lia.
From RecordUpdate Require Import RecordSet.
From PC.Base Require Import Assoc.
From PC.Sup Require Import Model Monitors Tactics Sim ObsFacts Effects RelCore LemC02 RelC02defs RelC02t RelC02t2 RelC02t3 RelC02m RelC02b RelC02c RelC02d RelC02d2.
Import ListNotations RecordSetNotations.

Section F.
Context (cs : amap pconf).

(* ---- joiners of the heavy files: Rt and the own-thread events -------------------------------------------- *)
Lemma Rt_step_core s o th e s' : Rc cs s o -> Rt s o -> step_core s th e = Some s' -> Rt s' (obs_step cs o (th, e)).
Proof.
  intros HRc HRt H.
  assert (Hle : obs_le o (obs_step cs o (th, e))).
  { apply obs_step_le. intros i n ->. cbn in H. unfold step_reg in H. break_step H.
    apply negb_true_iff in E0. unfold has in E0. destruct (get i (insts s)) eqn:Ei; [discriminate|].
    eapply rc_noinst; eauto. }
  assert (Hoi : forall i, get i (insts s) <> None -> exists xo, get i (oi o) = Some xo).
  { intros i Hi. destruct (get i (insts s)) as [x|] eqn:Ex; [|congruence].
    destruct (rc_inst _ _ _ HRc _ _ Ex) as (xo & Exo & _). eauto. }
  assert (Hev : ev_facts (obs_step cs o (th, e)) e).
  { destruct e; cbn [ev_facts]; auto.
    - (* EProcEnd *) cbn in H. unfold step_procend in H. destruct (get i (insts s)) as [x|] eqn:Ex; [|discriminate].
      destruct (Hoi i) as (xo & Exo); [congruence|]. eapply endst_ProcEnd; eauto.
    - (* ENoRestart *) cbn in H. unfold step_api in H.
      destruct (Hoi i) as (xo & Exo); [|eapply sreq_NoRestart; eauto].
      refine (proj1 (rt_apc _ _ HRt th i _)). break_step H; split_andb; subst; eauto.
    - (* EStopPending *) cbn in H. unfold step_stop in H. destruct (get i (insts s)) as [x|] eqn:Ex; [|discriminate].
      destruct (Hoi i) as (xo & Exo); [congruence|]. eapply sreq_StopPending; eauto.
    - (* EShutdownOrder *) intros i Hm. pose proof Hm as Hi. cbn in H. unfold step_shutdown in H. break_step H.
      apply memN_In in Hi. apply (same_members_in _ _ _ E0) in Hi. apply in_map_iff in Hi. destruct Hi as (p & Ep & Hp).
      destruct (Hoi i) as (xo & Exo); [rewrite <- Ep; apply (proj1 (rt_run _ _ HRt _ Hp))|].
      eapply sreq_ShutdownOrder; eauto.
    - (* EProbe *) destruct fatal; [|exact I]. cbn in H. unfold step_env in H.
      destruct (get i (insts s)) as [x|] eqn:Ex; [|discriminate].
      destruct (rc_inst _ _ _ HRc _ _ Ex) as (xo & Exo & _ & _ & Hl).
      apply (lo_le _ _ _ Hle). unfold lo. rewrite (oi_get_some _ _ _ Exo), Hl.
      destruct (launches x); [|lia]. break_step H; discriminate. }
  pose proof (has_step _ _ _ _ H) as Hh.
  pose proof (Rt_obs_le _ _ _ HRt Hle) as HRt'.
  destruct (step_core_kind _ _ _ _ H) as [? ?|i x ? ? ? ? ? ?|H0|H0|H0|i s0 ? H0|i s0 b ? H0|H0|i ? H0|H0|H0]; subst.
  - exact HRt'.
  - destruct HRt' as [G1 Ga Gb G2 G3 G4 Ge G5 G6].
    constructor; [intros p Hp; apply Hh, G1, Hp|intros t0 n i0 Hq; apply Hh; eapply Ga; exact Hq
                 |intros t0 i0 Hq; apply Hh; eapply Gb; exact Hq|exact G2|exact G3|exact G4|exact Ge|exact G5|exact G6].
  - exact (Rt_step_reg _ _ _ _ _ HRt' Hh H0).
  - exact (Rt_step_api _ _ _ _ _ HRt' Hev Hh H0).
  - exact (Rt_step_stop _ _ _ _ _ HRt' Hev Hh H0).
  - exact (Rt_step_state _ _ _ _ _ _ HRt' Hh H0).
  - exact (Rt_step_procend _ _ _ _ _ _ _ HRt' Hev Hh H0).
  - exact (Rt_step_shutdown _ _ _ _ _ HRt' Hev Hh H0).
  - exact (Rt_step_ordered _ _ _ _ _ HRt' Hh H0).
  - exact (Rt_step_env _ _ _ _ _ HRt' Hev Hh H0).
  - exact (Rt_step_own _ _ _ _ _ HRt' Hh H0).
Qed.

Lemma Rt_step s o th e s' : Rc cs s o -> Rt s o -> step s (th, e) = Some s' -> Rt s' (obs_step cs o (th, e)).
Proof.
  intros HRc HRt H. unfold step in H. cbn [fst snd] in H.
  eapply Rt_step_core; [|apply Rt_flush, HRt|exact H].
  eapply Rc_sys_same; [exact HRc|apply sys_same_flush].
Qed.



(* all own events that the observer's instance records do not react to *)
Lemma P2all_own s o th e s' : Rc cs s o -> P2all s o -> oirr e = true -> step_own s th e = Some s' -> P2all s' o.
Proof.
  intros HRc HP Hirr H. destruct (own_special e) eqn:Hsp; [|eapply P2all_own_gen; eauto].
  destruct e; try discriminate Hsp;
    eauto using P2all_own_wait, P2all_own_code, P2all_own_decision, P2all_own_backoff, P2all_own_cancel.
Qed.



(* a stop request for instance x arrives: the observer records it, the model may set isStopped *)
Lemma P2_stopreq s o x xo s' o' xo' (b : bool) :
  P2 s o x xo -> wkeep o o' -> (W2 o' = false -> o_commit xo = false) ->
  okeep (xo <| o_stopreq := true |>) xo' -> (forall n, vis_of s' n = vis_of s n) ->
  (W3 o' = false -> launched_pc (pc x) = true -> commit_pc (pc x) = false -> b = true) ->
  P2 s' o' (x <| f_stopped := if b then true else f_stopped x |>) xo'.
Proof.
  intros [] (Wa & Wb) Hc (O1 & O2 & O3 & O4 & O5 & O6) Hv Hb. cbn in O1, O2, O3, O4, O5, O6.
  assert (Hnc : W2 o' = false -> commit_pc (pc x) = false).
  { intros Hw. destruct (commit_pc (pc x)) eqn:E; [|reflexivity]. rewrite p_commit in Hc by auto. now apply Hc. }
  constructor; cbn; unfold Pok, GaveUp in *; cbn; rewrite ?Hv, ?O1, ?O2, ?O3, ?O4, ?O5, ?O6; auto.
  - intros c Hcc. destruct (p_gaveup c Hcc) as (A & _). split; [exact A|now left].
  - intros Hw _ Hp. destruct b; [reflexivity|].
    destruct (commit_pc (pc x)) eqn:Ec; [specialize (Hnc (W3_W2 _ Hw)); discriminate|].
    assert (Hl : launched_pc (pc x) = true) by (destruct (pc x); try discriminate; reflexivity).
    specialize (Hb Hw Hl eq_refl). discriminate.
Qed.

Lemma stopreq_shape o o0 th e i : oi o0 = oi o ->
  obs_step cs o (th, e) = refresh_succ (oi_upd i (fun x => x <| o_stopreq := true |>) o0) ->
  forall j xo', get j (oi (obs_step cs o (th, e))) = Some xo' ->
  exists xo, get j (oi o) = Some xo /\ okeep (if N.eqb i j then xo <| o_stopreq := true |> else xo) xo'.
Proof. intros E -> j xo' H. eapply obs_upd_shape in H; eauto. Qed.

(* ---- ENoRestart ------------------------------------------------------------------------------------------ *)
Lemma P2all_norestart s o th i s' : Rc cs s o -> Rt s o -> P2all s o -> step_api s th (ENoRestart i) = Some s' ->
  P2all s' (obs_step cs o (th, ENoRestart i)).
Proof.
  intros HRc HRt HP H. pose proof (wkeep_step cs o (th, ENoRestart i)) as Hwk.
  pose proof (W_NoRestart cs o th i) as HW.
  assert (Hshape : forall j xo', get j (oi (obs_step cs o (th, ENoRestart i))) = Some xo' ->
    exists xo, get j (oi o) = Some xo /\ okeep (if N.eqb i j then xo <| o_stopreq := true |> else xo) xo').
  { eapply stopreq_shape; [|reflexivity]. reflexivity. }
  set (o' := obs_step cs o (th, ENoRestart i)) in *. clearbody o'.
  assert (Hs' : s' = set_thread th (get_thread s th <| spc := SReady i true |>) (upd_inst i (fun x => x <| f_stopped := true |>) s)).
  { unfold step_api in H. break_step H; split_andb; subst; reflexivity. }
  subst s'. intros j y' yo' Hy' Hyo'. autorewrite with sup in Hy'.
  destruct (Hshape j yo' Hyo') as (yo & Eyo & Ok).
  destruct (N.eqb_spec i j) as [<-|Hne].
  - destruct (get i (insts s)) as [x|] eqn:Ex; [|discriminate]. cbn in Hy'. injection Hy' as <-.
    apply (P2_stopreq s o x yo _ o' yo' true (HP _ _ _ Ex Eyo) Hwk); auto.
    + intros Hw. specialize (HW Hw). now rewrite (oi_get_some _ _ _ Eyo) in HW.
    + intros n. now autorewrite with sup.
  - eapply P2_frame; [apply (HP _ _ _ Hy' Eyo)|apply ikeep_refl|exact Ok| |exact Hwk].
    apply vrel_vkeep. intros n. autorewrite with sup. split; auto.
Qed.

(* ---- EShutdownOrder -------------------------------------------------------------------------------------- *)
Lemma P2all_sdorder s o th order s' : Rc cs s o -> P2all s o -> step_shutdown s th (EShutdownOrder order) = Some s' ->
  P2all s' (obs_step cs o (th, EShutdownOrder order)).
Proof.
  intros HRc HP H. pose proof (wkeep_step cs o (th, EShutdownOrder order)) as Hwk.
  pose proof (W_ShutdownOrder cs o th order) as HW.
  assert (Hget : forall j, get j (oi (obs_step cs o (th, EShutdownOrder order))) =
     option_map (fun x => if o_ended x && (r_code (on_get (obs_step cs o (th, EShutdownOrder order)) (o_nm x)) =? 0)%Z then x <| o_succ := true |> else x)
       (if memN j order then option_map (fun x => x <| o_stopreq := true |> <| o_insnap := true |>) (get j (oi o)) else get j (oi o))).
  { intros j. unfold obs_step at 1. cbn [ev_inst fst snd]. rewrite refresh_get. cbn [oi].
    match goal with |- option_map ?f _ = option_map ?g _ => assert (Hfg : f = g) by reflexivity end.
    f_equal. cbn. rewrite fold_oi_upd_get by reflexivity. reflexivity. }
  set (o' := obs_step cs o (th, EShutdownOrder order)) in *. clearbody o'.
  unfold step_shutdown in H. break_step H; subst s'.
  all: intros j y' yo' Hy' Hyo'; autorewrite with sup in Hy'; cbn in Hy'; rewrite fold_upd_inst_get in Hy' by reflexivity;
       rewrite Hget in Hyo'; destruct (memN j order) eqn:Hm;
       (destruct (get j (insts s)) as [y|] eqn:Ey; [|discriminate]); (destruct (get j (oi o)) as [yo|] eqn:Eyo; [|discriminate]);
       cbn in Hy', Hyo'; injection Hy' as <-; injection Hyo' as <-.
    all: try (apply (P2_stopreq s o y yo _ o' _ true (HP _ _ _ Ey Eyo) Hwk); auto;
            [ intros Hw; specialize (HW j Hw Hm); now rewrite (oi_get_some _ _ _ Eyo) in HW
            | match goal with |- context[if ?c then _ else _] => destruct c end; unfold okeep; cbn; repeat split; reflexivity
            | intros n; unfold vis_of; cbn; now rewrite viss_fold_upd_inst ]).
  all: eapply P2_frame; [apply (HP _ _ _ Ey Eyo)|apply ikeep_refl| | |exact Hwk];
       [ match goal with |- context[if ?c then _ else _] => destruct c end; unfold okeep; cbn; repeat split; reflexivity
       | apply vrel_vkeep; intros n; unfold vis_of; cbn; rewrite viss_fold_upd_inst; split; auto ].
Qed.


(* ---- EStopPending ---------------------------------------------------------------------------------------- *)
Lemma P2all_stoppending s o th i s' : Rc cs s o -> P2all s o -> step_stop s th (EStopPending i) = Some s' ->
  P2all s' (obs_step cs o (th, EStopPending i)).
Proof.
  intros HRc HP H. pose proof (wkeep_step cs o (th, EStopPending i)) as Hwk.
  pose proof (W_StopPending cs o th i) as HW.
  assert (Hshape : forall j xo', get j (oi (obs_step cs o (th, EStopPending i))) = Some xo' ->
    exists xo, get j (oi o) = Some xo /\ okeep (if N.eqb i j then xo <| o_stopreq := true |> else xo) xo').
  { eapply stopreq_shape; [|reflexivity]. reflexivity. }
  set (o' := obs_step cs o (th, EStopPending i)) in *. clearbody o'.
  unfold step_stop in H. destruct (get i (insts s)) as [x|] eqn:Ex; [|discriminate].
  assert (Hst : st (vis_of s (nm x)) = SPending /\ exists t', s' = set_thread th t' s).
  { break_step H; split_andb; subst. split; [now apply status_eqb_eq|eauto]. }
  destruct Hst as (Hst & t' & ->). clear H.
  intros j y' yo' Hy' Hyo'. autorewrite with sup in Hy'.
  destruct (Hshape j yo' Hyo') as (yo & Eyo & Ok).
  destruct (N.eqb_spec i j) as [<-|Hne].
  - assert (y' = x) by congruence. subst y'.
    pose proof (P2_stopreq s o x yo (set_thread th t' s) o' yo' false (HP _ _ _ Ex Eyo) Hwk) as HH. cbn in HH.
    assert (Hx : x <| f_stopped := f_stopped x |> = x) by (destruct x; reflexivity). rewrite Hx in HH. apply HH; auto.
    + intros Hw. specialize (HW Hw). now rewrite (oi_get_some _ _ _ Eyo) in HW.
    + intros Hw Hl _. exfalso. apply (p_status _ _ _ _ (HP _ _ _ Ex Eyo) (proj2 Hwk Hw) Hl Hst).
  - eapply P2_frame; [apply (HP _ _ _ Hy' Eyo)|apply ikeep_refl|exact Ok|apply vrel_vkeep; intros n; split; auto|exact Hwk].
Qed.

(* ---- EStopEnter ------------------------------------------------------------------------------------------ *)
Lemma P2all_stopenter s o th i cancel s' : Rc cs s o -> Rt s o -> P2all s o -> step_stop s th (EStopEnter i cancel) = Some s' ->
  P2all s' (obs_step cs o (th, EStopEnter i cancel)).
Proof.
  intros HRc HRt HP H. pose proof (wkeep_step cs o (th, EStopEnter i cancel)) as Hwk.
  assert (Hshape : forall j xo', get j (oi (obs_step cs o (th, EStopEnter i cancel))) = Some xo' ->
    exists xo, get j (oi o) = Some xo /\ okeep (if N.eqb i j then xo <| o_stopreq := o_stopreq xo || cancel |> else xo) xo').
  { intros j xo'. unfold obs_step. cbn [ev_inst fst snd]. intros Hq. eapply obs_upd_shape in Hq; eauto. }
  set (o' := obs_step cs o (th, EStopEnter i cancel)) in *. clearbody o'.
  unfold step_stop in H. destruct (get i (insts s)) as [x|] eqn:Ex; [|discriminate]. cbv zeta in H.
  assert (Hsr : cancel = true -> sreq o i).
  { intros ->. break_step H.
    destruct (spc (get_thread s th)) eqn:Es; try discriminate.
    - destruct (dpc (get_thread s th)) eqn:Ed; try discriminate. destruct rest; try discriminate. split_andb. subst.
      eapply (rt_loop _ _ HRt); [exact Ed|]. rewrite memN_cons, N.eqb_refl. reflexivity.
    - split_andb. subst. exact (rt_ready _ _ HRt _ _ _ Es). }
  assert (Hs' : exists t', s' = set_thread th t' s) by (break_step H; subst; eauto).
  destruct Hs' as (t' & ->). clear H.
  eapply P2all_frame; [exact HP|apply sback_eq; reflexivity| |exact Hwk].
  intros j xo' Hj. destruct (Hshape j xo' Hj) as (xo & Exo & Ok). exists xo. split; [exact Exo|].
  destruct (N.eqb_spec i j) as [<-|]; [|exact Ok].
  destruct cancel.
  - specialize (Hsr eq_refl). unfold sreq in Hsr. rewrite (oi_get_some _ _ _ Exo) in Hsr.
    destruct Ok as (O1 & O2 & O3 & O4 & O5 & O6). cbn in *. rewrite Hsr in O2. cbn in O2. unfold okeep. repeat split; congruence.
  - destruct Ok as (O1 & O2 & O3 & O4 & O5 & O6). cbn in *. rewrite orb_false_r in O2. unfold okeep. repeat split; congruence.
Qed.

(* ---- ECmdExit -------------------------------------------------------------------------------------------- *)
Lemma P2all_cmdexit s o th i c s' : P2all s o -> step_env s th (ECmdExit i c) = Some s' ->
  P2all s' (obs_step cs o (th, ECmdExit i c)).
Proof.
  intros HP H. pose proof (wkeep_step cs o (th, ECmdExit i c)) as Hwk.
  assert (Hshape : forall j xo', get j (oi (obs_step cs o (th, ECmdExit i c))) = Some xo' ->
    exists xo, get j (oi o) = Some xo /\
      okeep (if N.eqb i j then xo <| o_alive := false |> <| o_code := Some c |> <| o_sd_victim := o_insnap xo |> else xo) xo').
  { intros j xo'. unfold obs_step. cbn [ev_inst fst snd]. intros Hq. eapply obs_upd_shape in Hq; eauto. }
  set (o' := obs_step cs o (th, ECmdExit i c)) in *. clearbody o'.
  unfold step_env in H. destruct (get i (insts s)) as [x|] eqn:Ex; [|discriminate].
  destruct (alive x) eqn:Ha; [|discriminate]. injection H as <-.
  intros j y' yo' Hy' Hyo'. autorewrite with sup in Hy'.
  destruct (Hshape j yo' Hyo') as (yo & Eyo & Ok).
  destruct (N.eqb_spec i j) as [<-|Hne].
  - rewrite Ex in Hy'. cbn in Hy'. injection Hy' as <-.
    destruct (HP _ _ _ Ex Eyo) as [Pcommit Pstop Pexited Palive Pcode Pdecided Prelaunch Pgaveup Prestarts Ppre Pfstopped Prunctx Pendst Pgone Pnostop Pstatus Ps1 Pendst2].
    destruct Ok as (Oa & Ob & Oc & Od & Oe & Of). cbn in Oa, Ob, Oc, Od, Oe, Of.
    pose proof (Palive Ha) as Epc. rewrite Epc in *.
    constructor; cbn; rewrite ?Epc, ?Oa, ?Ob, ?Oc, ?Od, ?Oe, ?Of; unfold Pok, GaveUp in *; cbn; autorewrite with sup; auto.
    all: try (intros; discriminate).
    all: try (intros c0 Hc; repeat destruct Hc as [Hc|Hc]; try discriminate; destruct Hc as [? Hc]; discriminate).
    + intros Hw Hs _. apply Pnostop; auto. apply Hwk, Hw.
    + intros Hw _. apply Pstatus; auto. apply Hwk, Hw.
    + intros Hw He. apply Pendst2; [apply Hwk, Hw|exact He].
  - eapply P2_frame; [apply (HP _ _ _ Hy' Eyo)|apply ikeep_refl|exact Ok| |exact Hwk].
    apply vrel_vkeep. intros n. autorewrite with sup. split; auto.
Qed.

(* ---- ENewInst -------------------------------------------------------------------------------------------- *)
Lemma P2all_newinst s o th i n s' : Rc cs s o -> P2all s o -> step_reg s th (ENewInst i n) = Some s' ->
  P2all s' (obs_step cs o (th, ENewInst i n)).
Proof.
  intros HRc HP H. pose proof (wkeep_step cs o (th, ENewInst i n)) as Hwk.
  unfold step_reg in H. break_step H. subst s'.
  intros j y' yo' Hy' Hyo'. cbn in Hy'. rewrite get_set in Hy'.
  unfold obs_step in Hyo'. cbn [ev_inst fst snd] in Hyo'. rewrite refresh_get in Hyo'. cbn [oi] in Hyo'. cbn in Hyo'.
  rewrite get_set in Hyo'. destruct (N.eqb_spec i j) as [<-|Hne].
  - injection Hy' as <-. cbn in Hyo'. injection Hyo' as <-.
    constructor; cbn; try discriminate; auto; try (intros; discriminate); try (intros; congruence).
    + intros c0 [Hc|Hc]; discriminate.
    + intros c0 [Hc|[Hc|Hc]]; discriminate.
    + intros c0 [Hc|[b Hc]]; discriminate.
    + split; [lia|intros; lia].
    + intros s2 c0 [Hc|[b Hc]]; discriminate.
  - destruct (get j (oi o)) as [yo|] eqn:Eyo; [|discriminate]. cbn in Hyo'. injection Hyo' as <-.
    eapply P2_frame; [apply (HP _ _ _ Hy' Eyo)|apply ikeep_refl| |apply vrel_vkeep; intros n0; split; auto|exact Hwk].
    match goal with |- okeep _ (if ?c then _ else _) => destruct c end; unfold okeep; cbn; repeat split; reflexivity.
Qed.

(* ---- every step ------------------------------------------------------------------------------------------ *)
Lemma P2all_step_core s o th e s' : Rc cs s o -> Rt s o -> Ro o -> Rz s o -> Rs s o -> P2all s o -> step_core s th e = Some s' ->
  P2all s' (obs_step cs o (th, e)).
Proof.
  intros HRc HRt HRo HRz HRs HP H. pose proof (wkeep_step cs o (th, e)) as Hwk.
  assert (Hfr : oirr e = true -> sback s s' -> P2all s' (obs_step cs o (th, e))).
  { intros Hi Hs. eapply P2all_frame; [exact HP|exact Hs|apply obs_step_keep, Hi|exact Hwk]. }
  destruct (step_core_kind _ _ _ _ H) as [? ?|i x ? ? ? ? ? ?|H0|H0|H0|i s0 ? H0|i s0 b ? H0|H0|i ? H0|H0|H0]; subst.
  - apply Hfr; [reflexivity|apply sback_refl].
  - apply Hfr; [reflexivity|apply sback_eq; reflexivity].
  - (* registry *)
    destruct e; try (apply Hfr; [reflexivity|eapply sback_reg with (2 := H0); intros ? ? Hq; discriminate Hq]); try (cbn in H0; discriminate H0).
    eapply P2all_newinst; eauto.
  - (* API *)
    destruct e; try (apply Hfr; [reflexivity|eapply sback_api with (2 := H0); intros ? Hq; discriminate Hq]); try (cbn in H0; discriminate H0).
    eapply P2all_norestart; eauto.
  - (* stop *)
    destruct e; try (apply Hfr; [reflexivity|eapply sback_stop; exact H0]); try (cbn in H0; discriminate H0).
    + eapply P2all_stopenter; eauto.
    + eapply P2all_stoppending; eauto.
  - eapply P2all_state; eauto.
  - destruct b; [eapply P2all_procend_entry|eapply P2all_procend_exit]; eauto.
  - (* shutdown *)
    destruct e; try (apply Hfr; [reflexivity|eapply sback_shutdown with (2 := H0); intros ? Hq; discriminate Hq]); try (cbn in H0; discriminate H0).
    eapply P2all_sdorder; eauto.
  - apply Hfr; [reflexivity|eapply sback_ordered; eauto].
  - (* environment *)
    destruct e; try (apply Hfr; [reflexivity|eapply sback_env with (2 := H0); intros ? ? Hq; discriminate Hq]); try (cbn in H0; discriminate H0).
    eapply P2all_cmdexit; eauto.
  - (* own *)
    destruct (oirr e) eqn:Hi.
    + eapply P2all_frame; [eapply P2all_own; eauto|apply sback_refl|apply obs_step_keep, Hi|exact Hwk].
    + eapply P2all_own_obs; eauto.
Qed.
End F.
