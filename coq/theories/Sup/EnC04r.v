(* C04 enabledness, part 5: the program counter of an instance is changed only by its own goroutine (brute force). *)
From Coq Require Import List ZArith NArith Bool Lia.
From RecordUpdate Require Import RecordSet.
From PC.Base Require Import Assoc.
From PC.Sup Require Import Model Monitors Tactics Sim ObsFacts Effects RelCore LemC04 LemC04i LemC04l.
Import ListNotations RecordSetNotations.

(* the program counter of an instance is changed only by its own goroutine *)
Definition pcframe_eff (s : sys) (th : tid) (e : event) (s' : sys) : Prop :=
  forall j x, get j (insts s) = Some x -> get th (thinst s) <> Some j -> exists x', get j (insts s') = Some x' /\ pc x' = pc x.

Ltac pcf_tac :=
  intros jj xx Hjj Hne;
  repeat (sup_goal; match goal with |- context[insts ?X] =>
    match X with
    | match ?b with _ => _ end => destruct b eqn:?
    | if ?b then _ else _ => destruct b eqn:?
    end end);
  sup_goal; cbn -[get Assoc.set N.eqb get_thread]; sup_goal; cbn -[get Assoc.set N.eqb get_thread];
  repeat match goal with
  | |- context[N.eqb ?a jj] => destruct (N.eqb_spec a jj); [subst|]
  end;
  repeat match goal with
  | H1 : get ?i ?m = Some ?a, H2 : get ?i ?m = Some ?b |- _ => assert (a = b) by congruence; subst; clear H2
  end;
  repeat match goal with H : get jj (insts _) = _ |- _ => rewrite H end; cbn [option_map];
  (eexists; split; [reflexivity|]);
  split_andb; subst;
  repeat match goal with H : opt_eqb N.eqb _ (Some _) = true |- _ => apply opt_eqb_N_eq in H end;
  first [ reflexivity | exfalso; apply Hne; first [reflexivity|assumption|congruence]
        | cbn; repeat match goal with |- context[if ?b then _ else _] => destruct b end; reflexivity ].

Lemma own_pcf s th e s' : step_own s th e = Some s' -> pcframe_eff s th e s'.
Proof. intros H. unfold pcframe_eff. destruct e; kind_cases H; pcf_tac. Qed.
Lemma reg_pcf s th e s' : step_reg s th e = Some s' -> (forall i n, e <> ENewInst i n) -> pcframe_eff s th e s'.
Proof. intros H Hn. unfold pcframe_eff. destruct e; try (exfalso; eapply Hn; reflexivity); kind_cases H; pcf_tac. Qed.
Lemma api_pcf s th e s' : step_api s th e = Some s' -> pcframe_eff s th e s'.
Proof. intros H. unfold pcframe_eff. destruct e; kind_cases H; pcf_tac. Qed.
Lemma stop_pcf s th e s' : step_stop s th e = Some s' -> pcframe_eff s th e s'.
Proof. intros H. unfold pcframe_eff. destruct e; kind_cases H; pcf_tac. Qed.
Lemma ordered_pcf s th i s' : step_ordered_go s th i = Some s' -> pcframe_eff s th (EOrderedGo i) s'.
Proof. intros H. unfold pcframe_eff. kind_cases H; pcf_tac. Qed.
Lemma env_pcf s th e s' : step_env s th e = Some s' -> pcframe_eff s th e s'.
Proof. intros H. unfold pcframe_eff. destruct e; kind_cases H; pcf_tac. Qed.
Lemma procend_pcf s th i s0 b s' : step_procend s th i s0 b = Some s' -> pcframe_eff s th (if b then EProcEnd i s0 else EProcEnded i s0) s'.
Proof. intros H. unfold pcframe_eff. destruct b; kind_cases H; pcf_tac. Qed.
Lemma state_pcf s th i s0 s' : step_state s th i s0 = Some s' -> pcframe_eff s th (EState i s0) s'.
Proof. intros H. unfold pcframe_eff. kind_cases H; pcf_tac. Qed.
Lemma shutdown_pcf s th e s' : step_shutdown s th e = Some s' -> pcframe_eff s th e s'.
Proof.
  intros H. unfold pcframe_eff. destruct e; kind_cases H; try pcf_tac.
  intros j x Hj _. cbn -[get].
  destruct (fold_stopped_get order s j x Hj) as (x' & Hx' & Hd). exists x'. split; [exact Hx'|].
  destruct Hd as [->| ->]; reflexivity.
Qed.
Lemma core_pcf s th e s' : step_core s th e = Some s' -> pcframe_eff s th e s'.
Proof.
  intros H. destruct (step_core_kind _ _ _ _ H) as [? ?|i x ? ? ? ? ? ? ?|Hk|Hk|Hk|i s0 ? Hk|i s0 b ? Hk|Hk|i ? Hk|Hk|Hk]; subst.
  - intros j x Hj _. eauto.
  - intros j y Hj _. eauto.
  - destruct e; try (apply reg_pcf; [exact Hk|intros; discriminate]).
    intros j x Hj _. destruct (newinst_eff _ _ _ _ _ H) as (Hnone & c & Hget).
    exists x. rewrite Hget. destruct (N.eqb_spec i j); [subst; congruence|]. auto.
  - now apply api_pcf.
  - now apply stop_pcf.
  - now apply state_pcf.
  - now apply procend_pcf.
  - now apply shutdown_pcf.
  - now apply ordered_pcf.
  - now apply env_pcf.
  - now apply own_pcf.
Qed.
