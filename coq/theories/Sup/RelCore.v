(* The basic agreement between the model state and the observer state, shared by all simulation proofs. *)
From Coq Require Import List ZArith NArith Bool Lia.
From RecordUpdate Require Import RecordSet.
From PC.Base Require Import Assoc.
From PC.Sup Require Import Model Monitors Tactics Sim ObsFacts Effects.
Import ListNotations RecordSetNotations.

Section RelCore.
Context (cs : amap pconf).

Record Rc (s : sys) (o : obs) : Prop := mkRc {
  rc_confs : confs s = cs;
  rc_th : forall th, get th (thinst s) = get th (o_th o);
  rc_inst : forall i x, get i (insts s) = Some x ->
            exists xo, get i (oi o) = Some xo /\ o_nm xo = nm x /\ get (nm x) cs = Some (cf x) /\
                       o_launches xo = launches x;
  rc_noinst : forall i, get i (insts s) = None -> get i (oi o) = None;
  rc_name : forall n c, get n cs = Some c ->
            exists v r, get n (viss s) = Some v /\ get n (onm o) = Some r /\
                        r_code r = code v /\ r_status r = st v /\ r_restarts r = restarts v
}.

Lemma get_map_fst {A B} (f : A -> B) (l : amap A) k :
  get k (map (fun p => (fst p, f (snd p))) l) = option_map f (get k l).
Proof.
  induction l as [|[k' v] r IH]; cbn; [reflexivity|]. destruct (N.eqb k' k); [reflexivity|exact IH].
Qed.

Lemma Rc_init ord : Rc (init cs ord) (obs0 cs).
Proof.
  constructor; cbn; try reflexivity; try discriminate.
  - intros n c H. unfold obs0. cbn.
    exists (init_vis c), (mkON (if deferred c then SDisabled else SPending) 0 false 0).
    rewrite (get_map_fst init_vis cs n), H. cbn.
    rewrite (get_map_fst (fun c => mkON (if deferred c then SDisabled else SPending) 0 false 0) cs n), H. cbn.
    repeat split; reflexivity.
Qed.

End RelCore.

Section RelCoreStep.
Context (cs : amap pconf).

(* ---- observer-side frame facts --------------------------------------------------------------------- *)
Lemma oi_upd_get i f o j :
  get j (oi (oi_upd i f o)) = if N.eqb i j then option_map f (get j (oi o)) else get j (oi o).
Proof.
  unfold oi_upd. destruct (get i (oi o)) as [x|] eqn:E; cbn.
  - rewrite get_set. destruct (N.eqb_spec i j); [subst; now rewrite E|reflexivity].
  - destruct (N.eqb_spec i j); [subst; now rewrite E|reflexivity].
Qed.
Lemma on_upd_get n f o m :
  get m (onm (on_upd n f o)) = if N.eqb n m then option_map f (get m (onm o)) else get m (onm o).
Proof.
  unfold on_upd. destruct (get n (onm o)) as [x|] eqn:E; cbn.
  - rewrite get_set. destruct (N.eqb_spec n m); [subst; now rewrite E|reflexivity].
  - destruct (N.eqb_spec n m); [subst; now rewrite E|reflexivity].
Qed.
Lemma oi_upd_onm i f o : onm (oi_upd i f o) = onm o.
Proof. unfold oi_upd. destruct (get i (oi o)); reflexivity. Qed.
Lemma oi_upd_o_th i f o : o_th (oi_upd i f o) = o_th o.
Proof. unfold oi_upd. destruct (get i (oi o)); reflexivity. Qed.
Lemma on_upd_oi n f o : oi (on_upd n f o) = oi o.
Proof. unfold on_upd. destruct (get n (onm o)); reflexivity. Qed.
Lemma on_upd_o_th n f o : o_th (on_upd n f o) = o_th o.
Proof. unfold on_upd. destruct (get n (onm o)); reflexivity. Qed.

Lemma get_map_snd {A} (f : N -> A -> A) (l : amap A) k :
  get k (map (fun p => (fst p, f (fst p) (snd p))) l) = option_map (f k) (get k l).
Proof.
  induction l as [|[k' v] r IH]; cbn; [reflexivity|].
  destruct (N.eqb_spec k' k); [subst; reflexivity|exact IH].
Qed.

(* refresh_succ only touches o_succ *)
Lemma refresh_get o j :
  get j (oi (refresh_succ o)) =
  option_map (fun x => if o_ended x && (r_code (on_get o (o_nm x)) =? 0)%Z then x <| o_succ := true |> else x) (get j (oi o)).
Proof.
  unfold refresh_succ. cbn.
  exact (get_map_snd (fun _ x => if o_ended x && (r_code (on_get o (o_nm x)) =? 0)%Z then x <| o_succ := true |> else x) (oi o) j).
Qed.

(* Rc only looks at: o_th; o_nm and o_launches of instances; r_code, r_status, r_restarts of names *)
Definition obs_same (o o' : obs) : Prop :=
  o_th o' = o_th o /\
  (forall j, match get j (oi o) with
             | Some x => exists x', get j (oi o') = Some x' /\ o_nm x' = o_nm x /\ o_launches x' = o_launches x
             | None => get j (oi o') = None end) /\
  (forall n, match get n (onm o) with
             | Some r => exists r', get n (onm o') = Some r' /\ r_code r' = r_code r /\ r_status r' = r_status r /\ r_restarts r' = r_restarts r
             | None => get n (onm o') = None end).

Lemma obs_same_refl o : obs_same o o.
Proof.
  repeat split; intros k; [destruct (get k (oi o)) as [x|]|destruct (get k (onm o)) as [r|]]; eauto 6.
Qed.

Lemma obs_same_trans o1 o2 o3 : obs_same o1 o2 -> obs_same o2 o3 -> obs_same o1 o3.
Proof.
  intros (A1 & B1 & C1) (A2 & B2 & C2). repeat split; [congruence| |].
  - intros j. specialize (B1 j). specialize (B2 j). destruct (get j (oi o1)) as [x|].
    + destruct B1 as (x2 & E2 & ? & ?). rewrite E2 in B2. destruct B2 as (x3 & E3 & ? & ?). exists x3. repeat split; congruence.
    + now rewrite B1 in B2.
  - intros n. specialize (C1 n). specialize (C2 n). destruct (get n (onm o1)) as [r|].
    + destruct C1 as (r2 & E2 & ? & ? & ?). rewrite E2 in C2. destruct C2 as (r3 & E3 & ? & ? & ?). exists r3. repeat split; congruence.
    + now rewrite C1 in C2.
Qed.

Lemma obs_same_refresh o : obs_same o (refresh_succ o).
Proof.
  repeat split.
  - intros j. rewrite refresh_get. destruct (get j (oi o)) as [x|]; cbn; [|reflexivity].
    eexists; split; [reflexivity|]. destruct (_ && _); cbn; auto.
  - intros n. cbn. destruct (get n (onm o)) as [r|]; eauto 6.
Qed.

Lemma obs_same_oi_upd i f o :
  (forall x, o_nm (f x) = o_nm x /\ o_launches (f x) = o_launches x) -> obs_same o (oi_upd i f o).
Proof.
  intros Hf. repeat split.
  - apply oi_upd_o_th.
  - intros j. rewrite oi_upd_get. destruct (N.eqb i j); destruct (get j (oi o)) as [x|]; cbn; eauto;
      exists (f x); destruct (Hf x); auto.
  - intros n. rewrite oi_upd_onm. destruct (get n (onm o)) as [r|]; eauto 6.
Qed.

Lemma Rc_obs_same s o o' : Rc cs s o -> obs_same o o' -> Rc cs s o'.
Proof.
  intros [H1 H2 H3 H4 H5] (A & B & C). constructor; auto.
  - intros th. rewrite A. apply H2.
  - intros i x Hx. destruct (H3 i x Hx) as (xo & E & ? & ? & ?). specialize (B i). rewrite E in B.
    destruct B as (x' & E' & ? & ?). exists x'. repeat split; congruence.
  - intros i Hi. specialize (H4 i Hi). specialize (B i). now rewrite H4 in B.
  - intros n c Hn. destruct (H5 n c Hn) as (v & r & Ev & Er & ? & ? & ?). specialize (C n). rewrite Er in C.
    destruct C as (r' & Er' & ? & ? & ?). exists v, r'. repeat split; congruence.
Qed.

(* ---- model-side frame: Rc only looks at confs, thinst, (nm, cf, launches) of instances, (code, st, restarts) *)
Definition sys_same (s s' : sys) : Prop :=
  confs s' = confs s /\ thinst s' = thinst s /\
  (forall j, match get j (insts s) with
             | Some x => exists x', get j (insts s') = Some x' /\ nm x' = nm x /\ cf x' = cf x /\ launches x' = launches x
             | None => get j (insts s') = None end) /\
  (forall n, match get n (viss s) with
             | Some v => exists v', get n (viss s') = Some v' /\ code v' = code v /\ st v' = st v /\ restarts v' = restarts v
             | None => get n (viss s') = None end).

Lemma Rc_sys_same s s' o : Rc cs s o -> sys_same s s' -> Rc cs s' o.
Proof.
  intros [H1 H2 H3 H4 H5] (A & B & C & D). constructor.
  - congruence.
  - intros th. rewrite B. apply H2.
  - intros i x' Hx'. specialize (C i). destruct (get i (insts s)) as [x|] eqn:E; [|congruence].
    destruct C as (x2 & E2 & ? & ? & ?). assert (x2 = x') by congruence. subst x2.
    destruct (H3 i x E) as (xo & ? & ? & ? & ?). exists xo. repeat split; congruence.
  - intros i Hi. specialize (C i). destruct (get i (insts s)) as [x|] eqn:E; [destruct C as (x2 & E2 & _); congruence|].
    now apply H4.
  - intros n c Hn. destruct (H5 n c Hn) as (v & r & Ev & Er & ? & ? & ?). specialize (D n). rewrite Ev in D.
    destruct D as (v' & Ev' & ? & ? & ?). exists v', r. repeat split; congruence.
Qed.

Lemma sys_same_flush th s : sys_same s (flush th s).
Proof.
  repeat split; [apply flush_confs|apply flush_thinst| |].
  - intros j. pose proof (flush_insts th s j) as H. destruct (get j (insts s)) as [x|]; [|exact H].
    destruct H as (x' & E & L). exists x'. unfold inst_latch_le in L. intuition congruence.
  - intros n. rewrite flush_viss. destruct (get n (viss s)) as [v|]; eauto 6.
Qed.

End RelCoreStep.

(* events that change something Rc looks at *)
Definition exceptional (e : event) : bool :=
  match e with
  | ENewInst _ _ | EBegin _ | ELaunch true | EState _ _ | EExitCode _ | EBackoffWait _ => true
  | _ => false
  end.

Section RelCoreStep2.
Context (cs : amap pconf).

Lemma obs_same_on_upd n f o :
  (forall r, r_code (f r) = r_code r /\ r_status (f r) = r_status r /\ r_restarts (f r) = r_restarts r) ->
  obs_same o (on_upd n f o).
Proof.
  intros Hf. repeat split.
  - apply on_upd_o_th.
  - intros j. rewrite on_upd_oi. destruct (get j (oi o)) as [x|]; eauto 6.
  - intros m. rewrite on_upd_get. destruct (N.eqb n m); destruct (get m (onm o)) as [r|]; cbn; eauto 6;
      exists (f r); destruct (Hf r) as (? & ? & ?); auto.
Qed.

Lemma obs_same_fold_oi_upd (f : oinst -> oinst) l :
  (forall x, o_nm (f x) = o_nm x /\ o_launches (f x) = o_launches x) ->
  forall o, obs_same o (fold_left (fun o i => oi_upd i f o) l o).
Proof.
  intros Hf. induction l as [|a l IH]; intros o; cbn; [apply obs_same_refl|].
  eapply obs_same_trans; [apply (obs_same_oi_upd a f o Hf)|apply IH].
Qed.

(* record updates of observer fields that Rc does not look at *)
Ltac obs_same_fields :=
  repeat split; cbn;
  [ try reflexivity
  | intros j; cbn; destruct (get j (oi _)) as [x|]; eauto 6
  | intros n; cbn; destruct (get n (onm _)) as [r|]; eauto 6 ].

Ltac obs_same_tac :=
  repeat first
  [ apply obs_same_refl
  | eapply obs_same_trans; [|apply obs_same_oi_upd; intros; cbn; auto]
  | eapply obs_same_trans; [|apply obs_same_on_upd; intros; cbn; auto]
  | eapply obs_same_trans; [|apply obs_same_fold_oi_upd; intros; cbn; auto] ].

Lemma obs_same_eq o o' : o_th o' = o_th o -> oi o' = oi o -> onm o' = onm o -> obs_same o o'.
Proof.
  intros A B C. repeat split; [exact A| |].
  - intros k. rewrite B. destruct (get k (oi o)) as [x|]; eauto 6.
  - intros k. rewrite C. destruct (get k (onm o)) as [r|]; eauto 6.
Qed.

Ltac obs_same_close :=
  repeat first
  [ apply obs_same_refl
  | match goal with
    | |- obs_same ?o (oi_upd ?i ?f ?X) =>
        apply (obs_same_trans o X); [|apply obs_same_oi_upd; intros; cbn; split; reflexivity]
    | |- obs_same ?o (on_upd ?n ?f ?X) =>
        apply (obs_same_trans o X); [|apply obs_same_on_upd; intros; cbn; repeat split; reflexivity]
    | |- obs_same ?o (fold_left (fun o i => oi_upd i ?f o) ?l ?X) =>
        apply (obs_same_trans o X); [|apply obs_same_fold_oi_upd; intros; cbn; split; reflexivity]
    | |- obs_same ?o (set _ _ ?X) =>
        apply (obs_same_trans o X); [|apply obs_same_eq; reflexivity]
    end ].

Lemma obs_step_same o th e : exceptional e = false -> obs_same o (obs_step cs o (th, e)).
Proof.
  intros Hex. unfold obs_step. eapply obs_same_trans; [|apply obs_same_refresh].
  destruct e; try discriminate Hex; cbn [fst snd];
  try (destruct (ev_inst o th _) eqn:Ev);
  try match goal with |- context[match ?b with true => _ | false => _ end] => destruct b end;
  try discriminate Hex; unfold note_late_commit;
  repeat match goal with |- context[if ?b then _ else _] => destruct b end;
  try apply obs_same_refl; obs_same_close.
(*STOP*)
Qed.
End RelCoreStep2.
