(* The basic agreement between the model state and the observer state, shared by all simulation proofs. *)
From Coq Require Import List ZArith NArith Bool Lia.
From RecordUpdate Require Import RecordSet.
From PC.Base Require Import Assoc.
From PC.Sup Require Import Model Monitors Tactics Sim ObsFacts.
Import ListNotations RecordSetNotations.

Section RelCore.
Context (cs : amap pconf).

Record Rc (s : sys) (o : obs) : Prop := mkRc {
  rc_confs : confs s = cs;
  rc_th : forall th, get th (thinst s) = get th (o_th o);
  rc_inst : forall i x, get i (insts s) = Some x ->
            exists xo, get i (oi o) = Some xo /\ o_nm xo = nm x /\ get (nm x) cs = Some (cf x) /\
                       o_launches xo = launches x;
  rc_noinst : forall i, get i (insts s) = None -> get i (oi o) = None;
  rc_name : forall n c, get n cs = Some c ->
            exists v r, get n (viss s) = Some v /\ get n (onm o) = Some r /\
                        r_code r = code v /\ r_status r = st v /\ r_restarts r = restarts v
}.

Lemma get_map_fst {A B} (f : A -> B) (l : amap A) k :
  get k (map (fun p => (fst p, f (snd p))) l) = option_map f (get k l).
Proof.
  induction l as [|[k' v] r IH]; cbn; [reflexivity|]. destruct (N.eqb k' k); [reflexivity|exact IH].
Qed.

Lemma Rc_init ord : Rc (init cs ord) (obs0 cs).
Proof.
  constructor; cbn; try reflexivity; try discriminate.
  - intros n c H. unfold obs0. cbn.
    exists (init_vis c), (mkON (if deferred c then SDisabled else SPending) 0 false 0).
    rewrite (get_map_fst init_vis cs n), H. cbn.
    rewrite (get_map_fst (fun c => mkON (if deferred c then SDisabled else SPending) 0 false 0) cs n), H. cbn.
    repeat split; reflexivity.
Qed.

End RelCore.
