(* The basic agreement between the model state and the observer state, shared by all simulation proofs. *)
From Coq Require Import List ZArith NArith Bool Lia.
From RecordUpdate Require Import RecordSet.
From PC.Base Require Import Assoc.
From PC.Sup Require Import Model Monitors Tactics Sim ObsFacts Effects.
Import ListNotations RecordSetNotations.

Section RelCore.
Context (cs : amap pconf).

Record Rc (s : sys) (o : obs) : Prop := mkRc {
  rc_confs : confs s = cs;
  rc_th : forall th, get th (thinst s) = get th (o_th o);
  rc_inst : forall i x, get i (insts s) = Some x ->
            exists xo, get i (oi o) = Some xo /\ o_nm xo = nm x /\ get (nm x) cs = Some (cf x) /\
                       o_launches xo = launches x;
  rc_noinst : forall i, get i (insts s) = None -> get i (oi o) = None;
  rc_name : forall n c, get n cs = Some c ->
            exists v r, get n (viss s) = Some v /\ get n (onm o) = Some r /\
                        r_code r = code v /\ r_status r = st v /\ r_restarts r = restarts v
}.

Lemma get_map_fst {A B} (f : A -> B) (l : amap A) k :
  get k (map (fun p => (fst p, f (snd p))) l) = option_map f (get k l).
Proof.
  induction l as [|[k' v] r IH]; cbn; [reflexivity|]. destruct (N.eqb k' k); [reflexivity|exact IH].
Qed.

Lemma Rc_init ord : Rc (init cs ord) (obs0 cs).
Proof.
  constructor; cbn; try reflexivity; try discriminate.
  - intros n c H. unfold obs0. cbn.
    exists (init_vis c), (mkON (if deferred c then SDisabled else SPending) 0 false 0).
    rewrite (get_map_fst init_vis cs n), H. cbn.
    rewrite (get_map_fst (fun c => mkON (if deferred c then SDisabled else SPending) 0 false 0) cs n), H. cbn.
    repeat split; reflexivity.
Qed.

End RelCore.

Section RelCoreStep.
Context (cs : amap pconf).

(* ---- observer-side frame facts --------------------------------------------------------------------- *)
Lemma oi_upd_get i f o j :
  get j (oi (oi_upd i f o)) = if N.eqb i j then option_map f (get j (oi o)) else get j (oi o).
Proof.
  unfold oi_upd. destruct (get i (oi o)) as [x|] eqn:E; cbn.
  - rewrite get_set. destruct (N.eqb_spec i j); [subst; now rewrite E|reflexivity].
  - destruct (N.eqb_spec i j); [subst; now rewrite E|reflexivity].
Qed.
Lemma on_upd_get n f o m :
  get m (onm (on_upd n f o)) = if N.eqb n m then option_map f (get m (onm o)) else get m (onm o).
Proof.
  unfold on_upd. destruct (get n (onm o)) as [x|] eqn:E; cbn.
  - rewrite get_set. destruct (N.eqb_spec n m); [subst; now rewrite E|reflexivity].
  - destruct (N.eqb_spec n m); [subst; now rewrite E|reflexivity].
Qed.
Lemma oi_upd_onm i f o : onm (oi_upd i f o) = onm o.
Proof. unfold oi_upd. destruct (get i (oi o)); reflexivity. Qed.
Lemma oi_upd_o_th i f o : o_th (oi_upd i f o) = o_th o.
Proof. unfold oi_upd. destruct (get i (oi o)); reflexivity. Qed.
Lemma on_upd_oi n f o : oi (on_upd n f o) = oi o.
Proof. unfold on_upd. destruct (get n (onm o)); reflexivity. Qed.
Lemma on_upd_o_th n f o : o_th (on_upd n f o) = o_th o.
Proof. unfold on_upd. destruct (get n (onm o)); reflexivity. Qed.

Lemma get_map_snd {A} (f : N -> A -> A) (l : amap A) k :
  get k (map (fun p => (fst p, f (fst p) (snd p))) l) = option_map (f k) (get k l).
Proof.
  induction l as [|[k' v] r IH]; cbn; [reflexivity|].
  destruct (N.eqb_spec k' k); [subst; reflexivity|exact IH].
Qed.

(* refresh_succ only touches o_succ *)
Lemma refresh_get o j :
  get j (oi (refresh_succ o)) =
  option_map (fun x => if o_ended x && (r_code (on_get o (o_nm x)) =? 0)%Z then x <| o_succ := true |> else x) (get j (oi o)).
Proof.
  unfold refresh_succ. cbn.
  exact (get_map_snd (fun _ x => if o_ended x && (r_code (on_get o (o_nm x)) =? 0)%Z then x <| o_succ := true |> else x) (oi o) j).
Qed.

(* Rc only looks at: o_th; o_nm and o_launches of instances; r_code, r_status, r_restarts of names *)
Definition obs_same (o o' : obs) : Prop :=
  o_th o' = o_th o /\
  (forall j, match get j (oi o) with
             | Some x => exists x', get j (oi o') = Some x' /\ o_nm x' = o_nm x /\ o_launches x' = o_launches x
             | None => get j (oi o') = None end) /\
  (forall n, match get n (onm o) with
             | Some r => exists r', get n (onm o') = Some r' /\ r_code r' = r_code r /\ r_status r' = r_status r /\ r_restarts r' = r_restarts r
             | None => get n (onm o') = None end).

Lemma obs_same_refl o : obs_same o o.
Proof.
  repeat split; intros k; [destruct (get k (oi o)) as [x|]|destruct (get k (onm o)) as [r|]]; eauto 6.
Qed.

Lemma obs_same_trans o1 o2 o3 : obs_same o1 o2 -> obs_same o2 o3 -> obs_same o1 o3.
Proof.
  intros (A1 & B1 & C1) (A2 & B2 & C2). repeat split; [congruence| |].
  - intros j. specialize (B1 j). specialize (B2 j). destruct (get j (oi o1)) as [x|].
    + destruct B1 as (x2 & E2 & ? & ?). rewrite E2 in B2. destruct B2 as (x3 & E3 & ? & ?). exists x3. repeat split; congruence.
    + now rewrite B1 in B2.
  - intros n. specialize (C1 n). specialize (C2 n). destruct (get n (onm o1)) as [r|].
    + destruct C1 as (r2 & E2 & ? & ? & ?). rewrite E2 in C2. destruct C2 as (r3 & E3 & ? & ? & ?). exists r3. repeat split; congruence.
    + now rewrite C1 in C2.
Qed.

Lemma obs_same_refresh o : obs_same o (refresh_succ o).
Proof.
  repeat split.
  - intros j. rewrite refresh_get. destruct (get j (oi o)) as [x|]; cbn; [|reflexivity].
    eexists; split; [reflexivity|]. destruct (_ && _); cbn; auto.
  - intros n. cbn. destruct (get n (onm o)) as [r|]; eauto 6.
Qed.

Lemma obs_same_oi_upd i f o :
  (forall x, o_nm (f x) = o_nm x /\ o_launches (f x) = o_launches x) -> obs_same o (oi_upd i f o).
Proof.
  intros Hf. repeat split.
  - apply oi_upd_o_th.
  - intros j. rewrite oi_upd_get. destruct (N.eqb i j); destruct (get j (oi o)) as [x|]; cbn; eauto;
      exists (f x); destruct (Hf x); auto.
  - intros n. rewrite oi_upd_onm. destruct (get n (onm o)) as [r|]; eauto 6.
Qed.

Lemma Rc_obs_same s o o' : Rc cs s o -> obs_same o o' -> Rc cs s o'.
Proof.
  intros [H1 H2 H3 H4 H5] (A & B & C). constructor; auto.
  - intros th. rewrite A. apply H2.
  - intros i x Hx. destruct (H3 i x Hx) as (xo & E & ? & ? & ?). specialize (B i). rewrite E in B.
    destruct B as (x' & E' & ? & ?). exists x'. repeat split; congruence.
  - intros i Hi. specialize (H4 i Hi). specialize (B i). now rewrite H4 in B.
  - intros n c Hn. destruct (H5 n c Hn) as (v & r & Ev & Er & ? & ? & ?). specialize (C n). rewrite Er in C.
    destruct C as (r' & Er' & ? & ? & ?). exists v, r'. repeat split; congruence.
Qed.

(* ---- model-side frame: Rc only looks at confs, thinst, (nm, cf, launches) of instances, (code, st, restarts) *)
Definition sys_same (s s' : sys) : Prop :=
  confs s' = confs s /\ thinst s' = thinst s /\
  (forall j, match get j (insts s) with
             | Some x => exists x', get j (insts s') = Some x' /\ nm x' = nm x /\ cf x' = cf x /\ launches x' = launches x
             | None => get j (insts s') = None end) /\
  (forall n, match get n (viss s) with
             | Some v => exists v', get n (viss s') = Some v' /\ code v' = code v /\ st v' = st v /\ restarts v' = restarts v
             | None => get n (viss s') = None end).

Lemma Rc_sys_same s s' o : Rc cs s o -> sys_same s s' -> Rc cs s' o.
Proof.
  intros [H1 H2 H3 H4 H5] (A & B & C & D). constructor.
  - congruence.
  - intros th. rewrite B. apply H2.
  - intros i x' Hx'. specialize (C i). destruct (get i (insts s)) as [x|] eqn:E; [|congruence].
    destruct C as (x2 & E2 & ? & ? & ?). assert (x2 = x') by congruence. subst x2.
    destruct (H3 i x E) as (xo & ? & ? & ? & ?). exists xo. repeat split; congruence.
  - intros i Hi. specialize (C i). destruct (get i (insts s)) as [x|] eqn:E; [destruct C as (x2 & E2 & _); congruence|].
    now apply H4.
  - intros n c Hn. destruct (H5 n c Hn) as (v & r & Ev & Er & ? & ? & ?). specialize (D n). rewrite Ev in D.
    destruct D as (v' & Ev' & ? & ? & ?). exists v', r. repeat split; congruence.
Qed.

Lemma sys_same_flush th s : sys_same s (flush th s).
Proof.
  repeat split; [apply flush_confs|apply flush_thinst| |].
  - intros j. pose proof (flush_insts th s j) as H. destruct (get j (insts s)) as [x|]; [|exact H].
    destruct H as (x' & E & L). exists x'. unfold inst_latch_le in L. intuition congruence.
  - intros n. rewrite flush_viss. destruct (get n (viss s)) as [v|]; eauto 6.
Qed.

End RelCoreStep.

(* events that change something Rc looks at *)
Definition exceptional (e : event) : bool :=
  match e with
  | ENewInst _ _ | EBegin _ | ELaunch true | EState _ _ | EExitCode _ | EBackoffWait _ => true
  | _ => false
  end.

Section RelCoreStep2.
Context (cs : amap pconf).

Lemma obs_same_on_upd n f o :
  (forall r, r_code (f r) = r_code r /\ r_status (f r) = r_status r /\ r_restarts (f r) = r_restarts r) ->
  obs_same o (on_upd n f o).
Proof.
  intros Hf. repeat split.
  - apply on_upd_o_th.
  - intros j. rewrite on_upd_oi. destruct (get j (oi o)) as [x|]; eauto 6.
  - intros m. rewrite on_upd_get. destruct (N.eqb n m); destruct (get m (onm o)) as [r|]; cbn; eauto 6;
      exists (f r); destruct (Hf r) as (? & ? & ?); auto.
Qed.

Lemma obs_same_fold_oi_upd (f : oinst -> oinst) l :
  (forall x, o_nm (f x) = o_nm x /\ o_launches (f x) = o_launches x) ->
  forall o, obs_same o (fold_left (fun o i => oi_upd i f o) l o).
Proof.
  intros Hf. induction l as [|a l IH]; intros o; cbn; [apply obs_same_refl|].
  eapply obs_same_trans; [apply (obs_same_oi_upd a f o Hf)|apply IH].
Qed.

(* record updates of observer fields that Rc does not look at *)
Ltac obs_same_fields :=
  repeat split; cbn;
  [ try reflexivity
  | intros j; cbn; destruct (get j (oi _)) as [x|]; eauto 6
  | intros n; cbn; destruct (get n (onm _)) as [r|]; eauto 6 ].

Ltac obs_same_tac :=
  repeat first
  [ apply obs_same_refl
  | eapply obs_same_trans; [|apply obs_same_oi_upd; intros; cbn; auto]
  | eapply obs_same_trans; [|apply obs_same_on_upd; intros; cbn; auto]
  | eapply obs_same_trans; [|apply obs_same_fold_oi_upd; intros; cbn; auto] ].

Lemma obs_same_eq o o' : o_th o' = o_th o -> oi o' = oi o -> onm o' = onm o -> obs_same o o'.
Proof.
  intros A B C. repeat split; [exact A| |].
  - intros k. rewrite B. destruct (get k (oi o)) as [x|]; eauto 6.
  - intros k. rewrite C. destruct (get k (onm o)) as [r|]; eauto 6.
Qed.

Ltac obs_same_close :=
  repeat first
  [ apply obs_same_refl
  | match goal with
    | |- obs_same ?o (oi_upd ?i ?f ?X) =>
        apply (obs_same_trans o X); [|apply obs_same_oi_upd; intros; cbn; split; reflexivity]
    | |- obs_same ?o (on_upd ?n ?f ?X) =>
        apply (obs_same_trans o X); [|apply obs_same_on_upd; intros; cbn; repeat split; reflexivity]
    | |- obs_same ?o (fold_left (fun o i => oi_upd i ?f o) ?l ?X) =>
        apply (obs_same_trans o X); [|apply obs_same_fold_oi_upd; intros; cbn; split; reflexivity]
    | |- obs_same ?o (RecordSet.set _ _ ?X) =>
        apply (obs_same_trans o X); [|apply obs_same_eq; reflexivity]
    end ].

Lemma obs_step_same o th e : exceptional e = false -> obs_same o (obs_step cs o (th, e)).
Proof.
  intros Hex. unfold obs_step. eapply obs_same_trans; [|apply obs_same_refresh].
  destruct e; try discriminate Hex; cbn [fst snd];
  try (destruct (ev_inst o th _) eqn:Ev);
  try match goal with |- context[match ?b with true => _ | false => _ end] => destruct b end;
  try discriminate Hex; unfold note_late_commit;
  repeat match goal with |- context[if ?b then _ else _] => destruct b end;
  try apply obs_same_refl; obs_same_close.
Qed.
(* ---- model side ------------------------------------------------------------------------------------- *)
Lemma sys_same_refl s : sys_same s s.
Proof.
  repeat split; intros k; [destruct (get k (insts s)) as [x|]|destruct (get k (viss s)) as [v|]]; eauto 8.
Qed.

Lemma sys_same_trans s1 s2 s3 : sys_same s1 s2 -> sys_same s2 s3 -> sys_same s1 s3.
Proof.
  intros (A1 & B1 & C1 & D1) (A2 & B2 & C2 & D2). repeat split; try congruence.
  - intros j. specialize (C1 j). specialize (C2 j). destruct (get j (insts s1)) as [x|].
    + destruct C1 as (x2 & E2 & ? & ? & ?). rewrite E2 in C2. destruct C2 as (x3 & E3 & ? & ? & ?).
      exists x3. repeat split; congruence.
    + now rewrite C1 in C2.
  - intros n. specialize (D1 n). specialize (D2 n). destruct (get n (viss s1)) as [v|].
    + destruct D1 as (v2 & E2 & ? & ? & ?). rewrite E2 in D2. destruct D2 as (v3 & E3 & ? & ? & ?).
      exists v3. repeat split; congruence.
    + now rewrite D1 in D2.
Qed.

Lemma sys_same_eq s s' : confs s' = confs s -> thinst s' = thinst s -> insts s' = insts s -> viss s' = viss s ->
  sys_same s s'.
Proof.
  intros A B C D. repeat split; auto.
  - intros k. rewrite C. destruct (get k (insts s)) as [x|]; eauto 8.
  - intros k. rewrite D. destruct (get k (viss s)) as [v|]; eauto 8.
Qed.

Lemma sys_same_upd_inst i f s :
  (forall x, nm (f x) = nm x /\ cf (f x) = cf x /\ launches (f x) = launches x) -> sys_same s (upd_inst i f s).
Proof.
  intros Hf. repeat split; [apply upd_inst_confs|apply upd_inst_thinst| |].
  - intros j. rewrite insts_upd_inst. destruct (N.eqb i j); destruct (get j (insts s)) as [x|]; cbn; eauto 8;
      exists (f x); destruct (Hf x) as (? & ? & ?); auto.
  - intros n. rewrite upd_inst_viss. destruct (get n (viss s)) as [v|]; eauto 8.
Qed.

Lemma sys_same_upd_vis n f s :
  (forall v, code (f v) = code v /\ st (f v) = st v /\ restarts (f v) = restarts v) -> sys_same s (upd_vis n f s).
Proof.
  intros Hf. repeat split; [apply upd_vis_confs|apply upd_vis_thinst| |].
  - intros j. rewrite upd_vis_insts. destruct (get j (insts s)) as [x|]; eauto 8.
  - intros m. rewrite viss_upd_vis. destruct (N.eqb n m); destruct (get m (viss s)) as [v|]; cbn; eauto 8;
      exists (f v); destruct (Hf v) as (? & ? & ?); auto.
Qed.

Lemma sys_same_fold_upd_inst (f : inst -> inst) l :
  (forall x, nm (f x) = nm x /\ cf (f x) = cf x /\ launches (f x) = launches x) ->
  forall s, sys_same s (fold_left (fun s i => upd_inst i f s) l s).
Proof.
  intros Hf. induction l as [|a l IH]; intros s; cbn; [apply sys_same_refl|].
  eapply sys_same_trans; [apply (sys_same_upd_inst a f s Hf)|apply IH].
Qed.

Ltac sys_same_close :=
  unfold set_pc, end_release_early, end_finish, set_stage;
  repeat first
  [ apply sys_same_refl
  | match goal with
    | |- sys_same ?s (upd_inst ?i ?f ?X) =>
        apply (sys_same_trans s X); [|apply sys_same_upd_inst; intros; cbn; repeat split; try reflexivity; destruct_matches; reflexivity]
    | |- sys_same ?s (upd_vis ?n ?f ?X) =>
        apply (sys_same_trans s X); [|apply sys_same_upd_vis; intros; cbn; repeat split; try reflexivity; destruct_matches; reflexivity]
    | |- sys_same ?s (fold_left (fun s i => upd_inst i ?f s) ?l ?X) =>
        apply (sys_same_trans s X); [|apply sys_same_fold_upd_inst; intros; cbn; repeat split; reflexivity]
    | |- sys_same ?s (set_thread ?th ?t ?X) =>
        apply (sys_same_trans s X); [|apply sys_same_eq; reflexivity]
    | |- sys_same ?s (RecordSet.set _ _ ?X) =>
        apply (sys_same_trans s X); [|apply sys_same_eq; reflexivity]
    | |- sys_same ?s (if ?b then _ else _) => destruct b
    | |- sys_same ?s (match ?b with _ => _ end) => destruct b
    end ].

Ltac kind_cases H :=
  unfold_steps H; unfold own_inst in H; cbn [fst snd] in H; break_step H;
  repeat match goal with E : (match _ with _ => _ end) = Some _ |- _ => break_step E end;
  repeat match goal with E : _ = ?s' |- _ => is_var s'; subst s' end.

Lemma step_reg_same s th e s' : exceptional e = false -> step_reg s th e = Some s' -> sys_same s s'.
Proof. intros Hex H. destruct e; try discriminate Hex; kind_cases H; sys_same_close. Qed.
Lemma step_stop_same s th e s' : step_stop s th e = Some s' -> sys_same s s'.
Proof. intros H. destruct e; kind_cases H; sys_same_close. Qed.
Lemma step_shutdown_same s th e s' : step_shutdown s th e = Some s' -> sys_same s s'.
Proof. intros H. destruct e; kind_cases H; sys_same_close. Qed.
Lemma step_env_same s th e s' : step_env s th e = Some s' -> sys_same s s'.
Proof. intros H. destruct e; kind_cases H; sys_same_close. Qed.
Lemma step_api_same s th e s' : step_api s th e = Some s' -> sys_same s s'.
Proof. intros H. destruct e; kind_cases H; sys_same_close.
Qed.
Lemma step_procend_same s th i s0 b s' : step_procend s th i s0 b = Some s' -> sys_same s s'.
Proof. intros H. kind_cases H; sys_same_close. Qed.
Lemma step_ordered_same s th i s' : step_ordered_go s th i = Some s' -> sys_same s s'.
Proof. intros H. kind_cases H; sys_same_close. Qed.
Lemma step_own_same s th e s' : exceptional e = false -> step_own s th e = Some s' -> sys_same s s'.
Proof.
  intros Hex H. destruct e; try discriminate Hex; kind_cases H; try discriminate Hex;
  try (match goal with ok : bool |- _ => destruct ok; try discriminate Hex end); sys_same_close.
Qed.

Lemma step_core_same s th e s' : exceptional e = false -> step_core s th e = Some s' -> sys_same s s'.
Proof.
  intros Hex H. destruct (step_core_kind _ _ _ _ H) as [? ?|i x ? ? ? ? ? ?| | | |i s0 ? ?|i s0 b ? ?| |i ? ?| | ]; subst;
    try discriminate Hex;
    eauto using sys_same_refl, step_reg_same, step_stop_same, step_shutdown_same, step_env_same, step_api_same,
                step_procend_same, step_ordered_same, step_own_same.
Qed.
Definition obs_status_upd (s0 : status) (r : oname) : oname :=
  let r := r <| r_status := s0 |> in
  match s0 with SSkipped | SError => r <| r_code := 1%Z |> | _ => r end.

Lemma Rc_status s o n s0 : Rc cs s o -> Rc cs (write_status n s0 s) (on_upd n (obs_status_upd s0) o).
Proof.
  intros [H1 H2 H3 H4 H5]. constructor.
  - now rewrite write_status_confs.
  - intros th. rewrite write_status_thinst, on_upd_o_th. apply H2.
  - intros i x. rewrite write_status_insts, on_upd_oi. apply H3.
  - intros i. rewrite write_status_insts, on_upd_oi. apply H4.
  - intros m c Hm. destruct (H5 m c Hm) as (v & r & Ev & Er & Hc & Hs & Hr).
    unfold write_status. rewrite viss_upd_vis, on_upd_get, Ev, Er. destruct (N.eqb n m); cbn; [|eauto 8].
    eexists; eexists; split; [reflexivity|split; [reflexivity|]].
    unfold obs_status_upd. destruct s0; cbn; auto.
Qed.

Lemma Rc_code s o n c : Rc cs s o ->
  Rc cs (upd_vis n (fun v => v <| code := c |>) s) (on_upd n (fun r => r <| r_code := c |>) o).
Proof.
  intros [H1 H2 H3 H4 H5]. constructor.
  - now rewrite upd_vis_confs.
  - intros th. rewrite upd_vis_thinst, on_upd_o_th. apply H2.
  - intros i x. rewrite upd_vis_insts, on_upd_oi. apply H3.
  - intros i. rewrite upd_vis_insts, on_upd_oi. apply H4.
  - intros m c0 Hm. destruct (H5 m c0 Hm) as (v & r & Ev & Er & Hc & Hs & Hr).
    rewrite viss_upd_vis, on_upd_get, Ev, Er. destruct (N.eqb n m); cbn; eauto 8.
Qed.

Lemma Rc_restarts s o n : Rc cs s o ->
  Rc cs (upd_vis n (fun v => v <| restarts := S (restarts v) |>) s) (on_upd n (fun r => r <| r_restarts := S (r_restarts r) |>) o).
Proof.
  intros [H1 H2 H3 H4 H5]. constructor.
  - now rewrite upd_vis_confs.
  - intros th. rewrite upd_vis_thinst, on_upd_o_th. apply H2.
  - intros i x. rewrite upd_vis_insts, on_upd_oi. apply H3.
  - intros i. rewrite upd_vis_insts, on_upd_oi. apply H4.
  - intros m c0 Hm. destruct (H5 m c0 Hm) as (v & r & Ev & Er & Hc & Hs & Hr).
    rewrite viss_upd_vis, on_upd_get, Ev, Er. destruct (N.eqb n m); cbn; eauto 8.
    eexists; eexists; split; [reflexivity|split; [reflexivity|]]. cbn. auto.
Qed.

Lemma Rc_launch s o i : Rc cs s o ->
  Rc cs (upd_inst i (fun x => x <| alive := true |> <| launches := S (launches x) |> <| pc := IAlive |>) s)
        (oi_upd i (fun x => x <| o_launches := S (o_launches x) |> <| o_alive := true |> <| o_elapsed := false |> <| o_commit := false |>) o).
Proof.
  intros [H1 H2 H3 H4 H5]. constructor.
  - now rewrite upd_inst_confs.
  - intros th. rewrite upd_inst_thinst, oi_upd_o_th. apply H2.
  - intros j x. rewrite insts_upd_inst, oi_upd_get. destruct (N.eqb i j).
    + destruct (get j (insts s)) as [y|] eqn:Ey; cbn; [|discriminate]. intros Hx. injection Hx as <-.
      destruct (H3 j y Ey) as (xo & Exo & ? & ? & ?). rewrite Exo. cbn. eexists; split; [reflexivity|]. cbn. auto.
    + apply H3.
  - intros j. rewrite insts_upd_inst, oi_upd_get. destruct (N.eqb i j); [|apply H4].
    destruct (get j (insts s)) eqn:Ey; cbn; [discriminate|]. intros _. now rewrite (H4 j Ey).
  - intros m c Hm. rewrite upd_inst_viss, oi_upd_onm. exact (H5 m c Hm).
Qed.

Lemma Rc_name_of s o i x : Rc cs s o -> get i (insts s) = Some x -> o_nm (oi_get o i) = nm x.
Proof.
  intros [H1 H2 H3 H4 H5] Hx. destruct (H3 i x Hx) as (xo & Exo & ? & _). unfold oi_get. now rewrite Exo.
Qed.

Lemma Rc_own s o th i x : Rc cs s o -> get th (thinst s) = Some i -> get i (insts s) = Some x ->
  get th (o_th o) = Some i /\ o_nm (oi_get o i) = nm x.
Proof. intros HR Ht Hx. split; [now rewrite <- (rc_th _ _ _ HR)|eapply Rc_name_of; eauto]. Qed.

Lemma Rc_state_obs s1 o i n st0 : Rc cs s1 o ->
  Rc cs (write_status n st0 s1)
     (oi_upd i (fun x => if opt_eqb status_eqb (o_endst x) (Some st0) then x <| o_ended := true |> else x)
        (on_upd n (obs_status_upd st0)
           (if status_eqb st0 STerminating && terminal (r_status (on_get o n)) then o <| w_late := true |> else o))).
Proof.
  intros HR1.
  eapply Rc_obs_same; [|apply obs_same_oi_upd; intros y; destruct (opt_eqb _ _ _); cbn; auto].
  apply Rc_status. eapply Rc_obs_same; [exact HR1|].
  destruct (_ && _); [apply obs_same_eq; reflexivity|apply obs_same_refl].
Qed.

Lemma Rc_step s o th e s' : Rc cs s o -> step s (th, e) = Some s' -> Rc cs s' (obs_step cs o (th, e)).
Proof.
  intros HR H. unfold step in H. cbn [fst snd] in H.
  assert (HR0 : Rc cs (flush th s) o) by (eapply Rc_sys_same; eauto using sys_same_flush).
  set (s0 := flush th s) in *. clearbody s0. clear HR s.
  destruct (exceptional e) eqn:Hex.
  2:{ eapply Rc_obs_same; [eapply Rc_sys_same; [exact HR0|eapply step_core_same; eauto]|now apply obs_step_same]. }
  destruct HR0 as [H1 H2 H3 H4 H5].
  destruct e; try discriminate Hex.
  - (* ENewInst *)
    cbn in H. unfold step_reg in H. break_step H. subst s'. rewrite H1 in E.
    apply negb_true_iff in E0. unfold has in E0. destruct (get i (insts s0)) eqn:Ei; [discriminate|].
    eapply Rc_obs_same; [|apply obs_same_refresh]. cbn [fst snd ev_inst].
    constructor; cbn.
    + exact H1.
    + exact H2.
    + intros j x. rewrite get_set. destruct (N.eqb_spec i j).
      * subst j. intros Hx. injection Hx as <-. eexists. rewrite get_set_same. split; [reflexivity|]. cbn. auto.
      * intros Hx. rewrite get_set_other by assumption. now apply H3.
    + intros j. rewrite !get_set. destruct (N.eqb_spec i j); [discriminate|]. apply H4.
    + exact H5.
  - (* EBegin *)
    cbn in H. break_step H. subst s'.
    eapply Rc_obs_same; [|apply obs_same_refresh]. cbn [fst snd ev_inst].
    constructor; cbn; auto.
    intros t. rewrite !get_set. destruct (N.eqb th t); [reflexivity|apply H2].
  - (* EState *)
    cbn in H. assert (HR0 : Rc cs s0 o) by (constructor; assumption).
    unfold step_state in H.
    destruct (get i (insts s0)) as [x|] eqn:Ex; [|discriminate].
    pose proof (Rc_name_of _ _ _ _ HR0 Ex) as Hn.
    eapply Rc_obs_same; [|apply obs_same_refresh]. cbn [fst snd ev_inst]. cbv zeta. rewrite !Hn.
    assert (HRo : forall s1, Rc cs s1 o -> Rc cs (write_status (nm x) s s1) _) by (intros s1; apply (Rc_state_obs s1 o i (nm x) s)).
    break_step H; subst s'; split_andb;
      repeat match goal with E : status_eqb _ _ = true |- _ => apply status_eqb_eq in E; subst end;
      unfold set_pc, end_finish;
      repeat match goal with
      | |- Rc _ (if ?b then _ else _) _ => destruct b
      | |- Rc _ (set_thread ?t ?v ?X) _ => eapply Rc_sys_same; [|apply (sys_same_eq X); reflexivity]
      | |- Rc _ (set_stage ?t ?v ?k ?X) _ => eapply Rc_sys_same; [|apply (sys_same_eq X); reflexivity]
      | |- Rc _ (upd_inst ?j ?f ?X) _ => eapply Rc_sys_same; [|apply (sys_same_upd_inst j f X); intros; cbn; repeat split; try reflexivity; destruct_matches; reflexivity]
      end;
      try (apply HRo; exact HR0).
  - (* ELaunch true *)
    destruct ok; [|discriminate Hex].
    cbn in H. assert (HR0 : Rc cs s0 o) by (constructor; assumption).
    unfold step_own, own_inst in H.
    destruct (get th (thinst s0)) as [j|] eqn:Et; [|discriminate].
    destruct (get j (insts s0)) as [x|] eqn:Ex; [|discriminate].
    destruct (Rc_own _ _ _ _ _ HR0 Et Ex) as [Hth Hn].
    eapply Rc_obs_same; [|apply obs_same_refresh]. cbn [fst snd ev_inst]. rewrite Hth.
    break_step H; subst s'. apply Rc_launch. exact HR0.
  - (* EExitCode *)
    cbn in H. assert (HR0 : Rc cs s0 o) by (constructor; assumption).
    unfold step_own, own_inst in H.
    destruct (get th (thinst s0)) as [j|] eqn:Et; [|discriminate].
    destruct (get j (insts s0)) as [x|] eqn:Ex; [|discriminate].
    destruct (Rc_own _ _ _ _ _ HR0 Et Ex) as [Hth Hn].
    eapply Rc_obs_same; [|apply obs_same_refresh]. cbn [fst snd ev_inst]. rewrite Hth, Hn.
    break_step H; subst s'. split_andb. repeat match goal with E : ?a = ?b :> Z |- _ => subst a || subst b end.
    unfold set_pc. eapply Rc_sys_same; [|apply sys_same_upd_inst; intros; cbn; auto].
    apply Rc_code. exact HR0.
  - (* EBackoffWait *)
    cbn in H. assert (HR0 : Rc cs s0 o) by (constructor; assumption).
    unfold step_own, own_inst in H.
    destruct (get th (thinst s0)) as [j|] eqn:Et; [|discriminate].
    destruct (get j (insts s0)) as [x|] eqn:Ex; [|discriminate].
    destruct (Rc_own _ _ _ _ _ HR0 Et Ex) as [Hth Hn].
    eapply Rc_obs_same; [|apply obs_same_refresh]. cbn [fst snd ev_inst]. rewrite Hth, Hn.
    break_step H; subst s'.
    unfold set_pc. eapply Rc_sys_same; [|apply sys_same_upd_inst; intros; cbn; auto].
    apply Rc_restarts. exact HR0.
Qed.
End RelCoreStep2.
