(* C12: concrete accepted histories (built by hand from the model) that witness
   - the monitor fails outside every window when a stop requested through the API is in flight (C12_refuted),
   - the window flag of W_C12 (commit) is needed; the former witness for sdlag is rejected by the hardened model,
   - the hypotheses of the theorems are satisfiable on a non-trivial history. *)
From Coq Require Import List ZArith NArith Bool.
From PC.Base Require Import Assoc.
From PC.Sup Require Import Model Monitors Sim MonC12w SimC12.
Import ListNotations.
Open Scope N_scope.

Definition ex_conf (d : list (name * cond)) (probe : bool) : pconf :=
  mkConf d PNo 0 0 false false probe false false false false.
(* process 2 depends on process 1 (condition: started) and has a readiness probe *)
Definition ex_cs : amap pconf := [(1, ex_conf [] false); (2, ex_conf [(1, CStarted)] true)].

(* Run() spawns both; instance 11 (of 1) launches; instance 12 (of 2) has waited for 11 *)
Definition ex_spawn : list (tid * event) :=
 [(100, EApiBegin OpRun);
  (100, ENewInst 11 1); (100, EState 11 SPending); (100, ERegAdd 11 1); (100, ESpawn 11 1);
  (100, ENewInst 12 2); (100, EState 12 SPending); (100, ERegAdd 12 2); (100, ESpawn 12 2);
  (100, ERunSpawned);
  (1, EBegin 11); (1, ERunChecked false); (1, EStarted); (1, EState 11 SRunning); (1, ELaunch true);
  (2, EBegin 12); (2, EDoneGet 1 None); (2, ELookupMid 1); (2, ERegGet 1 (Some 11)); (2, EDepWait 1 (Some 11));
  (2, EDepDone 1 true)].
Definition ex_launch2 : list (tid * event) :=
  [(2, ERunChecked false); (2, EStarted); (2, EState 12 SRunning); (2, ELaunch true)].
Definition ex_sd : list (tid * event) :=
  [(300, EApiBegin OpShutdown); (300, EShutdownCall); (300, EShutdownBegin); (300, EShutdownOrder [12; 11])].
Definition ex_stop11 : list (tid * event) :=
  [(401, EOrderedGo 11); (401, EStopEnter 11 true); (401, EStopRunning 11); (401, EState 11 STerminating);
   (401, ESignal 11 15%Z false)].

(* 1. StopProcess(1) read the registry before the shutdown took the lock and signals 1 while 2 is alive *)
Definition ex_refute : list (tid * event) := ex_spawn ++ ex_launch2 ++
 [(200, EApiBegin (OpStop 1)); (200, ERegGet 1 (Some 11)); (200, EStopChecked 1 (Some 11))] ++ ex_sd ++
 [(200, ENoRestart 11); (200, EStopEnter 11 true); (200, EStopRunning 11); (200, EState 11 STerminating);
  (200, ESignal 11 15%Z false)].

Lemma C12_refuted_thm : exists cs ord evs s,
  accept (init cs ord) evs = Some s /\ holds_C12 ord cs evs = false /\
  any_window (final_obs cs evs) = false /\ c12_side cs evs = true.
Proof.
  exists ex_cs, true, ex_refute. vm_compute. eexists. repeat split; reflexivity.
Qed.

(* 2. window commit (F20/F21): the worker of 12 finds it Pending and ends it (l_done) although 12 has passed its
   "am I terminated" check; 12 launches; the worker of 11 sees 12 completed and signals 11 while 12 is alive *)
Definition ex_commit : list (tid * event) := ex_spawn ++ [(2, ERunChecked false)] ++ ex_sd ++
  [(400, EOrderedGo 12); (400, EStopEnter 12 true); (400, EStopPending 12); (400, EProcEnd 12 STerminating);
   (400, EState 12 STerminating); (400, EProcEnded 12 STerminating); (400, EStopReturn 12);
   (2, EStarted); (2, EState 12 SRunning); (2, ELaunch true)] ++ ex_stop11.

(* 3. (rejected by the hardened model) the same, the Pending instance being ended by an internal stop (fatal probe result) that
   does not cancel the run context *)
Definition ex_sdlag : list (tid * event) := ex_spawn ++
  [(500, EProbe 12 false true); (500, EStopEnter 12 false); (500, EStopPending 12); (2, ERunChecked false);
   (500, EProcEnd 12 STerminating); (500, EState 12 STerminating); (500, EProcEnded 12 STerminating);
   (500, EStopReturn 12); (2, EStarted); (2, EState 12 SRunning); (2, ELaunch true)] ++ ex_sd ++ ex_stop11.

Definition only_flag (k : nat) (o : obs) : bool :=
  forallb (fun p => Bool.eqb (snd p) (Nat.eqb (fst p) k)) (List.combine (seq 0 7) (windows_of o)).

(* windows_of = [zombie; sdlag; commit; late; sdspawn; dup; stale] *)
Lemma C12_commit_needed_thm : exists cs evs s,
  accept (init cs true) evs = Some s /\ holds_C12 true cs evs = false /\ holds_C12w true cs evs = false /\
  only_flag 2 (final_obs cs evs) = true /\ c12_side cs evs = true /\ c12_noforeign cs evs = true.
Proof.
  exists ex_cs, ex_commit. vm_compute. eexists. repeat split; reflexivity.
Qed.

(* the hardened model rejects this history at its 22nd event: a probe result for an instance that was never launched *)
Lemma ex_sdlag_rejected :
  accept (init ex_cs true) ex_sdlag = None /\ fst (accept_prefix (init ex_cs true) ex_sdlag 0) = 21%nat /\
  nth_error ex_sdlag 21 = Some (500, EProbe 12 false true).
Proof. vm_compute. repeat split; reflexivity. Qed.

(* 4. a good history: the ordered shutdown stops 12, waits for its completion, then stops 11 *)
Definition ex_good : list (tid * event) := ex_spawn ++ ex_launch2 ++ ex_sd ++
 [(400, EOrderedGo 12); (400, EStopEnter 12 true); (400, EStopRunning 12); (400, EState 12 STerminating);
  (400, ESignal 12 15%Z false); (400, EStopReturn 12);
  (0, ECmdExit 12 0%Z); (2, EWaitReturn 0%Z); (2, EExitCode 0%Z); (2, ERestartDecision false);
  (2, EProcEnd 12 SCompleted); (2, EState 12 SCompleted)] ++ ex_stop11.

Lemma ex_good_ok :
  (exists s, accept (init ex_cs true) ex_good = Some s) /\ length ex_good = 46%nat /\
  W_C12 (final_obs ex_cs ex_good) = false /\ c12_side ex_cs ex_good = true /\ c12_noforeign ex_cs ex_good = true /\
  holds_C12 true ex_cs ex_good = true /\ holds_C12w true ex_cs ex_good = true.
Proof. vm_compute. split; [eexists; reflexivity|]. repeat split; reflexivity. Qed.

(* ---- enabledness (EnC12.v): three processes, 2 depends on 1, 3 is unrelated; an ordered shutdown has just taken
   its snapshot [13; 12; 11] while all three run -------------------------------------------------------------- *)
From PC.Sup Require Import EnC12.
Definition ex3_cs : amap pconf := [(1, ex_conf [] false); (2, ex_conf [(1, CStarted)] false); (3, ex_conf [] false)].
Definition ex3_pre : list (tid * event) :=
 [(100, EApiBegin OpRun);
  (100, ENewInst 11 1); (100, EState 11 SPending); (100, ERegAdd 11 1); (100, ESpawn 11 1);
  (100, ENewInst 12 2); (100, EState 12 SPending); (100, ERegAdd 12 2); (100, ESpawn 12 2);
  (100, ENewInst 13 3); (100, EState 13 SPending); (100, ERegAdd 13 3); (100, ESpawn 13 3);
  (100, ERunSpawned);
  (1, EBegin 11); (1, ERunChecked false); (1, EStarted); (1, EState 11 SRunning); (1, ELaunch true);
  (2, EBegin 12); (2, EDoneGet 1 None); (2, ELookupMid 1); (2, ERegGet 1 (Some 11)); (2, EDepWait 1 (Some 11));
  (2, EDepDone 1 true); (2, ERunChecked false); (2, EStarted); (2, EState 12 SRunning); (2, ELaunch true);
  (3, EBegin 13); (3, ERunChecked false); (3, EStarted); (3, EState 13 SRunning); (3, ELaunch true);
  (300, EApiBegin OpShutdown); (300, EShutdownCall); (300, EShutdownBegin); (300, EShutdownOrder [13; 12; 11])].

Lemma ex3_ranked : ranked ex3_cs N.to_nat.
Proof.
  intros n c d Hg Hin. unfold ex3_cs in Hg. cbn [get] in Hg. revert Hg.
  destruct (1 =? n) eqn:E1; [intros Hg; injection Hg as <-; destruct Hin|].
  destruct (2 =? n) eqn:E2; [intros Hg; apply N.eqb_eq in E2; subst n; injection Hg as <-; destruct Hin as [<-|[]]; cbn; auto|].
  destruct (3 =? n) eqn:E3; [intros Hg; injection Hg as <-; destruct Hin|discriminate].
Qed.

(* the hypotheses of the enabledness theorems hold there: the workers of 12 and of 13 can go (in either order),
   the worker of 11 cannot (12, which depends on 1, has not completed) *)
Lemma ex3_enabledness : exists s,
  accept (init ex3_cs true) ex3_pre = Some s /\ sd_active s = Some (300, [13; 12; 11]) /\
  all_done s [13; 12; 11] = false /\
  dependents_done s [13; 12; 11] 12 = true /\ dependents_done s [13; 12; 11] 13 = true /\
  dependents_done s [13; 12; 11] 11 = false /\
  get 400 (threads s) = None /\ get 400 (thinst s) = None /\ get 401 (threads s) = None /\ get 401 (thinst s) = None /\
  step s (400, EOrderedGo 11) = None /\
  (exists s2, accept s [(400, EOrderedGo 12); (401, EOrderedGo 13)] = Some s2) /\
  (exists s2, accept s [(401, EOrderedGo 13); (400, EOrderedGo 12)] = Some s2).
Proof.
  vm_compute. eexists. repeat split; try reflexivity; eexists; reflexivity.
Qed.
