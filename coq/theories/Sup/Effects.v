(* Effect lemmas: how one accepted step can change each part of the model state.  Model-only; every
   simulation proof uses them instead of unfolding [step] again. *)
From Coq Require Import List ZArith NArith Bool Lia.
From RecordUpdate Require Import RecordSet.
From PC.Base Require Import Assoc.
From PC.Sup Require Import Model Tactics.
Import ListNotations RecordSetNotations.

(* ---- flush ---------------------------------------------------------------------------------------- *)
Lemma flush_confs th s : confs (flush th s) = confs s.
Proof.
  unfold flush. destruct (get th (threads s)) as [t|]; [|reflexivity]. destruct (pend t) as [r|]; [|reflexivity].
  destruct r; unfold apply_release; sup_simpl; try reflexivity. destruct (code_set _); reflexivity.
Qed.
Lemma flush_thinst th s : thinst (flush th s) = thinst s.
Proof.
  unfold flush. destruct (get th (threads s)) as [t|]; [|reflexivity]. destruct (pend t) as [r|]; [|reflexivity].
  destruct r; unfold apply_release; sup_simpl; try reflexivity. destruct (code_set _); reflexivity.
Qed.
Lemma flush_viss th s : viss (flush th s) = viss s.
Proof.
  unfold flush. destruct (get th (threads s)) as [t|]; [|reflexivity]. destruct (pend t) as [r|]; [|reflexivity].
  destruct r; unfold apply_release; sup_simpl; try reflexivity. destruct (code_set _); reflexivity.
Qed.
Lemma flush_running th s : running (flush th s) = running s.
Proof.
  unfold flush. destruct (get th (threads s)) as [t|]; [|reflexivity]. destruct (pend t) as [r|]; [|reflexivity].
  destruct r; unfold apply_release; sup_simpl; try reflexivity. destruct (code_set _); reflexivity.
Qed.
Lemma flush_donereg th s : donereg (flush th s) = donereg s.
Proof.
  unfold flush. destruct (get th (threads s)) as [t|]; [|reflexivity]. destruct (pend t) as [r|]; [|reflexivity].
  destruct r; unfold apply_release; sup_simpl; try reflexivity. destruct (code_set _); reflexivity.
Qed.

(* what flush can do to an instance: only latches move, and only upwards *)
Definition inst_latch_le (x x' : inst) : Prop :=
  nm x' = nm x /\ cf x' = cf x /\ pc x' = pc x /\ launches x' = launches x /\ alive x' = alive x /\
  exited x' = exited x /\ f_stopped x' = f_stopped x /\ outp x' = outp x /\ d_added x' = d_added x /\
  (l_done x = true -> l_done x' = true) /\ (l_started x = true -> l_started x' = true) /\
  (l_runctx x = true -> l_runctx x' = true) /\ (l_ready x = true -> l_ready x' = true) /\
  (forall b, l_logready x = Some b -> l_logready x' = Some b).

Lemma inst_latch_le_refl x : inst_latch_le x x.
Proof. unfold inst_latch_le. repeat split; auto. Qed.

Lemma flush_insts th s j :
  match get j (insts s) with
  | Some x => exists x', get j (insts (flush th s)) = Some x' /\ inst_latch_le x x'
  | None => get j (insts (flush th s)) = None
  end.
Proof.
  unfold flush. destruct (get th (threads s)) as [t|] eqn:Et.
  2:{ destruct (get j (insts s)) as [x|]; [exists x; split; [reflexivity|apply inst_latch_le_refl]|reflexivity]. }
  destruct (pend t) as [r|] eqn:Ep.
  2:{ destruct (get j (insts s)) as [x|]; [exists x; split; [reflexivity|apply inst_latch_le_refl]|reflexivity]. }
  destruct r; unfold apply_release; sup_simpl; cbn;
  try (destruct (code_set s); cbn);
  try (destruct (get j (insts s)) as [x|]; [exists x; split; [reflexivity|apply inst_latch_le_refl]|reflexivity]).
  - destruct (N.eqb i j); destruct (get j (insts s)) as [x|]; cbn; try reflexivity;
      try (exists x; split; [reflexivity|apply inst_latch_le_refl]).
    eexists; split; [reflexivity|]. unfold inst_latch_le; cbn; repeat split; auto.
  - destruct (N.eqb i j); destruct (get j (insts s)) as [x|]; cbn; try reflexivity;
      try (exists x; split; [reflexivity|apply inst_latch_le_refl]).
    eexists; split; [reflexivity|]. unfold inst_latch_le; cbn; repeat split; auto.
    intros b Hb. now rewrite Hb.
  - destruct (N.eqb i j); destruct (get j (insts s)) as [x|]; cbn; try reflexivity;
      try (exists x; split; [reflexivity|apply inst_latch_le_refl]).
    eexists; split; [reflexivity|]. unfold inst_latch_le; cbn; repeat split; auto.
Qed.
