(* Effect lemmas: how one accepted step can change each part of the model state.  Model-only; every
   simulation proof uses them instead of unfolding [step] again. *)
From Coq Require Import List ZArith NArith Bool Lia.
From RecordUpdate Require Import RecordSet.
From PC.Base Require Import Assoc.
From PC.Sup Require Import Model Tactics.
Import ListNotations RecordSetNotations.

(* ---- flush ---------------------------------------------------------------------------------------- *)
Lemma flush_confs th s : confs (flush th s) = confs s.
Proof.
  unfold flush. destruct (get th (threads s)) as [t|]; [|reflexivity]. destruct (pend t) as [r|]; [|reflexivity].
  destruct r; unfold apply_release; sup_simpl; try reflexivity. destruct (code_set _); reflexivity.
Qed.
Lemma flush_thinst th s : thinst (flush th s) = thinst s.
Proof.
  unfold flush. destruct (get th (threads s)) as [t|]; [|reflexivity]. destruct (pend t) as [r|]; [|reflexivity].
  destruct r; unfold apply_release; sup_simpl; try reflexivity. destruct (code_set _); reflexivity.
Qed.
Lemma flush_viss th s : viss (flush th s) = viss s.
Proof.
  unfold flush. destruct (get th (threads s)) as [t|]; [|reflexivity]. destruct (pend t) as [r|]; [|reflexivity].
  destruct r; unfold apply_release; sup_simpl; try reflexivity. destruct (code_set _); reflexivity.
Qed.
Lemma flush_running th s : running (flush th s) = running s.
Proof.
  unfold flush. destruct (get th (threads s)) as [t|]; [|reflexivity]. destruct (pend t) as [r|]; [|reflexivity].
  destruct r; unfold apply_release; sup_simpl; try reflexivity. destruct (code_set _); reflexivity.
Qed.
Lemma flush_donereg th s : donereg (flush th s) = donereg s.
Proof.
  unfold flush. destruct (get th (threads s)) as [t|]; [|reflexivity]. destruct (pend t) as [r|]; [|reflexivity].
  destruct r; unfold apply_release; sup_simpl; try reflexivity. destruct (code_set _); reflexivity.
Qed.

(* what flush can do to an instance: only latches move, and only upwards *)
Definition inst_latch_le (x x' : inst) : Prop :=
  nm x' = nm x /\ cf x' = cf x /\ pc x' = pc x /\ launches x' = launches x /\ alive x' = alive x /\
  exited x' = exited x /\ f_stopped x' = f_stopped x /\ outp x' = outp x /\ d_added x' = d_added x /\
  (l_done x = true -> l_done x' = true) /\ (l_started x = true -> l_started x' = true) /\
  (l_runctx x = true -> l_runctx x' = true) /\ (l_ready x = true -> l_ready x' = true) /\
  (forall b, l_logready x = Some b -> l_logready x' = Some b).

Lemma inst_latch_le_refl x : inst_latch_le x x.
Proof. unfold inst_latch_le. repeat split; auto. Qed.

Lemma flush_insts th s j :
  match get j (insts s) with
  | Some x => exists x', get j (insts (flush th s)) = Some x' /\ inst_latch_le x x'
  | None => get j (insts (flush th s)) = None
  end.
Proof.
  unfold flush. destruct (get th (threads s)) as [t|] eqn:Et.
  2:{ destruct (get j (insts s)) as [x|]; [exists x; split; [reflexivity|apply inst_latch_le_refl]|reflexivity]. }
  destruct (pend t) as [r|] eqn:Ep.
  2:{ destruct (get j (insts s)) as [x|]; [exists x; split; [reflexivity|apply inst_latch_le_refl]|reflexivity]. }
  destruct r; unfold apply_release; sup_simpl; cbn;
  try (destruct (code_set s); cbn);
  try (destruct (get j (insts s)) as [x|]; [exists x; split; [reflexivity|apply inst_latch_le_refl]|reflexivity]).
  all: match goal with |- context[N.eqb ?a ?b] => destruct (N.eqb a b) end;
       destruct (get j (insts s)) as [x|]; cbn; try reflexivity;
       try (exists x; split; [reflexivity|apply inst_latch_le_refl]).
  all: eexists; split; [reflexivity|]; unfold inst_latch_le; cbn; repeat split; auto.
  all: intros b Hb; now rewrite Hb.
Qed.

(* ---- step_core splits into the sub-step functions -------------------------------------------------- *)
Inductive step_kind (s : sys) (th : tid) (e : event) (s' : sys) : Prop :=
| KResume : e = EResume -> s' = s -> step_kind s th e s'
| KBegin (i : iid) (x : inst) : e = EBegin i -> get i (insts s) = Some x -> get th (thinst s) = None -> get th (threads s) = None ->
    (forall (t : tid) (j : iid), get t (thinst s) = Some j -> j <> i) ->
    (exists cth, get i (stage s) = Some (cth, 3)) ->
    s' = s <| thinst := set th i (thinst s) |> <| stage := del i (stage s) |> -> step_kind s th e s'
| KReg : step_reg s th e = Some s' -> step_kind s th e s'
| KApi : step_api s th e = Some s' -> step_kind s th e s'
| KStop : step_stop s th e = Some s' -> step_kind s th e s'
| KState (i : iid) (s0 : status) : e = EState i s0 -> step_state s th i s0 = Some s' -> step_kind s th e s'
| KProcEnd (i : iid) (s0 : status) (b : bool) : e = (if b then EProcEnd i s0 else EProcEnded i s0) -> step_procend s th i s0 b = Some s' -> step_kind s th e s'
| KShutdown : step_shutdown s th e = Some s' -> step_kind s th e s'
| KOrdered (i : iid) : e = EOrderedGo i -> step_ordered_go s th i = Some s' -> step_kind s th e s'
| KEnv : step_env s th e = Some s' -> step_kind s th e s'
| KOwn : step_own s th e = Some s' -> step_kind s th e s'.

Lemma forallb_thinst_neq (m : amap iid) i :
  forallb (fun p => negb (N.eqb (snd p) i)) m = true -> forall t j, get t m = Some j -> j <> i.
Proof.
  intros H t j Hg. apply get_in in Hg. rewrite forallb_forall in H. specialize (H _ Hg). cbn in H.
  apply negb_true_iff, N.eqb_neq in H. exact H.
Qed.

Lemma step_core_kind s th e s' : step_core s th e = Some s' -> step_kind s th e s'.
Proof.
  intros H. unfold step_core in H. destruct e;
  try (now apply KReg); try (now apply KApi); try (now apply KStop); try (now apply KShutdown);
  try (now apply KEnv); try (now apply KOwn).
  - break_step H. split_andb. unfold has in *.
    destruct (get th (thinst s)) eqn:E3; [discriminate|]. destruct (get th (threads s)) eqn:E4; [discriminate|].
    destruct (get i (stage s)) as [[cth [|[|[|[|k]]]]]|] eqn:E5; try discriminate.
    subst s'. eapply KBegin; eauto using forallb_thinst_neq.
  - eapply KState; eauto.
  - injection H as <-. now apply KResume.
  - eapply (KProcEnd _ _ _ _ i s0 true); eauto.
  - eapply (KProcEnd _ _ _ _ i s0 false); eauto.
  - eapply KOrdered; eauto.
Qed.
