(* C08, second theorem: the zombie window hypothesis can be traded for "no stop ever found its
   target Pending" (no EStopPending event in the history).  Then an instance whose onProcessEnd has
   begun (the observer's o_endst / o_ended) is inside or past its own onProcessEnd and never launches
   again, whether or not its goroutine has already reached inst_exit. *)
From Coq Require Import List ZArith NArith Bool Lia.
From RecordUpdate Require Import RecordSet.
From PC.Base Require Import Assoc.
From PC.Sup Require Import Model Monitors Tactics Sim ObsFacts Effects RelCore LemC08 RelC08.
Import ListNotations RecordSetNotations.

(* the instance's goroutine is inside or past its own onProcessEnd *)
Definition end_pc (p : ipc) : bool :=
  match p with
  | IInEnd _ _ _ | IRunRet _ | IDoneReg _ | IProjEnd _ _ | ITriggered _ | ICodeSet | ILeaving | IWgDone | IGone => true
  | _ => false
  end.

(* ---- model side: the region end_pc is never left ------------------------------------------------------ *)
Definition step_end (s s' : sys) : Prop :=
  forall j, match get j (insts s) with
            | Some x => exists x', get j (insts s') = Some x' /\ (end_pc (pc x) = true -> end_pc (pc x') = true)
            | None => True
            end.

Lemma step_end_refl s : step_end s s.
Proof. intros j. destruct (get j (insts s)) as [x|]; eauto. Qed.

Lemma step_end_trans s1 s2 s3 : step_end s1 s2 -> step_end s2 s3 -> step_end s1 s3.
Proof.
  intros A B j. specialize (A j). specialize (B j). destruct (get j (insts s1)) as [x|]; [|exact I].
  destruct A as (x2 & E2 & P2). rewrite E2 in B. destruct B as (x3 & E3 & P3). eauto.
Qed.

Lemma step_end_eq s s' : insts s' = insts s -> step_end s s'.
Proof. intros E j. rewrite E. destruct (get j (insts s)) as [x|]; eauto. Qed.

Lemma step_end_upd_inst i f s :
  (forall x, get i (insts s) = Some x -> end_pc (pc x) = true -> end_pc (pc (f x)) = true) -> step_end s (upd_inst i f s).
Proof.
  intros Hf j. rewrite insts_upd_inst. destruct (N.eqb_spec i j).
  - subst j. destruct (get i (insts s)) as [x|] eqn:E; cbn; eauto.
  - destruct (get j (insts s)) as [x|]; eauto.
Qed.

Lemma step_end_fold_upd_inst (f : inst -> inst) l :
  (forall x, pc (f x) = pc x) -> forall s, step_end s (fold_left (fun s i => upd_inst i f s) l s).
Proof.
  intros Hf. induction l as [|a l IH]; intros s; cbn; [apply step_end_refl|].
  eapply step_end_trans; [apply step_end_upd_inst; intros x _ H; rewrite Hf; exact H|apply IH].
Qed.

Lemma step_end_flush th s : step_end s (flush th s).
Proof.
  intros j. pose proof (flush_insts th s j) as H. destruct (get j (insts s)) as [x|]; [|exact I].
  destruct H as (x' & E & L). exists x'. split; [exact E|].
  unfold inst_latch_le in L. destruct L as (_ & _ & Hpc & _). now rewrite Hpc.
Qed.

Ltac end_global := intros ? _ H; exact H.
Ltac end_local :=
  let x := fresh "x" in let Hx := fresh "Hx" in
  intros x Hx; autorewrite with sup in Hx;
  rewrite ?N.eqb_refl in Hx;
  match goal with E : get ?i (insts ?s) = Some ?x0 |- _ =>
    rewrite E in Hx; cbn in Hx; injection Hx as <- end;
  cbn;
  repeat match goal with E : pc _ = _ |- _ => rewrite E end; cbn;
  intros; try discriminate; try reflexivity; destruct_matches; try discriminate; reflexivity.

Ltac step_end_close :=
  unfold set_pc, end_release_early, end_finish, write_status;
  repeat first
  [ apply step_end_refl
  | match goal with
    | |- step_end ?s (upd_inst ?i ?f ?X) =>
        apply (step_end_trans s X); [|apply step_end_upd_inst; first [end_global | end_local]]
    | |- step_end ?s (upd_vis ?n ?f ?X) =>
        apply (step_end_trans s X); [|apply step_end_eq; apply upd_vis_insts]
    | |- step_end ?s (fold_left (fun s i => upd_inst i ?f s) ?l ?X) =>
        apply (step_end_trans s X); [|apply step_end_fold_upd_inst; reflexivity]
    | |- step_end ?s (set_thread ?th ?t ?X) =>
        apply (step_end_trans s X); [|apply step_end_eq; reflexivity]
    | |- step_end ?s (RecordSet.set _ _ ?X) =>
        apply (step_end_trans s X); [|apply step_end_eq; reflexivity]
    | |- step_end ?s (if ?b then _ else _) => destruct b
    | |- step_end ?s (match ?b with _ => _ end) => destruct b
    end ].

Lemma step_reg_end s th e s' : step_reg s th e = Some s' -> step_end s s'.
Proof.
  intros H. destruct e; kind_cases H; step_end_close.
  (* ENewInst *)
  intros j. cbn. rewrite get_set. destruct (N.eqb_spec i j).
  - subst j. apply negb_true_iff in E0. unfold has in E0. destruct (get i (insts s)); [discriminate|exact I].
  - destruct (get j (insts s)); eauto.
Qed.
Lemma step_stop_end s th e s' : step_stop s th e = Some s' -> step_end s s'.
Proof. intros H. destruct e; kind_cases H; step_end_close. Qed.
Lemma step_shutdown_end s th e s' : step_shutdown s th e = Some s' -> step_end s s'.
Proof. intros H. destruct e; kind_cases H; step_end_close. Qed.
Lemma step_env_end s th e s' : step_env s th e = Some s' -> step_end s s'.
Proof. intros H. destruct e; kind_cases H; step_end_close. Qed.
Lemma step_api_end s th e s' : step_api s th e = Some s' -> step_end s s'.
Proof. intros H. destruct e; kind_cases H; step_end_close. Qed.
Lemma step_procend_end s th i s0 b s' : step_procend s th i s0 b = Some s' -> step_end s s'.
Proof. intros H. kind_cases H; step_end_close. Qed.
Lemma step_ordered_end s th i s' : step_ordered_go s th i = Some s' -> step_end s s'.
Proof. intros H. kind_cases H; step_end_close. Qed.
Lemma step_state_end s th i s0 s' : step_state s th i s0 = Some s' -> step_end s s'.
Proof. intros H. kind_cases H; step_end_close. Qed.
Lemma step_own_end s th e s' : step_own s th e = Some s' -> step_end s s'.
Proof. intros H. destruct e; kind_cases H; step_end_close. Qed.

Lemma step_core_end s th e s' : step_core s th e = Some s' -> step_end s s'.
Proof.
  intros H. destruct (step_core_kind _ _ _ _ H) as [? ?|i x ? ? ? ? ? ?| | | |i s0 ? ?|i s0 b ? ?| |i ? ?| | ]; subst;
    eauto using step_end_refl, step_reg_end, step_stop_end, step_shutdown_end, step_env_end, step_api_end,
                step_procend_end, step_ordered_end, step_own_end, step_state_end.
  apply step_end_eq. reflexivity.
Qed.

(* ---- no thread is inside the "stop of a Pending process" branch --------------------------------------- *)
Definition pendfree (p : stoppc) : bool :=
  match p with SPend _ | SPendE _ | SPendS _ | SPendDone _ => false | _ => true end.
Definition pendfree_sys (s : sys) : Prop :=
  forall th t, get th (threads s) = Some t -> pendfree (spc t) = true.

Lemma pendfree_get_thread s th : pendfree_sys s -> pendfree (spc (get_thread s th)) = true.
Proof. intros H. unfold get_thread. destruct (get th (threads s)) as [t|] eqn:E; [eapply H; eauto|reflexivity]. Qed.

Lemma pendfree_set_thread s th t : pendfree_sys s -> pendfree (spc t) = true -> pendfree_sys (set_thread th t s).
Proof.
  intros H Ht th' t'. rewrite threads_set_thread. destruct (N.eqb th th'); [intros E; injection E as <-; exact Ht|apply H].
Qed.

Lemma pendfree_eq s s' : threads s' = threads s -> pendfree_sys s -> pendfree_sys s'.
Proof. intros E H th t. rewrite E. apply H. Qed.

Lemma pendfree_flush th s : pendfree_sys s -> pendfree_sys (flush th s).
Proof.
  intros H. unfold flush. destruct (get th (threads s)) as [t|] eqn:Et; [|exact H]. destruct (pend t) as [r|] eqn:Ep; [|exact H].
  assert (H1 : pendfree_sys (set_thread th (t <| pend := None |>) s)) by (apply pendfree_set_thread; [exact H|cbn; eapply H; eauto]).
  destruct r; unfold apply_release, end_release_early; try (destruct (code_set _));
    (eapply pendfree_eq; [|exact H1]); autorewrite with sup; reflexivity.
Qed.

Definition is_stop_pending (e : event) : bool := match e with EStopPending _ => true | _ => false end.

Ltac pendfree_close H0 :=
  unfold set_pc, end_release_early, end_finish, write_status;
  repeat first
  [ exact H0
  | match goal with
    | |- pendfree_sys (set_thread ?th ?t ?X) =>
        apply pendfree_set_thread; [|cbn; try reflexivity; try (apply pendfree_get_thread; exact H0);
                                       try (destruct_matches; try reflexivity; apply pendfree_get_thread; exact H0)]
    | |- pendfree_sys (upd_inst ?i ?f ?X) => apply (pendfree_eq X); [apply upd_inst_threads|]
    | |- pendfree_sys (upd_vis ?n ?f ?X) => apply (pendfree_eq X); [apply upd_vis_threads|]
    | |- pendfree_sys (fold_left (fun s i => upd_inst i ?f s) ?l ?X) =>
        apply (pendfree_eq X); [clear; generalize X; induction l as [|a l IH]; intros X0; cbn; [reflexivity|rewrite IH; apply upd_inst_threads]|]
    | |- pendfree_sys (RecordSet.set _ _ ?X) => apply (pendfree_eq X); [reflexivity|]
    | |- pendfree_sys (if ?b then _ else _) => destruct b
    | |- pendfree_sys (match ?b with _ => _ end) => destruct b
    end ].

Lemma step_reg_pf s th e s' : pendfree_sys s -> step_reg s th e = Some s' -> pendfree_sys s'.
Proof. intros H0 H. destruct e; kind_cases H; pendfree_close H0. Qed.
Lemma step_stop_pf s th e s' : is_stop_pending e = false -> pendfree_sys s -> step_stop s th e = Some s' -> pendfree_sys s'.
Proof. intros Hn H0 H. destruct e; try discriminate Hn; kind_cases H; pendfree_close H0. Qed.
Lemma step_shutdown_pf s th e s' : pendfree_sys s -> step_shutdown s th e = Some s' -> pendfree_sys s'.
Proof. intros H0 H. destruct e; kind_cases H; pendfree_close H0. Qed.
Lemma step_env_pf s th e s' : pendfree_sys s -> step_env s th e = Some s' -> pendfree_sys s'.
Proof. intros H0 H. destruct e; kind_cases H; pendfree_close H0. Qed.
Lemma step_api_pf s th e s' : pendfree_sys s -> step_api s th e = Some s' -> pendfree_sys s'.
Proof. intros H0 H. destruct e; kind_cases H; pendfree_close H0. Qed.
Lemma step_ordered_pf s th i s' : pendfree_sys s -> step_ordered_go s th i = Some s' -> pendfree_sys s'.
Proof. intros H0 H. kind_cases H; pendfree_close H0. Qed.
Lemma step_own_pf s th e s' : pendfree_sys s -> step_own s th e = Some s' -> pendfree_sys s'.
Proof. intros H0 H. destruct e; kind_cases H; pendfree_close H0. Qed.
Ltac pf_contra H0 :=
  match goal with E : spc (get_thread ?s ?th) = _ |- _ =>
    let Hc := fresh in pose proof (pendfree_get_thread s th H0) as Hc; rewrite E in Hc; discriminate Hc end.
Lemma step_state_pf s th i s0 s' : pendfree_sys s -> step_state s th i s0 = Some s' -> pendfree_sys s'.
Proof. intros H0 H. kind_cases H; try (pf_contra H0); pendfree_close H0. Qed.
Lemma step_procend_pf s th i s0 b s' : pendfree_sys s -> step_procend s th i s0 b = Some s' -> pendfree_sys s'.
Proof. intros H0 H. kind_cases H; try (pf_contra H0); pendfree_close H0. Qed.

Lemma step_core_pf s th e s' : is_stop_pending e = false -> pendfree_sys s -> step_core s th e = Some s' -> pendfree_sys s'.
Proof.
  intros Hn H0 H. destruct (step_core_kind _ _ _ _ H) as [? ?|i x ? ? ? ? ? ?|Hk|Hk|Hk|i s0 ? Hk|i s0 b ? Hk|Hk|i ? Hk|Hk|Hk]; subst.
  - exact H0.
  - eapply pendfree_eq; [|exact H0]. reflexivity.
  - eapply step_reg_pf; eauto.
  - eapply step_api_pf; eauto.
  - eapply step_stop_pf; eauto.
  - eapply step_state_pf; eauto.
  - eapply step_procend_pf; eauto.
  - eapply step_shutdown_pf; eauto.
  - eapply step_ordered_pf; eauto.
  - eapply step_env_pf; eauto.
  - eapply step_own_pf; eauto.
Qed.

(* ---- observer side ------------------------------------------------------------------------------------ *)
(* onProcessEnd of the instance has been entered (by whomever), or its end was recorded *)
Definition hb (y : oinst) : bool := match o_endst y with Some _ => true | None => o_ended y end.

Definition frameB (o o' : obs) : Prop :=
  forall j, match get j (oi o) with
            | Some y => exists y', get j (oi o') = Some y' /\ hb y' = hb y
            | None => get j (oi o') = None
            end.

Lemma frameB_refl o : frameB o o.
Proof. intros j. destruct (get j (oi o)) as [y|]; eauto. Qed.
Lemma frameB_trans o1 o2 o3 : frameB o1 o2 -> frameB o2 o3 -> frameB o1 o3.
Proof.
  intros A B j. specialize (A j). specialize (B j). destruct (get j (oi o1)) as [y|].
  - destruct A as (y2 & E2 & H2). rewrite E2 in B. destruct B as (y3 & E3 & H3). exists y3. split; congruence.
  - now rewrite A in B.
Qed.
Lemma frameB_eq o o' : oi o' = oi o -> frameB o o'.
Proof. intros E j. rewrite E. destruct (get j (oi o)) as [y|]; eauto. Qed.
Lemma frameB_oi_upd i f o : (forall y, hb (f y) = hb y) -> frameB o (oi_upd i f o).
Proof.
  intros Hf j. rewrite oi_upd_get. destruct (N.eqb i j); destruct (get j (oi o)) as [y|]; cbn; eauto.
Qed.
Lemma frameB_fold_oi_upd (f : oinst -> oinst) l : (forall y, hb (f y) = hb y) ->
  forall o, frameB o (fold_left (fun o i => oi_upd i f o) l o).
Proof.
  intros Hf. induction l as [|a l IH]; intros o; cbn; [apply frameB_refl|].
  eapply frameB_trans; [apply (frameB_oi_upd a f o Hf)|apply IH].
Qed.
Lemma frameB_refresh o : frameB o (refresh_succ o).
Proof.
  intros j. rewrite refresh_get. destruct (get j (oi o)) as [y|]; cbn; [|reflexivity].
  eexists; split; [reflexivity|]. destruct (_ && _); reflexivity.
Qed.

Lemma hb_ended_upd s0 y :
  hb (if opt_eqb status_eqb (o_endst y) (Some s0) then y <| o_ended := true |> else y) = hb y.
Proof. unfold hb. destruct (o_endst y) as [s1|] eqn:E; cbn; [destruct (status_eqb s1 s0); cbn; now rewrite E|now rewrite E]. Qed.

Ltac frameB_fcond := intros; first [apply hb_ended_upd | unfold hb; cbn; destruct_matches; cbn; try reflexivity; try congruence].

Ltac frameB_close :=
  repeat first
  [ apply frameB_refl
  | match goal with
    | |- frameB ?o (oi_upd ?i ?f ?X) => apply (frameB_trans o X); [|apply frameB_oi_upd; frameB_fcond]
    | |- frameB ?o (on_upd ?n ?f ?X) => apply (frameB_trans o X); [|apply frameB_eq; apply on_upd_oi]
    | |- frameB ?o (fold_left (fun o i => oi_upd i ?f o) ?l ?X) =>
        apply (frameB_trans o X); [|apply frameB_fold_oi_upd; frameB_fcond]
    | |- frameB ?o (RecordSet.set _ _ ?X) => apply (frameB_trans o X); [|apply frameB_eq; reflexivity]
    end ].

Definition specialB (e : event) : bool := match e with ENewInst _ _ | EProcEnd _ _ => true | _ => false end.

Lemma obs_step_frameB cs o th e : specialB e = false -> frameB o (obs_step cs o (th, e)).
Proof.
  intros Hn. unfold obs_step. eapply frameB_trans; [|apply frameB_refresh].
  destruct e; try discriminate Hn; cbn [fst snd];
  try (destruct (ev_inst o th _) eqn:Ev);
  try match goal with |- context[match ?b with true => _ | false => _ end] => destruct b end;
  unfold note_late_commit;
  repeat match goal with |- context[if ?b then _ else _] => destruct b end;
  try apply frameB_refl; frameB_close.
Qed.

(* outside the dup window, of two instances of one name one has ended (pure observer invariant) *)
Definition PairB (o : obs) : Prop :=
  w_dup o = false ->
  forall i j yi yj, i <> j -> get i (oi o) = Some yi -> get j (oi o) = Some yj -> o_nm yi = o_nm yj ->
  o_ended yi = true \/ o_ended yj = true.

Lemma PairB_frame b o o' : frame8 b o o' -> flag_le o o' -> PairB o -> PairB o'.
Proof.
  intros [_ F] Hfl HP Hd i j yi yj Hij Ei Ej Hn.
  destruct (flag_le_dup_zombie _ _ Hfl) as [Hd0 _].
  pose proof (F i) as Fi. pose proof (F j) as Fj.
  destruct (get i (oi o)) as [xi|] eqn:Gi; [|congruence].
  destruct (get j (oi o)) as [xj|] eqn:Gj; [|congruence].
  destruct Fi as (yi' & Ei' & Ni & Eni & _). destruct Fj as (yj' & Ej' & Nj & Enj & _).
  assert (yi' = yi) by congruence. assert (yj' = yj) by congruence. subst yi' yj'.
  destruct (HP (Hd0 Hd) i j xi xj Hij Gi Gj) as [D|D]; [congruence| |]; auto.
Qed.

Lemma PairB_new cs o th i n : PairB o -> PairB (obs_step cs o (th, ENewInst i n)).
Proof.
  intros HP. unfold obs_step. cbn [fst snd].
  intros Hd a b ya yb Hab Ea Eb Hn. cbn in Hd.
  apply orb_false_iff in Hd. destruct Hd as [Hd Hdup].
  rewrite refresh_get in Ea, Eb. cbn [oi RecordSet.set eta_obs] in Ea, Eb.
  rewrite get_set in Ea. rewrite get_set in Eb.
  assert (Hold : forall (k : N) (y : oinst), get k (oi o) = Some y -> o_nm y = n -> o_ended y = true).
  { intros k y Hk Hy. apply get_in_vals in Hk.
    pose proof (existsb_false_in _ _ _ Hdup Hk) as D1. cbn in D1. rewrite Hy, N.eqb_refl in D1. cbn in D1.
    now apply negb_false_iff in D1. }
  assert (Hre : forall (y y' : oinst) (g : bool), Some (if g then y <| o_succ := true |> else y) = Some y' ->
                 o_nm y' = o_nm y /\ o_ended y' = o_ended y).
  { intros y y' g E. injection E as <-. destruct g; split; reflexivity. }
  destruct (N.eqb_spec i a); destruct (N.eqb_spec i b); try congruence.
  - subst a. cbn in Ea. injection Ea as <-. destruct (get b (oi o)) as [xb|] eqn:Gb; [|discriminate]. cbn in Eb.
    apply Hre in Eb. destruct Eb as [Nb Db]. right. rewrite Db. apply (Hold b xb Gb).
    rewrite <- Nb, <- Hn. reflexivity.
  - subst b. cbn in Eb. injection Eb as <-. destruct (get a (oi o)) as [xa|] eqn:Ga; [|discriminate]. cbn in Ea.
    apply Hre in Ea. destruct Ea as [Na Da]. left. rewrite Da. apply (Hold a xa Ga).
    rewrite <- Na, Hn. reflexivity.
  - destruct (get a (oi o)) as [xa|] eqn:Ga; [|discriminate]. destruct (get b (oi o)) as [xb|] eqn:Gb; [|discriminate].
    cbn in Ea, Eb. apply Hre in Ea, Eb. destruct Ea as [Na Da], Eb as [Nb Db]. rewrite Da, Db.
    apply (HP Hd a b xa xb Hab Ga Gb). congruence.
Qed.

Lemma PairB_step cs o te : PairB o -> PairB (obs_step cs o te).
Proof.
  intros HP. destruct te as [th e]. destruct (is_new e) eqn:Hn.
  - destruct e; try discriminate Hn. now apply PairB_new.
  - eapply PairB_frame; [apply (obs_step_frame8 cs o th e Hn)|apply obs_step_flags_mono|exact HP].
Qed.

Lemma PairB_init cs : PairB (obs0 cs).
Proof. intros _ i j yi yj _ E. discriminate E. Qed.

(* ---- the clause that ties hb to the model ------------------------------------------------------------- *)
Definition AllHb (s : sys) (o : obs) : Prop :=
  forall i x y, get i (insts s) = Some x -> get i (oi o) = Some y -> hb y = true -> end_pc (pc x) = true.

Lemma refresh_get_hb o j y' : get j (oi (refresh_succ o)) = Some y' -> exists y, get j (oi o) = Some y /\ hb y' = hb y.
Proof.
  rewrite refresh_get. destruct (get j (oi o)) as [y|]; cbn; [|discriminate].
  intros E. injection E as <-. exists y. split; [reflexivity|]. destruct (_ && _); reflexivity.
Qed.

Section RelC08b.
Context (cs : amap pconf).

Lemma AllHb_frame s o s' o' : Rc cs s o -> AllHb s o -> step_end s s' -> frameB o o' -> AllHb s' o'.
Proof.
  intros HR HA HS HF i x' y' Ex' Ey' Hh. specialize (HS i). specialize (HF i).
  destruct (get i (oi o)) as [y|] eqn:Ey; [|congruence].
  destruct (get i (insts s)) as [x|] eqn:Ex; [|rewrite (rc_noinst _ _ _ HR i Ex) in Ey; discriminate].
  destruct HS as (x2 & Ex2 & Hm). destruct HF as (y2 & Ey2 & Hhb).
  assert (x2 = x') by congruence. assert (y2 = y') by congruence. subst x2 y2.
  apply Hm. apply (HA i x y Ex Ey). congruence.
Qed.

(* the observer updates instance i only, whose goroutine is in the end region afterwards *)
Lemma AllHb_upd s o s' i f : Rc cs s o -> AllHb s o -> step_end s s' ->
  (forall x', get i (insts s') = Some x' -> end_pc (pc x') = true) ->
  AllHb s' (refresh_succ (oi_upd i f o)).
Proof.
  intros HR HA HS Hi j x' y' Ex' Ey' Hh. destruct (N.eqb_spec i j); [subst j; now apply Hi|].
  apply refresh_get_hb in Ey'. destruct Ey' as (y1 & Ey1 & Hhb). rewrite oi_upd_get in Ey1.
  destruct (N.eqb_spec i j); [contradiction|]. specialize (HS j).
  destruct (get j (insts s)) as [x|] eqn:Ex; [|rewrite (rc_noinst _ _ _ HR j Ex) in Ey1; discriminate].
  destruct HS as (x2 & Ex2 & Hm). assert (x2 = x') by congruence. subst x2.
  apply Hm. apply (HA j x y1 Ex Ey1). congruence.
Qed.

Record R8b (s : sys) (o : obs) : Prop := mkR8b {
  rb_r8 : R8 cs s o;
  rb_hb : AllHb s o;
  rb_pf : pendfree_sys s;
  rb_pair : PairB o }.

Lemma R8b_init ord : R8b (init cs ord) (obs0 cs).
Proof.
  constructor.
  - apply R8_init.
  - intros i x y E. discriminate E.
  - intros th t E. discriminate E.
  - apply PairB_init.
Qed.

Lemma R8b_launch_mon s o th i x :
  R8b s o -> get th (thinst s) = Some i -> get i (insts s) = Some x -> pc x = IStateSet ->
  mon_C08 cs o (th, ELaunch true) = true \/ w_dup o = true.
Proof.
  intros [[HR HA Hnd _] HH _ HP] Et Ex Hpc.
  destruct (w_dup o) eqn:Hd; [now right|left].
  unfold mon_C08. cbn [fst snd ev_inst]. rewrite <- (rc_th _ _ _ HR), Et.
  destruct (rc_inst _ _ _ HR i x Ex) as (yi & Eyi & Hni & _).
  unfold oi_get. rewrite Eyi.
  apply forallb_forall. intros [j y] Hin. cbn [fst snd].
  destruct (N.eqb_spec j i); [now rewrite orb_true_r|]. rewrite orb_false_r.
  apply negb_true_iff. destruct (N.eqb_spec (o_nm y) (o_nm yi)) as [Hn|]; [|reflexivity]. cbn.
  destruct (o_alive y) eqn:Hal; [exfalso|reflexivity].
  pose proof (in_get_nodup _ _ _ Hnd Hin) as Ey.
  destruct (get j (insts s)) as [xj|] eqn:Exj; [|rewrite (rc_noinst _ _ _ HR j Exj) in Ey; discriminate].
  destruct (HA j xj y Exj Ey) as [A1 A2].
  assert (Haj : alive xj = true) by congruence.
  destruct (ok8_alive _ _ A2 Haj) as (Hpcj & _ & _).
  assert (Hej : o_ended y = false).
  { destruct (o_ended y) eqn:Ee; [|reflexivity].
    assert (Hh : hb y = true) by (unfold hb; rewrite Ee; now destruct (o_endst y)).
    pose proof (HH j xj y Exj Ey Hh) as Hc. rewrite Hpcj in Hc. discriminate Hc. }
  assert (Hei : o_ended yi = false).
  { destruct (o_ended yi) eqn:Ee; [|reflexivity].
    assert (Hh : hb yi = true) by (unfold hb; rewrite Ee; now destruct (o_endst yi)).
    pose proof (HH i x yi Ex Eyi Hh) as Hc. rewrite Hpc in Hc. discriminate Hc. }
  destruct (HP Hd j i y yi n Ey Eyi Hn); congruence.
Qed.

Lemma R8b_step s o th e s' : R8b s o -> is_stop_pending e = false -> step s (th, e) = Some s' ->
  R8b s' (obs_step cs o (th, e)) /\ (mon_C08 cs o (th, e) = true \/ w_dup o = true).
Proof.
  intros HRb Hnp H. pose proof HRb as [HR8 HH Hpf HP].
  destruct (R8_step cs s o th e s' HR8 H) as [HR8' _].
  pose proof (PairB_step cs o (th, e) HP) as HP'.
  unfold step in H. cbn [fst snd] in H.
  assert (HR0 : Rc cs (flush th s) o) by (eapply Rc_sys_same; [apply (r8_core _ _ _ HR8)|apply sys_same_flush]).
  assert (HH0 : AllHb (flush th s) o) by (apply (AllHb_frame s o (flush th s) o (r8_core _ _ _ HR8) HH (step_end_flush th s) (frameB_refl o))).
  assert (Hpf0 : pendfree_sys (flush th s)) by now apply pendfree_flush.
  assert (HR80 : R8 cs (flush th s) o).
  { destruct HR8 as [A B C D]. constructor; auto.
    eapply AllP8_frame; eauto using step_ok8_flush, frame8_refl. }
  assert (HRb0 : R8b (flush th s) o) by (constructor; assumption).
  set (s0 := flush th s) in *. clearbody s0. clear HRb HR8 HH Hpf s.
  pose proof (step_core_pf _ _ _ _ Hnp Hpf0 H) as Hpf'.
  pose proof (step_core_end _ _ _ _ H) as HS.
  enough (AllHb s' (obs_step cs o (th, e)) /\ (mon_C08 cs o (th, e) = true \/ w_dup o = true)) as [HH' Hm]
    by (split; [constructor; assumption|exact Hm]).
  destruct (specialB e) eqn:Hsp.
  - (* ENewInst, EProcEnd *)
    split; [|left; apply mon_C08_other; intros ->; discriminate Hsp].
    destruct e; try discriminate Hsp.
    + (* ENewInst *)
      cbn in H. unfold step_reg in H. break_step H. subst s'.
      apply negb_true_iff in E0. unfold has in E0. destruct (get i (insts s0)) eqn:Ei; [discriminate|].
      intros j x' y' Ex' Ey' Hh. unfold obs_step in Ey'. cbn [fst snd] in Ey'.
      apply refresh_get_hb in Ey'. destruct Ey' as (y1 & Ey1 & Hhb).
      unfold set_stage in Ex'. cbn [insts oi RecordSet.set eta_sys eta_obs] in Ex', Ey1. rewrite get_set in Ex'. rewrite get_set in Ey1.
      destruct (N.eqb_spec i j).
      * injection Ey1 as <-. rewrite Hhb in Hh. discriminate Hh.
      * apply (HH0 j x' y1 Ex' Ey1). congruence.
    + (* EProcEnd *)
      unfold obs_step. cbn [fst snd ev_inst].
      apply (AllHb_upd s0 o s' i _ HR0 HH0 HS).
      cbn in H. unfold step_procend in H.
      destruct (get i (insts s0)) as [x|] eqn:Ex; [|discriminate].
      intros x' Ex'. break_step H; try (pf_contra Hpf0); subst s'; sup_simpl;
        rewrite N.eqb_refl, Ex in Ex'; cbn in Ex'; injection Ex' as <-; reflexivity.
  - split.
    + eapply AllHb_frame; [exact HR0|exact HH0|exact HS|now apply obs_step_frameB].
    + destruct e; try (left; apply mon_C08_other; discriminate).
      destruct ok; [|left; apply mon_C08_other; discriminate].
      cbn in H. unfold step_own, own_inst in H.
      destruct (get th (thinst s0)) as [i|] eqn:Et; [|discriminate].
      destruct (get i (insts s0)) as [x|] eqn:Ex; [|discriminate].
      destruct (pc x) eqn:Hpc; try discriminate H.
      eapply R8b_launch_mon; eauto.
Qed.

End RelC08b.

(* ---- the theorem ------------------------------------------------------------------------------------ *)
Definition no_stop_pending (evs : list (tid * event)) : bool :=
  forallb (fun te => negb (is_stop_pending (snd te))) evs.

Lemma w_dup_mono cs o e : w_dup (obs_step cs o e) = false -> w_dup o = false.
Proof. apply (flag_le_dup_zombie _ _ (obs_step_flags_mono cs o e)). Qed.

Lemma w_dup_mono_fold cs evs : forall o, w_dup (fold_left (obs_step cs) evs o) = false -> w_dup o = false.
Proof. induction evs as [|e evs IH]; intros o H; [exact H|]. cbn in H. eapply w_dup_mono, IH, H. Qed.

Lemma simB cs : forall evs s o k s', R8b cs s o -> accept s evs = Some s' -> no_stop_pending evs = true ->
  w_dup (fold_left (obs_step cs) evs o) = false -> mon_run cs (mon_C08 cs) o evs k = None.
Proof.
  induction evs as [|[th e] evs IH]; intros s o k s' HR Hacc Hnp HW; [reflexivity|].
  cbn in Hacc. destruct (step s (th, e)) as [s1|] eqn:Es; [|discriminate].
  cbn in Hnp. apply andb_true_iff in Hnp. destruct Hnp as [Hnp1 Hnp]. apply negb_true_iff in Hnp1.
  destruct (R8b_step cs s o th e s1 HR Hnp1 Es) as [HR1 Hm].
  cbn [mon_run fold_left] in *.
  pose proof (w_dup_mono cs o (th, e) (w_dup_mono_fold cs evs _ HW)) as Hd.
  destruct Hm as [Hm|Hm]; [|congruence]. rewrite Hm. eapply IH; eauto.
Qed.

Theorem C08_no_stop_pending_lemma : forall cs ord evs s,
  accept (init cs ord) evs = Some s -> w_dup (final_obs cs evs) = false -> no_stop_pending evs = true ->
  holds_C08 cs evs = true.
Proof.
  intros cs ord evs s Hacc HW Hnp. unfold holds_C08, holds.
  now rewrite (simB cs evs _ _ 0 s (R8b_init cs ord) Hacc Hnp HW).
Qed.

(* both theorems together *)
Theorem C08_combined_lemma : forall cs ord evs s,
  accept (init cs ord) evs = Some s -> w_dup (final_obs cs evs) = false ->
  w_zombie (final_obs cs evs) = false \/ no_stop_pending evs = true ->
  holds_C08 cs evs = true.
Proof.
  intros cs ord evs s Hacc Hd [Hz|Hn].
  - eapply C08_main_flags_lemma; eauto.
  - eapply C08_no_stop_pending_lemma; eauto.
Qed.

