(* Sup: the supervisor core of process-compose as a labelled transition system.
   Labels are the trace points (TPs) that a verif-tagged build emits (src/app/process.go,
   src/app/project_runner.go) plus the environment events of the harness.  [step] is a deterministic
   REPLAY function: it checks that the event is the next one of its thread, that the guard the code
   evaluated holds in the model state, that data carried by the event equals what the model predicts,
   and applies the effect of the code segment the event stands for.   No proofs in this file.

   Conventions (DESIGN 2.3): effects that RELEASE something (latches, locks, wait group) are applied at
   the last TP before the release; reads/acquisitions are logged after they happened.
   The model describes the code AFTER the repairs listed in known_findings.json (status fixed) and
   keeps the check-then-act windows that are recorded there as known findings. *)
From Coq Require Import List ZArith NArith Bool.
From RecordUpdate Require Import RecordSet.
From PC.Base Require Import Assoc.
Import ListNotations RecordSetNotations.

Definition name := N.
Definition iid := N.
Definition tid := N.

Inductive cond := CCompleted | CSuccess | CHealthy | CLogReady | CStarted.
Inductive policy := PNo | PAlways | POnFailure | PExitOnFailure.
Inductive status := SDisabled | SForeground | SPending | SRunning | SLaunching | SLaunched
                  | SRestarting | STerminating | SCompleted | SSkipped | SError.
Inductive health := HUnknown | HReady | HNotReady.

Definition status_eqb (a b : status) : bool :=
  match a, b with
  | SDisabled, SDisabled | SForeground, SForeground | SPending, SPending | SRunning, SRunning
  | SLaunching, SLaunching | SLaunched, SLaunched | SRestarting, SRestarting
  | STerminating, STerminating | SCompleted, SCompleted | SSkipped, SSkipped | SError, SError => true
  | _, _ => false
  end.
Definition health_eqb (a b : health) : bool :=
  match a, b with HUnknown, HUnknown | HReady, HReady | HNotReady, HNotReady => true | _, _ => false end.
Definition cond_eqb (a b : cond) : bool :=
  match a, b with
  | CCompleted, CCompleted | CSuccess, CSuccess | CHealthy, CHealthy | CLogReady, CLogReady
  | CStarted, CStarted => true
  | _, _ => false
  end.

Record pconf := mkConf {
  deps : list (name * cond);
  pol : policy; maxr : nat; backoff : N;
  on_end : bool; on_skipped : bool;
  ready_probe : bool; ready_line : bool;
  bad_dir : bool; start_fail : bool; deferred : bool }.

(* the visible record types.ProcessState: ONE per replica name, shared by successive instances *)
Record vis := mkVis { st : status; code : Z; restarts : nat; hl : health }.
#[export] Instance eta_vis : Settable _ := settable! mkVis <st; code; restarts; hl>.

Inductive ipc :=
| IDeps (todo : list name)                      (* waitIfNeeded: dependencies not yet looked at *)
| IBlocked (k : name) (c : cond) (j : iid) (todo : list name)
| ISkipDecided
| IPreStart
| IPreLaunch
| IStateSet
| IAlive
| IExited (c : Z)
| ICodeWritten (c : Z)
| IWillRestart (c : Z)
| IRestarting (c : Z)
| IBackoff (c : Z)
| IEnding (s : status) (c : Z)                  (* about to call onProcessEnd(s) *)
| IInEnd (s : status) (c : Z) (stage : bool)    (* inside onProcessEnd, stage: state written *)
| IRunRet (c : option Z)                        (* run() returns a literal, or the shared exit code *)
| IDoneReg (c : Z)
| IProjEnd (c : Z) (skipped : bool)
| ITriggered (c : Z)
| ICodeSet
| ILeaving
| IWgDone
| IGone.

Record inst := mkInst {
  nm : name; cf : pconf; pc : ipc;
  l_done : bool; l_started : bool; l_runctx : bool; l_ready : bool; l_logready : option bool;
  f_stopped : bool;
  alive : bool;                (* an OS command of this instance exists *)
  exited : option Z;           (* exit code not yet collected by Wait() *)
  outp : bool;                 (* a matching ready line was written and not yet seen *)
  d_added : bool;              (* addDoneProcess(this instance) happened *)
  launches : nat }.
#[export] Instance eta_inst : Settable _ :=
  settable! mkInst <nm; cf; pc; l_done; l_started; l_runctx; l_ready; l_logready; f_stopped; alive; exited; outp; d_added; launches>.

Inductive apiop := OpRun | OpStart (n : name) | OpStop (n : name) | OpRestart (n : name) | OpShutdown.

Inductive apipc :=
| ANone
| ARun (todo : list name) | ARunWait | ARunDone (c : Z)
| AStart (n : name) | AStartSpawn (n : name) | AFail | AOk
| AStop (n : name) | AStopping (i : iid)
| ARestart (n : name) | ARestartStopping (n : name) (i : iid) | ARestartSpawn (n : name)
| AShutdown | AShutdownDone
| AReturned.

Inductive stoppc :=
| SIdle
| SReady (i : iid) (cancel : bool)      (* the context is about to call stopProcess(cancel) on i *)
| SEntered (i : iid) (cancel : bool)
| SRun (i : iid) (cancel : bool)        (* saw a running status, about to write Terminating *)
| SRunT (i : iid)                       (* Terminating written, latches released, about to signal *)
| SSig (i : iid)
| SPend (i : iid) | SPendE (i : iid) | SPendS (i : iid) | SPendDone (i : iid)
| SDone (i : iid).                      (* stopProcess returned *)

Inductive sdpc :=
| DNone | DCalled | DBegun
| DLoop (order rest : list iid)         (* unordered: sequential stops *)
| DWaitAll (order : list iid)
| DEnded.

(* a release that the code performs right after the parking TP the thread is parked at: it takes effect
   when the scheduler resumes the thread (EResume), before anything the thread logs next *)
Inductive release := RStarted (i : iid) | REndEarly (i : iid) | RRunCtx (i : iid) | RWgDone | RUnlock
                   | RCodeOnce (c : Z).   (* exitCodeOnce.Do directly follows the exit_trigger TP *)

(* progress of getDoneOrRunningProcess(k) in a thread: done registry, (miss) running registry, (miss) done
   registry again; each lookup is logged inside its critical section *)
Inductive lookup_st :=
| LNone
| LDone1 (k : name) (r : option iid)
| LMid (k : name)
| LReg (k : name) (r : option iid)
| LDone2 (k : name) (r : option iid).

Record thread := mkThread { apc : apipc; spc : stoppc; dpc : sdpc; pend : option release;
                            last_reg : option (name * option iid);    (* last getRunningProcess result *)
                            lk : lookup_st }.
#[export] Instance eta_thread : Settable _ := settable! mkThread <apc; spc; dpc; pend; last_reg; lk>.
Definition thread0 := mkThread ANone SIdle DNone None None LNone.

Record sys := mkSys {
  confs : amap pconf;
  ordered : bool;
  viss : amap vis;
  insts : amap inst;
  running : amap iid;
  donereg : amap iid;
  reg_lock : option tid;
  sd_active : option (tid * list iid);
  wg : nat;
  proj_code : Z;
  code_set : bool;              (* exitCodeOnce already used *)
  thinst : amap iid;
  threads : amap thread;
  run_called : bool;
  (* runProcess, in program order and on one thread: NewProcess (0), status := Pending (1), addRunningProcess (2),
     waitGroup.Add + go (3); the entry disappears when the goroutine begins *)
  stage : amap (tid * nat) }.
#[export] Instance eta_sys : Settable _ :=
  settable! mkSys <confs; ordered; viss; insts; running; donereg; reg_lock; sd_active; wg; proj_code; code_set; thinst; threads; run_called; stage>.

Definition init_vis (c : pconf) : vis := mkVis (if deferred c then SDisabled else SPending) 0 0 HUnknown.

Definition init (cs : amap pconf) (ord : bool) : sys :=
  mkSys cs ord (map (fun p => (fst p, init_vis (snd p))) cs) [] [] [] None None 0 0 false [] [] false [].

Inductive event :=
| ENewInst (i : iid) (n : name)      (* NewProcess(...) in runProcess *)
| ERegAdd (i : iid) (n : name)       (* logged inside the registry critical sections *)
| ERegDel (i : iid)
| ERegGet (n : name) (found : option iid)
| EDoneAdd (i : iid)
| EDoneGet (n : name) (found : option iid)
| ESpawn (i : iid) (n : name)
| EBegin (i : iid)
| EDepWait (k : name) (found : option iid)
| EDepDone (k : name) (ok : bool)
| ESkip
| ERunChecked (term : bool)
| EStarted
| EState (i : iid) (s : status)
| ELaunch (ok : bool)
| EWaitReturn (c : Z)
| EExitCode (c : Z)
| ELookupMid (k : name)
| EResume
| ERestartDecision (b : bool)
| EBackoffWait (secs : N)
| EBackoffElapsed
| EBackoffCancelled
| EProcEnd (i : iid) (s : status)
| EProcEnded (i : iid) (s : status)
| ERunReturned (c : Z)
| EInstDone
| EExitTrigger (c : Z)
| EExitCodeSet (c : Z)
| EInstExit
| EWgDone
| EInstGone
| ENoRestart (i : iid)
| EStopEnter (i : iid) (cancel : bool)
| EStopRunning (i : iid)
| EStopPending (i : iid)
| ESignal (i : iid) (sig : Z) (ponly : bool)
| EStopReturn (i : iid)
| EApiBegin (op : apiop)
| EStartChecked (n : name) (found : bool)
| EStopChecked (n : name) (found : option iid)
| ERestartChecked (n : name) (found : option iid)
| ERestartStopped (n : name)
| EApiReturn (ok : bool)
| ERunSpawned
| ERunReturn (c : Z)
| EShutdownCall
| EShutdownBegin
| EShutdownOrder (order : list iid)
| EOrderedGo (i : iid)
| EShutdownEnd
| EShutdownUnlocked
| ECmdExit (i : iid) (c : Z)
| EOutLine (i : iid) (ready : bool)
| ELogReady (i : iid)
| EProbe (i : iid) (ok fatal : bool).

(* ---- helpers ------------------------------------------------------------------------------------ *)
Definition guard (b : bool) : option unit := if b then Some tt else None.
Notation "'do' x <- e ; f" := (match e with Some x => f | None => None end)
  (at level 200, x pattern, e at level 100, f at level 200, right associativity).
Notation "'check' b ; f" := (if b then f else None)
  (at level 200, b at level 100, f at level 200, right associativity).

Definition opt_eqb {A} (eqb : A -> A -> bool) (a b : option A) : bool :=
  match a, b with Some x, Some y => eqb x y | None, None => true | _, _ => false end.

Definition is_running_status (s : status) : bool :=
  match s with SRunning | SLaunched | SLaunching => true | _ => false end.

Definition get_thread (s : sys) (th : tid) : thread :=
  match get th (threads s) with Some t => t | None => thread0 end.
Definition set_thread (th : tid) (t : thread) (s : sys) : sys := s <| threads := set th t (threads s) |>.
Definition upd_inst (i : iid) (f : inst -> inst) (s : sys) : sys :=
  match get i (insts s) with
  | Some x => s <| insts := set i (f x) (insts s) |>
  | None => s
  end.
Definition upd_vis (n : name) (f : vis -> vis) (s : sys) : sys :=
  match get n (viss s) with
  | Some v => s <| viss := set n (f v) (viss s) |>
  | None => s
  end.
Definition vis_of (s : sys) (n : name) : vis :=
  match get n (viss s) with Some v => v | None => mkVis SPending 0 0 HUnknown end.

(* getDoneOrRunningProcess *)
Definition lookup (s : sys) (k : name) : option iid :=
  match get k (donereg s) with Some j => Some j | None => get k (running s) end.

Definition name_opt_eqb (a b : option (name * option iid)) : bool :=
  opt_eqb (fun p q => N.eqb (fst p) (fst q) && opt_eqb N.eqb (snd p) (snd q)) a b.

(* what getDoneOrRunningProcess(k) returned to this thread, from its recorded lookups:
   done registry; if that missed: running registry; if that missed too: done registry again (the last
   done lookup is the one recorded) *)
Definition thread_lookup (t : thread) (k : name) : option (option iid) :=
  match lk t with
  | LDone1 k1 (Some j) => if N.eqb k1 k then Some (Some j) else None
  | LReg k1 (Some j) => if N.eqb k1 k then Some (Some j) else None
  | LDone2 k1 r => if N.eqb k1 k then Some r else None
  | _ => None
  end.
Definition thread_reg (t : thread) (k : name) : option (option iid) :=
  match last_reg t with Some (k2, r) => if N.eqb k2 k then Some r else None | None => None end.
Definition thread_reg_some (t : thread) (k : name) : option iid :=
  match thread_reg t k with Some r => r | None => None end.

Definition dep_cond (c : pconf) (k : name) : option cond :=
  match find (fun p => N.eqb (fst p) k) (deps c) with Some p => Some (snd p) | None => None end.

(* is the latch that condition c waits on released for instance j *)
Definition latch_released (c : cond) (j : inst) : bool :=
  match c with
  | CCompleted | CSuccess => l_done j
  | CHealthy => l_ready j
  | CLogReady => match l_logready j with Some _ => true | None => false end
  | CStarted => l_started j || l_runctx j
  end.

(* what the waiting code then reports *)
Definition wait_result (s : sys) (c : cond) (j : inst) : bool :=
  match c with
  | CCompleted | CStarted => true
  | CSuccess => (code (vis_of s (nm j)) =? 0)%Z
  | CHealthy => health_eqb (hl (vis_of s (nm j))) HReady
  | CLogReady => match l_logready j with Some true => true | _ => false end
  end.

(* isRestartable, process.go:284-316 *)
Definition restart_ok (stopped : bool) (p : policy) (c : Z) (maxr restarts : nat) : bool :=
  negb stopped &&
  match p with
  | PNo => false
  | PExitOnFailure => false
  | POnFailure => negb (c =? 0)%Z && (Nat.eqb maxr 0 || Nat.ltb restarts maxr)
  | PAlways => Nat.eqb maxr 0 || Nat.ltb restarts maxr
  end.

Definition is_trigger (c : pconf) (code : Z) (skipped : bool) : bool :=
  if skipped then on_skipped c
  else (negb (code =? 0)%Z && match pol c with PExitOnFailure => true | _ => false end) || on_end c.

(* onStateChange *)
Definition write_status (n : name) (s0 : status) (s : sys) : sys :=
  upd_vis n (fun v =>
    let v := v <| st := s0 |> in
    match s0 with
    | SSkipped | SError => v <| code := 1%Z |>
    | SRestarting | SLaunching | STerminating => v <| hl := HUnknown |>
    | _ => v
    end) s.

(* onProcessEnd: latches released before the status write ... *)
Definition end_release_early (i : iid) (s : sys) : sys :=
  upd_inst i (fun x => x <| l_ready := true |> <| l_runctx := true |>
                         <| l_logready := match l_logready x with None => Some false | o => o end |>) s.
(* ... and the status write followed by done := true *)
Definition end_finish (i : iid) (n : name) (s0 : status) (s : sys) : sys :=
  upd_inst i (fun x => x <| l_done := true |>) (write_status n s0 s).

Definition lock_free (s : sys) : bool := match reg_lock s with None => true | Some _ => false end.

Definition own_inst (s : sys) (th : tid) : option (iid * inst) :=
  do i <- get th (thinst s); do x <- get i (insts s); Some (i, x).

Definition set_pc (i : iid) (p : ipc) (s : sys) : sys := upd_inst i (fun x => x <| pc := p |>) s.

Definition at_stage (s : sys) (th : tid) (i : iid) (k : nat) : bool :=
  match get i (stage s) with Some (th', k') => N.eqb th th' && Nat.eqb k k' | None => false end.
Definition set_stage (th : tid) (i : iid) (k : nat) (s : sys) : sys := s <| stage := set i (th, k) (stage s) |>.
(* which process a thread is about to create: Run()'s spawn loop, StartProcess, RestartProcess *)
Definition creates (t : thread) (n : name) : bool :=
  match apc t with
  | ARun todo => memN n todo
  | AStartSpawn n' | ARestartSpawn n' => N.eqb n n'
  | _ => false
  end.

Definition new_inst (n : name) (c : pconf) : inst :=
  mkInst n c (IDeps (map fst (deps c))) false false false false None false false None false false 0.

Definition all_done (s : sys) (l : list iid) : bool :=
  forallb (fun i => match get i (insts s) with Some x => l_done x | None => false end) l.

(* registered dependents of i among [order]: instances whose configuration depends on i's name *)
Definition dependents_done (s : sys) (order : list iid) (i : iid) : bool :=
  match get i (insts s) with
  | None => false
  | Some x =>
      forallb (fun j => match get j (insts s) with
                        | Some y => if memN (nm x) (map fst (deps (cf y))) then l_done y else true
                        | None => true
                        end) order
  end.

Fixpoint same_members (l1 l2 : list N) : bool :=
  match l1 with
  | [] => match l2 with [] => true | _ => false end
  | a :: r => memN a l2 && same_members r (removeN a l2)
  end.

(* spawn: runProcess created and registered the instance (ERegAdd); waitGroup.Add(1) precedes the TP *)
Definition do_spawn (th : tid) (i : iid) (n : name) (s : sys) : option sys :=
  do x <- get i (insts s);
  check N.eqb (nm x) n;
  check (match pc x with IDeps _ => true | _ => false end) && negb (has i (map (fun p => (snd p, tt)) (thinst s)));
  (* the goroutine is started once, by the thread that created and registered the instance *)
  check at_stage s th i 2;
  Some (set_stage th i 3 (s <| wg := S (wg s) |>)).

(* registry operations, logged while the registry mutex is held *)
Definition step_reg (s : sys) (th : tid) (e : event) : option sys :=
  let t := get_thread s th in
  match e with
  | ENewInst i n =>
      do c <- get n (confs s);
      check negb (has i (insts s));
      check creates t n;
      (* runProcess creates ONE instance and spawns it before it creates another *)
      check forallb (fun p => negb (N.eqb (fst (snd p)) th && Nat.ltb (snd (snd p)) 3)) (stage s);
      Some (set_stage th i 0 (s <| insts := set i (new_inst n c) (insts s) |>))
  | ERegAdd i n =>
      do x <- get i (insts s);
      check lock_free s && N.eqb (nm x) n && (match pc x with IDeps _ => true | _ => false end);
      check at_stage s th i 1;
      Some (set_stage th i 2 (s <| running := set n i (running s) |>))
  | ERegDel i =>
      do x <- get i (insts s);
      check lock_free s && opt_eqb N.eqb (get (nm x) (running s)) (Some i);
      check opt_eqb N.eqb (get th (thinst s)) (Some i) && (match pc x with IWgDone => true | _ => false end);
      Some (s <| running := del (nm x) (running s) |>)
  | ERegGet n found =>
      check lock_free s && opt_eqb N.eqb found (get n (running s));
      Some (set_thread th (t <| last_reg := Some (n, found) |>
                             <| lk := match lk t with LMid k => if N.eqb k n then LReg n found else LNone | _ => LNone end |>) s)
  | EDoneAdd i =>
      do x <- get i (insts s);
      check opt_eqb N.eqb (get th (thinst s)) (Some i);
      check (match pc x with IDoneReg _ | IProjEnd _ true => true | _ => false end);
      Some (upd_inst i (fun x => x <| d_added := true |>) (s <| donereg := set (nm x) i (donereg s) |>))
  | EDoneGet n found =>
      check opt_eqb N.eqb found (get n (donereg s));
      Some (set_thread th (t <| lk := match lk t with
                                      | LReg k None => if N.eqb k n then LDone2 n found else LDone1 n found
                                      | _ => LDone1 n found
                                      end |>) s)
  | _ => None
  end.

(* ---- the stop execution (process.go:377-406), run by thread th on instance i ---------------------- *)
Definition step_stop (s : sys) (th : tid) (e : event) : option sys :=
  let t := get_thread s th in
  match e with
  | EStopEnter i cancel =>
      do x <- get i (insts s);
      let ctx_ok :=
        match spc t with
        | SReady i' c' => N.eqb i i' && Bool.eqb cancel c'
        | SIdle => match dpc t with
                   | DLoop _ (i' :: _) => N.eqb i i' && cancel
                   | _ => false
                   end
        | _ => false
        end in
      check ctx_ok;
      (* runCancelFn() directly follows the TP *)
      (* ... only for an external stop: an internal stop (readiness failure) leaves the run context alive *)
      Some (set_thread th (t <| spc := SEntered i cancel |> <| pend := if cancel then Some (RRunCtx i) else None |>) s)
  | EStopRunning i =>
      do x <- get i (insts s);
      match spc t with
      | SEntered i' c =>
          check N.eqb i i';
          check is_running_status (st (vis_of s (nm x)));
          Some (set_thread th (t <| spc := SRun i c |>) s)
      | _ => None
      end
  | EStopPending i =>
      do x <- get i (insts s);
      match spc t with
      | SEntered i' c =>
          check N.eqb i i';
          check status_eqb (st (vis_of s (nm x))) SPending;
          Some (set_thread th (t <| spc := SPend i |>) s)
      | _ => None
      end
  | ESignal i sig ponly =>
      match spc t with
      | SRunT i' => check N.eqb i i'; Some (set_thread th (t <| spc := SSig i |>) s)
      | _ => None
      end
  | EStopReturn i =>
      do x <- get i (insts s);
      let fin (s : sys) :=
        match dpc t with
        | DLoop order (i' :: rest) =>
            if N.eqb i i' then set_thread th (t <| spc := SIdle |> <| dpc := DLoop order rest |>) s
            else set_thread th (t <| spc := SDone i |>) s
        | _ => set_thread th (t <| spc := SDone i |>) s
        end in
      match spc t with
      | SEntered i' c =>
          check N.eqb i i';
          let stt := st (vis_of s (nm x)) in
          check negb (is_running_status stt) && negb (status_eqb stt SPending);
          Some (fin s)
      | SSig i' => check N.eqb i i'; Some (fin s)
      | SPendDone i' => check N.eqb i i'; Some (fin s)
      | _ => None
      end
  | _ => None
  end.

(* ---- status writes and onProcessEnd, by whichever thread ------------------------------------------ *)
Definition step_state (s : sys) (th : tid) (i : iid) (s0 : status) : option sys :=
  do x <- get i (insts s);
  let t := get_thread s th in
  let own := opt_eqb N.eqb (get th (thinst s)) (Some i) in
  match spc t with
  | SRun i' c =>
      (* stopProcess: setState(Terminating); stopProbes; release readiness latches when cancel *)
      check N.eqb i i' && status_eqb s0 STerminating;
      let s := write_status (nm x) STerminating s in
      let s := if c then upd_inst i (fun x => x <| l_ready := if ready_probe (cf x) then true else l_ready x |>
                                                  <| l_logready := match l_logready x with None => Some false | o => o end |>) s
               else s in
      Some (set_thread th (t <| spc := SRunT i |>) s)
  | SPendE i' =>
      check N.eqb i i' && status_eqb s0 STerminating;
      Some (set_thread th (t <| spc := SPendS i |>) (end_finish i (nm x) STerminating s))
  | _ =>
      if status_eqb s0 SPending then
        (* runProcess: the new instance starts as Pending (before it is registered and started) *)
        check negb own && negb (has i (map (fun p => (snd p, tt)) (thinst s)))
              && (match pc x with IDeps _ => true | _ => false end);
        check at_stage s th i 0;
        Some (set_stage th i 1 (write_status (nm x) SPending s))
      else
      check own;
      match pc x with
      | IPreLaunch => check status_eqb s0 SRunning; Some (set_pc i IStateSet (write_status (nm x) SRunning s))
      | IWillRestart c => check status_eqb s0 SRestarting;
                          Some (set_pc i (IRestarting c) (write_status (nm x) SRestarting s))
      | IInEnd s1 c false => check status_eqb s0 s1; Some (set_pc i (IInEnd s1 c true) (end_finish i (nm x) s1 s))
      | _ => None
      end
  end.

Definition step_procend (s : sys) (th : tid) (i : iid) (s0 : status) (entry : bool) : option sys :=
  do x <- get i (insts s);
  let t := get_thread s th in
  let own := opt_eqb N.eqb (get th (thinst s)) (Some i) in
  if entry then
    match spc t with
    | SPend i' => check N.eqb i i' && status_eqb s0 STerminating;
                  Some (set_thread th (t <| spc := SPendE i |> <| pend := Some (REndEarly i) |>) s)
    | _ => check own;
           match pc x with
           | IEnding s1 c => check status_eqb s0 s1;
                             Some (set_thread th (t <| pend := Some (REndEarly i) |>) (set_pc i (IInEnd s1 c false) s))
           | _ => None
           end
    end
  else
    match spc t with
    | SPendS i' => check N.eqb i i' && status_eqb s0 STerminating;
                   Some (set_thread th (t <| spc := SPendDone i |>) s)
    | _ => check own;
           match pc x with
           | IInEnd s1 c true =>
               check status_eqb s0 s1;
               Some (set_pc i (match s1 with
                               | SSkipped => IProjEnd c true
                               | SError => IRunRet (Some 1%Z)
                               | _ => IRunRet None
                               end) s)
           | _ => None
           end
    end.

(* ---- events of an instance's own goroutine --------------------------------------------------------- *)
Definition step_own (s : sys) (th : tid) (e : event) : option sys :=
  do ix <- own_inst s th;
  let '(i, x) := ix in
  let n := nm x in
  match e, pc x with
  | EDepWait k found, IDeps todo =>
      check memN k todo;
      do c <- dep_cond (cf x) k;
      (* the two registry lookups were logged (and checked) inside their critical sections *)
      check opt_eqb (opt_eqb N.eqb) (Some found) (thread_lookup (get_thread s th) k);
      Some (set_pc i (match found with
                      | None => IDeps (removeN k todo)
                      | Some j => IBlocked k c j (removeN k todo)
                      end) s)
  | EDepDone k ok, IBlocked k' c j todo =>
      check N.eqb k k';
      do y <- get j (insts s);
      check latch_released c y;
      check Bool.eqb ok (wait_result s c y);
      Some (set_pc i (if ok then IDeps todo else ISkipDecided) s)
  | ESkip, ISkipDecided => Some (set_pc i (IEnding SSkipped 1) s)
  | ERunChecked term, IDeps [] =>
      (* the instance was stopped while pending (its run context is cancelled), or the shared status says Terminating *)
      check Bool.eqb term (l_runctx x || status_eqb (st (vis_of s n)) STerminating);
      Some (set_pc i (if term then IRunRet (Some 0%Z)
                      else if bad_dir (cf x) then IEnding SError 1 else IPreStart) s)
  | EStarted, IPreStart =>
      Some (set_thread th (get_thread s th <| pend := Some (RStarted i) |>) (set_pc i IPreLaunch s))
  | ELaunch ok, IStateSet =>
      check Bool.eqb ok (negb (start_fail (cf x)));
      Some (upd_inst i (fun x => if ok then x <| alive := true |> <| launches := S (launches x) |> <| pc := IAlive |>
                                 else x <| pc := IEnding SError 1 |>) s)
  | EWaitReturn c, IAlive =>
      check opt_eqb Z.eqb (exited x) (Some c);
      Some (upd_inst i (fun x => x <| exited := None |> <| pc := IExited c |>) s)
  | EExitCode c', IExited c =>
      (* p.setExitCode(p.command.ExitCode()) *)
      check Z.eqb c c';
      Some (set_pc i (ICodeWritten c) (upd_vis n (fun v => v <| code := c |>) s))
  | ELookupMid k, IDeps todo =>
      check memN k todo;
      check (match lk (get_thread s th) with LDone1 k1 None => N.eqb k1 k | _ => false end);
      Some (set_thread th (get_thread s th <| lk := LMid k |>) s)
  | ERestartDecision b, ICodeWritten c =>
      check Bool.eqb b (restart_ok (f_stopped x) (pol (cf x)) c (maxr (cf x)) (restarts (vis_of s n)));
      Some (upd_inst i (fun x => x <| f_stopped := false |>
                                   <| pc := if b then IWillRestart c else IEnding SCompleted c |>) s)
  | EBackoffWait secs, IRestarting c =>
      check N.eqb secs (N.max 1 (backoff (cf x)));
      Some (set_pc i (IBackoff c) (upd_vis n (fun v => v <| restarts := S (restarts v) |>) s))
  | EBackoffElapsed, IBackoff c => Some (set_pc i IPreLaunch s)
  | EBackoffCancelled, IBackoff c => check l_runctx x; Some (set_pc i (IEnding SCompleted c) s)
  | ERunReturned c, IRunRet c' =>
      (* return p.getExitCode(): the exit code shared by all instances of the name *)
      check Z.eqb c (match c' with Some l => l | None => code (vis_of s n) end);
      Some (set_pc i (IDoneReg c) s)
  | EInstDone, IDoneReg c =>
      check d_added x;
      Some (set_pc i (IProjEnd c false) s)
  | EExitTrigger c, IProjEnd c' sk =>
      check Z.eqb c c' && is_trigger (cf x) c' sk && d_added x;
      (* exitCodeOnce.Do: only the first trigger stores its code *)
      Some (set_thread th (get_thread s th <| pend := Some (RCodeOnce c) |>) (set_pc i (ITriggered c) s))
  | EExitCodeSet c, ITriggered c' =>
      check Z.eqb c (proj_code s);
      check (match dpc (get_thread s th) with DNone => true | _ => false end);
      Some (set_pc i ILeaving s)
  | EInstExit, IProjEnd c sk =>
      check negb (is_trigger (cf x) c sk) && d_added x;
      (* waitGroup.Done() directly follows the TP *)
      Some (set_thread th (get_thread s th <| pend := Some RWgDone |>) (set_pc i IWgDone s))
  | EInstExit, ILeaving => Some (set_thread th (get_thread s th <| pend := Some RWgDone |>) (set_pc i IWgDone s))
  | EWgDone, IWgDone => Some s
  | EInstGone, IWgDone =>
      (* removeRunningProcess ran (ERegDel logged iff the entry was this instance) *)
      check negb (opt_eqb N.eqb (get n (running s)) (Some i));
      Some (set_pc i IGone s)
  | _, _ => None
  end.

(* ---- API calls and the shutdown procedure ---------------------------------------------------------- *)
Definition runnable_names (s : sys) : list name := map fst (filter (fun p => negb (deferred (snd p))) (confs s)).

Definition step_api (s : sys) (th : tid) (e : event) : option sys :=
  let t := get_thread s th in
  let setapc a s := set_thread th (get_thread s th <| apc := a |>) s in
  match e, apc t with
  | EApiBegin op, ANone =>
      check negb (has th (thinst s));
      match op with
      | OpRun => check negb (run_called s);
                 Some (setapc (ARun (runnable_names s)) (s <| run_called := true |>))
      | OpStart n => Some (setapc (AStart n) s)
      | OpStop n => Some (setapc (AStop n) s)
      | OpRestart n => Some (setapc (ARestart n) s)
      | OpShutdown => Some (setapc AShutdown s)
      end
  | ESpawn i n, ARun todo =>
      check memN n todo;
      do s' <- do_spawn th i n s; Some (setapc (ARun (removeN n todo)) s')
  | ERunSpawned, ARun [] => Some (setapc ARunWait s)
  | ERunReturn c, ARunWait =>
      check Nat.eqb (wg s) 0 && Z.eqb c (proj_code s);
      Some (setapc (ARunDone c) s)
  | EApiReturn ok, ARunDone c => check Bool.eqb ok (c =? 0)%Z; Some (setapc AReturned s)
  | EStartChecked n found, AStart n' =>
      check N.eqb n n' && (match thread_reg t n with Some (Some _) => found | Some None => negb found | None => false end);
      Some (setapc (if found then AFail else if has n (confs s) then AStartSpawn n else AFail) s)
  | ESpawn i n, AStartSpawn n' => check N.eqb n n'; do s' <- do_spawn th i n s; Some (setapc AOk s')
  | ESpawn i n, ARestartSpawn n' => check N.eqb n n'; do s' <- do_spawn th i n s; Some (setapc AOk s')
  | EApiReturn ok, AFail => check negb ok; Some (setapc AReturned s)
  | EApiReturn ok, AOk => check ok; Some (setapc AReturned s)
  | EStopChecked n found, AStop n' =>
      check N.eqb n n' && opt_eqb (opt_eqb N.eqb) (thread_reg t n) (Some found);
      Some (setapc (match found with Some i => AStopping i | None => AFail end) s)
  | ENoRestart i, AStopping i' =>
      check N.eqb i i' && (match spc t with SIdle => true | _ => false end);
      Some (set_thread th (t <| spc := SReady i true |>) (upd_inst i (fun x => x <| f_stopped := true |>) s))
  | EApiReturn ok, AStopping i =>
      check ok && (match spc t with SDone i' => N.eqb i i' | _ => false end);
      Some (set_thread th (t <| apc := AReturned |> <| spc := SIdle |>) s)
  | ERestartChecked n found, ARestart n' =>
      check N.eqb n n' && opt_eqb (opt_eqb N.eqb) (thread_reg t n) (Some found);
      Some (setapc (match found with
                    | Some i => ARestartStopping n i
                    | None => if has n (confs s) then ARestartSpawn n else AFail
                    end) s)
  | ENoRestart i, ARestartStopping n i' =>
      check N.eqb i i' && (match spc t with SIdle => true | _ => false end);
      Some (set_thread th (t <| spc := SReady i true |>) (upd_inst i (fun x => x <| f_stopped := true |>) s))
  | ERestartStopped n, ARestartStopping n' i =>
      (* after the stop: waitForCompletion of the old instance, then the back-off sleep *)
      do x <- get i (insts s);
      check N.eqb n n' && (match spc t with SDone i' => N.eqb i i' | _ => false end) && l_done x;
      Some (set_thread th (t <| apc := (if has n (confs s) then ARestartSpawn n else AFail) |> <| spc := SIdle |>) s)
  | EApiReturn ok, AShutdownDone => check ok; Some (setapc AReturned s)
  | _, _ => None
  end.

Definition step_shutdown (s : sys) (th : tid) (e : event) : option sys :=
  let t := get_thread s th in
  match e, dpc t with
  | EShutdownCall, DNone =>
      let ctx_ok :=
        match apc t with
        | AShutdown => true
        | _ => match own_inst s th with
               | Some (_, x) => match pc x with ITriggered _ => true | _ => false end
               | None => false
               end
        end in
      check ctx_ok; Some (set_thread th (t <| dpc := DCalled |>) s)
  | EShutdownBegin, DCalled =>
      check lock_free s;
      Some (set_thread th (t <| dpc := DBegun |>) (s <| reg_lock := Some th |>))
  | EShutdownOrder order, DBegun =>
      check same_members order (map snd (running s));
      (* prepareForShutDown on every process of the order *)
      let s := fold_left (fun s i => upd_inst i (fun x => x <| f_stopped := true |>) s) order s in
      Some (set_thread th (t <| dpc := if ordered s then DWaitAll order else DLoop order order |>)
                       (s <| sd_active := Some (th, order) |>))
  | EShutdownEnd, DLoop order [] =>
      check all_done s order;
      Some (set_thread th (t <| dpc := DEnded |> <| pend := Some RUnlock |>) (s <| sd_active := None |>))
  | EShutdownEnd, DWaitAll order =>
      check all_done s order;
      Some (set_thread th (t <| dpc := DEnded |> <| pend := Some RUnlock |>) (s <| sd_active := None |>))
  | EShutdownUnlocked, DEnded =>
      Some (set_thread th (t <| dpc := DNone |> <| apc := match apc t with AShutdown => AShutdownDone | a => a end |>) s)
  | _, _ => None
  end.

(* ordered shutdown: one worker goroutine per process *)
Definition step_ordered_go (s : sys) (th : tid) (i : iid) : option sys :=
  let t := get_thread s th in
  match sd_active s with
  | Some (_, order) =>
      check memN i order && ordered s;
      check (match spc t, apc t, dpc t with SIdle, ANone, DNone => true | _, _, _ => false end);
      check negb (has th (thinst s));
      check dependents_done s order i;
      Some (set_thread th (t <| spc := SReady i true |>) s)
  | None => None
  end.

(* ---- environment ---------------------------------------------------------------------------------- *)
Definition step_env (s : sys) (th : tid) (e : event) : option sys :=
  match e with
  | ECmdExit i c =>
      do x <- get i (insts s);
      check alive x;
      Some (upd_inst i (fun x => x <| alive := false |> <| exited := Some c |>) s)
  | EOutLine i ready =>
      do x <- get i (insts s);
      check alive x;
      Some (if ready then upd_inst i (fun x => x <| outp := true |>) s else s)
  | ELogReady i =>
      do x <- get i (insts s);
      check outp x && ready_line (cf x) && health_eqb (hl (vis_of s (nm x))) HUnknown;
      Some (upd_inst i (fun x => x <| outp := false |>
                                   <| l_logready := match l_logready x with None => Some true | o => o end |>)
                     (upd_vis (nm x) (fun v => v <| hl := HReady |>) s))
  | EProbe i ok fatal =>
      do x <- get i (insts s);
      check ready_probe (cf x) && negb (has th (thinst s));
      check Nat.ltb 0 (launches x);
      let t := get_thread s th in
      check (match spc t, apc t, dpc t with SIdle, ANone, DNone => true | _, _, _ => false end);
      if fatal then
        Some (set_thread th (t <| spc := SReady i false |>) (upd_vis (nm x) (fun v => v <| hl := HNotReady |>) s))
      else if ok then
        Some (upd_inst i (fun x => x <| l_ready := true |>) (upd_vis (nm x) (fun v => v <| hl := HReady |>) s))
      else Some (upd_vis (nm x) (fun v => v <| hl := HNotReady |>) s)
  | _ => None
  end.

(* ---- the step function ------------------------------------------------------------------------------ *)
Definition apply_release (r : release) (s : sys) : sys :=
  match r with
  | RStarted i => upd_inst i (fun x => x <| l_started := true |>) s
  | REndEarly i => end_release_early i s
  | RRunCtx i => upd_inst i (fun x => x <| l_runctx := true |>) s
  | RWgDone => s <| wg := pred (wg s) |>
  | RUnlock => s <| reg_lock := None |>
  | RCodeOnce c => if code_set s then s else s <| proj_code := c |> <| code_set := true |>
  end.

(* the release a thread is parked in front of takes effect when it is resumed, at the latest before the
   next event of that thread *)
Definition flush (th : tid) (s : sys) : sys :=
  match get th (threads s) with
  | Some t => match pend t with
              | Some r => apply_release r (set_thread th (t <| pend := None |>) s)
              | None => s
              end
  | None => s
  end.

Definition step_core (s : sys) (th : tid) (e : event) : option sys :=
  match e with
  | EResume => Some s
  | EBegin i =>
      do x <- get i (insts s);
      check negb (has th (thinst s)) && negb (has th (threads s));
      check forallb (fun p => negb (N.eqb (snd p) i)) (thinst s);
      (* the goroutine that runProcess started for this instance *)
      check (match get i (stage s) with Some (_, 3) => true | _ => false end);
      Some (s <| thinst := set th i (thinst s) |> <| stage := del i (stage s) |>)
  | ENewInst _ _ | ERegAdd _ _ | ERegDel _ | ERegGet _ _ | EDoneAdd _ | EDoneGet _ _ => step_reg s th e
  | ESpawn _ _ | EApiBegin _ | EStartChecked _ _ | EStopChecked _ _ | ERestartChecked _ _ | ERestartStopped _
  | EApiReturn _ | ERunSpawned | ERunReturn _ | ENoRestart _ => step_api s th e
  | EStopEnter _ _ | EStopRunning _ | EStopPending _ | ESignal _ _ _ | EStopReturn _ => step_stop s th e
  | EState i s0 => step_state s th i s0
  | EProcEnd i s0 => step_procend s th i s0 true
  | EProcEnded i s0 => step_procend s th i s0 false
  | EShutdownCall | EShutdownBegin | EShutdownOrder _ | EShutdownEnd | EShutdownUnlocked => step_shutdown s th e
  | EOrderedGo i => step_ordered_go s th i
  | ECmdExit _ _ | EOutLine _ _ | ELogReady _ | EProbe _ _ _ => step_env s th e
  | _ => step_own s th e
  end.

Definition step (s : sys) (te : tid * event) : option sys :=
  step_core (flush (fst te) s) (fst te) (snd te).

Fixpoint accept (s : sys) (evs : list (tid * event)) : option sys :=
  match evs with
  | [] => Some s
  | e :: r => do s' <- step s e; accept s' r
  end.

(* number of events accepted before the first rejection (for diagnostics) *)
Fixpoint accept_prefix (s : sys) (evs : list (tid * event)) (n : nat) : nat * sys :=
  match evs with
  | [] => (n, s)
  | e :: r => match step s e with Some s' => accept_prefix s' r (S n) | None => (n, s) end
  end.
