(* Generic lemmas used by the C03 simulation proof (RelC03.v): a simulation theorem with a per-event
   detector, the observer step split into its core and the o_succ refresh, model-side frame facts. *)
From Coq Require Import List ZArith NArith Bool Lia.
From RecordUpdate Require Import RecordSet.
From PC.Base Require Import Assoc.
From PC.Sup Require Import Model Monitors Tactics Sim ObsFacts Effects RelCore.
Import ListNotations RecordSetNotations.

(* ---- simulation with sticky window flag W and a stateless detector [bad] ---------------------------- *)
Section XSim.
Context (cs : amap pconf) (ord : bool).
Context (R : sys -> obs -> Prop) (m : obs -> tid * event -> bool) (W : obs -> bool) (bad : obs -> tid * event -> bool).
Context (R0 : R (init cs ord) (obs0 cs)).
Context (Rstep : forall s o e s', R s o -> step s e = Some s' ->
                 W (obs_step cs o e) = false -> bad o e = false ->
                 R s' (obs_step cs o e) /\ m o e = true).
Context (Wmono : forall o e, W o = true -> W (obs_step cs o e) = true).

Fixpoint bad_run (o : obs) (evs : list (tid * event)) : bool :=
  match evs with
  | [] => false
  | e :: r => bad o e || bad_run (obs_step cs o e) r
  end.

Lemma W_fold_mono : forall l o1, W o1 = true -> W (fold_left (obs_step cs) l o1) = true.
Proof. induction l as [|a l IHl]; intros o1 H1; [exact H1|]. cbn. apply IHl. now apply Wmono. Qed.

Lemma xsim_run : forall evs s o k s', R s o -> accept s evs = Some s' ->
  W (fold_left (obs_step cs) evs o) = false -> bad_run o evs = false ->
  mon_run cs m o evs k = None.
Proof.
  induction evs as [|e evs IH]; intros s o k s' HR Hacc HW Hb; [reflexivity|].
  cbn in Hacc. destruct (step s e) as [s1|] eqn:Es; [|discriminate].
  cbn [mon_run fold_left bad_run] in *. apply orb_false_elim in Hb. destruct Hb as [Hb1 Hb2].
  assert (HW1 : W (obs_step cs o e) = false).
  { destruct (W (obs_step cs o e)) eqn:E; [|reflexivity]. rewrite (W_fold_mono evs _ E) in HW. discriminate. }
  destruct (Rstep s o e s1 HR Es HW1 Hb1) as [HR1 Hm].
  rewrite Hm. eapply IH; eauto.
Qed.

Theorem xsim_holds : forall evs s,
  accept (init cs ord) evs = Some s ->
  W (fold_left (obs_step cs) evs (obs0 cs)) = false ->
  bad_run (obs0 cs) evs = false ->
  holds cs (fun _ => m) evs = true.
Proof.
  intros evs s Hacc HW Hb. unfold holds. now rewrite (xsim_run evs _ _ 0 s R0 Hacc HW Hb).
Qed.
End XSim.

(* ---- the observer step without the final o_succ refresh -------------------------------------------- *)
Definition obs_pre (cs : amap pconf) (o : obs) (te : tid * event) : obs :=
  let '(th, e) := te in
    match e, ev_inst o th e with
    | ENewInst i n, _ =>
        let byapi := match get th (o_api o) with Some OpRun | None => false | Some _ => true end in
        let dup := existsb (fun y => N.eqb (o_nm y) n && negb (o_ended y)) (vals (oi o)) in
        (o <| oi := set i (mkOI n (o_cnt o) 0 false None None false false false false false false false 0 false false byapi false false false []) (oi o) |>
           <| w_dup := w_dup o || dup |>
           <| w_zombie := w_zombie o || existsb (fun y => N.eqb (o_nm y) n && o_ended y && negb (o_gone y)) (vals (oi o)) |>
           <| o_cnt := S (o_cnt o) |>
           <| o_after_sd_spawn := if Nat.ltb 0 (o_sd_done o) && byapi then i :: o_after_sd_spawn o else o_after_sd_spawn o |>)
    | EBegin i, _ => o <| o_th := set th i (o_th o) |>
    | ERegAdd i _, _ =>
        oi_upd i (fun x => x <| o_idx := if o_reg x then o_idx x else o_cnt o |> <| o_reg := true |>)
               (o <| o_cnt := S (o_cnt o) |>)
    | ERegGet n None, _ => o <| o_lk := set th (n, o_cnt o) (o_lk o) |>
    | EDepWait k found, Some i =>
        let b := match get th (o_lk o) with
                 | Some (k', b) => if N.eqb k' k then b else o_cnt o
                 | None => o_cnt o
                 end in
        oi_upd i (fun x => x <| o_waits := o_waits x ++ [(k, found, b)] |>) o
    | EApiBegin op, _ => o <| o_api := set th op (o_api o) |>
                           <| o_spawning := match op with OpRun => true | _ => o_spawning o end |>
    | ERunSpawned, _ => o <| o_spawning := false |>
    | EShutdownBegin, _ => o <| w_sdspawn := w_sdspawn o || o_spawning o |>
    | ERunChecked false, Some i =>
        (* the check passed although a stop had already been requested: same window *)
        oi_upd i (fun x => x <| o_commit := true |>) (note_late_commit o i)
    | EApiReturn _, _ => o <| o_api := del th (o_api o) |>
    | EStarted, Some i => oi_upd i (fun x => x <| o_started := true |>) o
    | EInstExit, Some i => oi_upd i (fun x => x <| o_gone := true |>) o
    | EState i s0, _ =>
        let n := o_nm (oi_get o i) in
        let o := if status_eqb s0 STerminating && terminal (r_status (on_get o n)) then o <| w_late := true |> else o in
        let o := on_upd n (fun r => let r := r <| r_status := s0 |> in
                                    match s0 with SSkipped | SError => r <| r_code := 1%Z |> | _ => r end) o in
        oi_upd i (fun x => if opt_eqb status_eqb (o_endst x) (Some s0) then x <| o_ended := true |> else x) o
    | ELaunch true, Some i => oi_upd i (fun x => x <| o_launches := S (o_launches x) |> <| o_alive := true |> <| o_elapsed := false |> <| o_commit := false |>) o
    | ELaunch false, Some i => oi_upd i (fun x => x <| o_commit := false |>) o
    | ECmdExit i c, _ => oi_upd i (fun x => x <| o_alive := false |> <| o_code := Some c |> <| o_sd_victim := o_insnap x |>) o
    | EExitCode c, Some i => on_upd (o_nm (oi_get o i)) (fun r => r <| r_code := c |>) o
    | EBackoffWait _, Some i => on_upd (o_nm (oi_get o i)) (fun r => r <| r_restarts := S (r_restarts r) |>) o
    | EBackoffElapsed, Some i =>
        oi_upd i (fun x => x <| o_elapsed := true |> <| o_commit := true |>) (note_late_commit o i)
    | EProcEnd i s0, _ =>
        (* onProcessEnd by the instance's own thread: it no longer launches *)
        let own := opt_eqb N.eqb (get th (o_th o)) (Some i) in
        oi_upd i (fun x => x <| o_endst := Some s0 |> <| o_commit := if own then false else o_commit x |>) o
    | EDepDone _ false, Some i => oi_upd i (fun x => x <| o_depfail := true |>) o
    | ENoRestart i, _ => oi_upd i (fun x => x <| o_stopreq := true |>) (o <| w_commit := w_commit o || o_commit (oi_get o i) |>)
    | EStopEnter i cancel, _ =>
        (* an internal stop (readiness probe failure, cancel = false) is not a stop request *)
        oi_upd i (fun x => x <| o_stopreq := o_stopreq x || cancel |>)
                             (o <| w_dup := w_dup o || stopping o i || existsb (fun p => N.eqb (snd p) i) (o_instop o) |>
                                <| o_instop := set th i (o_instop o) |>
                                <| w_commit := w_commit o || (cancel && o_commit (oi_get o i)) |> <| o_stopstage := set th true (o_stopstage o) |> <| o_stopinst := set th (Some i) (o_stopinst o) |>)
    | EStopRunning i, _ => o <| o_stopstage := set th false (o_stopstage o) |> <| o_stopinst := set th None (o_stopinst o) |>
    | EStopPending i, _ =>
        (* a stop that finds the instance Pending ends it, whether it is an external or an internal stop *)
        oi_upd i (fun x => x <| o_stopreq := true |>)
        (o <| o_stopstage := set th false (o_stopstage o) |> <| o_stopinst := set th None (o_stopinst o) |> <| w_commit := w_commit o || o_commit (oi_get o i) |>)
    | EStopReturn i, _ =>
        let direct := match get th (o_stopstage o) with Some true => true | _ => false end in
        let x := oi_get o i in
        let unfinished := match o_endst x with None => true | Some _ => false end in
        (o <| o_stopstage := del th (o_stopstage o) |> <| o_stopinst := set th None (o_stopinst o) |> <| o_instop := del th (o_instop o) |>
           <| w_commit := w_commit o || (direct && o_commit x) |>
           <| w_stale := w_stale o || (direct && unfinished && negb (o_commit x) && Nat.eqb (o_launches x) 0) |>)
    | ESignal i _ _, _ => oi_upd i (fun x => x <| o_sigs := S (o_sigs x) |>) o
    | EShutdownOrder order, _ =>
        let o := o <| w_commit := w_commit o || existsb (fun i => o_commit (oi_get o i)) order |> in
        let o := fold_left (fun o i => oi_upd i (fun x => x <| o_stopreq := true |> <| o_insnap := true |>) o) order o in
        let by_api := match get th (o_th o) with None => true | Some _ => false end in
        o <| o_sd_cur := set th order (o_sd_cur o) |>
          <| o_api_sd_first := o_api_sd_first o || (by_api && negb (o_code_fixed o)) |>
    | EShutdownEnd, _ =>
        let snap := match get th (o_sd_cur o) with Some l => l | None => [] end in
        o <| o_sd_done := S (o_sd_done o) |> <| o_sd_snap := snap ++ o_sd_snap o |> <| o_sd_cur := del th (o_sd_cur o) |>
          <| o_after_sd_spawn := [] |>
    | ELogReady i, _ =>
        on_upd (o_nm (oi_get o i)) (fun r => r <| r_ready := true |>) (oi_upd i (fun x => x <| o_logok := true |>) o)
    | EProbe i true false, _ => on_upd (o_nm (oi_get o i)) (fun r => r <| r_ready := true |>) o
    | EExitTrigger c, Some i => o <| o_triggers := o_triggers o ++ [(i, c, o_sd_victim (oi_get o i))] |>
                                  <| o_trig_th := th :: o_trig_th o |>
    | EResume, _ | EShutdownCall, _ | EExitCodeSet _, _ =>
        (* what a triggering goroutine logs next: exitCodeOnce.Do lies behind it *)
        o <| o_code_fixed := o_code_fixed o || memN th (o_trig_th o) |>
    | ERunReturn c, _ => o <| o_run_ret := Some c |>
    | _, _ => o
    end.

Lemma obs_step_pre cs o te : obs_step cs o te = refresh_succ (obs_pre cs o te).
Proof. destruct te as [th e]. reflexivity. Qed.

(* ---- tactics (the ones of RelCore.v are local to its section) -------------------------------------- *)
Ltac kind_cases H :=
  unfold_steps H; unfold own_inst in H; cbn [fst snd] in H; break_step H;
  repeat match goal with E : (match _ with _ => _ end) = Some _ |- _ => break_step E end;
  repeat match goal with E : _ = ?s' |- _ => is_var s'; subst s' end.

(* ---- observer-side projections through the helpers --------------------------------------------------- *)
Lemma oi_upd_proj {A} (P : obs -> A) i f o :
  (forall m, P (o <| oi := m |>) = P o) -> P (oi_upd i f o) = P o.
Proof. intros H. unfold oi_upd. destruct (get i (oi o)); [apply H|reflexivity]. Qed.
Lemma on_upd_proj {A} (P : obs -> A) n f o :
  (forall m, P (o <| onm := m |>) = P o) -> P (on_upd n f o) = P o.
Proof. intros H. unfold on_upd. destruct (get n (onm o)); [apply H|reflexivity]. Qed.

Lemma oi_upd_w_commit i f o : w_commit (oi_upd i f o) = w_commit o. Proof. now apply (oi_upd_proj w_commit). Qed.
Lemma oi_upd_w_sdlag i f o : w_sdlag (oi_upd i f o) = w_sdlag o. Proof. now apply (oi_upd_proj w_sdlag). Qed.
Lemma oi_upd_w_dup i f o : w_dup (oi_upd i f o) = w_dup o. Proof. now apply (oi_upd_proj w_dup). Qed.
Lemma oi_upd_w_zombie i f o : w_zombie (oi_upd i f o) = w_zombie o. Proof. now apply (oi_upd_proj w_zombie). Qed.
Lemma oi_upd_o_sd_cur i f o : o_sd_cur (oi_upd i f o) = o_sd_cur o. Proof. now apply (oi_upd_proj o_sd_cur). Qed.
Lemma oi_upd_o_sd_done i f o : o_sd_done (oi_upd i f o) = o_sd_done o. Proof. now apply (oi_upd_proj o_sd_done). Qed.
Lemma oi_upd_o_after i f o : o_after_sd_spawn (oi_upd i f o) = o_after_sd_spawn o. Proof. now apply (oi_upd_proj o_after_sd_spawn). Qed.
Lemma on_upd_w_commit i f o : w_commit (on_upd i f o) = w_commit o. Proof. now apply (on_upd_proj w_commit). Qed.
Lemma on_upd_w_sdlag i f o : w_sdlag (on_upd i f o) = w_sdlag o. Proof. now apply (on_upd_proj w_sdlag). Qed.
Lemma on_upd_w_dup i f o : w_dup (on_upd i f o) = w_dup o. Proof. now apply (on_upd_proj w_dup). Qed.
Lemma on_upd_w_zombie i f o : w_zombie (on_upd i f o) = w_zombie o. Proof. now apply (on_upd_proj w_zombie). Qed.
Lemma on_upd_o_sd_cur i f o : o_sd_cur (on_upd i f o) = o_sd_cur o. Proof. now apply (on_upd_proj o_sd_cur). Qed.
Lemma on_upd_o_sd_done i f o : o_sd_done (on_upd i f o) = o_sd_done o. Proof. now apply (on_upd_proj o_sd_done). Qed.
Lemma on_upd_o_after i f o : o_after_sd_spawn (on_upd i f o) = o_after_sd_spawn o. Proof. now apply (on_upd_proj o_after_sd_spawn). Qed.

#[export] Hint Rewrite oi_upd_w_commit oi_upd_w_sdlag oi_upd_w_dup oi_upd_w_zombie oi_upd_o_sd_cur oi_upd_o_sd_done oi_upd_o_after
  on_upd_w_commit on_upd_w_sdlag on_upd_w_dup on_upd_w_zombie on_upd_o_sd_cur on_upd_o_sd_done on_upd_o_after
  oi_upd_get on_upd_oi oi_upd_onm oi_upd_o_th on_upd_o_th on_upd_get : obsf.

Lemma oi_get_upd i f o j :
  oi_get (oi_upd i f o) j = if N.eqb i j then match get j (oi o) with Some x => f x | None => oi_get o j end else oi_get o j.
Proof.
  unfold oi_get at 1. rewrite oi_upd_get. destruct (N.eqb i j); [|reflexivity].
  unfold oi_get. destruct (get j (oi o)); reflexivity.
Qed.

Lemma fold_oi_upd_get (f : oinst -> oinst) l : forall o j,
  get j (oi (fold_left (fun o i => oi_upd i f o) l o)) =
  option_map (fun x => fold_left (fun x i => if N.eqb i j then f x else x) l x) (get j (oi o)).
Proof.
  induction l as [|a l IH]; intros o j; cbn.
  - destruct (get j (oi o)); reflexivity.
  - rewrite IH, oi_upd_get. destruct (N.eqb a j); destruct (get j (oi o)); reflexivity.
Qed.

(* ---- model side: fold of upd_inst (prepareForShutDown) ----------------------------------------------- *)
Lemma fold_upd_inst_get (f : inst -> inst) l : forall s j,
  get j (insts (fold_left (fun s i => upd_inst i f s) l s)) =
  option_map (fun x => fold_left (fun x i => if N.eqb i j then f x else x) l x) (get j (insts s)).
Proof.
  induction l as [|a l IH]; intros s j; cbn.
  - destruct (get j (insts s)); reflexivity.
  - rewrite IH, insts_upd_inst. destruct (N.eqb a j); destruct (get j (insts s)); reflexivity.
Qed.
Lemma fold_upd_inst_proj {A} (P : sys -> A) (f : inst -> inst) l :
  (forall i s, P (upd_inst i f s) = P s) -> forall s, P (fold_left (fun s i => upd_inst i f s) l s) = P s.
Proof. intros HP. induction l as [|a l IH]; intros s; cbn; [reflexivity|]. now rewrite IH, HP. Qed.

Lemma fold_fstop_fields l j (x : inst) :
  let x' := fold_left (fun x i => if N.eqb i j then x <| f_stopped := true |> else x) l x in
  nm x' = nm x /\ pc x' = pc x /\ alive x' = alive x /\ exited x' = exited x /\ l_done x' = l_done x /\ l_runctx x' = l_runctx x.
Proof.
  revert x. induction l as [|a l IH]; intros x; cbn; [repeat split|].
  destruct (N.eqb a j); [destruct (IH (x <| f_stopped := true |>)) as (?&?&?&?&?&?)|destruct (IH x) as (?&?&?&?&?&?)]; repeat split; assumption.
Qed.

Lemma get_in_vals {V} k (v : V) m : get k m = Some v -> In v (vals m).
Proof. intros H. apply get_in in H. unfold vals. now apply (in_map snd) in H. Qed.

(* ---- flush, precisely ----------------------------------------------------------------------------------- *)
Lemma flush_inst3 th s j :
  match get j (insts s) with
  | Some x => exists x', get j (insts (flush th s)) = Some x' /\ nm x' = nm x /\ pc x' = pc x /\ alive x' = alive x /\
                         exited x' = exited x /\ l_done x' = l_done x /\ (l_runctx x = true -> l_runctx x' = true) /\
                         (pend (get_thread s th) = Some (REndEarly j) -> l_runctx x' = true)
  | None => get j (insts (flush th s)) = None
  end.
Proof.
  unfold flush, get_thread. destruct (get th (threads s)) as [t|] eqn:Et.
  2:{ destruct (get j (insts s)) as [x|]; [exists x; repeat split; auto; discriminate|reflexivity]. }
  destruct (pend t) as [r|] eqn:Ep.
  2:{ destruct (get j (insts s)) as [x|]; [exists x; repeat split; auto; discriminate|reflexivity]. }
  destruct r; unfold apply_release, end_release_early; sup_simpl; cbn;
  try (destruct (code_set s); cbn);
  try (destruct (get j (insts s)) as [x|]; [exists x; repeat split; auto; discriminate|reflexivity]).
  all: destruct (N.eqb_spec i j); destruct (get j (insts s)) as [x|]; cbn; try reflexivity;
       try (eexists; split; [reflexivity|]; cbn; repeat split; auto; intros HH; injection HH; congruence).
Qed.

Lemma flush_viss2 th s : viss (flush th s) = viss s. Proof. apply flush_viss. Qed.

Lemma threads_flush th s th' :
  get th' (threads (flush th s)) =
  match get th (threads s) with
  | Some t => match pend t with
              | Some r => if N.eqb th th' then Some (t <| pend := None |>) else get th' (threads s)
              | None => get th' (threads s)
              end
  | None => get th' (threads s)
  end.
Proof.
  unfold flush. destruct (get th (threads s)) as [t|] eqn:Et; [|reflexivity].
  destruct (pend t) as [r|] eqn:Ep; [|reflexivity].
  destruct r; unfold apply_release, end_release_early; sup_simpl; try reflexivity; cbn; try (apply get_set). destruct (code_set s); cbn; apply get_set.
Qed.

Lemma flush_thread th s th' :
  let t := get_thread s th' in let t' := get_thread (flush th s) th' in
  apc t' = apc t /\ spc t' = spc t /\ dpc t' = dpc t /\ pend t' = if N.eqb th th' then None else pend t.
Proof.
  cbv zeta. unfold get_thread. rewrite threads_flush.
  destruct (get th (threads s)) as [t|] eqn:Et.
  - destruct (pend t) as [r|] eqn:Ep; destruct (N.eqb_spec th th'); subst; rewrite ?Et; cbn; auto.
  - destruct (N.eqb_spec th th'); subst; rewrite ?Et; cbn; auto.
Qed.

(* ---- frames for the fields the C03 relation looks at ------------------------------------------------------ *)
Definition icore_eq (x x' : inst) : Prop :=
  nm x' = nm x /\ pc x' = pc x /\ alive x' = alive x /\ exited x' = exited x /\ l_done x' = l_done x /\ l_runctx x' = l_runctx x.
Definition sys_csame (s s' : sys) : Prop :=
  (forall j, match get j (insts s) with
             | Some x => exists x', get j (insts s') = Some x' /\ icore_eq x x'
             | None => get j (insts s') = None end) /\
  (forall n, match get n (viss s) with
             | Some v => exists v', get n (viss s') = Some v' /\ st v' = st v
             | None => get n (viss s') = None end).

Lemma icore_eq_refl x : icore_eq x x. Proof. repeat split. Qed.
Lemma icore_eq_trans x y z : icore_eq x y -> icore_eq y z -> icore_eq x z.
Proof. unfold icore_eq. intuition congruence. Qed.

Lemma sys_csame_refl s : sys_csame s s.
Proof.
  split; intros k; [destruct (get k (insts s)) as [x|]|destruct (get k (viss s)) as [v|]]; eauto using icore_eq_refl.
Qed.
Lemma sys_csame_trans s1 s2 s3 : sys_csame s1 s2 -> sys_csame s2 s3 -> sys_csame s1 s3.
Proof.
  intros (C1 & D1) (C2 & D2). split.
  - intros j. specialize (C1 j). specialize (C2 j). destruct (get j (insts s1)) as [x|].
    + destruct C1 as (x2 & E2 & L2). rewrite E2 in C2. destruct C2 as (x3 & E3 & L3). exists x3. eauto using icore_eq_trans.
    + now rewrite C1 in C2.
  - intros n. specialize (D1 n). specialize (D2 n). destruct (get n (viss s1)) as [v|].
    + destruct D1 as (v2 & E2 & ?). rewrite E2 in D2. destruct D2 as (v3 & E3 & ?). exists v3. split; congruence.
    + now rewrite D1 in D2.
Qed.
Lemma sys_csame_eq s s' : insts s' = insts s -> viss s' = viss s -> sys_csame s s'.
Proof. intros C D. unfold sys_csame. rewrite C, D. apply sys_csame_refl. Qed.
Lemma sys_csame_upd_inst i f s : (forall x, icore_eq x (f x)) -> sys_csame s (upd_inst i f s).
Proof.
  intros Hf. split.
  - intros j. rewrite insts_upd_inst. destruct (N.eqb i j); destruct (get j (insts s)) as [x|]; cbn; eauto using icore_eq_refl.
  - intros n. rewrite upd_inst_viss. destruct (get n (viss s)) as [v|]; eauto.
Qed.
Lemma sys_csame_upd_vis n f s : (forall v, st (f v) = st v) -> sys_csame s (upd_vis n f s).
Proof.
  intros Hf. split.
  - intros j. rewrite upd_vis_insts. destruct (get j (insts s)) as [x|]; eauto using icore_eq_refl.
  - intros m. rewrite viss_upd_vis. destruct (N.eqb n m); destruct (get m (viss s)) as [v|]; cbn; eauto.
Qed.
Lemma sys_csame_fold_upd_inst (f : inst -> inst) l : (forall x, icore_eq x (f x)) ->
  forall s, sys_csame s (fold_left (fun s i => upd_inst i f s) l s).
Proof.
  intros Hf. induction l as [|a l IH]; intros s; cbn; [apply sys_csame_refl|].
  eapply sys_csame_trans; [apply (sys_csame_upd_inst a f s Hf)|apply IH].
Qed.

Ltac sys_csame_close :=
  unfold set_pc, end_release_early, end_finish;
  repeat first
  [ apply sys_csame_refl
  | match goal with
    | |- sys_csame ?s (upd_inst ?i ?f ?X) =>
        apply (sys_csame_trans s X); [|apply sys_csame_upd_inst; intros; cbn; repeat split; try reflexivity; destruct_matches; reflexivity]
    | |- sys_csame ?s (upd_vis ?n ?f ?X) =>
        apply (sys_csame_trans s X); [|apply sys_csame_upd_vis; intros; cbn; try reflexivity; destruct_matches; reflexivity]
    | |- sys_csame ?s (fold_left (fun s i => upd_inst i ?f s) ?l ?X) =>
        apply (sys_csame_trans s X); [|apply sys_csame_fold_upd_inst; intros; cbn; repeat split; reflexivity]
    | |- sys_csame ?s (set_thread ?th ?t ?X) =>
        apply (sys_csame_trans s X); [|apply sys_csame_eq; reflexivity]
    | |- sys_csame ?s (RecordSet.set _ _ ?X) =>
        apply (sys_csame_trans s X); [|apply sys_csame_eq; reflexivity]
    | |- sys_csame ?s (if ?b then _ else _) => destruct b
    | |- sys_csame ?s (match ?b with _ => _ end) => destruct b
    end ].

(* events that leave (nm, pc, alive, exited, l_done, l_runctx) of every instance, every reported status and
   (o_alive, o_commit, o_gone) of every observed instance alone *)
Definition frame_ev (e : event) : bool :=
  match e with
  | EResume | EBegin _ | ERegAdd _ _ | ERegDel _ | ERegGet _ _ | EDoneAdd _ | EDoneGet _ _
  | ESpawn _ _ | EApiBegin _ | EStartChecked _ _ | EStopChecked _ _ | ERestartChecked _ _ | ERestartStopped _
  | EApiReturn _ | ERunSpawned | ERunReturn _ | ENoRestart _
  | EStopEnter _ _ | EStopRunning _ | EStopPending _ | ESignal _ _ _ | EStopReturn _
  | EShutdownCall | EShutdownBegin | EShutdownOrder _ | EShutdownEnd | EShutdownUnlocked
  | EOrderedGo _ | EOutLine _ _ | ELogReady _ | EProbe _ _ _ => true
  | _ => false
  end.

Lemma step_core_csame s th e s' : frame_ev e = true -> step_core s th e = Some s' -> sys_csame s s'.
Proof.
  intros Hf H. unfold step_core in H. destruct e; try discriminate Hf; kind_cases H; sys_csame_close.
Qed.

(* ---- observer-side frame --------------------------------------------------------------------------------- *)
Definition ocore_eq (x x' : oinst) : Prop :=
  o_alive x' = o_alive x /\ o_commit x' = o_commit x /\ o_gone x' = o_gone x /\ (o_stopreq x = true -> o_stopreq x' = true).
Definition obs_csame (o o' : obs) : Prop :=
  forall j, match get j (oi o) with
            | Some x => exists x', get j (oi o') = Some x' /\ ocore_eq x x'
            | None => get j (oi o') = None end.
Lemma ocore_eq_refl x : ocore_eq x x. Proof. repeat split; auto. Qed.
Lemma obs_csame_refl o : obs_csame o o.
Proof. intros j. destruct (get j (oi o)); eauto using ocore_eq_refl. Qed.
Lemma obs_csame_trans o1 o2 o3 : obs_csame o1 o2 -> obs_csame o2 o3 -> obs_csame o1 o3.
Proof.
  intros B1 B2 j. specialize (B1 j). specialize (B2 j). destruct (get j (oi o1)) as [x|].
  - destruct B1 as (x2 & E2 & L2). rewrite E2 in B2. destruct B2 as (x3 & E3 & L3). exists x3. split; [exact E3|].
    unfold ocore_eq in *. intuition congruence.
  - now rewrite B1 in B2.
Qed.
Lemma obs_csame_eq o o' : oi o' = oi o -> obs_csame o o'.
Proof. intros B j. rewrite B. destruct (get j (oi o)); eauto using ocore_eq_refl. Qed.
Lemma obs_csame_oi_upd i f o : (forall x, ocore_eq x (f x)) -> obs_csame o (oi_upd i f o).
Proof.
  intros Hf j. rewrite oi_upd_get. destruct (N.eqb i j); destruct (get j (oi o)) as [x|]; cbn; eauto using ocore_eq_refl.
Qed.
Lemma obs_csame_on_upd n f o : obs_csame o (on_upd n f o).
Proof. apply obs_csame_eq, on_upd_oi. Qed.
Lemma obs_csame_fold_oi_upd (f : oinst -> oinst) l : (forall x, ocore_eq x (f x)) ->
  forall o, obs_csame o (fold_left (fun o i => oi_upd i f o) l o).
Proof.
  intros Hf. induction l as [|a l IH]; intros o; cbn; [apply obs_csame_refl|].
  eapply obs_csame_trans; [apply (obs_csame_oi_upd a f o Hf)|apply IH].
Qed.

Ltac obs_csame_close :=
  repeat first
  [ apply obs_csame_refl
  | match goal with
    | |- obs_csame ?o (oi_upd ?i ?f ?X) =>
        apply (obs_csame_trans o X); [|apply obs_csame_oi_upd; intros; cbn; repeat split; cbn; auto using orb_true_l]
    | |- obs_csame ?o (on_upd ?n ?f ?X) =>
        apply (obs_csame_trans o X); [|apply obs_csame_on_upd]
    | |- obs_csame ?o (fold_left (fun o i => oi_upd i ?f o) ?l ?X) =>
        apply (obs_csame_trans o X); [|apply obs_csame_fold_oi_upd; intros; cbn; repeat split; auto]
    | |- obs_csame ?o (RecordSet.set _ _ ?X) =>
        apply (obs_csame_trans o X); [|apply obs_csame_eq; reflexivity]
    end ].

Lemma obs_pre_csame cs o th e : frame_ev e = true -> obs_csame o (obs_pre cs o (th, e)).
Proof.
  intros Hf. unfold obs_pre.
  destruct e; try discriminate Hf; cbn [fst snd];
  try (destruct (ev_inst o th _) eqn:Ev);
  try match goal with |- context[match ?b with true => _ | false => _ end] => destruct b end;
  try discriminate Hf; unfold note_late_commit;
  repeat match goal with |- context[if ?b then _ else _] => destruct b end;
  try apply obs_csame_refl; obs_csame_close.
  intros ->. reflexivity.
Qed.

Lemma obs_pre_sd_frame cs o th e : frame_ev e = true -> e <> EShutdownEnd ->
  o_sd_done (obs_pre cs o (th, e)) = o_sd_done o /\ o_after_sd_spawn (obs_pre cs o (th, e)) = o_after_sd_spawn o.
Proof.
  intros Hf Hne. unfold obs_pre.
  destruct e; try discriminate Hf; try congruence; cbn [fst snd];
  try (destruct (ev_inst o th _) eqn:Ev);
  try match goal with |- context[match ?b with true => _ | false => _ end] => destruct b end;
  unfold note_late_commit;
  repeat match goal with |- context[if ?b then _ else _] => destruct b end;
  cbn; autorewrite with obsf; cbn; try (split; reflexivity).
  all: split; [fold_proj o_sd_done|fold_proj o_after_sd_spawn]; reflexivity.
Qed.

Lemma note_late_oi o i : oi (note_late_commit o i) = oi o.
Proof. unfold note_late_commit. destruct (o_stopreq _); [destruct (stopping o i)|]; reflexivity. Qed.
Lemma note_late_onm o i : onm (note_late_commit o i) = onm o.
Proof. unfold note_late_commit. destruct (o_stopreq _); [destruct (stopping o i)|]; reflexivity. Qed.
Lemma note_late_o_th o i : o_th (note_late_commit o i) = o_th o.
Proof. unfold note_late_commit. destruct (o_stopreq _); [destruct (stopping o i)|]; reflexivity. Qed.
Lemma note_late_sd_cur o i : o_sd_cur (note_late_commit o i) = o_sd_cur o.
Proof. unfold note_late_commit. destruct (o_stopreq _); [destruct (stopping o i)|]; reflexivity. Qed.
Lemma note_late_sd_done o i : o_sd_done (note_late_commit o i) = o_sd_done o.
Proof. unfold note_late_commit. destruct (o_stopreq _); [destruct (stopping o i)|]; reflexivity. Qed.
Lemma note_late_after o i : o_after_sd_spawn (note_late_commit o i) = o_after_sd_spawn o.
Proof. unfold note_late_commit. destruct (o_stopreq _); [destruct (stopping o i)|]; reflexivity. Qed.
Lemma note_late_oi_get o i j : oi_get (note_late_commit o i) j = oi_get o j.
Proof. unfold oi_get. now rewrite note_late_oi. Qed.
#[export] Hint Rewrite note_late_oi note_late_onm note_late_o_th note_late_sd_cur note_late_sd_done note_late_after note_late_oi_get : obsf.

Lemma get_thread_upd_inst i f s th : get_thread (upd_inst i f s) th = get_thread s th.
Proof. unfold get_thread. now rewrite upd_inst_threads. Qed.
Lemma get_thread_upd_vis n f s th : get_thread (upd_vis n f s) th = get_thread s th.
Proof. unfold get_thread. now rewrite upd_vis_threads. Qed.
Lemma get_thread_write_status n s0 s th : get_thread (write_status n s0 s) th = get_thread s th.
Proof. unfold write_status. apply get_thread_upd_vis. Qed.
#[export] Hint Rewrite get_thread_upd_inst get_thread_upd_vis get_thread_write_status : sup.

(* ---- which events touch the shutdown bookkeeping of the observer ------------------------------------------- *)
Ltac obs_cases o th :=
  unfold obs_pre; cbn [fst snd];
  try (destruct (ev_inst o th _) eqn:Ev);
  try match goal with |- context[match ?b with true => _ | false => _ end] => destruct b end;
  try match goal with |- context[match ?b with true => _ | false => _ end] => destruct b end;
  cbn; autorewrite with obsf; cbn.

Lemma obs_pre_sd_cur cs o th e :
  match e with EShutdownOrder _ | EShutdownEnd => False | _ => True end ->
  o_sd_cur (obs_pre cs o (th, e)) = o_sd_cur o.
Proof.
  intros Hne. destruct e; try contradiction; obs_cases o th; try reflexivity.
  all: repeat match goal with |- context[if ?b then _ else _] => destruct b end; cbn; autorewrite with obsf; reflexivity.
Qed.
Lemma obs_pre_sd_done cs o th e :
  match e with EShutdownEnd => False | _ => True end ->
  o_sd_done (obs_pre cs o (th, e)) = o_sd_done o.
Proof.
  intros Hne. destruct e; try contradiction; obs_cases o th; try reflexivity.
  all: repeat match goal with |- context[if ?b then _ else _] => destruct b end; cbn; autorewrite with obsf; try reflexivity.
  fold_proj o_sd_done. reflexivity.
Qed.
Lemma obs_pre_after cs o th e :
  match e with EShutdownEnd | ENewInst _ _ => False | _ => True end ->
  o_after_sd_spawn (obs_pre cs o (th, e)) = o_after_sd_spawn o.
Proof.
  intros Hne. destruct e; try contradiction; obs_cases o th; try reflexivity.
  all: repeat match goal with |- context[if ?b then _ else _] => destruct b end; cbn; autorewrite with obsf; try reflexivity.
  fold_proj o_after_sd_spawn. reflexivity.
Qed.

(* ---- generic per-instance observer relation ------------------------------------------------------------------ *)
Section ObsRel.
Context (Rl : oinst -> oinst -> Prop) (Rrefl : forall x, Rl x x) (Rtrans : forall x y z, Rl x y -> Rl y z -> Rl x z).
Definition obs_rel (o o' : obs) : Prop :=
  forall j, match get j (oi o) with
            | Some x => exists x', get j (oi o') = Some x' /\ Rl x x'
            | None => get j (oi o') = None end.
Lemma obs_rel_refl o : obs_rel o o.
Proof. intros j. destruct (get j (oi o)); eauto. Qed.
Lemma obs_rel_trans o1 o2 o3 : obs_rel o1 o2 -> obs_rel o2 o3 -> obs_rel o1 o3.
Proof.
  intros B1 B2 j. specialize (B1 j). specialize (B2 j). destruct (get j (oi o1)) as [x|].
  - destruct B1 as (x2 & E2 & L2). rewrite E2 in B2. destruct B2 as (x3 & E3 & L3). exists x3. eauto.
  - now rewrite B1 in B2.
Qed.
Lemma obs_rel_eq o o' : oi o' = oi o -> obs_rel o o'.
Proof. intros B j. rewrite B. destruct (get j (oi o)); eauto. Qed.
Lemma obs_rel_oi_upd i f o : (forall x, Rl x (f x)) -> obs_rel o (oi_upd i f o).
Proof.
  intros Hf j. rewrite oi_upd_get. destruct (N.eqb i j); destruct (get j (oi o)) as [x|]; cbn; eauto.
Qed.
Lemma obs_rel_on_upd n f o : obs_rel o (on_upd n f o).
Proof. apply obs_rel_eq, on_upd_oi. Qed.
Lemma obs_rel_fold_oi_upd (f : oinst -> oinst) l : (forall x, Rl x (f x)) ->
  forall o, obs_rel o (fold_left (fun o i => oi_upd i f o) l o).
Proof.
  intros Hf. induction l as [|a l IH]; intros o; cbn; [apply obs_rel_refl|].
  eapply obs_rel_trans; [apply (obs_rel_oi_upd a f o Hf)|apply IH].
Qed.
Lemma obs_rel_bwd o o' j x' : obs_rel o o' -> get j (oi o') = Some x' -> exists x, get j (oi o) = Some x /\ Rl x x'.
Proof.
  intros C H. specialize (C j). destruct (get j (oi o)) as [x|]; [|congruence].
  destruct C as (x2 & E & L). exists x. split; [reflexivity|]. assert (x2 = x') by congruence. now subst.
Qed.
End ObsRel.

Definition osr_le (x x' : oinst) : Prop := o_stopreq x = true -> o_stopreq x' = true.
Lemma osr_le_refl x : osr_le x x. Proof. intros H; exact H. Qed.
Lemma osr_le_trans x y z : osr_le x y -> osr_le y z -> osr_le x z. Proof. unfold osr_le; auto. Qed.

Ltac obs_rel_close R Hrefl Htrans :=
  repeat first
  [ apply (obs_rel_refl R Hrefl)
  | match goal with
    | |- obs_rel _ ?o (oi_upd ?i ?f ?X) =>
        apply (obs_rel_trans R Htrans o X); [|apply obs_rel_oi_upd; [exact Hrefl|]]
    | |- obs_rel _ ?o (on_upd ?n ?f ?X) =>
        apply (obs_rel_trans R Htrans o X); [|apply obs_rel_on_upd; exact Hrefl]
    | |- obs_rel _ ?o (fold_left (fun o i => oi_upd i ?f o) ?l ?X) =>
        apply (obs_rel_trans R Htrans o X); [|apply obs_rel_fold_oi_upd; [exact Hrefl|exact Htrans|]]
    | |- obs_rel _ ?o (RecordSet.set _ _ ?X) =>
        apply (obs_rel_trans R Htrans o X); [|apply obs_rel_eq; [exact Hrefl|reflexivity]]
    end ].

Lemma obs_pre_stopreq cs o th e :
  match e with ENewInst _ _ => False | _ => True end -> obs_rel osr_le o (obs_pre cs o (th, e)).
Proof.
  intros Hne. unfold obs_pre.
  destruct e; try contradiction; cbn [fst snd];
  try (destruct (ev_inst o th _) eqn:Ev);
  try match goal with |- context[match ?b with true => _ | false => _ end] => destruct b end;
  try match goal with |- context[match ?b with true => _ | false => _ end] => destruct b end;
  unfold note_late_commit;
  repeat match goal with |- context[if ?b then _ else _] => destruct b end;
  try apply (obs_rel_refl osr_le osr_le_refl); obs_rel_close osr_le osr_le_refl osr_le_trans.
  all: intros x; unfold osr_le; cbn; auto.
  1,2: destruct (opt_eqb _ _ _); cbn; auto.
  intros ->. reflexivity.
Qed.

Lemma obs_pre_stopreq_get cs o th e i :
  match e with ENewInst _ _ => False | _ => True end ->
  o_stopreq (oi_get o i) = true -> o_stopreq (oi_get (obs_pre cs o (th, e)) i) = true.
Proof.
  intros Hne. pose proof (obs_pre_stopreq cs o th e Hne i) as H. unfold oi_get.
  destruct (get i (oi o)) as [x|]; [|cbn; discriminate]. destruct H as (x' & -> & L). exact L.
Qed.


Lemma fold_upd_get_thread (f : inst -> inst) l s th :
  get_thread (fold_left (fun s i => upd_inst i f s) l s) th = get_thread s th.
Proof. apply (fold_upd_inst_proj (fun s => get_thread s th)). intros. apply get_thread_upd_inst. Qed.
Lemma fold_upd_ordered (f : inst -> inst) l s : ordered (fold_left (fun s i => upd_inst i f s) l s) = ordered s.
Proof. apply (fold_upd_inst_proj ordered). intros. apply upd_inst_ordered. Qed.
Lemma fold_upd_viss (f : inst -> inst) l s : viss (fold_left (fun s i => upd_inst i f s) l s) = viss s.
Proof. apply (fold_upd_inst_proj viss). intros. apply upd_inst_viss. Qed.
Lemma get_thread_sd_active (X : sys) v th : get_thread (X <| sd_active := v |>) th = get_thread X th.
Proof. reflexivity. Qed.
#[export] Hint Rewrite fold_upd_get_thread fold_upd_ordered fold_upd_viss get_thread_sd_active : sup.

(* the creation stage (hardened model) is invisible to everything the C03 relation looks at *)
Lemma get_thread_stage (X : sys) v th : get_thread (X <| stage := v |>) th = get_thread X th. Proof. reflexivity. Qed.
Lemma insts_stage (X : sys) v : insts (X <| stage := v |>) = insts X. Proof. reflexivity. Qed.
Lemma viss_stage (X : sys) v : viss (X <| stage := v |>) = viss X. Proof. reflexivity. Qed.
Lemma thinst_stage (X : sys) v : thinst (X <| stage := v |>) = thinst X. Proof. reflexivity. Qed.
Lemma threads_stage (X : sys) v : threads (X <| stage := v |>) = threads X. Proof. reflexivity. Qed.
Lemma vis_of_stage (X : sys) v n : vis_of (X <| stage := v |>) n = vis_of X n. Proof. reflexivity. Qed.
#[export] Hint Rewrite get_thread_stage insts_stage viss_stage thinst_stage threads_stage vis_of_stage : sup.
Lemma get_thread_set_stage t i k (X : sys) th : get_thread (set_stage t i k X) th = get_thread X th. Proof. reflexivity. Qed.
Lemma insts_set_stage t i k (X : sys) : insts (set_stage t i k X) = insts X. Proof. reflexivity. Qed.
Lemma viss_set_stage t i k (X : sys) : viss (set_stage t i k X) = viss X. Proof. reflexivity. Qed.
Lemma thinst_set_stage t i k (X : sys) : thinst (set_stage t i k X) = thinst X. Proof. reflexivity. Qed.
Lemma threads_set_stage t i k (X : sys) : threads (set_stage t i k X) = threads X. Proof. reflexivity. Qed.
Lemma vis_of_set_stage t i k (X : sys) n : vis_of (set_stage t i k X) n = vis_of X n. Proof. reflexivity. Qed.
#[export] Hint Rewrite get_thread_set_stage insts_set_stage viss_set_stage thinst_set_stage threads_set_stage vis_of_set_stage : sup.
