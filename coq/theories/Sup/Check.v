(* Replay of recorded supervisor histories through the model (correspondence corr_Sup). *)
From Coq Require Import List ZArith NArith Bool.
From PC.Base Require Import Util Assoc.
From PC.Sup Require Import Model.
Import ListNotations.

Record trace := mkTrace { t_confs : amap pconf; t_ordered : bool; t_evs : list (tid * event) }.

Definition accepted (t : trace) : bool :=
  match accept (init (t_confs t) (t_ordered t)) (t_evs t) with Some _ => true | None => false end.

Definition rejected (ts : list trace) : list nat := failing accepted ts.

(* for every trace: number of events accepted before the first rejection (= length when accepted) *)
Definition reject_positions (ts : list trace) : list nat :=
  map (fun t => fst (accept_prefix (init (t_confs t) (t_ordered t)) (t_evs t) 0)) ts.
