(* Replay of recorded supervisor histories through the model (correspondence corr_Sup). *)
From Coq Require Import List ZArith NArith Bool.
From PC.Base Require Import Util Assoc.
From PC.Sup Require Import Model Monitors MonC12w.
From PC.Sup Require LemC01.   (* only for the validity condition of mon_C01, used qualified *)
Import ListNotations.

Record trace := mkTrace { t_confs : amap pconf; t_ordered : bool; t_evs : list (tid * event) }.

Definition accepted (t : trace) : bool :=
  match accept (init (t_confs t) (t_ordered t)) (t_evs t) with Some _ => true | None => false end.

Definition rejected (ts : list trace) : list nat := failing accepted ts.

(* for every trace: number of events accepted before the first rejection (= length when accepted) *)
Definition reject_positions (ts : list trace) : list nat :=
  map (fun t => fst (accept_prefix (init (t_confs t) (t_ordered t)) (t_evs t) 0)) ts.

(* property monitors on the recorded histories (whether or not the model accepts them) *)
Definition bad_mon (m : amap pconf -> list (tid * event) -> bool) (ts : list trace) : list nat :=
  failing (fun t => m (t_confs t) (t_evs t)) ts.
(* mon_C01 is a faithful reading of the property except when two onProcessEnd executions of one instance overlap
   with different statuses (the observer keeps one end-state slot; LemC01.sched_ok_C01, flag g_endov; notes/C01.md):
   there the property text can hold while the monitor fails.  Such a history is outside the monitor's domain and is
   not judged (no alarm on code where the property holds); theorem C01_main_partial has the same hypothesis. *)
Definition in_domain_C01 (t : trace) : bool := LemC01.sched_ok_C01 (t_confs t) (t_evs t).
Definition bad_C01 (ts : list trace) : list nat :=
  failing (fun t => holds_C01 (t_confs t) (t_evs t) || negb (in_domain_C01 t)) ts.
Definition bad_C02 := bad_mon holds_C02.
Definition bad_C03 := bad_mon holds_C03.
Definition bad_C04 := bad_mon holds_C04.
Definition bad_C05 := bad_mon holds_C05.
Definition bad_C08 := bad_mon holds_C08.
Definition bad_C09 := bad_mon holds_C09.
(* C12 is judged on the stop signals of the ordered shutdown's own workers (MonC12w.holds_C12w; theorem C12_workers) *)
Definition bad_C12 (ts : list trace) : list nat :=
  failing (fun t => holds_C12w (t_ordered t) (t_confs t) (t_evs t)) ts.

(* position of the first violation of a monitor in one trace (for replay files) *)
Definition first_bad (m : amap pconf -> obs -> tid * event -> bool) (t : trace) : option nat :=
  mon_run (t_confs t) (m (t_confs t)) (obs0 (t_confs t)) (t_evs t) 0.

(* per trace: windows of known findings that the history went through, coded 64*zombie+32*sdlag+16*commit+8*late+4*sdspawn+2*dup+stale *)
Definition window_code (t : trace) : nat :=
  fold_left (fun acc (b : bool) => 2 * acc + (if b then 1 else 0)) (windows_of (final_obs (t_confs t) (t_evs t))) 0.
Definition window_codes (ts : list trace) : list nat := map window_code ts.

(* window code of the observer state AT the first violation of a monitor (0 when the history is fine):
   only windows that the history went through BEFORE the violating event can explain it *)
Fixpoint mon_run_w (cs : amap pconf) (m : obs -> tid * event -> bool) (o : obs) (evs : list (tid * event)) : option nat :=
  match evs with
  | [] => None
  | e :: r => if m o e then mon_run_w cs m (obs_step cs o e) r
              else Some (fold_left (fun acc (b : bool) => 2 * acc + (if b then 1 else 0)) (windows_of o) 0)
  end.
Definition badw_mon (m : amap pconf -> obs -> tid * event -> bool) (ts : list trace) : list nat :=
  flat_map (fun t => match mon_run_w (t_confs t) (m (t_confs t)) (obs0 (t_confs t)) (t_evs t) with
                     | Some w => [w] | None => [] end) ts.
Definition badw_C01 := badw_mon mon_C01.
Definition badw_C02 := badw_mon mon_C02.
Definition badw_C03 := badw_mon mon_C03.
Definition badw_C04 := badw_mon mon_C04.
Definition badw_C05 := badw_mon mon_C05.
Definition badw_C08 := badw_mon mon_C08.
Definition badw_C09 := badw_mon mon_C09.
Fixpoint run3_w (ord : bool) (cs : amap pconf) (o : obs) (g : gst) (evs : list (tid * event)) : option nat :=
  match evs with
  | [] => None
  | e :: r => if mon_w ord cs o g e then run3_w ord cs (obs_step cs o e) (g_step g e) r
              else Some (fold_left (fun acc (b : bool) => 2 * acc + (if b then 1 else 0)) (windows_of o) 0)
  end.
Definition badw_C12 (ts : list trace) : list nat :=
  flat_map (fun t => match run3_w (t_ordered t) (t_confs t) (obs0 (t_confs t)) [] (t_evs t) with
                     | Some w => [w] | None => [] end) ts.
(* how many recorded histories satisfy the side conditions of theorem C12_workers (evidence only) *)
Definition thm_C12 (ts : list trace) : list nat :=
  failing (fun t => negb (t_ordered t) || (c12_side (t_confs t) (t_evs t) && negb (W_C12 (final_obs (t_confs t) (t_evs t))))) ts.

(* ---- attribution of a violation to the known windows, per process NAME ------------------------------
   A violation at an event about an instance of name n can only be explained by a window that the
   sub-history of events concerning name n (plus the events that concern no particular name: Run,
   shutdown procedure, API returns, registry lookups) went through before the violation. *)
Definition ev_name (o : obs) (th : tid) (e : event) : option name :=
  match e with
  | ENewInst _ n | ERegAdd _ n | ESpawn _ n | ERegGet n _ | EDoneGet n _ | EStartChecked n _ | EStopChecked n _
  | ERestartChecked n _ | ERestartStopped n => Some n
  | EApiBegin (OpStart n) | EApiBegin (OpStop n) | EApiBegin (OpRestart n) => Some n
  (* the shutdown procedure concerns every name, also when an instance goroutine runs it (exit_on_* trigger) *)
  | EShutdownCall | EShutdownBegin | EShutdownOrder _ | EShutdownEnd | EShutdownUnlocked | EExitTrigger _ | EExitCodeSet _ => None
  | EDepWait _ _ | EDepDone _ _ | ELookupMid _ => option_map (fun i => o_nm (oi_get o i)) (get th (o_th o))
  | _ => option_map (fun i => o_nm (oi_get o i)) (ev_inst o th e)
  end.

Definition code_of_windows (l : list bool) : nat :=
  fold_left (fun acc (b : bool) => 2 * acc + (if b then 1 else 0)) l 0.

(* ---- the duplicate-instance window F25, narrowed to what the finding says: CONCURRENT requests for one name.
   w_dup is raised by the observer whenever a second instance of a name is created while an earlier one has not
   ended, and when two stop executions overlap on one instance.  The second source is concurrency by itself; the
   first one explains a violation only when two API calls aimed at the name (a shutdown aims at every name) were in
   flight at the same time, or one was in flight while Run() was still spawning.  A single sequential request that
   leaves two unfinished instances of a name is a violation, not the known finding. *)
Definition op_aims (op : apiop) (n : name) : bool :=
  match op with
  | OpStart k | OpStop k | OpRestart k => N.eqb k n
  | OpShutdown => true
  | OpRun => false
  end.
Fixpoint api_overlap (n : name) (inflight : list tid) (spawning : bool) (evs : list (tid * event)) : bool :=
  match evs with
  | [] => false
  | (th, e) :: r =>
      match e with
      | EApiBegin OpRun => negb (match inflight with [] => true | _ => false end) || api_overlap n inflight true r
      | EApiBegin op =>
          if op_aims op n then negb (match inflight with [] => true | _ => false end) || spawning || api_overlap n (th :: inflight) spawning r
          else api_overlap n inflight spawning r
      | EApiReturn _ => api_overlap n (filter (fun t => negb (N.eqb t th)) inflight) spawning r
      | ERunSpawned => api_overlap n inflight false r
      | _ => api_overlap n inflight spawning r
      end
  end.
Fixpoint stop_overlap (cs : amap pconf) (o : obs) (evs : list (tid * event)) : bool :=
  match evs with
  | [] => false
  | e :: r =>
      (match snd e with
       | EStopEnter i _ => stopping o i || existsb (fun p => N.eqb (snd p) i) (o_instop o)
       | _ => false
       end) || stop_overlap cs (obs_step cs o e) r
  end.
(* windows_of with the dup bit narrowed; [sub] = the sub-history the window flags were computed from, [full] = the whole prefix *)
(* F54, stale stop handle: a stop execution (StopProcess / RestartProcess looked the instance up, then lost the CPU) goes
   on with an instance that has ENDED in the meantime; it reads and writes the status record that the instance shares
   with its successor (C09_refuted_stale_stop is the model-level witness).  Only concurrency can produce it. *)
Fixpoint stale_stop (cs : amap pconf) (o : obs) (evs : list (tid * event)) : bool :=
  match evs with
  | [] => false
  | e :: r =>
      (match snd e with
       | EStopEnter i _ => o_ended (oi_get o i)
       | _ => false
       end) || stale_stop cs (obs_step cs o e) r
  end.
Definition windows_narrow (cs : amap pconf) (n : option name) (o : obs) (sub full : list (tid * event)) : list bool :=
  let dup := match n with
             | Some k => w_dup o && (stop_overlap cs (obs0 cs) sub || api_overlap k [] false full)
             | None => w_dup o
             end in
  [stale_stop cs (obs0 cs) sub; w_zombie o; w_sdlag o; w_commit o; w_late o; w_sdspawn o; dup; w_stale o].

(* runs the full observer; [kept] accumulates (in reverse) the events seen so far together with their name *)
Fixpoint mon_run_wn (cs : amap pconf) (m : obs -> tid * event -> bool) (o : obs)
         (kept : list (option name * (tid * event))) (evs : list (tid * event)) : option nat :=
  match evs with
  | [] => None
  | e :: r =>
      let nm := ev_name o (fst e) (snd e) in
      if m o e then mon_run_wn cs m (obs_step cs o e) ((nm, e) :: kept) r
      else
        let sub := match nm with
                   | Some n => filter (fun p => match fst p with Some k => N.eqb k n | None => true end) kept
                   | None => kept
                   end in
        (* the violating event itself may be the one that reveals the window (e.g. the late Terminating write) *)
        let subevs := map snd (rev sub) ++ [e] in
        Some (code_of_windows (windows_narrow cs nm (fold_left (obs_step cs) subevs (obs0 cs)) subevs (map snd (rev kept) ++ [e])))
  end.

Definition badwn_mon (m : amap pconf -> obs -> tid * event -> bool) (ts : list trace) : list nat :=
  flat_map (fun t => match mon_run_wn (t_confs t) (m (t_confs t)) (obs0 (t_confs t)) [] (t_evs t) with
                     | Some w => [w] | None => [] end) ts.
Definition badwn_C01 (ts : list trace) : list nat :=
  flat_map (fun t => if in_domain_C01 t
                     then match mon_run_wn (t_confs t) (mon_C01 (t_confs t)) (obs0 (t_confs t)) [] (t_evs t) with
                          | Some w => [w] | None => [] end
                     else []) ts.
Definition badwn_C02 := badwn_mon mon_C02.
Definition badwn_C03 := badwn_mon mon_C03.
Definition badwn_C04 := badwn_mon mon_C04.
Definition badwn_C05 := badwn_mon mon_C05.
(* C08: the zombie window (F38) explains two live commands of one name only if one of them belongs to a zombie - an
   instance whose onProcessEnd had been entered before it launched; two NORMAL instances alive side by side are not
   what F38 describes. *)
Definition was_ended (x : oinst) : bool := o_ended x || match o_endst x with Some _ => true | None => false end.
Fixpoint mon_run_w08 (cs : amap pconf) (o : obs) (kept : list (option name * (tid * event))) (evs : list (tid * event))
  : option nat :=
  match evs with
  | [] => None
  | e :: r =>
      let nm := ev_name o (fst e) (snd e) in
      if mon_C08 cs o e then mon_run_w08 cs (obs_step cs o e) ((nm, e) :: kept) r
      else
        let sub := match nm with
                   | Some n => filter (fun p => match fst p with Some k => N.eqb k n | None => true end) kept
                   | None => kept
                   end in
        let subevs := map snd (rev sub) ++ [e] in
        let l := windows_narrow cs nm (fold_left (obs_step cs) subevs (obs0 cs)) subevs (map snd (rev kept) ++ [e]) in
        let zombie_involved :=
          match ev_inst o (fst e) (snd e) with
          | Some i => let n := o_nm (oi_get o i) in
                      was_ended (oi_get o i) ||
                      existsb (fun p => N.eqb (o_nm (snd p)) n && o_alive (snd p) && was_ended (snd p)) (oi o)
          | None => true
          end in
        Some (code_of_windows (match l with st :: z :: rest => st :: (z && zombie_involved) :: rest | _ => l end))
  end.
Definition badwn_C08 (ts : list trace) : list nat :=
  flat_map (fun t => match mon_run_w08 (t_confs t) (obs0 (t_confs t)) [] (t_evs t) with
                     | Some w => [w] | None => [] end) ts.
Definition badwn_C09 := badwn_mon mon_C09.
(* C12: a stop signal to p is judged against the processes that DEPEND on p, so the windows that explain a
   violation are those of other names: the whole history up to the violation counts *)
Definition badwn_C12 (ts : list trace) : list nat := badw_C12 ts.

(* ---- C03, second oracle: mon_C03 judges a shutdown by the snapshot the implementation reports
   (EShutdownOrder); this test-level monitor judges it by the observer's own facts: when a ShutDownProject call
   ends NO command at all is alive and NO name is reported running, whatever the snapshot said (the registry lock is
   held for the whole call, so nothing can have been registered and launched meanwhile).  Theorem: C03x_partial
   (Sup/RelC03x.v, Props/C03.v) for every accepted history outside the windows commit/sdlag/dup/zombie. *)
Definition mon_C03x (cs : amap pconf) (o : obs) (te : tid * event) : bool :=
  match snd te with
  | EShutdownEnd =>
      forallb (fun p => negb (o_alive (snd p))) (oi o) &&
      forallb (fun p => negb (is_running_status (r_status (snd p)))) (onm o)
  | _ => true
  end.
Definition holds_C03x cs evs := holds cs mon_C03x evs.
Definition bad_C03x := bad_mon holds_C03x.
(* the offending instance may have any name: whole-history windows.  The zombie window (F38: the goroutine of an
   instance that was ended while pending lives on and may still launch) explains a command alive at the end of a
   shutdown only if that command belongs to such a zombie - an instance whose onProcessEnd had been entered before it
   became alive; a NORMAL instance alive and unknown to the shutdown is not what F38 describes. *)
Definition zombie_alive (x : oinst) : bool :=
  o_alive x && (o_ended x || match o_endst x with Some _ => true | None => false end).
Fixpoint mon_run_w03x (cs : amap pconf) (o : obs) (evs : list (tid * event)) : option nat :=
  match evs with
  | [] => None
  | e :: r =>
      if mon_C03x cs o e then mon_run_w03x cs (obs_step cs o e) r
      else
        let only_zombies := forallb (fun p => negb (o_alive (snd p)) || zombie_alive (snd p)) (oi o) in
        let w := [w_zombie o && only_zombies; w_sdlag o; w_commit o; w_late o; w_sdspawn o; w_dup o; w_stale o] in
        Some (fold_left (fun acc (b : bool) => 2 * acc + (if b then 1 else 0)) w 0)
  end.
Definition badwn_C03x (ts : list trace) : list nat :=
  flat_map (fun t => match mon_run_w03x (t_confs t) (obs0 (t_confs t)) (t_evs t) with
                     | Some w => [w] | None => [] end) ts.
