(* Lemmas for the C12 simulation proof that mention only the model (Sup.Model) or only the observer
   (Sup.Monitors): what [flush] and one accepted step can do to the parts of the state the C12 relation
   looks at, the lock discipline of ShutDownProject, and "a live command means pc = IAlive". *)
From Coq Require Import List ZArith NArith Bool Lia.
From RecordUpdate Require Import RecordSet.
From PC.Base Require Import Assoc.
From PC.Sup Require Import Model Monitors Tactics Sim ObsFacts Effects RelCore.
Import ListNotations RecordSetNotations.

(* the hardened model wraps states in stage updates: the old fields read through them *)
Lemma stg_insts v s : insts (s <| stage := v |>) = insts s. Proof. reflexivity. Qed.
Lemma stg_viss v s : viss (s <| stage := v |>) = viss s. Proof. reflexivity. Qed.
Lemma stg_confs v s : confs (s <| stage := v |>) = confs s. Proof. reflexivity. Qed.
Lemma stg_running v s : running (s <| stage := v |>) = running s. Proof. reflexivity. Qed.
Lemma stg_donereg v s : donereg (s <| stage := v |>) = donereg s. Proof. reflexivity. Qed.
Lemma stg_threads v s : threads (s <| stage := v |>) = threads s. Proof. reflexivity. Qed.
Lemma stg_thinst v s : thinst (s <| stage := v |>) = thinst s. Proof. reflexivity. Qed.
Lemma stg_reg_lock v s : reg_lock (s <| stage := v |>) = reg_lock s. Proof. reflexivity. Qed.
Lemma stg_sd_active v s : sd_active (s <| stage := v |>) = sd_active s. Proof. reflexivity. Qed.
Lemma stg_ordered v s : ordered (s <| stage := v |>) = ordered s. Proof. reflexivity. Qed.
Lemma stg_wg v s : wg (s <| stage := v |>) = wg s. Proof. reflexivity. Qed.
Lemma stg_vis_of v s n : vis_of (s <| stage := v |>) n = vis_of s n. Proof. reflexivity. Qed.
Lemma stg_get_thread v s th : get_thread (s <| stage := v |>) th = get_thread s th. Proof. reflexivity. Qed.
#[export] Hint Rewrite stg_insts stg_viss stg_confs stg_running stg_donereg stg_threads stg_thinst stg_reg_lock
  stg_sd_active stg_ordered stg_wg stg_vis_of stg_get_thread : sup.

(* ---- program-counter classes ------------------------------------------------------------------------ *)
Definition early_pc (p : ipc) : bool :=
  match p with IDeps _ | IBlocked _ _ _ _ | ISkipDecided => true | _ => false end.
Definition cmt_pc (p : ipc) : bool :=
  match p with IPreStart | IPreLaunch | IStateSet => true | _ => false end.
Definition live_pc (p : ipc) : bool :=
  match p with IAlive | IExited _ | ICodeWritten _ | IWillRestart _ | IRestarting _ | IBackoff _ => true | _ => false end.
Definition run_pc (p : ipc) : bool :=
  match p with IStateSet | IAlive | IExited _ | ICodeWritten _ | IWillRestart _ | IRestarting _ | IBackoff _ => true | _ => false end.
Definition ended_pc (p : ipc) : bool :=
  match p with
  | IInEnd _ _ true | IRunRet _ | IDoneReg _ | IProjEnd _ _ | ITriggered _ | ICodeSet | ILeaving | IWgDone | IGone => true
  | _ => false
  end.
Definition final_pc (p : ipc) : bool := match p with IWgDone | IGone => true | _ => false end.

(* the part of an instance the C12 relation looks at *)
Definition iview (x : inst) := (nm x, cf x, pc x, l_done x, alive x, exited x).

Lemma iview_eq x y : iview x = iview y ->
  nm x = nm y /\ cf x = cf y /\ pc x = pc y /\ l_done x = l_done y /\ alive x = alive y /\ exited x = exited y.
Proof. unfold iview. intros H. inversion H. auto 10. Qed.

Lemma get_thread_some s th t : get th (threads s) = Some t -> get_thread s th = t.
Proof. unfold get_thread. now intros ->. Qed.

(* ---- flush ------------------------------------------------------------------------------------------ *)
Ltac flush_tac :=
  unfold flush;
  match goal with |- context[get ?th (threads ?s)] => destruct (get th (threads s)) as [?|] end; [|try reflexivity];
  [match goal with |- context[pend ?t] => destruct (pend t) as [[]|] end; try reflexivity;
   unfold apply_release; sup_simpl; cbn;
   try (match goal with |- context[code_set ?s] => destruct (code_set s); cbn end); try reflexivity].

Lemma flush_iview th s j : option_map iview (get j (insts (flush th s))) = option_map iview (get j (insts s)).
Proof.
  flush_tac.
  all: match goal with |- context[N.eqb ?a ?b] => destruct (N.eqb a b) end; destruct (get j (insts s)); reflexivity.
Qed.

Lemma flush_sd_active th s : sd_active (flush th s) = sd_active s.
Proof. flush_tac. Qed.
Lemma flush_ordered th s : ordered (flush th s) = ordered s.
Proof. flush_tac. Qed.

Definition tview (t : thread) := (apc t, spc t, dpc t).

Lemma flush_threads th s th' :
  match get th' (threads s) with
  | Some t => exists t', get th' (threads (flush th s)) = Some t' /\ tview t' = tview t /\
                         ((th' <> th /\ pend t' = pend t) \/ (th' = th /\ pend t' = None))
  | None => get th' (threads (flush th s)) = None
  end.
Proof.
  unfold flush. destruct (get th (threads s)) as [t|] eqn:Et.
  2:{ destruct (get th' (threads s)) as [t'|] eqn:Et'; [|reflexivity]. exists t'. repeat split; auto.
      left. split; [|reflexivity]. intros ->. congruence. }
  destruct (pend t) as [r|] eqn:Ep.
  2:{ destruct (get th' (threads s)) as [t'|] eqn:Et'; [|reflexivity]. exists t'. repeat split; auto.
      destruct (N.eq_dec th' th) as [->|Hne]; [right; split; congruence|left; auto]. }
  assert (Hth : forall s1, threads s1 = threads (set_thread th (t <| pend := None |>) s) ->
    match get th' (threads s) with
    | Some t0 => exists t', get th' (threads s1) = Some t' /\ tview t' = tview t0 /\
                            ((th' <> th /\ pend t' = pend t0) \/ (th' = th /\ pend t' = None))
    | None => get th' (threads s1) = None end).
  { intros s1 ->. rewrite threads_set_thread. destruct (N.eqb_spec th th') as [<-|Hne].
    - rewrite Et. eexists; split; [reflexivity|]. split; [reflexivity|]. right. auto.
    - destruct (get th' (threads s)) as [t'|]; [|reflexivity]. exists t'. repeat split; auto. }
  apply Hth. destruct r; unfold apply_release, end_release_early; autorewrite with sup; try reflexivity.
  destruct (code_set _); reflexivity.
Qed.

Lemma flush_pend_none th s : pend (get_thread (flush th s) th) = None.
Proof.
  unfold get_thread. pose proof (flush_threads th s th) as H.
  destruct (get th (threads s)) as [t|].
  - destruct H as (t' & -> & _ & [[Hne _]|[_ Hp]]); [congruence|exact Hp].
  - now rewrite H.
Qed.

Lemma flush_lock th s :
  reg_lock (flush th s) = reg_lock s \/
  (reg_lock (flush th s) = None /\ exists t, get th (threads s) = Some t /\ pend t = Some RUnlock).
Proof.
  unfold flush. destruct (get th (threads s)) as [t|] eqn:Et; [|now left].
  destruct (pend t) as [r|] eqn:Ep; [|now left].
  destruct r; unfold apply_release, end_release_early; autorewrite with sup; try (now left).
  - right. split; [reflexivity|eauto].
  - destruct (code_set _); now left.
Qed.

(* ---- lock discipline of ShutDownProject ------------------------------------------------------------ *)
Definition lock_pc (d : sdpc) : bool := match d with DBegun | DLoop _ _ | DWaitAll _ => true | _ => false end.
Definition sd_pc (d : sdpc) : bool := match d with DLoop _ _ | DWaitAll _ => true | _ => false end.
Definition is_unlock (r : option release) : bool := match r with Some RUnlock => true | _ => false end.
Definition holds_lock (t : thread) : bool := lock_pc (dpc t) || is_unlock (pend t).

Record LockInv (s : sys) : Prop := mkLI {
  li_lock : forall th t, get th (threads s) = Some t -> holds_lock t = true -> reg_lock s = Some th;
  li_unl : forall th t, get th (threads s) = Some t -> is_unlock (pend t) = true -> lock_pc (dpc t) = false;
  li_sd : forall th order, sd_active s = Some (th, order) ->
          exists t, get th (threads s) = Some t /\ sd_pc (dpc t) = true
}.

Lemma LockInv_init cs ord : LockInv (init cs ord).
Proof. constructor; cbn; discriminate. Qed.

Lemma tview_eq t t' : tview t' = tview t -> apc t' = apc t /\ spc t' = spc t /\ dpc t' = dpc t.
Proof. unfold tview. intros H. inversion H. auto. Qed.

Lemma LockInv_flush th s : LockInv s -> LockInv (flush th s).
Proof.
  intros [H1 H2 H3]. constructor.
  - intros th' t' Ht' Hh. pose proof (flush_threads th s th') as Hf.
    destruct (get th' (threads s)) as [t|] eqn:Et; [|congruence].
    destruct Hf as (t2 & Et2 & Hv & Hp). assert (t2 = t') by congruence. subst t2.
    apply tview_eq in Hv. destruct Hv as (_ & _ & Hd).
    unfold holds_lock in Hh. rewrite Hd in Hh.
    destruct (flush_lock th s) as [->|(Hn & t0 & Et0 & Ep0)].
    + apply (H1 th' t Et). unfold holds_lock. destruct Hp as [[_ Hp]|[_ Hp]]; rewrite Hp in Hh; [exact Hh|].
      cbn in Hh. rewrite orb_false_r in Hh. now rewrite Hh.
    + exfalso. assert (Hl0 : reg_lock s = Some th) by (apply (H1 th t0 Et0); unfold holds_lock; rewrite Ep0; apply orb_true_r).
      destruct Hp as [[Hne Hp]|[-> Hp]].
      * rewrite Hp in Hh. specialize (H1 th' t Et Hh). congruence.
      * rewrite Hp in Hh. cbn in Hh. rewrite orb_false_r in Hh. assert (t0 = t) by congruence. subst t0.
        rewrite (H2 th t Et) in Hh; [discriminate|]. now rewrite Ep0.
  - intros th' t' Ht' Hu. pose proof (flush_threads th s th') as Hf.
    destruct (get th' (threads s)) as [t|] eqn:Et; [|congruence].
    destruct Hf as (t2 & Et2 & Hv & Hp). assert (t2 = t') by congruence. subst t2.
    apply tview_eq in Hv. destruct Hv as (_ & _ & Hd). rewrite Hd.
    destruct Hp as [[_ Hp]|[_ Hp]]; rewrite Hp in Hu; [eauto|discriminate].
  - intros th' order. rewrite flush_sd_active. intros Hs. destruct (H3 th' order Hs) as (t & Et & Hd).
    pose proof (flush_threads th s th') as Hf. rewrite Et in Hf. destruct Hf as (t2 & Et2 & Hv & _).
    apply tview_eq in Hv. destruct Hv as (_ & _ & Hd2). exists t2. split; [exact Et2|congruence].
Qed.

(* ---- one accepted step, by brute-force case analysis ------------------------------------------------ *)
(* all leaf cases of one accepted step_core: s' becomes a concrete term *)
Ltac kind_cases H :=
  unfold_steps H; unfold own_inst in H; cbn [fst snd] in H; break_step H;
  repeat match goal with E : (match _ with _ => _ end) = Some _ |- _ => break_step E end;
  repeat match goal with E : _ = ?s' |- _ => is_var s'; subst s' end.

Ltac step_leaves H e :=
  let Hk := fresh "Hk" in
  destruct (step_core_kind _ _ _ _ H) as [? ?|? ? ? ? ? ? ? ?|Hk|Hk|Hk|? ? ? Hk|? ? [] ? Hk|Hk|? ? Hk|Hk|Hk]; subst; clear H;
  [ | | destruct e; kind_cases Hk | destruct e; kind_cases Hk | destruct e; kind_cases Hk | kind_cases Hk
    | kind_cases Hk | kind_cases Hk | destruct e; kind_cases Hk | kind_cases Hk | destruct e; kind_cases Hk | destruct e; kind_cases Hk ].

Lemma holds_lock_get_thread s th : LockInv s -> holds_lock (get_thread s th) = true -> reg_lock s = Some th.
Proof.
  intros HL. unfold get_thread. destruct (get th (threads s)) as [t|] eqn:Et; [apply (li_lock _ HL th t Et)|discriminate].
Qed.

Definition lock_same (t0 t' : thread) : Prop :=
  lock_pc (dpc t') = lock_pc (dpc t0) /\ sd_pc (dpc t') = sd_pc (dpc t0) /\
  (is_unlock (pend t') = true -> is_unlock (pend t0) = true).

Lemma LockInv_frame s s' th : LockInv s ->
  reg_lock s' = reg_lock s -> sd_active s' = sd_active s ->
  (forall th', get th' (threads s') = get th' (threads s) \/
               (th' = th /\ exists t', get th (threads s') = Some t' /\ lock_same (get_thread s th) t')) ->
  LockInv s'.
Proof.
  intros [H1 H2 H3] Hl Hs Ht. constructor.
  - intros th' t' Et' Hh. rewrite Hl. destruct (Ht th') as [E|(-> & t2 & E & L1 & L2 & L3)].
    + rewrite E in Et'. eauto.
    + assert (t2 = t') by congruence. subst t2. apply holds_lock_get_thread; [constructor; assumption|].
      unfold holds_lock in *. rewrite <- L1. destruct (lock_pc (dpc t')); [reflexivity|]. cbn in *. auto.
  - intros th' t' Et' Hu. destruct (Ht th') as [E|(-> & t2 & E & L1 & L2 & L3)].
    + rewrite E in Et'. eauto.
    + assert (t2 = t') by congruence. subst t2. rewrite L1. specialize (L3 Hu).
      unfold get_thread in *. destruct (get th (threads s)) as [t|] eqn:Et; [eauto|discriminate].
  - intros th' order. rewrite Hs. intros Ha. destruct (H3 th' order Ha) as (t & Et & Hd).
    destruct (Ht th') as [E|(-> & t2 & E & L1 & L2 & L3)].
    + exists t. split; congruence.
    + exists t2. split; [exact E|]. rewrite L2. now rewrite (get_thread_some _ _ _ Et).
Qed.

Ltac split_goal_match :=
  repeat match goal with
  | |- ?P (match ?x with _ => _ end) => destruct x eqn:?
  | |- ?P (if ?x then _ else _) => destruct x eqn:?
  | |- context[if ?x then _ else _] => is_var x; destruct x
  end.

Ltac rew_thread_eqs :=
  repeat match goal with
  | H : dpc (get_thread ?s ?th) = _ |- _ => rewrite H
  | H : spc (get_thread ?s ?th) = _ |- _ => rewrite H
  | H : apc (get_thread ?s ?th) = _ |- _ => rewrite H
  | H : pend (get_thread ?s ?th) = _ |- _ => rewrite H
  end.

Ltac norm_get_thread :=
  repeat match goal with
  | |- context[get_thread (RecordSet.set ?f ?v ?s) ?th] => change (get_thread (RecordSet.set f v s) th) with (get_thread s th)
  end.

Ltac lock_frame1 s th HL :=
  apply (LockInv_frame s _ th HL); unfold set_pc, end_finish, end_release_early;
  [ autorewrite with sup; cbn; reflexivity
  | autorewrite with sup; cbn; reflexivity
  | let th' := fresh "th'" in intros th'; autorewrite with sup; cbn [threads];
    first [ left; reflexivity
          | destruct (N.eqb_spec th th') as [<-|?];
            [ right; split; [reflexivity|]; rewrite ?N.eqb_refl; eexists; split; [reflexivity|];
              unfold lock_same; norm_get_thread; cbn -[get_thread]; rew_thread_eqs; cbn;
              repeat split; auto; try (intro; discriminate)
            | left; reflexivity ] ] ].
Ltac lock_frame s th HL := split_goal_match; lock_frame1 s th HL.

Lemma fold_upd_inst_proj {A} (P : sys -> A) (f : inst -> inst) l :
  (forall i s, P (upd_inst i f s) = P s) -> forall s, P (fold_left (fun s i => upd_inst i f s) l s) = P s.
Proof. intros HP. induction l as [|a l IH]; intros s; cbn; [reflexivity|]. now rewrite IH, HP. Qed.

Lemma lock_none_no_holder s th t : LockInv s -> reg_lock s = None -> get th (threads s) = Some t -> holds_lock t = false.
Proof.
  intros HL Hn Et. destruct (holds_lock t) eqn:E; [|reflexivity]. rewrite (li_lock _ HL th t Et E) in Hn. discriminate.
Qed.

Lemma LockInv_upd s s' th t' : LockInv s ->
  threads s' = set th t' (threads s) ->
  (holds_lock t' = true -> reg_lock s' = Some th) ->
  (is_unlock (pend t') = true -> lock_pc (dpc t') = false) ->
  (forall th' t, th' <> th -> get th' (threads s) = Some t -> holds_lock t = true -> reg_lock s' = Some th') ->
  (forall th1 order, sd_active s' = Some (th1, order) ->
     (th1 = th /\ sd_pc (dpc t') = true) \/ (th1 <> th /\ sd_active s = Some (th1, order))) ->
  LockInv s'.
Proof.
  intros HL Ht A B C D. constructor.
  - intros th' t0. rewrite Ht, get_set. destruct (N.eqb_spec th th') as [<-|Hne].
    + intros E. injection E as <-. exact A.
    + intros E Hh. apply (C th' t0); auto.
  - intros th' t0. rewrite Ht, get_set. destruct (N.eqb_spec th th') as [<-|Hne].
    + intros E. injection E as <-. exact B.
    + apply (li_unl _ HL).
  - intros th1 order Ha. rewrite Ht, get_set. destruct (D th1 order Ha) as [[-> Hs]|[Hne Hs]].
    + rewrite N.eqb_refl. eauto.
    + destruct (N.eqb_spec th th1); [congruence|]. apply (li_sd _ HL th1 order Hs).
Qed.

Lemma LI_order s th order (D : sdpc) : LockInv s -> pend (get_thread s th) = None -> dpc (get_thread s th) = DBegun ->
  sd_pc D = true ->
  LockInv (set_thread th (get_thread s th <| dpc := D |>)
            (fold_left (fun s0 i => upd_inst i (fun x => x <| f_stopped := true |>) s0) order s <| sd_active := Some (th, order) |>)).
Proof.
  intros HL Hp Hd HD.
  assert (Hl : reg_lock s = Some th) by (apply holds_lock_get_thread; [exact HL|]; unfold holds_lock; now rewrite Hd).
  apply (LockInv_upd s _ th (get_thread s th <| dpc := D |>) HL); cbn.
  - now rewrite (fold_upd_inst_proj threads) by (intros; apply upd_inst_threads).
  - intros _. now rewrite (fold_upd_inst_proj reg_lock) by (intros; apply upd_inst_reg_lock).
  - rewrite Hp. discriminate.
  - intros th' t Hne Et Hh. rewrite (fold_upd_inst_proj reg_lock) by (intros; apply upd_inst_reg_lock).
    apply (li_lock _ HL th' t Et Hh).
  - intros th1 o1 E. injection E as <- <-. left. auto.
Qed.

Lemma LI_end s th : LockInv s -> lock_pc (dpc (get_thread s th)) = true ->
  LockInv (set_thread th (get_thread s th <| dpc := DEnded |> <| pend := Some RUnlock |>) (s <| sd_active := None |>)).
Proof.
  intros HL Hd.
  assert (Hl : reg_lock s = Some th) by (apply holds_lock_get_thread; [exact HL|]; unfold holds_lock; now rewrite Hd).
  apply (LockInv_upd s _ th (get_thread s th <| dpc := DEnded |> <| pend := Some RUnlock |>) HL); cbn; auto.
  - intros th' t _ Et Hh. apply (li_lock _ HL th' t Et Hh).
  - discriminate.
Qed.

Lemma LockInv_core s th e s' : LockInv s -> pend (get_thread s th) = None -> step_core s th e = Some s' -> LockInv s'.
Proof.
  intros HL Hp H. step_leaves H e; try (lock_frame s th HL).
  - (* EShutdownBegin *)
    unfold lock_free in E0. destruct (reg_lock s) eqn:El; [discriminate|].
    constructor; cbn.
    + intros th' t'. rewrite get_set. destruct (N.eqb_spec th th') as [<-|Hne]; [reflexivity|].
      intros Et' Hh. rewrite (lock_none_no_holder s th' t' HL El Et') in Hh. discriminate.
    + intros th' t'. rewrite get_set. destruct (N.eqb_spec th th') as [<-|Hne]; [|apply (li_unl _ HL)].
      intros Et'. injection Et' as <-. cbn. rewrite Hp. discriminate.
    + intros th' order Ha. destruct (li_sd _ HL th' order Ha) as (t & Et & Hd). rewrite get_set.
      destruct (N.eqb_spec th th') as [<-|Hne]; [|eauto]. exfalso.
      rewrite (get_thread_some _ _ _ Et) in E. rewrite E in Hd. discriminate.
  - destruct (ordered _); apply LI_order; auto.
  - apply LI_end; auto. now rewrite E.
  - apply LI_end; auto. now rewrite E.
Qed.

Lemma LockInv_step s th e s' : LockInv s -> step s (th, e) = Some s' -> LockInv s'.
Proof.
  intros HL H. unfold step in H. cbn [fst snd] in H.
  eapply LockInv_core; [apply LockInv_flush; exact HL|apply flush_pend_none|exact H].
Qed.
