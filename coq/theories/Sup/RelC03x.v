(* C03x: the test-level oracle of Sup/Check.v (at shutdown_end NO command at all is alive and NO name is reported
   running) as a theorem.  Needs, besides the relation of RelC03b.v, facts about the observer's association LISTS. *)
From Coq Require Import List ZArith NArith Bool Lia.
From RecordUpdate Require Import RecordSet.
From PC.Base Require Import Assoc.
From PC.Sup Require Import Model Monitors MonC12w Check Tactics Sim ObsFacts Effects RelCore LemC03 RelC03 RelC03b.
Import ListNotations RecordSetNotations.

(* ---- association lists: keys ------------------------------------------------------------------------------------------ *)
Fixpoint nodupN (l : list N) : bool := match l with [] => true | a :: r => negb (memN a r) && nodupN r end.
Lemma nodupN_spec l : nodupN l = true -> NoDup l.
Proof.
  induction l as [|a r IH]; cbn; [constructor|]. intros H. apply andb_true_iff in H. destruct H as [H1 H2].
  constructor; [|auto]. intros Hin. apply memN_In in Hin. rewrite Hin in H1. discriminate.
Qed.
Definition wf_confs (cs : amap pconf) : bool := nodupN (keys cs).

Section Keys.
Context {V : Type}.
Lemma get_notin k (m : amap V) : get k m = None -> ~ In k (keys m).
Proof.
  induction m as [|[k' v] r IH]; cbn; [tauto|]. destruct (N.eqb_spec k' k); [discriminate|]. intros H [E|Hin]; [congruence|]. now apply IH.
Qed.
Lemma in_keys_get k (m : amap V) : In k (keys m) -> exists v, get k m = Some v.
Proof.
  induction m as [|[k' v] r IH]; cbn; [tauto|]. destruct (N.eqb_spec k' k); [eauto|]. intros [E|Hin]; [congruence|auto].
Qed.
Lemma keys_set k v (m : amap V) : keys (set k v m) = match get k m with Some _ => keys m | None => keys m ++ [k] end.
Proof.
  unfold keys. induction m as [|[k' v'] r IH]; cbn; [reflexivity|]. destruct (N.eqb_spec k' k); cbn; [subst; reflexivity|].
  rewrite IH. destruct (get k r); reflexivity.
Qed.
Lemma nodup_snoc (l : list N) k : NoDup l -> ~ In k l -> NoDup (l ++ [k]).
Proof.
  induction l as [|a r IH]; cbn; intros Hn Hk; [constructor; [tauto|constructor]|].
  inversion Hn; subst. constructor; [|apply IH; tauto]. rewrite in_app_iff. cbn. intros [H|[H|[]]]; [tauto|]. apply Hk. now left.
Qed.
Lemma nodup_set k v (m : amap V) : NoDup (keys m) -> NoDup (keys (set k v m)).
Proof.
  intros H. rewrite keys_set. destruct (get k m) eqn:E; [exact H|].
  apply nodup_snoc; [exact H|]. now apply get_notin.
Qed.
Lemma in_get k v (m : amap V) : NoDup (keys m) -> In (k, v) m -> get k m = Some v.
Proof.
  induction m as [|[k' v'] r IH]; cbn; [tauto|]. intros Hn [E|Hin].
  - injection E as -> ->. now rewrite N.eqb_refl.
  - inversion Hn as [|? ? Hni Hnr]; subst. destruct (N.eqb_spec k' k); [subst; exfalso; apply Hni; change k with (fst (k, v)); now apply in_map|auto].
Qed.
End Keys.
Lemma keys_map_snd {V W} (f : N * V -> W) (m : amap V) : keys (map (fun p => (fst p, f p)) m) = keys m.
Proof. unfold keys. rewrite map_map. reflexivity. Qed.

(* ---- the observer's lists keep their keys ------------------------------------------------------------------------------ *)
Lemma keys_oi_upd i f o : keys (oi (oi_upd i f o)) = keys (oi o).
Proof.
  unfold oi_upd. destruct (get i (oi o)) as [x|] eqn:E; [|reflexivity].
  change (keys (set i (f x) (oi o)) = keys (oi o)). now rewrite keys_set, E.
Qed.
Lemma keys_onm_upd n f o : keys (onm (on_upd n f o)) = keys (onm o).
Proof.
  unfold on_upd. destruct (get n (onm o)) as [x|] eqn:E; [|reflexivity].
  change (keys (set n (f x) (onm o)) = keys (onm o)). now rewrite keys_set, E.
Qed.
Lemma keys_oi_fold (f : oinst -> oinst) l o : keys (oi (fold_left (fun o i => oi_upd i f o) l o)) = keys (oi o).
Proof. apply (fold_oi_upd_proj (fun o => keys (oi o))). intros. apply keys_oi_upd. Qed.
Lemma onm_fold (f : oinst -> oinst) l o : onm (fold_left (fun o i => oi_upd i f o) l o) = onm o.
Proof. apply (fold_oi_upd_proj onm). intros. apply oi_upd_onm. Qed.
#[export] Hint Rewrite keys_oi_upd keys_onm_upd keys_oi_fold onm_fold : obsf.

Lemma obs_pre_keys cs o th e : match e with ENewInst _ _ => False | _ => True end ->
  keys (oi (obs_pre cs o (th, e))) = keys (oi o) /\ keys (onm (obs_pre cs o (th, e))) = keys (onm o).
Proof.
  intros Hne. destruct e; try contradiction; obs_cases o th; try (split; reflexivity).
  all: repeat match goal with |- context[if ?b then _ else _] => destruct b end; cbn; autorewrite with obsf; cbn; try (split; reflexivity).
  split; [|reflexivity]. exact (keys_oi_fold _ order _).
Qed.

Definition OKo (cs : amap pconf) (o : obs) : Prop := NoDup (keys (oi o)) /\ keys (onm o) = keys cs.

Lemma OKo_init cs : OKo cs (obs0 cs).
Proof. split; [constructor|]. cbn. apply (keys_map_snd (fun p => mkON (if deferred (snd p) then SDisabled else SPending) 0 false 0)). Qed.

Lemma keys_refresh o : keys (oi (refresh_succ o)) = keys (oi o).
Proof. unfold refresh_succ, keys. cbn. rewrite map_map. reflexivity. Qed.

Lemma OKo_step cs o te : OKo cs o -> OKo cs (obs_step cs o te).
Proof.
  intros [A B]. destruct te as [th e]. rewrite obs_step_pre. unfold OKo. rewrite keys_refresh.
  change (onm (refresh_succ (obs_pre cs o (th, e)))) with (onm (obs_pre cs o (th, e))).
  destruct e; try (match goal with |- context[obs_pre cs o (th, ?ee)] => destruct (obs_pre_keys cs o th ee I) as [E1 E2] end; rewrite E1, E2; auto; fail).
  cbn [obs_pre fst snd oi onm]. split; [|exact B]. change (NoDup (keys (set i (mkOI n (o_cnt o) 0 false None None false false false false false false false 0 false false
    (match get th (o_api o) with Some OpRun | None => false | Some _ => true end) false false false []) (oi o)))). now apply nodup_set.
Qed.

Section C03x.
Context (cs : amap pconf) (Hwf : wf_confs cs = true).

Definition R5 (s : sys) (o : obs) : Prop := R4 cs s o /\ OKo cs o.

Lemma mon_x s o th e s' : Rc cs s o -> Inv s o -> Inv2 s o -> Inv3 s -> OKo cs o -> step_core s th e = Some s' ->
  mon_C03x cs o (th, e) = true.
Proof.
  intros HRc HI [HB HA HP] I3 [ND KO] H. unfold mon_C03x. cbn [snd]. destruct e; try reflexivity.
  destruct (sdend_guard _ _ _ H) as (order & Hdp & Had).
  assert (Hin : forall j y, get j (insts s) = Some y -> (exists t, get t (thinst s) = Some j) -> gonepc (pc y) = false -> l_done y = true).
  { intros j y Hy Hb Hg. pose proof (iv_snap _ I3 th order Hdp j y Hy (or_intror Hb) Hg) as Hm.
    destruct (all_done_in _ _ _ Had Hm) as (y2 & Hy2 & Hd2). congruence. }
  apply andb_true_iff. split; apply forallb_forall.
  - intros [i xo] Hi. cbn. apply (in_get _ _ _ ND) in Hi.
    destruct (get i (insts s)) as [x|] eqn:Hx; [|rewrite (rc_noinst _ _ _ HRc i Hx) in Hi; discriminate].
    pose proof (iv_inst _ _ HI i x xo Hx Hi) as P. rewrite (pi_alive _ _ _ P). destruct (alive x) eqn:Ea; [|reflexivity]. exfalso.
    pose proof (pi_pc _ _ _ P) as B. rewrite Ea in B. specialize (B eq_refl).
    assert (Hpa : pc x = IAlive) by (destruct (pc x); try discriminate; reflexivity).
    destruct (HB i x Hx) as [(t & Hpt)|Hb]; [congruence|].
    assert (Hd : l_done x = true) by (apply (Hin i x Hx Hb); rewrite Hpa; reflexivity).
    pose proof (pi_done _ _ _ P Hd) as Hnl. rewrite (nl_not_alive _ Hnl) in B. discriminate.
  - intros [n r] Hn. cbn.
    assert (Hndo : NoDup (keys (onm o))) by (rewrite KO; apply nodupN_spec, Hwf).
    pose proof (in_get _ _ _ Hndo Hn) as Hr.
    assert (Hk : In n (keys cs)). { rewrite <- KO. change n with (fst (n, r)). apply in_map. exact Hn. }
    destruct (in_keys_get _ _ Hk) as (c & Hc).
    destruct (rc_name _ _ _ HRc _ _ Hc) as (v & r' & Hv & Hr' & _ & Hst & _). assert (r' = r) by congruence. subst r'.
    rewrite Hst. destruct (is_running_status (st v)) eqn:Hrun; [|reflexivity]. exfalso.
    destruct (iv_run _ _ HI _ _ Hv Hrun) as (j & y & Hy & _ & Hdy & Hrp).
    destruct (HB j y Hy) as [(t & Hpt)|Hb]; [rewrite Hpt in Hrp; discriminate|].
    rewrite (Hin j y Hy Hb (run_not_gone _ Hrp)) in Hdy. discriminate.
Qed.

Lemma R5_init ord : R5 (init cs ord) (obs0 cs).
Proof. split; [apply R4_init|apply OKo_init]. Qed.

Lemma R5_step_mon s o e s' : R5 s o -> step s e = Some s' ->
  W_C03 (obs_step cs o e) = false -> escape_C03 o e = false -> R5 s' (obs_step cs o e) /\ mon_C03x cs o e = true.
Proof.
  destruct e as [th e]. intros [HR HO] H HW Hesc. split; [split; [eapply R4_step; eauto|now apply OKo_step]|].
  destruct HR as (HRc & HI & HI2 & HI3). unfold step in H. cbn [fst snd] in H.
  eapply (mon_x (flush th s)); eauto.
  - eapply Rc_sys_same; eauto using sys_same_flush.
  - now apply Inv_flush.
  - now apply Inv2_flush.
  - now apply Inv3_flush.
Qed.
End C03x.

Theorem C03x_partial_lemma : forall cs ord evs s,
  wf_confs cs = true ->
  accept (init cs ord) evs = Some s ->
  W_C03 (final_obs cs evs) = false ->
  escapes_C03 cs evs = false ->
  holds_C03x cs evs = true.
Proof.
  intros cs ord evs s Hwf Hacc HW Hesc. unfold holds_C03x.
  apply (xsim_holds cs ord (R5 cs) (mon_C03x cs) W_C03 escape_C03 (R5_init cs ord) (R5_step_mon cs Hwf) (W_C03_mono cs) evs s Hacc HW Hesc).
Qed.
Print Assumptions C03x_partial_lemma.

(* ---- the same without the escape hypothesis: only the windows and distinct names ---------------------------------------- *)
Lemma c_beg_flush th s : c_beg s -> c_beg (flush th s).
Proof.
  intros HB i x' Hx'. destruct (flush_bwd _ _ _ _ Hx') as (x & Hx & (_ & Ep & _)). rewrite flush_thinst, Ep. eauto.
Qed.

Lemma c_beg_core s th e s' : c_beg s -> step_core s th e = Some s' -> c_beg s'.
Proof.
  intros HB H. destruct (own_ev e) eqn:Hev.
  - rewrite step_core_own in H by exact Hev.
    destruct (step_own_mono _ _ _ _ H) as (i & x & x' & Hth & Hx & Hx' & Hoth & _).
    destruct (step_own_cpc _ _ _ _ H) as [Eti _].
    intros j y' Hy'. rewrite Eti. destruct (N.eq_dec j i) as [->|Hne]; [right; eauto|]. rewrite (Hoth j Hne) in Hy'. eauto.
  - pose proof (step_core_thinst _ _ _ _ H Hev) as Hti. pose proof (step_core_cpc _ _ _ _ H Hev) as Hcp.
    intros j x' Hx'.
    destruct (step_core_inst_bwd _ _ _ _ H Hev j x' Hx') as [(x & Hx & L)|(Hnx & n & c & -> & Hc & ->)].
    + destruct (Hcp j x x' Hx Hx') as [[Ep|Hown] _].
      * rewrite Ep. destruct (HB j x Hx) as [Hd|(t & Ht)]; [left; exact Hd|right; exists t; auto].
      * right. exists th. auto.
    + left. cbn. eauto.
Qed.

Section C03xw.
Context (cs : amap pconf) (Hwf : wf_confs cs = true).
Definition R6 (s : sys) (o : obs) : Prop := Rc cs s o /\ Inv s o /\ c_beg s /\ Inv3 s /\ OKo cs o.
Definition nobad (o : obs) (te : tid * event) : bool := false.

Lemma mon_x' s o th e s' : Rc cs s o -> Inv s o -> c_beg s -> Inv3 s -> OKo cs o -> step_core s th e = Some s' ->
  mon_C03x cs o (th, e) = true.
Proof.
  intros HRc HI HB I3 [ND KO] H. unfold mon_C03x. cbn [snd]. destruct e; try reflexivity.
  destruct (sdend_guard _ _ _ H) as (order & Hdp & Had).
  assert (Hin : forall j y, get j (insts s) = Some y -> (exists t, get t (thinst s) = Some j) -> gonepc (pc y) = false -> l_done y = true).
  { intros j y Hy Hb Hg. pose proof (iv_snap _ I3 th order Hdp j y Hy (or_intror Hb) Hg) as Hm.
    destruct (all_done_in _ _ _ Had Hm) as (y2 & Hy2 & Hd2). congruence. }
  apply andb_true_iff. split; apply forallb_forall.
  - intros [i xo] Hi. cbn. apply (in_get _ _ _ ND) in Hi.
    destruct (get i (insts s)) as [x|] eqn:Hx; [|rewrite (rc_noinst _ _ _ HRc i Hx) in Hi; discriminate].
    pose proof (iv_inst _ _ HI i x xo Hx Hi) as P. rewrite (pi_alive _ _ _ P). destruct (alive x) eqn:Ea; [|reflexivity]. exfalso.
    pose proof (pi_pc _ _ _ P) as B. rewrite Ea in B. specialize (B eq_refl).
    assert (Hpa : pc x = IAlive) by (destruct (pc x); try discriminate; reflexivity).
    destruct (HB i x Hx) as [(t & Hpt)|Hb]; [congruence|].
    assert (Hd : l_done x = true) by (apply (Hin i x Hx Hb); rewrite Hpa; reflexivity).
    pose proof (pi_done _ _ _ P Hd) as Hnl. rewrite (nl_not_alive _ Hnl) in B. discriminate.
  - intros [n r] Hn. cbn.
    assert (Hndo : NoDup (keys (onm o))) by (rewrite KO; apply nodupN_spec, Hwf).
    pose proof (in_get _ _ _ Hndo Hn) as Hr.
    assert (Hk : In n (keys cs)). { rewrite <- KO. change n with (fst (n, r)). apply in_map. exact Hn. }
    destruct (in_keys_get _ _ Hk) as (c & Hc).
    destruct (rc_name _ _ _ HRc _ _ Hc) as (v & r' & Hv & Hr' & _ & Hst & _). assert (r' = r) by congruence. subst r'.
    rewrite Hst. destruct (is_running_status (st v)) eqn:Hrun; [|reflexivity]. exfalso.
    destruct (iv_run _ _ HI _ _ Hv Hrun) as (j & y & Hy & _ & Hdy & Hrp).
    destruct (HB j y Hy) as [(t & Hpt)|Hb]; [rewrite Hpt in Hrp; discriminate|].
    rewrite (Hin j y Hy Hb (run_not_gone _ Hrp)) in Hdy. discriminate.
Qed.

Lemma R6_init ord : R6 (init cs ord) (obs0 cs).
Proof.
  split; [apply Rc_init|]. split; [apply Inv_init|]. split; [intros i x H; cbn in H; discriminate|].
  split; [apply Inv3_init|apply OKo_init].
Qed.

Lemma R6_step_mon s o e s' : R6 s o -> step s e = Some s' ->
  W_C03 (obs_step cs o e) = false -> nobad o e = false -> R6 s' (obs_step cs o e) /\ mon_C03x cs o e = true.
Proof.
  destruct e as [th e]. intros (HRc & HI & HB & HI3 & HO) H HW _.
  assert (HRc0 : Rc cs (flush th s) o) by (eapply Rc_sys_same; eauto using sys_same_flush).
  assert (HI0 : Inv (flush th s) o) by now apply Inv_flush.
  assert (HB0 : c_beg (flush th s)) by now apply c_beg_flush.
  assert (HI30 : Inv3 (flush th s)) by now apply Inv3_flush.
  assert (Hpn : pend (get_thread (flush th s) th) = None).
  { destruct (flush_thread th s th) as (_ & _ & _ & Ep). rewrite Ep, N.eqb_refl. reflexivity. }
  pose proof H as H0. unfold step in H0. cbn [fst snd] in H0.
  split; [|eapply (mon_x' (flush th s)); eauto].
  split; [exact (Rc_step cs s o th e s' HRc H)|]. split.
  { rewrite obs_step_pre in *. apply Inv_refresh. eapply (Inv_core cs (flush th s)); eauto. }
  split; [eapply c_beg_core; eauto|]. split; [eapply (Inv3_core (flush th s) o); eauto|now apply OKo_step].
Qed.
End C03xw.

Lemma nobad_run cs : forall evs o, bad_run cs nobad o evs = false.
Proof. induction evs as [|e r IH]; intros o; cbn; auto. Qed.

Theorem C03x_lemma : forall cs ord evs s,
  wf_confs cs = true ->
  accept (init cs ord) evs = Some s ->
  W_C03 (final_obs cs evs) = false ->
  holds_C03x cs evs = true.
Proof.
  intros cs ord evs s Hwf Hacc HW. unfold holds_C03x.
  apply (xsim_holds cs ord (R6 cs) (mon_C03x cs) W_C03 nobad (R6_init cs ord) (R6_step_mon cs Hwf) (W_C03_mono cs) evs s Hacc HW (nobad_run cs evs _)).
Qed.
Print Assumptions C03x_lemma.

