(* C04, liveness half: ENABLEDNESS facts of the model (no fairness, no termination argument).
   1. Run() is not blocked once every goroutine that was started has executed its waitGroup.Done()
      ([run_can_return]);
   2. an instance that waits for a dependency is not blocked once that dependency has gone through
      onProcessEnd, whatever the condition ([waiter_released]).
   Both are statements about every state reachable by an accepted history.  Statements: Props/C04.v. *)
From Coq Require Import List ZArith NArith Bool Lia.
From RecordUpdate Require Import RecordSet.
From PC.Base Require Import Assoc.
From PC.Sup Require Import Model Monitors Tactics Sim ObsFacts Effects RelCore
  LemC04 LemC04i LemC04s LemC04t LemC04n LemC04g LemC04o LemC04c RelC04.
Import ListNotations RecordSetNotations.

(* ---- lists ------------------------------------------------------------------------------------------ *)
Lemma rem1_notin k l : NoDup l -> ~ In k (rem1 k l).
Proof.
  induction l as [|a r IH]; cbn; [tauto|]. intros H. inversion H as [|? ? Hn Hr]; subst.
  destruct (N.eqb_spec a k); [subst; exact Hn|]. intros [E|E]; [contradiction|now apply IH].
Qed.
Lemma rem1_nodup k l : NoDup l -> NoDup (rem1 k l).
Proof.
  induction l as [|a r IH]; cbn; [auto|]. intros H. inversion H as [|? ? Hn Hr]; subst.
  destruct (N.eqb_spec a k); [exact Hr|]. constructor; [|auto]. intros E. apply Hn. eapply rem1_incl; eauto.
Qed.

(* ---- the converse of the token clauses of R4: who holds a wait-group token ---------------------------- *)
Definition holder (s : sys) (g : ghost) (i : iid) : Prop :=
  (exists c, get i (stage s) = Some (c, 3)) \/
  (exists th x, get th (thinst s) = Some i /\ get i (insts s) = Some x /\
                (cl (pc x) <> CRel \/ memN th (g_wp g) = true)).

Record R5 (s : sys) (g : ghost) : Prop := mkR5 {
  r5_nodup : NoDup (g_sp g);
  r5_holder : forall i, In i (g_sp g) -> holder s g i;
  r5_stage : forall i v, get i (stage s) = Some v -> exists x, get i (insts s) = Some x
}.

Lemma gflush_sp o th g :
  g_sp (gflush o th g) = if memN th (g_wp g)
                         then match get th (o_th o) with Some i => rem1 i (g_sp g) | None => g_sp g end
                         else g_sp g.
Proof. unfold gflush. destruct (memN th (g_wp g)); cbn -[memN removeN rem1]; match goal with |- context[if ?b then _ else _] => destruct b end; reflexivity. Qed.
Lemma gflush_wp o th g :
  g_wp (gflush o th g) = if memN th (g_wp g) then removeN th (g_wp g) else g_wp g.
Proof. unfold gflush. destruct (memN th (g_wp g)); cbn -[memN removeN rem1]; match goal with |- context[if ?b then _ else _] => destruct b end; reflexivity. Qed.

Section En.
Context (cs : amap pconf).

Lemma R5_flush s o g th : R4 cs s o g -> R5 s g -> R5 (flush th s) (gflush o th g).
Proof.
  intros HR [N1 N2 N3]. destruct (flush_spec th s) as (F1 & F2 & _).
  assert (Hins : forall j x, get j (insts s) = Some x -> exists x', get j (insts (flush th s)) = Some x' /\ pc x' = pc x).
  { intros j x Hx. specialize (F2 j). rewrite Hx in F2. destruct F2 as (x' & ? & ? & _). eauto. }
  assert (Hhold : forall i, holder s g i ->
            (forall t, get t (thinst s) = Some i -> memN t (g_wp g) = true -> memN t (g_wp (gflush o th g)) = true) ->
            holder (flush th s) (gflush o th g) i).
  { intros i [(c & Hc)|(t & x & Ht & Hx & Hd)] Hw.
    - left. exists c. now rewrite flush_stage.
    - right. destruct (Hins _ _ Hx) as (x' & Hx' & Ep). exists t, x'. rewrite F1, Ep. repeat split; auto.
      destruct Hd as [Hd|Hd]; [now left|right; now apply Hw]. }
  constructor.
  - rewrite gflush_sp. destruct (memN th (g_wp g)); [|exact N1]. destruct (get th (o_th o)); [now apply rem1_nodup|exact N1].
  - intros i Hi. rewrite gflush_sp in Hi. destruct (memN th (g_wp g)) eqn:Hw.
    + destruct (r_pend _ _ _ _ HR th (or_introl Hw)) as (i0 & x0 & Hti & Hx0 & _).
      assert (Hoth : get th (o_th o) = Some i0) by (now rewrite <- (rc_th _ _ _ (r_core _ _ _ _ HR))).
      rewrite Hoth in Hi. assert (Hne : i <> i0) by (intros ->; exact (rem1_notin _ _ N1 Hi)).
      apply Hhold; [apply N2; eapply rem1_incl; eauto|].
      intros t Ht Hm. rewrite gflush_wp, Hw. rewrite memN_removeN_other; [exact Hm|]. intros ->. congruence.
    + apply Hhold; [now apply N2|]. intros t _ Hm. now rewrite gflush_wp, Hw.
  - intros i v. rewrite flush_stage. intros Hv. destruct (N3 i v Hv) as (x & Hx). destruct (Hins _ _ Hx) as (x' & ? & _). eauto.
Qed.

Lemma R5_core s o g th e s' : R4 cs s o g -> R5 s g -> pend (get_thread s th) = None ->
  step_core s th e = Some s' -> R5 s' (gcore o th e g).
Proof.
  intros HR [N1 N2 N3] Hp H.
  pose proof (core_inst_eff' _ _ _ _ H) as HI. pose proof (core_stage _ _ _ _ H) as HSt.
  destruct (core_scal _ _ _ _ H) as (_ & _ & _ & Sthi & _).
  assert (HRc0 := r_core _ _ _ _ HR).
  assert (Hwf : memN th (g_wp g) = false).
  { destruct (memN th (g_wp g)) eqn:E; [|reflexivity]. apply (r_wp _ _ _ _ HR) in E. rewrite Hp in E. discriminate. }
  assert (Hthi_mono : forall t j, get t (thinst s) = Some j -> get t (thinst s') = Some j).
  { intros t j Ht. rewrite Sthi. destruct e; auto. rewrite get_set. destruct (N.eqb_spec th t); [|auto].
    subst t. destruct (g_begin _ _ _ _ H) as (x & _ & Hn & _). congruence. }
  assert (Gwp : forall t, memN t (g_wp g) = true -> memN t (g_wp (gcore o th e g)) = true).
  { intros t Ht. destruct e; cbn -[memN]; auto. rewrite memN_cons, Ht. apply orb_true_r. }
  (* an unbegun instance is in the dependency phase *)
  assert (Hpre : forall j x, get j (insts s) = Some x -> (forall t, get t (thinst s) <> Some j) -> cl (pc x) = CPre).
  { intros j x Hx Hnb. destruct (rc_inst _ _ _ HRc0 j x Hx) as (xo & Hxo & _).
    destruct (r_inst _ _ _ _ HR j x xo Hx Hxo) as (_ & _ & _ & D & _).
    destruct (cl (pc x)) eqn:E; try reflexivity; destruct D as (t & Ht); try discriminate; exfalso; eapply Hnb; eauto. }
  assert (Hhold : forall j, holder s g j -> holder s' (gcore o th e g) j).
  { intros j [(c & Hc)|(t & x & Ht & Hx & Hd)].
    - (* spawned, not begun *)
      unfold stage_eff in HSt. destruct (N3 j _ Hc) as (x & Hx).
      assert (Hsame : stage s' = stage s -> holder s' (gcore o th e g) j) by (intros E; left; exists c; now rewrite E).
      destruct e; try (now apply Hsame).
      + destruct (newinst_eff _ _ _ _ _ H) as (Hnone & _). left. exists c. rewrite HSt, get_set.
        destruct (N.eqb_spec i j); [subst; congruence|exact Hc].
      + destruct HSt as [HSt Hg]. left. exists c. rewrite HSt, get_set. destruct (N.eqb_spec i j); [subst; congruence|exact Hc].
      + destruct HSt as [HSt Hg]. left. exists c. rewrite HSt, get_set. destruct (N.eqb_spec i j); [subst; congruence|exact Hc].
      + destruct HSt as [HSt _]. destruct (N.eqb_spec i j) as [->|Hne].
        * (* the goroutine begins: it now holds the token as a begun instance *)
          right. destruct (g_begin _ _ _ _ H) as (x0 & Hx0 & Hnth & _ & Hnb).
          destruct (HI j x Hx) as (x' & Hx' & Ecl & _).
          assert (Eow : own (thinst s) th j = false) by (apply own_false_of; congruence). rewrite Eow in Ecl.
          exists th, x'. rewrite Sthi, get_set_same. repeat split; auto. left. rewrite Ecl, (Hpre j x Hx); [discriminate|].
          intros t Ht. eapply Hnb; eauto.
        * left. exists c. rewrite HSt, get_del_other; auto.
      + destruct HSt as [HSt|[HSt Hg]]; [now apply Hsame|]. left. exists c. rewrite HSt, get_set.
        destruct (N.eqb_spec i j); [subst; congruence|exact Hc].
    - (* begun *)
      right. destruct (HI j x Hx) as (x' & Hx' & Ecl & _). exists t, x'. split; [now apply Hthi_mono|]. split; [exact Hx'|].
      destruct (N.eqb_spec t th) as [->|Hne].
      + assert (Eow : own (thinst s) th j = true) by (now apply own_true). rewrite Eow in Ecl.
        destruct Hd as [Hd|Hd]; [|congruence].
        destruct (cl (pc x') ) eqn:Ec'; try (left; discriminate).
        symmetry in Ecl. destruct (cl_next_rel _ _ Ecl) as [->|Hc]; [|contradiction].
        right. cbn -[memN]. rewrite memN_cons, N.eqb_refl. reflexivity.
      + assert (Eow : own (thinst s) th j = false).
        { apply own_false_of. intros Hc. apply Hne. eapply (r_inj _ _ _ _ HR); eauto. }
        rewrite Eow in Ecl. rewrite Ecl. destruct Hd as [Hd|Hd]; [now left|right; now apply Gwp]. }
  constructor.
  - (* NoDup: an instance is spawned once *)
    destruct e; try exact N1. cbn. constructor; [|exact N1]. intros Hin.
    cbn in HSt. destruct HSt as [_ Hg].
    destruct (N2 i Hin) as [(c & Hc)|(t & x & Ht & _)]; [congruence|].
    rewrite (r_nostage _ _ _ _ HR t i Ht) in Hg. discriminate.
  - intros j Hj. destruct e; try (now apply Hhold, N2).
    cbn in Hj. destruct Hj as [<-|Hj]; [|now apply Hhold, N2].
    left. cbn in HSt. destruct HSt as [HSt _]. exists th. now rewrite HSt, get_set_same.
  - intros j v Hv. unfold stage_eff in HSt.
    assert (Hold : forall w, get j (stage s) = Some w -> exists x, get j (insts s') = Some x).
    { intros w Hw. destruct (N3 j w Hw) as (x & Hx). destruct (HI j x Hx) as (x' & Hx' & _). eauto. }
    destruct e; try (rewrite HSt in Hv; now apply (Hold v)).
    + rewrite HSt, get_set in Hv. destruct (N.eqb_spec i j); [|now apply (Hold v)]. subst.
      destruct (newinst_eff _ _ _ _ _ H) as (_ & c & Hget). rewrite Hget, N.eqb_refl. eauto.
    + destruct HSt as [HSt Hg]. rewrite HSt, get_set in Hv. destruct (N.eqb_spec i j); [subst; now apply (Hold _ Hg)|now apply (Hold v)].
    + destruct HSt as [HSt Hg]. rewrite HSt, get_set in Hv. destruct (N.eqb_spec i j); [subst; now apply (Hold _ Hg)|now apply (Hold v)].
    + destruct HSt as [HSt _]. rewrite HSt, get_del in Hv. destruct (N.eqb i j); [discriminate|now apply (Hold v)].
    + destruct HSt as [HSt|[HSt Hg]]; rewrite HSt in Hv; [now apply (Hold v)|].
      rewrite get_set in Hv. destruct (N.eqb_spec i j); [subst; now apply (Hold _ Hg)|now apply (Hold v)].
Qed.

Lemma R5_init ord : R5 (init cs ord) ghost0.
Proof. constructor; cbn; [constructor|tauto|discriminate]. Qed.

(* every state reached by an accepted history is related to some observer and ghost *)
Lemma R45_run : forall evs s o g s', R4 cs s o g -> R5 s g -> accept s evs = Some s' ->
  exists o' g', R4 cs s' o' g' /\ R5 s' g'.
Proof.
  induction evs as [|[th e] r IH]; intros s o g s' HR H5 Hacc; cbn in Hacc.
  - injection Hacc as <-. eauto.
  - destruct (step s (th, e)) as [s1|] eqn:Es; [|discriminate].
    destruct (R4_step cs _ _ _ _ _ HR Es) as (HR1 & _).
    destruct (R4_flush cs _ _ _ th HR) as (HR0 & Hp0).
    pose proof (R5_flush _ _ _ th HR H5) as H50.
    unfold step in Es. cbn [fst snd] in Es.
    pose proof (R5_core _ _ _ _ _ _ HR0 H50 Hp0 Es) as H51.
    exact (IH _ _ _ _ HR1 H51 Hacc).
Qed.

Lemma reach ord evs s : accept (init cs ord) evs = Some s -> exists o g, R4 cs s o g /\ R5 s g.
Proof. intros H. eapply R45_run; [apply R4_init|apply R5_init|exact H]. Qed.
End En.

(* ---- 1. Run() is not blocked ------------------------------------------------------------------------ *)
(* nothing of Run()'s wait group is outstanding: no goroutine has been spawned that has not begun, and every
   goroutine that began has reached inst_exit and executed the waitGroup.Done() that follows it *)
Definition wg_quiet (s : sys) : Prop :=
  (forall i c, get i (stage s) <> Some (c, 3)) /\
  (forall t i x, get t (thinst s) = Some i -> get i (insts s) = Some x ->
     (pc x = IWgDone \/ pc x = IGone) /\ pend (get_thread s t) <> Some RWgDone).

Definition wg_quiet_b (s : sys) : bool :=
  forallb (fun p => negb (Nat.eqb (snd (snd p)) 3)) (stage s) &&
  forallb (fun p => match get (snd p) (insts s) with
                    | Some x => (match pc x with IWgDone | IGone => true | _ => false end) &&
                                (match pend (get_thread s (fst p)) with Some RWgDone => false | _ => true end)
                    | None => true end) (thinst s).

Lemma wg_quiet_b_spec s : wg_quiet_b s = true -> wg_quiet s.
Proof.
  unfold wg_quiet_b. intros H. apply andb_true_iff in H. destruct H as [H1 H2]. rewrite forallb_forall in H1, H2. split.
  - intros i c Hc. apply get_in in Hc. specialize (H1 _ Hc). cbn in H1. discriminate.
  - intros t i x Ht Hx. apply get_in in Ht. specialize (H2 _ Ht). cbn in H2. rewrite Hx in H2.
    apply andb_true_iff in H2. destruct H2 as [A B]. split.
    + destruct (pc x); try discriminate; auto.
    + intros E. rewrite E in B. discriminate.
Qed.

Lemma pk_pw r : pk r = PW -> r = Some RWgDone.
Proof. destruct r as [[]|]; cbn; congruence. Qed.

Theorem run_can_return : forall cs ord evs s th,
  accept (init cs ord) evs = Some s ->
  apc (get_thread s th) = ARunWait -> wg_quiet s ->
  exists s', step s (th, ERunReturn (proj_code s)) = Some s'.
Proof.
  intros cs ord evs s th Hacc Hapc [Q1 Q2]. destruct (reach cs ord evs s Hacc) as (o & g & HR & [N1 N2 N3]).
  assert (Hsp : g_sp g = []).
  { destruct (g_sp g) as [|i l] eqn:E; [reflexivity|]. exfalso.
    destruct (N2 i) as [(c & Hc)|(t & x & Ht & Hx & Hd)]; [now left|exact (Q1 _ _ Hc)|].
    destruct (Q2 _ _ _ Ht Hx) as (Hpc & Hpe). destruct Hd as [Hd|Hd].
    - apply Hd. destruct Hpc as [-> | ->]; reflexivity.
    - apply (r_wp _ _ _ _ HR) in Hd. apply Hpe. now apply pk_pw. }
  assert (Hwg : wg s = 0) by (rewrite (r_wg _ _ _ _ HR), Hsp; reflexivity).
  (* the Run() thread is not an instance goroutine: it has no exitCodeOnce pending *)
  assert (Hnpc : forall c, pk (pend (get_thread s th)) <> PC c).
  { intros c Hc. assert (Hm : memN th (g_tp g) = true) by (apply (r_tp _ _ _ _ HR); eauto).
    destruct (r_pend _ _ _ _ HR th (or_intror Hm)) as (i & x & Ht & Hx & _).
    destruct (r_own _ _ _ _ HR th i x Ht Hx) as (_ & B & _). congruence. }
  destruct (flush_spec th s) as (_ & _ & F3 & F4 & _ & F6).
  assert (Hapc0 : apc (get_thread (flush th s) th) = ARunWait) by (rewrite F3, N.eqb_refl; exact Hapc).
  assert (Hwg0 : wg (flush th s) = 0) by (rewrite F4, Hwg; destruct (pk _); reflexivity).
  assert (Hpc0 : proj_code (flush th s) = proj_code s).
  { rewrite F6. destruct (pk (pend (get_thread s th))) eqn:E; try reflexivity. exfalso. eapply Hnpc; eauto. }
  unfold step. cbn [fst snd]. unfold step_core, step_api. rewrite Hapc0, Hwg0, Hpc0, Z.eqb_refl. cbn. eauto.
Qed.
(*STOP*)
