(* C04, liveness half: ENABLEDNESS facts of the model (no fairness, no termination argument).
   1. Run() is not blocked once every goroutine that was started has executed its waitGroup.Done()
      ([run_can_return]);
   2. an instance that waits for a dependency is not blocked once that dependency has gone through
      onProcessEnd, whatever the condition ([waiter_released]).
   Both are statements about every state reachable by an accepted history.  Statements: Props/C04.v. *)
From Coq Require Import List ZArith NArith Bool Lia.
From RecordUpdate Require Import RecordSet.
From PC.Base Require Import Assoc.
From PC.Sup Require Import Model Monitors Tactics Sim ObsFacts Effects RelCore
  LemC04 LemC04i LemC04s LemC04t LemC04n LemC04g LemC04o LemC04c LemC04l RelC04.
Import ListNotations RecordSetNotations.

(* ---- lists ------------------------------------------------------------------------------------------ *)
Lemma rem1_notin k l : NoDup l -> ~ In k (rem1 k l).
Proof.
  induction l as [|a r IH]; cbn; [tauto|]. intros H. inversion H as [|? ? Hn Hr]; subst.
  destruct (N.eqb_spec a k); [subst; exact Hn|]. intros [E|E]; [contradiction|now apply IH].
Qed.
Lemma rem1_nodup k l : NoDup l -> NoDup (rem1 k l).
Proof.
  induction l as [|a r IH]; cbn; [auto|]. intros H. inversion H as [|? ? Hn Hr]; subst.
  destruct (N.eqb_spec a k); [exact Hr|]. constructor; [|auto]. intros E. apply Hn. eapply rem1_incl; eauto.
Qed.

(* ---- the converse of the token clauses of R4: who holds a wait-group token ---------------------------- *)
Definition holder (s : sys) (g : ghost) (i : iid) : Prop :=
  (exists c, get i (stage s) = Some (c, 3)) \/
  (exists th x, get th (thinst s) = Some i /\ get i (insts s) = Some x /\
                (cl (pc x) <> CRel \/ memN th (g_wp g) = true)).

Record R5 (s : sys) (g : ghost) : Prop := mkR5 {
  r5_nodup : NoDup (g_sp g);
  r5_holder : forall i, In i (g_sp g) -> holder s g i;
  r5_stage : forall i v, get i (stage s) = Some v -> exists x, get i (insts s) = Some x
}.

Lemma gflush_sp o th g :
  g_sp (gflush o th g) = if memN th (g_wp g)
                         then match get th (o_th o) with Some i => rem1 i (g_sp g) | None => g_sp g end
                         else g_sp g.
Proof. unfold gflush. destruct (memN th (g_wp g)); cbn -[memN removeN rem1]; match goal with |- context[if ?b then _ else _] => destruct b end; reflexivity. Qed.
Lemma gflush_wp o th g :
  g_wp (gflush o th g) = if memN th (g_wp g) then removeN th (g_wp g) else g_wp g.
Proof. unfold gflush. destruct (memN th (g_wp g)); cbn -[memN removeN rem1]; match goal with |- context[if ?b then _ else _] => destruct b end; reflexivity. Qed.


(* ---- latches: an ended instance has released everything a dependent can wait on ----------------------- *)
Record R6 (s : sys) : Prop := mkR6 {
  r6_done : forall j y, get j (insts s) = Some y -> l_done y = true -> released y;
  r6_own : forall th i x, get th (thinst s) = Some i -> get i (insts s) = Some x -> inendf (pc x) = true ->
           pend (get_thread s th) = Some (REndEarly i) \/ released x;
  r6_spe : forall th i, spc (get_thread s th) = SPendE i ->
           exists x, get i (insts s) = Some x /\ (pend (get_thread s th) = Some (REndEarly i) \/ released x)
}.

Lemma R6_init cs ord : R6 (init cs ord).
Proof. constructor; cbn; try discriminate. Qed.

Lemma R6_flush s th : R6 s -> R6 (flush th s).
Proof.
  intros [D O P]. destruct (flush_spec th s) as (F1 & F2 & F3 & _).
  assert (Hback : forall j x', get j (insts (flush th s)) = Some x' -> exists x, get j (insts s) = Some x /\
            pc x' = pc x /\ l_done x' = l_done x /\ (released x -> released x') /\
            (pend (get_thread s th) = Some (REndEarly j) -> released x')).
  { intros j x' Hx'. specialize (F2 j). destruct (get j (insts s)) as [x|] eqn:Ex; [|congruence].
    destruct (flush_latch th s j x Ex) as (x2 & E2 & ?). assert (x2 = x') by congruence. subst. eauto. }
  assert (Hthr : forall t i x x', (pend (get_thread s t) = Some (REndEarly i) \/ released x) ->
            (released x -> released x') -> (pend (get_thread s th) = Some (REndEarly i) -> released x') ->
            pend (get_thread (flush th s) t) = Some (REndEarly i) \/ released x').
  { intros t i x x' [Hd|Hd] Hm Hf; [|right; auto]. rewrite F3. destruct (N.eqb_spec th t); [subst; right; auto|now left]. }
  constructor.
  - intros j y' Hy' Hd. destruct (Hback _ _ Hy') as (y & Hy & _ & Ed & Hm & _). apply Hm, (D j y Hy). congruence.
  - rewrite F1. intros t i x' Ht Hx' Hi. destruct (Hback _ _ Hx') as (x & Hx & Ep & _ & Hm & Hf).
    rewrite Ep in Hi. eapply Hthr; eauto.
  - intros t i Hs. assert (Hs0 : spc (get_thread s t) = SPendE i).
    { rewrite F3 in Hs. destruct (N.eqb_spec th t) as [->|Hne]; exact Hs. }
    destruct (P t i Hs0) as (x & Hx & Hd). destruct (flush_latch th s i x Hx) as (x' & Hx' & _ & _ & Hm & Hf).
    exists x'. split; [exact Hx'|]. eapply Hthr; eauto.
Qed.

Lemma g_procend s th i s0 s' : step_core s th (EProcEnd i s0) = Some s' -> exists x, get i (insts s) = Some x.
Proof. intros H. cbn in H. unfold step_procend in H. destruct (get i (insts s)); [eauto|discriminate]. Qed.

Lemma R6_core s th e s' : R6 s ->
  (forall t1 t2 i, get t1 (thinst s) = Some i -> get t2 (thinst s) = Some i -> t1 = t2) ->
  (forall t i, get t (thinst s) = Some i -> exists x, get i (insts s) = Some x) ->
  (forall j x, get j (insts s) = Some x -> (forall t, get t (thinst s) <> Some j) -> inendf (pc x) = false) ->
  pend (get_thread s th) = None -> step_core s th e = Some s' -> R6 s'.
Proof.
  intros [D O P] Hinj Hthi Hunb Hp H.
  pose proof (core_latch _ _ _ _ H) as HL. pose proof (core_spe _ _ _ _ H) as HS. pose proof (core_none _ _ _ _ H) as HN.
  destruct (core_scal _ _ _ _ H) as (_ & _ & _ & Sthi & Sthr).
  assert (Hrel : forall x x', (l_ready x = true -> l_ready x' = true) -> (l_runctx x = true -> l_runctx x' = true) ->
            (l_logready x <> None -> l_logready x' <> None) -> released x -> released x').
  { unfold released. intros x x' A B C (R1 & R2 & R3). auto. }
  assert (Hnop : forall t i, pend (get_thread s t) = Some (REndEarly i) -> t <> th) by (intros t i Hq ->; congruence).
  constructor.
  - intros j y' Hy' Hd. destruct (get j (insts s)) as [y|] eqn:Hy.
    + destruct (HL j y Hy) as (y2 & E2 & A & B & C & Dn & _). assert (y2 = y') by congruence. subst y2.
      apply (Hrel y y' A B C). destruct (Dn Hd) as [Hd0|[Hsp|(Ht & Hi)]].
      * now apply (D j y).
      * destruct (P th j Hsp) as (y0 & Hy0 & [Hq|Hq]); [congruence|]. congruence.
      * destruct (O th j y Ht Hy Hi) as [Hq|Hq]; [congruence|exact Hq].
    + destruct (is_newinst_dec e j) as [(n & ->)|Hno]; [|rewrite (HN j Hy Hno) in Hy'; discriminate].
      destruct (newinst_eff _ _ _ _ _ H) as (_ & c & Hget). rewrite Hget, N.eqb_refl in Hy'. injection Hy' as <-. discriminate Hd.
  - intros t i x' Ht Hx' Hi.
    assert (Hex : exists x, get i (insts s) = Some x).
    { destruct (get i (insts s)) as [x|] eqn:Hx; [eauto|exfalso].
      destruct (is_newinst_dec e i) as [(n & ->)|Hno]; [|rewrite (HN i Hx Hno) in Hx'; discriminate].
      rewrite Sthi in Ht. destruct (Hthi _ _ Ht) as (x0 & Hx0). congruence. }
    destruct Hex as (x & Hx). destruct (HL i x Hx) as (x2 & E2 & A & B & C & _ & Dn). assert (x2 = x') by congruence. subst x2.
    assert (Hold : get t (thinst s) = Some i \/ (e = EBegin i /\ t = th /\ forall t0, get t0 (thinst s) <> Some i)).
    { rewrite Sthi in Ht. destruct e; auto. rewrite get_set in Ht. destruct (N.eqb_spec th t); [|auto].
      injection Ht as <-. subst t. right. destruct (g_begin _ _ _ _ H) as (x0 & _ & _ & _ & Hnb). repeat split; auto.
      intros t0 Ht0. eapply Hnb; eauto. }
    destruct (Dn Hi) as [Hi0|(Hth & Hq)].
    + destruct Hold as [Ht0|(-> & -> & Hnb)]; [|rewrite (Hunb i x Hx Hnb) in Hi0; discriminate].
      destruct (O t i x Ht0 Hx Hi0) as [Hq|Hq]; [|right; now apply (Hrel x x' A B C)].
      left. rewrite (Sthr t (Hnop _ _ Hq)). exact Hq.
    + left. destruct Hold as [Ht0|(_ & -> & _)]; [|exact Hq]. now rewrite (Hinj _ _ _ Ht0 Hth).
  - intros t i Hs. destruct (N.eqb_spec t th) as [->|Hne].
    + destruct (HS i Hs) as [Hs0|(Hq & s0 & ->)].
      * destruct (P th i Hs0) as (x & Hx & [Hq|Hq]); [congruence|].
        destruct (HL i x Hx) as (x' & Hx' & A & B & C & _). exists x'. split; [exact Hx'|]. right. now apply (Hrel x x' A B C).
      * destruct (g_procend _ _ _ _ _ H) as (x & Hx). destruct (HL i x Hx) as (x' & Hx' & _). exists x'. auto.
    + rewrite (Sthr t Hne) in *. destruct (P t i Hs) as (x & Hx & Hd).
      destruct (HL i x Hx) as (x' & Hx' & A & B & C & _). exists x'. split; [exact Hx'|].
      destruct Hd as [Hd|Hd]; [now left|right; now apply (Hrel x x' A B C)].
Qed.

Section En.
Context (cs : amap pconf).

Lemma R5_flush s o g th : R4 cs s o g -> R5 s g -> R5 (flush th s) (gflush o th g).
Proof.
  intros HR [N1 N2 N3]. destruct (flush_spec th s) as (F1 & F2 & _).
  assert (Hins : forall j x, get j (insts s) = Some x -> exists x', get j (insts (flush th s)) = Some x' /\ pc x' = pc x).
  { intros j x Hx. specialize (F2 j). rewrite Hx in F2. destruct F2 as (x' & ? & ? & _). eauto. }
  assert (Hhold : forall i, holder s g i ->
            (forall t, get t (thinst s) = Some i -> memN t (g_wp g) = true -> memN t (g_wp (gflush o th g)) = true) ->
            holder (flush th s) (gflush o th g) i).
  { intros i [(c & Hc)|(t & x & Ht & Hx & Hd)] Hw.
    - left. exists c. now rewrite flush_stage.
    - right. destruct (Hins _ _ Hx) as (x' & Hx' & Ep). exists t, x'. rewrite F1, Ep. repeat split; auto.
      destruct Hd as [Hd|Hd]; [now left|right; now apply Hw]. }
  constructor.
  - rewrite gflush_sp. destruct (memN th (g_wp g)); [|exact N1]. destruct (get th (o_th o)); [now apply rem1_nodup|exact N1].
  - intros i Hi. rewrite gflush_sp in Hi. destruct (memN th (g_wp g)) eqn:Hw.
    + destruct (r_pend _ _ _ _ HR th (or_introl Hw)) as (i0 & x0 & Hti & Hx0 & _).
      assert (Hoth : get th (o_th o) = Some i0) by (now rewrite <- (rc_th _ _ _ (r_core _ _ _ _ HR))).
      rewrite Hoth in Hi. assert (Hne : i <> i0) by (intros ->; exact (rem1_notin _ _ N1 Hi)).
      apply Hhold; [apply N2; eapply rem1_incl; eauto|].
      intros t Ht Hm. rewrite gflush_wp, Hw. rewrite memN_removeN_other; [exact Hm|]. intros ->. congruence.
    + apply Hhold; [now apply N2|]. intros t _ Hm. now rewrite gflush_wp, Hw.
  - intros i v. rewrite flush_stage. intros Hv. destruct (N3 i v Hv) as (x & Hx). destruct (Hins _ _ Hx) as (x' & ? & _). eauto.
Qed.

Lemma R5_core s o g th e s' : R4 cs s o g -> R5 s g -> pend (get_thread s th) = None ->
  step_core s th e = Some s' -> R5 s' (gcore o th e g).
Proof.
  intros HR [N1 N2 N3] Hp H.
  pose proof (core_inst_eff' _ _ _ _ H) as HI. pose proof (core_stage _ _ _ _ H) as HSt.
  destruct (core_scal _ _ _ _ H) as (_ & _ & _ & Sthi & _).
  assert (HRc0 := r_core _ _ _ _ HR).
  assert (Hwf : memN th (g_wp g) = false).
  { destruct (memN th (g_wp g)) eqn:E; [|reflexivity]. apply (r_wp _ _ _ _ HR) in E. rewrite Hp in E. discriminate. }
  assert (Hthi_mono : forall t j, get t (thinst s) = Some j -> get t (thinst s') = Some j).
  { intros t j Ht. rewrite Sthi. destruct e; auto. rewrite get_set. destruct (N.eqb_spec th t); [|auto].
    subst t. destruct (g_begin _ _ _ _ H) as (x & _ & Hn & _). congruence. }
  assert (Gwp : forall t, memN t (g_wp g) = true -> memN t (g_wp (gcore o th e g)) = true).
  { intros t Ht. destruct e; cbn -[memN]; auto. rewrite memN_cons, Ht. apply orb_true_r. }
  (* an unbegun instance is in the dependency phase *)
  assert (Hpre : forall j x, get j (insts s) = Some x -> (forall t, get t (thinst s) <> Some j) -> cl (pc x) = CPre).
  { intros j x Hx Hnb. destruct (rc_inst _ _ _ HRc0 j x Hx) as (xo & Hxo & _).
    destruct (r_inst _ _ _ _ HR j x xo Hx Hxo) as (_ & _ & _ & D & _).
    destruct (cl (pc x)) eqn:E; try reflexivity; destruct D as (t & Ht); try discriminate; exfalso; eapply Hnb; eauto. }
  assert (Hhold : forall j, holder s g j -> holder s' (gcore o th e g) j).
  { intros j [(c & Hc)|(t & x & Ht & Hx & Hd)].
    - (* spawned, not begun *)
      unfold stage_eff in HSt. destruct (N3 j _ Hc) as (x & Hx).
      assert (Hsame : stage s' = stage s -> holder s' (gcore o th e g) j) by (intros E; left; exists c; now rewrite E).
      destruct e; try (now apply Hsame).
      + destruct (newinst_eff _ _ _ _ _ H) as (Hnone & _). left. exists c. rewrite HSt, get_set.
        destruct (N.eqb_spec i j); [subst; congruence|exact Hc].
      + destruct HSt as [HSt Hg]. left. exists c. rewrite HSt, get_set. destruct (N.eqb_spec i j); [subst; congruence|exact Hc].
      + destruct HSt as [HSt Hg]. left. exists c. rewrite HSt, get_set. destruct (N.eqb_spec i j); [subst; congruence|exact Hc].
      + destruct HSt as [HSt _]. destruct (N.eqb_spec i j) as [->|Hne].
        * (* the goroutine begins: it now holds the token as a begun instance *)
          right. destruct (g_begin _ _ _ _ H) as (x0 & Hx0 & Hnth & _ & Hnb).
          destruct (HI j x Hx) as (x' & Hx' & Ecl & _).
          assert (Eow : own (thinst s) th j = false) by (apply own_false_of; congruence). rewrite Eow in Ecl.
          exists th, x'. rewrite Sthi, get_set_same. repeat split; auto. left. rewrite Ecl, (Hpre j x Hx); [discriminate|].
          intros t Ht. eapply Hnb; eauto.
        * left. exists c. rewrite HSt, get_del_other; auto.
      + destruct HSt as [HSt|[HSt Hg]]; [now apply Hsame|]. left. exists c. rewrite HSt, get_set.
        destruct (N.eqb_spec i j); [subst; congruence|exact Hc].
    - (* begun *)
      right. destruct (HI j x Hx) as (x' & Hx' & Ecl & _). exists t, x'. split; [now apply Hthi_mono|]. split; [exact Hx'|].
      destruct (N.eqb_spec t th) as [->|Hne].
      + assert (Eow : own (thinst s) th j = true) by (now apply own_true). rewrite Eow in Ecl.
        destruct Hd as [Hd|Hd]; [|congruence].
        destruct (cl (pc x') ) eqn:Ec'; try (left; discriminate).
        symmetry in Ecl. destruct (cl_next_rel _ _ Ecl) as [->|Hc]; [|contradiction].
        right. cbn -[memN]. rewrite memN_cons, N.eqb_refl. reflexivity.
      + assert (Eow : own (thinst s) th j = false).
        { apply own_false_of. intros Hc. apply Hne. eapply (r_inj _ _ _ _ HR); eauto. }
        rewrite Eow in Ecl. rewrite Ecl. destruct Hd as [Hd|Hd]; [now left|right; now apply Gwp]. }
  constructor.
  - (* NoDup: an instance is spawned once *)
    destruct e; try exact N1. cbn. constructor; [|exact N1]. intros Hin.
    cbn in HSt. destruct HSt as [_ Hg].
    destruct (N2 i Hin) as [(c & Hc)|(t & x & Ht & _)]; [congruence|].
    rewrite (r_nostage _ _ _ _ HR t i Ht) in Hg. discriminate.
  - intros j Hj. destruct e; try (now apply Hhold, N2).
    cbn in Hj. destruct Hj as [<-|Hj]; [|now apply Hhold, N2].
    left. cbn in HSt. destruct HSt as [HSt _]. exists th. now rewrite HSt, get_set_same.
  - intros j v Hv. unfold stage_eff in HSt.
    assert (Hold : forall w, get j (stage s) = Some w -> exists x, get j (insts s') = Some x).
    { intros w Hw. destruct (N3 j w Hw) as (x & Hx). destruct (HI j x Hx) as (x' & Hx' & _). eauto. }
    destruct e; try (rewrite HSt in Hv; now apply (Hold v)).
    + rewrite HSt, get_set in Hv. destruct (N.eqb_spec i j); [|now apply (Hold v)]. subst.
      destruct (newinst_eff _ _ _ _ _ H) as (_ & c & Hget). rewrite Hget, N.eqb_refl. eauto.
    + destruct HSt as [HSt Hg]. rewrite HSt, get_set in Hv. destruct (N.eqb_spec i j); [subst; now apply (Hold _ Hg)|now apply (Hold v)].
    + destruct HSt as [HSt Hg]. rewrite HSt, get_set in Hv. destruct (N.eqb_spec i j); [subst; now apply (Hold _ Hg)|now apply (Hold v)].
    + destruct HSt as [HSt _]. rewrite HSt, get_del in Hv. destruct (N.eqb i j); [discriminate|now apply (Hold v)].
    + destruct HSt as [HSt|[HSt Hg]]; rewrite HSt in Hv; [now apply (Hold v)|].
      rewrite get_set in Hv. destruct (N.eqb_spec i j); [subst; now apply (Hold _ Hg)|now apply (Hold v)].
Qed.

Lemma R5_init ord : R5 (init cs ord) ghost0.
Proof. constructor; cbn; [constructor|tauto|discriminate]. Qed.

(* every state reached by an accepted history is related to some observer and ghost *)
Lemma R456_run : forall evs s o g s', R4 cs s o g -> R5 s g -> R6 s -> accept s evs = Some s' ->
  exists o' g', R4 cs s' o' g' /\ R5 s' g' /\ R6 s'.
Proof.
  induction evs as [|[th e] r IH]; intros s o g s' HR H5 H6 Hacc; cbn in Hacc.
  - injection Hacc as <-. eauto.
  - destruct (step s (th, e)) as [s1|] eqn:Es; [|discriminate].
    destruct (R4_step cs _ _ _ _ _ HR Es) as (HR1 & _).
    destruct (R4_flush cs _ _ _ th HR) as (HR0 & Hp0).
    pose proof (R5_flush _ _ _ th HR H5) as H50. pose proof (R6_flush _ th H6) as H60.
    unfold step in Es. cbn [fst snd] in Es.
    pose proof (R5_core _ _ _ _ _ _ HR0 H50 Hp0 Es) as H51.
    assert (H61 : R6 s1).
    { eapply R6_core; eauto.
      - apply (r_inj _ _ _ _ HR0).
      - apply (r_thi _ _ _ _ HR0).
      - intros j x Hx Hnb. destruct (rc_inst _ _ _ (r_core _ _ _ _ HR0) j x Hx) as (xo & Hxo & _).
        destruct (r_inst _ _ _ _ HR0 j x xo Hx Hxo) as (_ & _ & _ & Dd & _).
        destruct (inendf (pc x)) eqn:Ei; [|reflexivity]. exfalso.
        destruct Dd as (t & Ht); [destruct (pc x); cbn in *; discriminate|]. eapply Hnb; eauto. }
    exact (IH _ _ _ _ HR1 H51 H61 Hacc).
Qed.

Lemma reach ord evs s : accept (init cs ord) evs = Some s -> exists o g, R4 cs s o g /\ R5 s g /\ R6 s.
Proof. intros H. eapply R456_run; [apply R4_init|apply R5_init|apply R6_init|exact H]. Qed.
End En.

(* ---- 1. Run() is not blocked ------------------------------------------------------------------------ *)
(* nothing of Run()'s wait group is outstanding: no goroutine has been spawned that has not begun, and every
   goroutine that began has reached inst_exit and executed the waitGroup.Done() that follows it *)
Definition wg_quiet (s : sys) : Prop :=
  (forall i c, get i (stage s) <> Some (c, 3)) /\
  (forall t i x, get t (thinst s) = Some i -> get i (insts s) = Some x ->
     (pc x = IWgDone \/ pc x = IGone) /\ pend (get_thread s t) <> Some RWgDone).

Definition wg_quiet_b (s : sys) : bool :=
  forallb (fun p => negb (Nat.eqb (snd (snd p)) 3)) (stage s) &&
  forallb (fun p => match get (snd p) (insts s) with
                    | Some x => (match pc x with IWgDone | IGone => true | _ => false end) &&
                                (match pend (get_thread s (fst p)) with Some RWgDone => false | _ => true end)
                    | None => true end) (thinst s).

Lemma wg_quiet_b_spec s : wg_quiet_b s = true -> wg_quiet s.
Proof.
  unfold wg_quiet_b. intros H. apply andb_true_iff in H. destruct H as [H1 H2]. rewrite forallb_forall in H1, H2. split.
  - intros i c Hc. apply get_in in Hc. specialize (H1 _ Hc). cbn in H1. discriminate.
  - intros t i x Ht Hx. apply get_in in Ht. specialize (H2 _ Ht). cbn in H2. rewrite Hx in H2.
    apply andb_true_iff in H2. destruct H2 as [A B]. split.
    + destruct (pc x); try discriminate; auto.
    + intros E. rewrite E in B. discriminate.
Qed.

Lemma pk_pw r : pk r = PW -> r = Some RWgDone.
Proof. destruct r as [[]|]; cbn; congruence. Qed.

Theorem run_can_return : forall cs ord evs s th,
  accept (init cs ord) evs = Some s ->
  apc (get_thread s th) = ARunWait -> wg_quiet s ->
  exists s', step s (th, ERunReturn (proj_code s)) = Some s'.
Proof.
  intros cs ord evs s th Hacc Hapc [Q1 Q2]. destruct (reach cs ord evs s Hacc) as (o & g & HR & [N1 N2 N3] & _).
  assert (Hsp : g_sp g = []).
  { destruct (g_sp g) as [|i l] eqn:E; [reflexivity|]. exfalso.
    destruct (N2 i) as [(c & Hc)|(t & x & Ht & Hx & Hd)]; [now left|exact (Q1 _ _ Hc)|].
    destruct (Q2 _ _ _ Ht Hx) as (Hpc & Hpe). destruct Hd as [Hd|Hd].
    - apply Hd. destruct Hpc as [-> | ->]; reflexivity.
    - apply (r_wp _ _ _ _ HR) in Hd. apply Hpe. now apply pk_pw. }
  assert (Hwg : wg s = 0) by (rewrite (r_wg _ _ _ _ HR), Hsp; reflexivity).
  (* the Run() thread is not an instance goroutine: it has no exitCodeOnce pending *)
  assert (Hnpc : forall c, pk (pend (get_thread s th)) <> PC c).
  { intros c Hc. assert (Hm : memN th (g_tp g) = true) by (apply (r_tp _ _ _ _ HR); eauto).
    destruct (r_pend _ _ _ _ HR th (or_intror Hm)) as (i & x & Ht & Hx & _).
    destruct (r_own _ _ _ _ HR th i x Ht Hx) as (_ & B & _). congruence. }
  destruct (flush_spec th s) as (_ & _ & F3 & F4 & _ & F6).
  assert (Hapc0 : apc (get_thread (flush th s) th) = ARunWait) by (rewrite F3, N.eqb_refl; exact Hapc).
  assert (Hwg0 : wg (flush th s) = 0) by (rewrite F4, Hwg; destruct (pk _); reflexivity).
  assert (Hpc0 : proj_code (flush th s) = proj_code s).
  { rewrite F6. destruct (pk (pend (get_thread s th))) eqn:E; try reflexivity. exfalso. eapply Hnpc; eauto. }
  unfold step. cbn [fst snd]. unfold step_core, step_api. rewrite Hapc0, Hwg0, Hpc0, Z.eqb_refl. cbn. eauto.
Qed.

(* ---- 2. a waiter is not blocked once its dependency has ended ------------------------------------------ *)
Lemma released_latch c y : l_done y = true -> released y -> latch_released c y = true.
Proof.
  intros Hd (R1 & R2 & R3). destruct c; cbn; auto.
  - destruct (l_logready y); [reflexivity|congruence].
  - rewrite R2. apply orb_true_r.
Qed.

(* The release that the waiting thread itself may still have pending is performed first ([step] = [step_core]
   after [flush], the model's convention for releases that directly follow a trace point); it cannot hurt:
   latches only go up. *)
Theorem waiter_released : forall cs ord evs s th i x k c j todo y,
  accept (init cs ord) evs = Some s ->
  get th (thinst s) = Some i -> get i (insts s) = Some x -> pc x = IBlocked k c j todo ->
  get j (insts s) = Some y -> l_done y = true ->
  exists ok s', step s (th, EDepDone k ok) = Some s'.
Proof.
  intros cs ord evs s th i x k c j todo y Hacc Hth Hx Hpc Hy Hd.
  destruct (reach cs ord evs s Hacc) as (o & g & _ & _ & H6).
  destruct (flush_spec th s) as (F1 & _).
  destruct (flush_latch th s i x Hx) as (x0 & Hx0 & Epc & _).
  destruct (flush_latch th s j y Hy) as (y0 & Hy0 & _ & Ed & Hm & _).
  assert (Hrel : latch_released c y0 = true).
  { apply released_latch; [congruence|]. apply Hm. exact (r6_done _ H6 j y Hy Hd). }
  exists (wait_result (flush th s) c y0). unfold step. cbn [fst snd]. cbn [step_core]. unfold step_own, own_inst.
  rewrite F1, Hth, Hx0. cbn. rewrite Epc, Hpc, N.eqb_refl, Hy0, Hrel, eqb_reflx. eauto.
Qed.
