(* C12: the monitor restricted to the stop signals that the ORDERED SHUTDOWN itself issues (its worker goroutines),
   which is what the property text speaks about; a stop signal that a concurrent StopProcess / fatal probe sends to a
   member of the snapshot is the user's, not the shutdown's (notes/C12.md, finding 1).  Definitions only; the
   simulation proof is in SimC12.v, the evaluation on recorded histories in Check.v. *)
From Coq Require Import List ZArith NArith Bool.
From PC.Base Require Import Assoc.
From PC.Sup Require Import Model Monitors.
Import ListNotations.

(* ---- ghost state: the worker goroutines of the ordered shutdown in progress ------------------------ *)
Definition gst := amap iid.
Definition g_step (g : gst) (te : tid * event) : gst :=
  match snd te with
  | EOrderedGo i => set (fst te) i g
  | EShutdownEnd => []
  | _ => g
  end.
Definition is_worker (g : gst) (th : tid) (i : iid) : bool := opt_eqb N.eqb (get th g) (Some i).

(* the C12 monitor restricted to the stop signals issued by workers of the shutdown in progress *)
Definition mon_w (ord : bool) (cs : amap pconf) (o : obs) (g : gst) (te : tid * event) : bool :=
  match snd te with
  | ESignal i _ _ => if is_worker g (fst te) i then mon_C12 ord cs o te else true
  | _ => true
  end.
(* no stop signal from anybody else to a member of the snapshot of a shutdown in progress *)
Definition foreign_ok (o : obs) (g : gst) (te : tid * event) : bool :=
  match snd te with
  | ESignal i _ _ => is_worker g (fst te) i || negb (existsb (fun snap => memN i (snd snap)) (o_sd_cur o))
  | _ => true
  end.
(* side condition of the simulation (see notes/C12.md): a stop execution concludes "Pending" only about an
   instance whose command was never launched, and not on the instance goroutine's own thread *)
Definition side_ok (o : obs) (g : gst) (te : tid * event) : bool :=
  match snd te with
  | EStopPending i => Nat.eqb (o_launches (oi_get o i)) 0 && negb (opt_eqb N.eqb (get (fst te) (o_th o)) (Some i))
  | _ => true
  end.

Fixpoint run3 (P : obs -> gst -> tid * event -> bool) (cs : amap pconf) (o : obs) (g : gst) (evs : list (tid * event)) : bool :=
  match evs with
  | [] => true
  | e :: r => P o g e && run3 P cs (obs_step cs o e) (g_step g e) r
  end.

Definition holds_C12w (ord : bool) (cs : amap pconf) (evs : list (tid * event)) : bool :=
  run3 (mon_w ord cs) cs (obs0 cs) [] evs.
Definition c12_side (cs : amap pconf) (evs : list (tid * event)) : bool := run3 side_ok cs (obs0 cs) [] evs.
Definition c12_noforeign (cs : amap pconf) (evs : list (tid * event)) : bool := run3 foreign_ok cs (obs0 cs) [] evs.
(* the only check-then-act window the proof needs: commit (F20/F21) *)
Definition W_C12 (o : obs) : bool := w_commit o.

