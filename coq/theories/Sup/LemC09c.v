(* API program counters: the shutdown and API sub-steps, the whole step, and the observer's o_api. *)
From Coq Require Import List ZArith NArith Bool Lia.
From RecordUpdate Require Import RecordSet.
From PC.Base Require Import Assoc.
From PC.Sup Require Import Model Monitors Tactics Sim ObsFacts Effects RelCore LemC09 LemC09b.
Import ListNotations RecordSetNotations.

Lemma step_shutdown_apc s th e s' : step_shutdown s th e = Some s' -> apc_frame s th e s'.
Proof.
  intros H. destruct e; kind_cases H. all: split; [apc_other|cbn [api_rel]].
  all: try solve [apc_same].
  rewrite apc_of_set_thread, N.eqb_refl. cbn. unfold apc_of.
  destruct (apc (get_thread s th)); try (apply weak_refl; reflexivity); apply weak_plain; try reflexivity; discriminate.
Qed.

Lemma step_api_apc s th e s' : step_api s th e = Some s' -> apc_frame s th e s'.
Proof.
  intros H. destruct e; kind_cases H. all: split; [apc_other|cbn [api_rel]].
  all: try solve [apc_same].
  all: rewrite apc_of_set_thread, N.eqb_refl; cbn; unfold apc_of; try reflexivity.
  all: repeat match goal with E : apc (get_thread _ _) = _ |- _ => rewrite E end.
  all: try (apply weak_plain; [reflexivity|discriminate]).
  all: try (split; [cbn; auto|intros todo' Hq; try discriminate Hq]).
  all: try (injection Hq as <-; eexists; split; [reflexivity|]; intros n1 Hn1; eapply memN_removeN; eauto; fail).
  all: try (repeat match type of Hq with context[match ?x with _ => _ end] => destruct x end; discriminate Hq).
  all: repeat match goal with |- context[match ?x with _ => _ end] => destruct x end; cbn; auto.
Qed.

Lemma flush_apc th s th' : apc_of (flush th s) th' = apc_of s th'.
Proof.
  unfold flush. destruct (get th (threads s)) as [t|] eqn:Et; [|reflexivity]. destruct (pend t) as [r|]; [|reflexivity].
  assert (H0 : apc_of (set_thread th (t <| pend := None |>) s) th' = apc_of s th').
  { rewrite apc_of_set_thread. destruct (N.eqb_spec th th') as [<-|]; [|reflexivity].
    cbn. unfold apc_of, get_thread. now rewrite Et. }
  destruct r; unfold apply_release, end_release_early; autorewrite with sup; rewrite ?N.eqb_refl; try exact H0.
  all: try (change (apc_of (set_thread th (t <| pend := None |>) s) th' = apc_of s th') in H0; exact H0).
  all: rewrite apc_of_set_thread in H0; try exact H0.
  destruct (code_set s); [rewrite apc_of_set_thread; exact H0|].
  change (apc_of (set_thread th (t <| pend := None |>) s) th' = apc_of s th'). rewrite apc_of_set_thread. exact H0.
Qed.

Lemma step_core_apc s th e s' : step_core s th e = Some s' -> apc_frame s th e s'.
Proof.
  intros H. destruct (step_core_kind _ _ _ _ H) as [? ?|i x ? ? ? ? ? ? ?|Hk|Hk|Hk|i st0 ? Hk|i st0 b ? Hk|Hk|i ? Hk|Hk|Hk]; subst;
    eauto using step_reg_apc, step_api_apc, step_stop_apc, step_state_apc, step_procend_apc, step_shutdown_apc,
                step_ordered_apc, step_env_apc, step_own_apc.
  - split; [reflexivity|apply weak_refl; reflexivity].
  - split; [reflexivity|apply weak_refl; reflexivity].
Qed.

Lemma step_apc s th e s' : step s (th, e) = Some s' ->
  (forall th', th' <> th -> apc_of s' th' = apc_of s th') /\ api_rel s e (apc_of s th) (apc_of s' th).
Proof.
  unfold step. cbn [fst snd]. intros H. destruct (step_core_apc _ _ _ _ H) as [A B]. split.
  - intros th' Hne. rewrite (A th' Hne). apply flush_apc.
  - rewrite flush_apc in B. destruct e; try exact B. cbn in *. destruct op; try exact B.
    replace (runnable_names s) with (runnable_names (flush th s)); [exact B|]. unfold runnable_names. now rewrite flush_confs.
Qed.

(* ---- the observer's table of API calls in progress ------------------------------------------------------- *)
Lemma oi_upd_o_api i f o : o_api (oi_upd i f o) = o_api o.
Proof. unfold oi_upd. destruct (get i (oi o)); reflexivity. Qed.
Lemma on_upd_o_api n f o : o_api (on_upd n f o) = o_api o.
Proof. unfold on_upd. destruct (get n (onm o)); reflexivity. Qed.
Lemma fold_oi_upd_o_api (f : oinst -> oinst) l : forall o, o_api (fold_left (fun o i => oi_upd i f o) l o) = o_api o.
Proof. induction l as [|a l IH]; intros o; cbn; [reflexivity|]. now rewrite IH, oi_upd_o_api. Qed.

Lemma obs_step_o_api cs o th e :
  o_api (obs_step cs o (th, e)) =
  match e with EApiBegin op => set th op (o_api o) | EApiReturn _ => del th (o_api o) | _ => o_api o end.
Proof.
  unfold obs_step. change (o_api (refresh_succ ?X)) with (o_api X).
  destruct e; cbn [fst snd];
  try (destruct (ev_inst o th _) eqn:Ev);
  try match goal with |- context[match ?b with true => _ | false => _ end] => destruct b end;
  unfold note_late_commit;
  repeat match goal with |- context[if ?b then _ else _] => destruct b end;
  rewrite ?oi_upd_o_api, ?on_upd_o_api, ?fold_oi_upd_o_api; cbn [o_api]; rewrite ?oi_upd_o_api, ?on_upd_o_api, ?fold_oi_upd_o_api; try reflexivity.
  all: repeat (repeat match goal with |- context[o_api (RecordSet.set ?fld ?f ?Y)] =>
                        progress change (o_api (RecordSet.set fld f Y)) with (o_api Y) end;
               rewrite ?oi_upd_o_api, ?on_upd_o_api, ?fold_oi_upd_o_api); try reflexivity.

Qed.

