(* C02 simulation: all definitions, light lemmas and tactics shared by the heavy files RelC02t/t2/b/c/d/d2 (which do not
   import each other and so compile in parallel).  The joiners are RelC02f.v and RelC02e.v. *)
From Coq Require Import List ZArith NArith Bool Lia.
From RecordUpdate Require Import RecordSet.
From PC.Base Require Import Assoc.
From PC.Sup Require Import Model Monitors Tactics Sim ObsFacts Effects RelCore LemC02.
Import ListNotations RecordSetNotations.

(* ================= thread-level invariant Rt (from RelC02t) ================= *)
Lemma restart_ok_spec stopped p c maxr restarts :
  restart_ok stopped p c maxr restarts = true <->
  stopped = false /\ policy_allows p c = true /\ (maxr = 0 \/ restarts < maxr).
Proof.
  unfold restart_ok, policy_allows.
  destruct (Nat.eqb_spec maxr 0); destruct (Nat.ltb_spec restarts maxr); destruct stopped; destruct p;
    destruct (c =? 0)%Z; cbn; split; try discriminate; try tauto; try lia;
    intros (? & ? & ?); try discriminate; try lia.
Qed.

(* ---- stop requests recorded by the observer ---------------------------------------------------------- *)
Definition sreq (o : obs) (i : iid) : Prop := o_stopreq (oi_get o i) = true.

Lemma sreq_le o o' i : obs_le o o' -> sreq o i -> sreq o' i.
Proof.
  unfold sreq, oi_get. intros H. destruct (get i (oi o)) as [x|] eqn:E; [|discriminate].
  destruct (H i x E) as (x' & -> & L). apply L.
Qed.
Lemma endst_le o o' i : obs_le o o' -> o_endst (oi_get o i) <> None -> o_endst (oi_get o' i) <> None.
Proof.
  unfold oi_get. intros H. destruct (get i (oi o)) as [x|] eqn:E; [|cbn; congruence].
  destruct (H i x E) as (x' & -> & L). apply L.
Qed.

(* the instance was launched at least once (observer side; monotone) *)
Definition lo (o : obs) (i : iid) : Prop := 0 < o_launches (oi_get o i).
Lemma lo_le o o' i : obs_le o o' -> lo o i -> lo o' i.
Proof.
  unfold lo, oi_get. intros H. destruct (get i (oi o)) as [x|] eqn:E; [|cbn; lia].
  destruct (H i x E) as (x' & -> & L). destruct L as (_ & _ & _ & _ & _ & L). lia.
Qed.
(* the instance exists and its creation write (stage 0 -> 1 of runProcess) is behind it *)
Definition Q0 (s : sys) (j : iid) : Prop := forall t, get j (stage s) <> Some (t, 0).
Definition has_inst (s : sys) (j : iid) : Prop := get j (insts s) <> None /\ Q0 s j.

Lemma flush_stage th s : stage (flush th s) = stage s.
Proof.
  unfold flush. destruct (get th (threads s)) as [t|]; [|reflexivity]. destruct (pend t) as [r|]; [|reflexivity].
  destruct r; unfold apply_release, end_release_early, upd_inst; cbn;
    repeat match goal with |- context[match ?x with _ => _ end] => destruct x; cbn end; reflexivity.
Qed.
Lemma has_flush th s j : has_inst s j -> has_inst (flush th s) j.
Proof.
  intros [H Q]. split; [|unfold Q0; now rewrite flush_stage].
  pose proof (flush_insts th s j) as F. destruct (get j (insts s)); [|congruence]. destruct F as (x' & -> & _). discriminate.
Qed.

Section RtDefs.
Context (cs : amap pconf).

(* thread-level facts: whoever is about to stop an instance has already made the observer record the request *)
Record Rt (s : sys) (o : obs) : Prop := mkRt {
  rt_run : forall p, In p (running s) -> has_inst s (snd p);
  rt_reg : forall th n i, last_reg (get_thread s th) = Some (n, Some i) -> has_inst s i;
  rt_apc : forall th i, (apc (get_thread s th) = AStopping i \/ exists n, apc (get_thread s th) = ARestartStopping n i) ->
           has_inst s i;
  rt_sd : forall t order i, sd_active s = Some (t, order) -> memN i order = true -> sreq o i;
  rt_loop : forall th order rest i, dpc (get_thread s th) = DLoop order rest -> memN i rest = true -> sreq o i;
  rt_ready : forall th i c, spc (get_thread s th) = SReady i c -> if c then sreq o i else lo o i;
  rt_ent : forall th i c, spc (get_thread s th) = SEntered i c -> if c then sreq o i else lo o i;
  rt_spend : forall th i, spc (get_thread s th) = SPend i -> sreq o i;
  rt_pend : forall th i, (pend (get_thread s th) = Some (RRunCtx i) -> sreq o i) /\
                         (pend (get_thread s th) = Some (REndEarly i) -> sreq o i \/ o_endst (oi_get o i) <> None)
}.

Lemma Rt_init ord : Rt (init cs ord) (obs0 cs).
Proof. constructor; cbn; try discriminate; try contradiction.
  - intros th i [H|[n H]]; discriminate.
  - intros th i. split; discriminate.
Qed.

Lemma Rt_obs_le s o o' : Rt s o -> obs_le o o' -> Rt s o'.
Proof.
  intros [H1 Ha Hb H2 H3 H4 He H5 H6] L. constructor; eauto using sreq_le.
  - intros th i c Hq. specialize (H4 th i c Hq). destruct c; eauto using sreq_le, lo_le.
  - intros th i c Hq. specialize (He th i c Hq). destruct c; eauto using sreq_le, lo_le.
  - intros th i. destruct (H6 th i) as [A B]. split; [eauto using sreq_le|].
    intros E. destruct (B E); [left|right]; eauto using sreq_le, endst_le.
Qed.

(* flush: the thread's pending release disappears, the rest of the thread records is untouched *)
Lemma flush_get_thread th s th' :
  get_thread (flush th s) th' = get_thread s th' \/
  (th' = th /\ get_thread (flush th s) th' = get_thread s th <| pend := None |>).
Proof.
  unfold flush. destruct (get th (threads s)) as [t|] eqn:Et; [|now left].
  destruct (pend t) as [r|] eqn:Ep; [|now left].
  assert (E : forall X, get_thread (apply_release r X) th' = get_thread X th').
  { intros X. destruct r; unfold apply_release; sup_simpl; try reflexivity; unfold get_thread;
      autorewrite with sup; try reflexivity. destruct (code_set X); reflexivity. }
  rewrite E. rewrite get_thread_set_thread. destruct (N.eqb_spec th th'); [right|now left].
  subst. split; [reflexivity|]. unfold get_thread. now rewrite Et.
Qed.

Lemma flush_sd_active th s : sd_active (flush th s) = sd_active s.
Proof.
  unfold flush. destruct (get th (threads s)) as [t|]; [|reflexivity]. destruct (pend t) as [r|]; [|reflexivity].
  destruct r; unfold apply_release; sup_simpl; try reflexivity. destruct (code_set _); reflexivity.
Qed.

Lemma Rt_flush th s o : Rt s o -> Rt (flush th s) o.
Proof.
  intros [H1 Ha Hb H2 H3 H4 He H5 H6]. constructor.
  - intros p Hp. rewrite flush_running in Hp. apply has_flush, H1, Hp.
  - intros th' n i Hq. apply has_flush.
    destruct (flush_get_thread th s th') as [E|[-> E]]; rewrite E in Hq; cbn in Hq; eapply Ha; eauto.
  - intros th' i Hq. apply has_flush.
    destruct (flush_get_thread th s th') as [E|[-> E]]; rewrite E in Hq; cbn in Hq; eapply Hb; eauto.
  - intros t order i. rewrite flush_sd_active. apply H2.
  - intros th' order rest i. destruct (flush_get_thread th s th') as [->|[-> ->]]; cbn; apply H3.
  - intros th' i c. destruct (flush_get_thread th s th') as [->|[-> ->]]; cbn; apply H4.
  - intros th' i c. destruct (flush_get_thread th s th') as [->|[-> ->]]; cbn; apply He.
  - intros th' i. destruct (flush_get_thread th s th') as [->|[-> ->]]; cbn; apply H5.
  - intros th' i. destruct (flush_get_thread th s th') as [->|[-> ->]]; cbn; [apply H6|split; discriminate].
Qed.

(* ---- what single events make the observer record ---------------------------------------------------- *)
Lemma sreq_intro o i x : get i (oi o) = Some x -> o_stopreq x = true -> sreq o i.
Proof. intros E H. unfold sreq. now rewrite (oi_get_some _ _ _ E). Qed.

Lemma refresh_stopreq o i : sreq o i -> sreq (refresh_succ o) i.
Proof. apply sreq_le, obs_le_refresh. Qed.

Lemma sreq_NoRestart o th i xo : get i (oi o) = Some xo -> sreq (obs_step cs o (th, ENoRestart i)) i.
Proof.
  intros E. unfold obs_step. cbn [ev_inst fst snd]. apply refresh_stopreq.
  eapply sreq_intro; [rewrite oi_upd_get, N.eqb_refl; cbn; rewrite E; reflexivity|reflexivity].
Qed.
Lemma sreq_StopPending o th i xo : get i (oi o) = Some xo -> sreq (obs_step cs o (th, EStopPending i)) i.
Proof.
  intros E. unfold obs_step. cbn [ev_inst fst snd]. apply refresh_stopreq.
  eapply sreq_intro; [rewrite oi_upd_get, N.eqb_refl; cbn; rewrite E; reflexivity|reflexivity].
Qed.
Lemma sreq_StopEnter o th i xo : get i (oi o) = Some xo -> sreq (obs_step cs o (th, EStopEnter i true)) i.
Proof.
  intros E. unfold obs_step. cbn [ev_inst fst snd]. apply refresh_stopreq.
  eapply sreq_intro; [rewrite oi_upd_get, N.eqb_refl; cbn; rewrite E; reflexivity|cbn; apply orb_true_r].
Qed.
Lemma sreq_ShutdownOrder o th order i xo : get i (oi o) = Some xo -> memN i order = true ->
  sreq (obs_step cs o (th, EShutdownOrder order)) i.
Proof.
  intros E M. unfold obs_step. cbn [ev_inst fst snd]. apply refresh_stopreq.
  eapply sreq_intro.
  - cbn. rewrite fold_oi_upd_get by reflexivity. rewrite M. cbn. rewrite E. reflexivity.
  - reflexivity.
Qed.
Lemma endst_ProcEnd o th i s0 xo : get i (oi o) = Some xo ->
  o_endst (oi_get (obs_step cs o (th, EProcEnd i s0)) i) <> None.
Proof.
  intros E. unfold obs_step. cbn [ev_inst fst snd]. unfold oi_get.
  rewrite refresh_get, oi_upd_get, N.eqb_refl, E. cbn. destruct (_ && _); cbn; discriminate.
Qed.

End RtDefs.

(* ---- instances never disappear ----------------------------------------------------------------------- *)
Lemma upd_inst_stage i f s : stage (upd_inst i f s) = stage s. Proof. unfold upd_inst. destruct (get i (insts s)); reflexivity. Qed.
Lemma upd_vis_stage n f s : stage (upd_vis n f s) = stage s. Proof. unfold upd_vis. destruct (get n (viss s)); reflexivity. Qed.
Lemma write_status_stage n s0 s : stage (write_status n s0 s) = stage s. Proof. unfold write_status. apply upd_vis_stage. Qed.
Lemma fold_upd_inst_stage (f : inst -> inst) l s : stage (fold_left (fun s i => upd_inst i f s) l s) = stage s.
Proof. apply (fold_upd_inst_proj stage). intros. apply upd_inst_stage. Qed.
#[export] Hint Rewrite upd_inst_stage upd_vis_stage write_status_stage fold_upd_inst_stage : sup.

Lemma has_upd_inst i f s j : has_inst s j -> has_inst (upd_inst i f s) j.
Proof.
  unfold has_inst, Q0. rewrite insts_upd_inst, upd_inst_stage. intros [H Q]. split; [|exact Q].
  destruct (N.eqb i j); [|auto]. destruct (get j (insts s)); cbn; congruence.
Qed.
Lemma has_upd_vis n f s j : has_inst s j -> has_inst (upd_vis n f s) j.
Proof. unfold has_inst, Q0. now rewrite upd_vis_insts, upd_vis_stage. Qed.
Lemma has_write_status n s0 s j : has_inst s j -> has_inst (write_status n s0 s) j.
Proof. unfold has_inst, Q0. now rewrite write_status_insts, write_status_stage. Qed.
Lemma has_set_thread th t s j : has_inst s j -> has_inst (set_thread th t s) j.
Proof. auto. Qed.
Lemma has_fold_upd_inst (f : inst -> inst) l j : forall s, has_inst s j -> has_inst (fold_left (fun s i => upd_inst i f s) l s) j.
Proof. induction l as [|a l IH]; intros s H; cbn; [exact H|]. apply IH, has_upd_inst, H. Qed.
Lemma has_same_insts s s' j : insts s' = insts s -> stage s' = stage s -> has_inst s j -> has_inst s' j.
Proof. unfold has_inst, Q0. now intros -> ->. Qed.
(* the creation stage of an existing instance moves on to k >= 1 *)
Lemma has_set_stage th i k s j : k <> 0 -> has_inst s j -> has_inst (s <| stage := set i (th, k) (stage s) |>) j.
Proof.
  intros Hk [H Q]. split; [exact H|]. intros t. cbn. rewrite get_set. destruct (N.eqb i j); [congruence|apply Q].
Qed.

Lemma has_set_stage2 th i k X st0 j : k <> 0 -> st0 = stage X -> has_inst X j -> has_inst (X <| stage := set i (th, k) st0 |>) j.
Proof. intros Hk -> H. now apply has_set_stage. Qed.

Ltac has_tac :=
  unfold set_pc, end_finish, end_release_early;
  repeat first
  [ assumption
  | apply has_set_stage2; [discriminate|unfold set_pc, end_finish, end_release_early; autorewrite with sup; reflexivity|]
  | apply has_upd_inst | apply has_upd_vis | apply has_write_status | apply has_set_thread | apply has_fold_upd_inst
  | match goal with
    | |- has_inst (if ?b then _ else _) _ => destruct b
    | |- has_inst (match ?b with _ => _ end) _ => destruct b
    | |- has_inst (RecordSet.set _ _ ?X) _ => apply (has_same_insts X); [reflexivity|reflexivity|]
    end ].

Lemma in_set_inv {A} k (v : A) m p : In p (set k v m) -> p = (k, v) \/ In p m.
Proof.
  induction m as [|[k' v'] r IH]; cbn; [intros [<-|[]]; now left|].
  destruct (N.eqb k' k); cbn; intros [<-|H]; auto. destruct (IH H); auto.
Qed.
Lemma in_del_inv {A} k (m : amap A) p : In p (del k m) -> In p m.
Proof.
  induction m as [|[k' v'] r IH]; cbn; [auto|]. destruct (N.eqb k' k); cbn; [auto|]. intros [<-|H]; auto.
Qed.

Definition ev_facts (o' : obs) (e : event) : Prop :=
  match e with
  | ENoRestart i | EStopPending i => sreq o' i
  | EShutdownOrder order => forall i, memN i order = true -> sreq o' i
  | EProcEnd i _ => o_endst (oi_get o' i) <> None
  | EProbe i _ true => lo o' i
  | _ => True
  end.

Ltac rt_thread th0 :=
  autorewrite with sup;
  match goal with
  | |- context[N.eqb ?a th0] => destruct (N.eqb_spec a th0); [subst th0|]; cbn
  | _ => idtac
  end.

Ltac rt_pre :=
  repeat match goal with
  | |- Rt (match ?x with _ => _ end) _ => destruct x eqn:?
  | |- Rt (if ?b then _ else _) _ => destruct b eqn:?
  | |- Rt ?S _ => match S with context[if ?b then _ else _] => destruct b eqn:? end
  end.
Ltac rt_norm := unfold set_pc, end_finish, end_release_early.
Ltac rt_direct H1 Ha Hb H2 H3 H4 He H5 H6 Hh :=
  constructor;
  [ let p0 := fresh "p" in let Hp0 := fresh "Hp" in
    intros p0 Hp0; unfold set_pc, end_finish, end_release_early in Hp0; autorewrite with sup in Hp0; cbn in Hp0; autorewrite with sup in Hp0; try (apply Hh, H1, Hp0)
  | let th0 := fresh "th" in let n0 := fresh "n" in let i0 := fresh "i" in let Hq := fresh "Hq" in
    intros th0 n0 i0 Hq; apply (Hh i0); revert Hq; rt_norm; rt_thread th0; try apply Ha; try discriminate
  | let th0 := fresh "th" in let i0 := fresh "i" in let Hq := fresh "Hq" in
    intros th0 i0 Hq; apply (Hh i0); revert Hq; rt_norm; rt_thread th0; try apply Hb; try (intros [Hq|[? Hq]]; discriminate)
  | let t0 := fresh "t" in let order0 := fresh "order" in let i0 := fresh "i" in
    intros t0 order0 i0; rt_norm; autorewrite with sup; cbn; try apply H2; try discriminate
  | let th0 := fresh "th" in let order0 := fresh "order" in let rest0 := fresh "rest" in let i0 := fresh "i" in
    intros th0 order0 rest0 i0; rt_norm; rt_thread th0; try apply H3; try discriminate
  | let th0 := fresh "th" in let i0 := fresh "i" in let c0 := fresh "c" in
    intros th0 i0 c0; rt_norm; rt_thread th0; try apply H4; try discriminate
  | let th0 := fresh "th" in let i0 := fresh "i" in let c0 := fresh "c" in
    intros th0 i0 c0; rt_norm; rt_thread th0; try apply He; try discriminate
  | let th0 := fresh "th" in let i0 := fresh "i" in
    intros th0 i0; rt_norm; rt_thread th0; try apply H5; try discriminate
  | let th0 := fresh "th" in let i0 := fresh "i" in
    intros th0 i0; rt_norm; rt_thread th0; try apply H6; try (split; discriminate) ].


Lemma thread_reg_some (P : iid -> Prop) t n i :
  (forall n i, last_reg t = Some (n, Some i) -> P i) ->
  opt_eqb (opt_eqb N.eqb) (thread_reg t n) (Some (Some i)) = true -> P i.
Proof.
  intros Ha H. unfold thread_reg in H. destruct (last_reg t) as [[k2 r]|] eqn:E; [|discriminate].
  destruct (N.eqb k2 n); [|discriminate]. cbn in H. apply opt_eqb_N_eq in H. subst r. eapply Ha; eauto.
Qed.

Lemma same_members_in l1 : forall l2 a, same_members l1 l2 = true -> In a l1 -> In a l2.
Proof.
  induction l1 as [|b r IH]; intros l2 a H Ha; [destruct Ha|].
  cbn in H. apply andb_true_iff in H. destruct H as [Hb Hr]. destruct Ha as [<-|Ha].
  - now apply memN_In.
  - specialize (IH _ _ Hr Ha). unfold removeN in IH. apply filter_In in IH. apply IH.
Qed.


(* ================= per-instance relation P2, frames, Rd (from RelC02b) ================= *)
Definition predec_pc (p : ipc) : bool :=
  match p with IPreStart | IPreLaunch | IStateSet | IAlive | IExited _ | ICodeWritten _ => true | _ => false end.
Definition launched_pc (p : ipc) : bool :=
  match p with IStateSet | IAlive | IExited _ | ICodeWritten _ => true | _ => false end.
Definition gone_pc (p : ipc) : bool := match p with IWgDone | IGone => true | _ => false end.
Definition launch_pc (p : ipc) : bool := match p with IPreLaunch | IStateSet => true | _ => false end.

Definition Pok (x : inst) (c : Z) : Prop :=
  policy_allows (pol (cf x)) c = true /\ (maxr (cf x) = 0 \/ launches x <= maxr (cf x)).

(* why an instance gave up instead of relaunching *)
Definition GaveUp (s : sys) (x : inst) (xo : oinst) (c : Z) : Prop :=
  o_stopreq xo = true \/ policy_allows (pol (cf x)) c = false \/
  (maxr (cf x) <> 0 /\ maxr (cf x) <= restarts (vis_of s (nm x))).

Record P2 (s : sys) (o : obs) (x : inst) (xo : oinst) : Prop := mkP2 {
  p_commit : W2 o = false -> commit_pc (pc x) = true -> o_commit xo = true;
  p_stop : W2 o = false -> o_stopreq xo = true -> commit_pc (pc x) = false;
  p_exited : forall c, exited x = Some c -> o_code xo = Some c /\ pc x = IAlive /\ alive x = false;
  p_alive : alive x = true -> pc x = IAlive;
  p_code : forall c, pc x = IExited c \/ pc x = ICodeWritten c -> o_code xo = Some c;
  p_decided : forall c, pc x = IWillRestart c \/ pc x = IRestarting c \/ pc x = IBackoff c ->
              o_code xo = Some c /\ Pok x c;
  p_relaunch : launch_pc (pc x) = true -> 1 <= launches x ->
               exists c, o_code xo = Some c /\ Pok x c /\ o_elapsed xo = true;
  p_gaveup : forall c, (pc x = IEnding SCompleted c \/ exists b, pc x = IInEnd SCompleted c b) ->
             o_code xo = Some c /\ GaveUp s x xo c;
  p_restarts : launches x <= restarts (vis_of s (nm x)) + 1 /\
               (relaunch_pc (pc x) = true -> launches x <= restarts (vis_of s (nm x)));
  p_pre : prestart_pc (pc x) = true -> launches x = 0;
  p_fstopped : f_stopped x = true -> o_stopreq xo = true;
  p_runctx : l_runctx x = true -> o_stopreq xo = true \/ inend_pc (pc x) = true;
  p_endst : o_endst xo <> None -> o_stopreq xo = true \/ inend_pc (pc x) = true;
  p_gone : o_gone xo = true -> gone_pc (pc x) = true;
  p_nostop : W3 o = false -> o_stopreq xo = true -> predec_pc (pc x) = true -> f_stopped x = true;
  p_status : W3 o = false -> launched_pc (pc x) = true -> st (vis_of s (nm x)) <> SPending;
  p_s1 : forall s1 c, (pc x = IEnding s1 c \/ exists b, pc x = IInEnd s1 c b) -> s1 <> SPending;
  p_endst2 : W3 o = false -> o_endst xo <> None -> launched_pc (pc x) = false
}.

Definition P2all (s : sys) (o : obs) : Prop :=
  forall j x xo, get j (insts s) = Some x -> get j (oi o) = Some xo -> P2 s o x xo.

(* ---- frame: what P2 reads ------------------------------------------------------------------------------ *)
Definition ikeep (x x' : inst) : Prop :=
  nm x' = nm x /\ cf x' = cf x /\ pc x' = pc x /\ launches x' = launches x /\ alive x' = alive x /\
  exited x' = exited x /\ f_stopped x' = f_stopped x /\ l_runctx x' = l_runctx x.
Definition okeep (xo xo' : oinst) : Prop :=
  o_commit xo' = o_commit xo /\ o_stopreq xo' = o_stopreq xo /\ o_code xo' = o_code xo /\
  o_elapsed xo' = o_elapsed xo /\ o_endst xo' = o_endst xo /\ o_gone xo' = o_gone xo.
Definition vkeep (s s' : sys) (x : inst) : Prop :=
  restarts (vis_of s (nm x)) <= restarts (vis_of s' (nm x)) /\
  (st (vis_of s' (nm x)) = SPending -> st (vis_of s (nm x)) = SPending \/ launched_pc (pc x) = false).
Definition wkeep (o o' : obs) : Prop := (W2 o' = false -> W2 o = false) /\ (W3 o' = false -> W3 o = false).

Lemma ikeep_refl x : ikeep x x. Proof. unfold ikeep; repeat split. Qed.
Lemma okeep_refl x : okeep x x. Proof. unfold okeep; repeat split. Qed.
Lemma vkeep_refl s x : vkeep s s x. Proof. unfold vkeep; split; auto. Qed.
Lemma wkeep_refl o : wkeep o o. Proof. unfold wkeep; split; auto. Qed.
Lemma wkeep_step cs o e : wkeep o (obs_step cs o e).
Proof.
  split; intros H.
  - destruct (W2 o) eqn:E; [|reflexivity]. now rewrite (W2_mono cs o e E) in H.
  - destruct (W3 o) eqn:E; [|reflexivity]. now rewrite (W3_mono cs o e E) in H.
Qed.

Lemma P2_frame s o x xo s' o' x' xo' :
  P2 s o x xo -> ikeep x x' -> okeep xo xo' -> vkeep s s' x -> wkeep o o' -> P2 s' o' x' xo'.
Proof.
  intros [] (I1 & I2 & I3 & I4 & I5 & I6 & I7 & I8) (O1 & O2 & O3 & O4 & O5 & O6) (V1 & V2) (Wa & Wb).
  constructor; unfold Pok, GaveUp in *; rewrite ?I1, ?I2, ?I3, ?I4, ?I5, ?I6, ?I7, ?I8, ?O1, ?O2, ?O3, ?O4, ?O5, ?O6; auto.
  - intros c Hc. destruct (p_gaveup0 c Hc) as (A & B). split; [exact A|].
    destruct B as [B|[B|[B1 B2]]]; auto. right; right. split; [exact B1|lia].
  - destruct p_restarts0 as [A B]. split; [lia|]. intros Hr. specialize (B Hr). lia.
  - intros Hw Hl Hs. destruct (V2 Hs) as [Hs'|Hs']; [|congruence]. revert Hs'. apply p_status0; auto.
Qed.

(* ---- backward frames of the observer: every instance of o' comes from one of o ----------------------- *)
Section Back.
Context (Rel : oinst -> oinst -> Prop).
Context (Rrefl : forall x, Rel x x) (Rtrans : forall x y z, Rel x y -> Rel y z -> Rel x z).
Context (Rsucc : forall x, Rel x (x <| o_succ := true |>)).

Definition oback (o o' : obs) : Prop :=
  forall j x', get j (oi o') = Some x' -> exists x, get j (oi o) = Some x /\ Rel x x'.

Lemma oback_refl o : oback o o.
Proof. intros j x H. eauto. Qed.
Lemma oback_trans o1 o2 o3 : oback o1 o2 -> oback o2 o3 -> oback o1 o3.
Proof.
  intros H1 H2 j z Hz. destruct (H2 j z Hz) as (y & Hy & L2). destruct (H1 j y Hy) as (x & Hx & L1). eauto.
Qed.
Lemma oback_eq o o' : oi o' = oi o -> oback o o'.
Proof. intros E j x H. rewrite E in H. eauto. Qed.
Lemma oback_oi_upd i f o : (forall x, Rel x (f x)) -> oback o (oi_upd i f o).
Proof.
  intros Hf j x'. rewrite oi_upd_get. destruct (N.eqb i j); [|eauto].
  destruct (get j (oi o)) as [x|]; cbn; [|discriminate]. intros [= <-]. eauto.
Qed.
Lemma oback_on_upd n f o : oback o (on_upd n f o).
Proof. apply oback_eq, on_upd_oi. Qed.
Lemma oback_fold_oi_upd (f : oinst -> oinst) l : (forall x, Rel x (f x)) ->
  forall o, oback o (fold_left (fun o i => oi_upd i f o) l o).
Proof.
  intros Hf. induction l as [|a l IH]; intros o; cbn; [apply oback_refl|].
  eapply oback_trans; [apply (oback_oi_upd a f o Hf)|apply IH].
Qed.
Lemma oback_refresh o : oback o (refresh_succ o).
Proof.
  intros j x'. rewrite refresh_get. destruct (get j (oi o)) as [x|]; cbn; [|discriminate].
  intros [= <-]. exists x. split; [reflexivity|]. destruct (_ && _); auto.
Qed.
End Back.

Lemma okeep_trans x y z : okeep x y -> okeep y z -> okeep x z.
Proof. unfold okeep. intros (A1 & A2 & A3 & A4 & A5 & A6) (B1 & B2 & B3 & B4 & B5 & B6). repeat split; congruence. Qed.
#[export] Hint Resolve okeep_refl okeep_trans oinst_le_refl oinst_le_trans : core.

Lemma oinst_le_succ x : oinst_le x (x <| o_succ := true |>).
Proof. unfold oinst_le; cbn; repeat split; auto. Qed.

Ltac rel_side := first [exact okeep_trans | exact oinst_le_trans | exact okeep_refl | exact oinst_le_refl | exact oinst_le_succ | solve [auto]].
Ltac oback_close side :=
  repeat first
  [ apply oback_refl; rel_side
  | match goal with
    | |- oback ?R ?o (oi_upd ?i ?f ?X) =>
        apply (oback_trans R ltac:(rel_side) o X); [|apply oback_oi_upd; side]
    | |- oback ?R ?o (on_upd ?n ?f ?X) =>
        apply (oback_trans R ltac:(rel_side) o X); [|apply oback_on_upd; rel_side]
    | |- oback ?R ?o (fold_left (fun o i => oi_upd i ?f o) ?l ?X) =>
        apply (oback_trans R ltac:(rel_side) o X); [|apply oback_fold_oi_upd; [rel_side|rel_side|side]]
    | |- oback ?R ?o (RecordSet.set _ _ ?X) =>
        apply (oback_trans R ltac:(rel_side) o X); [|apply oback_eq; [rel_side|reflexivity]]
    end ].

(* events that leave everything P2 reads in the observer's instance records untouched *)
Definition oirr (e : event) : bool :=
  match e with
  | ENewInst _ _ | ERunChecked false | EInstExit | ELaunch _ | ECmdExit _ _ | EBackoffElapsed | EProcEnd _ _
  | ENoRestart _ | EStopEnter _ _ | EStopPending _ | EShutdownOrder _ => false
  | _ => true
  end.

Ltac okeep_side := intros; unfold okeep; cbn; repeat match goal with |- context[if ?b then _ else _] => destruct b; cbn end; repeat split; reflexivity.

Lemma obs_step_keep cs o th e : oirr e = true -> oback okeep o (obs_step cs o (th, e)).
Proof.
  intros Hirr. unfold obs_step. eapply oback_trans; [rel_side| |apply oback_refresh; [rel_side|okeep_side]].
  destruct e; try discriminate Hirr; cbn [fst snd];
  try (destruct (ev_inst o th _) eqn:Ev);
  try match goal with |- context[match ?b with true => _ | false => _ end] => destruct b end;
  try discriminate Hirr; unfold note_late_commit;
  repeat match goal with |- context[if ?b then _ else _] => destruct b end;
  try (apply oback_refl; rel_side); oback_close okeep_side.
Qed.

Ltac ole_side := oinst_le_tac.

Lemma obs_step_back cs o th e : (forall i n, e <> ENewInst i n) -> oback oinst_le o (obs_step cs o (th, e)).
Proof.
  intros Hnew. unfold obs_step. eapply oback_trans; [rel_side| |apply oback_refresh; rel_side].
  destruct e; try (exfalso; eapply Hnew; reflexivity); cbn [fst snd];
  try (destruct (ev_inst o th _) eqn:Ev);
  try match goal with |- context[match ?b with true => _ | false => _ end] => destruct b end;
  unfold note_late_commit;
  repeat match goal with |- context[if ?b then _ else _] => destruct b end;
  try (apply oback_refl; rel_side); oback_close ole_side.
Qed.

(* ---- Ro (observer only): without a dup, of two instances of a name one has ended ---------------------------- *)
Record Ro (o : obs) : Prop := mkRo {
  ro_pair : w_dup o = false -> forall i j xi xj, i <> j -> get i (oi o) = Some xi -> get j (oi o) = Some xj ->
            o_nm xi = o_nm xj -> o_ended xi = true \/ o_ended xj = true;
  ro_end : forall i xi, get i (oi o) = Some xi -> o_ended xi = true -> o_endst xi <> None
}.

Lemma Ro_init cs : Ro (obs0 cs).
Proof. constructor; cbn; intros; discriminate. Qed.

Definition oinst_le2 (x x' : oinst) : Prop :=
  oinst_le x x' /\ ((o_ended x = true -> o_endst x <> None) -> (o_ended x' = true -> o_endst x' <> None)).
Lemma oinst_le2_refl x : oinst_le2 x x.
Proof. unfold oinst_le2. repeat split; auto using oinst_le_refl. Qed.
Lemma oinst_le2_trans x y z : oinst_le2 x y -> oinst_le2 y z -> oinst_le2 x z.
Proof.
  unfold oinst_le2. intros (A1 & A3) (B1 & B3).
  split; [eapply oinst_le_trans; eauto|intros H; apply B3, A3, H].
Qed.
Lemma oinst_le2_succ x : oinst_le2 x (x <| o_succ := true |>).
Proof. unfold oinst_le2. repeat split; auto using oinst_le_succ. Qed.

Ltac ole2_side :=
  intros; unfold oinst_le2; split; [oinst_le_tac|];
  cbn; repeat match goal with |- context[if ?b then _ else _] => destruct b eqn:?; cbn end; auto; try discriminate;
  try (intros; match goal with E : opt_eqb status_eqb (o_endst ?x) _ = true |- _ => destruct (o_endst x); [discriminate|discriminate E] end).
Ltac rel2_side := first [exact oinst_le2_trans | exact oinst_le2_refl | exact oinst_le2_succ].
Ltac oback_close2 :=
  repeat first
  [ apply oback_refl; rel2_side
  | match goal with
    | |- oback ?R ?o (oi_upd ?i ?f ?X) =>
        apply (oback_trans R ltac:(rel2_side) o X); [|apply oback_oi_upd; ole2_side]
    | |- oback ?R ?o (on_upd ?n ?f ?X) =>
        apply (oback_trans R ltac:(rel2_side) o X); [|apply oback_on_upd; rel2_side]
    | |- oback ?R ?o (fold_left (fun o i => oi_upd i ?f o) ?l ?X) =>
        apply (oback_trans R ltac:(rel2_side) o X); [|apply oback_fold_oi_upd; [rel2_side|rel2_side|ole2_side]]
    | |- oback ?R ?o (RecordSet.set _ _ ?X) =>
        apply (oback_trans R ltac:(rel2_side) o X); [|apply oback_eq; [rel2_side|reflexivity]]
    end ].

Lemma obs_step_back2 cs o th e : (forall i n, e <> ENewInst i n) -> oback oinst_le2 o (obs_step cs o (th, e)).
Proof.
  intros Hnew. unfold obs_step. eapply oback_trans; [rel2_side| |apply oback_refresh; rel2_side].
  destruct e; try (exfalso; eapply Hnew; reflexivity); cbn [fst snd];
  try (destruct (ev_inst o th _) eqn:Ev);
  try match goal with |- context[match ?b with true => _ | false => _ end] => destruct b end;
  unfold note_late_commit;
  repeat match goal with |- context[if ?b then _ else _] => destruct b end;
  try (apply oback_refl; rel2_side); oback_close2.
Qed.

Lemma dup_mono cs o e : w_dup (obs_step cs o e) = false -> w_dup o = false.
Proof.
  pose proof (obs_step_flags_mono cs o e) as H. unfold flag_le, windows_of in H.
  inversion H as [|? ? ? ? _ H1]; subst. inversion H1 as [|? ? ? ? _ H2]; subst.
  inversion H2 as [|? ? ? ? _ H3]; subst. inversion H3 as [|? ? ? ? _ H4]; subst.
  inversion H4 as [|? ? ? ? _ H5]; subst. inversion H5 as [|? ? ? ? Hd _]; subst.
  intros A. destruct (w_dup o); [rewrite Hd in A by reflexivity; discriminate|reflexivity].
Qed.

Lemma get_in_vals {A} k (v : A) m : get k m = Some v -> In v (vals m).
Proof. intros H. apply get_in in H. unfold vals. apply in_map_iff. exists (k, v). auto. Qed.

Lemma Ro_step cs o th e : (forall i n, e = ENewInst i n -> get i (oi o) = None) -> Ro o -> Ro (obs_step cs o (th, e)).
Proof.
  intros Hnew [HR HE].
  assert (Hne : (forall i n, e <> ENewInst i n) \/ exists i n, e = ENewInst i n).
  { destruct e; try (left; intros; discriminate). right; eauto. }
  destruct Hne as [Hne|(i0 & n0 & ->)].
  - pose proof (obs_step_back2 cs o th e Hne) as Hb. split.
    + intros Hd i j xi' xj' Hij Hi Hj Hn. specialize (HR (dup_mono _ _ _ Hd)).
      destruct (Hb i xi' Hi) as (xi & Ei & Li & _). destruct (Hb j xj' Hj) as (xj & Ej & Lj & _).
      destruct Li as (Li1 & Li2 & _). destruct Lj as (Lj1 & Lj2 & _).
      destruct (HR i j xi xj Hij Ei Ej) as [A|A]; [congruence|left|right]; auto.
    + intros i xi' Hi. destruct (Hb i xi' Hi) as (xi & Ei & _ & L). apply L. apply (HE i xi Ei).
  - specialize (Hnew _ _ eq_refl).
    assert (Hex : forall (f : oinst -> bool) l x, existsb f l = false -> In x l -> f x = false).
    { intros f l x Hf Hin. destruct (f x) eqn:E; [|reflexivity]. rewrite <- Hf. symmetry. apply existsb_exists. eauto. }
    assert (HRf : forall (c : bool) (x : oinst),
                  o_nm (if c then x <| o_succ := true |> else x) = o_nm x /\
                  o_ended (if c then x <| o_succ := true |> else x) = o_ended x /\
                  o_endst (if c then x <| o_succ := true |> else x) = o_endst x).
    { intros [] x; cbn; auto. }
    assert (Hlook : forall j xj', get j (oi (obs_step cs o (th, ENewInst i0 n0))) = Some xj' ->
              (j = i0 /\ o_nm xj' = n0 /\ o_ended xj' = false) \/
              (j <> i0 /\ exists xj, get j (oi o) = Some xj /\ o_nm xj' = o_nm xj /\ o_ended xj' = o_ended xj /\ o_endst xj' = o_endst xj)).
    { intros j xj' Hj. unfold obs_step in Hj. cbn [fst snd ev_inst] in Hj. rewrite refresh_get in Hj. cbn [oi] in Hj. cbn in Hj.
      rewrite get_set in Hj. destruct (N.eqb_spec i0 j) as [<-|Hj0].
      - left. cbn in Hj. injection Hj as <-. auto.
      - right. split; [congruence|]. destruct (get j (oi o)) as [xj|] eqn:Ej; [|discriminate]. cbn in Hj. injection Hj as <-.
        exists xj. split; [reflexivity|]. match goal with |- context[if ?c then xj <| o_succ := true |> else xj] => apply (HRf c xj) end. }
    split.
    + intros Hd i j xi' xj' Hij Hi Hj Hn.
      assert (Hold : forall j xj, get j (oi o) = Some xj -> o_nm xj = n0 -> o_ended xj = true).
      { intros k xk Ek En. unfold obs_step in Hd. cbn in Hd. apply orb_false_iff in Hd. destruct Hd as [_ Hd].
        pose proof (Hex _ _ _ Hd (get_in_vals _ _ _ Ek)) as A. cbn in A. rewrite En, N.eqb_refl in A. cbn in A.
        now apply negb_false_iff in A. }
      destruct (Hlook i xi' Hi) as [(-> & Ni & _)|(Hi0 & xi & Ei & Ni & Edi & _)];
      destruct (Hlook j xj' Hj) as [(-> & Nj & _)|(Hj0 & xj & Ej & Nj & Edj & _)]; try congruence.
      * right. rewrite Edj. apply (Hold j xj Ej). congruence.
      * left. rewrite Edi. apply (Hold i xi Ei). congruence.
      * rewrite Edi, Edj. apply (HR (dup_mono _ _ _ Hd) i j xi xj Hij Ei Ej). congruence.
    + intros i xi' Hi He. destruct (Hlook i xi' Hi) as [(-> & _ & Hf)|(Hi0 & xi & Ei & _ & Edi & Esi)]; [congruence|].
      rewrite Esi. apply (HE i xi Ei). congruence.
Qed.

(* ---- model-side invariants about the creation stage ------------------------------------------------------------ *)
(* Rg: a begun instance has left runProcess; so has an instance that was launched *)
Record Rg (s : sys) : Prop := mkRg {
  rg_th : forall th i, get th (thinst s) = Some i -> get i (stage s) = None /\ get i (insts s) <> None;
  rg_la : forall i x, get i (insts s) = Some x -> 0 < launches x -> get i (stage s) = None
}.
(* Rz: an instance whose creation write is still ahead has no stop request and no onProcessEnd *)
Definition Rz (s : sys) (o : obs) : Prop :=
  forall i t, get i (stage s) = Some (t, 0) -> o_endst (oi_get o i) = None /\ o_stopreq (oi_get o i) = false.
(* Rs: the instance a pending-stop is about to end is not in a launched pc (outside the windows) *)
Definition Rs (s : sys) (o : obs) : Prop :=
  forall th i x, spc (get_thread s th) = SPend i -> W3 o = false -> get i (insts s) = Some x -> launched_pc (pc x) = false.

(* ---- backward frames of the model ---------------------------------------------------------------------- *)
Definition vrel (s s' : sys) : Prop :=
  forall n, restarts (vis_of s n) <= restarts (vis_of s' n) /\ (st (vis_of s' n) = SPending -> st (vis_of s n) = SPending).
Definition sback (s s' : sys) : Prop :=
  (forall j x', get j (insts s') = Some x' -> exists x, get j (insts s) = Some x /\ ikeep x x') /\ vrel s s'.

Lemma ikeep_trans x y z : ikeep x y -> ikeep y z -> ikeep x z.
Proof. unfold ikeep. intuition congruence. Qed.
Lemma vrel_refl s : vrel s s. Proof. intros n; split; auto. Qed.
Lemma vrel_trans s1 s2 s3 : vrel s1 s2 -> vrel s2 s3 -> vrel s1 s3.
Proof. intros A B n. destruct (A n), (B n). split; [lia|auto]. Qed.
Lemma sback_refl s : sback s s.
Proof. split; [intros j x H; eauto using ikeep_refl|apply vrel_refl]. Qed.
Lemma sback_trans s1 s2 s3 : sback s1 s2 -> sback s2 s3 -> sback s1 s3.
Proof.
  intros [A1 V1] [A2 V2]. split; [|eapply vrel_trans; eauto].
  intros j z Hz. destruct (A2 j z Hz) as (y & Hy & L2). destruct (A1 j y Hy) as (x & Hx & L1). eauto using ikeep_trans.
Qed.
Lemma sback_eq s s' : insts s' = insts s -> viss s' = viss s -> sback s s'.
Proof.
  intros A B. split.
  - intros j x H. rewrite A in H. eauto using ikeep_refl.
  - intros n. unfold vis_of. rewrite B. split; auto.
Qed.
Lemma sback_upd_inst i f s : (forall x, ikeep x (f x)) -> sback s (upd_inst i f s).
Proof.
  intros Hf. split.
  - intros j x'. rewrite insts_upd_inst. destruct (N.eqb i j); [|eauto using ikeep_refl].
    destruct (get j (insts s)) as [x|]; cbn; [|discriminate]. intros [= <-]. eauto.
  - intros n. rewrite vis_of_upd_inst. split; auto.
Qed.
Lemma sback_fold_upd_inst (f : inst -> inst) l : (forall x, ikeep x (f x)) ->
  forall s, sback s (fold_left (fun s i => upd_inst i f s) l s).
Proof.
  intros Hf. induction l as [|a l IH]; intros s; cbn; [apply sback_refl|].
  eapply sback_trans; [apply (sback_upd_inst a f s Hf)|apply IH].
Qed.
Lemma vis_of_upd_vis n f s m :
  vis_of (upd_vis n f s) m = if N.eqb n m then match get m (viss s) with Some v => f v | None => vis_of s m end else vis_of s m.
Proof.
  unfold vis_of. rewrite viss_upd_vis. destruct (N.eqb n m); [|reflexivity]. destruct (get m (viss s)); reflexivity.
Qed.
Lemma sback_upd_vis n f s :
  (forall v, restarts v <= restarts (f v) /\ (st (f v) = SPending -> st v = SPending)) -> sback s (upd_vis n f s).
Proof.
  intros Hf. split.
  - intros j x H. rewrite upd_vis_insts in H. eauto using ikeep_refl.
  - intros m. rewrite vis_of_upd_vis. destruct (N.eqb n m); [|split; auto].
    unfold vis_of. destruct (get m (viss s)) as [v|]; [apply Hf|split; auto].
Qed.

Ltac ikeep_side := intros; unfold ikeep; cbn; repeat split; reflexivity.
Ltac vkeep_side := intros; cbn; repeat match goal with |- context[match ?b with _ => _ end] => destruct b; cbn end;
                   split; [lia|try discriminate; auto].
Ltac sback_close :=
  unfold set_pc, end_release_early, end_finish, write_status;
  repeat first
  [ apply sback_refl
  | match goal with
    | |- sback ?s (upd_inst ?i ?f ?X) =>
        apply (sback_trans s X); [|apply sback_upd_inst; ikeep_side]
    | |- sback ?s (upd_vis ?n ?f ?X) =>
        apply (sback_trans s X); [|apply sback_upd_vis; vkeep_side]
    | |- sback ?s (fold_left (fun s i => upd_inst i ?f s) ?l ?X) =>
        apply (sback_trans s X); [|apply sback_fold_upd_inst; ikeep_side]
    | |- sback ?s (set_thread ?th ?t ?X) =>
        apply (sback_trans s X); [|apply sback_eq; reflexivity]
    | |- sback ?s (RecordSet.set _ _ ?X) =>
        apply (sback_trans s X); [|apply sback_eq; reflexivity]
    | |- sback ?s (if ?b then _ else _) => destruct b
    | |- sback ?s (match ?b with _ => _ end) => destruct b
    end ].

Lemma sback_reg s th e s' : (forall i n, e <> ENewInst i n) -> step_reg s th e = Some s' -> sback s s'.
Proof. intros Hne H. destruct e; try (exfalso; eapply Hne; reflexivity); kind_cases H; sback_close. Qed.
Lemma sback_stop s th e s' : step_stop s th e = Some s' -> sback s s'.
Proof. intros H. destruct e; kind_cases H; sback_close. Qed.
Lemma sback_api s th e s' : (forall i, e <> ENoRestart i) -> step_api s th e = Some s' -> sback s s'.
Proof. intros Hne H. destruct e; try (exfalso; eapply Hne; reflexivity); kind_cases H; sback_close. Qed.
Lemma sback_shutdown s th e s' : (forall l, e <> EShutdownOrder l) -> step_shutdown s th e = Some s' -> sback s s'.
Proof. intros Hne H. destruct e; try (exfalso; eapply Hne; reflexivity); kind_cases H; sback_close. Qed.
Lemma sback_ordered s th i s' : step_ordered_go s th i = Some s' -> sback s s'.
Proof. intros H. kind_cases H; sback_close. Qed.
Lemma sback_env s th e s' : (forall i c, e <> ECmdExit i c) -> step_env s th e = Some s' -> sback s s'.
Proof. intros Hne H. destruct e; try (exfalso; eapply Hne; reflexivity); kind_cases H; sback_close. Qed.

Lemma P2all_frame s o s' o' : P2all s o -> sback s s' -> oback okeep o o' -> wkeep o o' -> P2all s' o'.
Proof.
  intros HP [A V] B Wk j x' xo' Hx' Hxo'.
  destruct (A j x' Hx') as (x & Ex & Ik). destruct (B j xo' Hxo') as (xo & Exo & Ok).
  eapply P2_frame; [apply (HP j x xo Ex Exo)|exact Ik|exact Ok| |exact Wk].
  destruct (V (nm x)) as [V1 V2]. split; auto.
Qed.

Lemma vrel_vkeep s s' x : vrel s s' -> vkeep s s' x.
Proof. intros V. destruct (V (nm x)) as [V1 V2]. split; auto. Qed.

Ltac vrel_tac :=
  unfold set_pc, end_release_early, end_finish, write_status; intros n9; autorewrite with sup; rewrite ?vis_of_upd_vis;
  unfold vis_of;
  repeat match goal with |- context[N.eqb ?a n9] => destruct (N.eqb a n9) end;
  repeat match goal with |- context[match get n9 ?m with _ => _ end] => destruct (get n9 m) end;
  cbn; split; auto; try lia; try discriminate.

Lemma st_upd_vis n f s m : (forall v, st (f v) = st v) -> st (vis_of (upd_vis n f s) m) = st (vis_of s m).
Proof.
  intros Hf. rewrite vis_of_upd_vis. destruct (N.eqb n m); [|reflexivity]. unfold vis_of.
  destruct (get m (viss s)); [apply Hf|reflexivity].
Qed.
Lemma restarts_upd_vis n f s m : (forall v, restarts (f v) = restarts v) -> restarts (vis_of (upd_vis n f s) m) = restarts (vis_of s m).
Proof.
  intros Hf. rewrite vis_of_upd_vis. destruct (N.eqb n m); [|reflexivity]. unfold vis_of.
  destruct (get m (viss s)); [apply Hf|reflexivity].
Qed.

Ltac p2_pre :=
  repeat match goal with |- P2 _ _ ?X _ =>
    match X with
    | context[match ?v with _ => _ end] => destruct v eqn:?
    | context[if ?v then _ else _] => destruct v eqn:?
    end end.
(* solve one clause of P2 for the acting instance after its record has been destructed *)
Ltac p2_clause :=
  unfold set_pc in *; autorewrite with sup in *;
  rewrite ?st_upd_vis, ?restarts_upd_vis in * by reflexivity;
  cbn in *; intros;
  repeat match goal with
  | H : _ \/ _ |- _ => destruct H
  | H : exists _, _ |- _ => destruct H
  | H : _ /\ _ |- _ => destruct H
  | H : forall c, exited ?x = Some c -> _, H' : exited ?x = Some ?c0 |- _ => specialize (H _ H')
  | H : ?A -> _, H' : ?A |- _ => specialize (H H')
  | H : true = true -> _ |- _ => specialize (H eq_refl)
  end;
  try discriminate; try congruence; auto;
  try (split; auto; try lia; try discriminate; fail);
  try (intuition (try discriminate; try congruence; try lia; eauto); fail).

Definition own_special (e : event) : bool :=
  match e with EWaitReturn _ | EExitCode _ | ERestartDecision _ | EBackoffWait _ | EBackoffCancelled => true | _ => false end.


(* ================= window facts, observer shapes, tactics (from RelC02c) ================= *)
Lemma opt_eqb_Z_eq a b : opt_eqb Z.eqb a b = true -> a = b.
Proof. destruct a, b; cbn; try discriminate; auto. intros H. apply Z.eqb_eq in H. now subst. Qed.

Lemma W3_W2 o : W3 o = false -> W2 o = false.
Proof. unfold W3, W2. destruct (w_commit o), (w_sdlag o); cbn; auto. Qed.

(* clause solver that normalises only the goal: the hypotheses (about the pre-state) are normalised once, before
   the record is split, by own_tac *)
Ltac p2_goal :=
  unfold set_pc; autorewrite with sup;
  rewrite ?st_upd_vis, ?restarts_upd_vis by reflexivity;
  cbn; intros;
  repeat match goal with
  | H : _ \/ _ |- _ => destruct H
  | H : exists _, _ |- _ => destruct H
  | H : _ /\ _ |- _ => destruct H
  | H : forall c, exited ?x = Some c -> _, H' : exited ?x = Some ?c0 |- _ => specialize (H _ H')
  | H : ?A -> _, H' : ?A |- _ => specialize (H H')
  | H : true = true -> _ |- _ => specialize (H eq_refl)
  end;
  try discriminate; try congruence; auto;
  try (split; auto; try lia; try discriminate; fail);
  try (intuition (try discriminate; try congruence; try lia; eauto); fail).

Ltac own_tac HP H :=
  kind_cases H; split_andb; subst;
  match goal with E : get ?th (thinst ?s) = Some ?i, E0 : get ?i (insts ?s) = Some ?x |- _ =>
    intros j9 x9 xo9 Hx9 Hxo9; unfold set_pc in Hx9; autorewrite with sup in Hx9; cbn [fst snd] in Hx9;
    destruct (N.eqb_spec i j9) as [<-|Hne];
    [ rewrite E0 in Hx9; cbn in Hx9; injection Hx9 as <-; pose proof (HP _ _ _ E0 Hxo9) as HPx; p2_pre; destruct HPx as [Pcommit Pstop Pexited Palive Pcode Pdecided Prelaunch Pgaveup Prestarts Ppre Pfstopped Prunctx Pendst Pgone Pnostop Pstatus Ps1 Pendst2];
      try match goal with E : pc _ = _ |- _ => rewrite E in * end; cbn in *; constructor
    | eapply P2_frame; [apply (HP j9 x9 xo9 Hx9 Hxo9)|apply ikeep_refl|apply okeep_refl|apply vrel_vkeep; vrel_tac|apply wkeep_refl] ]
  end;
  try match goal with E : pc _ = _ |- _ => rewrite E end;
  try (p2_goal; fail).


Ltac okeep_use Ok :=
  let O1 := fresh "O" in let O2 := fresh "O" in let O3 := fresh "O" in let O4 := fresh "O" in let O5 := fresh "O" in let O6 := fresh "O" in
  destruct Ok as (O1 & O2 & O3 & O4 & O5 & O6); cbn in O1, O2, O3, O4, O5, O6.

Ltac w_contra Wlem Et :=
  let Hw := fresh in let Hs := fresh in intros Hw Hs; try apply W3_W2 in Hw; apply (Wlem _ _ _ Et) in Hw;
  match goal with Exo : get ?i (oi ?o) = Some ?x |- _ => rewrite (oi_get_some _ _ _ Exo) in Hw end; cbn in *; congruence.

(* combined step of model and observer for an event about instance i whose observer reaction has the common shape *)
Ltac comb_tac HP i E0 Hshape Hwk :=
  let j9 := fresh "j" in let x9 := fresh "x" in let xo9 := fresh "xo" in let Hx9 := fresh "Hx" in let Hxo9 := fresh "Hxo" in
  let xo := fresh "xo" in let Exo := fresh "Exo" in let Ok := fresh "Ok" in let Hne := fresh "Hne" in let HPx := fresh "HPx" in
  intros j9 x9 xo9 Hx9 Hxo9; unfold set_pc in Hx9; autorewrite with sup in Hx9; cbn [fst snd] in Hx9;
  destruct (Hshape j9 xo9 Hxo9) as (xo & Exo & Ok);
  destruct (N.eqb_spec i j9) as [<-|Hne];
  [ rewrite ?E0 in Hx9; cbn in Hx9; injection Hx9 as <-; pose proof (HP _ _ _ E0 Exo) as HPx; p2_pre;
    destruct HPx as [Pcommit Pstop Pexited Palive Pcode Pdecided Prelaunch Pgaveup Prestarts Ppre Pfstopped Prunctx Pendst Pgone Pnostop Pstatus Ps1 Pendst2];
    okeep_use Ok; rewrite ?N.eqb_refl in *; try match goal with E : pc _ = _ |- _ => rewrite E in * end; cbn in *; constructor
  | eapply P2_frame; [apply (HP j9 x9 xo Hx9 Exo)|apply ikeep_refl|exact Ok|apply vrel_vkeep; vrel_tac|exact Hwk] ].

Section CDefs.
Context (cs : amap pconf).

(* ---- what the window flags say after the events that can raise them ---------------------------------- *)

Lemma note_late_W o i : W2 (note_late_commit o i) = false -> o_stopreq (oi_get o i) = false /\ W2 o = false.
Proof.
  unfold note_late_commit. destruct (o_stopreq (oi_get o i)); [|auto].
  destruct (stopping o i); unfold W2; cbn; rewrite ?orb_true_r; discriminate.
Qed.

Lemma W_RunChecked o th i : get th (o_th o) = Some i ->
  W2 (obs_step cs o (th, ERunChecked false)) = false -> o_stopreq (oi_get o i) = false.
Proof.
  intros Et. unfold obs_step. cbn [ev_inst fst snd]. rewrite Et. rewrite W_refresh, W_oi_upd. intros H. now apply note_late_W in H.
Qed.
Lemma W_BackoffElapsed o th i : get th (o_th o) = Some i ->
  W2 (obs_step cs o (th, EBackoffElapsed)) = false -> o_stopreq (oi_get o i) = false.
Proof.
  intros Et. unfold obs_step. cbn [ev_inst fst snd]. rewrite Et. rewrite W_refresh, W_oi_upd. intros H. now apply note_late_W in H.
Qed.
Lemma W_NoRestart o th i : W2 (obs_step cs o (th, ENoRestart i)) = false -> o_commit (oi_get o i) = false.
Proof.
  unfold obs_step. cbn [ev_inst fst snd]. rewrite W_refresh, W_oi_upd. unfold W2. cbn.
  destruct (o_commit (oi_get o i)); [rewrite orb_true_r; discriminate|auto].
Qed.
Lemma W_StopPending o th i : W2 (obs_step cs o (th, EStopPending i)) = false -> o_commit (oi_get o i) = false.
Proof.
  unfold obs_step. cbn [ev_inst fst snd]. rewrite W_refresh, W_oi_upd. unfold W2. cbn.
  destruct (o_commit (oi_get o i)); [rewrite orb_true_r; discriminate|auto].
Qed.
Lemma W_StopEnter o th i cancel : W2 (obs_step cs o (th, EStopEnter i cancel)) = false -> cancel && o_commit (oi_get o i) = false.
Proof.
  unfold obs_step. cbn [ev_inst fst snd]. rewrite W_refresh, W_oi_upd. unfold W2. cbn.
  destruct (cancel && o_commit (oi_get o i)); [rewrite orb_true_r; discriminate|auto].
Qed.
Lemma W_ShutdownOrder o th order i : W2 (obs_step cs o (th, EShutdownOrder order)) = false -> memN i order = true ->
  o_commit (oi_get o i) = false.
Proof.
  unfold obs_step. cbn [ev_inst fst snd]. rewrite W_refresh. unfold W2. cbn.
  rewrite (fold_oi_upd_proj w_commit), (fold_oi_upd_proj w_sdlag); try (intros; unfold oi_upd; destruct (get _ _); reflexivity).
  cbn. intros H Hm. destruct (o_commit (oi_get o i)) eqn:E; [|reflexivity].
  pose proof (existsb_mem (fun i : iid => o_commit (oi_get o i)) order i Hm E) as Hx. cbn beta in Hx.
  apply orb_false_iff in H. destruct H as [H _]. apply orb_false_iff in H. destruct H as [_ H].
  exact (eq_trans (eq_sym Hx) H).
Qed.

(* the common shape of the observer's reaction: one instance record is updated, then refresh_succ *)
Lemma obs_upd_shape o o0 i f j xo' : oi o0 = oi o -> get j (oi (refresh_succ (oi_upd i f o0))) = Some xo' ->
  exists xo, get j (oi o) = Some xo /\ okeep (if N.eqb i j then f xo else xo) xo'.
Proof.
  intros E. rewrite refresh_get, oi_upd_get, E. destruct (get j (oi o)) as [xo|]; [|destruct (N.eqb i j); discriminate].
  exists xo. split; [reflexivity|]. destruct (N.eqb i j); cbn in H; injection H as <-;
    match goal with |- context[if ?c then _ else _] => destruct c end; unfold okeep; cbn; repeat split; reflexivity.
Qed.

Lemma own_obs_shape o th e i : get th (o_th o) = Some i ->
  match e with
  | ERunChecked false => forall j xo', get j (oi (obs_step cs o (th, e))) = Some xo' ->
      exists xo, get j (oi o) = Some xo /\ okeep (if N.eqb i j then xo <| o_commit := true |> else xo) xo'
  | EBackoffElapsed => forall j xo', get j (oi (obs_step cs o (th, e))) = Some xo' ->
      exists xo, get j (oi o) = Some xo /\ okeep (if N.eqb i j then xo <| o_elapsed := true |> <| o_commit := true |> else xo) xo'
  | EInstExit => forall j xo', get j (oi (obs_step cs o (th, e))) = Some xo' ->
      exists xo, get j (oi o) = Some xo /\ okeep (if N.eqb i j then xo <| o_gone := true |> else xo) xo'
  | ELaunch true => forall j xo', get j (oi (obs_step cs o (th, e))) = Some xo' ->
      exists xo, get j (oi o) = Some xo /\
        okeep (if N.eqb i j then xo <| o_launches := S (o_launches xo) |> <| o_alive := true |> <| o_elapsed := false |> <| o_commit := false |> else xo) xo'
  | ELaunch false => forall j xo', get j (oi (obs_step cs o (th, e))) = Some xo' ->
      exists xo, get j (oi o) = Some xo /\ okeep (if N.eqb i j then xo <| o_commit := false |> else xo) xo'
  | _ => True
  end.
Proof.
  intros Et. destruct e; auto; try (destruct term); try (destruct ok); auto;
  intros j xo'; unfold obs_step; cbn [ev_inst fst snd]; rewrite Et; intros H; eapply obs_upd_shape in H; eauto.
  all: unfold note_late_commit; repeat match goal with |- context[if ?b then _ else _] => destruct b end; reflexivity.
Qed.

Lemma own_th s o th i x : Rc cs s o -> get th (thinst s) = Some i -> get i (insts s) = Some x ->
  get th (o_th o) = Some i /\ exists xo, get i (oi o) = Some xo.
Proof.
  intros HRc Et Ex. split; [now rewrite <- (rc_th _ _ _ HRc)|].
  destruct (rc_inst _ _ _ HRc _ _ Ex) as (xo & Exo & _). eauto.
Qed.

End CDefs.


(* ================= status writes, onProcessEnd helpers (from RelC02d) ================= *)
Lemma P2_frame2 s o x xo s' o' x' xo' :
  P2 s o x xo -> ikeep x x' -> okeep xo xo' -> restarts (vis_of s (nm x)) <= restarts (vis_of s' (nm x)) -> wkeep o o' ->
  (W3 o' = false -> launched_pc (pc x) = true -> st (vis_of s' (nm x)) <> SPending) -> P2 s' o' x' xo'.
Proof.
  intros [] (I1 & I2 & I3 & I4 & I5 & I6 & I7 & I8) (O1 & O2 & O3 & O4 & O5 & O6) V1 (Wa & Wb) Hst.
  constructor; unfold Pok, GaveUp in *; rewrite ?I1, ?I2, ?I3, ?I4, ?I5, ?I6, ?I7, ?I8, ?O1, ?O2, ?O3, ?O4, ?O5, ?O6; auto.
  - intros c Hc. destruct (p_gaveup0 c Hc) as (A & B). split; [exact A|].
    destruct B as [B|[B|[B1 B2]]]; auto. right; right. split; [exact B1|lia].
  - destruct p_restarts0 as [A B]. split; [lia|]. intros Hr. specialize (B Hr). lia.
Qed.

Lemma st_write_status n s0 s m :
  st (vis_of (write_status n s0 s) m) =
  if N.eqb n m then match get m (viss s) with Some _ => s0 | None => SPending end else st (vis_of s m).
Proof.
  unfold write_status. rewrite vis_of_upd_vis. destruct (N.eqb n m); [|reflexivity]. unfold vis_of.
  destruct (get m (viss s)); [|reflexivity]. destruct s0; reflexivity.
Qed.
Lemma restarts_write_status n s0 s m : restarts (vis_of (write_status n s0 s) m) = restarts (vis_of s m).
Proof.
  unfold write_status. rewrite vis_of_upd_vis. destruct (N.eqb n m); [|reflexivity]. unfold vis_of.
  destruct (get m (viss s)); [|reflexivity]. destruct s0; reflexivity.
Qed.

Lemma keep_shape o o' i : oback okeep o o' -> forall j xo', get j (oi o') = Some xo' ->
  exists xo, get j (oi o) = Some xo /\ okeep (if N.eqb i j then xo else xo) xo'.
Proof. intros H j xo' Hj. destruct (H j xo' Hj) as (xo & E & K). exists xo. split; [exact E|]. now destruct (N.eqb i j). Qed.

Section DDefs.
Context (cs : amap pconf).

Lemma vis_exists s o i x : Rc cs s o -> get i (insts s) = Some x -> exists v, get (nm x) (viss s) = Some v.
Proof.
  intros HRc Ex. destruct (rc_inst _ _ _ HRc _ _ Ex) as (xo & _ & _ & Hcf & _).
  destruct (rc_name _ _ _ HRc _ _ Hcf) as (v & r & Ev & _). eauto.
Qed.

(* outside the dup/zombie windows a name has at most one instance that has not left *)
(* outside the dup window: an instance whose creation write is ahead has no launched sibling *)
Lemma other_launched_absurd s o i j x y : Rc cs s o -> Ro o -> Rz s o -> P2all s o -> W3 o = false -> i <> j ->
  get i (insts s) = Some x -> get j (insts s) = Some y -> nm x = nm y ->
  (exists t, get i (stage s) = Some (t, 0)) -> launched_pc (pc y) = true -> False.
Proof.
  intros HRc HRo HRz HP HW Hij Ex Ey Hn (t & Hst) Hly.
  destruct (rc_inst _ _ _ HRc _ _ Ex) as (xo & Exo & Nx & _). destruct (rc_inst _ _ _ HRc _ _ Ey) as (yo & Eyo & Ny & _).
  assert (Hd : w_dup o = false) by (unfold W3 in HW; destruct (w_commit o), (w_sdlag o), (w_dup o); try discriminate; auto).
  destruct (ro_pair _ HRo Hd i j xo yo Hij Exo Eyo) as [G|G]; [congruence| |].
  - apply (ro_end _ HRo _ _ Exo) in G. destruct (HRz i t Hst) as [Z _]. rewrite (oi_get_some _ _ _ Exo) in Z. congruence.
  - apply (ro_end _ HRo _ _ Eyo) in G. rewrite (p_endst2 _ _ _ _ (HP _ _ _ Ey Eyo) HW G) in Hly. discriminate.
Qed.

(* ---- status writes -------------------------------------------------------------------------------------- *)
Lemma P2all_status_others s o s' o' i x n s0 :
  Rc cs s o -> Ro o -> Rz s o -> P2all s o -> wkeep o o' -> oback okeep o o' ->
  get i (insts s) = Some x -> n = nm x -> ((exists t, get i (stage s) = Some (t, 0)) \/ s0 <> SPending) ->
  (forall m, st (vis_of s' m) = if N.eqb n m then match get m (viss s) with Some _ => s0 | None => SPending end else st (vis_of s m)) ->
  (forall m, restarts (vis_of s' m) = restarts (vis_of s m)) ->
  forall j y y' yo', j <> i -> get j (insts s) = Some y -> ikeep y y' -> get j (oi o') = Some yo' -> P2 s' o' y' yo'.
Proof.
  intros HRc HRo HRz HP Hwk Hk Ex -> Hor Hst Hres j y y' yo' Hji Ey Ik Eyo'.
  destruct (Hk j yo' Eyo') as (yo & Eyo & Ok).
  eapply P2_frame2; [apply (HP _ _ _ Ey Eyo)|exact Ik|exact Ok|rewrite Hres; lia|exact Hwk|].
  intros Hw Hl. rewrite Hst. destruct (N.eqb_spec (nm x) (nm y)) as [En|En].
  - destruct (vis_exists _ _ _ _ HRc Ey) as (v & ->). destruct Hor as [Hg|Hs0]; [|exact Hs0].
    exfalso. eapply (other_launched_absurd s o i j x y); eauto. apply Hwk, Hw.
  - apply (p_status _ _ _ _ (HP _ _ _ Ey Eyo)); [apply Hwk, Hw|exact Hl].
Qed.

(* ---- onProcessEnd ---------------------------------------------------------------------------------------- *)
Lemma procend_shape o th i s0 : forall j xo', get j (oi (obs_step cs o (th, EProcEnd i s0))) = Some xo' ->
  exists xo, get j (oi o) = Some xo /\
    okeep (if N.eqb i j then xo <| o_endst := Some s0 |> <| o_commit := if opt_eqb N.eqb (get th (o_th o)) (Some i) then false else o_commit xo |> else xo) xo'.
Proof. intros j xo'. unfold obs_step. cbn [ev_inst fst snd]. intros H. eapply obs_upd_shape in H; eauto. Qed.

End DDefs.

Ltac inst_i_tac HP Ex Hk i :=
  (* goal: P2 s' o' x' xo' for the acting instance i, with x' an update of x *)
  match goal with Hxo : get i (oi ?o') = Some ?xo' |- _ =>
    let xo := fresh "xo" in let Exo := fresh "Exo" in let Ok := fresh "Ok" in let HPx := fresh "HPx" in
    destruct (Hk i xo' Hxo) as (xo & Exo & Ok); pose proof (HP _ _ _ Ex Exo) as HPx;
    destruct HPx as [Pcommit Pstop Pexited Palive Pcode Pdecided Prelaunch Pgaveup Prestarts Ppre Pfstopped Prunctx Pendst Pgone Pnostop Pstatus Ps1 Pendst2];
    destruct Ok as (Oa & Ob & Oc & Od & Oe & Of); cbn in Oa, Ob, Oc, Od, Oe, Of; constructor;
    rewrite ?Oa, ?Ob, ?Oc, ?Od, ?Oe, ?Of
  end.

Ltac wk_intro Hwk :=
  match goal with
  | |- W2 _ = false -> _ => let Hw := fresh "Hw" in intros Hw; pose proof (proj1 Hwk Hw)
  | |- W3 _ = false -> _ => let Hw := fresh "Hw" in intros Hw; pose proof (proj2 Hwk Hw); pose proof (proj1 Hwk (W3_W2 _ Hw))
  | _ => idtac
  end.

Ltac state_fin Hwk Ev :=
  unfold set_pc; autorewrite with sup; rewrite ?st_write_status, ?restarts_write_status; cbn; rewrite ?N.eqb_refl, ?Ev;
  try match goal with E : pc _ = _ |- _ => rewrite E in * end;
  wk_intro Hwk; try (p2_clause; fail).

Ltac comb_tac2 HP i E0 Hshape Hwk :=
  let j9 := fresh "j" in let x9 := fresh "x" in let xo9 := fresh "xo" in let Hx9 := fresh "Hx" in let Hxo9 := fresh "Hxo" in
  let xo := fresh "xo" in let Exo := fresh "Exo" in let Ok := fresh "Ok" in let Hne := fresh "Hne" in let HPx := fresh "HPx" in
  intros j9 x9 xo9 Hx9 Hxo9; unfold set_pc in Hx9; autorewrite with sup in Hx9; cbn [fst snd] in Hx9;
  destruct (Hshape j9 xo9 Hxo9) as (xo & Exo & Ok);
  destruct (N.eqb_spec i j9) as [<-|Hne];
  [ rewrite ?E0 in Hx9; cbn in Hx9; injection Hx9 as <-; pose proof (HP _ _ _ E0 Exo) as HPx; p2_pre;
    destruct HPx as [Pcommit Pstop Pexited Palive Pcode Pdecided Prelaunch Pgaveup Prestarts Ppre Pfstopped Prunctx Pendst Pgone Pnostop Pstatus Ps1 Pendst2];
    destruct Ok as (Oa & Ob & Oc & Od & Oe & Of); rewrite ?N.eqb_refl in *; cbn in Oa, Ob, Oc, Od, Oe, Of;
    try match goal with E : pc _ = _ |- _ => rewrite E in * end; cbn in *; constructor;
    rewrite ?Oa, ?Ob, ?Oc, ?Od, ?Oe, ?Of
  | eapply P2_frame; [apply (HP j9 x9 xo Hx9 Exo)|apply ikeep_refl|exact Ok|apply vrel_vkeep; vrel_tac|exact Hwk] ].

Ltac gaveup_tac :=
  let c0 := fresh "c" in let Hc := fresh "Hc" in let b9 := fresh "b" in
  intros c0 Hc; cbn in Hc; destruct Hc as [Hc|[b9 Hc]]; try discriminate Hc; inversion Hc; subst;
  match goal with Pg : forall c, _ \/ _ -> o_code _ = Some c /\ GaveUp _ _ _ c |- _ =>
    let A := fresh in let B := fresh in
    edestruct Pg as (A & B); [solve [left; reflexivity | right; eexists; reflexivity]|];
    split; [exact A|]; unfold GaveUp in *; cbn; unfold set_pc, end_finish; autorewrite with sup;
    repeat match goal with Hq : o_stopreq _ = o_stopreq _ |- _ => rewrite Hq end; exact B
  end.

Ltac comb_fin Hwk :=
  try match goal with E : pc _ = _ |- _ => rewrite E end;
  wk_intro Hwk; try (p2_goal; fail).

